From Coq Require Import ZArith NArith List Lia Bool.
From Coq Require Import ZifyBool ZifyNat ZifyN.
Require Import Cbor0.
Import ListNotations. Open Scope N_scope.
Ltac Zify.zify_post_hook ::= Z.div_mod_to_equations.

Section ind.
  Variable P : item -> Prop.
  Hypothesis HU : forall f n, P (UInt f n).
  Hypothesis HA : forall f xs, Forall P xs -> P (Arr f xs).
  Fixpoint item_ind' (i:item) : P i :=
    match i with
    | UInt f n => HU f n
    | Arr f xs => HA f xs ((fix go l : Forall P l :=
                              match l with [] => Forall_nil _ | x::r => Forall_cons _ (item_ind' x) (go r) end) xs)
    end.
End ind.

Definition wfl := fix all (l:list item) := match l with [] => True | x::r => wf x /\ all r end.
Lemma wfl_Forall l : wfl l <-> Forall wf l.
Proof. induction l as [|x r IH]; simpl; split; intros H; auto.
  - destruct H; constructor; tauto.
  - inversion H; subst; tauto. Qed.

Fixpoint need (i:item) : nat :=
  match i with
  | UInt _ _ => 1
  | Arr _ xs => S ((fix nl (l:list item) := match l with [] => 1 | x::r => S (Nat.max (need x) (nl r)) end) xs)
  end%nat.
Definition needl := fix nl (l:list item) : nat := match l with [] => 1 | x::r => S (Nat.max (need x) (nl r)) end%nat.

(* ---- big-endian read/write ---- *)
Definition val (l:list N) (acc:N) : N := fold_left (fun a b => a*256 + b) l acc.

Lemma rd_app l : forall rest acc, rd (length l) (l ++ rest) acc = Some (val l acc, rest).
Proof. induction l as [|b l IH]; intros rest acc; cbn [rd length app val fold_left]; [reflexivity|]. apply IH. Qed.

Lemma be_length k : forall n, length (be k n) = k.
Proof. induction k as [|k IH]; intros n; cbn [be]; [reflexivity|]. rewrite app_length, IH. cbn. lia. Qed.

Lemma val_be k : forall n acc, n < 256^(N.of_nat k) -> val (be k n) acc = acc * 256^(N.of_nat k) + n.
Proof.
  induction k as [|k IH]; intros n acc Hn.
  - cbn in *. lia.
  - cbn [be]. unfold val in *. rewrite fold_left_app. cbn [fold_left].
    replace (N.of_nat (S k)) with (N.succ (N.of_nat k)) in * by lia.
    rewrite N.pow_succ_r' in *.
    rewrite IH by (apply N.div_lt_upper_bound; lia).
    pose proof (N.div_mod n 256 ltac:(lia)). lia.
Qed.

Lemma rd_be k n rest : n < 256^(N.of_nat k) -> rd k (be k n ++ rest) 0 = Some (n, rest).
Proof. intros H. rewrite <- (be_length k n) at 1. rewrite rd_app. rewrite val_be by exact H. reflexivity. Qed.

Definition nbytes (f:form) : nat := match f with Fimm => 0 | F1 => 1 | F2 => 2 | F4 => 4 | F8 => 8 end.
Definition ai_of (f:form) (n:N) : N := match f with Fimm => n | F1 => 24 | F2 => 25 | F4 => 26 | F8 => 27 end.

Lemma enc_head_shape mt f n : enc_head mt f n = (mt*32 + ai_of f n) :: be (nbytes f) n.
Proof. destruct f; reflexivity. Qed.

Lemma fits_pow f n : fits f n -> f <> Fimm -> n < 256^(N.of_nat (nbytes f)).
Proof. destruct f; cbn; intros; try congruence; lia. Qed.

Lemma read_arg_enc f n rest : fits f n ->
  read_arg (ai_of f n) (be (nbytes f) n ++ rest) = Ok (f, n) rest.
Proof.
  intros Hf. unfold read_arg. destruct f; cbn [ai_of nbytes].
  - cbn in Hf. destruct (N.ltb_spec n 24); [reflexivity|lia].
  - change (24 <? 24) with false. cbn -[rd be]. rewrite (rd_be 1 n) by (cbn in *; lia). reflexivity.
  - change (25 <? 24) with false. cbn -[rd be]. rewrite (rd_be 2 n) by (cbn in *; lia). reflexivity.
  - change (26 <? 24) with false. cbn -[rd be]. rewrite (rd_be 4 n) by (cbn in *; lia). reflexivity.
  - change (27 <? 24) with false. cbn -[rd be]. rewrite (rd_be 8 n) by (cbn in *; lia). reflexivity.
Qed.

Lemma ai_lt f n : fits f n -> ai_of f n < 32.
Proof. destruct f; cbn; lia. Qed.
Lemma ai_ne31 f n : fits f n -> ai_of f n <> 31.
Proof. destruct f; cbn; lia. Qed.
