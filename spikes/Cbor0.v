From Coq Require Import ZArith NArith List Lia Bool.
From Coq Require Import ZifyBool ZifyNat ZifyN.
Import ListNotations. Open Scope N_scope.
Ltac Zify.zify_post_hook ::= Z.div_mod_to_equations.

(* ---------- syntax that keeps every encoding choice ---------- *)
Inductive form := Fimm | F1 | F2 | F4 | F8.
Inductive item :=
| UInt (f:form) (n:N)
| Arr (f:option form) (xs:list item).

Definition fits (f:form) (n:N) : Prop :=
  match f with Fimm => n < 24 | F1 => n < 2^8 | F2 => n < 2^16 | F4 => n < 2^32 | F8 => n < 2^64 end.

Fixpoint wf (i:item) : Prop :=
  match i with
  | UInt f n => fits f n
  | Arr f xs => (match f with Some f => fits f (N.of_nat (length xs)) | None => True end)
                /\ (fix all (l:list item) := match l with [] => True | x::r => wf x /\ all r end) xs
  end.

(* big-endian bytes of n on k bytes *)
Fixpoint be (k:nat) (n:N) : list N :=
  match k with O => [] | S k' => be k' (n / 256) ++ [n mod 256] end.

Definition enc_head (mt:N) (f:form) (n:N) : list N :=
  match f with
  | Fimm => [mt*32 + n]
  | F1 => (mt*32 + 24) :: be 1 n
  | F2 => (mt*32 + 25) :: be 2 n
  | F4 => (mt*32 + 26) :: be 4 n
  | F8 => (mt*32 + 27) :: be 8 n
  end.

Fixpoint enc (i:item) : list N :=
  match i with
  | UInt f n => enc_head 0 f n
  | Arr (Some f) xs => enc_head 4 f (N.of_nat (length xs)) ++ flat_map enc xs
  | Arr None xs => [159] ++ flat_map enc xs ++ [255]
  end.

(* ---------- parser ---------- *)
Inductive res (A:Type) := Ok (a:A) (rest:list N) | NeedMore | Bad.
Arguments Ok {A}. Arguments NeedMore {A}. Arguments Bad {A}.

Fixpoint rd (k:nat) (bs:list N) (acc:N) : option (N * list N) :=
  match k with O => Some (acc, bs) | S k' =>
    match bs with [] => None | b::r => rd k' r (acc*256 + b) end end.

Definition read_arg (ai:N) (bs:list N) : res (form * N) :=
  if ai <? 24 then Ok (Fimm, ai) bs
  else let go f k := match rd k bs 0 with Some (n, r) => Ok (f, n) r | None => NeedMore end in
  if ai =? 24 then go F1 1%nat else if ai =? 25 then go F2 2%nat
  else if ai =? 26 then go F4 4%nat else if ai =? 27 then go F8 8%nat else Bad.

Fixpoint parse (fuel:nat) (bs:list N) {struct fuel} : res item :=
  match fuel with O => Bad | S fu =>
    match bs with [] => NeedMore | b::r =>
      let mt := b / 32 in let ai := b mod 32 in
      if mt =? 0 then
        match read_arg ai r with Ok (f,n) r' => Ok (UInt f n) r' | NeedMore => NeedMore | Bad => Bad end
      else if mt =? 4 then
        if ai =? 31 then
          match parse_indef fu r with Ok xs r' => Ok (Arr None xs) r' | NeedMore => NeedMore | Bad => Bad end
        else
          match read_arg ai r with
          | Ok (f,n) r' =>
              match parse_n fu n r' with Ok xs r'' => Ok (Arr (Some f) xs) r'' | NeedMore => NeedMore | Bad => Bad end
          | NeedMore => NeedMore | Bad => Bad end
      else Bad
    end end
with parse_n (fuel:nat) (k:N) (bs:list N) {struct fuel} : res (list item) :=
  match fuel with O => Bad | S fu =>
    if k =? 0 then Ok [] bs else
    match parse fu bs with
    | Ok x r => match parse_n fu (k-1) r with Ok xs r' => Ok (x::xs) r' | NeedMore => NeedMore | Bad => Bad end
    | NeedMore => NeedMore | Bad => Bad end end
with parse_indef (fuel:nat) (bs:list N) {struct fuel} : res (list item) :=
  match fuel with O => Bad | S fu =>
    match bs with [] => NeedMore | b::r =>
      if b =? 255 then Ok [] r else
      match parse fu bs with
      | Ok x r' => match parse_indef fu r' with Ok xs r'' => Ok (x::xs) r'' | NeedMore => NeedMore | Bad => Bad end
      | NeedMore => NeedMore | Bad => Bad end
    end end.

(* sanity *)
Example ex1 : parse 10 [152;2;1;129;24;200;7] = Ok (Arr (Some F1) [UInt Fimm 1; Arr (Some Fimm) [UInt F1 200]]) [7].
Proof. vm_compute. reflexivity. Qed.
Example ex2 : parse 10 [159;1;255] = Ok (Arr None [UInt Fimm 1]) [].
Proof. vm_compute. reflexivity. Qed.
Example ex3 : parse 10 [159;1] = NeedMore. Proof. vm_compute. reflexivity. Qed.
Example ex4 : parse 10 [152] = NeedMore. Proof. vm_compute. reflexivity. Qed.
