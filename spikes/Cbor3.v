From Coq Require Import ZArith NArith List Lia Bool.
From Coq Require Import ZifyBool ZifyNat ZifyN.
Require Import Cbor0 Cbor1 Cbor2.
Import ListNotations. Open Scope N_scope.
Ltac Zify.zify_post_hook ::= Z.div_mod_to_equations.

Lemma rd_short k : forall l acc, (length l < k)%nat -> rd k l acc = None.
Proof. induction k as [|k IH]; intros l acc H; [cbn in H; lia|]. destruct l as [|b l]; [reflexivity|]. cbn [rd]. apply IH. cbn in H. lia. Qed.

Lemma read_arg_short f n p q : fits f n -> be (nbytes f) n = p ++ q -> q <> [] ->
  read_arg (ai_of f n) p = NeedMore.
Proof.
  intros Hf E Hq.
  assert (Hlen: (length p < nbytes f)%nat).
  { pose proof (be_length (nbytes f) n) as L. rewrite E, app_length in L.
    destruct q; [congruence|]. cbn in L. lia. }
  unfold read_arg. destruct f; cbn [ai_of nbytes] in *; try lia.
  - change (24 <? 24) with false. cbn -[rd]. rewrite rd_short by exact Hlen. reflexivity.
  - change (25 <? 24) with false. cbn -[rd]. rewrite rd_short by exact Hlen. reflexivity.
  - change (26 <? 24) with false. cbn -[rd]. rewrite rd_short by exact Hlen. reflexivity.
  - change (27 <? 24) with false. cbn -[rd]. rewrite rd_short by exact Hlen. reflexivity.
Qed.

Definition Ppre (i:item) : Prop :=
  wf i -> forall p q, enc i = p ++ q -> q <> [] -> forall fuel, (need i <= fuel)%nat -> parse fuel p = NeedMore.

Lemma parse_nil fuel : (1 <= fuel)%nat -> parse fuel [] = NeedMore.
Proof. destruct fuel; [lia|reflexivity]. Qed.

Lemma need_pos i : (1 <= need i)%nat. Proof. destruct i; cbn; lia. Qed.

Lemma parse_n_pre xs : Forall Ppre xs -> Forall wf xs -> forall p q, flat_map enc xs = p ++ q -> q <> [] ->
  forall fuel, (needl xs <= fuel)%nat -> parse_n fuel (N.of_nat (length xs)) p = NeedMore.
Proof.
  induction xs as [|x r IH]; intros HP Hw p q E Hq fuel Hfuel.
  - cbn in E. destruct p; destruct q; cbn in E; congruence.
  - inversion HP as [|? ? Hx Hr]; subst. inversion Hw as [|? ? Wx Wr]; subst.
    destruct fuel as [|fu]; [cbn in Hfuel; lia|].
    cbn [needl] in Hfuel. fold needl in Hfuel.
    cbn [parse_n length]. destruct (N.eqb_spec (N.of_nat (S (length r))) 0) as [E0|_]; [lia|].
    cbn [flat_map] in E. apply app_eq_app in E. destruct E as (l & [[E1 E2]|[E1 E2]]).
    + (* enc x = p ++ l, q = l ++ rest : p is a prefix of enc x *)
      destruct l as [|c l].
      * (* p = enc x exactly *)
        rewrite app_nil_r in E1. subst p. cbn [app] in E2. subst q.
        rewrite <- (app_nil_r (enc x)). rewrite (parse_enc x Wx fu []) by lia.
        replace (N.of_nat (S (length r)) - 1) with (N.of_nat (length r)) by lia.
        rewrite (IH Hr Wr [] (flat_map enc r)) by (auto; lia). reflexivity.
      * rewrite (Hx Wx p (c::l) E1) by (try discriminate; lia). reflexivity.
    + (* p = enc x ++ l *)
      subst p. rewrite (parse_enc x Wx fu l) by lia.
      replace (N.of_nat (S (length r)) - 1) with (N.of_nat (length r)) by lia.
      rewrite (IH Hr Wr l q E2 Hq) by lia. reflexivity.
Qed.

Lemma parse_indef_nil fuel : (1 <= fuel)%nat -> parse_indef fuel [] = NeedMore.
Proof. destruct fuel; [lia|reflexivity]. Qed.

Lemma parse_indef_pre xs : Forall Ppre xs -> Forall wf xs -> forall p q, flat_map enc xs ++ [255] = p ++ q -> q <> [] ->
  forall fuel, (needl xs <= fuel)%nat -> parse_indef fuel p = NeedMore.
Proof.
  induction xs as [|x r IH]; intros HP Hw p q E Hq fuel Hfuel.
  - cbn in E. destruct p as [|b p].
    + apply parse_indef_nil. cbn in Hfuel. lia.
    + destruct p; destruct q; cbn in E; congruence.
  - inversion HP as [|? ? Hx Hr]; subst. inversion Hw as [|? ? Wx Wr]; subst.
    destruct fuel as [|fu]; [cbn in Hfuel; lia|].
    cbn [needl] in Hfuel. fold needl in Hfuel.
    cbn [flat_map] in E. rewrite <- app_assoc in E. apply app_eq_app in E.
    destruct (enc_first x Wx) as (b & t & Eb & Hb).
    destruct E as (l & [[E1 E2]|[E1 E2]]).
    + destruct l as [|c l].
      * rewrite app_nil_r in E1. subst p. cbn [app] in E2. subst q.
        assert (Hbs: enc x = b :: t) by exact Eb.
        rewrite Hbs. rewrite parse_indef_step by exact Hb. rewrite <- Hbs.
        rewrite <- (app_nil_r (enc x)). rewrite (parse_enc x Wx fu []) by lia.
        rewrite (IH Hr Wr [] (flat_map enc r ++ [255])) by (auto; lia). reflexivity.
      * destruct p as [|b' p'].
        -- reflexivity.
        -- assert (b' = b) by (rewrite Eb in E1; cbn in E1; congruence). subst b'.
           rewrite parse_indef_step by exact Hb.
           rewrite (Hx Wx (b::p') (c::l) E1) by (try discriminate; lia). reflexivity.
    + subst p.
      assert (Hbs: enc x ++ l = b :: (t ++ l)) by (rewrite Eb; reflexivity).
      rewrite Hbs. rewrite parse_indef_step by exact Hb. rewrite <- Hbs.
      rewrite (parse_enc x Wx fu l) by lia.
      rewrite (IH Hr Wr l q E2 Hq) by lia. reflexivity.
Qed.

Theorem parse_prefix : forall i, Ppre i.
Proof.
  induction i as [f n|f xs IHxs] using item_ind'; intros Hw p q E Hq fuel Hfuel.
  - destruct p as [|b p]; [apply parse_nil; cbn in Hfuel; lia|].
    destruct fuel as [|fu]; [cbn in Hfuel; lia|].
    cbn [enc] in E. rewrite enc_head_shape in E. cbn [app] in E.
    destruct (hd_decomp 0 (ai_of f n) (ai_lt f n Hw)) as [E1 E2].
    remember (0 * 32 + ai_of f n) as hb eqn:Hhb. injection E as Eb E.
    subst b. cbn [parse]. rewrite E1, E2. cbn [N.eqb].
    rewrite (read_arg_short f n p q Hw E Hq). reflexivity.
  - pose proof Hw as Hw0. apply wf_arr in Hw. destruct Hw as [Hf Hxs].
    rewrite need_arr in Hfuel.
    destruct p as [|b p]; [apply parse_nil; lia|].
    destruct fuel as [|fu]; [lia|].
    destruct f as [f|].
    + cbn [enc] in E. rewrite enc_head_shape in E. cbn [app] in E.
      destruct (hd_decomp 4 (ai_of f _) (ai_lt f _ Hf)) as [E1 E2].
      remember (4 * 32 + ai_of f (N.of_nat (length xs))) as hb eqn:Hhb. injection E as Eb E. subst b.
      cbn [parse]. rewrite E1, E2.
      change (4 =? 0) with false. change (4 =? 4) with true. cbn iota.
      destruct (N.eqb_spec (ai_of f (N.of_nat (length xs))) 31) as [E31|_]; [exfalso; eapply ai_ne31; eauto|].
      apply app_eq_app in E. destruct E as (l & [[Ea Eb]|[Ea Eb]]).
      * destruct l as [|c l].
        -- rewrite app_nil_r in Ea. subst p. cbn [app] in Eb. subst q.
           rewrite <- (app_nil_r (be _ _)). rewrite read_arg_enc by exact Hf.
           destruct xs as [|x r]; [cbn in Hq; congruence|].
           rewrite (parse_n_pre (x::r) IHxs Hxs [] (flat_map enc (x::r))) by (auto; lia). reflexivity.
        -- rewrite (read_arg_short f _ p (c::l) Hf Ea) by discriminate. reflexivity.
      * subst p. rewrite read_arg_enc by exact Hf.
        rewrite (parse_n_pre xs IHxs Hxs l q Eb Hq) by lia. reflexivity.
    + cbn [enc app] in E. injection E as Eb E. subst b. cbn [parse].
      change (159 / 32 =? 0) with false. change (159 / 32 =? 4) with true. change (159 mod 32 =? 31) with true. cbn iota.
      rewrite (parse_indef_pre xs IHxs Hxs p q E Hq) by lia. reflexivity.
Qed.

Print Assumptions parse_prefix.
