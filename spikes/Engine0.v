From Coq Require Import List Bool Arith Lia.
Import ListNotations.

Inductive agency := AClient | AServer | ANone.
Inductive role := RClient | RServer.
Definition msg := nat. (* message type id *)
Definition state := nat.

Record statemap := { ag : state -> agency; next : state -> msg -> option state }.

Definition ours (r:role) (a:agency) : bool :=
  match r, a with RClient, AClient => true | RServer, AServer => true | _, _ => false end.
Definition theirs (r:role) (a:agency) : bool :=
  match r, a with RClient, AServer => true | RServer, AClient => true | _, _ => false end.

Record st := {
  cur : state;
  sendTok : bool;   (* token sitting in sendReadyChan (cap 1) *)
  recvTok : bool;   (* token sitting in recvReadyChan (cap 1) *)
  sendHeld : bool;  (* sendLoop has consumed a token and not yet transitioned *)
  recvHeld : bool;  (* recvLoop has consumed a token and not yet handled a message *)
  queued : list msg;(* queuedStateTransitions of pipelined sends *)
  wire : list msg;  (* messages written to the muxer *)
  hlog : list (state * msg); (* handler invocations with the state they were accepted in *)
  err : bool
}.

Section Engine.
Variable sm : statemap.
Variable r : role.

Definition set_state (s:st) (n:state) : st :=
  {| cur := n;
     sendTok := sendTok s || ours r (ag sm n);
     recvTok := recvTok s || theirs r (ag sm n);
     sendHeld := sendHeld s; recvHeld := recvHeld s;
     queued := queued s; wire := wire s; hlog := hlog s; err := err s |}.

Inductive label :=
| TakeSend | TakeRecv
| SendBatch (m:msg) (more:list msg)   (* first message transitions now, the rest are written and queued *)
| SendQueued
| Handle (m:msg).

Definition fail (s:st) : st :=
  {| cur := cur s; sendTok := sendTok s; recvTok := recvTok s; sendHeld := false; recvHeld := false;
     queued := queued s; wire := wire s; hlog := hlog s; err := true |}.

Definition step (s:st) (l:label) : option st :=
  if err s then None else
  match l with
  | TakeSend => if sendTok s && negb (sendHeld s)
                then Some {| cur := cur s; sendTok := false; recvTok := recvTok s; sendHeld := true; recvHeld := recvHeld s;
                             queued := queued s; wire := wire s; hlog := hlog s; err := false |} else None
  | TakeRecv => if recvTok s && negb (recvHeld s)
                then Some {| cur := cur s; sendTok := sendTok s; recvTok := false; sendHeld := sendHeld s; recvHeld := true;
                             queued := queued s; wire := wire s; hlog := hlog s; err := false |} else None
  | SendBatch m more =>
      if sendHeld s && match queued s with [] => true | _ => false end then
        match next sm (cur s) m with
        | Some n => let s1 := {| cur := cur s; sendTok := sendTok s; recvTok := recvTok s; sendHeld := false; recvHeld := recvHeld s;
                                 queued := more; wire := wire s ++ m :: more; hlog := hlog s; err := false |} in
                    Some (set_state s1 n)
        | None => Some (fail s)
        end
      else None
  | SendQueued =>
      if sendHeld s then
        match queued s with
        | m :: q => match next sm (cur s) m with
                    | Some n => let s1 := {| cur := cur s; sendTok := sendTok s; recvTok := recvTok s; sendHeld := false; recvHeld := recvHeld s;
                                             queued := q; wire := wire s; hlog := hlog s; err := false |} in
                                Some (set_state s1 n)
                    | None => Some (fail s) end
        | [] => None end
      else None
  | Handle m =>
      if recvHeld s then
        match next sm (cur s) m with
        | Some n => let s1 := {| cur := cur s; sendTok := sendTok s; recvTok := recvTok s; sendHeld := sendHeld s; recvHeld := false;
                                 queued := queued s; wire := wire s; hlog := hlog s ++ [(cur s, m)]; err := false |} in
                    Some (set_state s1 n)
        | None => Some (fail s) end
      else None
  end.

Definition init (s0:state) : st :=
  set_state {| cur := s0; sendTok := false; recvTok := false; sendHeld := false; recvHeld := false;
               queued := []; wire := []; hlog := []; err := false |} s0.

Fixpoint run (s:st) (ls:list label) : option st :=
  match ls with [] => Some s | l :: ls' => match step s l with Some s' => run s' ls' | None => None end end.

(* the one-token invariant *)
Definition b2n (b:bool) := if b then 1 else 0.
Definition Inv (s:st) : Prop :=
  err s = true \/
  ( (sendTok s || sendHeld s = ours r (ag sm (cur s))) /\
    (recvTok s || recvHeld s = theirs r (ag sm (cur s))) /\
    b2n (sendTok s) + b2n (sendHeld s) + b2n (recvTok s) + b2n (recvHeld s) <= 1 ).

Lemma ours_theirs_excl a : ours r a && theirs r a = false.
Proof. destruct r, a; reflexivity. Qed.

Lemma inv_init s0 : Inv (init s0).
Proof.
  right. unfold init, set_state; cbn.
  pose proof (ours_theirs_excl (ag sm s0)).
  destruct (ours r (ag sm s0)), (theirs r (ag sm s0)); cbn in *; try discriminate; repeat split; lia.
Qed.

Lemma inv_step s l s' : Inv s -> step s l = Some s' -> Inv s'.
Proof.
  intros HI Hs. unfold step in Hs.
  destruct (err s) eqn:Eerr; [discriminate|].
  destruct HI as [HI|(H1 & H2 & H3)]; [congruence|].
  destruct l.
  - destruct (sendTok s) eqn:?, (sendHeld s) eqn:?; cbn in Hs; try discriminate.
    injection Hs as <-. right. cbn. rewrite <- H1, <- H2. cbn in *. repeat split; auto; lia.
  - destruct (recvTok s) eqn:?, (recvHeld s) eqn:?; cbn in Hs; try discriminate.
    injection Hs as <-. right. cbn. rewrite <- H1, <- H2. cbn in *. repeat split; auto; lia.
  - destruct (sendHeld s) eqn:ES; cbn in Hs; [|discriminate].
    destruct (queued s); [|discriminate].
    destruct (next sm (cur s) m) as [n|]; injection Hs as <-; [|left; reflexivity].
    right. unfold set_state; cbn.
    assert (sendTok s = false /\ recvTok s = false /\ recvHeld s = false) as (A & B & C)
      by (destruct (sendTok s), (recvTok s), (recvHeld s); cbn in H3; repeat split; auto; lia).
    rewrite A, B, C. cbn.
    pose proof (ours_theirs_excl (ag sm n)).
    destruct (ours r (ag sm n)), (theirs r (ag sm n)); cbn in *; try discriminate; repeat split; lia.
  - destruct (sendHeld s) eqn:ES; cbn in Hs; [|discriminate].
    destruct (queued s) as [|m q]; [discriminate|].
    destruct (next sm (cur s) m) as [n|]; injection Hs as <-; [|left; reflexivity].
    right. unfold set_state; cbn.
    assert (sendTok s = false /\ recvTok s = false /\ recvHeld s = false) as (A & B & C)
      by (destruct (sendTok s), (recvTok s), (recvHeld s); cbn in H3; repeat split; auto; lia).
    rewrite A, B, C. cbn.
    pose proof (ours_theirs_excl (ag sm n)).
    destruct (ours r (ag sm n)), (theirs r (ag sm n)); cbn in *; try discriminate; repeat split; lia.
  - destruct (recvHeld s) eqn:ES; cbn in Hs; [|discriminate].
    destruct (next sm (cur s) m) as [n|]; injection Hs as <-; [|left; reflexivity].
    right. unfold set_state; cbn.
    assert (sendTok s = false /\ recvTok s = false /\ sendHeld s = false) as (A & B & C)
      by (destruct (sendTok s), (recvTok s), (sendHeld s); cbn in H3; repeat split; auto; lia).
    rewrite A, B, C. cbn.
    pose proof (ours_theirs_excl (ag sm n)).
    destruct (ours r (ag sm n)), (theirs r (ag sm n)); cbn in *; try discriminate; repeat split; lia.
Qed.

Theorem inv_run : forall ls s s', Inv s -> run s ls = Some s' -> Inv s'.
Proof.
  induction ls as [|l ls IH]; intros s s' HI Hr; cbn in Hr.
  - injection Hr as <-. exact HI.
  - destruct (step s l) as [s1|] eqn:E; [|discriminate]. eapply IH; [eapply inv_step; eauto|exact Hr].
Qed.

(* C11 soundness: every handler invocation happened in a state where the peer had agency
   and the message type was permitted there *)
Definition HSound (s:st) : Prop :=
  Forall (fun '(q, m) => theirs r (ag sm q) = true /\ next sm q m <> None) (hlog s).

Lemma hsound_step s l s' : Inv s -> HSound s -> step s l = Some s' -> HSound s'.
Proof.
  intros HI HS Hs. unfold step in Hs.
  destruct (err s) eqn:Eerr; [discriminate|].
  destruct HI as [HI|(H1 & H2 & H3)]; [congruence|].
  destruct l; unfold HSound in *.
  - destruct (sendTok s && negb (sendHeld s)); [|discriminate]. injection Hs as <-. exact HS.
  - destruct (recvTok s && negb (recvHeld s)); [|discriminate]. injection Hs as <-. exact HS.
  - destruct (sendHeld s && _); [|discriminate]. destruct (next sm (cur s) m); injection Hs as <-; exact HS.
  - destruct (sendHeld s); [|discriminate]. destruct (queued s); [discriminate|].
    destruct (next sm (cur s) m); injection Hs as <-; exact HS.
  - destruct (recvHeld s) eqn:ES; [|discriminate].
    destruct (next sm (cur s) m) as [n|] eqn:EN; injection Hs as <-; [|exact HS].
    cbn. apply Forall_app. split; [exact HS|]. constructor; [|constructor].
    split; [|congruence]. rewrite <- H2. apply orb_true_r.
Qed.

Theorem C11_handler_sound : forall ls s0 s', run (init s0) ls = Some s' -> HSound s'.
Proof.
  intros ls s0. 
  assert (G: forall ls s s', Inv s -> HSound s -> run s ls = Some s' -> HSound s').
  { induction ls0 as [|l ls0 IH]; intros s s' HI HS Hr; cbn in Hr.
    - injection Hr as <-. exact HS.
    - destruct (step s l) as [s1|] eqn:E; [|discriminate].
      eapply IH; [eapply inv_step; eauto|eapply hsound_step; eauto|exact Hr]. }
  intros s' Hr. eapply G; [apply inv_init| |exact Hr]. constructor.
Qed.

End Engine.

Print Assumptions C11_handler_sound.
