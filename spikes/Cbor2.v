From Coq Require Import ZArith NArith List Lia Bool.
From Coq Require Import ZifyBool ZifyNat ZifyN.
Require Import Cbor0 Cbor1.
Import ListNotations. Open Scope N_scope.
Ltac Zify.zify_post_hook ::= Z.div_mod_to_equations.

Lemma hd_decomp mt ai : ai < 32 -> (mt*32+ai)/32 = mt /\ (mt*32+ai) mod 32 = ai.
Proof. intros; split; lia. Qed.

Lemma wf_arr f xs : wf (Arr f xs) <-> (match f with Some f => fits f (N.of_nat (length xs)) | None => True end) /\ Forall wf xs.
Proof. cbn [wf]. rewrite <- wfl_Forall. reflexivity. Qed.

Lemma need_arr f xs : need (Arr f xs) = S (needl xs).
Proof. reflexivity. Qed.

Lemma enc_first i : wf i -> exists b t, enc i = b :: t /\ b <> 255.
Proof.
  destruct i as [f n|[f|] xs]; intros Hw.
  - cbn [enc]. rewrite enc_head_shape. eexists _, _. split; [reflexivity|].
    pose proof (ai_lt f n Hw). lia.
  - apply wf_arr in Hw. destruct Hw as [Hf _]. cbn [enc]. rewrite enc_head_shape. cbn [app].
    eexists _, _. split; [reflexivity|]. pose proof (ai_lt f _ Hf). lia.
  - cbn [enc app]. eexists _, _. split; [reflexivity|]. lia.
Qed.

Definition Pitem (i:item) : Prop :=
  wf i -> forall fuel rest, (need i <= fuel)%nat -> parse fuel (enc i ++ rest) = Ok i rest.

Lemma parse_n_enc xs : Forall Pitem xs -> Forall wf xs -> forall fuel rest, (needl xs <= fuel)%nat ->
  parse_n fuel (N.of_nat (length xs)) (flat_map enc xs ++ rest) = Ok xs rest.
Proof.
  induction xs as [|x r IH]; intros HP Hw fuel rest Hfuel.
  - destruct fuel as [|fu]; [cbn in Hfuel; lia|]. reflexivity.
  - inversion HP as [|? ? Hx Hr]; subst. inversion Hw as [|? ? Wx Wr]; subst.
    destruct fuel as [|fu]; [cbn in Hfuel; lia|].
    cbn [needl] in Hfuel. fold needl in Hfuel.
    cbn [parse_n length flat_map].
    destruct (N.eqb_spec (N.of_nat (S (length r))) 0) as [E|_]; [lia|].
    rewrite <- app_assoc.
    rewrite (Hx Wx fu _) by lia.
    replace (N.of_nat (S (length r)) - 1) with (N.of_nat (length r)) by lia.
    rewrite (IH Hr Wr fu rest) by lia. reflexivity.
Qed.

Lemma parse_indef_step fu b r : b <> 255 ->
  parse_indef (S fu) (b :: r) =
  match parse fu (b :: r) with
  | Ok x r' => match parse_indef fu r' with Ok xs r'' => Ok (x::xs) r'' | NeedMore => NeedMore | Bad => Bad end
  | NeedMore => NeedMore | Bad => Bad end.
Proof. intros Hb. cbn [parse_indef]. destruct (N.eqb_spec b 255); [contradiction|reflexivity]. Qed.

Lemma parse_indef_enc xs : Forall Pitem xs -> Forall wf xs -> forall fuel rest, (needl xs <= fuel)%nat ->
  parse_indef fuel (flat_map enc xs ++ 255 :: rest) = Ok xs rest.
Proof.
  induction xs as [|x r IH]; intros HP Hw fuel rest Hfuel.
  - destruct fuel as [|fu]; [cbn in Hfuel; lia|]. reflexivity.
  - inversion HP as [|? ? Hx Hr]; subst. inversion Hw as [|? ? Wx Wr]; subst.
    destruct fuel as [|fu]; [cbn in Hfuel; lia|].
    cbn [needl] in Hfuel. fold needl in Hfuel.
    cbn [flat_map]. rewrite <- app_assoc.
    destruct (enc_first x Wx) as (b & t & Eb & Hb).
    assert (Hbs: enc x ++ flat_map enc r ++ 255 :: rest = b :: (t ++ flat_map enc r ++ 255 :: rest))
      by (rewrite Eb; reflexivity).
    rewrite Hbs. rewrite parse_indef_step by exact Hb. rewrite <- Hbs.
    rewrite (Hx Wx fu _) by lia.
    rewrite (IH Hr Wr fu rest) by lia. reflexivity.
Qed.

Theorem parse_enc : forall i, Pitem i.
Proof.
  induction i as [f n|f xs IHxs] using item_ind'; intros Hw fuel rest Hfuel.
  - destruct fuel as [|fu]; [cbn in Hfuel; lia|].
    cbn [enc]. rewrite enc_head_shape. cbn [app parse].
    destruct (hd_decomp 0 (ai_of f n) (ai_lt f n Hw)) as [E1 E2]. rewrite E1, E2.
    cbn [N.eqb]. rewrite read_arg_enc by exact Hw. reflexivity.
  - apply wf_arr in Hw. destruct Hw as [Hf Hxs].
    rewrite need_arr in Hfuel.
    destruct fuel as [|fu]; [lia|].
    destruct f as [f|].
    + cbn [enc]. rewrite enc_head_shape. cbn [app parse]. rewrite <- app_assoc.
      destruct (hd_decomp 4 (ai_of f _) (ai_lt f _ Hf)) as [E1 E2]. rewrite E1, E2.
      change (4 =? 0) with false. change (4 =? 4) with true. cbn iota.
      destruct (N.eqb_spec (ai_of f (N.of_nat (length xs))) 31) as [E|_]; [exfalso; eapply ai_ne31; eauto|].
      rewrite read_arg_enc by exact Hf.
      rewrite parse_n_enc by (auto; lia). reflexivity.
    + cbn [enc app parse].
      change (159 / 32 =? 0) with false. change (159 / 32 =? 4) with true. change (159 mod 32 =? 31) with true. cbn iota.
      rewrite <- app_assoc. cbn [app].
      rewrite parse_indef_enc by (auto; lia). reflexivity.
Qed.

Print Assumptions parse_enc.
