(* C39 - proofs about the KES sum-composition model. *)
From V Require Import Lib.Base C39.Model.
Local Open Scope N_scope.

(* ---- list / layout helpers ---- *)
Lemma firstn_app_exact {A} (a b : list A) n : length a = n -> firstn n (a ++ b) = a.
Proof. intros <-. induction a; cbn; congruence. Qed.
Lemma skipn_app_exact {A} (a b : list A) n : length a = n -> skipn n (a ++ b) = b.
Proof. intros <-. induction a; cbn; auto. Qed.
Lemma skipn_plus {A} n : forall (l : list A) m, skipn (n + m) l = skipn m (skipn n l).
Proof.
  induction n as [|n IH]; intros [|x l] m; cbn; auto.
  destruct m; reflexivity.
Qed.
Lemma firstn_exact {A} (a : list A) n : length a = n -> firstn n a = a.
Proof. intros <-. apply firstn_all. Qed.

Lemma layout4 (c s l r : bytes) n :
  length c = n -> length s = 32%nat -> length l = 32%nat -> length r = 32%nat ->
  let d := c ++ s ++ l ++ r in
  firstn n d = c /\ slice n 32 d = s /\ slice (n + 32) 32 d = l /\ slice (n + 64) 32 d = r
  /\ skipn n d = s ++ l ++ r /\ skipn (n + 32) d = l ++ r.
Proof.
  intros Hc Hs Hl Hr d. unfold slice, d.
  replace (n + 64)%nat with (n + 32 + 32)%nat by lia.
  rewrite !skipn_plus, (skipn_app_exact c) by exact Hc.
  rewrite (skipn_app_exact s) by exact Hs.
  rewrite (skipn_app_exact l) by exact Hl.
  repeat split; try (apply firstn_app_exact; assumption); try (apply firstn_exact; assumption).
Qed.

Lemma layout3 (c l r : bytes) n :
  length c = n -> length l = 32%nat -> length r = 32%nat ->
  let d := c ++ l ++ r in
  firstn n d = c /\ slice n 32 d = l /\ slice (n + 32) 32 d = r.
Proof.
  intros Hc Hl Hr d. unfold slice, d.
  rewrite !skipn_plus, (skipn_app_exact c) by exact Hc.
  rewrite (skipn_app_exact l) by exact Hl.
  repeat split; try (apply firstn_app_exact; assumption); try (apply firstn_exact; assumption).
Qed.

Lemma split3 (sg : bytes) n : length sg = (n + 64)%nat ->
  sg = firstn n sg ++ slice n 32 sg ++ slice (n + 32) 32 sg
  /\ length (firstn n sg) = n /\ length (slice n 32 sg) = 32%nat
  /\ length (slice (n + 32) 32 sg) = 32%nat.
Proof.
  intros Hl. unfold slice. rewrite skipn_plus.
  assert (E1 : sg = firstn n sg ++ skipn n sg) by (symmetry; apply firstn_skipn).
  assert (L1 : length (skipn n sg) = 64%nat) by (rewrite skipn_length; lia).
  assert (E2 : skipn n sg = firstn 32 (skipn n sg) ++ skipn 32 (skipn n sg))
    by (symmetry; apply firstn_skipn).
  assert (L2 : length (skipn 32 (skipn n sg)) = 32%nat) by (rewrite skipn_length; lia).
  rewrite (firstn_exact (skipn 32 (skipn n sg))) by exact L2.
  repeat split.
  - rewrite <- E2. exact E1.
  - rewrite firstn_length. lia.
  - rewrite firstn_length. lia.
  - exact L2.
Qed.

Lemma app_inj_len {A} (a b a' b' : list A) :
  length a = length a' -> a ++ b = a' ++ b' -> a = a' /\ b = b'.
Proof.
  revert a'. induction a as [|x a IH]; intros [|y a'] Hl E; cbn in *; try discriminate.
  - auto.
  - inversion E; subst. destruct (IH a') as [-> ->]; auto.
Qed.

Lemma pow2_pos d : 0 < pow2 d.
Proof. induction d; cbn [pow2]; lia. Qed.

Lemma zeros_len n : length (zeros n) = n.
Proof. apply repeat_length. Qed.

Lemma bytes_eqb_refl b : bytes_eqb b b = true.
Proof. apply bytes_eqb_eq. reflexivity. Qed.

(* ------------------------------------------------------------------ *)
Section proofs.
  Variable H : bytes -> bytes.
  Variable ed_pk : bytes -> bytes.
  Variable ed_sign : bytes -> bytes -> bytes.
  Variable ed_verify : bytes -> bytes -> bytes -> bool.

  (* widths of the primitives' outputs (Sum256 : [32]byte, Ed25519 sizes) *)
  Hypothesis H_len : forall x, length (H x) = 32%nat.
  Hypothesis pk_len : forall s, length (ed_pk s) = 32%nat.
  Hypothesis sig_len : forall s m, length (ed_sign s m) = 64%nat.

  Local Notation expand := (expand H).
  Local Notation Hpair := (Hpair H).
  Local Notation pkf := (pk_from_seed H ed_pk).
  Local Notation keygen_internal := (keygen_internal H ed_pk).
  Local Notation keygen := (keygen H ed_pk).
  Local Notation update_internal := (update_internal H ed_pk).
  Local Notation update := (update H ed_pk).
  Local Notation evolve := (evolve H ed_pk).
  Local Notation sign_internal := (sign_internal ed_sign).
  Local Notation sign := (sign ed_sign).
  Local Notation verify_rec := (verify_rec H ed_verify).
  Local Notation verify := (verify H ed_verify).
  Local Notation public_key := (public_key H ed_pk).
  Local Notation public_key_internal := (public_key_internal H ed_pk).

  Lemma expand_len s i : length (expand s i) = 32%nat.
  Proof. apply H_len. Qed.

  (* ---- specification: closed forms ---- *)
  (* the secret key after t evolutions: the leaf seed of period t; per level
     the seed of the right subtree while t is still in the left one, zeros
     afterwards; and the two public keys of the level *)
  Fixpoint key_at (d : nat) (seed : bytes) (t : N) : bytes :=
    match d with
    | O => seed
    | S d' =>
      let l := expand seed 1 in
      let r := expand seed 2 in
      if t <? pow2 d' then key_at d' l t ++ r ++ pkf d' l ++ pkf d' r
      else key_at d' r (t - pow2 d') ++ zeros 32 ++ pkf d' l ++ pkf d' r
    end.

  (* seed of the leaf of period t *)
  Fixpoint leaf_seed (d : nat) (seed : bytes) (t : N) : bytes :=
    match d with
    | O => seed
    | S d' => if t <? pow2 d' then leaf_seed d' (expand seed 1) t
              else leaf_seed d' (expand seed 2) (t - pow2 d')
    end.

  (* the signature of period t: leaf signature, then the sibling public keys
     bottom-up *)
  Fixpoint sig_at (d : nat) (seed : bytes) (t : N) (m : bytes) : bytes :=
    match d with
    | O => ed_sign seed m
    | S d' =>
      let l := expand seed 1 in
      let r := expand seed 2 in
      (if t <? pow2 d' then sig_at d' l t m else sig_at d' r (t - pow2 d') m)
        ++ pkf d' l ++ pkf d' r
    end.

  Lemma pkf_len d s : length (pkf d s) = 32%nat.
  Proof. destruct d; cbn [pk_from_seed]; [apply pk_len|apply H_len]. Qed.

  Lemma key_at_len d : forall s t, length s = 32%nat -> length (key_at d s t) = key_size d.
  Proof.
    induction d as [|d IH]; intros s t Hs; cbn [key_at]; [exact Hs|].
    destruct (t <? pow2 d); rewrite !app_length, IH, !pkf_len, ?expand_len, ?zeros_len
      by apply expand_len; unfold key_size; lia.
  Qed.

  Lemma sig_at_len d : forall s t m, length (sig_at d s t m) = sig_size d.
  Proof.
    induction d as [|d IH]; intros s t m; cbn [sig_at]; [apply sig_len|].
    destruct (t <? pow2 d); rewrite !app_length, IH, !pkf_len; unfold sig_size; lia.
  Qed.

  Lemma keygen_internal_spec d : forall s, keygen_internal d s = (key_at d s 0, pkf d s).
  Proof.
    induction d as [|d IH]; intros s; cbn [Model.keygen_internal key_at pk_from_seed]; [reflexivity|].
    rewrite IH. pose proof (pow2_pos d) as Hp.
    destruct (N.ltb_spec 0 (pow2 d)); [reflexivity|lia].
  Qed.

  Lemma update_spec d : forall s t, length s = 32%nat -> t + 1 < pow2 d ->
    update_internal d t (key_at d s t) = key_at d s (t + 1).
  Proof.
    induction d as [|d IH]; intros s t Hs Ht; [cbn [pow2] in Ht; lia|].
    cbn [pow2] in Ht. cbn [Model.update_internal key_at].
    set (l := expand s 1). set (r := expand s 2).
    assert (Hl : length l = 32%nat) by apply expand_len.
    assert (Hr : length r = 32%nat) by apply expand_len.
    pose proof (pow2_pos d) as Hp.
    destruct (N.ltb_spec t (pow2 d)) as [Hlt|Hge].
    - destruct (layout4 (key_at d l t) r (pkf d l) (pkf d r) (key_size d))
        as (E1 & E2 & _ & _ & E5 & E6); auto using key_at_len, pkf_len.
      rewrite E1, E2, E5, E6.
      destruct (N.ltb_spec t (pow2 d - 1)) as [Hlt1|Hge1].
      + rewrite IH by (auto; lia).
        destruct (N.ltb_spec (t + 1) (pow2 d)); [reflexivity|lia].
      + destruct (N.eqb_spec t (pow2 d - 1)) as [He|Hne]; [|lia].
        rewrite keygen_internal_spec. cbn [fst].
        destruct (N.ltb_spec (t + 1) (pow2 d)); [lia|].
        replace (t + 1 - pow2 d) with 0 by lia. reflexivity.
    - destruct (layout4 (key_at d r (t - pow2 d)) (zeros 32) (pkf d l) (pkf d r) (key_size d))
        as (E1 & _ & _ & _ & E5 & _); auto using key_at_len, pkf_len, zeros_len.
      rewrite E1, E5.
      destruct (N.ltb_spec t (pow2 d - 1)); [lia|].
      destruct (N.eqb_spec t (pow2 d - 1)); [lia|].
      rewrite IH by (auto; lia).
      destruct (N.ltb_spec (t + 1) (pow2 d)); [lia|].
      replace (t + 1 - pow2 d) with (t - pow2 d + 1) by lia. reflexivity.
  Qed.

  Lemma sign_spec d : forall s t m, length s = 32%nat -> t < pow2 d ->
    sign_internal d t (key_at d s t) m = sig_at d s t m.
  Proof.
    induction d as [|d IH]; intros s t m Hs Ht; cbn [Model.sign_internal key_at sig_at].
    - rewrite firstn_exact by exact Hs. reflexivity.
    - cbn [pow2] in Ht.
      set (l := expand s 1). set (r := expand s 2).
      assert (Hl : length l = 32%nat) by apply expand_len.
      assert (Hr : length r = 32%nat) by apply expand_len.
      destruct (N.ltb_spec t (pow2 d)) as [Hlt|Hge].
      + destruct (layout4 (key_at d l t) r (pkf d l) (pkf d r) (key_size d))
          as (E1 & _ & E3 & E4 & _ & _); auto using key_at_len, pkf_len.
        rewrite E1, E3, E4, IH by auto. reflexivity.
      + destruct (layout4 (key_at d r (t - pow2 d)) (zeros 32) (pkf d l) (pkf d r) (key_size d))
          as (E1 & _ & E3 & E4 & _ & _); auto using key_at_len, pkf_len, zeros_len.
        rewrite E1, E3, E4, IH by (auto; lia). reflexivity.
  Qed.

  Lemma pk_internal_spec d s t : length s = 32%nat ->
    public_key_internal d (key_at d s t) = pkf d s.
  Proof.
    intros Hs. destruct d as [|d]; cbn [Model.public_key_internal key_at pk_from_seed].
    - rewrite firstn_exact by exact Hs. reflexivity.
    - set (l := expand s 1). set (r := expand s 2).
      assert (Hl : length l = 32%nat) by apply expand_len.
      assert (Hr : length r = 32%nat) by apply expand_len.
      destruct (t <? pow2 d).
      + destruct (layout4 (key_at d l t) r (pkf d l) (pkf d r) (key_size d))
          as (_ & _ & E3 & E4 & _ & _); auto using key_at_len, pkf_len.
        rewrite E3, E4. reflexivity.
      + destruct (layout4 (key_at d r (t - pow2 d)) (zeros 32) (pkf d l) (pkf d r) (key_size d))
          as (_ & _ & E3 & E4 & _ & _); auto using key_at_len, pkf_len, zeros_len.
        rewrite E3, E4. reflexivity.
  Qed.

  (* ---- evolution of a generated key ---- *)
  Definition key_state (d : nat) (seed : bytes) (t : N) : skey :=
    mk_skey d t (Some (key_at d seed t)) (Some (pkf d seed)).

  Lemma keygen_spec d s : length s = 32%nat ->
    keygen d s = Some (key_state d s 0, pkf d s).
  Proof.
    intros Hs. unfold Model.keygen. rewrite Hs. cbn [Nat.eqb negb].
    rewrite keygen_internal_spec. reflexivity.
  Qed.

  Lemma update_key_state d s t : length s = 32%nat -> t + 1 < pow2 d ->
    update (key_state d s t) = Some (key_state d s (t + 1), mk_skey d 0 None (Some (pkf d s))).
  Proof.
    intros Hs Ht. unfold Model.update, key_state. cbn [sk_data sk_depth sk_period sk_pk].
    destruct (N.leb_spec (pow2 d) (t + 1)); [lia|].
    rewrite update_spec by auto. reflexivity.
  Qed.

  Lemma update_exhausted d s t : pow2 d <= t + 1 -> update (key_state d s t) = None.
  Proof.
    intros Ht. unfold Model.update, key_state. cbn [sk_data sk_depth sk_period].
    destruct (N.leb_spec (pow2 d) (t + 1)); [reflexivity|lia].
  Qed.

  Lemma evolve_spec d s : length s = 32%nat -> forall n t, t + N.of_nat n < pow2 d ->
    evolve n (key_state d s t) = Some (key_state d s (t + N.of_nat n)).
  Proof.
    intros Hs. induction n as [|n IH]; intros t Ht.
    - cbn [Model.evolve]. rewrite N.add_0_r. reflexivity.
    - cbn [Model.evolve]. rewrite update_key_state by (auto; lia).
      rewrite IH by lia. f_equal. f_equal. lia.
  Qed.

  Lemma evolve_keygen d s t : length s = 32%nat -> t < pow2 d ->
    exists sk0, keygen d s = Some (sk0, pkf d s)
                /\ evolve (N.to_nat t) sk0 = Some (key_state d s t).
  Proof.
    intros Hs Ht. exists (key_state d s 0). split; [apply keygen_spec; exact Hs|].
    rewrite evolve_spec by (auto; lia). f_equal. f_equal. lia.
  Qed.

  Lemma sign_key_state d s t m : length s = 32%nat -> t < pow2 d ->
    sign (key_state d s t) t m = Some (sig_at d s t m).
  Proof.
    intros Hs Ht. unfold Model.sign, key_state. cbn [sk_data sk_depth sk_period].
    destruct (N.leb_spec (pow2 d) t); [lia|].
    rewrite N.eqb_refl. cbn [negb]. rewrite sign_spec by auto. reflexivity.
  Qed.

  Lemma sign_other_period sk u m : u <> sk_period sk -> sign sk u m = None.
  Proof.
    intros Hu. unfold Model.sign. destruct (sk_data sk); [|reflexivity].
    destruct (pow2 (sk_depth sk) <=? u); [reflexivity|].
    destruct (N.eqb_spec u (sk_period sk)); [contradiction|reflexivity].
  Qed.

  Lemma sign_spent sk sk' old : update sk = Some (sk', old) -> forall u m, sign old u m = None.
  Proof.
    unfold Model.update. destruct (sk_data sk); [|discriminate].
    destruct (pow2 (sk_depth sk) <=? sk_period sk + 1); [discriminate|].
    intros E u m. inversion E; subst. reflexivity.
  Qed.

  (* ---- completeness ---- *)
  Section complete.
    Hypothesis ed_ok : forall s m, length s = 32%nat -> ed_verify (ed_pk s) m (ed_sign s m) = true.

    Lemma leaf_seed_len d : forall s t, length s = 32%nat -> length (leaf_seed d s t) = 32%nat.
    Proof.
      induction d as [|d IH]; intros s t Hs; cbn [leaf_seed]; [exact Hs|].
      destruct (t <? pow2 d); apply IH, expand_len.
    Qed.

    Lemma verify_sig_at d : forall s t m, length s = 32%nat -> t < pow2 d ->
      verify_rec d t (pkf d s) m (sig_at d s t m) = true.
    Proof.
      induction d as [|d IH]; intros s t m Hs Ht; cbn [Model.verify_rec sig_at pk_from_seed].
      - rewrite firstn_exact by apply sig_len. apply ed_ok. exact Hs.
      - set (l := expand s 1). set (r := expand s 2).
        cbn [pow2] in Ht |- *.
        destruct (N.leb_spec (2 * pow2 d) t); [lia|].
        destruct (N.ltb_spec t (pow2 d)) as [Hlt|Hge].
        + destruct (layout3 (sig_at d l t m) (pkf d l) (pkf d r) (sig_size d)) as (E1 & E2 & E3);
            auto using pkf_len, sig_at_len.
          rewrite E1, E2, E3, bytes_eqb_refl. cbn [negb].
          destruct (N.leb_spec (pow2 d) t); [lia|].
          apply IH; [apply expand_len|lia].
        + destruct (layout3 (sig_at d r (t - pow2 d) m) (pkf d l) (pkf d r) (sig_size d)) as (E1 & E2 & E3);
            auto using pkf_len, sig_at_len.
          rewrite E1, E2, E3, bytes_eqb_refl. cbn [negb].
          destruct (N.leb_spec (pow2 d) t); [|lia].
          apply IH; [apply expand_len|lia].
    Qed.

    Theorem complete d seed t m : (1 <= d)%nat -> length seed = 32%nat -> t < pow2 d ->
      exists sk0 sk sg,
        keygen d seed = Some (sk0, pkf d seed)
        /\ evolve (N.to_nat t) sk0 = Some sk
        /\ sk_period sk = t
        /\ public_key sk = pkf d seed
        /\ sign sk t m = Some sg
        /\ verify d (pkf d seed) t m sg = true.
    Proof.
      intros Hd Hs Ht. destruct (evolve_keygen d seed t Hs Ht) as (sk0 & Ek & Ee).
      exists sk0, (key_state d seed t), (sig_at d seed t m).
      repeat split; auto using sign_key_state.
      unfold Model.verify. destruct d as [|d]; [lia|].
      rewrite sig_at_len, Nat.eqb_refl. apply verify_sig_at; auto.
    Qed.

    (* VerifyKesComponents accepts the genuine depth-6 signature at its slot *)
    Theorem components_complete seed t m kp slot spkp : length seed = 32%nat -> t < pow2 6 ->
      spkp <> 0 -> slot / spkp = kp + t ->
      verify_components H ed_verify m (sig_at 6 seed t m) (pkf 6 seed) kp slot spkp = Some true.
    Proof.
      intros Hs Ht Hn Hc. unfold Model.verify_components, Model.verify_signed_kes, Model.verify.
      destruct (N.eqb_spec spkp 0); [contradiction|].
      rewrite sig_at_len. change (Nat.eqb (sig_size 6) 448) with true.
      change (Nat.eqb (sig_size 6) (sig_size 6)) with true. cbn [negb].
      destruct (N.ltb_spec (slot / spkp) kp); [lia|].
      replace (slot / spkp - kp) with t by lia.
      rewrite verify_sig_at by auto. reflexivity.
    Qed.
  End complete.

  (* ---- the public key never changes ---- *)
  Lemma keygen_internal_len d s : length s = 32%nat ->
    length (fst (keygen_internal d s)) = key_size d.
  Proof. intros Hs. rewrite keygen_internal_spec. cbn [fst]. apply key_at_len. exact Hs. Qed.

  Lemma update_internal_len d : forall p data, length data = key_size d ->
    length (update_internal d p data) = key_size d.
  Proof.
    induction d as [|d IH]; intros p data Hl; cbn [Model.update_internal].
    - rewrite app_length, zeros_len, skipn_length. unfold key_size in *. lia.
    - assert (Hk : key_size (S d) = (key_size d + 96)%nat) by (unfold key_size; lia).
      assert (Hf : length (firstn (key_size d) data) = key_size d)
        by (rewrite firstn_length; lia).
      destruct (p <? pow2 d - 1); [|destruct (p =? pow2 d - 1)].
      + rewrite app_length, IH, skipn_length by exact Hf. lia.
      + rewrite !app_length, keygen_internal_len, zeros_len, skipn_length; [lia|].
        unfold slice. rewrite firstn_length, skipn_length. lia.
      + rewrite app_length, IH, skipn_length by exact Hf. lia.
  Qed.

  (* the two public-key slots of the top level are untouched by an update *)
  Lemma update_internal_pk d p data : length data = key_size (S d) ->
    public_key_internal (S d) (update_internal (S d) p data) = public_key_internal (S d) data.
  Proof.
    intros Hl.
    assert (Hk : key_size (S d) = (key_size d + 96)%nat) by (unfold key_size; lia).
    assert (Hf : length (firstn (key_size d) data) = key_size d)
      by (rewrite firstn_length; lia).
    cbn [Model.public_key_internal Model.update_internal].
    assert (G : forall (a : bytes) b, length a = key_size d ->
              slice (key_size d + 32) 32 (a ++ skipn (key_size d) b) = slice (key_size d + 32) 32 b
              /\ slice (key_size d + 64) 32 (a ++ skipn (key_size d) b) = slice (key_size d + 64) 32 b).
    { intros a b Ha. unfold slice. rewrite !skipn_plus, !(skipn_app_exact a) by exact Ha. auto. }
    assert (G2 : forall (a z : bytes) b, length a = key_size d -> length z = 32%nat ->
              slice (key_size d + 32) 32 (a ++ z ++ skipn (key_size d + 32) b) = slice (key_size d + 32) 32 b
              /\ slice (key_size d + 64) 32 (a ++ z ++ skipn (key_size d + 32) b) = slice (key_size d + 64) 32 b).
    { intros a z b Ha Hz. unfold slice.
      replace (key_size d + 64)%nat with (key_size d + 32 + 32)%nat by lia.
      rewrite !skipn_plus, !(skipn_app_exact a), !(skipn_app_exact z) by assumption. auto. }
    destruct (p <? pow2 d - 1); [|destruct (p =? pow2 d - 1)].
    - destruct (G (update_internal d p (firstn (key_size d) data)) data) as [-> ->];
        [apply update_internal_len; exact Hf|reflexivity].
    - destruct (G2 (fst (keygen_internal d (slice (key_size d) 32 data))) (zeros 32) data) as [-> ->];
        [apply keygen_internal_len|apply zeros_len|reflexivity].
      unfold slice. rewrite firstn_length, skipn_length. lia.
    - destruct (G (update_internal d (p - pow2 d) (firstn (key_size d) data)) data) as [-> ->];
        [apply update_internal_len; exact Hf|reflexivity].
  Qed.

  (* for every well-sized key, cached public key or not *)
  Theorem pk_stable sk sk' old :
    (forall data, sk_data sk = Some data -> length data = key_size (sk_depth sk)) ->
    update sk = Some (sk', old) -> public_key sk' = public_key sk.
  Proof.
    intros Hwf. unfold Model.update. destruct (sk_data sk) as [data|] eqn:Ed; [|discriminate].
    destruct (N.leb_spec (pow2 (sk_depth sk)) (sk_period sk + 1)) as [|Hlt]; [discriminate|].
    intros E. inversion E; subst. unfold Model.public_key. cbn [sk_pk sk_data sk_depth].
    rewrite Ed. destruct (sk_pk sk); [reflexivity|].
    destruct (sk_depth sk) as [|d] eqn:Edepth.
    - cbn [pow2] in Hlt. lia.
    - apply update_internal_pk. apply Hwf. reflexivity.
  Qed.

  (* keys made by KeyGen and evolved any number of times: the public key is
     the root of the tree of all leaf public keys, with or without the cache *)
  Theorem pk_is_root d seed t : length seed = 32%nat ->
    public_key (key_state d seed t) = pkf d seed
    /\ public_key (mk_skey d t (Some (key_at d seed t)) None) = pkf d seed.
  Proof.
    intros Hs. split; [reflexivity|]. unfold Model.public_key. cbn [sk_pk sk_data sk_depth].
    apply pk_internal_spec. exact Hs.
  Qed.

  (* ---- forward security ---- *)
  (* [subtree d s lo k s' lo']: the tree of height d with root seed s covering
     periods [lo, lo + 2^d) contains a node of height k with seed s' covering
     [lo', lo' + 2^k) *)
  Inductive subtree : nat -> bytes -> N -> nat -> bytes -> N -> Prop :=
  | st_here d s lo : subtree d s lo d s lo
  | st_left d s lo k s' lo' :
      subtree d (expand s 1) lo k s' lo' -> subtree (S d) s lo k s' lo'
  | st_right d s lo k s' lo' :
      subtree d (expand s 2) (lo + pow2 d) k s' lo' -> subtree (S d) s lo k s' lo'.

  Lemma subtree_range d s lo k s' lo' : subtree d s lo k s' lo' ->
    lo <= lo' /\ lo' + pow2 k <= lo + pow2 d.
  Proof.
    induction 1 as [| ? ? ? ? ? ? _ IH | ? ? ? ? ? ? _ IH]; cbn [pow2]; lia.
  Qed.

  (* the 32-byte slots of the key that hold secret material: the seed slot
     of every level and the leaf slot; all other bytes are the public keys *)
  Fixpoint secret_slots (d : nat) (data : bytes) : list bytes :=
    match d with
    | O => [firstn 32 data]
    | S d' => slice (key_size d') 32 data :: secret_slots d' (firstn (key_size d') data)
    end.

  Definition slot_future (d : nat) (seed : bytes) (lo0 t : N) (slot : bytes) : Prop :=
    slot = zeros 32 \/
    exists k s' lo, subtree d seed lo0 k s' lo /\ slot = s' /\ lo0 + t <= lo.

  Lemma slots_future d : forall s lo0 t, length s = 32%nat -> t < pow2 d ->
    Forall (slot_future d s lo0 t) (secret_slots d (key_at d s t)).
  Proof.
    induction d as [|d IH]; intros s lo0 t Hs Ht; cbn [secret_slots key_at].
    - constructor; [|constructor]. right. exists 0%nat, s, lo0.
      rewrite firstn_exact by exact Hs. cbn [pow2] in Ht.
      repeat split; [constructor|lia].
    - cbn [pow2] in Ht.
      set (l := expand s 1). set (r := expand s 2).
      assert (Hl : length l = 32%nat) by apply expand_len.
      assert (Hr : length r = 32%nat) by apply expand_len.
      destruct (N.ltb_spec t (pow2 d)) as [Hlt|Hge].
      + destruct (layout4 (key_at d l t) r (pkf d l) (pkf d r) (key_size d))
          as (E1 & E2 & _); auto using key_at_len, pkf_len.
        rewrite E1, E2. constructor.
        * right. exists d, r, (lo0 + pow2 d). repeat split; [|lia].
          apply st_right. constructor.
        * eapply Forall_impl; [|apply (IH l lo0 t Hl Hlt)].
          intros slot [Hz|(k & s' & lo & Hst & Hsl & Hlo)]; [left; exact Hz|].
          right. exists k, s', lo. repeat split; auto. apply st_left. exact Hst.
      + destruct (layout4 (key_at d r (t - pow2 d)) (zeros 32) (pkf d l) (pkf d r) (key_size d))
          as (E1 & E2 & _); auto using key_at_len, pkf_len, zeros_len.
        rewrite E1, E2. constructor; [left; reflexivity|].
        eapply Forall_impl; [|apply (IH r (lo0 + pow2 d) (t - pow2 d) Hr); lia].
        intros slot [Hz|(k & s' & lo & Hst & Hsl & Hlo)]; [left; exact Hz|].
        right. exists k, s', lo. repeat split; auto; [apply st_right; exact Hst|lia].
  Qed.

  (* the leaf slot holds exactly the seed of the current period *)
  Lemma leaf_slot d : forall s t, length s = 32%nat ->
    last (secret_slots d (key_at d s t)) [] = leaf_seed d s t.
  Proof.
    induction d as [|d IH]; intros s t Hs; cbn [secret_slots key_at leaf_seed].
    - cbn [last]. apply firstn_exact. exact Hs.
    - set (l := expand s 1). set (r := expand s 2).
      assert (Hl : length l = 32%nat) by apply expand_len.
      assert (Hr : length r = 32%nat) by apply expand_len.
      assert (Hne : forall d' x, secret_slots d' x <> []) by (intros [|?] ?; cbn; discriminate).
      destruct (t <? pow2 d).
      + destruct (layout4 (key_at d l t) r (pkf d l) (pkf d r) (key_size d))
          as (E1 & _); auto using key_at_len, pkf_len.
        rewrite E1. specialize (IH l t Hl).
        destruct (secret_slots d (key_at d l t)) eqn:E; [exfalso; eapply Hne; eauto|].
        exact IH.
      + destruct (layout4 (key_at d r (t - pow2 d)) (zeros 32) (pkf d l) (pkf d r) (key_size d))
          as (E1 & _); auto using key_at_len, pkf_len, zeros_len.
        rewrite E1. specialize (IH r (t - pow2 d) Hr).
        destruct (secret_slots d (key_at d r (t - pow2 d))) eqn:E; [exfalso; eapply Hne; eauto|].
        exact IH.
  Qed.

  Theorem no_past d seed t : length seed = 32%nat -> t < pow2 d ->
    exists sk0, keygen d seed = Some (sk0, pkf d seed) /\
    exists sk data, evolve (N.to_nat t) sk0 = Some sk /\ sk_data sk = Some data
      /\ sk_period sk = t /\ data = key_at d seed t
      (* every secret slot is zero or the seed of a subtree all of whose
         leaves belong to periods >= t *)
      /\ (forall slot, In slot (secret_slots d data) ->
            slot = zeros 32 \/
            exists k s' lo, subtree d seed 0 k s' lo /\ slot = s'
                            /\ forall u leaf, subtree k s' lo 0%nat leaf u -> t <= u)
      (* signing for any other period is refused *)
      /\ (forall u m, u <> t -> sign sk u m = None)
      (* and the key object consumed by a further Update cannot sign at all *)
      /\ (forall sk' old, update sk = Some (sk', old) -> forall u m, sign old u m = None).
  Proof.
    intros Hs Ht. destruct (evolve_keygen d seed t Hs Ht) as (sk0 & Ek & Ee).
    exists sk0. split; [exact Ek|]. exists (key_state d seed t), (key_at d seed t).
    repeat split; auto.
    - intros slot Hin. pose proof (slots_future d seed 0 t Hs Ht) as F.
      rewrite Forall_forall in F. destruct (F slot Hin) as [Hz|(k & s' & lo & Hst & Hsl & Hlo)];
        [left; exact Hz|].
      right. exists k, s', lo. repeat split; auto.
      intros u leaf Hleaf. apply subtree_range in Hleaf. lia.
    - intros u m Hu. apply sign_other_period. exact Hu.
    - intros sk' old Hup. eapply sign_spent; eauto.
  Qed.

  (* ---- idealised primitives: period/message/key binding ---- *)
  Section ideal.
    (* symbolic-model idealisation: the hash and the Ed25519 maps are
       injective and a public key accepts exactly its own signature.  No
       function on fixed-width byte strings satisfies H_inj; the hypotheses
       are jointly satisfiable because a cell of [bytes] is an unbounded N
       (see the term-algebra instance in Ideal.v). *)
    Hypothesis H_inj : forall x y, H x = H y -> x = y.
    Hypothesis ed_pk_inj : forall s s', ed_pk s = ed_pk s' -> s = s'.
    Hypothesis ed_sign_inj : forall s m s' m', ed_sign s m = ed_sign s' m' -> s = s' /\ m = m'.
    Hypothesis ed_unique : forall s m sg, ed_verify (ed_pk s) m sg = true -> sg = ed_sign s m.

    Lemma Hpair_inj a b a' b' : length a = length a' -> Hpair a b = Hpair a' b' -> a = a' /\ b = b'.
    Proof. intros Hl E. apply H_inj in E. apply app_inj_len; assumption. Qed.

    Lemma pkf_inj d : forall s s', pkf d s = pkf d s' -> s = s'.
    Proof.
      induction d as [|d IH]; intros s s' E; cbn [pk_from_seed] in E; [apply ed_pk_inj; exact E|].
      apply Hpair_inj in E; [|rewrite !pkf_len; reflexivity].
      destruct E as [E _]. apply IH in E. apply H_inj in E. congruence.
    Qed.

    (* under the genuine public key a verifying signature is the genuine one *)
    Lemma verify_unique d : forall s t m sg, length sg = sig_size d -> t < pow2 d ->
      verify_rec d t (pkf d s) m sg = true -> sg = sig_at d s t m.
    Proof.
      induction d as [|d IH]; intros s t m sg Hl Ht Hv; cbn [Model.verify_rec sig_at pk_from_seed pow2] in *.
      - rewrite firstn_exact in Hv by exact Hl. apply ed_unique. exact Hv.
      - assert (Hk : sig_size (S d) = (sig_size d + 64)%nat) by (unfold sig_size; lia).
        rewrite Hk in Hl. destruct (split3 sg (sig_size d) Hl) as (Esg & L1 & L2 & L3).
        set (c := firstn (sig_size d) sg) in *.
        set (lpk := slice (sig_size d) 32 sg) in *.
        set (rpk := slice (sig_size d + 32) 32 sg) in *.
        destruct (N.leb_spec (2 * pow2 d) t) as [|_]; [discriminate|].
        destruct (bytes_eqb (Hpair lpk rpk) _) eqn:Eh; [|discriminate]. cbn [negb] in Hv.
        apply bytes_eqb_eq in Eh. apply Hpair_inj in Eh; [|rewrite pkf_len; exact L2].
        destruct Eh as [El Er]. rewrite Esg, El, Er. f_equal.
        destruct (N.leb_spec (pow2 d) t), (N.ltb_spec t (pow2 d)); try lia.
        + rewrite Er in Hv. apply IH; auto. lia.
        + rewrite El in Hv. apply IH; auto.
    Qed.

    Lemma sig_at_inj d : forall s t m s' t' m', t < pow2 d -> t' < pow2 d ->
      sig_at d s t m = sig_at d s' t' m' -> s = s' /\ t = t' /\ m = m'.
    Proof.
      induction d as [|d IH]; intros s t m s' t' m' Ht Ht' E; cbn [sig_at pow2] in *.
      - apply ed_sign_inj in E. destruct E; repeat split; auto. lia.
      - apply app_inj_len in E.
        2:{ destruct (t <? pow2 d), (t' <? pow2 d); rewrite !sig_at_len; reflexivity. }
        destruct E as [Ec Ep].
        apply app_inj_len in Ep; [|rewrite !pkf_len; reflexivity].
        destruct Ep as [Ep _]. apply pkf_inj in Ep. apply H_inj in Ep.
        assert (Es : s = s') by congruence. subst s'. split; [reflexivity|].
        destruct (N.ltb_spec t (pow2 d)), (N.ltb_spec t' (pow2 d)).
        + apply IH in Ec; auto. tauto.
        + apply IH in Ec; [|lia|lia]. destruct Ec as [Ec _]. apply H_inj in Ec. discriminate.
        + apply IH in Ec; [|lia|lia]. destruct Ec as [Ec _]. apply H_inj in Ec. discriminate.
        + apply IH in Ec; [|lia|lia]. destruct Ec as (_ & Et & Em). split; [lia|exact Em].
    Qed.

    (* the genuine signature of period t on m verifies at no other period,
       for no other message and under no other public key *)
    Theorem period_bound d seed t m pk' t' m' : length seed = 32%nat -> t < pow2 d ->
      verify d pk' t' m' (sig_at d seed t m) = true ->
      pk' = pkf d seed /\ t' = t /\ m' = m.
    Proof.
      intros Hs Ht Hv. unfold Model.verify in Hv. destruct d as [|d]; [discriminate|].
      rewrite sig_at_len, Nat.eqb_refl in Hv.
      assert (Hpk : pk' = pkf (S d) seed /\ t' < pow2 (S d)).
      { cbn [Model.verify_rec sig_at pk_from_seed pow2] in Hv |- *.
        set (c := if t <? pow2 d then _ else _) in Hv.
        assert (Hc : length c = sig_size d) by (unfold c; destruct (t <? pow2 d); apply sig_at_len).
        destruct (layout3 c (pkf d (expand seed 1)) (pkf d (expand seed 2)) (sig_size d))
          as (E1 & E2 & E3); auto using pkf_len.
        rewrite E2, E3 in Hv.
        destruct (N.leb_spec (2 * pow2 d) t'); [discriminate|].
        destruct (bytes_eqb _ pk') eqn:Eh; [|discriminate].
        apply bytes_eqb_eq in Eh. cbn [pow2]. split; [congruence|lia]. }
      destruct Hpk as [-> Ht'].
      apply verify_unique in Hv; [|apply sig_at_len|exact Ht'].
      apply sig_at_inj in Hv; auto. destruct Hv as (_ & -> & ->). auto.
    Qed.

    (* VerifyKesComponents accepts a genuine depth-6 signature only for its
       own body and hot key and only in the slots of its own period *)
    Theorem components_bound seed t m body hot kp slot spkp : length seed = 32%nat -> t < pow2 6 ->
      verify_components H ed_verify body (sig_at 6 seed t m) hot kp slot spkp = Some true ->
      hot = pkf 6 seed /\ body = m /\ spkp <> 0 /\ slot / spkp = kp + t.
    Proof.
      intros Hs Ht. remember (sig_at 6 seed t m) as sg eqn:Esg. unfold Model.verify_components.
      destruct (N.eqb_spec spkp 0); [discriminate|].
      destruct (negb (Nat.eqb (length sg) 448)); [discriminate|].
      destruct (N.ltb_spec (slot / spkp) kp); [discriminate|].
      intros E. injection E as Hv. unfold Model.verify_signed_kes in Hv. subst sg.
      apply period_bound in Hv; auto.
      destruct Hv as (-> & Hp & ->). repeat split; auto. lia.
    Qed.

    (* under the genuine public key, period and message, no other byte string
       verifies: in particular every bit flip of the signature is rejected *)
    Theorem sig_unique d seed t m sg :
      verify d (pkf d seed) t m sg = true -> sg = sig_at d seed t m.
    Proof.
      intros Hv. unfold Model.verify in Hv. destruct d as [|d]; [discriminate|].
      destruct (Nat.eqb_spec (length sg) (sig_size (S d))) as [Hl|]; [|discriminate].
      apply verify_unique; auto.
      cbn [Model.verify_rec] in Hv. destruct (N.leb_spec (pow2 (S d)) t); [discriminate|lia].
    Qed.
  End ideal.
End proofs.
