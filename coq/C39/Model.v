(* C39 - KES sum composition.  Function-by-function model of
   /repo/kes/sign.go (KeyGen, keyGenInternal, publicKeyFromSeed, expandSeed,
   Sign, signInternal, Update, updateInternal, PublicKey, publicKeyInternal,
   Zeroize), /repo/kes/kes.go (NewSumKesFromBytes, SumXKesSig.Verify,
   Sum0KesSig.Verify, HashPair, VerifySignedKES) and
   /repo/ledger/verify_kes.go (VerifyKesComponents).

   Primitives are Section variables: H = Blake2b-256, ed_pk / ed_sign /
   ed_verify = Ed25519 (NewKeyFromSeed+Public, Sign, Verify).  Every `copy`
   of the Go code has a source of exactly the destination width (Sum256
   returns a [32]byte, Ed25519 keys are 32 and signatures 64 bytes, KeyGen
   rejects seeds that are not 32 bytes), so a copy into a slot is modelled as
   concatenation; the width facts are Section hypotheses of the theorems.
   Depth is a nat, periods are unbounded N (Go: uint64; `1 << depth` wraps
   for depth >= 64 - out of scope, real depth is 6). *)
From V Require Import Lib.Base.
Local Open Scope N_scope.

Definition zeros (n : nat) : bytes := repeat 0 n.
Definition slice (off len : nat) (b : bytes) : bytes := firstn len (skipn off b).

Fixpoint pow2 (d : nat) : N := match d with O => 1 | S d' => 2 * pow2 d' end.

(* secretKeySize: 32 + depth*96;  SignatureSize: 64 + depth*64 *)
Definition key_size (d : nat) : nat := (32 + d * 96)%nat.
Definition sig_size (d : nat) : nat := (64 + d * 64)%nat.

Record skey := mk_skey {
  sk_depth : nat;
  sk_period : N;
  sk_data : option bytes;     (* None = Data == nil (erased) *)
  sk_pk : option bytes        (* cached publicKey; None = nil (key built outside KeyGen) *)
}.

Section prim.
  Variable H : bytes -> bytes.                       (* Blake2b-256 *)
  Variable ed_pk : bytes -> bytes.                   (* seed -> public key *)
  Variable ed_sign : bytes -> bytes -> bytes.        (* seed, message -> signature *)
  Variable ed_verify : bytes -> bytes -> bytes -> bool. (* public key, message, signature *)

  (* HashPair: Blake2b-256 (l || r) *)
  Definition Hpair (l r : bytes) : bytes := H (l ++ r).
  (* expandSeed: Blake2b-256 (separator || seed) *)
  Definition expand (seed : bytes) (sep : N) : bytes := H (sep :: seed).

  (* publicKeyFromSeed *)
  Fixpoint pk_from_seed (d : nat) (seed : bytes) : bytes :=
    match d with
    | O => ed_pk seed
    | S d' => Hpair (pk_from_seed d' (expand seed 1)) (pk_from_seed d' (expand seed 2))
    end.

  (* keyGenInternal: (data written, public key of the subtree) *)
  Fixpoint keygen_internal (d : nat) (seed : bytes) : bytes * bytes :=
    match d with
    | O => (seed, ed_pk seed)
    | S d' =>
      let lseed := expand seed 1 in
      let rseed := expand seed 2 in
      let '(child, lpk) := keygen_internal d' lseed in
      let rpk := pk_from_seed d' rseed in
      (child ++ rseed ++ lpk ++ rpk, Hpair lpk rpk)
    end.

  (* KeyGen *)
  Definition keygen (d : nat) (seed : bytes) : option (skey * bytes) :=
    if negb (Nat.eqb (length seed) 32) then None
    else let '(data, pk) := keygen_internal d seed in
         Some (mk_skey d 0 (Some data) (Some pk), pk).

  (* signInternal *)
  Fixpoint sign_internal (d : nat) (period : N) (data msg : bytes) : bytes :=
    match d with
    | O => ed_sign (firstn 32 data) msg
    | S d' =>
      let cks := key_size d' in
      let half := pow2 d' in
      let lpk := slice (cks + 32) 32 data in
      let rpk := slice (cks + 64) 32 data in
      let child :=
        if period <? half then sign_internal d' period (firstn cks data) msg
        else sign_internal d' (period - half) (firstn cks data) msg in
      child ++ lpk ++ rpk
    end.

  (* Sign; None = error *)
  Definition sign (sk : skey) (period : N) (msg : bytes) : option bytes :=
    match sk_data sk with
    | None => None                                         (* erased *)
    | Some data =>
      if pow2 (sk_depth sk) <=? period then None            (* period exceeds maximum *)
      else if negb (period =? sk_period sk) then None       (* key is at another period *)
      else Some (sign_internal (sk_depth sk) period data msg)
    end.

  (* updateInternal (in place on the copy) *)
  Fixpoint update_internal (d : nat) (period : N) (data : bytes) : bytes :=
    match d with
    | O => zeros 32 ++ skipn 32 data
    | S d' =>
      let cks := key_size d' in
      let half := pow2 d' in
      let seed := slice cks 32 data in
      if period <? half - 1 then
        update_internal d' period (firstn cks data) ++ skipn cks data
      else if period =? half - 1 then
        fst (keygen_internal d' seed) ++ zeros 32 ++ skipn (cks + 32) data
      else
        update_internal d' (period - half) (firstn cks data) ++ skipn cks data
    end.

  (* Zeroize: Data = nil, Period = 0, cached public key kept *)
  Definition zeroize (sk : skey) : skey := mk_skey (sk_depth sk) 0 None (sk_pk sk).

  (* Update; None = error (input unchanged); Some (evolved, the input after the call) *)
  Definition update (sk : skey) : option (skey * skey) :=
    match sk_data sk with
    | None => None
    | Some data =>
      if pow2 (sk_depth sk) <=? sk_period sk + 1 then None  (* exhausted *)
      else Some (mk_skey (sk_depth sk) (sk_period sk + 1)
                         (Some (update_internal (sk_depth sk) (sk_period sk) data)) (sk_pk sk),
                 zeroize sk)
    end.

  (* publicKeyInternal *)
  Definition public_key_internal (d : nat) (data : bytes) : bytes :=
    match d with
    | O => ed_pk (firstn 32 data)
    | S d' => let cks := key_size d' in
              Hpair (slice (cks + 32) 32 data) (slice (cks + 64) 32 data)
    end.

  (* PublicKey.  (no cache and erased data: the Go code would slice a nil
     buffer and panic; no key made by KeyGen/Update is in that state.) *)
  Definition public_key (sk : skey) : bytes :=
    match sk_pk sk, sk_data sk with
    | Some pk, _ => pk
    | None, Some data => public_key_internal (sk_depth sk) data
    | None, None => []
    end.

  (* SumXKesSig.Verify on the parsed signature; parsing (NewSumKesFromBytes)
     only slices: sigma = first sig_size(d-1) bytes, then lpk, rpk *)
  Fixpoint verify_rec (d : nat) (period : N) (pk msg sig : bytes) : bool :=
    match d with
    | O => ed_verify pk msg (firstn 64 sig)       (* Sum0KesSig.Verify ignores the period *)
    | S d' =>
      let n := sig_size d' in
      let lpk := slice n 32 sig in
      let rpk := slice (n + 32) 32 sig in
      if pow2 (S d') <=? period then false
      else if negb (bytes_eqb (Hpair lpk rpk) pk) then false
      else if pow2 d' <=? period then verify_rec d' (period - pow2 d') rpk msg (firstn n sig)
      else verify_rec d' period lpk msg (firstn n sig)
    end.

  (* NewSumKesFromBytes(depth, sig) followed by Verify *)
  Definition verify (d : nat) (pk : bytes) (period : N) (msg sig : bytes) : bool :=
    match d with
    | O => false                                   (* "depth must be at least 1" *)
    | _ => if Nat.eqb (length sig) (sig_size d) then verify_rec d period pk msg sig else false
    end.

  (* VerifySignedKES *)
  Definition verify_signed_kes (vkey : bytes) (period : N) (msg sig : bytes) : bool :=
    verify 6 vkey period msg sig.

  (* VerifyKesComponents; None = error *)
  Definition verify_components (body sig hot : bytes) (kes_period slot spkp : N) : option bool :=
    if spkp =? 0 then None
    else if negb (Nat.eqb (length sig) 448) then None
    else let cur := slot / spkp in
         if cur <? kes_period then Some false
         else Some (verify_signed_kes hot (cur - kes_period) body sig).

  (* n updates in a row *)
  Fixpoint evolve (n : nat) (sk : skey) : option skey :=
    match n with
    | O => Some sk
    | S n' => match update sk with Some (sk', _) => evolve n' sk' | None => None end
    end.
End prim.

(* ------------------------------------------------------------------ *)
(* Correspondence: the primitives are finite oracle tables recorded by the
   harness (Blake2b-256: preimage -> digest; Ed25519: seed -> pk,
   (seed,msg) -> sig, (pk,msg,sig) -> bool).  A missing entry yields [] /
   false and therefore a visible difference. *)
From Coq Require Import String.
From V Require Import Lib.Hex.

Fixpoint lookup1 (t : list (bytes * bytes)) (k : bytes) : bytes :=
  match t with
  | [] => []
  | (k', v) :: r => if bytes_eqb k k' then v else lookup1 r k
  end.
Fixpoint lookup2 (t : list (bytes * bytes * bytes)) (k1 k2 : bytes) : bytes :=
  match t with
  | [] => []
  | (a, b, v) :: r => if bytes_eqb k1 a && bytes_eqb k2 b then v else lookup2 r k1 k2
  end.
Fixpoint lookup3 (t : list (bytes * bytes * bytes * bool)) (k1 k2 k3 : bytes) : bool :=
  match t with
  | [] => false
  | (a, b, c, v) :: r =>
    if bytes_eqb k1 a && bytes_eqb k2 b && bytes_eqb k3 c then v else lookup3 r k1 k2 k3
  end.

Record tables := mk_tables {
  t_hash : list (bytes * bytes);
  t_pk : list (bytes * bytes);
  t_sign : list (bytes * bytes * bytes);
  t_verify : list (bytes * bytes * bytes * bool)
}.

(* one observable step of a key's life; the harness performs the same call
   on the real key and the post step compares the rendered results *)
Inductive op :=
| OpPublicKey                               (* kes.PublicKey(sk) *)
| OpPublicKeyNoCache                        (* PublicKey of SecretKey{Depth,Period,Data} rebuilt without the cache *)
| OpData                                    (* sk.Period and sk.Data *)
| OpSign (period : N) (msg : bytes)         (* kes.Sign(sk, period, msg); the signature is remembered *)
| OpSignSpent (period : N) (msg : bytes)    (* kes.Sign on the key object consumed by the last Update *)
| OpUpdate                                  (* sk, err = kes.Update(sk) *)
| OpVerify (depth : nat) (pk : bytes) (period : N) (msg sig : bytes)  (* NewSumKesFromBytes + Verify *)
| OpVerifyLast (dperiod : Z) (flip_sig flip_msg flip_pk : option N)
                                            (* verify the remembered signature with one thing changed *)
| OpComponents (body sig hot : bytes) (kes_period slot spkp : N)
| OpHeldSig (i : nat).                      (* current contents of the slice returned by the i-th successful Sign:
                                               values are immutable here, so the model answers with the value at
                                               the time; the implementation answers with what the slice holds now *)

Local Open Scope string_scope.

Definition flip_bit (b : bytes) (i : N) : bytes :=
  let k := N.to_nat (i / 8) in
  (firstn k b ++ match skipn k b with
                 | [] => []
                 | x :: r => N.lxor x (N.shiftl 1 (i mod 8)) :: r
                 end)%list.
Definition flip_opt (b : bytes) (o : option N) : bytes :=
  match o with Some i => flip_bit b i | None => b end.

Section run.
  Variable T : tables.
  Let tH := lookup1 (t_hash T).
  Let tpk := lookup1 (t_pk T).
  Let tsign := lookup2 (t_sign T).
  Let tverify := lookup3 (t_verify T).

  Record rstate := mk_rstate {
    r_sk : skey; r_spent : option skey;
    r_last : option (N * bytes * bytes);     (* period, message, signature of the last Sign *)
    r_sigs : list bytes                      (* every signature returned so far, oldest first *)
  }.

  Definition render_opt (o : option bytes) : string :=
    match o with Some b => "ok:" ++ to_hex b | None => "err" end.
  Definition render_bool (b : bool) : string := if b then "true" else "false".

  Definition step (st : rstate) (o : op) : rstate * string :=
    let sk := r_sk st in
    match o with
    | OpPublicKey => (st, to_hex (public_key tH tpk sk))
    | OpPublicKeyNoCache =>
      (st, to_hex (public_key tH tpk (mk_skey (sk_depth sk) (sk_period sk) (sk_data sk) None)))
    | OpData => (st, dec (sk_period sk) ++ ":" ++ render_opt (sk_data sk))
    | OpSign p m =>
      let r := sign tsign sk p m in
      (match r with
       | Some s => mk_rstate sk (r_spent st) (Some (p, m, s)) (r_sigs st ++ [s])%list
       | None => st
       end, render_opt r)
    | OpSignSpent p m =>
      (st, match r_spent st with
           | Some old => render_opt (sign tsign old p m)
           | None => "nospent"
           end)
    | OpUpdate =>
      match update tH tpk sk with
      | Some (sk', old) => (mk_rstate sk' (Some old) (r_last st) (r_sigs st), "ok")
      | None => (st, "err")
      end
    | OpVerify d pk p m s => (st, render_bool (verify tH tverify d pk p m s))
    | OpVerifyLast dp fs fm fp =>
      (st, match r_last st with
           | Some (p, m, s) =>
             let p' := Z.to_N (Z.of_N p + dp) in
             render_bool (verify tH tverify (sk_depth sk)
                            (flip_opt (public_key tH tpk sk) fp) p' (flip_opt m fm) (flip_opt s fs))
           | None => "nolast"
           end)
    | OpHeldSig i =>
      (st, match nth_error (r_sigs st) i with Some s => to_hex s | None => "nosig" end)
    | OpComponents body sig hot kp slot spkp =>
      (st, match verify_components tH tverify body sig hot kp slot spkp with
           | Some b => render_bool b
           | None => "err"
           end)
    end.

  Fixpoint run_ops (st : rstate) (ops : list op) : list string :=
    match ops with
    | [] => []
    | o :: r => let '(st', out) := step st o in out :: run_ops st' r
    end.

  (* one history: KeyGen(depth, seed) then the operations *)
  Definition run_history (depth : nat) (seed : bytes) (ops : list op) : list string :=
    match keygen tH tpk depth seed with
    | None => ["keygen-err"]
    | Some (sk, pk) => ("keygen:" ++ to_hex pk) :: run_ops (mk_rstate sk None None []) ops
    end.
End run.

Definition join (l : list string) : string :=
  fold_right (fun s acc => s ++ "|" ++ acc) "" l.

(* the translator pins the constants of kes.go / sign.go (Gen.v compares) *)
Definition consts : list (string * N) :=
  [("SigmaSize", 64%N); ("PublicKeySize", 32%N); ("Sum0KesSigSize", 64%N);
   ("CardanoKesDepth", 6%N); ("CardanoKesSignatureSize", N.of_nat (sig_size 6));
   ("CardanoKesSecretKeySize", N.of_nat (key_size 6)); ("SeedSize", 32%N);
   ("SignatureSize(6)", N.of_nat (sig_size 6)); ("SignatureSize(1)", N.of_nat (sig_size 1));
   ("MaxPeriod(6)", pow2 6)].

Definition case := (tables * nat * bytes * list op)%type.
Definition out_of (c : case) : string :=
  let '(T, d, seed, ops) := c in join (run_history T d seed ops).
Definition model_outs (cs : list case) : list string := map out_of cs.
