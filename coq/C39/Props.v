(* C39 - property theorems only.  H = Blake2b-256, ed_* = Ed25519; every
   assumption about them is an explicit premise. *)
From V Require Import Lib.Base C39.Model C39.Proofs C39.Ideal C39.Gen.
Local Open Scope N_scope.

Definition widths (H ed_pk : bytes -> bytes) (ed_sign : bytes -> bytes -> bytes) : Prop :=
  (forall x, length (H x) = 32%nat) /\ (forall s, length (ed_pk s) = 32%nat)
  /\ (forall s m, length (ed_sign s m) = 64%nat).

(* For every depth >= 1, 32-byte seed, period t < 2^depth and message: the key
   generated from the seed and evolved t times is at period t, reports the
   root of the leaf-key tree as its public key, signs at t, and the signature
   verifies under that public key at period t.  Premises: output widths and
   Ed25519 correctness. *)
Theorem C39_complete :
  forall H ed_pk ed_sign ed_verify, widths H ed_pk ed_sign ->
  (forall s m, length s = 32%nat -> ed_verify (ed_pk s) m (ed_sign s m) = true) ->
  forall d seed t m, (1 <= d)%nat -> length seed = 32%nat -> t < pow2 d ->
  exists sk0 sk sg,
    keygen H ed_pk d seed = Some (sk0, pk_from_seed H ed_pk d seed)
    /\ evolve H ed_pk (N.to_nat t) sk0 = Some sk
    /\ sk_period sk = t
    /\ public_key H ed_pk sk = pk_from_seed H ed_pk d seed
    /\ sign ed_sign sk t m = Some sg
    /\ verify H ed_verify d (pk_from_seed H ed_pk d seed) t m sg = true.
Proof. intros H p s v (W1 & W2 & W3) Ok. exact (complete H p s v W1 W2 W3 Ok). Qed.
Print Assumptions C39_complete.

(* Update never changes the public key: for every well-sized key, whether the
   public key is cached or recomputed from the key bytes. *)
Theorem C39_pk_stable :
  forall H ed_pk ed_sign, widths H ed_pk ed_sign ->
  forall sk sk' old,
  (forall data, sk_data sk = Some data -> length data = key_size (sk_depth sk)) ->
  update H ed_pk sk = Some (sk', old) -> public_key H ed_pk sk' = public_key H ed_pk sk.
Proof. intros H p s (W1 & W2 & W3). exact (pk_stable H p s (fun _ _ _ => true) W1 W2 W3). Qed.
Print Assumptions C39_pk_stable.

(* ... and for a generated key at any period it is the root of the tree of
   all leaf public keys (cached and recomputed alike). *)
Theorem C39_pk_is_root :
  forall H ed_pk ed_sign, widths H ed_pk ed_sign ->
  forall d seed t, length seed = 32%nat ->
  public_key H ed_pk (key_state H ed_pk d seed t) = pk_from_seed H ed_pk d seed
  /\ public_key H ed_pk (mk_skey d t (Some (key_at H ed_pk d seed t)) None) = pk_from_seed H ed_pk d seed.
Proof. intros H p s (W1 & W2 & W3). exact (pk_is_root H p s (fun _ _ _ => true) W1 W2 W3). Qed.

(* Forward security as the code provides it: after t updates the key bytes
   are [key_at d seed t]; each of their secret 32-byte slots (the seed slot
   of every level, the leaf slot) is all zeros or the seed of a subtree whose
   leaves all belong to periods >= t; Sign refuses every period other than t;
   the key object consumed by Update cannot sign at all. *)
Theorem C39_no_past :
  forall H ed_pk ed_sign, widths H ed_pk ed_sign ->
  forall d seed t, length seed = 32%nat -> t < pow2 d ->
  exists sk0, keygen H ed_pk d seed = Some (sk0, pk_from_seed H ed_pk d seed) /\
  exists sk data, evolve H ed_pk (N.to_nat t) sk0 = Some sk /\ sk_data sk = Some data
    /\ sk_period sk = t /\ data = key_at H ed_pk d seed t
    /\ (forall slot, In slot (secret_slots d data) ->
          slot = zeros 32 \/
          exists k s' lo, subtree H d seed 0 k s' lo /\ slot = s'
                          /\ forall u leaf, subtree H k s' lo 0%nat leaf u -> t <= u)
    /\ (forall u m, u <> t -> sign ed_sign sk u m = None)
    /\ (forall sk' old, update H ed_pk sk = Some (sk', old) -> forall u m, sign ed_sign old u m = None).
Proof. intros H p s (W1 & W2 & W3). exact (no_past H p s (fun _ _ _ => true) W1 W2 W3). Qed.
Print Assumptions C39_no_past.

(* the last secret slot is the leaf seed of period t itself *)
Theorem C39_leaf_slot :
  forall H ed_pk ed_sign, widths H ed_pk ed_sign ->
  forall d seed t, length seed = 32%nat ->
  last (secret_slots d (key_at H ed_pk d seed t)) [] = leaf_seed H d seed t.
Proof. intros H p s (W1 & W2 & W3). exact (leaf_slot H p s (fun _ _ _ => true) W1 W2 W3). Qed.

Definition ideal (H ed_pk : bytes -> bytes) (ed_sign : bytes -> bytes -> bytes)
           (ed_verify : bytes -> bytes -> bytes -> bool) : Prop :=
  (forall x y, H x = H y -> x = y)
  /\ (forall s s', ed_pk s = ed_pk s' -> s = s')
  /\ (forall s m s' m', ed_sign s m = ed_sign s' m' -> s = s' /\ m = m')
  /\ (forall s m sg, ed_verify (ed_pk s) m sg = true -> sg = ed_sign s m).

(* IDEALISED (symbolic model: injective hash, injective Ed25519 maps, a
   public key accepts only its own signature): the genuine signature of
   period t on m verifies at no other period, for no other message and under
   no other public key. *)
Theorem C39_period_bound :
  forall H ed_pk ed_sign ed_verify, widths H ed_pk ed_sign -> ideal H ed_pk ed_sign ed_verify ->
  forall d seed t m pk' t' m', length seed = 32%nat -> t < pow2 d ->
  verify H ed_verify d pk' t' m' (sig_at H ed_pk ed_sign d seed t m) = true ->
  pk' = pk_from_seed H ed_pk d seed /\ t' = t /\ m' = m.
Proof.
  intros H p s v (W1 & W2 & W3) (I1 & I2 & I3 & I4).
  exact (period_bound H p s v W1 W2 W3 I1 I2 I3 I4).
Qed.
Print Assumptions C39_period_bound.

(* IDEALISED: under the genuine key, period and message only the genuine
   byte string verifies (so every bit flip of a signature is rejected). *)
Theorem C39_sig_unique :
  forall H ed_pk ed_sign ed_verify, widths H ed_pk ed_sign -> ideal H ed_pk ed_sign ed_verify ->
  forall d seed t m sg,
  verify H ed_verify d (pk_from_seed H ed_pk d seed) t m sg = true ->
  sg = sig_at H ed_pk ed_sign d seed t m.
Proof.
  intros H p s v (W1 & W2 & W3) (I1 & I2 & I3 & I4).
  exact (sig_unique H p s v W1 W2 W3 I1 I2 I3 I4).
Qed.
Print Assumptions C39_sig_unique.

(* VerifyKesComponents (depth 6): the genuine signature is accepted in every
   slot of its own period (premise: Ed25519 correctness) ... *)
Theorem C39_components_complete :
  forall H ed_pk ed_sign ed_verify, widths H ed_pk ed_sign ->
  (forall s m, length s = 32%nat -> ed_verify (ed_pk s) m (ed_sign s m) = true) ->
  forall seed t m kp slot spkp, length seed = 32%nat -> t < pow2 6 ->
  spkp <> 0 -> slot / spkp = kp + t ->
  verify_components H ed_verify m (sig_at H ed_pk ed_sign 6 seed t m)
                    (pk_from_seed H ed_pk 6 seed) kp slot spkp = Some true.
Proof. intros H p s v (W1 & W2 & W3) Ok. exact (components_complete H p s v W1 W2 W3 Ok). Qed.

(* ... and (IDEALISED) only there, only for its own body and hot key *)
Theorem C39_components_bound :
  forall H ed_pk ed_sign ed_verify, widths H ed_pk ed_sign -> ideal H ed_pk ed_sign ed_verify ->
  forall seed t m body hot kp slot spkp, length seed = 32%nat -> t < pow2 6 ->
  verify_components H ed_verify body (sig_at H ed_pk ed_sign 6 seed t m) hot kp slot spkp = Some true ->
  hot = pk_from_seed H ed_pk 6 seed /\ body = m /\ spkp <> 0 /\ slot / spkp = kp + t.
Proof.
  intros H p s v (W1 & W2 & W3) (I1 & I2 & I3 & I4).
  exact (components_bound H p s v W1 W2 W3 I1 I2 I3 I4).
Qed.
Print Assumptions C39_components_bound.

(* [sig_at] is what Sign returns (ties the two idealised theorems to Sign) *)
Theorem C39_sign_is_sig_at :
  forall H ed_pk ed_sign, widths H ed_pk ed_sign ->
  forall d seed t m, length seed = 32%nat -> t < pow2 d ->
  sign ed_sign (key_state H ed_pk d seed t) t m = Some (sig_at H ed_pk ed_sign d seed t m).
Proof. intros H p s (W1 & W2 & W3). exact (sign_key_state H p s (fun _ _ _ => true) W1 W2 W3). Qed.

(* the constants of kes.go are the ones the model uses (translator output) *)
Theorem C39_constants : gen_consts = consts.
Proof. reflexivity. Qed.

(* ---- non-vacuity: all premises hold together for the term-algebra instance ---- *)
Example C39_premises_satisfiable :
  widths tH tpk tsign /\ ideal tH tpk tsign tverify
  /\ (forall s m, length s = 32%nat -> tverify (tpk s) m (tsign s m) = true).
Proof.
  split; [|split].
  - split; [exact tH_len|split; [exact tpk_len|exact tsign_len]].
  - split; [exact tH_inj|split; [exact tpk_inj|split; [exact tsign_inj|exact t_unique]]].
  - exact t_ok.
Qed.

(* so in that instance a signature verifies exactly at its own (key, period, message) *)
Example C39_instance_exact :
  forall d seed t m pk' t' m', (1 <= d)%nat -> length seed = 32%nat -> t < pow2 d ->
  (verify tH tverify d pk' t' m' (sig_at tH tpk tsign d seed t m) = true
   <-> pk' = pk_from_seed tH tpk d seed /\ t' = t /\ m' = m).
Proof.
  intros d seed t m pk' t' m' Hd Hs Ht.
  destruct C39_premises_satisfiable as (W & I & Ok). split.
  - intros Hv. eapply C39_period_bound; eauto.
  - intros (-> & -> & ->).
    destruct (C39_complete tH tpk tsign tverify W Ok d seed t m Hd Hs Ht)
      as (sk0 & sk & sg & Ek & Ee & Ep & Epk & Esg & Ev).
    destruct W as (W1 & W2 & W3).
    destruct (evolve_keygen tH tpk tsign tverify W1 W2 W3 d seed t Hs Ht) as (sk0' & Ek' & Ee').
    rewrite Ek in Ek'. inversion Ek'; subst sk0'. rewrite Ee in Ee'. inversion Ee'; subst sk.
    rewrite (sign_key_state tH tpk tsign tverify W1 W2 W3 d seed t m Hs Ht) in Esg.
    inversion Esg; subst sg. exact Ev.
Qed.
