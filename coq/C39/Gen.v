(* written by harness/cmd/c39 gen *)
From Coq Require Import String.
From V Require Import Lib.Base.
Open Scope string_scope.
Definition gen_consts : list (string * N) :=
  [("SigmaSize", 64%N);
   ("PublicKeySize", 32%N);
   ("Sum0KesSigSize", 64%N);
   ("CardanoKesDepth", 6%N);
   ("CardanoKesSignatureSize", 448%N);
   ("CardanoKesSecretKeySize", 608%N);
   ("SeedSize", 32%N);
   ("SignatureSize(6)", 448%N);
   ("SignatureSize(1)", 128%N);
   ("MaxPeriod(6)", 64%N)].
