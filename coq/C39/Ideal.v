(* C39 - a term-algebra instance of the idealised primitives, showing that
   the Section hypotheses used by the theorems are jointly satisfiable.
   A cell of [bytes] is an unbounded N, so an injective encoding of byte
   strings into one cell exists; the remaining cells are padding.  (No
   function on real fixed-width byte strings can be injective: this is the
   symbolic-model idealisation, not a claim about Blake2b or Ed25519.) *)
From V Require Import Lib.Base C39.Model C39.Proofs.
Local Open Scope N_scope.

(* list N -> N, injective: [] -> 0, x :: r -> 2^x * (2 * enc r + 1) *)
Fixpoint enc (l : list N) : N :=
  match l with [] => 0 | x :: r => 2 ^ x * (2 * enc r + 1) end.

Lemma pow2odd_inj x : forall y a b, 2 ^ x * (2 * a + 1) = 2 ^ y * (2 * b + 1) -> x = y /\ a = b.
Proof.
  induction x as [|x IH] using N.peano_ind; intros y a b E;
    destruct y as [|y] using N.peano_ind.
  - rewrite !N.pow_0_r in E. lia.
  - rewrite N.pow_0_r, N.pow_succ_r', <- N.mul_assoc in E.
    remember (2 ^ y * (2 * b + 1)) as T. lia.
  - rewrite N.pow_0_r, N.pow_succ_r', <- N.mul_assoc in E.
    remember (2 ^ x * (2 * a + 1)) as T. lia.
  - rewrite !N.pow_succ_r', <- !N.mul_assoc in E.
    assert (E' : 2 ^ x * (2 * a + 1) = 2 ^ y * (2 * b + 1)).
    { remember (2 ^ x * (2 * a + 1)) as T. remember (2 ^ y * (2 * b + 1)) as U. lia. }
    apply IH in E'. destruct E' as [-> ->]. auto.
Qed.

Lemma enc_cons_nonzero x r : 2 ^ x * (2 * enc r + 1) <> 0.
Proof.
  intros E. apply N.eq_mul_0 in E. destruct E as [E|E]; [|lia].
  revert E. apply N.pow_nonzero. discriminate.
Qed.

Lemma enc_inj : forall l l', enc l = enc l' -> l = l'.
Proof.
  induction l as [|x r IH]; intros [|y r'] E; cbn [enc] in E.
  - reflexivity.
  - symmetry in E. apply enc_cons_nonzero in E. destruct E.
  - apply enc_cons_nonzero in E. destruct E.
  - apply pow2odd_inj in E. destruct E as [-> E]. apply IH in E. congruence.
Qed.

Definition pad (n : nat) (v : N) : bytes := v :: repeat 0 (n - 1).
Lemma pad_len n v : (1 <= n)%nat -> length (pad n v) = n.
Proof. intros. unfold pad. cbn [length]. rewrite repeat_length. lia. Qed.
Lemma pad_inj n v w : pad n v = pad n w -> v = w.
Proof. unfold pad. congruence. Qed.

Definition tH (x : bytes) : bytes := pad 32 (enc x).
Definition tpk (s : bytes) : bytes := pad 32 (enc s).
Definition tsign (s m : bytes) : bytes := enc s :: pad 63 (enc m).
Definition tverify (pk m sg : bytes) : bool := bytes_eqb sg (hd 0 pk :: pad 63 (enc m)).

Lemma tH_len x : length (tH x) = 32%nat.
Proof. apply pad_len. lia. Qed.
Lemma tpk_len s : length (tpk s) = 32%nat.
Proof. apply pad_len. lia. Qed.
Lemma tsign_len s m : length (tsign s m) = 64%nat.
Proof. unfold tsign. cbn [length]. rewrite pad_len; lia. Qed.
Lemma tH_inj x y : tH x = tH y -> x = y.
Proof. intros E. apply pad_inj in E. apply enc_inj. exact E. Qed.
Lemma tpk_inj s s' : tpk s = tpk s' -> s = s'.
Proof. exact (tH_inj s s'). Qed.
Lemma tsign_inj s m s' m' : tsign s m = tsign s' m' -> s = s' /\ m = m'.
Proof.
  unfold tsign. intros E. inversion E as [[E1 E2]].
  split; apply enc_inj; assumption.
Qed.
Lemma t_ok s m : length s = 32%nat -> tverify (tpk s) m (tsign s m) = true.
Proof. intros _. unfold tverify, tpk, tsign, pad. cbn [hd]. apply bytes_eqb_eq. reflexivity. Qed.
Lemma t_unique s m sg : tverify (tpk s) m sg = true -> sg = tsign s m.
Proof. unfold tverify, tpk, tsign, pad. cbn [hd]. intros E. apply bytes_eqb_eq in E. exact E. Qed.
