(* C28 - specification and proofs.  Everything is proved for arbitrary
   H224 / SHA3 / edverify (Section variables). *)
From Coq Require Import String.
From V Require Import Lib.Base Lib.Hex C28.Model C28.Gen C28.Corr.

(* ---- generic facts about the loops ---------------------------------------- *)

Lemma first_err_none {A} (f : A -> option err) l :
  first_err f l = None <-> forall x, In x l -> f x = None.
Proof.
  induction l as [|a r IH]; cbn [first_err].
  - split; [intros _ x []|reflexivity].
  - destruct (f a) eqn:E.
    + split; [discriminate|]. intros H. rewrite (H a (or_introl eq_refl)) in E. discriminate.
    + rewrite IH. split.
      * intros H x [<-|Hx]; auto.
      * intros H x Hx. apply H. right. exact Hx.
Qed.

Lemma mem_In h l : mem h l = true <-> In h l.
Proof.
  unfold mem. rewrite existsb_exists. split.
  - intros (x & Hx & E). apply bytes_eqb_eq in E. subst. exact Hx.
  - intros H. exists h. split; [exact H|]. apply bytes_eqb_eq. reflexivity.
Qed.

Lemma mem_false h l : mem h l = false <-> ~ In h l.
Proof.
  rewrite <- mem_In. destruct (mem h l); split; intros H; try congruence;
    try (exfalso; apply H; reflexivity).
Qed.

Lemma len_eqb_32 (b : bytes) n : negb (length b =? n) = false <-> length b = n.
Proof. rewrite negb_false_iff. apply Nat.eqb_eq. Qed.

Section Spec.
  Variable H224 : bytes -> bytes.
  Variable SHA3 : bytes -> bytes.
  Variable edverify : bytes -> bytes -> bytes -> bool.

  Notation hashes := (vkey_hashes H224).
  Notation vt := (verify_transaction H224 SHA3 edverify).

  (* address root a bootstrap witness derives:
     Blake2b-224 (SHA3-256 (CBOR [0, [0, pk || cc], attrs])) *)
  Definition root_of (b : bootw) : bytes :=
    byron_root H224 SHA3 (bw_pk b) (bw_cc b) (bw_attrs b).

  (* ---- the specification (written from the property text) ------------------ *)

  Definition vkw_valid (t : tx) (w : vkw) : Prop :=
    length (vk_pk w) = 32 /\ length (vk_sig w) = 64 /\ edverify (vk_pk w) (txid t) (vk_sig w) = true.
  Definition bw_valid (t : tx) (b : bootw) : Prop :=
    length (bw_pk b) = 32 /\ length (bw_sig b) = 64 /\ edverify (bw_pk b) (txid t) (bw_sig b) = true.

  (* the owner of a key-locked output has a witness *)
  Definition owner_witnessed (t : tx) (a : addr_kind) : Prop :=
    match a with
    | AKey h => In h (hashes t)
    | AByron h => In h (hashes t) \/ exists b, In b (boots t) /\ root_of b = h
    | AScript _ | ANoPay => True
    end.
  Definition key_owned (a : addr_kind) : Prop :=
    match a with AKey _ | AByron _ => True | _ => False end.

  Definition inputs_ok (t : tx) : Prop :=
    forall a, In (ROut a) (inputs t) -> owner_witnessed t a.
  Definition collateral_ok (t : tx) : Prop :=
    forall i, In i (collateral t) -> exists a, i = ROut a /\ key_owned a /\ owner_witnessed t a.
  Definition witnesses_ok (t : tx) : Prop :=
    (forall w, In w (vkeys t) -> vkw_valid t w) /\ (forall b, In b (boots t) -> bw_valid t b).
  Definition required_ok (t : tx) : Prop :=
    forall r, In r (req_signers t ++ wdrl_keys t) -> In r (hashes t).

  Definition spec (t : tx) : Prop :=
    inputs_ok t /\ collateral_ok t /\ witnesses_ok t /\ required_ok t.

  (* ---- what the code decides exactly ------------------------------------------ *)

  Definition input_exact (t : tx) (i : resolved) : Prop :=
    match i with
    | ROut (AKey h) => In h (hashes t)
    | ROut (AByron h) =>
        In h (hashes t) \/
        exists b, In b (boots t) /\ length (bw_pk b) = 32 /\ length (bw_cc b) = 32 /\ root_of b = h
    | _ => True
    end.
  Definition collateral_exact (t : tx) (i : resolved) : Prop :=
    exists h, (i = ROut (AKey h) \/ i = ROut (AByron h)) /\ In h (hashes t).

  Definition exact (t : tx) : Prop :=
    (forall i, In i (inputs t) -> input_exact t i) /\
    (forall i, In i (collateral t) -> collateral_exact t i) /\
    witnesses_ok t /\ required_ok t.

  (* ---- one characterising lemma per Go function --------------------------------- *)

  Lemma verify_vkey_signature_none pk sg msg :
    verify_vkey_signature edverify pk sg msg = None <->
    length pk = 32 /\ length sg = 64 /\ edverify pk msg sg = true.
  Proof.
    unfold verify_vkey_signature.
    destruct (negb (length pk =? 32)) eqn:E1.
    - split; [discriminate|]. intros (H & _). apply len_eqb_32 in H. congruence.
    - apply len_eqb_32 in E1. destruct (negb (length sg =? 64)) eqn:E2.
      + split; [discriminate|]. intros (_ & H & _). apply len_eqb_32 in H. congruence.
      + apply len_eqb_32 in E2. destruct (edverify pk msg sg) eqn:E3; cbn [negb].
        * split; auto.
        * split; [discriminate|]. intros (_ & _ & H). discriminate.
  Qed.

  Lemma validate_vkey_witnesses_none t :
    validate_vkey_witnesses edverify t = None <-> forall w, In w (vkeys t) -> vkw_valid t w.
  Proof.
    unfold validate_vkey_witnesses. rewrite first_err_none.
    split; intros H w Hw; specialize (H w Hw); apply verify_vkey_signature_none; exact H.
  Qed.

  Lemma validate_bootstrap_witnesses_none t :
    validate_bootstrap_witnesses edverify t = None <-> forall b, In b (boots t) -> bw_valid t b.
  Proof.
    unfold validate_bootstrap_witnesses. rewrite first_err_none.
    assert (K : forall b,
      (if negb (length (bw_pk b) =? 32) then Some EBootPkSize
       else if negb (length (bw_sig b) =? 64) then Some EBootSigSize
       else if negb (edverify (bw_pk b) (txid t) (bw_sig b)) then Some EBootVerify else None) = None
      <-> bw_valid t b).
    { intros b. unfold bw_valid.
      destruct (negb (length (bw_pk b) =? 32)) eqn:E1.
      - split; [discriminate|]. intros (H & _). apply len_eqb_32 in H. congruence.
      - apply len_eqb_32 in E1. destruct (negb (length (bw_sig b) =? 64)) eqn:E2.
        + split; [discriminate|]. intros (_ & H & _). apply len_eqb_32 in H. congruence.
        + apply len_eqb_32 in E2. destruct (edverify (bw_pk b) (txid t) (bw_sig b)) eqn:E3; cbn [negb].
          * split; auto.
          * split; [discriminate|]. intros (_ & _ & H). discriminate. }
    split; intros H b Hb; specialize (H b Hb); apply K; exact H.
  Qed.

  Lemma boot_matches_true h b :
    boot_matches H224 SHA3 h b = true <->
    length (bw_pk b) = 32 /\ length (bw_cc b) = 32 /\ root_of b = h.
  Proof.
    unfold boot_matches, compute_byron_root, root_of.
    destruct (negb (length (bw_pk b) =? 32)) eqn:E1.
    - split; [discriminate|]. intros (H & _). apply len_eqb_32 in H. congruence.
    - apply len_eqb_32 in E1. destruct (negb (length (bw_cc b) =? 32)) eqn:E2.
      + split; [discriminate|]. intros (_ & H & _). apply len_eqb_32 in H. congruence.
      + apply len_eqb_32 in E2. rewrite bytes_eqb_eq. tauto.
  Qed.

  Lemma check_input_none t i :
    check_input H224 SHA3 t i = None <-> input_exact t i.
  Proof.
    destruct i as [| |a]; cbn [check_input input_exact]; try tauto.
    destruct a as [h|h|h|]; try tauto.
    - destruct (mem h (hashes t)) eqn:E.
      + apply mem_In in E. tauto.
      + apply mem_false in E. split; [discriminate|tauto].
    - destruct (mem h (hashes t)) eqn:E.
      + apply mem_In in E. tauto.
      + apply mem_false in E.
        destruct (existsb (boot_matches H224 SHA3 h) (boots t)) eqn:X.
        * apply existsb_exists in X. destruct X as (b & Hb & M). apply boot_matches_true in M.
          split; [|reflexivity]. intros _. right. exists b. tauto.
        * split; [discriminate|]. intros [H|(b & Hb & M)]; [tauto|].
          assert (existsb (boot_matches H224 SHA3 h) (boots t) = true) as Y.
          { apply existsb_exists. exists b. split; [exact Hb|]. apply boot_matches_true. exact M. }
          congruence.
  Qed.

  Lemma validate_input_vkey_witnesses_none t :
    validate_input_vkey_witnesses H224 SHA3 t = None <-> forall i, In i (inputs t) -> input_exact t i.
  Proof.
    unfold validate_input_vkey_witnesses. rewrite first_err_none.
    split; intros H i Hi; apply check_input_none; auto.
  Qed.

  Lemma hashes_nil t : vkeys t = [] -> hashes t = [].
  Proof. unfold vkey_hashes. intros ->. reflexivity. Qed.

  Lemma validate_required_none t :
    validate_required_vkey_witnesses H224 t = None <-> required_ok t.
  Proof.
    unfold validate_required_vkey_witnesses, required_ok.
    destruct (req_signers t ++ wdrl_keys t) as [|r0 rs] eqn:R.
    - split; [intros _ r []|reflexivity].
    - destruct (vkeys t) as [|w ws] eqn:V.
      + split; [discriminate|]. intros H. specialize (H r0 (or_introl eq_refl)).
        rewrite (hashes_nil t V) in H. destruct H.
      + rewrite first_err_none. split; intros H r Hr; specialize (H r Hr).
        * destruct (mem r (hashes t)) eqn:E; [apply mem_In; exact E|discriminate].
        * apply mem_In in H. rewrite H. reflexivity.
  Qed.

  Lemma check_collateral_none t i :
    check_collateral H224 t i = None <-> collateral_exact t i.
  Proof.
    unfold collateral_exact.
    destruct i as [| |a]; cbn [check_collateral].
    - split; [discriminate|]. intros (h & [E|E] & _); discriminate.
    - split; [discriminate|]. intros (h & [E|E] & _); discriminate.
    - destruct a as [h|h|h|].
      + destruct (mem h (hashes t)) eqn:E.
        * apply mem_In in E. split; [|reflexivity]. intros _. exists h. auto.
        * apply mem_false in E. split; [discriminate|].
          intros (h' & [X|X] & Hin); inversion X; subst; tauto.
      + destruct (mem h (hashes t)) eqn:E.
        * apply mem_In in E. split; [|reflexivity]. intros _. exists h. auto.
        * apply mem_false in E. split; [discriminate|].
          intros (h' & [X|X] & Hin); inversion X; subst; tauto.
      + split; [discriminate|]. intros (h' & [X|X] & _); discriminate.
      + split; [discriminate|]. intros (h' & [X|X] & _); discriminate.
  Qed.

  Lemma validate_collateral_none t :
    validate_collateral_vkey_witnesses H224 t = None <-> forall i, In i (collateral t) -> collateral_exact t i.
  Proof.
    unfold validate_collateral_vkey_witnesses.
    destruct (collateral t) as [|i0 is] eqn:C.
    - split; [intros _ i []|reflexivity].
    - destruct (vkeys t) as [|w ws] eqn:V.
      + split; [discriminate|]. intros H. destruct (H i0 (or_introl eq_refl)) as (h & _ & Hin).
        rewrite (hashes_nil t V) in Hin. destruct Hin.
      + rewrite first_err_none. split; intros H i Hi; apply check_collateral_none; auto.
  Qed.

  Lemma verify_transaction_from_none steps t rules : forall i,
    verify_transaction_from H224 SHA3 edverify steps t i rules = None <->
    forall r, In r rules -> run_rule H224 SHA3 edverify steps t r = None.
  Proof.
    induction rules as [|r rest IH]; intros i; cbn [verify_transaction_from].
    - split; [intros _ r []|reflexivity].
    - destruct (run_rule H224 SHA3 edverify steps t r) eqn:E.
      + split; [discriminate|]. intros H. rewrite (H r (or_introl eq_refl)) in E. discriminate.
      + rewrite IH. split.
        * intros H x [<-|Hx]; auto.
        * intros H x Hx. apply H. right. exact Hx.
  Qed.

  Lemma accept_iff steps rules t :
    signatures_accept H224 SHA3 edverify steps rules t = true <->
    forall r, In r rules -> run_rule H224 SHA3 edverify steps t r = None.
  Proof.
    unfold signatures_accept, verify_transaction.
    rewrite <- (verify_transaction_from_none steps t rules 0%N).
    destruct (verify_transaction_from H224 SHA3 edverify steps t 0%N rules); split; congruence.
  Qed.

  Lemma signatures_none steps t :
    utxo_validate_signatures H224 SHA3 edverify steps t = None <->
    forall s, In s steps -> run_step H224 SHA3 edverify t s = None.
  Proof. unfold utxo_validate_signatures. apply first_err_none. Qed.

  (* ---- soundness for any rule list that contains what it must -------------------- *)

  Lemma sound_gen steps rules t :
    In SVKey steps -> In SBoot steps -> In SInputs steps ->
    In RReq rules -> In RSig rules -> (collateral t <> [] -> In RColl rules) ->
    signatures_accept H224 SHA3 edverify steps rules t = true -> exact t.
  Proof.
    intros S1 S2 S3 R1 R2 R3 A. rewrite accept_iff in A.
    pose proof (A RSig R2) as Sg. cbn [run_rule] in Sg. rewrite signatures_none in Sg.
    pose proof (Sg SVKey S1) as V. pose proof (Sg SBoot S2) as B. pose proof (Sg SInputs S3) as I.
    cbn [run_step] in V, B, I.
    pose proof (A RReq R1) as Q. cbn [run_rule] in Q.
    unfold exact, witnesses_ok. split; [|split; [|split; [split|]]].
    - apply validate_input_vkey_witnesses_none. exact I.
    - destruct (collateral t) as [|c cs] eqn:C.
      + intros i [].
      + intros i Hi. assert (NE : c :: cs <> []) by discriminate.
        pose proof (A RColl (R3 NE)) as K. cbn [run_rule] in K.
        rewrite validate_collateral_none in K. apply K. rewrite C. exact Hi.
    - apply validate_vkey_witnesses_none. exact V.
    - apply validate_bootstrap_witnesses_none. exact B.
    - apply validate_required_none. exact Q.
  Qed.

  Lemma complete_gen steps rules t :
    exact t -> signatures_accept H224 SHA3 edverify steps rules t = true.
  Proof.
    intros (I & C & (V & B) & Q). apply accept_iff. intros r _.
    destruct r; cbn [run_rule]; try reflexivity.
    - apply validate_required_none. exact Q.
    - apply signatures_none. intros s _. destruct s; cbn [run_step].
      + apply validate_vkey_witnesses_none. exact V.
      + apply validate_bootstrap_witnesses_none. exact B.
      + apply validate_input_vkey_witnesses_none. exact I.
    - apply validate_collateral_none. exact C.
  Qed.

  Lemma exact_spec t : exact t -> spec t.
  Proof.
    intros (I & C & W & Q). unfold spec. split; [|split; [|split; [exact W|exact Q]]].
    - intros a Ha. specialize (I _ Ha). destruct a as [h|h|h|]; cbn in *; auto.
      destruct I as [I|(b & Hb & _ & _ & Hr)]; [left; exact I|right; eauto].
    - intros i Hi. destruct (C i Hi) as (h & [->| ->] & Hin).
      + exists (AKey h). cbn. auto.
      + exists (AByron h). cbn. auto.
  Qed.

  (* every owner that the accepted transaction spends from has a witness
     whose SIGNATURE verifies against the transaction id *)
  Definition owner_signed (t : tx) (a : addr_kind) : Prop :=
    match a with
    | AKey h => exists w, In w (vkeys t) /\ H224 (vk_pk w) = h /\ edverify (vk_pk w) (txid t) (vk_sig w) = true
    | AByron h =>
        (exists w, In w (vkeys t) /\ H224 (vk_pk w) = h /\ edverify (vk_pk w) (txid t) (vk_sig w) = true) \/
        (exists b, In b (boots t) /\ root_of b = h /\ edverify (bw_pk b) (txid t) (bw_sig b) = true)
    | _ => True
    end.

  Lemma in_hashes t h : In h (hashes t) -> exists w, In w (vkeys t) /\ H224 (vk_pk w) = h.
  Proof. unfold vkey_hashes. rewrite in_map_iff. intros (w & E & Hw). eauto. Qed.

  Lemma spec_owner_signed t : spec t ->
    forall a, In (ROut a) (inputs t ++ collateral t) -> owner_signed t a.
  Proof.
    intros (I & C & (V & B) & _) a Ha.
    assert (OW : owner_witnessed t a).
    { apply in_app_or in Ha. destruct Ha as [Ha|Ha]; [apply I; exact Ha|].
      destruct (C _ Ha) as (a' & E & _ & W). inversion E; subst. exact W. }
    destruct a as [h|h|h|]; cbn in *; auto.
    - destruct (in_hashes t h OW) as (w & Hw & E). exists w. repeat split; auto. apply V; exact Hw.
    - destruct OW as [OW|(b & Hb & E)].
      + left. destruct (in_hashes t h OW) as (w & Hw & E). exists w. repeat split; auto. apply V; exact Hw.
      + right. exists b. repeat split; auto. apply B; exact Hb.
  Qed.
End Spec.

(* ---- the generated tables satisfy what the theorems need ------------------------ *)

Definition has_rule (r : rule) (e : era_info) : bool := existsb (rule_eqb r) (era_rules e).
Definition era_ok (e : era_info) : bool :=
  has_rule RReq e && has_rule RSig e && implb (era_has_collateral e) (has_rule RColl e)
  && negb (has_rule ROther e).
(* the offending entries, so that a broken table is reported concretely *)
Definition bad_eras : list string := map era_name (filter (fun e => negb (era_ok e)) era_table).
Definition missing_steps : list step :=
  filter (fun s => negb (existsb (step_eqb s) signatures_steps)) [SVKey; SBoot; SInputs].
Definition required_eras : list string :=
  ["shelley"; "allegra"; "mary"; "alonzo"; "babbage"; "conway"]%string.
Definition missing_eras : list string :=
  filter (fun n => negb (existsb (fun e => String.eqb (era_name e) n) era_table)) required_eras.

Lemma bad_eras_nil : bad_eras = [].
Proof. vm_compute. reflexivity. Qed.
Lemma missing_steps_nil : missing_steps = [].
Proof. vm_compute. reflexivity. Qed.
Lemma missing_eras_nil : missing_eras = [].
Proof. vm_compute. reflexivity. Qed.
Lemma shape_ok : signatures_shape_ok = true.
Proof. vm_compute. reflexivity. Qed.

Lemma rule_eqb_eq a b : rule_eqb a b = true <-> a = b.
Proof. destruct a, b; cbn; split; congruence. Qed.
Lemma step_eqb_eq a b : step_eqb a b = true <-> a = b.
Proof. destruct a, b; cbn; split; congruence. Qed.

Lemma has_rule_In r e : has_rule r e = true -> In r (era_rules e).
Proof.
  unfold has_rule. rewrite existsb_exists. intros (x & Hx & E). apply rule_eqb_eq in E. subst. exact Hx.
Qed.

Lemma era_table_ok e : In e era_table -> era_ok e = true.
Proof.
  intros H. destruct (era_ok e) eqn:E; [reflexivity|exfalso].
  assert (In (era_name e) bad_eras) as X.
  { unfold bad_eras. apply in_map. apply filter_In. split; [exact H|]. rewrite E. reflexivity. }
  rewrite bad_eras_nil in X. destruct X.
Qed.

Lemma step_present s : In s [SVKey; SBoot; SInputs] -> In s signatures_steps.
Proof.
  intros H. destruct (existsb (step_eqb s) signatures_steps) eqn:E.
  - apply existsb_exists in E. destruct E as (x & Hx & E). apply step_eqb_eq in E. subst. exact Hx.
  - exfalso. assert (In s missing_steps) as X.
    { unfold missing_steps. apply filter_In. split; [exact H|]. rewrite E. reflexivity. }
    rewrite missing_steps_nil in X. destruct X.
Qed.

Section Eras.
  Variable H224 : bytes -> bytes.
  Variable SHA3 : bytes -> bytes.
  Variable edverify : bytes -> bytes -> bytes -> bool.

  (* VerifyTransaction over the era's witness-related rules, as found in the tree *)
  Definition era_accept (e : era_info) (t : tx) : bool :=
    signatures_accept H224 SHA3 edverify signatures_steps (era_rules e) t.

  (* pre-Alonzo bodies cannot carry collateral (decoder probe in Gen.v) *)
  Definition tx_fits (e : era_info) (t : tx) : Prop :=
    era_has_collateral e = false -> collateral t = [].

  Lemma era_sound e t :
    In e era_table -> tx_fits e t -> era_accept e t = true -> exact H224 SHA3 edverify t.
  Proof.
    intros He F A. pose proof (era_table_ok e He) as K. unfold era_ok in K.
    repeat (apply andb_true_iff in K; destruct K as [K ?]).
    apply (sound_gen H224 SHA3 edverify signatures_steps (era_rules e) t);
      try (apply step_present; cbn; tauto); try (apply has_rule_In; assumption); try exact A.
    intros NE. apply has_rule_In. destruct (era_has_collateral e) eqn:C.
    - cbn [implb] in *. assumption.
    - exfalso. apply NE. apply F. exact C.
  Qed.

  Lemma era_complete e t : exact H224 SHA3 edverify t -> era_accept e t = true.
  Proof. intros X. apply complete_gen. exact X. Qed.
End Eras.

(* ---- what acceptance means under the usual cryptographic idealisations ---------
   Collision-freeness of H224 and soundness of verification w.r.t. an abstract
   "the holder of pk signed msg" relation are explicit premises. *)
Section Authorised.
  Variable H224 : bytes -> bytes.
  Variable SHA3 : bytes -> bytes.
  Variable edverify : bytes -> bytes -> bytes -> bool.
  Variable Signed : bytes -> bytes -> Prop.      (* holder of pk signed msg *)
  Hypothesis H224_inj : forall a b, H224 a = H224 b -> a = b.
  Hypothesis edverify_sound : forall pk msg sg, edverify pk msg sg = true -> Signed pk msg.

  Lemma key_owner_authorised e t :
    In e era_table -> tx_fits e t -> era_accept H224 SHA3 edverify e t = true ->
    forall pk, In (ROut (AKey (H224 pk))) (inputs t ++ collateral t) -> Signed pk (txid t).
  Proof.
    intros He F A pk Hin.
    pose proof (spec_owner_signed H224 SHA3 edverify t
      (exact_spec H224 SHA3 edverify t (era_sound H224 SHA3 edverify e t He F A)) _ Hin) as X.
    cbn in X. destruct X as (w & _ & E & V). apply H224_inj in E. subst pk.
    eapply edverify_sound. exact V.
  Qed.

  Lemma required_signer_authorised e t :
    In e era_table -> tx_fits e t -> era_accept H224 SHA3 edverify e t = true ->
    forall pk, In (H224 pk) (req_signers t) -> Signed pk (txid t).
  Proof.
    intros He F A pk Hin.
    destruct (exact_spec H224 SHA3 edverify t (era_sound H224 SHA3 edverify e t He F A))
      as (_ & _ & (V & _) & Q).
    assert (In (H224 pk) (vkey_hashes H224 t)) as Hh by (apply Q; apply in_or_app; left; exact Hin).
    destruct (in_hashes H224 t _ Hh) as (w & Hw & E). apply H224_inj in E. subst pk.
    destruct (V w Hw) as (_ & _ & Vw). eapply edverify_sound. exact Vw.
  Qed.
End Authorised.
