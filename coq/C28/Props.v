(* C28 - spending requires a valid signature from the owner: property theorems.
   All theorems hold for EVERY H224 (Blake2b-224), SHA3 (SHA3-256) and edverify
   (Ed25519 verification): they are universally quantified, nothing is assumed
   about them.  era_table / signatures_steps are regenerated from the Go tree
   (Gen.v); era_accept e t = VerifyTransaction over the witness-related rules
   that era e's UtxoValidationRules really contains, in their real order. *)
From Coq Require Import String.
From V Require Import Lib.Base Lib.Hex C28.Model C28.Gen C28.Corr C28.Proofs.

(* The property.  If the witness rules of an era accept a transaction then
   (1) every key-locked input's payment key hash is the Blake2b-224 of a vkey
       witness' key, or - Byron - a bootstrap witness derives the address root;
   (2) every collateral input is resolved, key-owned and witnessed likewise;
   (3) every vkey and bootstrap witness has a 32-byte key, a 64-byte signature
       and verifies against the transaction id;
   (4) every required signer (and key-hash withdrawal credential) has a vkey witness. *)
Theorem C28 :
  forall (H224 SHA3 : bytes -> bytes) (edverify : bytes -> bytes -> bytes -> bool)
         (e : era_info) (t : tx),
  In e era_table -> tx_fits e t ->
  era_accept H224 SHA3 edverify e t = true ->
  (forall a, In (ROut a) (inputs t) -> owner_witnessed H224 SHA3 t a) /\
  (forall i, In i (collateral t) ->
     exists a, i = ROut a /\ key_owned a /\ owner_witnessed H224 SHA3 t a) /\
  ((forall w, In w (vkeys t) ->
      length (vk_pk w) = 32 /\ length (vk_sig w) = 64 /\
      edverify (vk_pk w) (txid t) (vk_sig w) = true) /\
   (forall b, In b (boots t) ->
      length (bw_pk b) = 32 /\ length (bw_sig b) = 64 /\
      edverify (bw_pk b) (txid t) (bw_sig b) = true)) /\
  (forall r, In r (req_signers t ++ wdrl_keys t) -> In r (vkey_hashes H224 t)).
Proof.
  intros H224 SHA3 edverify e t He F A.
  exact (exact_spec H224 SHA3 edverify t (era_sound H224 SHA3 edverify e t He F A)).
Qed.
Print Assumptions C28.

(* Consequence: each owner spent from (inputs and collateral) has a witness
   whose signature over the transaction id verifies under the owner's key. *)
Theorem C28_owner_signed :
  forall (H224 SHA3 : bytes -> bytes) (edverify : bytes -> bytes -> bytes -> bool)
         (e : era_info) (t : tx),
  In e era_table -> tx_fits e t ->
  era_accept H224 SHA3 edverify e t = true ->
  forall a, In (ROut a) (inputs t ++ collateral t) ->
  match a with
  | AKey h =>
      exists w, In w (vkeys t) /\ H224 (vk_pk w) = h /\ edverify (vk_pk w) (txid t) (vk_sig w) = true
  | AByron h =>
      (exists w, In w (vkeys t) /\ H224 (vk_pk w) = h /\ edverify (vk_pk w) (txid t) (vk_sig w) = true) \/
      (exists b, In b (boots t) /\
                 H224 (SHA3 ([131; 0; 130; 0; 88; 64]%N ++ bw_pk b ++ bw_cc b ++ bw_attrs b)) = h /\
                 edverify (bw_pk b) (txid t) (bw_sig b) = true)
  | AScript _ | ANoPay => True
  end.
Proof.
  intros H224 SHA3 edverify e t He F A a Ha.
  pose proof (spec_owner_signed H224 SHA3 edverify t
                (exact_spec H224 SHA3 edverify t (era_sound H224 SHA3 edverify e t He F A)) a Ha) as X.
  destruct a; exact X.
Qed.
Print Assumptions C28_owner_signed.

(* Both directions: acceptance is EXACTLY the conjunction below (so nothing
   else is demanded and nothing less).  It is stricter than C28's conclusion in
   two places: a bootstrap witness only counts when its key and chain code have
   32 bytes, and collateral owners must be witnessed by a vkey witness (a
   bootstrap witness does not count for Byron collateral). *)
Theorem C28_accept_iff :
  forall (H224 SHA3 : bytes -> bytes) (edverify : bytes -> bytes -> bytes -> bool)
         (e : era_info) (t : tx),
  In e era_table -> tx_fits e t ->
  (era_accept H224 SHA3 edverify e t = true <->
   (forall i, In i (inputs t) -> input_exact H224 SHA3 t i) /\
   (forall i, In i (collateral t) ->
      exists h, (i = ROut (AKey h) \/ i = ROut (AByron h)) /\ In h (vkey_hashes H224 t)) /\
   witnesses_ok edverify t /\
   required_ok H224 t).
Proof.
  intros H224 SHA3 edverify e t He F. split.
  - exact (era_sound H224 SHA3 edverify e t He F).
  - exact (era_complete H224 SHA3 edverify e t).
Qed.
Print Assumptions C28_accept_iff.

(* Under the usual idealisations, stated as explicit premises (H224 collision
   free; a verifying signature means the key holder signed): the holder of
   every key that owns a spent input or collateral input, and of every
   required signer key, signed this transaction id. *)
Theorem C28_owner_authorised :
  forall (H224 SHA3 : bytes -> bytes) (edverify : bytes -> bytes -> bytes -> bool)
         (Signed : bytes -> bytes -> Prop),
  (forall a b, H224 a = H224 b -> a = b) ->
  (forall pk msg sg, edverify pk msg sg = true -> Signed pk msg) ->
  forall (e : era_info) (t : tx),
  In e era_table -> tx_fits e t -> era_accept H224 SHA3 edverify e t = true ->
  (forall pk, In (ROut (AKey (H224 pk))) (inputs t ++ collateral t) -> Signed pk (txid t)) /\
  (forall pk, In (H224 pk) (req_signers t) -> Signed pk (txid t)).
Proof.
  intros H224 SHA3 edverify Signed Hi Hs e t He F A. split.
  - exact (key_owner_authorised H224 SHA3 edverify Signed Hi Hs e t He F A).
  - exact (required_signer_authorised H224 SHA3 edverify Signed Hi Hs e t He F A).
Qed.
Print Assumptions C28_owner_authorised.

(* The rule lists found in the tree: every era of Shelley..Conway is present,
   each runs the required-signer rule and UtxoValidateSignatures, each era
   whose decoder surfaces collateral runs the collateral rule, every
   witness-named rule resolves to its common function, and
   UtxoValidateSignatures calls all three validators. *)
Theorem C28_rule_lists :
  (forall n, In n ["shelley"; "allegra"; "mary"; "alonzo"; "babbage"; "conway"]%string ->
     exists e, In e era_table /\ era_name e = n) /\
  (forall e, In e era_table ->
     In RReq (era_rules e) /\ In RSig (era_rules e) /\
     (era_has_collateral e = true -> In RColl (era_rules e)) /\
     ~ In ROther (era_rules e)) /\
  (In SVKey signatures_steps /\ In SBoot signatures_steps /\ In SInputs signatures_steps) /\
  signatures_shape_ok = true.
Proof.
  split; [|split; [|split]].
  - intros n Hn.
    destruct (existsb (fun e => String.eqb (era_name e) n) era_table) eqn:E.
    + apply existsb_exists in E. destruct E as (e & He & X). apply String.eqb_eq in X. eauto.
    + exfalso. assert (In n missing_eras) as X.
      { unfold missing_eras. apply filter_In. split; [exact Hn|]. rewrite E. reflexivity. }
      rewrite missing_eras_nil in X. destruct X.
  - intros e He. pose proof (era_table_ok e He) as K. unfold era_ok in K.
    repeat (apply andb_true_iff in K; destruct K as [K ?]).
    repeat split; try (apply has_rule_In; assumption).
    + intros C. rewrite C in *. apply has_rule_In. assumption.
    + intros X. assert (has_rule ROther e = true) as Y.
      { unfold has_rule. apply existsb_exists. exists ROther. split; [exact X|reflexivity]. }
      rewrite Y in *. discriminate.
  - repeat split; apply step_present; cbn; tauto.
  - exact shape_ok.
Qed.
Print Assumptions C28_rule_lists.

(* ---- non-vacuity: a term-algebra instance of the primitives ------------------- *)

Definition H0 (b : bytes) : bytes := 224%N :: b.
Definition S0 (b : bytes) : bytes := 3%N :: b.
Definition V0 (pk msg sg : bytes) : bool := bytes_eqb sg (pk ++ msg).

Definition id0 : bytes := repeat 7%N 32.
Definition pkA : bytes := repeat 1%N 32.
Definition pkB : bytes := repeat 2%N 32.
Definition pkC : bytes := repeat 5%N 32.
Definition cc0 : bytes := repeat 9%N 32.
Definition wA := mk_vkw pkA (pkA ++ id0).
Definition wC := mk_vkw pkC (pkC ++ id0).
Definition bB := mk_bw pkB (pkB ++ id0) cc0 [160%N].
Definition rootB : bytes := byron_root H0 S0 pkB cc0 [160%N].

Definition conway_rules : list rule :=
  match find_era "conway" with Some e => era_rules e | None => [] end.

(* key input + Byron input + script input, key collateral, a required signer:
   accepted with exactly the owners' witnesses *)
Definition tx_good : tx :=
  mk_tx id0 [ROut (AKey (H0 pkA)); ROut (AByron rootB); ROut (AScript [1%N])]
        [ROut (AKey (H0 pkA))] [H0 pkA] [] [wA] [bB].
Example C28_nonvacuous_accept :
  signatures_accept H0 S0 V0 signatures_steps conway_rules tx_good = true /\
  exact H0 S0 V0 tx_good.
Proof.
  assert (A : signatures_accept H0 S0 V0 signatures_steps conway_rules tx_good = true)
    by (vm_compute; reflexivity).
  split; [exact A|].
  apply (sound_gen H0 S0 V0 signatures_steps conway_rules tx_good);
    try exact A; try (intros _); vm_compute; tauto.
Qed.

(* a valid witness of an unrelated key does not unlock the input; a corrupted
   signature on a second, unneeded witness rejects; Byron collateral with only
   its bootstrap witness is rejected (stricter than the property needs) *)
Example C28_nonvacuous_reject :
  verify_transaction H0 S0 V0 signatures_steps conway_rules
    (mk_tx id0 [ROut (AKey (H0 pkA))] [] [] [] [wC] []) = Some (2%N, EMissingVKeyInput) /\
  verify_transaction H0 S0 V0 signatures_steps conway_rules
    (mk_tx id0 [ROut (AKey (H0 pkA))] [] [] [] [wA; mk_vkw pkC (pkC ++ pkC)] []) = Some (2%N, EVKeyVerify) /\
  verify_transaction H0 S0 V0 signatures_steps conway_rules
    (mk_tx id0 [ROut (AKey (H0 pkA))] [ROut (AByron rootB)] [] [] [wA] [bB]) = Some (1%N, ECollMissing).
Proof. vm_compute. repeat split. Qed.
