(* C28 - correspondence: the model instantiated with oracle tables.
   The harness runs the real rules on a transaction, computes with its own
   crypto (not the repository's) the graph of H224 / SHA3 / Ed25519-verify on
   the arguments the code can query, and records the observed answer. *)
From Coq Require Import String.
From V Require Import Lib.Base Lib.Hex C28.Model C28.Gen.

Definition lookup (tbl : list (bytes * bytes)) (x : bytes) : bytes :=
  match find (fun p => bytes_eqb (fst p) x) tbl with
  | Some p => snd p
  | None => []     (* never a 28/32-byte digest *)
  end.

Definition ver_lookup (tbl : list (bytes * bytes * bytes)) (pk msg sg : bytes) : bool :=
  existsb (fun t => match t with (p, m, s) => bytes_eqb p pk && bytes_eqb m msg && bytes_eqb s sg end) tbl.

Record case := mk_case {
  c_era : string;
  c_tx : tx;
  c_h224 : list (bytes * bytes);          (* graph of Blake2b-224 *)
  c_sha3 : list (bytes * bytes);          (* graph of SHA3-256 *)
  c_ver : list (bytes * bytes * bytes);   (* (pk, msg, sig) triples that verify *)
  c_obs : option (N * err)                (* VerifyTransaction: None = nil, Some (rule_index, class) *)
}.

Definition find_era (n : string) : option era_info :=
  find (fun e => String.eqb (era_name e) n) era_table.

Definition model_answer (c : case) : option (option (N * err)) :=
  match find_era (c_era c) with
  | None => None
  | Some e =>
    Some (verify_transaction (lookup (c_h224 c)) (lookup (c_sha3 c)) (ver_lookup (c_ver c))
            signatures_steps (era_rules e) (c_tx c))
  end.

Definition obs_eqb (a b : option (N * err)) : bool :=
  match a, b with
  | None, None => true
  | Some (_, EPanic), Some (_, EPanic) => true   (* a panic carries no rule index *)
  | Some (i, e), Some (j, f) => N.eqb i j && N.eqb (err_code e) (err_code f)
  | _, _ => false
  end.

Definition check_case (c : case) : bool :=
  match model_answer c with
  | Some m => obs_eqb m (c_obs c)
  | None => false
  end.

Definition mismatches (cs : list case) : list nat := failing check_case cs.
