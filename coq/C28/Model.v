(* C28 - spending requires a valid signature from the owner.
   Function-by-function model of
     ledger/common/verify.go   VerifyVKeySignature, ValidateVKeyWitnesses,
                               computeByronAddressRoot, ValidateInputVKeyWitnesses,
                               ValidateBootstrapWitnesses, UtxoValidateSignatures
     ledger/common/witness.go  ValidateCollateralVKeyWitnesses
     ledger/common/rules.go    ValidateRequiredVKeyWitnesses, VerifyTransaction
   Cryptographic primitives are Section variables: H224 (Blake2b-224),
   SHA3 (SHA3-256), edverify (Ed25519 verification, argument order pk msg sig).
   No proofs in this file. *)
From Coq Require Import String.
From V Require Import Lib.Base Lib.Hex.

(* ---- abstract transaction ------------------------------------------------ *)

(* what Address.PayloadPayload() / Address.Type() of a resolved output say *)
Inductive addr_kind :=
| AKey (h : bytes)      (* AddressPayloadKeyHash, address type <> Byron *)
| AByron (root : bytes) (* AddressPayloadKeyHash, address type = Byron (0b1000) *)
| AScript (h : bytes)   (* AddressPayloadScriptHash *)
| ANoPay.               (* paymentPayload == nil (reward-account style address) *)

(* what LedgerState.UtxoById returns for an input *)
Inductive resolved :=
| RUnresolved           (* err != nil *)
| RNilOutput            (* err == nil, utxo.Output == nil *)
| ROut (a : addr_kind).

Record vkw := mk_vkw { vk_pk : bytes; vk_sig : bytes }.
Record bootw := mk_bw { bw_pk : bytes; bw_sig : bytes; bw_cc : bytes; bw_attrs : bytes }.

Record tx := mk_tx {
  txid : bytes;                 (* tx.Hash(): Blake2b-256 of the body bytes as received *)
  inputs : list resolved;       (* tx.Inputs(), each resolved through ls.UtxoById *)
  collateral : list resolved;   (* tx.Collateral() *)
  req_signers : list bytes;     (* tx.RequiredSigners() *)
  wdrl_keys : list bytes;       (* key-hash staking credentials of tx.Withdrawals() *)
  vkeys : list vkw;             (* tx.Witnesses().Vkey() *)
  boots : list bootw            (* tx.Witnesses().Bootstrap() *)
}.

(* error classes (the distinct failure sites of the Go code) *)
Inductive err :=
| EVKeyPkSize | EVKeySigSize | EVKeyVerify           (* "invalid vkey signature" + cause *)
| EBootPkSize | EBootSigSize | EBootVerify           (* "invalid bootstrap ..." *)
| EMissingBoot                                        (* "missing bootstrap witness for Byron input" *)
| EMissingVKeyInput                                   (* "missing vkey witness for input" *)
| EReqNoWits                                          (* MissingVKeyWitnessesError *)
| EReqSigner                                          (* MissingRequiredVKeyWitnessForSignerError *)
| ECollNoWits                                         (* "missing vkey witnesses for collateral" *)
| ECollUnresolved                                     (* "UTxO not found for collateral input" *)
| ECollNotKey                                         (* "collateral input must be key-locked" *)
| ECollMissing                                        (* "missing vkey witness for collateral input" *)
| EPanic.                                             (* nil Output dereferenced (collateral) *)

(* the three calls inside common.UtxoValidateSignatures and the three
   witness-related rule functions of the era rule lists; the actual sequences
   are regenerated from the Go source into Gen.v *)
Inductive step := SVKey | SBoot | SInputs.
Inductive rule := RReq | RSig | RColl | ROther.

Definition step_eqb (a b : step) : bool :=
  match a, b with SVKey, SVKey | SBoot, SBoot | SInputs, SInputs => true | _, _ => false end.
Definition rule_eqb (a b : rule) : bool :=
  match a, b with RReq, RReq | RSig, RSig | RColl, RColl | ROther, ROther => true | _, _ => false end.

Definition err_code (e : err) : N :=
  match e with
  | EVKeyPkSize => 1 | EVKeySigSize => 2 | EVKeyVerify => 3
  | EBootPkSize => 4 | EBootSigSize => 5 | EBootVerify => 6
  | EMissingBoot => 7 | EMissingVKeyInput => 8
  | EReqNoWits => 9 | EReqSigner => 10
  | ECollNoWits => 11 | ECollUnresolved => 12 | ECollNotKey => 13 | ECollMissing => 14
  | EPanic => 15
  end%N.

(* first error of a left-to-right loop `for _, x := range l { if err := f(x); err != nil { return err } }` *)
Fixpoint first_err {A} (f : A -> option err) (l : list A) : option err :=
  match l with
  | [] => None
  | x :: r => match f x with Some e => Some e | None => first_err f r end
  end.

Definition mem (h : bytes) (l : list bytes) : bool := existsb (bytes_eqb h) l.

Section Model.
  Variable H224 : bytes -> bytes.
  Variable SHA3 : bytes -> bytes.
  Variable edverify : bytes -> bytes -> bytes -> bool. (* pk msg sig *)

  (* VerifyVKeySignature(pubKey, sig, msg) *)
  Definition verify_vkey_signature (pk sg msg : bytes) : option err :=
    if negb (length pk =? 32) then Some EVKeyPkSize
    else if negb (length sg =? 64) then Some EVKeySigSize
    else if negb (edverify pk msg sg) then Some EVKeyVerify
    else None.

  (* ValidateVKeyWitnesses *)
  Definition validate_vkey_witnesses (t : tx) : option err :=
    first_err (fun w => verify_vkey_signature (vk_pk w) (vk_sig w) (txid t)) (vkeys t).

  (* ValidateBootstrapWitnesses *)
  Definition validate_bootstrap_witnesses (t : tx) : option err :=
    first_err (fun b =>
      if negb (length (bw_pk b) =? 32) then Some EBootPkSize
      else if negb (length (bw_sig b) =? 64) then Some EBootSigSize
      else if negb (edverify (bw_pk b) (txid t) (bw_sig b)) then Some EBootVerify
      else None) (boots t).

  (* computeByronAddressRoot: Some root, or None = error (wrong sizes).
     prefix 83 00 82 00 58 40 = [0, [0, bytes(64) ... *)
  Definition byron_prefix : bytes := [131; 0; 130; 0; 88; 64]%N.
  Definition byron_root (pk cc attrs : bytes) : bytes :=
    H224 (SHA3 (byron_prefix ++ pk ++ cc ++ attrs)).
  Definition compute_byron_root (b : bootw) : option bytes :=
    if negb (length (bw_pk b) =? 32) then None
    else if negb (length (bw_cc b) =? 32) then None
    else Some (byron_root (bw_pk b) (bw_cc b) (bw_attrs b)).

  (* keys of the `provided` / `hashes` / `vkeyHashes` maps *)
  Definition vkey_hashes (t : tx) : list bytes := map (fun w => H224 (vk_pk w)) (vkeys t).

  Definition boot_matches (h : bytes) (b : bootw) : bool :=
    match compute_byron_root b with Some r => bytes_eqb r h | None => false end.

  (* ValidateInputVKeyWitnesses, loop body *)
  Definition check_input (t : tx) (i : resolved) : option err :=
    match i with
    | RUnresolved => None
    | RNilOutput => None
    | ROut (AKey h) => if mem h (vkey_hashes t) then None else Some EMissingVKeyInput
    | ROut (AByron h) =>
        if mem h (vkey_hashes t) then None
        else if existsb (boot_matches h) (boots t) then None
        else Some EMissingBoot
    | ROut (AScript _) => None
    | ROut ANoPay => None
    end.
  Definition validate_input_vkey_witnesses (t : tx) : option err :=
    first_err (check_input t) (inputs t).

  (* UtxoValidateSignatures: the sequence of calls comes from Gen.v *)
  Definition run_step (t : tx) (s : step) : option err :=
    match s with
    | SVKey => validate_vkey_witnesses t
    | SBoot => validate_bootstrap_witnesses t
    | SInputs => validate_input_vkey_witnesses t
    end.
  Definition utxo_validate_signatures (steps : list step) (t : tx) : option err :=
    first_err (run_step t) steps.

  (* ValidateRequiredVKeyWitnesses.  The withdrawal map is iterated in Go map
     order; only the error class is observable, which does not depend on it. *)
  Definition validate_required_vkey_witnesses (t : tx) : option err :=
    let required := req_signers t ++ wdrl_keys t in
    match required with
    | [] => None
    | _ =>
      match vkeys t with
      | [] => Some EReqNoWits
      | _ => first_err (fun r => if mem r (vkey_hashes t) then None else Some EReqSigner) required
      end
    end.

  (* ValidateCollateralVKeyWitnesses *)
  Definition check_collateral (t : tx) (i : resolved) : option err :=
    match i with
    | RUnresolved => Some ECollUnresolved
    | RNilOutput => Some EPanic
    | ROut (AKey h) | ROut (AByron h) => if mem h (vkey_hashes t) then None else Some ECollMissing
    | ROut (AScript _) | ROut ANoPay => Some ECollNotKey
    end.
  Definition validate_collateral_vkey_witnesses (t : tx) : option err :=
    match collateral t with
    | [] => None
    | _ =>
      match vkeys t with
      | [] => Some ECollNoWits
      | _ => first_err (check_collateral t) (collateral t)
      end
    end.

  (* the era wrappers delegate to the common functions *)
  Definition run_rule (steps : list step) (t : tx) (r : rule) : option err :=
    match r with
    | RReq => validate_required_vkey_witnesses t
    | RSig => utxo_validate_signatures steps t
    | RColl => validate_collateral_vkey_witnesses t
    | ROther => None
    end.

  (* VerifyTransaction: index of the first failing rule and its error *)
  Fixpoint verify_transaction_from (steps : list step) (t : tx) (i : N) (rules : list rule)
    : option (N * err) :=
    match rules with
    | [] => None
    | r :: rest =>
      match run_rule steps t r with
      | Some e => Some (i, e)
      | None => verify_transaction_from steps t (i + 1)%N rest
      end
    end.
  Definition verify_transaction steps rules t := verify_transaction_from steps t 0%N rules.

  Definition signatures_accept steps rules t : bool :=
    match verify_transaction steps rules t with None => true | Some _ => false end.
End Model.
