(* C08 - property theorems only. *)
From Coq Require Import String.
From V Require Import Lib.Base Lib.Cbor C08.Model C08.Proofs C08.Gen.
Local Open Scope Z_scope.

(* An output value accepted by the Mary..Dijkstra output decoder (with the
   range check of fixes/C08-output-asset-range.patch) has its coin in
   0..2^64-1 and every asset quantity in 1..2^64-1 (zero entries are pruned):
   no negative quantity, none above 2^64-1.  Any CBOR item, any header form,
   lenient or strict duplicate handling. *)
Theorem C08_value_range : forall strict v c es,
  decode_value true strict v = Some (c, es) ->
  0 <= c < 2 ^ 64 /\ forall policy name q, In ((policy, name), q) es -> 0 < q < 2 ^ 64.
Proof.
  intros strict v c es H. apply decode_value_range in H. destruct H as [H1 H2].
  split; [exact H1|]. intros p n q Hin. apply (H2 _ Hin).
Qed.
Print Assumptions C08_value_range.

(* Decoding plus validation: whatever the era's rule list does with the
   decoded outputs (rules is universally quantified - it stands for the
   era's UtxoValidationRules and any ledger state), an accepted transaction
   has only in-range output values. *)
Section AnyRules.
  Variable rules : list (Z * list entry) -> bool.
  Definition accepted (strict : bool) (outs : list item) : bool :=
    match decode_all true strict outs with Some vs => rules vs | None => false end.
  Theorem C08_range_any_rules : forall strict outs, accepted strict outs = true ->
    exists vs, decode_all true strict outs = Some vs /\ Forall value_in_range vs.
  Proof.
    intros strict outs H. unfold accepted in H.
    destruct (decode_all true strict outs) as [vs|] eqn:E; [|discriminate].
    exists vs. split; [reflexivity|]. eapply decode_all_range; eauto.
  Qed.
End AnyRules.
Theorem C08_range : forall rules strict outs, accepted rules strict outs = true ->
  exists vs, decode_all true strict outs = Some vs /\
  Forall (fun v => 0 <= fst v < 2 ^ 64 /\ forall e, In e (snd v) -> 0 <= snd e < 2 ^ 64) vs.
Proof. exact C08_range_any_rules. Qed.
Print Assumptions C08_range.

(* the range check rejects nothing else: the checked decoder returns r exactly
   when the unchecked (pinned) decoder returns r and r is in range *)
(* The rule list is a judgement on the decoded outputs: the values it accepted
   are exactly the decoded ones, and those are the ones in range.  (In the model
   validation returns a verdict and cannot alter its argument; for the Go code
   "the accepted transaction still carries the decoded values" is a history
   property, checked by the harness reading every output / spent UTxO before and
   after validation.) *)
Theorem C08_accepted_outputs_are_the_decoded_ones : forall rules strict outs,
  accepted rules strict outs = true ->
  exists vs, decode_all true strict outs = Some vs /\ rules vs = true /\ Forall value_in_range vs.
Proof.
  intros rules strict outs H. pose proof H as H'. unfold accepted in H'.
  destruct (decode_all true strict outs) as [vs|] eqn:E; [|discriminate].
  exists vs. split; [reflexivity|]. split; [exact H'|]. eapply decode_all_range; eauto.
Qed.

Theorem C08_check_exact : forall strict v r,
  decode_value true strict v = Some r <-> decode_value false strict v = Some r /\ range_ok (snd r) = true.
Proof. exact decode_value_chk_iff. Qed.

(* consequence: with non-negative quantities, no single output can carry more
   of an asset than the outputs' total - so under value conservation (C27:
   total = inputs + mint) a positive/negative pair cannot create tokens *)
Theorem C08_no_tokens_from_nothing : forall (per_output : list Z) (consumed : Z),
  Forall (fun q => 0 <= q) per_output -> ztotal per_output = consumed ->
  forall q, In q per_output -> q <= consumed.
Proof. intros l c H <- q Hin. apply nonneg_parts_bounded; assumption. Qed.

(* ---- the pinned tree (no range check): refuted ---------------------------------------- *)
Definition pol9 : bytes := 9%N :: repeat 0%N 27.
Definition one_asset (q : item) : item :=
  Arr (Some Fimm) [UInt Fimm 7; Map (Some Fimm) [(BStr F1 pol9, Map (Some Fimm) [(BStr Fimm [97%N], q)])]].
Theorem C08_range_refuted :
  decode_value false false (one_asset (NInt Fimm 4)) = Some (7, [((pol9, [97%N]), -5)]) /\
  decode_value false false (one_asset (Tag Fimm 2 (BStr Fimm [1;0;0;0;0;0;0;0;0]%N))) = Some (7, [((pol9, [97%N]), 2 ^ 64)]).
Proof. split; vm_compute; reflexivity. Qed.

(* non-vacuity: the checked decoder accepts 2^64-1 and rejects the two witnesses *)
Example C08_nonvacuous :
  decode_value true false (one_asset (UInt F8 18446744073709551615)) = Some (7, [((pol9, [97%N]), 2 ^ 64 - 1)]) /\
  decode_value true false (one_asset (NInt Fimm 4)) = None /\
  decode_value true false (one_asset (Tag Fimm 2 (BStr Fimm [1;0;0;0;0;0;0;0;0]%N))) = None.
Proof. repeat split; vm_compute; reflexivity. Qed.

(* ---- rule lists (translator) ------------------------------------------------------------ *)
Definition has_rule (name : string) (l : list (string * string)) : bool :=
  existsb (fun pf => String.eqb (snd pf) name) l.
Definition list_ok (e : string * list (string * string)) : bool :=
  has_rule "UtxoValidateValueNotConservedUtxo" (snd e) && has_rule "UtxoValidateOutputTooSmallUtxo" (snd e)
  && has_rule "UtxoValidateOutputTooBigUtxo" (snd e).
(* the three rules the harness runs are in every multi-asset era's list *)
Theorem C08_rule_lists :
  map fst rule_lists = ["mary"; "alonzo"; "babbage"; "conway"; "dijkstra"]%string /\
  forall e, In e rule_lists -> list_ok e = true.
Proof. split; [vm_compute; reflexivity|]. apply forallb_forall. vm_compute. reflexivity. Qed.
