(* C08 - output value decoding.  Model of mary.MaryTransactionOutputValue.UnmarshalCBOR
   (ledger/mary/mary.go; the only decoder of output values in Mary..Dijkstra:
   Alonzo, Babbage and Dijkstra outputs embed it) together with
   common.MultiAsset.UnmarshalCBOR (ledger/common/common.go), on the CBOR item
   tree of Lib/Cbor.  `chk` = the range check added by
   fixes/C08-output-asset-range.patch (checkOutputAssetRange); chk = false is
   the pinned tree.  No proofs here. *)
From V Require Import Lib.Base Lib.Cbor.
Local Open Scope Z_scope.

Definition two64 : Z := 2 ^ 64.

(* big-endian magnitude of a bignum byte string *)
Fixpoint be_val (bs : bytes) (acc : N) : N :=
  match bs with [] => acc | b :: r => be_val r (acc * 256 + b)%N end.

(* a byte string, definite or chunked *)
Definition bstr_of (i : item) : option bytes :=
  match i with
  | BStr _ bs => Some bs
  | BStrI cs => Some (concat (map snd cs))
  | _ => None
  end.

Definition is_nullish (v : N) : bool := (v =? 22)%N || (v =? 23)%N.  (* null, undefined *)

(* fxamacker/cbor decoding into *big.Int: uint, nint, bignum tags 2/3 over a
   byte string; any other tag number >= 4 is skipped; null/undefined leave the
   nil pointer (amountIsZero -> pruned) *)
Fixpoint decode_qty (i : item) : option Z :=
  match i with
  | UInt _ n => Some (Z.of_N n)
  | NInt _ n => Some (-1 - Z.of_N n)
  | Tag _ t x =>
      if (t =? 2)%N then option_map (fun bs => Z.of_N (be_val bs 0)) (bstr_of x)
      else if (t =? 3)%N then option_map (fun bs => -1 - Z.of_N (be_val bs 0)) (bstr_of x)
      else if (t <? 4)%N then None
      else decode_qty x
  | Simple Fimm v => if is_nullish v then Some 0 else None
  | _ => None
  end.

(* decoding into uint64 (Amount): as above but the result must fit *)
Definition decode_coin (i : item) : option Z :=
  match decode_qty i with
  | Some q => if (0 <=? q) && (q <? two64) then Some q else None
  | None => None
  end.

(* Go map insertion: the last value for a key wins *)
Fixpoint ins {V} (k : bytes) (v : V) (m : list (bytes * V)) : list (bytes * V) :=
  match m with
  | [] => [(k, v)]
  | (k', v') :: r => if bytes_eqb k' k then (k, v) :: r else (k', v') :: ins k v r
  end.
Definition has {V} (k : bytes) (m : list (bytes * V)) : bool := existsb (fun e => bytes_eqb (fst e) k) m.

(* strict = duplicate keys are an error (DijkstraTransactionOutput.UnmarshalCBOR
   calls CheckForDuplicateKeys; the other output decoders keep the last one) *)
Fixpoint decode_names (strict : bool) (kvs : list (item * item)) (acc : list (bytes * Z))
  : option (list (bytes * Z)) :=
  match kvs with
  | [] => Some acc
  | (k, v) :: r =>
      match bstr_of k, decode_qty v with
      | Some n, Some q => if strict && has n acc then None else decode_names strict r (ins n q acc)
      | _, _ => None
      end
  end.

Definition decode_inner (strict : bool) (v : item) : option (list (bytes * Z)) :=
  match v with
  | Map _ kvs => decode_names strict kvs []
  | Simple Fimm s => if is_nullish s then Some [] else None
  | _ => None
  end.

(* Blake2b224 is a [28]byte: shorter keys are zero-padded, longer ones cut *)
Definition norm28 (bs : bytes) : bytes := firstn 28 (bs ++ repeat 0%N 28).

Fixpoint decode_policies (strict : bool) (kvs : list (item * item)) (acc : list (bytes * list (bytes * Z)))
  : option (list (bytes * list (bytes * Z))) :=
  match kvs with
  | [] => Some acc
  | (k, v) :: r =>
      match bstr_of k, decode_inner strict v with
      | Some p, Some inner =>
          let p' := norm28 p in
          if strict && has p' acc then None else decode_policies strict r (ins p' inner acc)
      | _, _ => None
      end
  end.

Definition entry := ((bytes * bytes) * Z)%type.
Definition flatten (m : list (bytes * list (bytes * Z))) : list entry :=
  flat_map (fun pe => map (fun ne => ((fst pe, fst ne), snd ne)) (snd pe)) m.
(* pruneZeroAssets *)
Definition prune (l : list entry) : list entry := filter (fun e => negb (snd e =? 0)) l.

(* checkOutputAssetRange: !qty.IsUint64() *)
Definition in_range (q : Z) : bool := (0 <=? q) && (q <? two64).
Definition range_ok (l : list entry) : bool := forallb (fun e => in_range (snd e)) l.

(* the multiasset field: nil pointer for null, else the map (tags >= 4 skipped) *)
Fixpoint decode_assets (strict : bool) (a : item) : option (list entry) :=
  match a with
  | Map _ kvs => option_map (fun m => prune (flatten m)) (decode_policies strict kvs [])
  | Simple Fimm s => if is_nullish s then Some [] else None
  | Tag _ t x => if (t <? 4)%N then None else decode_assets strict x
  | _ => None
  end.

(* MaryTransactionOutputValue.UnmarshalCBOR: first byte not an array header ->
   coin only; otherwise a 2-element array [coin, multiasset] *)
Definition decode_value (chk strict : bool) (v : item) : option (Z * list entry) :=
  match v with
  | Arr _ [c; a] =>
      match decode_coin c, decode_assets strict a with
      | Some coin, Some es => if chk && negb (range_ok es) then None else Some (coin, es)
      | _, _ => None
      end
  | Arr _ _ => None
  | _ => option_map (fun c => (c, [])) (decode_coin v)
  end.

(* ---- correspondence ------------------------------------------------------------ *)
Definition entry_key_eqb (a b : bytes * bytes) : bool := bytes_eqb (fst a) (fst b) && bytes_eqb (snd a) (snd b).
Fixpoint lookup (k : bytes * bytes) (l : list entry) : option Z :=
  match l with [] => None | (k', q) :: r => if entry_key_eqb k' k then Some q else lookup k r end.
(* equality of two duplicate-free entry lists as maps *)
Definition same_map (a b : list entry) : bool :=
  (length a =? length b)%nat && forallb (fun e => match lookup (fst e) a with Some q => q =? snd e | None => false end) b.

(* a case: strictness of the decoder used, the value item, and what the real
   decoder returned (None = error) *)
Record case := mkCase { c_strict : bool; c_item : item; c_obs : option (Z * list entry) }.
Definition check_case (c : case) : bool :=
  match decode_value true (c_strict c) (c_item c), c_obs c with
  | None, None => true
  | Some (coin, es), Some (coin', es') => (coin =? coin') && same_map es es'
  | _, _ => false
  end.
Definition mismatches : list case -> list nat := failing check_case.
