(* C08 - lemmas. *)
From V Require Import Lib.Base Lib.Cbor C08.Model.
Local Open Scope Z_scope.

Lemma in_range_spec q : in_range q = true <-> 0 <= q < two64.
Proof. unfold in_range. rewrite andb_true_iff. lia. Qed.

Lemma decode_coin_range i c : decode_coin i = Some c -> 0 <= c < two64.
Proof.
  unfold decode_coin. destruct (decode_qty i) as [q|]; [|discriminate].
  destruct ((0 <=? q) && (q <? two64)) eqn:E; [|discriminate].
  intros H; inversion H; subst. apply andb_true_iff in E. lia.
Qed.

Lemma prune_nonzero l e : In e (prune l) -> snd e <> 0.
Proof. unfold prune. rewrite filter_In. intros [_ H]. destruct (snd e =? 0) eqn:E; [discriminate|lia]. Qed.

Lemma decode_assets_nonzero strict a : forall es, decode_assets strict a = Some es -> forall e, In e es -> snd e <> 0.
Proof.
  induction a; intros es H e Hin; cbn [decode_assets] in H; try discriminate.
  - destruct (decode_policies strict kvs []) as [m|]; [|discriminate]. inversion H; subst. eapply prune_nonzero; eauto.
  - destruct (t <? 4)%N; [discriminate|]. eapply IHa; eauto.
  - destruct f; try discriminate. destruct (is_nullish v); [|discriminate]. inversion H; subst. destruct Hin.
Qed.

Lemma range_ok_spec l : range_ok l = true <-> forall e, In e l -> 0 <= snd e < two64.
Proof.
  unfold range_ok. rewrite forallb_forall. split; intros H e Hin; specialize (H e Hin); apply in_range_spec; exact H.
Qed.

(* the decoder with the range check returns only in-range values *)
Lemma decode_value_range strict v c es : decode_value true strict v = Some (c, es) ->
  0 <= c < two64 /\ forall e, In e es -> 0 < snd e < two64.
Proof.
  assert (Coin : forall i, option_map (fun c => (c, @nil entry)) (decode_coin i) = Some (c, es) ->
                 0 <= c < two64 /\ forall e, In e es -> 0 < snd e < two64).
  { intros i H. destruct (decode_coin i) as [c'|] eqn:E; [|discriminate]. cbn in H. inversion H; subst.
    split; [eapply decode_coin_range; eauto|intros e []]. }
  destruct v; cbn [decode_value]; try (apply Coin).
  destruct xs as [|c0 [|a [|x xs]]]; try discriminate.
  destruct (decode_coin c0) as [coin|] eqn:Ec; [|discriminate].
  destruct (decode_assets strict a) as [es'|] eqn:Ea; [|discriminate].
  cbn [andb]. destruct (range_ok es') eqn:R; cbn [negb]; [|discriminate].
  intros H; inversion H; subst. split; [eapply decode_coin_range; eauto|].
  intros e Hin. pose proof (proj1 (range_ok_spec es) R e Hin). pose proof (decode_assets_nonzero _ _ _ Ea e Hin). lia.
Qed.

(* the check rejects nothing else: on in-range results both decoders agree *)
Lemma decode_value_chk_iff strict v r :
  decode_value true strict v = Some r <-> decode_value false strict v = Some r /\ range_ok (snd r) = true.
Proof.
  destruct v; cbn [decode_value];
    try (split; [intros H; split; [exact H|]; match goal with H : option_map _ ?d = Some _ |- _ => destruct d; cbn in H; inversion H; reflexivity end|intros [H _]; exact H]).
  destruct xs as [|c0 [|a [|x xs]]]; try (split; [discriminate|intros [H _]; discriminate]).
  destruct (decode_coin c0) as [coin|]; [|split; [discriminate|intros [H _]; discriminate]].
  destruct (decode_assets strict a) as [es|]; [|split; [discriminate|intros [H _]; discriminate]].
  cbn [andb]. destruct (range_ok es) eqn:R; cbn [negb].
  - split; [intros H; inversion H; subst; cbn; auto|intros [H _]; exact H].
  - split; [discriminate|]. intros [H R']. inversion H; subst. cbn [snd] in R'. rewrite R in R'. discriminate.
Qed.

(* ---- whole transactions: every output decoded, then any rule list ------------------ *)
Fixpoint decode_all (chk strict : bool) (outs : list item) : option (list (Z * list entry)) :=
  match outs with
  | [] => Some []
  | o :: r => match decode_value chk strict o, decode_all chk strict r with
              | Some v, Some vs => Some (v :: vs)
              | _, _ => None end
  end.

Definition value_in_range (v : Z * list entry) : Prop :=
  0 <= fst v < two64 /\ forall e, In e (snd v) -> 0 <= snd e < two64.

Lemma decode_all_range strict outs : forall vs, decode_all true strict outs = Some vs -> Forall value_in_range vs.
Proof.
  induction outs as [|o r IH]; intros vs H; cbn [decode_all] in H.
  - inversion H. constructor.
  - destruct (decode_value true strict o) as [[c es]|] eqn:E; [|discriminate].
    destruct (decode_all true strict r) as [vs'|]; [|discriminate]. inversion H; subst.
    constructor; [|apply IH; reflexivity].
    apply decode_value_range in E. destruct E as [E1 E2]. split; [exact E1|]. cbn [snd]. intros e Hin. specialize (E2 e Hin). lia.
Qed.

(* ---- no tokens out of nothing -------------------------------------------------------- *)
Fixpoint ztotal (l : list Z) : Z := match l with [] => 0 | x :: r => x + ztotal r end.
Lemma ztotal_nonneg l : Forall (fun q => 0 <= q) l -> 0 <= ztotal l.
Proof. induction l as [|x r IH]; intros H; cbn [ztotal]; [lia|]. inversion H; subst. specialize (IH H3). lia. Qed.
Lemma nonneg_parts_bounded l : Forall (fun q => 0 <= q) l -> forall q, In q l -> q <= ztotal l.
Proof.
  induction l as [|x r IH]; intros H q Hin; [destruct Hin|].
  inversion H as [|? ? Hx Hr]; subst. cbn [ztotal]. pose proof (ztotal_nonneg r Hr).
  destruct Hin as [->|Hin]; [lia|]. specialize (IH Hr q Hin). lia.
Qed.
