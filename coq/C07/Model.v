(* C07 - transaction byte offsets point at the decoded components.

   Model of the offset extractors of ledger/common/streaming_decode.go and
   ledger/common/common.go AFTER fixes/C07-measure-array-headers.patch and
   fixes/C07-witness-set-tag-wrappers.patch (every
   site that assumed `cborArrayHeaderSize(len(x))` now measures the header with
   `cborArrayHeaderSizeOf(data, len(x))`).  The pinned tree's behaviour is kept
   as the `assumed = true` variant of the same definitions (used for the
   `_refuted` witness).

   fxamacker is the Lib parser: `Decoder.Decode(&[]RawMessage)`, `Skip`,
   `DecodeRaw(&RawMessage)`, `Decode(&uint64)`, `Decode(&[]uint64)` read ONE
   well-formed item from the front of the remaining input (`parse_full`) and
   `NumBytesRead` advances by the bytes consumed.  A RawMessage element is the
   encoding of the parsed child (`enc x`; equal to the input slice by
   Lib.parse_full_sound).  Destinations that fxamacker would also accept
   through a tag wrapper or from null (tags are skipped, null gives a nil
   slice) are modelled as decode errors; the correspondence run never feeds
   such inputs (they are outside the property's quantifier: re-encodings with
   non-minimal / indefinite headers).

   Positions are `nat` (they are list lengths); Go's uint32 arithmetic cannot
   wrap for blocks below 4 GiB because every computed offset is bounded by
   the block length (theorem C07_in_range).   NO proofs in this file. *)
From V Require Import Lib.Base Lib.Cbor Lib.CborParse.
Local Open Scope N_scope.

Definition range := (nat * nat)%type.        (* ByteRange{Offset, Length} *)
Definition zero_range : range := (0%nat, 0%nat).

(* ---- header helpers ---------------------------------------------------- *)

(* cborArrayInfo (major = 4) / cborMapInfo (major = 5):
   (count, headerSize, isIndefinite); count None stands for -1 *)
Definition cbor_info (major : N) (data : bytes) : option N * nat * bool :=
  match data with
  | [] => (None, 0%nat, false)
  | b :: r =>
    if negb (b / 32 =? major) then (None, 0%nat, false)       (* firstByte&0xe0 != 0x80 / 0xa0 *)
    else
      let ai := b mod 32 in
      if ai <? 24 then (Some ai, 1%nat, false)
      else if ai =? 31 then (Some 0, 1%nat, true)
      else match read_arg ai r with                           (* 24..27 with enough bytes: big-endian length *)
           | Ok (f, n) _ => if n <=? 2147483647 then (Some n, S (nbytes f), false) else (None, 0%nat, false)
           | _ => (None, 0%nat, false)                        (* short input, or 28..30 *)
           end
  end.
Definition cbor_array_info := cbor_info 4.
Definition cbor_map_info := cbor_info 5.

(* cborArrayHeaderSize(length): the MINIMAL header for that many elements *)
Definition cbor_array_header_size (len : nat) : nat :=
  let n := N.of_nat len in
  if n <? 24 then 1%nat else if n <? 256 then 2%nat else if n <? 65536 then 3%nat else 5%nat.

(* cborArrayHeaderSizeOf(data, length) (added by the fix) *)
Definition cbor_array_header_size_of (data : bytes) (len : nat) : nat :=
  match cbor_array_info data with
  | (_, hs, _) => if Nat.ltb 0 hs then hs else cbor_array_header_size len
  end.

(* the pinned tree: `assumed` sites use cborArrayHeaderSize(len); `ind9f` says
   whether that site special-cases a first byte 0x9f *)
Definition hdr_at (assumed ind9f : bool) (data : bytes) (len : nat) : nat :=
  if assumed then
    if ind9f && (match data with b :: _ => b =? 159 | [] => false end) then 1%nat
    else cbor_array_header_size len
  else cbor_array_header_size_of data len.

(* ---- fxamacker stream decoder ----------------------------------------- *)
Definition consumed (bs rest : bytes) : nat := (length bs - length rest)%nat.

(* Decode(&[]RawMessage): element encodings, bytes read *)
Definition dec_raw_list (bs : bytes) : option (list bytes * nat) :=
  match parse_full bs with
  | Ok (Arr _ xs) rest => Some (map enc xs, consumed bs rest)
  | _ => None
  end.
(* Skip() / DecodeRaw(new(RawMessage)): item length, remaining input *)
Definition sd_skip (rest : bytes) : option (nat * bytes) :=
  match parse_full rest with Ok _ r => Some (consumed rest r, r) | _ => None end.
(* Decode(&uint64) *)
Definition sd_uint (rest : bytes) : option (N * nat * bytes) :=
  match parse_full rest with Ok (UInt _ n) r => Some (n, consumed rest r, r) | _ => None end.
(* Decode(&[]uint64) *)
Fixpoint all_uints (xs : list item) : option (list N) :=
  match xs with
  | [] => Some []
  | UInt _ n :: r => match all_uints r with Some l => Some (n :: l) | None => None end
  | _ => None
  end.
Definition sd_uints (rest : bytes) : option (list N * nat * bytes) :=
  match parse_full rest with
  | Ok (Arr _ xs) r => match all_uints xs with Some l => Some (l, consumed rest r, r) | None => None end
  | _ => None
  end.

(* ---- the loop skeleton shared by all walkers ----------------------------
     for i := 0; indefinite || i < count; i++ {
         if indefinite { if headerSize+pos >= len(data) || data[headerSize+pos] == 0xff { break } }
         STEP
     }
   `rest` is data[headerSize+pos:], so the break test reads its first byte.
   STEP consumes input (Next), returns from the function (Stop, with what it
   recorded) or bails out (Abort = `return`).  `continue` after the element
   was consumed is Next with nothing recorded. *)
Inductive step_res (E : Type) :=
| Next (es : list E) (used : nat) (rest : bytes)
| Stop (es : list E)
| Abort.
Arguments Next {E}. Arguments Stop {E}. Arguments Abort {E}.

Definition at_break (rest : bytes) : bool := match rest with [] => true | b :: _ => b =? 255 end.

Fixpoint scan {E} (step : nat -> bytes -> step_res E) (fuel : nat) (indef : bool) (cnt : N)
    (pos : nat) (rest : bytes) : list E :=
  match fuel with
  | O => []
  | S fu =>
    if (if indef then at_break rest else cnt =? 0) then []
    else match step pos rest with
         | Next es used r => es ++ scan step fu indef (cnt - 1) (pos + used)%nat r
         | Stop es => es
         | Abort => []
         end
  end.

(* count, header size, indefinite flag -> run the loop over data[headerSize:] *)
Definition run_scan {E} (major : N) (data : bytes) (step : nat -> nat -> bytes -> step_res E) : list E :=
  match cbor_info major data with
  | (None, _, false) => []                       (* count < 0 && !indefinite: return *)
  | (oc, hs, indef) =>
      scan (step hs) (S (length data)) indef (match oc with Some c => c | None => 0 end) 0%nat (skipn hs data)
  end.

(* positions of consecutive items: walk(pos, [x0; x1; ...]) *)
Fixpoint walk (pos : nat) (items : list bytes) : list range :=
  match items with
  | [] => []
  | x :: r => (pos, length x) :: walk (pos + length x)%nat r
  end.

(* ---- outputs ------------------------------------------------------------ *)
Definition valid_output_start (b : N) : bool := (128 <=? b) && (b <=? 191).

(* the "adjust backward by one" heuristic of common.extractOutputOffsets;
   idx is the position relative to the body *)
Definition adjust (body : bytes) (idx : nat) : nat :=
  match nth_error body idx with
  | None => idx
  | Some b =>
      if valid_output_start b then idx
      else match idx with
           | O => idx
           | S p => match nth_error body p with
                    | Some pb => if valid_output_start pb then p else idx
                    | None => idx
                    end
           end
  end.

Fixpoint walk_adjust (heur : bool) (body : bytes) (body_off : nat) (pos : nat) (items : list bytes) : list range :=
  match items with
  | [] => []
  | x :: r =>
      let p := if heur then (body_off + adjust body (pos - body_off))%nat else pos in
      (p, length x) :: walk_adjust heur body body_off (pos + length x)%nat r
  end.

(* extractOutputOffsets (function in common.go: heur = true, 0x9f special case;
   method in streaming_decode.go: heur = false, no 0x9f case) *)
Definition outputs_step (assumed ind9f heur : bool) (body : bytes) (body_off : nat)
    (hs pos : nat) (rest : bytes) : step_res range :=
  match sd_uint rest with
  | None => Abort
  | Some (key, klen, r1) =>
      if key =? 1 then
        let value_start := (pos + klen)%nat in
        match dec_raw_list r1 with
        | None => Abort
        | Some (outs, _) =>
            let arr_off := (body_off + hs + value_start)%nat in
            let h := hdr_at assumed ind9f r1 (length outs) in
            Stop (walk_adjust heur body body_off (arr_off + h)%nat outs)
        end
      else match sd_skip r1 with
           | None => Abort
           | Some (vlen, r2) => Next [] (klen + vlen)%nat r2
           end
  end.

Definition output_offsets (assumed ind9f heur : bool) (body : bytes) (body_off : nat) : list range :=
  if Nat.ltb (length body) 2 then []
  else run_scan 5 body (outputs_step assumed ind9f heur body body_off).

(* ---- metadata ------------------------------------------------------------ *)
(* extractMetadataOffsets: (uint32(txIdx), offset, length) in insertion order *)
Definition metadata_step (base : nat) (hs pos : nat) (rest : bytes) : step_res (N * range) :=
  match sd_uint rest with
  | None => Abort
  | Some (idx, klen, r1) =>
      match sd_skip r1 with
      | None => Abort
      | Some (vlen, r2) => Next [(idx mod 2^32, ((base + hs + (pos + klen))%nat, vlen))] (klen + vlen)%nat r2
      end
  end.
Definition metadata_offsets (data : bytes) (base : nat) : list (N * range) :=
  match data with
  | [] => []
  | _ => match cbor_map_info data with
         | (None, _, _) => []                          (* count < 0 (also when "indefinite" is false) *)
         | _ => run_scan 5 data (metadata_step base)
         end
  end.

(* Go map semantics: the last insertion for a key wins *)
Fixpoint lookup_last {V} (k : N) (l : list (N * V)) : option V :=
  match l with
  | [] => None
  | (k', v) :: r => match lookup_last k r with Some w => Some w | None => if k' =? k then Some v else None end
  end.

(* ---- witness-set components -------------------------------------------- *)
(* fxamacker skips tag numbers when the destination is not a tag type *)
Fixpoint strip_tags (i : item) : item := match i with Tag _ _ x => strip_tags x | _ => i end.
(* Decode(&[]RawMessage) through tag wrappers (Conway sets: 258([...])) *)
Definition dec_raw_list_t (bs : bytes) : option (list bytes * nat) :=
  match parse_full bs with
  | Ok i rest => match strip_tags i with Arr _ xs => Some (map enc xs, consumed bs rest) | _ => None end
  | _ => None
  end.

(* cborSkipTags (added by fixes/C07-witness-set-tag-wrappers.patch): the data
   after any leading tag headers, and the number of bytes skipped *)
Definition tag_hdr_size (ai : N) : nat :=
  if ai <? 24 then 1%nat else if ai =? 24 then 2%nat else if ai =? 25 then 3%nat
  else if ai =? 26 then 5%nat else if ai =? 27 then 9%nat else 0%nat.
Fixpoint skip_tags (fuel : nat) (data : bytes) : bytes * nat :=
  match fuel with
  | O => (data, 0%nat)
  | S fu =>
    match data with
    | b :: _ =>
        if b / 32 =? 6 then
          let size := tag_hdr_size (b mod 32) in
          if Nat.eqb size 0 then (data, 0%nat)
          else if Nat.ltb (length data) size then (data, 0%nat)
          else let '(d, k) := skip_tags fu (skipn size data) in (d, (size + k)%nat)
        else (data, 0%nat)
    | [] => (data, 0%nat)
    end
  end.

(* extractDatumOffsets *)
Definition datum_step (base : nat) (hs pos : nat) (rest : bytes) : step_res range :=
  match sd_skip rest with
  | None => Abort
  | Some (len, r) => Next [((base + hs + pos)%nat, len)] len r
  end.
Definition datum_offsets (data : bytes) (base : nat) : list range :=
  match data with
  | [] => []
  | _ => let '(inner, ts) := skip_tags (length data) data in run_scan 4 inner (datum_step (base + ts)%nat)
  end.

(* extractScriptArrayOffsets: Decode(&[]RawMessage), tag headers skipped, header
   from 0x9f / cborArrayInfo (0 when invalid) *)
Definition script_offsets (data : bytes) (base : nat) : list range :=
  match data with
  | [] => []
  | _ =>
      match dec_raw_list_t data with
      | None => []
      | Some (scripts, _) =>
          let '(inner, ts) := skip_tags (length data) data in
          let hs := match inner with
                    | b0 :: _ => if b0 =? 159 then 1%nat else snd (fst (cbor_array_info inner))
                    | [] => 0%nat
                    end in
          walk (base + (ts + hs))%nat scripts
      end
  end.

(* extractRedeemerArrayOffsets: [[purpose, index, data, exunits], ...] *)
Definition redeemer_key := (N * N)%type.      (* RedeemerTag (uint8), Index (uint32) *)
Definition mk_key (purpose index : N) : redeemer_key := (purpose mod 256, index mod 2^32).

Definition redeemer_arr_step (base : nat) (hs pos : nat) (rest : bytes) : step_res (redeemer_key * range) :=
  match parse_full rest with
  | Ok x r =>
      let elem := enc x in                      (* elemBytes *)
      let used := consumed rest r in
      let ih := snd (fst (cbor_array_info elem)) in
      if Nat.leb (length elem) ih then Next [] used r             (* continue *)
      else
        let e0 := skipn ih elem in
        match sd_uint e0 with
        | None => Next [] used r
        | Some (purpose, l1, e1) =>
          match sd_uint e1 with
          | None => Next [] used r
          | Some (index, l2, e2) =>
            match sd_skip e2 with
            | None => Next [] used r
            | Some (dlen, _) =>
                Next [(mk_key purpose index, ((base + hs + pos + ih + (l1 + l2))%nat, dlen))] used r
            end
          end
        end
  | _ => Abort
  end.

(* extractRedeemerMapOffsets: {[purpose, index]: [data, exunits], ...} *)
Definition redeemer_map_step (base : nat) (hs pos : nat) (rest : bytes) : step_res (redeemer_key * range) :=
  match sd_uints rest with
  | None => Abort
  | Some (kp, klen, r1) =>
      match kp with
      | purpose :: index :: _ =>
          match parse_full r1 with
          | Ok v r2 =>
              let value := enc v in
              let used := (klen + consumed r1 r2)%nat in
              let vh := snd (fst (cbor_array_info value)) in
              if Nat.leb (length value) vh then Next [] used r2
              else match sd_skip (skipn vh value) with
                   | None => Next [] used r2
                   | Some (dlen, _) =>
                       Next [(mk_key purpose index, ((base + hs + (pos + klen) + vh)%nat, dlen))] used r2
                   end
          | _ => Abort
          end
      | _ => Abort                                   (* len(keyPair) < 2 *)
      end
  end.

(* extractRedeemerOffsets: dispatch on the major type of the first byte *)
Definition redeemer_offsets (data : bytes) (base : nat) : list (redeemer_key * range) :=
  match data with
  | [] => []
  | b0 :: _ =>
      if b0 / 32 =? 4 then run_scan 4 data (redeemer_arr_step base)
      else if b0 / 32 =? 5 then run_scan 5 data (redeemer_map_step base)
      else []
  end.

Inductive comp :=
| CDatum (r : range)
| CRedeemer (k : redeemer_key) (r : range)
| CScript (ty : N) (r : range).

(* extractWitnessComponentOffsets *)
Definition witness_step (base : nat) (hs pos : nat) (rest : bytes) : step_res comp :=
  match sd_uint rest with
  | None => Abort
  | Some (key, klen, r1) =>
      match parse_full r1 with
      | Ok v r2 =>
          let value := enc v in
          let abs := (base + hs + (pos + klen))%nat in
          let used := (klen + consumed r1 r2)%nat in
          let scripts ty := map (CScript ty) (script_offsets value abs) in
          Next (if key =? 4 then map CDatum (datum_offsets value abs)
                else if key =? 5 then map (fun kr => CRedeemer (fst kr) (snd kr)) (redeemer_offsets value abs)
                else if key =? 1 then scripts 0
                else if key =? 3 then scripts 1
                else if key =? 6 then scripts 2
                else if key =? 7 then scripts 3
                else if key =? 8 then scripts 4
                else []) used r2
      | _ => Abort
      end
  end.
Definition witness_components (data : bytes) (base : nat) : list comp :=
  if Nat.ltb (length data) 2 then [] else run_scan 5 data (witness_step base).

(* ---- the block walkers --------------------------------------------------- *)
Record txloc := mk_txloc {
  l_body : range; l_wit : range; l_meta : range;
  l_outs : list range; l_comps : list comp }.

Inductive outcome := Done (txs : list txloc) | Fail | Unmodelled.

Fixpoint assemble (heur assumed ind9f : bool) (i : N) (bodies wits : list bytes) (body_pos wit_pos : nat)
    (metas : list (N * range)) : list txloc :=
  match bodies, wits with
  | b :: bs, w :: ws =>
      mk_txloc (body_pos, length b) (wit_pos, length w)
               (match lookup_last i metas with Some r => r | None => zero_range end)
               (output_offsets assumed ind9f heur b body_pos)
               (witness_components w wit_pos)
      :: assemble heur assumed ind9f (i + 1) bs ws (body_pos + length b)%nat (wit_pos + length w)%nat metas
  | _, _ => []
  end.

(* the Shelley+ layout [header, tx_bodies, witnesses, metadata, ...] of
   DecodeWithOffsets (streaming = true) and ExtractTransactionOffsets (false).
   assumed = true is the pinned tree; in it the streaming walker has no 0x9f
   special cases and the other one has them for the bodies / witnesses /
   outputs arrays but not for the block array. *)
Definition shelley_path (assumed streaming : bool) (data : bytes) (blk : list bytes) : outcome :=
  match blk with
  | b0 :: b1 :: b2 :: b3 :: _ =>
      let ahs := hdr_at assumed false data (length blk) in
      let bodies_off := (ahs + length b0)%nat in
      let wits_off := (bodies_off + length b1)%nat in
      let meta_off := (wits_off + length b2)%nat in
      match dec_raw_list b1 with
      | None => Fail
      | Some (bodies, _) =>
        match dec_raw_list b2 with
        | None => Fail
        | Some (wits, _) =>
            if negb (Nat.eqb (length bodies) (length wits)) then Fail
            else
              let metas := if Nat.ltb 1 (length b3) then metadata_offsets b3 meta_off else [] in
              let bh := hdr_at assumed (negb streaming) b1 (length bodies) in
              let wh := hdr_at assumed (negb streaming) b2 (length wits) in
              Done (assemble (negb streaming) assumed (negb streaming) 0 bodies wits
                             (bodies_off + bh)%nat (wits_off + wh)%nat metas)
        end
      end
  | _ => Unmodelled
  end.

(* ---- Byron main blocks: [header, [tx_payload, ssc, dlg, upd], extra] ---------- *)
(* isByronBlock *)
Definition is_byron_block (blk : list bytes) : bool :=
  match blk with
  | [_; b1; _] =>
      match dec_raw_list b1 with
      | Some ([p0; _; _; _], _) =>
          match dec_raw_list p0 with
          | Some ([], _) => true
          | Some (pair0 :: _, _) =>
              match dec_raw_list pair0 with Some ([_; _], _) => true | _ => false end
          | None => false
          end
      | _ => false
      end
  | _ => false
  end.

(* extractByronOutputOffsets: tx body = [inputs, outputs, attributes] *)
Definition byron_output_offsets (assumed : bool) (body : bytes) (body_off : nat) : list range :=
  if Nat.ltb (length body) 2 then []
  else match dec_raw_list body with
       | Some (p0 :: p1 :: pr, _) =>
           match dec_raw_list p1 with
           | Some (o :: os, _) =>
               let outs := o :: os in
               let bh := hdr_at assumed true body (S (S (length pr))) in
               let outs_abs := (body_off + bh + length p0)%nat in
               let oh := hdr_at assumed true p1 (length outs) in
               walk (outs_abs + oh)%nat outs
           | _ => []                         (* decode error, or no outputs *)
           end
       | _ => []                             (* decode error, or fewer than 2 parts *)
       end.

(* the loop over the [tx_body, tx_witnesses] pairs; None = error return *)
Fixpoint byron_pairs (assumed : bool) (pairs : list bytes) (pos : nat) : option (list txloc) :=
  match pairs with
  | [] => Some []
  | raw :: r =>
      match dec_raw_list raw with
      | Some (b :: w :: pr, _) =>
          let ph := hdr_at assumed true raw (S (S (length pr))) in
          let bstart := (pos + ph)%nat in
          match byron_pairs assumed r (pos + length raw)%nat with
          | Some l => Some (mk_txloc (bstart, length b) ((bstart + length b)%nat, length w) zero_range
                                     (byron_output_offsets assumed b bstart) [] :: l)
          | None => None
          end
      | _ => None                            (* decode error, or len(txPair) < 2 *)
      end
  end.

(* extractByronTransactionOffsets *)
Definition byron_offsets (assumed : bool) (data : bytes) (blk : list bytes) : outcome :=
  match blk with
  | b0 :: b1 :: _ =>
      let ahs := hdr_at assumed false data (length blk) in
      let body_off := (ahs + length b0)%nat in
      match dec_raw_list b1 with
      | Some ([p0; p1; p2; p3], _) =>
          match dec_raw_list p0 with
          | Some ([], _) => Done []
          | Some (payload, _) =>
              let bah := hdr_at assumed false b1 4 in
              let ph := hdr_at assumed true p0 (length payload) in
              match byron_pairs assumed payload (body_off + bah + ph)%nat with
              | Some l => Done l
              | None => Fail
              end
          | None => Fail
          end
      | _ => Fail
      end
  | _ => Fail
  end.

(* ---- Dijkstra blocks: [header, [invalid/nil, transactions, leios/nil, peras/nil]] ---- *)
(* isDijkstraBlock *)
Definition is_dijkstra_block (blk : list bytes) : bool :=
  match blk with
  | [_; b1] =>
      match dec_raw_list b1 with
      | Some ([_; p1; _; _], _) =>
          match dec_raw_list p1 with
          | Some ([], _) => true
          | Some (tx0 :: _, _) => match dec_raw_list tx0 with Some ([_; _; _], _) => true | _ => false end
          | None => false
          end
      | _ => false
      end
  | _ => false
  end.

(* count check `!indefinite && count != n` of cborArrayInfo results; None = invalid header *)
Definition info_ok (data : bytes) (n : N) : option nat :=
  match cbor_array_info data with
  | (None, _, false) => None
  | (oc, hs, indef) =>
      if negb indef && negb ((match oc with Some c => c | None => 0 end) =? n) then None else Some hs
  end.

(* the loop over the transactions: txsDecoder.DecodeRaw gives each [body, witness_set, aux/nil] *)
Fixpoint dijkstra_txs (fuel : nat) (n : nat) (pos : nat) (rest : bytes) : option (list txloc) :=
  match n with
  | O => Some []
  | S n' =>
      match sd_skip rest with
      | None => None
      | Some (tlen, r) =>
          let raw := firstn tlen rest in
          match dec_raw_list raw with
          | Some ([_; _; _], _) =>
              match info_ok raw 3 with
              | None => None
              | Some ths =>
                  let r0 := skipn ths raw in
                  match sd_skip r0 with
                  | None => None
                  | Some (bl, r1) =>
                    match sd_skip r1 with
                    | None => None
                    | Some (wl, r2) =>
                      match sd_skip r2 with
                      | None => None
                      | Some (al, _) =>
                          let body := firstn bl r0 in let wit := firstn wl r1 in let aux := firstn al r2 in
                          let bstart := (pos + ths)%nat in
                          let wstart := (pos + ths + bl)%nat in
                          let astart := (pos + ths + (bl + wl))%nat in
                          let meta := match aux with [246] => zero_range | _ => (astart, al) end in
                          match dijkstra_txs fuel n' (pos + tlen)%nat r with
                          | Some l => Some (mk_txloc (bstart, bl) (wstart, wl) meta
                                                     (output_offsets false true true body bstart)
                                                     (witness_components wit wstart) :: l)
                          | None => None
                          end
                      end
                    end
                  end
              end
          | _ => None
          end
      end
  end.

(* extractDijkstraTransactionOffsets *)
Definition dijkstra_offsets (data : bytes) (blk : list bytes) : outcome :=
  match blk with
  | [_; b1] =>
      match info_ok data 2 with
      | None => Fail
      | Some top_hs =>
          match dec_raw_list b1 with
          | Some ([_; _; _; _], _) =>
              match sd_skip (skipn top_hs data) with               (* Skip: header *)
              | None => Fail
              | Some (hl, r1) =>
                match sd_skip r1 with                              (* DecodeRaw: block body *)
                | None => Fail
                | Some (bl, _) =>
                    let body_raw := firstn bl r1 in
                    let body_off := (top_hs + hl)%nat in
                    match info_ok body_raw 4 with
                    | None => Fail
                    | Some body_hs =>
                        match sd_skip (skipn body_hs body_raw) with    (* Skip: invalid_transactions *)
                        | None => Fail
                        | Some (il, q1) =>
                          match sd_skip q1 with                        (* DecodeRaw: transactions *)
                          | None => Fail
                          | Some (tl, _) =>
                              let txs_raw := firstn tl q1 in
                              let txs_off := (body_off + body_hs + il)%nat in
                              match dec_raw_list txs_raw with
                              | None => Fail
                              | Some ([], _) => Done []
                              | Some (txs, _) =>
                                  match info_ok txs_raw (N.of_nat (length txs)) with
                                  | None => Fail
                                  | Some txs_hs =>
                                      match dijkstra_txs 0 (length txs) (txs_off + txs_hs)%nat (skipn txs_hs txs_raw) with
                                      | Some l => Done l
                                      | None => Fail
                                      end
                                  end
                              end
                          end
                        end
                    end
                end
              end
          | _ => Fail
          end
      end
  | _ => Fail
  end.

(* StreamingBlockDecoder.DecodeWithOffsets / ExtractTransactionOffsets (with
   fixes/C07-ebb-no-transactions.patch: a 3-element block that is not a Byron
   main block - an epoch boundary block - has no transaction segments).
   `ebb_fix = false` is the code before that patch: such a block went on into the
   Shelley+ layout (not modelled for 3 elements: Unmodelled). *)
Definition extract_gen (assumed streaming : bool) (data : bytes) : outcome :=
  match dec_raw_list data with
  | None => Fail
  | Some (blk, _) =>
      let n := length blk in
      if negb streaming && is_dijkstra_block blk then dijkstra_offsets data blk
      else if Nat.ltb n 3 then Done []
      else if is_byron_block blk then byron_offsets assumed data blk
      else if Nat.ltb n 4 then Done []
      else shelley_path assumed streaming data blk
  end.

Definition decode_with_offsets : bytes -> outcome := extract_gen false true.
Definition extract_transaction_offsets : bytes -> outcome := extract_gen false false.
(* the pinned tree *)
Definition decode_with_offsets_pinned : bytes -> outcome := extract_gen true true.
Definition extract_transaction_offsets_pinned : bytes -> outcome := extract_gen true false.

(* Extract{TransactionBody,Witness,Output}Cbor: bounds check, then the slice *)
Definition extract_cbor (data : bytes) (r : range) : option bytes :=
  if Nat.ltb (length data) (fst r + snd r) then None else Some (firstn (snd r) (skipn (fst r) data)).

(* ---- correspondence ------------------------------------------------------ *)
Definition rangeN := (N * N)%type.
Definition rng_eqb (r : range) (o : rangeN) : bool :=
  (N.of_nat (fst r) =? fst o) && (N.of_nat (snd r) =? snd o).

(* observed witness components: datum and script maps are keyed by a hash
   of the bytes, so the harness reports them as (kind, type/tag, index, range)
   sorted by (kind, offset); the model side is normalised the same way: a
   later entry with the same key replaces an earlier one *)
Definition ocomp := (N * N * N * rangeN)%type.   (* kind 0 datum / 1 redeemer / 2 script, a, b, range *)

Definition comp_key (data : bytes) (c : comp) : N * N * N * bytes :=
  match c with
  | CDatum r => (0, 0, 0, firstn (snd r) (skipn (fst r) data))
  | CRedeemer k _ => (1, fst k, snd k, [])
  | CScript ty r => (2, ty, 0, firstn (snd r) (skipn (fst r) data))
  end.
Definition comp_range (c : comp) : range :=
  match c with CDatum r => r | CRedeemer _ r => r | CScript _ r => r end.
Definition key_eqb (a b : N * N * N * bytes) : bool :=
  let '(a1, a2, a3, a4) := a in let '(b1, b2, b3, b4) := b in
  (a1 =? b1) && (a2 =? b2) && (a3 =? b3) && bytes_eqb a4 b4.

(* keep the last entry of every key (Go map), in first-insertion order is NOT
   needed: comparison is as a set, done by mutual inclusion *)
Fixpoint dedup_last (data : bytes) (l : list comp) : list comp :=
  match l with
  | [] => []
  | c :: r => if existsb (fun d => key_eqb (comp_key data c) (comp_key data d)) r then dedup_last data r
              else c :: dedup_last data r
  end.
Definition comp_matches (c : comp) (o : ocomp) : bool :=
  let '(kind, a, b, rg) := o in
  match c with
  | CDatum r => (kind =? 0) && rng_eqb r rg
  | CRedeemer k r => (kind =? 1) && (fst k =? a) && (snd k =? b) && rng_eqb r rg
  | CScript ty r => (kind =? 2) && rng_eqb r rg   (* the observed map is keyed by the hash only *)
  end.
Definition comps_eqb (data : bytes) (cs : list comp) (os : list ocomp) : bool :=
  let cs' := dedup_last data cs in
  Nat.eqb (length cs') (length os) &&
  forallb (fun c => existsb (comp_matches c) os) cs' &&
  forallb (fun o => existsb (fun c => comp_matches c o) cs') os.

Definition rangeN_eqb (a b : rangeN) : bool := (fst a =? fst b) && (snd a =? snd b).
Definition otx := (rangeN * rangeN * rangeN * list rangeN * list ocomp)%type.
Definition tx_eqb (data : bytes) (t : txloc) (o : otx) : bool :=
  let '(b, w, m, outs, comps) := o in
  rng_eqb (l_body t) b && rng_eqb (l_wit t) w && rng_eqb (l_meta t) m &&
  list_eqb rangeN_eqb (map (fun r => (N.of_nat (fst r), N.of_nat (snd r))) (l_outs t)) outs &&
  comps_eqb data (l_comps t) comps.

Fixpoint txs_eqb (data : bytes) (ts : list txloc) (os : list otx) : bool :=
  match ts, os with
  | [], [] => true
  | t :: tr, o :: or => tx_eqb data t o && txs_eqb data tr or
  | _, _ => false
  end.

(* one case: which walker (true = DecodeWithOffsets, false =
   ExtractTransactionOffsets), the block bytes, what the implementation
   returned (None = error) *)
Definition case := (bool * bytes * option (list otx))%type.
Definition check_case (c : case) : bool :=
  let '(streaming, data, obs) := c in
  match extract_gen false streaming data, obs with
  | Done ts, Some os => txs_eqb data ts os
  | Fail, None => true
  | _, _ => false
  end.
Definition mismatches := failing check_case.
