(* C07 - basic facts: header helpers and the stream decoder on encodings. *)
From V Require Import Lib.Base Lib.Cbor Lib.CborParse Lib.CborLemmas Lib.CborSpan Lib.CborProofs C07.Model.
Local Open Scope nat_scope.

Definition count_ok {A} (l : list A) : Prop := (N.of_nat (length l) <= 2147483647)%N.

Lemma consumed_app (a r : bytes) : consumed (a ++ r) r = length a.
Proof. unfold consumed. rewrite app_length. lia. Qed.

(* ---- cborArrayInfo / cborMapInfo on an encoded container ---- *)
Lemma cbor_info_head mt fm n tail : (mt < 8)%N -> fits fm n -> (n <= 2147483647)%N ->
  cbor_info mt (enc_head mt fm n ++ tail) = (Some n, S (nbytes fm), false).
Proof.
  intros Hm Hf Hn. unfold enc_head. cbn [app cbor_info].
  pose proof (ai_lt fm n Hf) as Hai. pose proof (ai_ne31 fm n Hf) as H31.
  destruct (hd_decomp mt (ai_of fm n) Hai) as [-> ->].
  rewrite N.eqb_refl. cbn [negb].
  pose proof (read_arg_enc fm n tail Hf) as R.
  destruct fm; cbn [ai_of nbytes] in *.
  - cbn in Hf. destruct (N.ltb_spec n 24); [reflexivity|lia].
  - change (24 <? 24)%N with false. change (24 =? 31)%N with false. cbn iota.
    rewrite R. destruct (N.leb_spec n 2147483647); [reflexivity|lia].
  - change (25 <? 24)%N with false. change (25 =? 31)%N with false. cbn iota.
    rewrite R. destruct (N.leb_spec n 2147483647); [reflexivity|lia].
  - change (26 <? 24)%N with false. change (26 =? 31)%N with false. cbn iota.
    rewrite R. destruct (N.leb_spec n 2147483647); [reflexivity|lia].
  - change (27 <? 24)%N with false. change (27 =? 31)%N with false. cbn iota.
    rewrite R. destruct (N.leb_spec n 2147483647); [reflexivity|lia].
Qed.

Definition is_indef (f : option form) : bool := match f with None => true | Some _ => false end.
Definition cnt_of {A} (f : option form) (l : list A) : N := match f with None => 0%N | Some _ => N.of_nat (length l) end.

Lemma cbor_info_arr f xs tail : wf (Arr f xs) -> count_ok xs ->
  cbor_info 4 (enc (Arr f xs) ++ tail) = (Some (cnt_of f xs), hdr_size f, is_indef f).
Proof.
  intros Hw Hc. apply wf_arr in Hw. destruct Hw as [Hh _]. destruct f as [fm|].
  - rewrite enc_arr_def, <- app_assoc. apply cbor_info_head; [lia|exact Hh|exact Hc].
  - rewrite enc_arr_indef. reflexivity.
Qed.

Lemma cbor_info_map f kvs tail : wf (Map f kvs) -> count_ok kvs ->
  cbor_info 5 (enc (Map f kvs) ++ tail) = (Some (cnt_of f kvs), hdr_size f, is_indef f).
Proof.
  intros Hw Hc. apply wf_map in Hw. destruct Hw as [Hh _]. destruct f as [fm|].
  - rewrite enc_map_def, <- app_assoc. apply cbor_info_head; [lia|exact Hh|exact Hc].
  - rewrite enc_map_indef. reflexivity.
Qed.

Lemma hdr_size_pos f : 0 < hdr_size f.
Proof. destruct f; cbn; lia. Qed.

(* the fixed code measures the header that is there *)
Lemma header_size_of_arr f xs tail len : wf (Arr f xs) -> count_ok xs ->
  cbor_array_header_size_of (enc (Arr f xs) ++ tail) len = hdr_size f.
Proof.
  intros Hw Hc. unfold cbor_array_header_size_of, cbor_array_info. rewrite cbor_info_arr by assumption.
  pose proof (hdr_size_pos f). destruct (Nat.ltb_spec 0 (hdr_size f)); [reflexivity|lia].
Qed.

Lemma hdr_at_fixed f xs tail ind len : wf (Arr f xs) -> count_ok xs ->
  hdr_at false ind (enc (Arr f xs) ++ tail) len = hdr_size f.
Proof. intros. unfold hdr_at. apply header_size_of_arr; assumption. Qed.

(* ---- the stream decoder on an encoded item ---- *)
Lemma dec_raw_list_enc f xs tail : wf (Arr f xs) ->
  dec_raw_list (enc (Arr f xs) ++ tail) = Some (map enc xs, length (enc (Arr f xs))).
Proof. intros Hw. unfold dec_raw_list. rewrite parse_full_enc by exact Hw. rewrite consumed_app. reflexivity. Qed.

Lemma dec_raw_list_enc0 f xs : wf (Arr f xs) ->
  dec_raw_list (enc (Arr f xs)) = Some (map enc xs, length (enc (Arr f xs))).
Proof. intros Hw. rewrite <- (app_nil_r (enc _)) at 1. apply dec_raw_list_enc. exact Hw. Qed.

Lemma sd_skip_enc x tail : wf x -> sd_skip (enc x ++ tail) = Some (length (enc x), tail).
Proof. intros Hw. unfold sd_skip. rewrite parse_full_enc by exact Hw. rewrite consumed_app. reflexivity. Qed.

Lemma sd_uint_enc f n tail : wf (UInt f n) ->
  sd_uint (enc (UInt f n) ++ tail) = Some (n, length (enc (UInt f n)), tail).
Proof. intros Hw. unfold sd_uint. rewrite parse_full_enc by exact Hw. rewrite consumed_app. reflexivity. Qed.

(* ---- sizes ---- *)
Lemma flat_len_ge xs : Forall wf xs -> length xs <= length (flat_map enc xs).
Proof.
  induction 1 as [|x r Hx _ IH]; cbn [flat_map length]; [lia|].
  rewrite app_length. pose proof (enc_nonempty x Hx). lia.
Qed.

Lemma arr_count_le f xs : wf (Arr f xs) -> length xs <= length (enc (Arr f xs)).
Proof. intros Hw. apply wf_arr in Hw. rewrite enc_length_arr. pose proof (flat_len_ge xs (proj2 Hw)). lia. Qed.

Lemma map_count_le f kvs : wf (Map f kvs) -> length kvs <= length (enc (Map f kvs)).
Proof.
  intros Hw. apply wf_map in Hw. rewrite enc_length_map.
  pose proof (flat_len_ge _ (proj2 Hw)). rewrite unpair_length in *. lia.
Qed.

(* ---- walk ---- *)
Lemma walk_length pos xs : length (walk pos xs) = length xs.
Proof. revert pos. induction xs as [|x r IH]; intros pos; cbn [walk length]; [reflexivity|]. rewrite IH. reflexivity. Qed.

Lemma walk_nth xs : forall pos j x, nth_error xs j = Some x ->
  nth_error (walk pos (map enc xs)) j = Some (pos + length (flat_map enc (firstn j xs)), length (enc x)).
Proof.
  induction xs as [|a r IH]; intros pos [|j] x H; cbn in H; try discriminate.
  - injection H as ->. cbn. rewrite Nat.add_0_r. reflexivity.
  - cbn [map walk nth_error firstn flat_map]. rewrite (IH _ _ _ H). rewrite app_length. f_equal. f_equal. lia.
Qed.

(* ---- located items ---- *)
(* the encoding of x occupies [off, off + |enc x|) of B *)
Definition located (B : bytes) (off : nat) (x : item) : Prop :=
  exists pre post, B = pre ++ enc x ++ post /\ length pre = off.

Lemma located_slice B off x : located B off x -> slice off (length (enc x)) B = enc x.
Proof. intros (pre & post & -> & <-). apply slice_app. Qed.

Lemma located_range B off x : located B off x -> off + length (enc x) <= length B.
Proof. intros (pre & post & -> & <-). rewrite !app_length. lia. Qed.

Lemma located_self x : located (enc x) 0 x.
Proof. exists [], []. rewrite app_nil_r. split; reflexivity. Qed.

Lemma located_arr_child B off f xs j x : located B off (Arr f xs) -> nth_error xs j = Some x ->
  located B (off + child_off f xs j) x.
Proof.
  intros (pre & post & -> & <-) H. destruct (child_split_arr f xs j x H) as (p & q & E & L).
  exists (pre ++ p), (q ++ post). rewrite E. rewrite <- !app_assoc. split; [reflexivity|].
  rewrite app_length, L. reflexivity.
Qed.

Lemma entry_split_map f kvs j k v : nth_error kvs j = Some (k, v) -> exists pre post,
  enc (Map f kvs) = pre ++ enc v ++ post /\ length pre = entry_off f kvs j + length (enc k).
Proof.
  intros H. destruct (enc_map_shape f kvs) as (h & t & E & Hh & _).
  rewrite (nth_error_split_list kvs j (k, v) H) in E at 2.
  rewrite unpair_app in E. cbn [unpair] in E. rewrite flat_map_app in E. cbn [flat_map] in E.
  exists (h ++ flat_map enc (unpair (firstn j kvs)) ++ enc k), (flat_map enc (unpair (skipn (S j) kvs)) ++ t).
  split.
  - rewrite E. rewrite <- !app_assoc. reflexivity.
  - unfold entry_off. rewrite enc_map_flat. rewrite !app_length, Hh. lia.
Qed.

Lemma located_map_value B off f kvs j k v : located B off (Map f kvs) -> nth_error kvs j = Some (k, v) ->
  located B (off + (entry_off f kvs j + length (enc k))) v.
Proof.
  intros (pre & post & -> & <-) H. destruct (entry_split_map f kvs j k v H) as (p & q & E & L).
  exists (pre ++ p), (q ++ post). rewrite E. rewrite <- !app_assoc. split; [reflexivity|].
  rewrite app_length, L. reflexivity.
Qed.

Lemma located_trans B off x o2 y : located B off x -> located (enc x) o2 y -> located B (off + o2) y.
Proof.
  intros (pre & post & -> & <-) (p & q & E & <-). exists (pre ++ p), (q ++ post).
  rewrite E, <- !app_assoc. split; [reflexivity|]. rewrite app_length. reflexivity.
Qed.
