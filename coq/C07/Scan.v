(* C07 - the loop skeleton `scan` over the encoded elements of a container. *)
From V Require Import Lib.Base Lib.Cbor Lib.CborParse Lib.CborLemmas Lib.CborSpan Lib.CborProofs C07.Model C07.Basics.
Local Open Scope nat_scope.

Section units.
  Context {U E : Type}.
  Variable encu : U -> bytes.
  Variable step : nat -> bytes -> step_res E.
  Variable spec : nat -> U -> list E.

  (* what the loop records when every element is consumed normally *)
  Fixpoint spec_run (pos : nat) (us : list U) : list E :=
    match us with
    | [] => []
    | u :: r => spec pos u ++ spec_run (pos + length (encu u)) r
    end.

  Definition no_break (u : U) : Prop := exists b t, encu u = b :: t /\ b <> 255%N.

  Lemma at_break_unit (u : U) (more : bytes) : no_break u -> at_break (encu u ++ more) = false.
  Proof. intros (b & t & -> & Hb). cbn. apply N.eqb_neq. exact Hb. Qed.

  Lemma scan_all : forall us fuel indef cnt pos tail,
    (forall u p more, In u us -> step p (encu u ++ more) = Next (spec p u) (length (encu u)) more) ->
    (forall u, In u us -> no_break u) ->
    (indef = true -> at_break tail = true) -> (indef = false -> cnt = N.of_nat (length us)) ->
    length us < fuel ->
    scan step fuel indef cnt pos (flat_map encu us ++ tail) = spec_run pos us.
  Proof.
    induction us as [|u r IH]; intros fuel indef cnt pos tail Hstep Hnb Hend Hcnt Hfuel.
    - destruct fuel as [|fu]; [cbn in Hfuel; lia|]. cbn [flat_map app scan spec_run].
      destruct indef; [rewrite Hend by reflexivity; reflexivity|]. rewrite Hcnt by reflexivity. reflexivity.
    - destruct fuel as [|fu]; [cbn in Hfuel; lia|]. cbn [flat_map spec_run]. rewrite <- app_assoc.
      cbn [scan]. rewrite (Hstep u pos _ (or_introl eq_refl)).
      assert (Hc : (if indef then at_break (encu u ++ flat_map encu r ++ tail) else (cnt =? 0)%N) = false).
      { destruct indef; [apply at_break_unit; apply Hnb; left; reflexivity|].
        rewrite Hcnt by reflexivity. cbn [length]. apply N.eqb_neq. lia. }
      rewrite Hc. f_equal. apply IH.
      + intros v p more Hin. apply Hstep. right. exact Hin.
      + intros v Hin. apply Hnb. right. exact Hin.
      + exact Hend.
      + intros Hi. rewrite (Hcnt Hi). cbn [length]. lia.
      + cbn [length] in Hfuel. lia.
  Qed.

  (* the loop returns from inside element u *)
  Lemma scan_stop : forall pre u post es fuel indef cnt pos tail,
    (forall v p more, In v pre -> step p (encu v ++ more) = Next (spec p v) (length (encu v)) more) ->
    (forall v, In v pre -> no_break v) -> no_break u ->
    step (pos + length (flat_map encu pre)) (encu u ++ flat_map encu post ++ tail) = Stop es ->
    (indef = false -> (N.of_nat (length pre) < cnt)%N) ->
    length pre < fuel ->
    scan step fuel indef cnt pos (flat_map encu (pre ++ u :: post) ++ tail) = spec_run pos pre ++ es.
  Proof.
    induction pre as [|v r IH]; intros u post es fuel indef cnt pos tail Hstep Hnb Hu Hs Hcnt Hfuel.
    - destruct fuel as [|fu]; [cbn in Hfuel; lia|]. cbn [app flat_map spec_run length] in *.
      rewrite Nat.add_0_r in Hs. rewrite <- app_assoc. cbn [scan]. rewrite Hs.
      assert (Hc : (if indef then at_break (encu u ++ flat_map encu post ++ tail) else (cnt =? 0)%N) = false).
      { destruct indef; [apply at_break_unit; exact Hu|]. specialize (Hcnt eq_refl). apply N.eqb_neq. lia. }
      rewrite Hc. reflexivity.
    - destruct fuel as [|fu]; [cbn in Hfuel; lia|]. cbn [app flat_map spec_run]. rewrite <- !app_assoc.
      cbn [scan]. rewrite (Hstep v pos _ (or_introl eq_refl)).
      assert (Hc : (if indef then at_break (encu v ++ flat_map encu (r ++ u :: post) ++ tail) else (cnt =? 0)%N) = false).
      { destruct indef; [apply at_break_unit; apply Hnb; left; reflexivity|].
        specialize (Hcnt eq_refl). apply N.eqb_neq. cbn [length] in Hcnt. lia. }
      rewrite Hc. f_equal. apply IH.
      + intros w p more Hin. apply Hstep. right. exact Hin.
      + intros w Hin. apply Hnb. right. exact Hin.
      + exact Hu.
      + cbn [flat_map] in Hs. rewrite app_length in Hs. rewrite <- Nat.add_assoc. exact Hs.
      + intros Hi. specialize (Hcnt Hi). cbn [length] in Hcnt. lia.
      + cbn [length] in Hfuel. lia.
  Qed.

  (* every recorded entry comes from one element, at that element's true position; and conversely *)
  Lemma spec_run_in : forall us pos e, In e (spec_run pos us) <->
    exists j u, nth_error us j = Some u /\ In e (spec (pos + length (flat_map encu (firstn j us))) u).
  Proof.
    induction us as [|u r IH]; intros pos e; cbn [spec_run].
    - split; [intros []|]. intros (j & u & H & _). destruct j; discriminate.
    - rewrite in_app_iff, IH. split.
      + intros [H|(j & v & Hn & Hin)].
        * exists 0, u. cbn. rewrite Nat.add_0_r. auto.
        * exists (S j), v. cbn [nth_error firstn flat_map]. rewrite app_length, Nat.add_assoc. auto.
      + intros ([|j] & v & Hn & Hin).
        * cbn in Hn. injection Hn as ->. cbn in Hin. rewrite Nat.add_0_r in Hin. left. exact Hin.
        * right. exists j, v. cbn [nth_error firstn flat_map] in *. rewrite app_length, Nat.add_assoc in Hin. auto.
  Qed.
End units.

(* ---- what follows the header of an encoded container ---- *)
Definition trailer_bytes (f : option form) : bytes := match f with None => [255%N] | Some _ => [] end.

Lemma arr_after_header f xs tail : wf (Arr f xs) ->
  skipn (hdr_size f) (enc (Arr f xs) ++ tail) = flat_map enc xs ++ trailer_bytes f ++ tail.
Proof.
  intros Hw. destruct f as [fm|].
  - rewrite enc_arr_def, <- app_assoc. cbn [hdr_size trailer_bytes app].
    rewrite <- (enc_head_length 4 fm (N.of_nat (length xs))). rewrite skipn_app, skipn_all, Nat.sub_diag. reflexivity.
  - rewrite enc_arr_indef. cbn [hdr_size skipn app trailer_bytes]. rewrite <- app_assoc. reflexivity.
Qed.

Lemma map_after_header f kvs tail : wf (Map f kvs) ->
  skipn (hdr_size f) (enc (Map f kvs) ++ tail) = flat_map enc_kv kvs ++ trailer_bytes f ++ tail.
Proof.
  intros Hw. rewrite enc_map_flat. destruct f as [fm|].
  - rewrite enc_map_def, <- app_assoc. cbn [hdr_size trailer_bytes app].
    rewrite <- (enc_head_length 5 fm (N.of_nat (length kvs))). rewrite skipn_app, skipn_all, Nat.sub_diag. reflexivity.
  - rewrite enc_map_indef. cbn [hdr_size skipn app trailer_bytes]. rewrite <- app_assoc. reflexivity.
Qed.

Lemma end_break f tail : is_indef f = true -> at_break (trailer_bytes f ++ tail) = true.
Proof. destruct f; [discriminate|reflexivity]. Qed.
Lemma end_count {A} f (l : list A) : is_indef f = false -> cnt_of f l = N.of_nat (length l).
Proof. destruct f; [reflexivity|discriminate]. Qed.

(* run_scan over an encoded array / map *)
Lemma run_scan_arr {E} f xs (step : nat -> nat -> bytes -> step_res E) : wf (Arr f xs) -> count_ok xs ->
  run_scan 4 (enc (Arr f xs)) step =
  scan (step (hdr_size f)) (S (length (enc (Arr f xs)))) (is_indef f) (cnt_of f xs) 0
       (flat_map enc xs ++ trailer_bytes f ++ []).
Proof.
  intros Hw Hc. unfold run_scan.
  assert (E1 : cbor_info 4 (enc (Arr f xs)) = (Some (cnt_of f xs), hdr_size f, is_indef f))
    by (rewrite <- (app_nil_r (enc _)); apply cbor_info_arr; assumption).
  assert (E2 : skipn (hdr_size f) (enc (Arr f xs)) = flat_map enc xs ++ trailer_bytes f ++ [])
    by (rewrite <- (app_nil_r (enc _)) at 1; apply arr_after_header; assumption).
  rewrite E1, E2. reflexivity.
Qed.

Lemma run_scan_map {E} f kvs (step : nat -> nat -> bytes -> step_res E) : wf (Map f kvs) -> count_ok kvs ->
  run_scan 5 (enc (Map f kvs)) step =
  scan (step (hdr_size f)) (S (length (enc (Map f kvs)))) (is_indef f) (cnt_of f kvs) 0
       (flat_map enc_kv kvs ++ trailer_bytes f ++ []).
Proof.
  intros Hw Hc. unfold run_scan.
  assert (E1 : cbor_info 5 (enc (Map f kvs)) = (Some (cnt_of f kvs), hdr_size f, is_indef f))
    by (rewrite <- (app_nil_r (enc _)); apply cbor_info_map; assumption).
  assert (E2 : skipn (hdr_size f) (enc (Map f kvs)) = flat_map enc_kv kvs ++ trailer_bytes f ++ [])
    by (rewrite <- (app_nil_r (enc _)) at 1; apply map_after_header; assumption).
  rewrite E1, E2. reflexivity.
Qed.
