(* C07 - property theorems only. *)
From V Require Import Lib.Base Lib.Cbor Lib.CborParse Lib.CborSpan C07.Model C07.Basics C07.Walkers C07.Top C07.Components C07.Byron
  C07.Dijkstra C07.Complete.
Local Open Scope nat_scope.

(* the bytes a reported range selects *)
Definition sel (B : bytes) (r : range) : bytes := slice (fst r) (snd r) B.

(* The decoded components of transaction i of a Shelley..Conway block
   b = [header, [body_0 ..], [witness_set_0 ..], {i: aux_i ..}, ...]:
   body_i, witness_set_i, the elements of the array under the first key 1 of
   body_i (body_outputs, computed from the tree by sizes only) and the value
   of an entry i of the auxiliary-data map. *)

(* C07_offsets_exact: for EVERY header form (1/2/3/5/9-byte or indefinite) of
   the block array, the bodies / witness-sets arrays, each body map, each
   outputs array, the auxiliary map and everything nested inside, both
   walkers (streaming = DecodeWithOffsets, otherwise ExtractTransactionOffsets)
   succeed, report one location per transaction, and every reported range
   selects exactly the encoding of the component it is reported for. *)
Theorem C07_offsets_exact : forall streaming b,
  wf b -> size_ok b -> shelley_like (negb streaming) b = true ->
  exists f0 h f1 bodies f2 wits aux rest txs,
    b = Arr f0 (h :: Arr f1 bodies :: Arr f2 wits :: aux :: rest) /\
    extract_gen false streaming (enc b) = Done txs /\
    length txs = length bodies /\
    forall i t, nth_error txs i = Some t ->
      exists body w, nth_error bodies i = Some body /\ nth_error wits i = Some w /\
        sel (enc b) (l_body t) = enc body /\
        sel (enc b) (l_wit t) = enc w /\
        match body_outputs body with
        | Some (_, _, outs) =>
            length (l_outs t) = length outs /\
            forall m o, nth_error outs m = Some o -> exists r, nth_error (l_outs t) m = Some r /\ sel (enc b) r = enc o
        | None => l_outs t = []
        end /\
        (l_meta t = zero_range \/
         exists f kvs j fk k v, aux = Map f kvs /\ nth_error kvs j = Some (UInt fk k, v) /\
           (k mod 2 ^ 32)%N = N.of_nat i /\ sel (enc b) (l_meta t) = enc v).
Proof.
  intros s b Hw Hs Hl.
  destruct (extract_shelley s b Hw Hs Hl) as (f0 & h & f1 & bodies & f2 & wits & aux & rest & txs & E & Ex & Len & H).
  exists f0, h, f1, bodies, f2, wits, aux, rest, txs. repeat split; auto.
  intros i t Ht. destruct (H i t Ht) as (body & w & Hb & Hwi & Rb & Rw & Ho & Hm & _).
  exists body, w. repeat split; auto; try (apply range_is_slice; assumption).
  - destruct (body_outputs body) as [[[o fo] outs]|]; [|exact Ho]. destruct Ho as [Hlen Ho]. split; [exact Hlen|].
    intros m x Hx. destruct (Ho m x Hx) as (r & Hr & R). exists r. split; [exact Hr|]. apply range_is_slice. exact R.
  - destruct Hm as [Hz|(f & kvs & j & fk & k & v & Ea & Hn & Hk & R)]; [left; exact Hz|].
    right. exists f, kvs, j, fk, k, v. repeat split; auto. apply range_is_slice. exact R.
Qed.
Print Assumptions C07_offsets_exact.

(* C07_in_range: no reported body / witness / output / metadata range leaves the block *)
Theorem C07_in_range : forall streaming b txs,
  wf b -> size_ok b -> shelley_like (negb streaming) b = true ->
  extract_gen false streaming (enc b) = Done txs ->
  forall t, In t txs ->
    let ok r := fst r + snd r <= length (enc b) in
    ok (l_body t) /\ ok (l_wit t) /\ ok (l_meta t) /\ forall r, In r (l_outs t) -> ok r.
Proof.
  intros s b txs Hw Hs Hl Hex t Hin.
  destruct (extract_shelley s b Hw Hs Hl) as (f0 & h & f1 & bodies & f2 & wits & aux & rest & txs' & E & Ex & Len & H).
  rewrite Hex in Ex. injection Ex as <-. apply In_nth_error in Hin. destruct Hin as [i Hi].
  destruct (H i t Hi) as (body & w & Hb & Hwi & Rb & Rw & Ho & Hm & _).
  cbv zeta. split; [eapply range_is_in; eauto|]. split; [eapply range_is_in; eauto|]. split.
  - destruct Hm as [->|(f & kvs & j & fk & k & v & _ & _ & _ & R)]; [cbn; lia|eapply range_is_in; eauto].
  - intros r Hr. destruct (body_outputs body) as [[[o fo] outs]|]; [|rewrite Ho in Hr; destruct Hr].
    destruct Ho as [Hlen Ho]. apply In_nth_error in Hr. destruct Hr as [m Hm'].
    assert (Hlt : m < length outs) by (rewrite <- Hlen; apply nth_error_Some; congruence).
    destruct (nth_error outs m) as [x|] eqn:Ex; [|apply nth_error_None in Ex; lia].
    destruct (Ho m x Ex) as (r' & Hr' & R). rewrite Hm' in Hr'. injection Hr' as <-. eapply range_is_in; eauto.
Qed.
Print Assumptions C07_in_range.

(* C07_witness_components_exact: every datum / redeemer / script range that
   extractWitnessComponentOffsets reports for a witness set w located at `base`
   in B selects exactly the encoding of a component x of w of that kind
   (comp_in: a datum under key 4, the data of the redeemer with that
   (tag, index) under key 5 in list or map form, a script under key
   1/3/6/7/8 of the reported type), for every header form of the witness map,
   of the component arrays / the redeemer map and of everything nested, and
   through any tag wrappers (258 = set) around the datum and script arrays *)
Theorem C07_witness_components_exact : forall B base w,
  wf w -> size_ok w -> wit_shape w = true -> located B base w ->
  forall c, In c (witness_components (enc w) base) ->
    exists x, sel B (comp_range c) = enc x /\ fst (comp_range c) + snd (comp_range c) <= length B /\ comp_in w c x.
Proof.
  intros B base w Hw Hs Hsh HL c Hc. destruct (witness_components_exact B base w Hw Hs Hsh HL c Hc) as (x & R & Hin).
  exists x. split; [apply range_is_slice; exact R|]. split; [eapply range_is_in; eauto|exact Hin].
Qed.
Print Assumptions C07_witness_components_exact.

(* ... and in a block: the component entries of transaction i are those of witness set i *)
Theorem C07_block_witness_components_exact : forall streaming b,
  wf b -> size_ok b -> shelley_like (negb streaming) b = true ->
  exists f0 h f1 bodies f2 wits aux rest txs,
    b = Arr f0 (h :: Arr f1 bodies :: Arr f2 wits :: aux :: rest) /\
    extract_gen false streaming (enc b) = Done txs /\
    forall i t w, nth_error txs i = Some t -> nth_error wits i = Some w -> wit_shape w = true ->
      forall c, In c (l_comps t) -> exists x, sel (enc b) (comp_range c) = enc x /\ comp_in w c x.
Proof.
  intros s b Hw Hs Hl.
  destruct (extract_shelley s b Hw Hs Hl) as (f0 & h & f1 & bodies & f2 & wits & aux & rest & txs & E & Ex & Len & H).
  exists f0, h, f1, bodies, f2, wits, aux, rest, txs. repeat split; auto.
  intros i t w Ht Hwi Hsh c Hc. destruct (H i t Ht) as (body & w' & Hb & Hwi' & Rb & Rw & Ho & Hm & Hcomps).
  rewrite Hwi in Hwi'. injection Hwi' as <-. rewrite Hcomps in Hc. destruct Rw as [Lw _].
  assert (Hww : wf w).
  { subst b. apply (wf_children f2 wits i w); [|exact Hwi]. apply (wf_children f0 _ 2 _ Hw). reflexivity. }
  destruct (witness_components_exact (enc b) _ w Hww (size_ok_located _ _ _ Lw Hs) Hsh Lw c Hc) as (x & R & Hin).
  exists x. split; [apply range_is_slice; exact R|exact Hin].
Qed.
Print Assumptions C07_block_witness_components_exact.

(* C07_byron_offsets_exact: Byron main blocks
   [header, [[ [tx_body, tx_witnesses] .. ], ssc, dlg, upd], extra] with ANY
   header form on every array: both walkers recognise the layout, report one
   location per transaction pair, body / witness ranges select exactly
   enc tx_body / enc tx_witnesses, no metadata and no witness components are
   reported, and for a body [inputs, [out ..], ..] the output ranges are as
   many as the outputs and select exactly each enc out *)
Theorem C07_byron_offsets_exact : forall streaming b,
  wf b -> size_ok b -> byron_like b = true ->
  exists f0 h f1 fp pairs s1 s2 s3 extra txs,
    b = Arr f0 [h; Arr f1 [Arr fp pairs; s1; s2; s3]; extra] /\
    extract_gen false streaming (enc b) = Done txs /\ length txs = length pairs /\
    forall i t, nth_error txs i = Some t ->
      exists fq body w, nth_error pairs i = Some (Arr fq [body; w]) /\
        sel (enc b) (l_body t) = enc body /\ sel (enc b) (l_wit t) = enc w /\
        fst (l_body t) + snd (l_body t) <= length (enc b) /\ fst (l_wit t) + snd (l_wit t) <= length (enc b) /\
        l_meta t = zero_range /\ l_comps t = [] /\
        match byron_body_outputs body with
        | Some (_, _, outs) =>
            length (l_outs t) = length outs /\
            forall m o, nth_error outs m = Some o -> exists r, nth_error (l_outs t) m = Some r /\
              sel (enc b) r = enc o /\ fst r + snd r <= length (enc b)
        | None => True
        end.
Proof.
  intros s b Hw Hs Hl.
  destruct (extract_byron s b Hw Hs Hl) as (f0 & h & f1 & fp & pairs & s1 & s2 & s3 & extra & txs & E & Ex & Len & H).
  exists f0, h, f1, fp, pairs, s1, s2, s3, extra, txs. repeat split; auto.
  intros i t Ht. destruct (H i t Ht) as (fq & body & w & Hp & Rb & Rw & Hm & Hc & Ho).
  exists fq, body, w. repeat split; auto; try (apply range_is_slice; assumption); try (eapply range_is_in; eassumption).
  destruct (byron_body_outputs body) as [[[o fo] outs]|]; [|exact I]. destruct Ho as [Hlen Ho]. split; [exact Hlen|].
  intros m x Hx. destruct (Ho m x Hx) as (r & Hr & R). exists r. split; [exact Hr|].
  split; [apply range_is_slice; exact R|eapply range_is_in; exact R].
Qed.
Print Assumptions C07_byron_offsets_exact.

(* C07_ebb_nothing_reported: a Byron epoch boundary block
   [header, [stakeholder id ..], extra] (accepted by the era decoder, no
   transactions) yields no locations and no error, whatever the number of ids
   and of `extra` elements (with fixes/C07-ebb-no-transactions.patch; before it
   such a block was read as a Shelley layout: an error, or phantom locations) *)
Theorem C07_ebb_nothing_reported : forall streaming b,
  wf b -> ebb_like b = true -> extract_gen false streaming (enc b) = Done [].
Proof. exact extract_ebb. Qed.
Print Assumptions C07_ebb_nothing_reported.

(* C07_witness_components_complete: NOTHING IS SKIPPED.  wit_items w lists, from
   the tree alone and in encoding order, every datum (elements of the array
   under key 4, through tag wrappers), every redeemer's data (elements of the
   Alonzo list [[tag, index, data, ex_units] ..] or entries of the Conway map
   {[tag, index]: [data, ex_units]} under key 5, with the key (tag mod 2^8,
   index mod 2^32)) and every script (elements of the arrays under keys
   1/3/6/7/8, through tag wrappers, with the script type).  The list of entries
   extractWitnessComponentOffsets records has the same length, the same order
   and the same kinds / keys / types, and entry j selects exactly the encoding
   of component j; hence also per kind (the three Go maps read as insertion
   sequences), and conversely every component in the sense of comp_in (the
   vocabulary of C07_witness_components_exact) has an entry. *)
Theorem C07_witness_components_complete : forall B base w,
  wf w -> size_ok w -> wit_shape w = true -> located B base w ->
  let cs := witness_components (enc w) base in
  length cs = length (wit_items w) /\
  map (fun c => (comp_kind c, sel B (comp_range c))) cs = map (fun kx => (fst kx, enc (snd kx))) (wit_items w) /\
  (length (datum_ranges cs) = length (items_datums (wit_items w)) /\
   map (sel B) (datum_ranges cs) = map enc (items_datums (wit_items w))) /\
  (length (redeemer_ranges cs) = length (items_redeemers (wit_items w)) /\
   map (fun kr => (fst kr, sel B (snd kr))) (redeemer_ranges cs) =
   map (fun kx => (fst kx, enc (snd kx))) (items_redeemers (wit_items w))) /\
  (length (script_ranges cs) = length (items_scripts (wit_items w)) /\
   map (fun tr => (fst tr, sel B (snd tr))) (script_ranges cs) =
   map (fun tx => (fst tx, enc (snd tx))) (items_scripts (wit_items w))) /\
  (forall c0 x, comp_in w c0 x ->
     exists c, In c cs /\ comp_kind c = comp_kind c0 /\ sel B (comp_range c) = enc x).
Proof.
  intros B base w Hw Hs Hsh HL cs.
  pose proof (witness_components_complete B base w Hw Hs Hsh HL) as F. fold cs in F.
  destruct (reports_split B cs _ F) as (F1 & F2 & F3).
  split; [apply (Forall2_length' _ _ _ F)|].
  split; [apply (Forall2_maps _ _ _ _ _ F); intros c kx [Hk Hr]; rewrite Hk; f_equal; apply range_is_slice; exact Hr|].
  split; [split; [apply (Forall2_length' _ _ _ F1)|apply (Forall2_maps _ _ _ _ _ F1); intros r x Hr; apply range_is_slice; exact Hr]|].
  split; [split; [apply (Forall2_length' _ _ _ F2)|apply (Forall2_maps _ _ _ _ _ F2); intros r x [Hk Hr]; rewrite Hk; f_equal; apply range_is_slice; exact Hr]|].
  split; [split; [apply (Forall2_length' _ _ _ F3)|apply (Forall2_maps _ _ _ _ _ F3); intros r x [Hk Hr]; rewrite Hk; f_equal; apply range_is_slice; exact Hr]|].
  intros c0 x Hin. apply comp_in_items in Hin.
  assert (G : forall cs l, Forall2 (reports B) cs l -> In (comp_kind c0, x) l ->
            exists c, In c cs /\ comp_kind c = comp_kind c0 /\ sel B (comp_range c) = enc x).
  { clear. induction 1 as [|c kx cs l [Hk Hr] _ IH]; intros Hin; [destruct Hin|]. destruct Hin as [->|Hin].
    - exists c. split; [left; reflexivity|]. split; [exact Hk|apply range_is_slice; exact Hr].
    - destruct (IH Hin) as (c' & H1 & H2). exists c'. split; [right; exact H1|exact H2]. }
  apply (G cs _ F Hin).
Qed.
Print Assumptions C07_witness_components_complete.

(* the redeemer part of wit_items leaves no element of the list / no entry of the map out *)
Theorem C07_wit_items_all_redeemers : forall v,
  red_arr_shape v = true \/ red_map_shape v = true ->
  length (red_items v) = match v with Arr _ rs => length rs | Map _ es => length es | _ => 0 end.
Proof. exact red_items_length. Qed.

(* ... and in a block: the component entries of transaction i are, in order, the components of witness set i *)
Theorem C07_block_witness_components_complete : forall streaming b,
  wf b -> size_ok b -> shelley_like (negb streaming) b = true ->
  exists f0 h f1 bodies f2 wits aux rest txs,
    b = Arr f0 (h :: Arr f1 bodies :: Arr f2 wits :: aux :: rest) /\
    extract_gen false streaming (enc b) = Done txs /\
    forall i t w, nth_error txs i = Some t -> nth_error wits i = Some w -> wit_shape w = true ->
      map (fun c => (comp_kind c, sel (enc b) (comp_range c))) (l_comps t) =
      map (fun kx => (fst kx, enc (snd kx))) (wit_items w).
Proof.
  intros s b Hw Hs Hl.
  destruct (extract_shelley s b Hw Hs Hl) as (f0 & h & f1 & bodies & f2 & wits & aux & rest & txs & E & Ex & Len & H).
  exists f0, h, f1, bodies, f2, wits, aux, rest, txs. repeat split; auto.
  intros i t w Ht Hwi Hsh. destruct (H i t Ht) as (body & w' & Hb & Hwi' & Rb & Rw & Ho & Hm & Hcomps).
  rewrite Hwi in Hwi'. injection Hwi' as <-. rewrite Hcomps. destruct Rw as [Lw _].
  assert (Hww : wf w).
  { subst b. apply (wf_children f2 wits i w); [|exact Hwi]. apply (wf_children f0 _ 2 _ Hw). reflexivity. }
  apply (C07_witness_components_complete (enc b) _ w Hww (size_ok_located _ _ _ Lw Hs) Hsh Lw).
Qed.
Print Assumptions C07_block_witness_components_complete.

(* C07_dijkstra_offsets_exact: Dijkstra blocks
   [header, [invalid/nil, [[body, witness_set, aux/nil] ..], leios/nil, peras/nil]]
   with ANY header form on every array and map: ExtractTransactionOffsets
   recognises the layout (isDijkstraBlock), reports one location per
   transaction, the body / witness-set ranges select exactly enc body /
   enc witness_set and lie inside the block, the metadata range is zero iff the
   third element is CBOR null and otherwise selects exactly enc aux, the output
   ranges are as many as the outputs under the first key 1 of the body and
   select each enc out, and the witness components are, in order, exactly the
   components of the witness set.  DecodeWithOffsets has no Dijkstra layout:
   it reports no transactions for such a block. *)
Theorem C07_dijkstra_offsets_exact : forall b,
  wf b -> size_ok b -> dijkstra_like b = true ->
  exists f0 h f1 inv ft txs lc pc locs,
    b = Arr f0 [h; Arr f1 [inv; Arr ft txs; lc; pc]] /\
    extract_transaction_offsets (enc b) = Done locs /\ length locs = length txs /\
    decode_with_offsets (enc b) = Done [] /\
    forall i t, nth_error locs i = Some t ->
      let ok r := fst r + snd r <= length (enc b) in
      exists fq body w aux, nth_error txs i = Some (Arr fq [body; w; aux]) /\
        sel (enc b) (l_body t) = enc body /\ sel (enc b) (l_wit t) = enc w /\ ok (l_body t) /\ ok (l_wit t) /\
        (if is_null aux then l_meta t = zero_range else sel (enc b) (l_meta t) = enc aux /\ ok (l_meta t)) /\
        match body_outputs body with
        | Some (_, _, outs) =>
            length (l_outs t) = length outs /\
            forall m o, nth_error outs m = Some o -> exists r, nth_error (l_outs t) m = Some r /\
              sel (enc b) r = enc o /\ ok r
        | None => l_outs t = []
        end /\
        (wit_shape w = true ->
           map (fun c => (comp_kind c, sel (enc b) (comp_range c))) (l_comps t) =
           map (fun kx => (fst kx, enc (snd kx))) (wit_items w) /\
           forall c, In c (l_comps t) -> ok (comp_range c)).
Proof.
  intros b Hw Hs Hl.
  destruct (extract_dijkstra b Hw Hs Hl) as (f0 & h & f1 & inv & ft & txs & lc & pc & locs & E & Ex & Len & H).
  exists f0, h, f1, inv, ft, txs, lc, pc, locs. split; [exact E|]. split; [exact Ex|]. split; [exact Len|].
  split; [subst b; apply streaming_two_elements; exact Hw|].
  intros i t Ht ok. destruct (H i t Ht) as (fq & body & w & aux & Hp & Rb & Rw & Hm & Ho & Hc).
  exists fq, body, w, aux. split; [exact Hp|].
  split; [apply range_is_slice; exact Rb|]. split; [apply range_is_slice; exact Rw|].
  split; [eapply range_is_in; exact Rb|]. split; [eapply range_is_in; exact Rw|].
  split; [destruct (is_null aux); [exact Hm|split; [apply range_is_slice; exact Hm|eapply range_is_in; exact Hm]]|].
  split.
  - destruct (body_outputs body) as [[[o fo] outs]|]; [|exact Ho]. destruct Ho as [Hlen Ho]. split; [exact Hlen|].
    intros m x Hx. destruct (Ho m x Hx) as (r & Hr & R). exists r. split; [exact Hr|].
    split; [apply range_is_slice; exact R|eapply range_is_in; exact R].
  - intros Hsh. rewrite Hc. destruct Rw as [Lw _].
    assert (Hww : wf w).
    { subst b. apply (wf_children fq [body; w; aux] 1 w); [|reflexivity]. apply (wf_children ft txs i _); [|exact Hp].
      apply (wf_children f1 [inv; Arr ft txs; lc; pc] 1 _); [|reflexivity]. apply (wf_children f0 _ 1 _ Hw). reflexivity. }
    pose proof (size_ok_located _ _ _ Lw Hs) as Sw.
    split; [apply (C07_witness_components_complete (enc b) _ w Hww Sw Hsh Lw)|].
    intros c Hin. destruct (C07_witness_components_exact (enc b) _ w Hww Sw Hsh Lw c Hin) as (x & _ & Hr & _). exact Hr.
Qed.
Print Assumptions C07_dijkstra_offsets_exact.

(* non-vacuity: a Dijkstra block with two transactions (indefinite transactions array, 2-byte header on
   the block body, one null and one real auxiliary data, a tag-258 datum set and an Alonzo redeemer list) *)
Definition dj_block : item :=
  Arr (Some F1) [UInt Fimm 0;
    Arr (Some F2) [Simple Fimm 22;
      Arr None [
        Arr (Some Fimm) [Map (Some Fimm) [(UInt Fimm 0, Arr (Some Fimm) []);
                                           (UInt Fimm 1, Arr (Some F1) [Arr (Some Fimm) [UInt Fimm 7; UInt F4 5]])];
                         Map (Some Fimm) [(UInt Fimm 4, Tag F2 258 (Arr (Some Fimm) [UInt F1 7]))];
                         Simple Fimm 22];
        Arr None [Map None [(UInt Fimm 2, UInt Fimm 3)];
                  Map (Some F1) [(UInt Fimm 5, Arr (Some Fimm) [Arr (Some Fimm) [UInt Fimm 1; UInt Fimm 0; UInt F2 9; Arr (Some Fimm) []]])];
                  Map (Some Fimm) [(UInt Fimm 0, UInt Fimm 9)]]];
      Simple Fimm 22; Simple Fimm 22]].

Example C07_dijkstra_nonvacuous :
  wf dj_block /\ size_ok dj_block /\ dijkstra_like dj_block = true /\
  exists t0 t1, extract_transaction_offsets (enc dj_block) = Done [t0; t1] /\
    l_meta t0 = zero_range /\ sel (enc dj_block) (l_meta t1) = enc (Map (Some Fimm) [(UInt Fimm 0, UInt Fimm 9)]) /\
    map (sel (enc dj_block)) (l_outs t0) = [enc (Arr (Some Fimm) [UInt Fimm 7; UInt F4 5])] /\
    map (fun c => sel (enc dj_block) (comp_range c)) (l_comps t0 ++ l_comps t1) = [enc (UInt F1 7); enc (UInt F2 9)].
Proof.
  split; [vm_compute; repeat split; repeat constructor|]. split; [vm_compute; discriminate|]. split; [reflexivity|].
  eexists _, _. split; [vm_compute; reflexivity|]. repeat split; vm_compute; reflexivity.
Qed.

(* non-vacuity for the component theorem: a Conway-style witness set with tag-258 sets *)
Example C07_components_nonvacuous :
  let w := Map (Some Fimm) [(UInt Fimm 1, Tag F2 258 (Arr (Some F1) [Arr (Some Fimm) [UInt Fimm 0; BStr Fimm [1%N; 2%N]]]));
                            (UInt Fimm 4, Tag F2 258 (Arr None [UInt F1 7; UInt Fimm 8]));
                            (UInt Fimm 5, Map (Some Fimm) [(Arr (Some Fimm) [UInt Fimm 0; UInt Fimm 3], Arr (Some Fimm) [UInt F2 9; Arr (Some Fimm) []])])] in
  wf w /\ wit_shape w = true /\
  map (fun c => sel (enc w) (comp_range c)) (witness_components (enc w) 0) =
    [enc (Arr (Some Fimm) [UInt Fimm 0; BStr Fimm [1%N; 2%N]]); enc (UInt F1 7); enc (UInt Fimm 8); enc (UInt F2 9)].
Proof. split; [vm_compute; repeat split; repeat constructor|]. split; vm_compute; reflexivity. Qed.

(* ... and the same witness set read by the specification of the completeness theorem *)
Example C07_complete_nonvacuous :
  let w := Map (Some Fimm) [(UInt Fimm 1, Tag F2 258 (Arr (Some F1) [Arr (Some Fimm) [UInt Fimm 0; BStr Fimm [1%N; 2%N]]]));
                            (UInt Fimm 4, Tag F2 258 (Arr None [UInt F1 7; UInt Fimm 8]));
                            (UInt Fimm 5, Map (Some Fimm) [(Arr (Some Fimm) [UInt Fimm 0; UInt Fimm 3], Arr (Some Fimm) [UInt F2 9; Arr (Some Fimm) []])])] in
  wit_items w = [(KScript 0, Arr (Some Fimm) [UInt Fimm 0; BStr Fimm [1%N; 2%N]]); (KDatum, UInt F1 7); (KDatum, UInt Fimm 8);
                 (KRedeemer (0%N, 3%N), UInt F2 9)] /\
  map comp_kind (witness_components (enc w) 0) = map fst (wit_items w).
Proof. split; vm_compute; reflexivity. Qed.

(* ---- the pinned tree: header size assumed from the element count ---- *)
(* a one-transaction block whose outer array header is 0x98 0x05 *)
Definition wit_block (f0 : option form) : item :=
  Arr f0 [UInt Fimm 0;
          Arr (Some Fimm) [Map (Some Fimm) [(UInt Fimm 0, Arr (Some Fimm) []);
                                             (UInt Fimm 1, Arr (Some Fimm) [Arr (Some Fimm) [UInt Fimm 7; UInt F4 5]])]];
          Arr (Some Fimm) [Map (Some Fimm) []];
          Map (Some Fimm) [(UInt Fimm 0, UInt Fimm 9)];
          Arr (Some Fimm) []].

Theorem C07_offsets_exact_refuted : exists b streaming txs t body,
  wf b /\ size_ok b /\ shelley_like (negb streaming) b = true /\
  extract_gen true streaming (enc b) = Done txs /\ nth_error txs 0 = Some t /\
  b = wit_block (Some F1) /\ body = Map (Some Fimm) [(UInt Fimm 0, Arr (Some Fimm) []);
                                             (UInt Fimm 1, Arr (Some Fimm) [Arr (Some Fimm) [UInt Fimm 7; UInt F4 5]])] /\
  sel (enc b) (l_body t) <> enc body /\
  (* the repaired walker on the same input *)
  exists txs' t', extract_gen false streaming (enc b) = Done txs' /\ nth_error txs' 0 = Some t' /\
                  sel (enc b) (l_body t') = enc body.
Proof.
  eexists (wit_block (Some F1)), true, _, _, _.
  split; [vm_compute; repeat split; repeat constructor|].
  split; [vm_compute; discriminate|].
  split; [vm_compute; reflexivity|].
  split; [vm_compute; reflexivity|].
  split; [reflexivity|]. split; [reflexivity|]. split; [reflexivity|].
  split; [vm_compute; discriminate|].
  eexists _, _. split; [vm_compute; reflexivity|]. split; [reflexivity|]. vm_compute. reflexivity.
Qed.
Print Assumptions C07_offsets_exact_refuted.

(* what the pinned tree does get right: minimal headers everywhere (partial) *)
Theorem C07_offsets_exact_partial_witness : forall streaming,
  let b := wit_block (Some Fimm) in
  exists txs t, extract_gen true streaming (enc b) = Done txs /\ nth_error txs 0 = Some t /\
    sel (enc b) (l_body t) = enc (Map (Some Fimm) [(UInt Fimm 0, Arr (Some Fimm) []);
                                             (UInt Fimm 1, Arr (Some Fimm) [Arr (Some Fimm) [UInt Fimm 7; UInt F4 5]])]).
Proof. intros [|]; eexists _, _; (split; [vm_compute; reflexivity|]); split; try reflexivity; vm_compute; reflexivity. Qed.

(* non-vacuity: the hypotheses of C07_offsets_exact hold for every form of the outer header *)
Example C07_nonvacuous : forall f0, In f0 [Some Fimm; Some F1; Some F2; Some F4; Some F8; None] ->
  wf (wit_block f0) /\ size_ok (wit_block f0) /\ shelley_like true (wit_block f0) = true /\
  exists txs t, extract_transaction_offsets (enc (wit_block f0)) = Done txs /\ nth_error txs 0 = Some t /\
    map (sel (enc (wit_block f0))) (l_outs t) = [enc (Arr (Some Fimm) [UInt Fimm 7; UInt F4 5])] /\
    sel (enc (wit_block f0)) (l_meta t) = enc (UInt Fimm 9).
Proof.
  intros f0 H. cbn [In] in H.
  repeat (destruct H as [<-|H];
    [split; [vm_compute; repeat split; repeat constructor|]; split; [vm_compute; discriminate|]; split; [reflexivity|];
     eexists _, _; split; [vm_compute; reflexivity|]; split; [reflexivity|]; split; vm_compute; reflexivity|]).
  destruct H.
Qed.
