(* C07 - property theorems only. *)
From V Require Import Lib.Base Lib.Cbor Lib.CborParse Lib.CborSpan C07.Model C07.Basics C07.Walkers C07.Top C07.Components C07.Byron.
Local Open Scope nat_scope.

(* the bytes a reported range selects *)
Definition sel (B : bytes) (r : range) : bytes := slice (fst r) (snd r) B.

(* The decoded components of transaction i of a Shelley..Conway block
   b = [header, [body_0 ..], [witness_set_0 ..], {i: aux_i ..}, ...]:
   body_i, witness_set_i, the elements of the array under the first key 1 of
   body_i (body_outputs, computed from the tree by sizes only) and the value
   of an entry i of the auxiliary-data map. *)

(* C07_offsets_exact: for EVERY header form (1/2/3/5/9-byte or indefinite) of
   the block array, the bodies / witness-sets arrays, each body map, each
   outputs array, the auxiliary map and everything nested inside, both
   walkers (streaming = DecodeWithOffsets, otherwise ExtractTransactionOffsets)
   succeed, report one location per transaction, and every reported range
   selects exactly the encoding of the component it is reported for. *)
Theorem C07_offsets_exact : forall streaming b,
  wf b -> size_ok b -> shelley_like (negb streaming) b = true ->
  exists f0 h f1 bodies f2 wits aux rest txs,
    b = Arr f0 (h :: Arr f1 bodies :: Arr f2 wits :: aux :: rest) /\
    extract_gen false streaming (enc b) = Done txs /\
    length txs = length bodies /\
    forall i t, nth_error txs i = Some t ->
      exists body w, nth_error bodies i = Some body /\ nth_error wits i = Some w /\
        sel (enc b) (l_body t) = enc body /\
        sel (enc b) (l_wit t) = enc w /\
        match body_outputs body with
        | Some (_, _, outs) =>
            length (l_outs t) = length outs /\
            forall m o, nth_error outs m = Some o -> exists r, nth_error (l_outs t) m = Some r /\ sel (enc b) r = enc o
        | None => l_outs t = []
        end /\
        (l_meta t = zero_range \/
         exists f kvs j fk k v, aux = Map f kvs /\ nth_error kvs j = Some (UInt fk k, v) /\
           (k mod 2 ^ 32)%N = N.of_nat i /\ sel (enc b) (l_meta t) = enc v).
Proof.
  intros s b Hw Hs Hl.
  destruct (extract_shelley s b Hw Hs Hl) as (f0 & h & f1 & bodies & f2 & wits & aux & rest & txs & E & Ex & Len & H).
  exists f0, h, f1, bodies, f2, wits, aux, rest, txs. repeat split; auto.
  intros i t Ht. destruct (H i t Ht) as (body & w & Hb & Hwi & Rb & Rw & Ho & Hm & _).
  exists body, w. repeat split; auto; try (apply range_is_slice; assumption).
  - destruct (body_outputs body) as [[[o fo] outs]|]; [|exact Ho]. destruct Ho as [Hlen Ho]. split; [exact Hlen|].
    intros m x Hx. destruct (Ho m x Hx) as (r & Hr & R). exists r. split; [exact Hr|]. apply range_is_slice. exact R.
  - destruct Hm as [Hz|(f & kvs & j & fk & k & v & Ea & Hn & Hk & R)]; [left; exact Hz|].
    right. exists f, kvs, j, fk, k, v. repeat split; auto. apply range_is_slice. exact R.
Qed.
Print Assumptions C07_offsets_exact.

(* C07_in_range: no reported body / witness / output / metadata range leaves the block *)
Theorem C07_in_range : forall streaming b txs,
  wf b -> size_ok b -> shelley_like (negb streaming) b = true ->
  extract_gen false streaming (enc b) = Done txs ->
  forall t, In t txs ->
    let ok r := fst r + snd r <= length (enc b) in
    ok (l_body t) /\ ok (l_wit t) /\ ok (l_meta t) /\ forall r, In r (l_outs t) -> ok r.
Proof.
  intros s b txs Hw Hs Hl Hex t Hin.
  destruct (extract_shelley s b Hw Hs Hl) as (f0 & h & f1 & bodies & f2 & wits & aux & rest & txs' & E & Ex & Len & H).
  rewrite Hex in Ex. injection Ex as <-. apply In_nth_error in Hin. destruct Hin as [i Hi].
  destruct (H i t Hi) as (body & w & Hb & Hwi & Rb & Rw & Ho & Hm & _).
  cbv zeta. split; [eapply range_is_in; eauto|]. split; [eapply range_is_in; eauto|]. split.
  - destruct Hm as [->|(f & kvs & j & fk & k & v & _ & _ & _ & R)]; [cbn; lia|eapply range_is_in; eauto].
  - intros r Hr. destruct (body_outputs body) as [[[o fo] outs]|]; [|rewrite Ho in Hr; destruct Hr].
    destruct Ho as [Hlen Ho]. apply In_nth_error in Hr. destruct Hr as [m Hm'].
    assert (Hlt : m < length outs) by (rewrite <- Hlen; apply nth_error_Some; congruence).
    destruct (nth_error outs m) as [x|] eqn:Ex; [|apply nth_error_None in Ex; lia].
    destruct (Ho m x Ex) as (r' & Hr' & R). rewrite Hm' in Hr'. injection Hr' as <-. eapply range_is_in; eauto.
Qed.
Print Assumptions C07_in_range.

(* C07_witness_components_exact: every datum / redeemer / script range that
   extractWitnessComponentOffsets reports for a witness set w located at `base`
   in B selects exactly the encoding of a component x of w of that kind
   (comp_in: a datum under key 4, the data of the redeemer with that
   (tag, index) under key 5 in list or map form, a script under key
   1/3/6/7/8 of the reported type), for every header form of the witness map,
   of the component arrays / the redeemer map and of everything nested, and
   through any tag wrappers (258 = set) around the datum and script arrays *)
Theorem C07_witness_components_exact : forall B base w,
  wf w -> size_ok w -> wit_shape w = true -> located B base w ->
  forall c, In c (witness_components (enc w) base) ->
    exists x, sel B (comp_range c) = enc x /\ fst (comp_range c) + snd (comp_range c) <= length B /\ comp_in w c x.
Proof.
  intros B base w Hw Hs Hsh HL c Hc. destruct (witness_components_exact B base w Hw Hs Hsh HL c Hc) as (x & R & Hin).
  exists x. split; [apply range_is_slice; exact R|]. split; [eapply range_is_in; eauto|exact Hin].
Qed.
Print Assumptions C07_witness_components_exact.

(* ... and in a block: the component entries of transaction i are those of witness set i *)
Theorem C07_block_witness_components_exact : forall streaming b,
  wf b -> size_ok b -> shelley_like (negb streaming) b = true ->
  exists f0 h f1 bodies f2 wits aux rest txs,
    b = Arr f0 (h :: Arr f1 bodies :: Arr f2 wits :: aux :: rest) /\
    extract_gen false streaming (enc b) = Done txs /\
    forall i t w, nth_error txs i = Some t -> nth_error wits i = Some w -> wit_shape w = true ->
      forall c, In c (l_comps t) -> exists x, sel (enc b) (comp_range c) = enc x /\ comp_in w c x.
Proof.
  intros s b Hw Hs Hl.
  destruct (extract_shelley s b Hw Hs Hl) as (f0 & h & f1 & bodies & f2 & wits & aux & rest & txs & E & Ex & Len & H).
  exists f0, h, f1, bodies, f2, wits, aux, rest, txs. repeat split; auto.
  intros i t w Ht Hwi Hsh c Hc. destruct (H i t Ht) as (body & w' & Hb & Hwi' & Rb & Rw & Ho & Hm & Hcomps).
  rewrite Hwi in Hwi'. injection Hwi' as <-. rewrite Hcomps in Hc. destruct Rw as [Lw _].
  assert (Hww : wf w).
  { subst b. apply (wf_children f2 wits i w); [|exact Hwi]. apply (wf_children f0 _ 2 _ Hw). reflexivity. }
  destruct (witness_components_exact (enc b) _ w Hww (size_ok_located _ _ _ Lw Hs) Hsh Lw c Hc) as (x & R & Hin).
  exists x. split; [apply range_is_slice; exact R|exact Hin].
Qed.
Print Assumptions C07_block_witness_components_exact.

(* C07_byron_offsets_exact: Byron main blocks
   [header, [[ [tx_body, tx_witnesses] .. ], ssc, dlg, upd], extra] with ANY
   header form on every array: both walkers recognise the layout, report one
   location per transaction pair, body / witness ranges select exactly
   enc tx_body / enc tx_witnesses, no metadata and no witness components are
   reported, and for a body [inputs, [out ..], ..] the output ranges are as
   many as the outputs and select exactly each enc out *)
Theorem C07_byron_offsets_exact : forall streaming b,
  wf b -> size_ok b -> byron_like b = true ->
  exists f0 h f1 fp pairs s1 s2 s3 extra txs,
    b = Arr f0 [h; Arr f1 [Arr fp pairs; s1; s2; s3]; extra] /\
    extract_gen false streaming (enc b) = Done txs /\ length txs = length pairs /\
    forall i t, nth_error txs i = Some t ->
      exists fq body w, nth_error pairs i = Some (Arr fq [body; w]) /\
        sel (enc b) (l_body t) = enc body /\ sel (enc b) (l_wit t) = enc w /\
        fst (l_body t) + snd (l_body t) <= length (enc b) /\ fst (l_wit t) + snd (l_wit t) <= length (enc b) /\
        l_meta t = zero_range /\ l_comps t = [] /\
        match byron_body_outputs body with
        | Some (_, _, outs) =>
            length (l_outs t) = length outs /\
            forall m o, nth_error outs m = Some o -> exists r, nth_error (l_outs t) m = Some r /\
              sel (enc b) r = enc o /\ fst r + snd r <= length (enc b)
        | None => True
        end.
Proof.
  intros s b Hw Hs Hl.
  destruct (extract_byron s b Hw Hs Hl) as (f0 & h & f1 & fp & pairs & s1 & s2 & s3 & extra & txs & E & Ex & Len & H).
  exists f0, h, f1, fp, pairs, s1, s2, s3, extra, txs. repeat split; auto.
  intros i t Ht. destruct (H i t Ht) as (fq & body & w & Hp & Rb & Rw & Hm & Hc & Ho).
  exists fq, body, w. repeat split; auto; try (apply range_is_slice; assumption); try (eapply range_is_in; eassumption).
  destruct (byron_body_outputs body) as [[[o fo] outs]|]; [|exact I]. destruct Ho as [Hlen Ho]. split; [exact Hlen|].
  intros m x Hx. destruct (Ho m x Hx) as (r & Hr & R). exists r. split; [exact Hr|].
  split; [apply range_is_slice; exact R|eapply range_is_in; exact R].
Qed.
Print Assumptions C07_byron_offsets_exact.

(* C07_ebb_nothing_reported: a Byron epoch boundary block
   [header, [stakeholder id ..], extra] (accepted by the era decoder, no
   transactions) yields no locations and no error, whatever the number of ids
   and of `extra` elements (with fixes/C07-ebb-no-transactions.patch; before it
   such a block was read as a Shelley layout: an error, or phantom locations) *)
Theorem C07_ebb_nothing_reported : forall streaming b,
  wf b -> ebb_like b = true -> extract_gen false streaming (enc b) = Done [].
Proof. exact extract_ebb. Qed.
Print Assumptions C07_ebb_nothing_reported.

(* non-vacuity for the component theorem: a Conway-style witness set with tag-258 sets *)
Example C07_components_nonvacuous :
  let w := Map (Some Fimm) [(UInt Fimm 1, Tag F2 258 (Arr (Some F1) [Arr (Some Fimm) [UInt Fimm 0; BStr Fimm [1%N; 2%N]]]));
                            (UInt Fimm 4, Tag F2 258 (Arr None [UInt F1 7; UInt Fimm 8]));
                            (UInt Fimm 5, Map (Some Fimm) [(Arr (Some Fimm) [UInt Fimm 0; UInt Fimm 3], Arr (Some Fimm) [UInt F2 9; Arr (Some Fimm) []])])] in
  wf w /\ wit_shape w = true /\
  map (fun c => sel (enc w) (comp_range c)) (witness_components (enc w) 0) =
    [enc (Arr (Some Fimm) [UInt Fimm 0; BStr Fimm [1%N; 2%N]]); enc (UInt F1 7); enc (UInt Fimm 8); enc (UInt F2 9)].
Proof. split; [vm_compute; repeat split; repeat constructor|]. split; vm_compute; reflexivity. Qed.

(* ---- the pinned tree: header size assumed from the element count ---- *)
(* a one-transaction block whose outer array header is 0x98 0x05 *)
Definition wit_block (f0 : option form) : item :=
  Arr f0 [UInt Fimm 0;
          Arr (Some Fimm) [Map (Some Fimm) [(UInt Fimm 0, Arr (Some Fimm) []);
                                             (UInt Fimm 1, Arr (Some Fimm) [Arr (Some Fimm) [UInt Fimm 7; UInt F4 5]])]];
          Arr (Some Fimm) [Map (Some Fimm) []];
          Map (Some Fimm) [(UInt Fimm 0, UInt Fimm 9)];
          Arr (Some Fimm) []].

Theorem C07_offsets_exact_refuted : exists b streaming txs t body,
  wf b /\ size_ok b /\ shelley_like (negb streaming) b = true /\
  extract_gen true streaming (enc b) = Done txs /\ nth_error txs 0 = Some t /\
  b = wit_block (Some F1) /\ body = Map (Some Fimm) [(UInt Fimm 0, Arr (Some Fimm) []);
                                             (UInt Fimm 1, Arr (Some Fimm) [Arr (Some Fimm) [UInt Fimm 7; UInt F4 5]])] /\
  sel (enc b) (l_body t) <> enc body /\
  (* the repaired walker on the same input *)
  exists txs' t', extract_gen false streaming (enc b) = Done txs' /\ nth_error txs' 0 = Some t' /\
                  sel (enc b) (l_body t') = enc body.
Proof.
  eexists (wit_block (Some F1)), true, _, _, _.
  split; [vm_compute; repeat split; repeat constructor|].
  split; [vm_compute; discriminate|].
  split; [vm_compute; reflexivity|].
  split; [vm_compute; reflexivity|].
  split; [reflexivity|]. split; [reflexivity|]. split; [reflexivity|].
  split; [vm_compute; discriminate|].
  eexists _, _. split; [vm_compute; reflexivity|]. split; [reflexivity|]. vm_compute. reflexivity.
Qed.
Print Assumptions C07_offsets_exact_refuted.

(* what the pinned tree does get right: minimal headers everywhere (partial) *)
Theorem C07_offsets_exact_partial_witness : forall streaming,
  let b := wit_block (Some Fimm) in
  exists txs t, extract_gen true streaming (enc b) = Done txs /\ nth_error txs 0 = Some t /\
    sel (enc b) (l_body t) = enc (Map (Some Fimm) [(UInt Fimm 0, Arr (Some Fimm) []);
                                             (UInt Fimm 1, Arr (Some Fimm) [Arr (Some Fimm) [UInt Fimm 7; UInt F4 5]])]).
Proof. intros [|]; eexists _, _; (split; [vm_compute; reflexivity|]); split; try reflexivity; vm_compute; reflexivity. Qed.

(* non-vacuity: the hypotheses of C07_offsets_exact hold for every form of the outer header *)
Example C07_nonvacuous : forall f0, In f0 [Some Fimm; Some F1; Some F2; Some F4; Some F8; None] ->
  wf (wit_block f0) /\ size_ok (wit_block f0) /\ shelley_like true (wit_block f0) = true /\
  exists txs t, extract_transaction_offsets (enc (wit_block f0)) = Done txs /\ nth_error txs 0 = Some t /\
    map (sel (enc (wit_block f0))) (l_outs t) = [enc (Arr (Some Fimm) [UInt Fimm 7; UInt F4 5])] /\
    sel (enc (wit_block f0)) (l_meta t) = enc (UInt Fimm 9).
Proof.
  intros f0 H. cbn [In] in H.
  repeat (destruct H as [<-|H];
    [split; [vm_compute; repeat split; repeat constructor|]; split; [vm_compute; discriminate|]; split; [reflexivity|];
     eexists _, _; split; [vm_compute; reflexivity|]; split; [reflexivity|]; split; vm_compute; reflexivity|]).
  destruct H.
Qed.
