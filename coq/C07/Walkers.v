(* C07 - the outputs and metadata walkers on encoded bodies / maps. *)
From V Require Import Lib.Base Lib.Cbor Lib.CborParse Lib.CborLemmas Lib.CborSpan Lib.CborProofs
  C07.Model C07.Basics C07.Scan.
Local Open Scope nat_scope.

Definition size_ok (x : item) : Prop := (N.of_nat (length (enc x)) <= 2147483647)%N.

Lemma size_ok_arr f xs : wf (Arr f xs) -> size_ok (Arr f xs) -> count_ok xs.
Proof. intros Hw Hs. unfold size_ok, count_ok in *. pose proof (arr_count_le f xs Hw). lia. Qed.
Lemma size_ok_map f kvs : wf (Map f kvs) -> size_ok (Map f kvs) -> count_ok kvs.
Proof. intros Hw Hs. unfold size_ok, count_ok in *. pose proof (map_count_le f kvs Hw). lia. Qed.
Lemma size_ok_located B o x : located B o x -> (N.of_nat (length B) <= 2147483647)%N -> size_ok x.
Proof. intros HL HB. pose proof (located_range _ _ _ HL). unfold size_ok. lia. Qed.

Lemma wf_kv_in f kvs k v : wf (Map f kvs) -> In (k, v) kvs -> wf k /\ wf v.
Proof.
  intros Hw Hin. apply wf_map in Hw. destruct Hw as [_ Hall]. rewrite Forall_forall in Hall.
  apply In_nth_error in Hin. destruct Hin as [j Hj]. destruct (unpair_nth kvs j k v Hj) as [Hk Hv].
  split; apply Hall; eapply nth_error_In; eauto.
Qed.

Lemma kv_no_break f kvs kv : wf (Map f kvs) -> In kv kvs -> no_break enc_kv kv.
Proof.
  intros Hw Hin. destruct kv as [k v]. destruct (wf_kv_in f kvs k v Hw Hin) as [Hk _].
  destruct (enc_first k Hk) as (b & t & E & Hb). exists b, (t ++ enc v). unfold enc_kv. cbn [fst snd].
  rewrite E. split; [reflexivity|exact Hb].
Qed.

(* ---- shapes ---- *)
Definition is_container (x : item) : bool := match x with Arr _ _ | Map _ _ => true | _ => false end.
Definition outs_shape (heur : bool) (v : item) : bool :=
  match v with Arr _ outs => negb heur || forallb is_container outs | _ => false end.
(* tx body: a map with unsigned-integer keys; every key 1 holds an array (of arrays / maps) *)
Definition body_shape (heur : bool) (body : item) : bool :=
  match body with
  | Map _ kvs => forallb (fun kv => match fst kv with UInt _ n => if (n =? 1)%N then outs_shape heur (snd kv) else true | _ => false end) kvs
  | _ => false
  end.
Definition uint_keys (m : item) : bool :=
  match m with Map _ kvs => forallb (fun kv => match fst kv with UInt _ _ => true | _ => false end) kvs | _ => false end.

(* ---- specification: where the outputs array of a body is (tree sizes only) ---- *)
Fixpoint find_out (pos : nat) (kvs : list (item * item)) : option (nat * option form * list item) :=
  match kvs with
  | [] => None
  | (k, v) :: r =>
      match k with
      | UInt _ n => if (n =? 1)%N then match v with Arr fo outs => Some (pos + length (enc k), fo, outs) | _ => None end
                    else find_out (pos + length (enc k) + length (enc v)) r
      | _ => None
      end
  end.
Definition body_outputs (body : item) : option (nat * option form * list item) :=
  match body with Map fb kvs => find_out (hdr_size fb) kvs | _ => None end.

Definition other_key (kv : item * item) : Prop := exists fk n, fst kv = UInt fk n /\ n <> 1%N.

Lemma find_out_split : forall kvs pos o fo outs, find_out pos kvs = Some (o, fo, outs) ->
  exists pre fk post, kvs = pre ++ (UInt fk 1, Arr fo outs) :: post /\ Forall other_key pre /\
    o = pos + length (flat_map enc_kv pre) + length (enc (UInt fk 1)).
Proof.
  induction kvs as [|[k v] r IH]; intros pos o fo outs H; cbn [find_out] in H; [discriminate|].
  destruct k as [fk n| | | | | | | | | | ]; try discriminate.
  destruct (N.eqb_spec n 1) as [->|Hn].
  - destruct v as [| | | | | |fo' outs'| | | | ]; try discriminate. injection H as <- <- <-.
    exists [], fk, r. cbn. repeat split; [constructor|lia].
  - apply IH in H. destruct H as (pre & fk' & post & -> & Hpre & ->).
    exists ((UInt fk n, v) :: pre), fk', post. repeat split.
    + constructor; [exists fk, n; auto|exact Hpre].
    + cbn [flat_map]. rewrite app_length. change (enc_kv (UInt fk n, v)) with (enc (UInt fk n) ++ enc v). rewrite app_length. lia.
Qed.

Lemma find_out_none heur : forall kvs pos, find_out pos kvs = None ->
  forallb (fun kv => match fst kv with UInt _ n => if (n =? 1)%N then outs_shape heur (snd kv) else true | _ => false end) kvs = true ->
  Forall other_key kvs.
Proof.
  induction kvs as [|[k v] r IH]; intros pos H Hs; [constructor|].
  cbn [find_out] in H. cbn [forallb fst snd] in Hs. apply andb_true_iff in Hs. destruct Hs as [Hs1 Hs2].
  destruct k as [fk n| | | | | | | | | | ]; try discriminate.
  destruct (N.eqb_spec n 1) as [->|Hn].
  - destruct v; try discriminate.
  - constructor; [exists fk, n; auto|]. eapply IH; eauto.
Qed.

(* ---- the walkers' steps on one encoded entry ---- *)
Lemma outputs_step_other a i h body off hs p k v more : wf k -> wf v -> other_key (k, v) ->
  outputs_step a i h body off hs p (enc_kv (k, v) ++ more) = Next [] (length (enc_kv (k, v))) more.
Proof.
  intros Hk Hv (fk & n & E & Hn). cbn [fst] in E. subst k. unfold enc_kv. cbn [fst snd]. rewrite <- app_assoc.
  unfold outputs_step. rewrite sd_uint_enc by exact Hk. destruct (N.eqb_spec n 1); [contradiction|].
  rewrite sd_skip_enc by exact Hv. rewrite app_length. reflexivity.
Qed.

(* no adjustment when an array or a map starts at idx *)
Lemma container_first o : wf o -> is_container o = true -> exists b t, enc o = b :: t /\ valid_output_start b = true.
Proof.
  assert (G : forall mt f n tail, fits f n -> (mt = 4 \/ mt = 5)%N ->
            exists b t, enc_head mt f n ++ tail = b :: t /\ valid_output_start b = true).
  { intros mt f n tail Hf Hm. unfold enc_head. cbn [app]. eexists _, _. split; [reflexivity|].
    pose proof (ai_lt f n Hf). unfold valid_output_start. lia. }
  intros Hw Hc. destruct o as [| | | | | |[f|] xs|[f|] kvs| | | ]; try discriminate.
  - apply wf_arr in Hw. rewrite enc_arr_def. apply G; [apply Hw|lia].
  - rewrite enc_arr_indef. eexists _, _. split; reflexivity.
  - apply wf_map in Hw. rewrite enc_map_def. apply G; [apply Hw|lia].
  - rewrite enc_map_indef. eexists _, _. split; reflexivity.
Qed.

Lemma adjust_located body idx o : located body idx o -> wf o -> is_container o = true -> adjust body idx = idx.
Proof.
  intros (pre & post & -> & <-) Hw Hc. destruct (container_first o Hw Hc) as (b & t & E & Hv).
  unfold adjust. rewrite nth_error_app2 by lia. rewrite Nat.sub_diag, E. cbn [app nth_error]. rewrite Hv. reflexivity.
Qed.

Lemma walk_adjust_walk heur body off : forall outs pos, off <= pos ->
  (heur = true -> forall m o, nth_error outs m = Some o ->
     adjust body (pos + length (flat_map enc (firstn m outs)) - off) = pos + length (flat_map enc (firstn m outs)) - off) ->
  walk_adjust heur body off pos (map enc outs) = walk pos (map enc outs).
Proof.
  induction outs as [|o r IH]; intros pos Hle Hadj; [reflexivity|]. cbn [map walk_adjust walk]. f_equal.
  - destruct heur; [|reflexivity]. specialize (Hadj eq_refl 0 o eq_refl). cbn in Hadj. rewrite Nat.add_0_r in Hadj.
    rewrite Hadj. f_equal. lia.
  - apply IH; [lia|]. intros Hh m x Hm. specialize (Hadj Hh (S m) x Hm). cbn [firstn flat_map] in Hadj.
    rewrite app_length in Hadj. rewrite <- Nat.add_assoc. exact Hadj.
Qed.

Lemma forallb_nth {A} (p : A -> bool) l j x : forallb p l = true -> nth_error l j = Some x -> p x = true.
Proof. intros H Hn. rewrite forallb_forall in H. apply H. eapply nth_error_In; eauto. Qed.

Lemma spec_run_nil {U E} (encu : U -> bytes) us : forall n, spec_run (E:=E) encu (fun _ _ => []) n us = [].
Proof. induction us as [|u r IH]; intros n; [reflexivity|]. cbn [spec_run app]. apply IH. Qed.

(* ---- extractOutputOffsets on an encoded body ---- *)
Theorem output_offsets_spec ind heur body off : wf body -> size_ok body -> body_shape heur body = true ->
  match body_outputs body with
  | Some (o, fo, outs) =>
      located (enc body) o (Arr fo outs) /\
      output_offsets false ind heur (enc body) off = walk (off + o + hdr_size fo) (map enc outs)
  | None => output_offsets false ind heur (enc body) off = []
  end.
Proof.
  intros Hw Hsz Hsh. destruct body as [| | | | | | |fb kvs| | | ]; try discriminate.
  cbn [body_outputs body_shape] in *. pose proof (size_ok_map _ _ Hw Hsz) as Hcnt.
  destruct (find_out (hdr_size fb) kvs) as [[[o fo] outs]|] eqn:Efo.
  - destruct (find_out_split _ _ _ _ _ Efo) as (pre & fk & post & -> & Hpre & ->).
    set (kvs := pre ++ (UInt fk 1, Arr fo outs) :: post) in *.
    assert (Hin : In (UInt fk 1, Arr fo outs) kvs) by (apply in_elt).
    destruct (wf_kv_in _ _ _ _ Hw Hin) as [Hwk Hwv].
    assert (Hnth : nth_error kvs (length pre) = Some (UInt fk 1, Arr fo outs)).
    { unfold kvs. rewrite nth_error_app2 by lia. rewrite Nat.sub_diag. reflexivity. }
    assert (Hloc : located (enc (Map fb kvs)) (hdr_size fb + length (flat_map enc_kv pre) + length (enc (UInt fk 1))) (Arr fo outs)).
    { pose proof (located_map_value _ 0 fb kvs (length pre) _ _ (located_self _) Hnth) as L.
      unfold entry_off in L. unfold kvs in L at 2. rewrite firstn_app, firstn_all, Nat.sub_diag in L.
      cbn [firstn] in L. rewrite app_nil_r in L. cbn [Nat.add] in L. exact L. }
    split; [exact Hloc|].
    unfold output_offsets.
    assert (Hlen : 2 <= length (enc (Map fb kvs))).
    { pose proof (located_range _ _ _ Hloc). pose proof (hdr_size_pos fb). pose proof (enc_nonempty _ Hwk). lia. }
    destruct (Nat.ltb_spec (length (enc (Map fb kvs))) 2); [lia|].
    rewrite run_scan_map by assumption. unfold kvs at 4.
    rewrite (scan_stop enc_kv _ (fun _ _ => []) pre (UInt fk 1, Arr fo outs) post
               (walk (off + (hdr_size fb + length (flat_map enc_kv pre) + length (enc (UInt fk 1))) + hdr_size fo) (map enc outs))).
    + rewrite spec_run_nil. reflexivity.
    + intros [k v] p more Hinp.
      assert (Hin' : In (k, v) kvs) by (unfold kvs; apply in_or_app; left; exact Hinp).
      destruct (wf_kv_in _ _ _ _ Hw Hin') as [Hk Hv]. rewrite Forall_forall in Hpre.
      apply outputs_step_other; auto.
    + intros v Hinp. eapply kv_no_break; [exact Hw|]. unfold kvs. apply in_or_app. left. exact Hinp.
    + eapply kv_no_break; [exact Hw|exact Hin].
    + (* the step at key 1 *)
      unfold enc_kv at 2. cbn [fst snd]. rewrite <- app_assoc. unfold outputs_step.
      rewrite sd_uint_enc by exact Hwk. rewrite N.eqb_refl.
      rewrite dec_raw_list_enc by exact Hwv. rewrite map_length.
      assert (Hco : count_ok outs).
      { apply (size_ok_arr fo outs Hwv). eapply size_ok_located; [exact Hloc|exact Hsz]. }
      rewrite hdr_at_fixed by assumption. f_equal.
      cbn [Nat.add].
      replace (off + hdr_size fb + (length (flat_map enc_kv pre) + length (enc (UInt fk 1))))
        with (off + (hdr_size fb + length (flat_map enc_kv pre) + length (enc (UInt fk 1)))) by lia.
      apply walk_adjust_walk; [lia|].
      intros Hh m x Hm.
      set (o := hdr_size fb + length (flat_map enc_kv pre) + length (enc (UInt fk 1))) in *.
      replace (off + o + hdr_size fo + length (flat_map enc (firstn m outs)) - off) with (o + child_off fo outs m)
        by (unfold child_off; lia).
      apply (adjust_located _ _ x).
      * eapply located_arr_child; eauto.
      * apply wf_arr in Hwv. destruct Hwv as [_ Hall]. rewrite Forall_forall in Hall. apply Hall. eapply nth_error_In; eauto.
      * pose proof (forallb_nth _ _ _ _ Hsh Hnth) as Hs1. cbn [fst snd] in Hs1. rewrite N.eqb_refl in Hs1.
        cbn [outs_shape] in Hs1. rewrite Hh in Hs1. cbn [negb orb] in Hs1. eapply forallb_nth; eauto.
    + intros Hi. rewrite (end_count fb kvs Hi). unfold kvs. rewrite app_length. cbn [length]. lia.
    + pose proof (map_count_le fb kvs Hw). unfold kvs in H0 at 1. rewrite app_length in H0. cbn [length] in H0. lia.
  - pose proof (find_out_none heur _ _ Efo Hsh) as Hall.
    unfold output_offsets. destruct (Nat.ltb_spec (length (enc (Map fb kvs))) 2); [reflexivity|].
    rewrite run_scan_map by assumption.
    rewrite (scan_all enc_kv _ (fun _ _ => [])).
    + apply spec_run_nil.
    + intros [k v] p more Hin. destruct (wf_kv_in _ _ _ _ Hw Hin) as [Hk Hv]. rewrite Forall_forall in Hall.
      apply outputs_step_other; auto.
    + intros v Hin. eapply kv_no_break; eauto.
    + apply end_break.
    + apply end_count.
    + pose proof (map_count_le fb kvs Hw). lia.
Qed.
