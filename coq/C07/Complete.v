(* C07 - completeness of the witness-component walkers: every datum, redeemer and
   script of a witness set is reported, once, in the order of the encoding. *)
From V Require Import Lib.Base Lib.Cbor Lib.CborParse Lib.CborLemmas Lib.CborSpan Lib.CborProofs
  C07.Model C07.Basics C07.Scan C07.Walkers C07.Top C07.Components.
Local Open Scope nat_scope.

(* ---- specification: the components of a witness-set tree, in encoding order ---- *)
Inductive ckind := KDatum | KRedeemer (k : redeemer_key) | KScript (ty : N).
Definition comp_kind (c : comp) : ckind :=
  match c with CDatum _ => KDatum | CRedeemer k _ => KRedeemer k | CScript ty _ => KScript ty end.

Definition arr_elems (x : item) : list item := match x with Arr _ xs => xs | _ => [] end.
Definition red_item (o : option (N * N * nat * item)) : list (ckind * item) :=
  match o with Some (p, i, _, x) => [(KRedeemer (mk_key p i), x)] | None => [] end.
(* redeemers: Alonzo list [[tag, index, data, ex_units] ..] or Conway map {[tag, index]: [data, ex_units]} *)
Definition red_items (v : item) : list (ckind * item) :=
  match v with
  | Arr _ rs => flat_map (fun r => red_item (red_elem r)) rs
  | Map _ es => flat_map (fun e => red_item (red_entry e)) es
  | _ => []
  end.
Definition entry_items (kv : item * item) : list (ckind * item) :=
  match fst kv with
  | UInt _ key =>
      if (key =? 4)%N then map (pair KDatum) (arr_elems (strip_tags (snd kv)))
      else if (key =? 5)%N then red_items (snd kv)
      else match script_type key with
           | Some ty => map (pair (KScript ty)) (arr_elems (strip_tags (snd kv)))
           | None => []
           end
  | _ => []
  end.
Definition wit_items (w : item) : list (ckind * item) :=
  match w with Map _ kvs => flat_map entry_items kvs | _ => [] end.

(* entry c of the walker's result stands for component kx *)
Definition reports (B : bytes) (c : comp) (kx : ckind * item) : Prop :=
  comp_kind c = fst kx /\ range_is B (comp_range c) (snd kx).

(* ---- generic: the loop's record list against a per-element specification ---- *)
Lemma spec_run_Forall2 {U E X} (encu : U -> bytes) (spec : nat -> U -> list E) (items : U -> list X)
    (R : E -> X -> Prop) : forall us pos,
  (forall j u, nth_error us j = Some u -> Forall2 R (spec (pos + length (flat_map encu (firstn j us))) u) (items u)) ->
  Forall2 R (spec_run encu spec pos us) (flat_map items us).
Proof.
  induction us as [|a r IH]; intros pos H; cbn [spec_run flat_map]; [constructor|].
  apply Forall2_app.
  - specialize (H 0 a eq_refl). cbn [firstn flat_map length] in H. rewrite Nat.add_0_r in H. exact H.
  - apply IH. intros j u Hj. specialize (H (S j) u Hj). cbn [firstn flat_map] in H.
    rewrite app_length, Nat.add_assoc in H. exact H.
Qed.

Lemma spec_run_single_Forall2 {U E} (encu : U -> bytes) (g : nat -> U -> E) (R : E -> U -> Prop) : forall us pos,
  (forall j u, nth_error us j = Some u -> R (g (pos + length (flat_map encu (firstn j us))) u) u) ->
  Forall2 R (spec_run encu (fun p u => [g p u]) pos us) us.
Proof.
  induction us as [|a r IH]; intros pos H; cbn [spec_run app]; constructor.
  - specialize (H 0 a eq_refl). cbn [firstn flat_map length] in H. rewrite Nat.add_0_r in H. exact H.
  - apply IH. intros j u Hj. specialize (H (S j) u Hj). cbn [firstn flat_map] in H.
    rewrite app_length, Nat.add_assoc in H. exact H.
Qed.

Lemma Forall2_map_l {A A' X} (f : A -> A') (R : A' -> X -> Prop) l l' :
  Forall2 (fun a b => R (f a) b) l l' -> Forall2 R (map f l) l'.
Proof. induction 1; cbn [map]; constructor; auto. Qed.
Lemma Forall2_map_r {A X X'} (f : X -> X') (R : A -> X' -> Prop) l l' :
  Forall2 (fun a b => R a (f b)) l l' -> Forall2 R l (map f l').
Proof. induction 1; cbn [map]; constructor; auto. Qed.

Lemma Forall2_weaken {A X} (R R' : A -> X -> Prop) l l' :
  (forall a x, R a x -> R' a x) -> Forall2 R l l' -> Forall2 R' l l'.
Proof. intros HR. induction 1; constructor; auto. Qed.

Lemma walk_Forall2 B : forall ss pos,
  (forall m x, nth_error ss m = Some x -> located B (pos + length (flat_map enc (firstn m ss))) x) ->
  Forall2 (range_is B) (walk pos (map enc ss)) ss.
Proof.
  induction ss as [|a r IH]; intros pos H; cbn [map walk]; constructor.
  - specialize (H 0 a eq_refl). cbn [firstn flat_map length] in H. rewrite Nat.add_0_r in H. split; [exact H|reflexivity].
  - apply IH. intros m x Hm. specialize (H (S m) x Hm). cbn [firstn flat_map] in H.
    rewrite app_length, Nat.add_assoc in H. exact H.
Qed.

(* ---- entry_items by key ---- *)
Lemma entry_items_datum fk v : entry_items (UInt fk 4, v) = map (pair KDatum) (arr_elems (strip_tags v)).
Proof. reflexivity. Qed.
Lemma entry_items_red fk v : entry_items (UInt fk 5, v) = red_items v.
Proof. reflexivity. Qed.
Lemma script_type_not45 key ty : script_type key = Some ty -> key <> 4%N /\ key <> 5%N.
Proof. intros H. split; intros ->; discriminate. Qed.
Lemma entry_items_script fk key v ty : script_type key = Some ty ->
  entry_items (UInt fk key, v) = map (pair (KScript ty)) (arr_elems (strip_tags v)).
Proof.
  intros H. destruct (script_type_not45 key ty H) as [N4 N5]. unfold entry_items. cbn [fst snd].
  destruct (N.eqb_spec key 4); [contradiction|]. destruct (N.eqb_spec key 5); [contradiction|]. rewrite H. reflexivity.
Qed.
Lemma entry_items_other fk key v : key <> 4%N -> key <> 5%N -> script_type key = None -> entry_items (UInt fk key, v) = [].
Proof.
  intros N4 N5 H. unfold entry_items. cbn [fst snd].
  destruct (N.eqb_spec key 4); [contradiction|]. destruct (N.eqb_spec key 5); [contradiction|]. rewrite H. reflexivity.
Qed.

(* ---- extractWitnessComponentOffsets reports exactly the components of the tree ---- *)
Theorem witness_components_complete B base w : wf w -> size_ok w -> wit_shape w = true -> located B base w ->
  Forall2 (reports B) (witness_components (enc w) base) (wit_items w).
Proof.
  intros Hw Hsz Hsh HL. pose proof (uint_keys_of_shape w Hsh) as Hk.
  destruct w as [| | | | | | |f kvs| | | ]; try discriminate.
  rewrite (witness_components_spec f kvs base Hw Hsz Hk). cbn [wit_items].
  apply spec_run_Forall2. intros j [k v] Hj.
  cbn [wit_shape] in Hsh. pose proof (forallb_nth _ _ _ _ Hsh Hj) as Hs1. cbn [fst snd] in Hs1.
  destruct k as [fk key| | | | | | | | | | ]; try discriminate.
  assert (Hin : In (UInt fk key, v) kvs) by (eapply nth_error_In; eauto).
  destruct (wf_kv_in _ _ _ _ Hw Hin) as [Hwk Hwv].
  set (abs := base + (entry_off f kvs j + length (enc (UInt fk key)))).
  assert (Lv : located B abs v) by (apply (located_map_value B base f kvs j _ v HL Hj)).
  assert (Sv : size_ok v) by (eapply size_ok_located; [apply (located_map_value _ 0 f kvs j _ v (located_self _) Hj)|exact Hsz]).
  unfold wit_spec. cbn [fst snd].
  assert (Eabs : base + hdr_size f + (0 + length (flat_map enc_kv (firstn j kvs)) + length (enc (UInt fk key))) = abs)
    by (unfold abs, entry_off; lia).
  rewrite Eabs. clear Eabs.
  assert (Larr : forall fa xs m x, strip_tags v = Arr fa xs -> nth_error xs m = Some x ->
            located B (abs + (tag_size v + hdr_size fa) + length (flat_map enc (firstn m xs))) x).
  { intros fa xs m x Es Hm. pose proof (located_trans _ _ _ _ _ Lv (located_strip v)) as L1. rewrite Es in L1.
    pose proof (located_arr_child _ _ _ _ _ _ L1 Hm) as L2. unfold child_off in L2.
    eapply located_eq; [|exact L2]. lia. }
  assert (Scripts : forall ty, script_type key = Some ty ->
            Forall2 (reports B) (map (CScript ty) (script_offsets (enc v) abs)) (entry_items (UInt fk key, v))).
  { intros ty Hty. rewrite (entry_items_script fk key v ty Hty).
    destruct (script_type_not45 key ty Hty) as [N4 N5].
    assert (Ha : is_arr (strip_tags v) = true).
    { revert Hs1. destruct (N.eqb_spec key 4); [contradiction|]. destruct (N.eqb_spec key 5); [contradiction|].
      rewrite Hty. auto. }
    destruct (strip_tags v) as [| | | | | |fa ss| | | | ] eqn:Es; try discriminate. cbn [arr_elems].
    rewrite (script_offsets_spec v abs fa ss Hwv Sv Es).
    apply Forall2_map_l, Forall2_map_r. unfold reports. cbn [comp_kind comp_range fst snd].
    eapply Forall2_weaken; [|apply (walk_Forall2 B ss (abs + (tag_size v + hdr_size fa)))].
    - intros r x Hr. split; [reflexivity|exact Hr].
    - intros m x Hm. apply (Larr fa ss m x eq_refl Hm). }
  destruct (N.eqb_spec key 4) as [->|N4].
  { (* datums *)
    rewrite entry_items_datum.
    destruct (strip_tags v) as [| | | | | |fa ds| | | | ] eqn:Es; try discriminate. cbn [arr_elems].
    rewrite (datum_offsets_spec v abs fa ds Hwv Sv Es).
    apply Forall2_map_l, Forall2_map_r.
    apply (spec_run_single_Forall2 enc (fun p x => (abs + tag_size v + hdr_size fa + p, length (enc x)))).
    intros m x Hm. split; [reflexivity|]. cbn [comp_range snd fst]. split; [|reflexivity]. cbn [fst].
    eapply located_eq; [|apply (Larr fa ds m x eq_refl Hm)]. lia. }
  destruct (N.eqb_spec key 5) as [->|N5].
  { (* redeemers *)
    rewrite entry_items_red. apply Forall2_map_l.
    apply orb_true_iff in Hs1. destruct Hs1 as [Ha|Hm].
    - destruct v as [| | | | | |fa rs| | | | ]; try discriminate.
      rewrite (redeemer_offsets_arr fa rs abs Hwv Sv Ha). cbn [red_items].
      apply spec_run_Forall2. intros m e Hme. unfold red_arr_spec.
      destruct (red_elem e) as [[[[p i] o] x]|] eqn:Ee; cbn [red_item]; [|constructor].
      constructor; [|constructor]. split; [reflexivity|]. cbn [fst snd comp_range]. split; [|reflexivity]. cbn [fst].
      pose proof (located_arr_child _ _ _ _ _ _ Lv Hme) as Le.
      destruct e as [| | | | | |fr xs| | | | ]; try discriminate.
      destruct xs as [|[fp p'| | | | | | | | | | ] [|[fi i'| | | | | | | | | | ] [|x' rest]]]; try discriminate.
      cbn [red_elem] in Ee. remember (length (enc (UInt fp p'))) as lp. remember (length (enc (UInt fi i'))) as li.
      injection Ee as <- <- <- <-.
      pose proof (located_arr_child _ _ fr _ 2 x' Le eq_refl) as Lx. unfold child_off in *. cbn [firstn flat_map] in Lx.
      rewrite !app_length in Lx. cbn [length] in Lx. eapply located_eq; [|exact Lx]. subst lp li. lia.
    - destruct v as [| | | | | | |fa es| | | ]; try discriminate.
      rewrite (redeemer_offsets_map fa es abs Hwv Sv Hm). cbn [red_items].
      apply spec_run_Forall2. intros m e Hme. unfold red_map_spec.
      destruct (red_entry e) as [[[[p i] o] x]|] eqn:Ee; cbn [red_item]; [|constructor].
      constructor; [|constructor]. split; [reflexivity|]. cbn [fst snd comp_range]. split; [|reflexivity]. cbn [fst].
      destruct e as [k' v'].
      pose proof (located_map_value _ _ _ _ _ _ _ Lv Hme) as Le.
      destruct k' as [| | | | | |fk' ks| | | | ]; try discriminate.
      destruct ks as [|[fp p'| | | | | | | | | | ] [|[fi i'| | | | | | | | | | ] [|? ?]]]; try discriminate.
      destruct v' as [| | | | | |fv vs| | | | ]; try discriminate. destruct vs as [|x' vrest]; try discriminate.
      cbn [red_entry] in Ee. remember (length (enc (Arr fk' [UInt fp p'; UInt fi i']))) as lk.
      injection Ee as <- <- <- <-.
      pose proof (located_arr_child _ _ fv _ 0 x' Le eq_refl) as Lx. unfold child_off, entry_off in *. cbn [firstn flat_map length] in Lx.
      eapply located_eq; [|exact Lx]. subst lk. lia. }
  (* scripts *)
  destruct (N.eqb_spec key 1) as [->|N1]; [apply (Scripts 0%N eq_refl)|].
  destruct (N.eqb_spec key 3) as [->|N3]; [apply (Scripts 1%N eq_refl)|].
  destruct (N.eqb_spec key 6) as [->|N6]; [apply (Scripts 2%N eq_refl)|].
  destruct (N.eqb_spec key 7) as [->|N7]; [apply (Scripts 3%N eq_refl)|].
  destruct (N.eqb_spec key 8) as [->|N8]; [apply (Scripts 4%N eq_refl)|].
  rewrite entry_items_other; [constructor|assumption|assumption|].
  unfold script_type.
  destruct (N.eqb_spec key 1); [contradiction|]. destruct (N.eqb_spec key 3); [contradiction|].
  destruct (N.eqb_spec key 6); [contradiction|]. destruct (N.eqb_spec key 7); [contradiction|].
  destruct (N.eqb_spec key 8); [contradiction|]. reflexivity.
Qed.

(* ---- wit_items lists every component in the sense of comp_in (the vocabulary of the exactness theorem) ---- *)
Lemma in_red_item o p i off x : o = Some (p, i, off, x) -> In (KRedeemer (mk_key p i), x) (red_item o).
Proof. intros ->. left. reflexivity. Qed.

Lemma comp_in_items w c x : comp_in w c x -> In (comp_kind c, x) (wit_items w).
Proof.
  intros (f & kvs & j & fk & key & v & -> & Hj & Hc). cbn [wit_items]. apply in_flat_map.
  exists (UInt fk key, v). split; [eapply nth_error_In; eauto|].
  destruct c as [r|rk r|ty r]; cbn [comp_kind].
  - destruct Hc as (-> & fa & ds & Es & Hin). rewrite entry_items_datum, Es. cbn [arr_elems]. apply in_map. exact Hin.
  - destruct Hc as (-> & [(fa & rs & e & p & i & o & -> & Hin & He & ->)|(fa & es & e & p & i & o & -> & Hin & He & ->)]);
      rewrite entry_items_red; cbn [red_items]; apply in_flat_map; exists e; (split; [exact Hin|]);
      eapply in_red_item; eauto.
  - destruct Hc as (Hty & fa & ss & Es & Hin). rewrite (entry_items_script fk key v ty Hty), Es. cbn [arr_elems].
    apply in_map. exact Hin.
Qed.

(* no element of a redeemer list / map is left out of wit_items *)
Lemma red_items_length v : red_arr_shape v = true \/ red_map_shape v = true ->
  length (red_items v) = match v with Arr _ rs => length rs | Map _ es => length es | _ => 0 end.
Proof.
  assert (G : forall {A} (g : A -> option (N * N * nat * item)) l,
            forallb (fun a => match g a with Some _ => true | None => false end) l = true ->
            length (flat_map (fun a => red_item (g a)) l) = length l).
  { intros A g l. induction l as [|a r IH]; intros H; [reflexivity|]. cbn [forallb] in H. apply andb_true_iff in H.
    destruct H as [Ha Hr]. cbn [flat_map]. rewrite app_length, (IH Hr).
    destruct (g a) as [[[[p i] o] x]|]; [reflexivity|discriminate]. }
  intros [H|H]; destruct v; try discriminate; cbn [red_items]; apply G; exact H.
Qed.

(* ---- the three reported maps, as ordered lists ---- *)
Definition datum_ranges (cs : list comp) : list range :=
  flat_map (fun c => match c with CDatum r => [r] | _ => [] end) cs.
Definition redeemer_ranges (cs : list comp) : list (redeemer_key * range) :=
  flat_map (fun c => match c with CRedeemer k r => [(k, r)] | _ => [] end) cs.
Definition script_ranges (cs : list comp) : list (N * range) :=
  flat_map (fun c => match c with CScript ty r => [(ty, r)] | _ => [] end) cs.
Definition items_datums (l : list (ckind * item)) : list item :=
  flat_map (fun kx => match fst kx with KDatum => [snd kx] | _ => [] end) l.
Definition items_redeemers (l : list (ckind * item)) : list (redeemer_key * item) :=
  flat_map (fun kx => match fst kx with KRedeemer k => [(k, snd kx)] | _ => [] end) l.
Definition items_scripts (l : list (ckind * item)) : list (N * item) :=
  flat_map (fun kx => match fst kx with KScript ty => [(ty, snd kx)] | _ => [] end) l.

Lemma reports_split B cs l : Forall2 (reports B) cs l ->
  Forall2 (range_is B) (datum_ranges cs) (items_datums l) /\
  Forall2 (fun kr kx => fst kr = fst kx /\ range_is B (snd kr) (snd kx)) (redeemer_ranges cs) (items_redeemers l) /\
  Forall2 (fun tr tx => fst tr = fst tx /\ range_is B (snd tr) (snd tx)) (script_ranges cs) (items_scripts l).
Proof.
  induction 1 as [|c [k x] cs l [Hk Hr] _ (I1 & I2 & I3)]; [repeat split; constructor|].
  cbn [fst snd] in Hk, Hr.
  destruct c as [r|rk r|ty r]; cbn [comp_kind] in Hk; subst k; cbn [comp_range] in Hr;
    cbn [datum_ranges redeemer_ranges script_ranges items_datums items_redeemers items_scripts flat_map fst snd app];
    repeat split; auto; constructor; auto.
Qed.

Lemma Forall2_length' {A X} (R : A -> X -> Prop) l l' : Forall2 R l l' -> length l = length l'.
Proof. induction 1; cbn [length]; congruence. Qed.

Lemma Forall2_maps {A X Y} (R : A -> X -> Prop) (f : A -> Y) (g : X -> Y) l l' :
  Forall2 R l l' -> (forall a x, R a x -> f a = g x) -> map f l = map g l'.
Proof. intros H HR. induction H; cbn [map]; [reflexivity|]. f_equal; auto. Qed.
