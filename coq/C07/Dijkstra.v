(* C07 - Dijkstra blocks (non-streaming walker extractDijkstraTransactionOffsets):
   [header, [invalid/nil, [[body, witness_set, aux/nil] ..], leios/nil, peras/nil]]. *)
From V Require Import Lib.Base Lib.Cbor Lib.CborParse Lib.CborLemmas Lib.CborSpan Lib.CborProofs
  C07.Model C07.Basics C07.Scan C07.Walkers C07.Top C07.Components C07.Byron.
Local Open Scope nat_scope.

(* CBOR null (0xf6): "no auxiliary data" *)
Definition is_null (x : item) : bool := match x with Simple Fimm v => (v =? 22)%N | _ => false end.

Lemma null_enc x : wf x -> (enc x = [246%N] <-> is_null x = true).
Proof.
  intros Hw. split.
  - intros E. assert (W : wf (Simple Fimm 22)) by (cbn; lia).
    destruct (enc_inj x (Simple Fimm 22) [] [] Hw W) as [-> _]; [rewrite !app_nil_r; exact E|reflexivity].
  - destruct x as [| | | | | | | | |f v| ]; try discriminate. destruct f; try discriminate.
    cbn [is_null]. intros H. apply N.eqb_eq in H. subst v. reflexivity.
Qed.

Lemma not_null_match (a : bytes) (z r : range) : a <> [246%N] ->
  match a with [246%N] => z | _ => r end = r.
Proof.
  intros Hn. destruct a as [|b [|c t]]; try reflexivity.
  - destruct b as [|p]; [reflexivity|].
    repeat (destruct p as [p|p|]; try reflexivity). exfalso. apply Hn. reflexivity.
  - destruct b as [|p]; [reflexivity|]. repeat (destruct p as [p|p|]; try reflexivity).
Qed.

Lemma firstn_exact {A} (a b : list A) : firstn (length a) (a ++ b) = a.
Proof. rewrite firstn_app, firstn_all, Nat.sub_diag. cbn [firstn]. apply app_nil_r. Qed.

(* the element-count test on cborArrayInfo results *)
Lemma info_ok_arr f xs n : wf (Arr f xs) -> count_ok xs -> N.of_nat (length xs) = n ->
  info_ok (enc (Arr f xs)) n = Some (hdr_size f).
Proof.
  intros Hw Hc Hn. unfold info_ok, cbor_array_info. rewrite <- (app_nil_r (enc _)). rewrite cbor_info_arr by assumption.
  destruct f as [fm|]; cbn [is_indef cnt_of negb andb]; [|reflexivity]. rewrite Hn, N.eqb_refl. reflexivity.
Qed.

(* shapes: every transaction is [body, witness_set, aux] with a body the outputs walker reads *)
Definition dtx_shape (tx : item) : bool := match tx with Arr _ [body; _; _] => body_shape true body | _ => false end.
Definition dijkstra_like (b : item) : bool :=
  match b with Arr _ [_; Arr _ [_; Arr _ txs; _; _]] => forallb dtx_shape txs | _ => false end.

Definition dijkstra_tx_located (B : bytes) (txs : list item) (i : nat) (t : txloc) : Prop :=
  exists fq body w aux, nth_error txs i = Some (Arr fq [body; w; aux]) /\
    range_is B (l_body t) body /\ range_is B (l_wit t) w /\
    (if is_null aux then l_meta t = zero_range else range_is B (l_meta t) aux) /\
    match body_outputs body with
    | Some (_, _, outs) =>
        length (l_outs t) = length outs /\
        forall m o, nth_error outs m = Some o -> exists r, nth_error (l_outs t) m = Some r /\ range_is B r o
    | None => l_outs t = []
    end /\
    l_comps t = witness_components (enc w) (fst (l_wit t)).

(* the loop over the transactions of the block body *)
Lemma dijkstra_txs_spec B tail : forall txs pos,
  Forall wf txs -> Forall size_ok txs -> forallb dtx_shape txs = true ->
  (forall j p, nth_error txs j = Some p -> located B (pos + length (flat_map enc (firstn j txs))) p) ->
  exists l, dijkstra_txs 0 (length txs) pos (flat_map enc txs ++ tail) = Some l /\ length l = length txs /\
    forall i t, nth_error l i = Some t -> dijkstra_tx_located B txs i t.
Proof.
  induction txs as [|p r IH]; intros pos Hwf Hsz Hsh HL.
  - exists []. repeat split; auto. intros [|i] t H; discriminate.
  - inversion Hwf as [|? ? Hwp Hwr]; subst. inversion Hsz as [|? ? Hsp Hsr]; subst.
    cbn [forallb] in Hsh. apply andb_true_iff in Hsh. destruct Hsh as [Hp Hr].
    destruct p as [| | | | | |fq ps| | | | ]; try discriminate.
    destruct ps as [|body [|w [|aux [|? ?]]]]; try discriminate. cbn [dtx_shape] in Hp.
    set (xs := [body; w; aux]) in *.
    destruct (IH (pos + length (enc (Arr fq xs))) Hwr Hsr Hr) as (l & El & Ll & Hl).
    { intros j q Hj. specialize (HL (S j) q Hj). cbn [firstn flat_map] in HL. rewrite app_length, Nat.add_assoc in HL. exact HL. }
    pose proof (HL 0 _ eq_refl) as Lp. cbn [firstn flat_map length] in Lp. rewrite Nat.add_0_r in Lp.
    pose proof (size_ok_arr fq _ Hwp Hsp) as Hc.
    assert (Hwb : wf body) by (apply (wf_children fq xs 0 _ Hwp); reflexivity).
    assert (Hww : wf w) by (apply (wf_children fq xs 1 _ Hwp); reflexivity).
    assert (Hwa : wf aux) by (apply (wf_children fq xs 2 _ Hwp); reflexivity).
    assert (Lb : located B (pos + hdr_size fq) body).
    { pose proof (located_arr_child _ _ fq _ 0 _ Lp eq_refl) as L. unfold child_off in L. cbn [firstn flat_map length] in L.
      rewrite Nat.add_0_r in L. exact L. }
    assert (Lw : located B (pos + hdr_size fq + length (enc body)) w).
    { pose proof (located_arr_child _ _ fq _ 1 _ Lp eq_refl) as L. unfold child_off, xs in L. cbn [firstn flat_map] in L.
      rewrite app_nil_r in L. eapply located_eq'; [|exact L]. lia. }
    assert (La : located B (pos + hdr_size fq + (length (enc body) + length (enc w))) aux).
    { pose proof (located_arr_child _ _ fq _ 2 _ Lp eq_refl) as L. unfold child_off, xs in L. cbn [firstn flat_map] in L.
      rewrite app_nil_r, app_length in L. eapply located_eq'; [|exact L]. lia. }
    (* run one round of the loop *)
    assert (Erun : dijkstra_txs 0 (length (Arr fq xs :: r)) pos (flat_map enc (Arr fq xs :: r) ++ tail) =
      Some (mk_txloc (pos + hdr_size fq, length (enc body)) (pos + hdr_size fq + length (enc body), length (enc w))
                     (match enc aux with [246%N] => zero_range
                      | _ => (pos + hdr_size fq + (length (enc body) + length (enc w)), length (enc aux)) end)
                     (output_offsets false true true (enc body) (pos + hdr_size fq))
                     (witness_components (enc w) (pos + hdr_size fq + length (enc body))) :: l)).
    { cbn [length flat_map dijkstra_txs]. rewrite <- app_assoc. rewrite sd_skip_enc by exact Hwp.
      rewrite firstn_exact. rewrite dec_raw_list_enc0 by exact Hwp. unfold xs at 1. cbn [map].
      rewrite (info_ok_arr fq xs 3%N Hwp Hc eq_refl). rewrite (arr_body fq xs Hwp).
      change (flat_map enc xs) with (enc body ++ enc w ++ enc aux ++ []). rewrite <- !app_assoc.
      rewrite (sd_skip_enc body) by exact Hwb. rewrite (sd_skip_enc w) by exact Hww. rewrite (sd_skip_enc aux) by exact Hwa.
      cbv zeta. rewrite !firstn_exact. rewrite El. reflexivity. }
    eexists. split; [exact Erun|]. split; [cbn [length]; lia|].
    intros [|i] t Ht; cbn [nth_error] in Ht.
    + injection Ht as <-. exists fq, body, w, aux. cbn [l_body l_wit l_meta l_comps l_outs nth_error fst].
      split; [reflexivity|]. split; [split; [exact Lb|reflexivity]|]. split; [split; [exact Lw|reflexivity]|].
      split; [|split; [|reflexivity]].
      * destruct (is_null aux) eqn:En.
        -- apply (null_enc aux Hwa) in En. rewrite En. reflexivity.
        -- rewrite not_null_match; [split; [exact La|reflexivity]|].
           intros E. apply (null_enc aux Hwa) in E. congruence.
      * assert (Hsb : size_ok body) by (eapply size_ok_located; [apply (located_arr_child _ 0 fq xs 0 body (located_self _) eq_refl)|exact Hsp]).
        pose proof (output_offsets_spec true true body (pos + hdr_size fq) Hwb Hsb Hp) as Ho.
        destruct (body_outputs body) as [[[o fo] outs]|]; [|exact Ho].
        destruct Ho as [Lo ->]. split; [rewrite walk_length; apply map_length|].
        intros m x Hm. rewrite (walk_nth outs _ m x Hm). eexists. split; [reflexivity|]. split; [|reflexivity].
        cbn [fst]. pose proof (located_arr_child _ _ _ _ _ _ (located_trans _ _ _ _ _ Lb Lo) Hm) as L.
        unfold child_off in L. eapply located_eq'; [|exact L]. lia.
    + apply (Hl i t Ht).
Qed.

Theorem extract_dijkstra b : wf b -> size_ok b -> dijkstra_like b = true ->
  exists f0 h f1 inv ft txs lc pc locs,
    b = Arr f0 [h; Arr f1 [inv; Arr ft txs; lc; pc]] /\
    extract_gen false false (enc b) = Done locs /\ length locs = length txs /\
    forall i t, nth_error locs i = Some t -> dijkstra_tx_located (enc b) txs i t.
Proof.
  intros Hw Hsz Hsh.
  destruct b as [| | | | | |f0 xs| | | | ]; try discriminate.
  destruct xs as [|h [|B1 xs]]; try discriminate.
  destruct B1 as [| | | | | |f1 ys| | | | ]; try (destruct xs; discriminate).
  destruct xs as [|? ?];
    [|destruct ys as [|? [|T' [|? [|? [|? ?]]]]]; try discriminate; destruct T'; discriminate].
  destruct ys as [|inv [|T ys]]; try discriminate.
  destruct T as [| | | | | |ft txs| | | | ]; try (destruct ys as [|? [|? [|? ?]]]; discriminate).
  destruct ys as [|lc [|pc [|? ?]]]; try discriminate.
  cbn [dijkstra_like] in Hsh.
  set (ys := [inv; Arr ft txs; lc; pc]) in *. set (xs := [h; Arr f1 ys]) in *. set (B := enc (Arr f0 xs)).
  assert (Hwh : wf h) by (apply (wf_children f0 xs 0 _ Hw); reflexivity).
  assert (HwB1 : wf (Arr f1 ys)) by (apply (wf_children f0 xs 1 _ Hw); reflexivity).
  assert (Hwi : wf inv) by (apply (wf_children f1 ys 0 _ HwB1); reflexivity).
  assert (HwT : wf (Arr ft txs)) by (apply (wf_children f1 ys 1 _ HwB1); reflexivity).
  assert (L1 : located B (child_off f0 xs 1) (Arr f1 ys)) by (apply (located_arr_child B 0 f0 xs 1); [apply located_self|reflexivity]).
  assert (LT : located B (child_off f0 xs 1 + child_off f1 ys 1) (Arr ft txs)) by (apply (located_arr_child B _ f1 ys 1 _ L1); reflexivity).
  assert (HB : (N.of_nat (length B) <= 2147483647)%N) by exact Hsz.
  assert (C0 : count_ok xs) by (apply (size_ok_arr f0 xs Hw Hsz)).
  assert (C1 : count_ok ys) by (apply (size_ok_arr f1 ys HwB1); eapply size_ok_located; eauto).
  assert (ST : size_ok (Arr ft txs)) by (eapply size_ok_located; eauto).
  assert (CT : count_ok txs) by (apply (size_ok_arr ft txs HwT ST)).
  assert (Hwts : Forall wf txs) by (apply wf_arr in HwT; apply HwT).
  assert (Hsts : Forall size_ok txs).
  { apply Forall_forall. intros p Hin. apply (size_ok_child ft txs p HwT ST Hin). }
  set (pos := child_off f0 xs 1 + child_off f1 ys 1 + hdr_size ft).
  destruct (dijkstra_txs_spec B (trailer_bytes ft) txs pos Hwts Hsts Hsh) as (l & El & Ll & Hl).
  { intros j p Hj. pose proof (located_arr_child _ _ _ _ _ _ LT Hj) as L. unfold child_off in L at 3.
    eapply located_eq'; [|exact L]. unfold pos. lia. }
  exists f0, h, f1, inv, ft, txs, lc, pc, (match txs with [] => [] | _ => l end).
  split; [reflexivity|]. split; [|split].
  - unfold extract_gen.
    assert (ED : dec_raw_list B = Some (map enc xs, length B)) by (apply dec_raw_list_enc0; exact Hw).
    rewrite ED. change (map enc xs) with [enc h; enc (Arr f1 ys)].
    assert (EB1 : dec_raw_list (enc (Arr f1 ys)) = Some ([enc inv; enc (Arr ft txs); enc lc; enc pc], length (enc (Arr f1 ys))))
      by (apply dec_raw_list_enc0; exact HwB1).
    assert (ET : dec_raw_list (enc (Arr ft txs)) = Some (map enc txs, length (enc (Arr ft txs))))
      by (apply dec_raw_list_enc0; exact HwT).
    assert (Eis : is_dijkstra_block [enc h; enc (Arr f1 ys)] = true).
    { cbn [is_dijkstra_block]. rewrite EB1, ET. destruct txs as [|p0 r]; [reflexivity|]. cbn [map].
      cbn [forallb] in Hsh. apply andb_true_iff in Hsh. destruct Hsh as [Hp _].
      destruct p0 as [| | | | | |fq ps| | | | ]; try discriminate.
      destruct ps as [|b0 [|w0 [|a0 [|? ?]]]]; try discriminate.
      rewrite dec_raw_list_enc0 by (inversion Hwts; assumption). reflexivity. }
    rewrite Eis. cbn [negb andb]. unfold dijkstra_offsets.
    unfold B. rewrite (info_ok_arr f0 xs 2%N Hw C0 eq_refl). rewrite EB1.
    cbv beta iota zeta.
    rewrite (arr_body f0 xs Hw).
    change (flat_map enc xs) with (enc h ++ enc (Arr f1 ys) ++ []). rewrite <- !app_assoc.
    rewrite (sd_skip_enc h) by exact Hwh. cbv beta iota zeta.
    rewrite (sd_skip_enc (Arr f1 ys)) by exact HwB1. cbv beta iota zeta.
    rewrite firstn_exact. rewrite (info_ok_arr f1 ys 4%N HwB1 C1 eq_refl). cbv beta iota zeta.
    rewrite (arr_body f1 ys HwB1).
    change (flat_map enc ys) with (enc inv ++ enc (Arr ft txs) ++ enc lc ++ enc pc ++ []). rewrite <- !app_assoc.
    rewrite (sd_skip_enc inv) by exact Hwi. cbv beta iota zeta.
    rewrite (sd_skip_enc (Arr ft txs)) by exact HwT. cbv beta iota zeta.
    rewrite firstn_exact. rewrite ET.
    destruct txs as [|p0 r]; [reflexivity|].
    remember (p0 :: r) as txs eqn:Etxs.
    assert (Em : exists m0 mr, map enc txs = m0 :: mr) by (subst txs; cbn [map]; eauto).
    destruct Em as (m0 & mr & Em). rewrite Em. rewrite <- Em. rewrite map_length.
    rewrite (info_ok_arr ft txs _ HwT CT eq_refl). rewrite (arr_body ft txs HwT).
    assert (Epos : hdr_size f0 + length (enc h) + hdr_size f1 + length (enc inv) + hdr_size ft = pos).
    { unfold pos, child_off, xs, ys. cbn [firstn flat_map length]. rewrite !app_nil_r. lia. }
    rewrite Epos, El. subst txs. reflexivity.
  - destruct txs; [reflexivity|exact Ll].
  - intros i t Ht. destruct txs as [|p0 r]; [destruct i; discriminate|]. apply (Hl i t Ht).
Qed.

(* DecodeWithOffsets has no Dijkstra layout: a two-element block yields no locations *)
Lemma streaming_two_elements f0 h bd : wf (Arr f0 [h; bd]) -> extract_gen false true (enc (Arr f0 [h; bd])) = Done [].
Proof. intros Hw. unfold extract_gen. rewrite dec_raw_list_enc0 by exact Hw. reflexivity. Qed.
