(* C07 - metadata walker and the block walkers on an encoded Shelley-like block. *)
From V Require Import Lib.Base Lib.Cbor Lib.CborParse Lib.CborLemmas Lib.CborSpan Lib.CborProofs
  C07.Model C07.Basics C07.Scan C07.Walkers.
Local Open Scope nat_scope.

(* ---- metadata ---- *)
Definition meta_spec (base hs pos : nat) (kv : item * item) : list (N * range) :=
  match fst kv with
  | UInt _ k => [((k mod 2 ^ 32)%N, (base + hs + (pos + length (enc (fst kv))), length (enc (snd kv))))]
  | _ => []
  end.

Lemma metadata_offsets_spec f kvs base : wf (Map f kvs) -> size_ok (Map f kvs) -> uint_keys (Map f kvs) = true ->
  metadata_offsets (enc (Map f kvs)) base = spec_run enc_kv (meta_spec base (hdr_size f)) 0 kvs.
Proof.
  intros Hw Hsz Hk. cbn [uint_keys] in Hk. pose proof (size_ok_map _ _ Hw Hsz) as Hcnt.
  unfold metadata_offsets. destruct (enc_first _ Hw) as (b0 & t0 & E0 & _).
  assert (E1 : cbor_map_info (enc (Map f kvs)) = (Some (cnt_of f kvs), hdr_size f, is_indef f))
    by (unfold cbor_map_info; rewrite <- (app_nil_r (enc _)); apply cbor_info_map; assumption).
  rewrite E1. rewrite E0 at 1. rewrite run_scan_map by assumption.
  apply scan_all.
  - intros [k v] p more Hin. destruct (wf_kv_in _ _ _ _ Hw Hin) as [Hwk Hwv].
    rewrite forallb_forall in Hk. specialize (Hk _ Hin). cbn [fst] in Hk.
    destruct k as [fk n| | | | | | | | | | ]; try discriminate.
    unfold enc_kv, metadata_step, meta_spec. cbn [fst snd]. rewrite <- app_assoc.
    rewrite sd_uint_enc by exact Hwk. rewrite sd_skip_enc by exact Hwv. rewrite app_length. reflexivity.
  - intros kv Hin. eapply kv_no_break; eauto.
  - apply end_break.
  - apply end_count.
  - pose proof (map_count_le f kvs Hw). lia.
Qed.

Lemma lookup_last_in {V} k : forall (l : list (N * V)) v, lookup_last k l = Some v -> In (k, v) l.
Proof.
  induction l as [|[k' v'] r IH]; intros v H; cbn [lookup_last] in H; [discriminate|].
  destruct (lookup_last k r) as [w|] eqn:E.
  - injection H as <-. right. apply IH. reflexivity.
  - destruct (N.eqb_spec k' k) as [->|]; [|discriminate]. injection H as <-. left. reflexivity.
Qed.

(* range r of B holds exactly the encoding of x *)
Definition range_is (B : bytes) (r : range) (x : item) : Prop := located B (fst r) x /\ snd r = length (enc x).

Lemma range_is_slice B r x : range_is B r x -> slice (fst r) (snd r) B = enc x.
Proof. intros [HL ->]. apply located_slice. exact HL. Qed.
Lemma range_is_in B r x : range_is B r x -> fst r + snd r <= length B.
Proof. intros [HL ->]. apply located_range. exact HL. Qed.

Lemma meta_lookup B base f kvs i r : wf (Map f kvs) -> located B base (Map f kvs) ->
  lookup_last i (spec_run enc_kv (meta_spec base (hdr_size f)) 0 kvs) = Some r ->
  exists j fk k v, nth_error kvs j = Some (UInt fk k, v) /\ (k mod 2 ^ 32)%N = i /\ range_is B r v.
Proof.
  intros Hw HL H. apply lookup_last_in in H. apply spec_run_in in H. destruct H as (j & [k v] & Hn & Hin).
  unfold meta_spec in Hin. cbn [fst snd] in Hin. destruct k as [fk n| | | | | | | | | | ]; try (destruct Hin; fail).
  destruct Hin as [Hin|[]]. injection Hin as <- <-. exists j, fk, n, v. repeat split; auto.
  cbn [fst]. pose proof (located_map_value _ _ _ _ _ _ _ HL Hn) as L. unfold entry_off in L.
  assert (E : forall a b, a = b -> located B a v -> located B b v) by (intros a b <-; auto).
  eapply E; [|exact L]. cbn [enc enc_head length fst]. lia.
Qed.

(* ---- assemble ---- *)
Lemma assemble_length heur ind metas : forall bodies wits i0 bp wp, length bodies = length wits ->
  length (assemble heur false ind i0 bodies wits bp wp metas) = length bodies.
Proof.
  induction bodies as [|b r IH]; intros [|w ws] i0 bp wp H; cbn in H; try discriminate; [reflexivity|].
  cbn [assemble length]. f_equal. apply IH. lia.
Qed.

Lemma assemble_nth heur ind metas : forall bodies wits i0 bp wp i body w,
  nth_error bodies i = Some body -> nth_error wits i = Some w ->
  nth_error (assemble heur false ind i0 (map enc bodies) (map enc wits) bp wp metas) i =
  Some (mk_txloc (bp + length (flat_map enc (firstn i bodies)), length (enc body))
                 (wp + length (flat_map enc (firstn i wits)), length (enc w))
                 (match lookup_last (i0 + N.of_nat i)%N metas with Some r => r | None => zero_range end)
                 (output_offsets false ind heur (enc body) (bp + length (flat_map enc (firstn i bodies))))
                 (witness_components (enc w) (wp + length (flat_map enc (firstn i wits))))).
Proof.
  induction bodies as [|b r IH]; intros [|w0 ws] i0 bp wp [|i] body w Hb Hw; cbn in Hb, Hw; try discriminate.
  - injection Hb as ->. injection Hw as ->. cbn. rewrite !Nat.add_0_r, N.add_0_r. reflexivity.
  - cbn [map assemble nth_error firstn flat_map]. rewrite (IH ws (i0 + 1)%N _ _ i body w Hb Hw).
    rewrite !app_length, !Nat.add_assoc. replace (i0 + 1 + N.of_nat i)%N with (i0 + N.of_nat (S i))%N by lia. reflexivity.
Qed.

(* ---- the Shelley+ layout ---- *)
Definition shelley_like (heur : bool) (b : item) : bool :=
  match b with
  | Arr _ (_ :: Arr _ bodies :: Arr _ wits :: aux :: _) =>
      forallb (body_shape heur) bodies && uint_keys aux && Nat.eqb (length bodies) (length wits)
  | _ => false
  end.

(* what is claimed about the location record of transaction i *)
Definition tx_located (B : bytes) (bodies wits : list item) (aux : item) (i : nat) (t : txloc) : Prop :=
  exists body w, nth_error bodies i = Some body /\ nth_error wits i = Some w /\
    range_is B (l_body t) body /\ range_is B (l_wit t) w /\
    match body_outputs body with
    | Some (_, _, outs) =>
        length (l_outs t) = length outs /\
        forall m o, nth_error outs m = Some o -> exists r, nth_error (l_outs t) m = Some r /\ range_is B r o
    | None => l_outs t = []
    end /\
    (l_meta t = zero_range \/
     exists f kvs j fk k v, aux = Map f kvs /\ nth_error kvs j = Some (UInt fk k, v) /\
       (k mod 2 ^ 32)%N = N.of_nat i /\ range_is B (l_meta t) v) /\
    l_comps t = witness_components (enc w) (fst (l_wit t)).

Lemma wf_children f xs j x : wf (Arr f xs) -> nth_error xs j = Some x -> wf x.
Proof. intros Hw H. apply wf_arr in Hw. destruct Hw as [_ Hall]. rewrite Forall_forall in Hall. apply Hall. eapply nth_error_In; eauto. Qed.

Theorem extract_shelley streaming b : wf b -> size_ok b -> shelley_like (negb streaming) b = true ->
  exists f0 h f1 bodies f2 wits aux rest txs,
    b = Arr f0 (h :: Arr f1 bodies :: Arr f2 wits :: aux :: rest) /\
    extract_gen false streaming (enc b) = Done txs /\
    length txs = length bodies /\
    forall i t, nth_error txs i = Some t -> tx_located (enc b) bodies wits aux i t.
Proof.
  intros Hw Hsz Hsh.
  destruct b as [| | | | | |f0 xs| | | | ]; cbn [shelley_like] in Hsh; try discriminate.
  destruct xs as [|h xs]; [discriminate|]. destruct xs as [|B1 xs]; [discriminate|].
  destruct B1 as [| | | | | |f1 bodies| | | | ]; try discriminate.
  destruct xs as [|B2 xs]; [discriminate|].
  destruct B2 as [| | | | | |f2 wits| | | | ]; try discriminate.
  destruct xs as [|aux rest]; [discriminate|]. apply andb_true_iff in Hsh. destruct Hsh as [Hsh Hlen].
  apply andb_true_iff in Hsh. destruct Hsh as [Hbodies Haux]. apply Nat.eqb_eq in Hlen.
  set (xs := h :: Arr f1 bodies :: Arr f2 wits :: aux :: rest) in *.
  set (B := enc (Arr f0 xs)).
  assert (HwB1 : wf (Arr f1 bodies)) by (apply (wf_children f0 xs 1 _ Hw); reflexivity).
  assert (HwB2 : wf (Arr f2 wits)) by (apply (wf_children f0 xs 2 _ Hw); reflexivity).
  assert (Hwaux : wf aux) by (apply (wf_children f0 xs 3 _ Hw); reflexivity).
  assert (HB : (N.of_nat (length B) <= 2147483647)%N) by exact Hsz.
  assert (L1 : located B (child_off f0 xs 1) (Arr f1 bodies)) by (apply (located_arr_child B 0 f0 xs 1); [apply located_self|reflexivity]).
  assert (L2 : located B (child_off f0 xs 2) (Arr f2 wits)) by (apply (located_arr_child B 0 f0 xs 2); [apply located_self|reflexivity]).
  assert (L3 : located B (child_off f0 xs 3) aux) by (apply (located_arr_child B 0 f0 xs 3); [apply located_self|reflexivity]).
  assert (C0 : count_ok xs) by (apply (size_ok_arr f0 xs Hw Hsz)).
  assert (C1 : count_ok bodies) by (apply (size_ok_arr f1 bodies HwB1); eapply size_ok_located; eauto).
  assert (C2 : count_ok wits) by (apply (size_ok_arr f2 wits HwB2); eapply size_ok_located; eauto).
  assert (Saux : size_ok aux) by (eapply size_ok_located; eauto).
  destruct aux as [| | | | | | |fa akvs| | | ]; cbn [uint_keys] in Haux; try discriminate.
  (* run the model *)
  set (bp := child_off f0 xs 1 + hdr_size f1).
  set (wp := child_off f0 xs 2 + hdr_size f2).
  set (metas := spec_run enc_kv (meta_spec (child_off f0 xs 3) (hdr_size fa)) 0 akvs).
  set (ind := negb streaming).
  exists f0, h, f1, bodies, f2, wits, (Map fa akvs), rest,
    (assemble ind false ind 0 (map enc bodies) (map enc wits) bp wp metas).
  split; [reflexivity|]. split; [|split].
  - unfold extract_gen.
    assert (ED : dec_raw_list B = Some (map enc xs, length B)) by (apply dec_raw_list_enc0; exact Hw).
    rewrite ED. rewrite map_length.
    change (length xs) with (S (S (S (S (length rest))))).
    change (map enc xs) with (enc h :: enc (Arr f1 bodies) :: enc (Arr f2 wits) :: enc (Map fa akvs) :: map enc rest).
    cbn [is_dijkstra_block is_byron_block length]. rewrite andb_false_r.
    cbn [Nat.ltb Nat.leb Nat.eqb]. unfold shelley_path. cbn [length].
    rewrite !dec_raw_list_enc0 by assumption. rewrite !map_length, Hlen, Nat.eqb_refl. cbn [negb].
    assert (EH0 : forall len, hdr_at false false B len = hdr_size f0).
    { intros len. unfold B. rewrite <- (app_nil_r (enc _)). apply hdr_at_fixed; assumption. }
    rewrite !EH0.
    assert (EH1 : forall len, hdr_at false ind (enc (Arr f1 bodies)) len = hdr_size f1).
    { intros len. rewrite <- (app_nil_r (enc _)). apply hdr_at_fixed; assumption. }
    assert (EH2 : forall len, hdr_at false ind (enc (Arr f2 wits)) len = hdr_size f2).
    { intros len. rewrite <- (app_nil_r (enc _)). apply hdr_at_fixed; assumption. }
    fold ind. rewrite !EH1, !EH2.
    assert (O1 : hdr_size f0 + length (enc h) = child_off f0 xs 1).
    { unfold child_off, xs. cbn [firstn flat_map]. rewrite app_nil_r. reflexivity. }
    assert (O2 : hdr_size f0 + length (enc h) + length (enc (Arr f1 bodies)) = child_off f0 xs 2).
    { unfold child_off, xs. cbn [firstn flat_map]. rewrite app_nil_r, app_length. lia. }
    assert (O3 : hdr_size f0 + length (enc h) + length (enc (Arr f1 bodies)) + length (enc (Arr f2 wits)) = child_off f0 xs 3).
    { unfold child_off, xs. cbn [firstn flat_map]. rewrite app_nil_r, !app_length. lia. }
    rewrite O3, O2, O1. fold bp wp.
    assert (EM : (if Nat.ltb 1 (length (enc (Map fa akvs))) then metadata_offsets (enc (Map fa akvs)) (child_off f0 xs 3) else []) = metas).
    { unfold metas. rewrite <- (metadata_offsets_spec fa akvs _ Hwaux Saux Haux).
      destruct (Nat.ltb_spec 1 (length (enc (Map fa akvs)))) as [|Hle]; [reflexivity|].
      assert (akvs = []).
      { rewrite enc_length_map in Hle. pose proof (hdr_size_pos fa).
        destruct akvs as [|[k v] r]; [reflexivity|]. exfalso. cbn [unpair flat_map] in Hle. rewrite !app_length in Hle.
        destruct (wf_kv_in fa ((k, v) :: r) k v Hwaux (or_introl eq_refl)) as [Hk Hv].
        pose proof (enc_nonempty k Hk). pose proof (enc_nonempty v Hv). lia. }
      subst akvs. rewrite (metadata_offsets_spec fa [] _ Hwaux Saux Haux). reflexivity. }
    rewrite EM. reflexivity.
  - rewrite assemble_length by (rewrite !map_length; exact Hlen). apply map_length.
  - intros i t Ht.
    assert (Hi : i < length bodies).
    { assert (Ht' : nth_error (assemble ind false ind 0 (map enc bodies) (map enc wits) bp wp metas) i <> None) by congruence.
      apply nth_error_Some in Ht'. rename Ht' into Hlt. clear Ht. rename Hlt into Ht. rewrite assemble_length in Ht by (rewrite !map_length; exact Hlen). rewrite map_length in Ht. exact Ht. }
    destruct (nth_error bodies i) as [body|] eqn:Eb; [|apply nth_error_None in Eb; lia].
    destruct (nth_error wits i) as [w|] eqn:Ew; [|apply nth_error_None in Ew; lia].
    rewrite (assemble_nth ind ind metas bodies wits 0%N bp wp i body w Eb Ew) in Ht. injection Ht as <-.
    assert (Lb : located B (child_off f0 xs 1 + child_off f1 bodies i) body) by (eapply located_arr_child; eauto).
    assert (Lw : located B (child_off f0 xs 2 + child_off f2 wits i) w) by (eapply located_arr_child; eauto).
    assert (Ebp : bp + length (flat_map enc (firstn i bodies)) = child_off f0 xs 1 + child_off f1 bodies i) by (unfold bp, child_off; lia).
    assert (Ewp : wp + length (flat_map enc (firstn i wits)) = child_off f0 xs 2 + child_off f2 wits i) by (unfold wp, child_off; lia).
    exists body, w. cbn [l_body l_wit l_outs l_meta l_comps fst]. rewrite Ebp, Ewp.
    split; [exact Eb|]. split; [exact Ew|]. split; [split; [exact Lb|reflexivity]|]. split; [split; [exact Lw|reflexivity]|].
    split; [|split; [|reflexivity]].
    + assert (Hwb : wf body) by (eapply (wf_children f1 bodies); eauto).
      assert (Hsb : size_ok body) by (eapply size_ok_located; eauto).
      assert (Hshb : body_shape ind body = true) by (eapply forallb_nth; eauto).
      pose proof (output_offsets_spec ind ind body (child_off f0 xs 1 + child_off f1 bodies i) Hwb Hsb Hshb) as Ho.
      destruct (body_outputs body) as [[[o fo] outs]|]; [|exact Ho].
      destruct Ho as [Lo ->]. split; [rewrite walk_length; apply map_length|].
      intros m x Hm. rewrite (walk_nth outs _ m x Hm). eexists. split; [reflexivity|]. split; [|reflexivity].
      cbn [fst]. pose proof (located_arr_child _ _ _ _ _ _ (located_trans _ _ _ _ _ Lb Lo) Hm) as L.
      unfold child_off in L at 3. rewrite !Nat.add_assoc in *. exact L.
    + cbn [N.add]. destruct (lookup_last (0 + N.of_nat i)%N metas) as [r|] eqn:El; [|left; reflexivity].
      right. destruct (meta_lookup B _ fa akvs _ r Hwaux L3 El) as (j & fk & k & v & Hn & Hk & Hr).
      exists fa, akvs, j, fk, k, v. split; [reflexivity|]. split; [exact Hn|]. split; [rewrite Hk; lia|exact Hr].
Qed.
