(* C07 - Byron main blocks and epoch boundary blocks. *)
From V Require Import Lib.Base Lib.Cbor Lib.CborParse Lib.CborLemmas Lib.CborSpan Lib.CborProofs
  C07.Model C07.Basics C07.Scan C07.Walkers C07.Top C07.Components.
Local Open Scope nat_scope.

Lemma hdr_fixed f xs ind len : wf (Arr f xs) -> count_ok xs -> hdr_at false ind (enc (Arr f xs)) len = hdr_size f.
Proof. intros Hw Hc. rewrite <- (app_nil_r (enc _)). apply hdr_at_fixed; assumption. Qed.

Lemma located_eq' B a b x : a = b -> located B a x -> located B b x.
Proof. intros <-. auto. Qed.

(* a Byron transaction body whose outputs the walker reports: [inputs, [out ..], ...] *)
Definition byron_body_outputs (body : item) : option (nat * option form * list item) :=
  match body with
  | Arr fb (ins :: Arr fo outs :: _) => Some (hdr_size fb + length (enc ins), fo, outs)
  | _ => None
  end.

Lemma byron_output_offsets_spec body off o fo outs : wf body -> size_ok body ->
  byron_body_outputs body = Some (o, fo, outs) ->
  located (enc body) o (Arr fo outs) /\
  byron_output_offsets false (enc body) off = match outs with [] => [] | _ => walk (off + o + hdr_size fo) (map enc outs) end.
Proof.
  intros Hw Hsz Hb. destruct body as [| | | | | |fb xs| | | | ]; try discriminate.
  destruct xs as [|ins [|[| | | | | |fo' outs'| | | | ] rest]]; try discriminate.
  cbn [byron_body_outputs] in Hb. remember (length (enc ins)) as li. injection Hb as <- <- <-.
  set (xs := ins :: Arr fo' outs' :: rest) in *.
  assert (Hwo : wf (Arr fo' outs')) by (apply (wf_children fb xs 1 _ Hw); reflexivity).
  assert (Lo : located (enc (Arr fb xs)) (hdr_size fb + li) (Arr fo' outs')).
  { pose proof (located_arr_child _ 0 fb xs 1 _ (located_self _) eq_refl) as L. unfold child_off, xs in L.
    cbn [firstn flat_map] in L. rewrite app_nil_r in L. subst li. exact L. }
  split; [exact Lo|].
  pose proof (size_ok_arr fb xs Hw Hsz) as Hc.
  assert (Hco : count_ok outs') by (apply (size_ok_arr fo' outs' Hwo); eapply size_ok_located; eauto).
  unfold byron_output_offsets.
  assert (Hlen : 2 <= length (enc (Arr fb xs))).
  { pose proof (located_range _ _ _ Lo). pose proof (hdr_size_pos fb). pose proof (enc_nonempty _ Hwo). lia. }
  destruct (Nat.ltb_spec (length (enc (Arr fb xs))) 2); [lia|].
  rewrite dec_raw_list_enc0 by exact Hw. unfold xs at 1. cbn [map].
  rewrite dec_raw_list_enc0 by exact Hwo.
  destruct outs' as [|o1 os]; [reflexivity|]. cbn [map].
  rewrite (hdr_fixed fb xs) by assumption. rewrite (hdr_fixed fo' (o1 :: os)) by assumption.
  subst li. f_equal. lia.
Qed.

(* shapes *)
Definition pair_shape (p : item) : bool := match p with Arr _ [_; _] => true | _ => false end.
Definition byron_like (b : item) : bool :=
  match b with
  | Arr _ [_; Arr _ [Arr _ pairs; _; _; _]; _] => forallb pair_shape pairs
  | _ => false
  end.

Definition byron_tx_located (B : bytes) (pairs : list item) (i : nat) (t : txloc) : Prop :=
  exists fq body w, nth_error pairs i = Some (Arr fq [body; w]) /\
    range_is B (l_body t) body /\ range_is B (l_wit t) w /\ l_meta t = zero_range /\ l_comps t = [] /\
    match byron_body_outputs body with
    | Some (_, _, outs) =>
        length (l_outs t) = length outs /\
        forall m o, nth_error outs m = Some o -> exists r, nth_error (l_outs t) m = Some r /\ range_is B r o
    | None => True
    end.

Lemma byron_pairs_spec B : forall pairs pos,
  Forall wf pairs -> Forall size_ok pairs -> forallb pair_shape pairs = true ->
  (forall j p, nth_error pairs j = Some p -> located B (pos + length (flat_map enc (firstn j pairs))) p) ->
  exists l, byron_pairs false (map enc pairs) pos = Some l /\ length l = length pairs /\
    forall i t, nth_error l i = Some t -> byron_tx_located B pairs i t.
Proof.
  induction pairs as [|p r IH]; intros pos Hwf Hsz Hsh HL.
  - exists []. repeat split; auto. intros [|i] t H; discriminate.
  - inversion Hwf as [|? ? Hwp Hwr]; subst. inversion Hsz as [|? ? Hsp Hsr]; subst.
    cbn [forallb] in Hsh. apply andb_true_iff in Hsh. destruct Hsh as [Hp Hr].
    destruct p as [| | | | | |fq ps| | | | ]; try discriminate.
    destruct ps as [|body [|w [|? ?]]]; try discriminate.
    destruct (IH (pos + length (enc (Arr fq [body; w]))) Hwr Hsr Hr) as (l & El & Ll & Hl).
    { intros j p Hj. specialize (HL (S j) p Hj). cbn [firstn flat_map] in HL. rewrite app_length, Nat.add_assoc in HL. exact HL. }
    pose proof (HL 0 _ eq_refl) as Lp. cbn [firstn flat_map length] in Lp. rewrite Nat.add_0_r in Lp.
    pose proof (size_ok_arr fq _ Hwp Hsp) as Hc.
    assert (Hwb : wf body) by (apply (wf_children fq [body; w] 0 _ Hwp); reflexivity).
    assert (Lb : located B (pos + hdr_size fq) body).
    { pose proof (located_arr_child _ _ fq _ 0 _ Lp eq_refl) as L. unfold child_off in L. cbn [firstn flat_map length] in L.
      rewrite Nat.add_0_r in L. exact L. }
    assert (Lw : located B (pos + hdr_size fq + length (enc body)) w).
    { pose proof (located_arr_child _ _ fq _ 1 _ Lp eq_refl) as L. unfold child_off in L. cbn [firstn flat_map] in L.
      rewrite app_nil_r in L. eapply located_eq'; [|exact L]. lia. }
    eexists. cbn [map byron_pairs]. rewrite dec_raw_list_enc0 by exact Hwp. cbn [map length].
    rewrite (hdr_fixed fq [body; w]) by assumption. rewrite El. split; [reflexivity|]. split; [cbn [length]; lia|].
    intros [|i] t Ht; cbn [nth_error] in Ht.
    + injection Ht as <-. exists fq, body, w. cbn [l_body l_wit l_meta l_comps l_outs nth_error].
      split; [reflexivity|]. split; [split; [exact Lb|reflexivity]|]. split; [split; [exact Lw|reflexivity]|].
      split; [reflexivity|]. split; [reflexivity|].
      destruct (byron_body_outputs body) as [[[o fo] outs]|] eqn:Eo; [|exact I].
      assert (Hsb : size_ok body) by (eapply size_ok_located; [apply (located_arr_child _ 0 fq [body; w] 0 body (located_self _) eq_refl)|exact Hsp]).
      destruct (byron_output_offsets_spec body (pos + hdr_size fq) o fo outs Hwb Hsb Eo) as [Lo ->].
      destruct outs as [|o1 os]; [split; [reflexivity|intros [|m] x H; discriminate]|].
      split; [rewrite walk_length; apply map_length|].
      intros m x Hm. rewrite (walk_nth _ _ m x Hm). eexists. split; [reflexivity|]. split; [|reflexivity]. cbn [fst].
      pose proof (located_arr_child _ _ _ _ _ _ (located_trans _ _ _ _ _ Lb Lo) Hm) as L. unfold child_off in L.
      eapply located_eq'; [|exact L]. lia.
    + apply (Hl i t Ht).
Qed.

Theorem extract_byron streaming b : wf b -> size_ok b -> byron_like b = true ->
  exists f0 h f1 fp pairs s1 s2 s3 extra txs,
    b = Arr f0 [h; Arr f1 [Arr fp pairs; s1; s2; s3]; extra] /\
    extract_gen false streaming (enc b) = Done txs /\ length txs = length pairs /\
    forall i t, nth_error txs i = Some t -> byron_tx_located (enc b) pairs i t.
Proof.
  intros Hw Hsz Hsh.
  destruct b as [| | | | | |f0 xs| | | | ]; try discriminate.
  destruct xs as [|h xs]; [discriminate|]. destruct xs as [|B1 xs]; [discriminate|].
  destruct B1 as [| | | | | |f1 ys| | | | ]; try discriminate.
  destruct ys as [|P ys]; [destruct xs as [|? [|? ?]]; discriminate|].
  destruct P as [| | | | | |fp pairs| | | | ]; try (destruct xs as [|? [|? ?]]; discriminate).
  destruct ys as [|s1 [|s2 [|s3 [|? ?]]]]; try (destruct xs as [|? [|? ?]]; discriminate).
  destruct xs as [|extra [|? ?]]; try discriminate.
  cbn [byron_like] in Hsh.
  set (ys := [Arr fp pairs; s1; s2; s3]) in *. set (xs := [h; Arr f1 ys; extra]) in *. set (B := enc (Arr f0 xs)).
  assert (HwB1 : wf (Arr f1 ys)) by (apply (wf_children f0 xs 1 _ Hw); reflexivity).
  assert (HwP : wf (Arr fp pairs)) by (apply (wf_children f1 ys 0 _ HwB1); reflexivity).
  assert (L1 : located B (child_off f0 xs 1) (Arr f1 ys)) by (apply (located_arr_child B 0 f0 xs 1); [apply located_self|reflexivity]).
  assert (LP : located B (child_off f0 xs 1 + child_off f1 ys 0) (Arr fp pairs)) by (apply (located_arr_child B _ f1 ys 0 _ L1); reflexivity).
  assert (HB : (N.of_nat (length B) <= 2147483647)%N) by exact Hsz.
  assert (C0 : count_ok xs) by (apply (size_ok_arr f0 xs Hw Hsz)).
  assert (C1 : count_ok ys) by (apply (size_ok_arr f1 ys HwB1); eapply size_ok_located; eauto).
  assert (SP : size_ok (Arr fp pairs)) by (eapply size_ok_located; eauto).
  assert (CP : count_ok pairs) by (apply (size_ok_arr fp pairs HwP SP)).
  assert (Hwps : Forall wf pairs) by (apply wf_arr in HwP; apply HwP).
  assert (Hsps : Forall size_ok pairs).
  { apply Forall_forall. intros p Hin. apply (size_ok_child fp pairs p HwP SP Hin). }
  set (pos := child_off f0 xs 1 + child_off f1 ys 0 + hdr_size fp).
  destruct (byron_pairs_spec B pairs pos Hwps Hsps Hsh) as (l & El & Ll & Hl).
  { intros j p Hj. pose proof (located_arr_child _ _ _ _ _ _ LP Hj) as L. unfold child_off in L at 3.
    eapply located_eq'; [|exact L]. unfold pos. lia. }
  exists f0, h, f1, fp, pairs, s1, s2, s3, extra, (match pairs with [] => [] | _ => l end).
  split; [reflexivity|]. split; [|split].
  - unfold extract_gen.
    assert (ED : dec_raw_list B = Some (map enc xs, length B)) by (apply dec_raw_list_enc0; exact Hw).
    rewrite ED. change (map enc xs) with [enc h; enc (Arr f1 ys); enc extra].
    assert (EB1 : dec_raw_list (enc (Arr f1 ys)) = Some ([enc (Arr fp pairs); enc s1; enc s2; enc s3], length (enc (Arr f1 ys))))
      by (apply dec_raw_list_enc0; exact HwB1).
    assert (EP : dec_raw_list (enc (Arr fp pairs)) = Some (map enc pairs, length (enc (Arr fp pairs))))
      by (apply dec_raw_list_enc0; exact HwP).
    assert (Eis : is_byron_block [enc h; enc (Arr f1 ys); enc extra] = true).
    { cbn [is_byron_block]. rewrite EB1, EP. destruct pairs as [|p0 r]; [reflexivity|]. cbn [map].
      cbn [forallb] in Hsh. apply andb_true_iff in Hsh. destruct Hsh as [Hp _].
      destruct p0 as [| | | | | |fq ps| | | | ]; try discriminate. destruct ps as [|b0 [|w0 [|? ?]]]; try discriminate.
      rewrite dec_raw_list_enc0 by (inversion Hwps; assumption). reflexivity. }
    cbn [is_dijkstra_block length]. rewrite andb_false_r. cbn [Nat.ltb Nat.leb]. rewrite Eis.
    unfold byron_offsets. rewrite EB1, EP.
    destruct pairs as [|p0 r]; [reflexivity|]. cbn [map] in *.
    assert (EH0 : forall len, hdr_at false false B len = hdr_size f0) by (intros; apply hdr_fixed; assumption).
    rewrite EH0, (hdr_fixed f1 ys false 4 HwB1 C1), (hdr_fixed fp (p0 :: r) true _ HwP CP).
    assert (Epos : hdr_size f0 + length (enc h) + hdr_size f1 + hdr_size fp = pos).
    { unfold pos, child_off, xs, ys. cbn [firstn flat_map length]. rewrite app_nil_r. lia. }
    cbn [length map] in *. rewrite Epos, El. reflexivity.
  - destruct pairs; [reflexivity|exact Ll].
  - intros i t Ht. destruct pairs as [|p0 r]; [destruct i; discriminate|]. apply (Hl i t Ht).
Qed.

(* Byron epoch boundary blocks [header, [stakeholder id ..], extra]: no transactions, nothing reported *)
Definition is_bstr (x : item) : bool := match x with BStr _ _ | BStrI _ => true | _ => false end.
Definition ebb_like (b : item) : bool :=
  match b with Arr _ [_; Arr _ ids; _] => forallb is_bstr ids | _ => false end.

Theorem extract_ebb streaming b : wf b -> ebb_like b = true -> extract_gen false streaming (enc b) = Done [].
Proof.
  intros Hw Hsh. destruct b as [| | | | | |f0 xs| | | | ]; try discriminate.
  destruct xs as [|h xs]; [discriminate|]. destruct xs as [|B1 xs]; [discriminate|].
  destruct B1 as [| | | | | |f1 ids| | | | ]; try discriminate.
  destruct xs as [|extra [|? ?]]; try discriminate. cbn [ebb_like] in Hsh.
  assert (HwB1 : wf (Arr f1 ids)) by (apply (wf_children f0 _ 1 _ Hw); reflexivity).
  unfold extract_gen. rewrite dec_raw_list_enc0 by exact Hw. cbn [map is_dijkstra_block length].
  rewrite andb_false_r. cbn [Nat.ltb Nat.leb].
  assert (Eis : is_byron_block [enc h; enc (Arr f1 ids); enc extra] = false).
  { cbn [is_byron_block]. rewrite dec_raw_list_enc0 by exact HwB1.
    destruct ids as [|i0 [|i1 [|i2 [|i3 [|? ?]]]]]; try reflexivity. cbn [map].
    cbn [forallb] in Hsh. apply andb_true_iff in Hsh. destruct Hsh as [H0 _].
    assert (Hw0 : wf i0) by (apply (wf_children f1 _ 0 _ HwB1); reflexivity).
    unfold dec_raw_list at 1. rewrite <- (app_nil_r (enc i0)). rewrite parse_full_enc by exact Hw0.
    destruct i0; try discriminate; reflexivity. }
  rewrite Eis. reflexivity.
Qed.
