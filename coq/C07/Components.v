(* C07 - the witness-set component walkers (datums, redeemers, scripts). *)
From V Require Import Lib.Base Lib.Cbor Lib.CborParse Lib.CborLemmas Lib.CborSpan Lib.CborProofs
  C07.Model C07.Basics C07.Scan C07.Walkers C07.Top.
Local Open Scope nat_scope.

(* ---- tag wrappers ---- *)
Fixpoint tag_size (i : item) : nat := match i with Tag f _ x => S (nbytes f) + tag_size x | _ => 0 end.

Lemma wf_strip v : wf v -> wf (strip_tags v).
Proof. induction v; cbn [strip_tags]; auto. intros [_ H]. auto. Qed.

Lemma located_strip v : located (enc v) (tag_size v) (strip_tags v).
Proof.
  induction v; try apply located_self. cbn [strip_tags tag_size]. rewrite enc_tag.
  destruct IHv as (pre & post & E & L). exists (enc_head 6 f t ++ pre), post. rewrite E, <- app_assoc.
  split; [reflexivity|]. rewrite app_length, enc_head_length, L. reflexivity.
Qed.

Lemma tag_hdr_size_ai f t : fits f t -> tag_hdr_size (ai_of f t) = S (nbytes f).
Proof. destruct f; cbn [ai_of nbytes fits]; intros H; try reflexivity. unfold tag_hdr_size. destruct (N.ltb_spec t 24); [reflexivity|lia]. Qed.

Lemma skip_tags_enc v : forall fuel tail fa ys, wf v -> strip_tags v = Arr fa ys -> length (enc v) <= fuel ->
  skip_tags fuel (enc v ++ tail) = (enc (Arr fa ys) ++ tail, tag_size v).
Proof.
  induction v; intros fuel tail fa ys Hw Hs Hf; cbn [strip_tags] in Hs; try discriminate.
  - (* the array itself *)
    injection Hs as -> ->. cbn [tag_size].
    pose proof (enc_nonempty _ Hw). destruct fuel as [|fu]; [lia|]. cbn [skip_tags].
    destruct fa as [fm|].
    + apply wf_arr in Hw. destruct Hw as [Hh _]. rewrite enc_arr_def. unfold enc_head. cbn [app].
      destruct (hd_decomp 4 _ (ai_lt fm _ Hh)) as [-> _]. reflexivity.
    + rewrite enc_arr_indef. reflexivity.
  - (* a tag *)
    destruct Hw as [Hft Hwx]. cbn [tag_size]. rewrite enc_tag in *. rewrite app_length, enc_head_length in Hf.
    destruct fuel as [|fu]; [lia|]. cbn [skip_tags]. unfold enc_head at 1. cbn [app].
    destruct (hd_decomp 6 _ (ai_lt f t Hft)) as [-> ->]. rewrite N.eqb_refl, (tag_hdr_size_ai f t Hft).
    cbn [Nat.eqb].
    change ((6 * 32 + ai_of f t)%N :: (be (nbytes f) t ++ enc v) ++ tail) with ((enc_head 6 f t ++ enc v) ++ tail).
    destruct (Nat.ltb_spec (length ((enc_head 6 f t ++ enc v) ++ tail)) (S (nbytes f))) as [Hlt|_].
    { rewrite !app_length, enc_head_length in Hlt. lia. }
    assert (ES : skipn (S (nbytes f)) (enc_head 6 f t ++ enc v ++ tail) = enc v ++ tail).
    { rewrite <- (enc_head_length 6 f t), skipn_app, skipn_all, Nat.sub_diag. reflexivity. }
    rewrite <- app_assoc, ES. rewrite (IHv fu tail fa ys Hwx Hs) by lia. reflexivity.
Qed.

Lemma arr_no_break xs x f : wf (Arr f xs) -> In x xs -> no_break enc x.
Proof.
  intros Hw Hin. apply wf_arr in Hw. destruct Hw as [_ Hall]. rewrite Forall_forall in Hall.
  destruct (enc_first x (Hall x Hin)) as (b & t & E & Hb). exists b, t. auto.
Qed.
Lemma arr_wf_in xs x f : wf (Arr f xs) -> In x xs -> wf x.
Proof. intros Hw Hin. apply wf_arr in Hw. destruct Hw as [_ Hall]. rewrite Forall_forall in Hall. auto. Qed.

(* ---- datums ---- *)
Definition datum_spec (base : nat) (pos : nat) (x : item) : list range := [(base + pos, length (enc x))].

Lemma datum_offsets_spec v base f ds : wf v -> size_ok v -> strip_tags v = Arr f ds ->
  datum_offsets (enc v) base = spec_run enc (datum_spec (base + tag_size v + hdr_size f)) 0 ds.
Proof.
  intros Hw Hsz Hs. unfold datum_offsets. destruct (enc_first _ Hw) as (b0 & t0 & E0 & _). rewrite E0 at 1.
  pose proof (skip_tags_enc v (length (enc v)) [] f ds Hw Hs (le_n _)) as K. rewrite !app_nil_r in K. rewrite K.
  assert (Hwi : wf (Arr f ds)) by (rewrite <- Hs; apply wf_strip; exact Hw).
  assert (Hsi : size_ok (Arr f ds)) by (eapply size_ok_located; [rewrite <- Hs; apply located_strip|exact Hsz]).
  rewrite (run_scan_arr f ds) by (try assumption; apply (size_ok_arr f ds); assumption).
  apply scan_all.
  - intros x p more Hin. unfold datum_step, datum_spec. rewrite sd_skip_enc by (apply (arr_wf_in ds x f Hwi Hin)).
    reflexivity.
  - intros x Hin. apply (arr_no_break ds x f Hwi Hin).
  - apply end_break.
  - apply end_count.
  - pose proof (arr_count_le f ds Hwi). lia.
Qed.

(* ---- scripts ---- *)
Lemma script_offsets_spec v base f ss : wf v -> size_ok v -> strip_tags v = Arr f ss ->
  script_offsets (enc v) base = walk (base + (tag_size v + hdr_size f)) (map enc ss).
Proof.
  intros Hw Hsz Hs. unfold script_offsets. destruct (enc_first _ Hw) as (b0 & t0 & E0 & _). rewrite E0 at 1.
  assert (ED : dec_raw_list_t (enc v) = Some (map enc ss, length (enc v))).
  { unfold dec_raw_list_t. rewrite <- (app_nil_r (enc v)) at 1. rewrite parse_full_enc by exact Hw. rewrite Hs.
    f_equal. f_equal. unfold consumed. cbn [length]. lia. }
  rewrite ED.
  pose proof (skip_tags_enc v (length (enc v)) [] f ss Hw Hs (le_n _)) as K. rewrite !app_nil_r in K. rewrite K.
  assert (Hwi : wf (Arr f ss)) by (rewrite <- Hs; apply wf_strip; exact Hw).
  assert (Hsi : size_ok (Arr f ss)) by (eapply size_ok_located; [rewrite <- Hs; apply located_strip|exact Hsz]).
  destruct f as [fm|].
  - assert (EI : cbor_array_info (enc (Arr (Some fm) ss)) = (Some (N.of_nat (length ss)), S (nbytes fm), false)).
    { unfold cbor_array_info. rewrite <- (app_nil_r (enc _)). rewrite cbor_info_arr; [reflexivity|exact Hwi|apply (size_ok_arr (Some fm) ss); assumption]. }
    rewrite EI. apply wf_arr in Hwi. destruct Hwi as [Hh _]. rewrite enc_arr_def. unfold enc_head. cbn [app].
    pose proof (ai_lt fm _ Hh). destruct (N.eqb_spec (4 * 32 + ai_of fm (N.of_nat (length ss))) 159) as [E|_]; [|reflexivity].
    exfalso. pose proof (ai_ne31 fm _ Hh). lia.
  - rewrite enc_arr_indef. reflexivity.
Qed.

(* ---- redeemers ---- *)
Lemma arr_first f xs : wf (Arr f xs) -> exists b t, enc (Arr f xs) = b :: t /\ (b / 32 = 4)%N.
Proof.
  intros Hw. destruct f as [fm|].
  - apply wf_arr in Hw. destruct Hw as [Hh _]. rewrite enc_arr_def. unfold enc_head. cbn [app].
    eexists _, _. split; [reflexivity|]. apply (hd_decomp 4 _ (ai_lt fm _ Hh)).
  - rewrite enc_arr_indef. eexists _, _. split; reflexivity.
Qed.
Lemma map_first f kvs : wf (Map f kvs) -> exists b t, enc (Map f kvs) = b :: t /\ (b / 32 = 5)%N.
Proof.
  intros Hw. destruct f as [fm|].
  - apply wf_map in Hw. destruct Hw as [Hh _]. rewrite enc_map_def. unfold enc_head. cbn [app].
    eexists _, _. split; [reflexivity|]. apply (hd_decomp 5 _ (ai_lt fm _ Hh)).
  - rewrite enc_map_indef. eexists _, _. split; reflexivity.
Qed.

Lemma info_hs f xs : wf (Arr f xs) -> count_ok xs -> snd (fst (cbor_array_info (enc (Arr f xs)))) = hdr_size f.
Proof. intros Hw Hc. unfold cbor_array_info. rewrite <- (app_nil_r (enc _)). rewrite cbor_info_arr by assumption. reflexivity. Qed.

Lemma arr_body f xs : wf (Arr f xs) -> skipn (hdr_size f) (enc (Arr f xs)) = flat_map enc xs ++ trailer_bytes f.
Proof. intros Hw. rewrite <- (app_nil_r (enc _)). rewrite arr_after_header by exact Hw. rewrite app_nil_r. reflexivity. Qed.

(* [purpose, index, data, ex_units ...] *)
Definition red_elem (r : item) : option (N * N * nat * item) :=
  match r with
  | Arr fr (UInt fp p :: UInt fi i :: x :: _) =>
      Some (p, i, (hdr_size fr + (length (enc (UInt fp p)) + length (enc (UInt fi i))))%nat, x)
  | _ => None
  end.
Definition red_arr_spec (base : nat) (pos : nat) (r : item) : list (redeemer_key * range) :=
  match red_elem r with
  | Some (p, i, o, x) => [(mk_key p i, ((base + pos + o)%nat, length (enc x)))]
  | None => []
  end.

Lemma redeemer_arr_step_enc base hs pos r more p i o x : wf r -> size_ok r -> red_elem r = Some (p, i, o, x) ->
  redeemer_arr_step base hs pos (enc r ++ more) =
  Next [(mk_key p i, ((base + hs + pos + o)%nat, length (enc x)))] (length (enc r)) more.
Proof.
  intros Hw Hsz He. destruct r as [| | | | | |fr xs| | | | ]; try discriminate.
  destruct xs as [|[fp p'| | | | | | | | | | ] [|[fi i'| | | | | | | | | | ] [|x' rest]]]; try discriminate.
  cbn [red_elem] in He. injection He as <- <- <- <-.
  set (xs := UInt fp p' :: UInt fi i' :: x' :: rest) in *.
  pose proof (size_ok_arr fr xs Hw Hsz) as Hc.
  assert (Hwp : wf (UInt fp p')) by (apply (arr_wf_in xs _ fr Hw); left; reflexivity).
  assert (Hwi : wf (UInt fi i')) by (apply (arr_wf_in xs _ fr Hw); right; left; reflexivity).
  assert (Hwx : wf x') by (apply (arr_wf_in xs _ fr Hw); right; right; left; reflexivity).
  unfold redeemer_arr_step. rewrite parse_full_enc by exact Hw. rewrite consumed_app.
  rewrite (info_hs fr xs Hw Hc).
  assert (Hlen : hdr_size fr < length (enc (Arr fr xs))).
  { rewrite enc_length_arr. unfold xs. cbn [flat_map]. rewrite !app_length. pose proof (enc_nonempty _ Hwp). lia. }
  destruct (Nat.leb_spec (length (enc (Arr fr xs))) (hdr_size fr)); [lia|].
  rewrite (arr_body fr xs Hw). unfold xs at 1. cbn [flat_map]. rewrite <- !app_assoc.
  rewrite sd_uint_enc by exact Hwp. rewrite sd_uint_enc by exact Hwi. rewrite sd_skip_enc by exact Hwx.
  f_equal. f_equal. f_equal. f_equal. cbn [enc enc_head length]. lia.
Qed.

(* {[purpose, index]: [data, ex_units ...]} *)
Definition red_entry (kv : item * item) : option (N * N * nat * item) :=
  match kv with
  | (Arr fk [UInt fp p; UInt fi i], Arr fv (x :: _)) =>
      Some (p, i, (length (enc (Arr fk [UInt fp p; UInt fi i])) + hdr_size fv)%nat, x)
  | _ => None
  end.
Definition red_map_spec (base : nat) (pos : nat) (kv : item * item) : list (redeemer_key * range) :=
  match red_entry kv with
  | Some (p, i, o, x) => [(mk_key p i, ((base + pos + o)%nat, length (enc x)))]
  | None => []
  end.

Lemma redeemer_map_step_enc base hs pos kv more p i o x : wf (fst kv) -> wf (snd kv) -> size_ok (snd kv) ->
  red_entry kv = Some (p, i, o, x) ->
  redeemer_map_step base hs pos (enc_kv kv ++ more) =
  Next [(mk_key p i, ((base + hs + pos + o)%nat, length (enc x)))] (length (enc_kv kv)) more.
Proof.
  intros Hwk Hwv Hsz He. destruct kv as [k v]. cbn [fst snd] in *.
  destruct k as [| | | | | |fk ks| | | | ]; try discriminate.
  destruct ks as [|[fp p'| | | | | | | | | | ] [|[fi i'| | | | | | | | | | ] [|? ?]]]; try discriminate.
  destruct v as [| | | | | |fv vs| | | | ]; try discriminate.
  destruct vs as [|x' vrest]; try discriminate.
  cbn [red_entry] in He. remember (length (enc (Arr fk [UInt fp p'; UInt fi i']))) as lk eqn:Elk.
  injection He as <- <- <- <-.
  pose proof (size_ok_arr fv _ Hwv Hsz) as Hc.
  assert (Hwx : wf x') by (apply (arr_wf_in _ _ fv Hwv); left; reflexivity).
  unfold enc_kv, redeemer_map_step, sd_uints. cbn [fst snd]. rewrite <- app_assoc.
  rewrite parse_full_enc by exact Hwk. cbn [all_uints]. rewrite consumed_app.
  rewrite parse_full_enc by exact Hwv. rewrite consumed_app.
  rewrite (info_hs fv _ Hwv Hc).
  assert (Hlen : hdr_size fv < length (enc (Arr fv (x' :: vrest)))).
  { rewrite enc_length_arr. cbn [flat_map]. rewrite !app_length. pose proof (enc_nonempty _ Hwx). lia. }
  destruct (Nat.leb_spec (length (enc (Arr fv (x' :: vrest)))) (hdr_size fv)); [lia|].
  rewrite (arr_body fv _ Hwv). cbn [flat_map]. rewrite <- !app_assoc.
  rewrite sd_skip_enc by exact Hwx. rewrite app_length.
  f_equal. f_equal. f_equal. f_equal. rewrite Elk. lia.
Qed.

(* shapes *)
Definition red_arr_shape (v : item) : bool :=
  match v with Arr _ rs => forallb (fun r => match red_elem r with Some _ => true | None => false end) rs | _ => false end.
Definition red_map_shape (v : item) : bool :=
  match v with Map _ kvs => forallb (fun kv => match red_entry kv with Some _ => true | None => false end) kvs | _ => false end.

Lemma size_ok_child f xs x : wf (Arr f xs) -> size_ok (Arr f xs) -> In x xs -> size_ok x.
Proof.
  intros Hw Hs Hin. apply In_nth_error in Hin. destruct Hin as [j Hj].
  eapply size_ok_located; [|exact Hs]. apply (located_arr_child _ 0 f xs j x (located_self _) Hj).
Qed.

Lemma redeemer_offsets_arr f rs base : wf (Arr f rs) -> size_ok (Arr f rs) -> red_arr_shape (Arr f rs) = true ->
  redeemer_offsets (enc (Arr f rs)) base = spec_run enc (red_arr_spec (base + hdr_size f)) 0 rs.
Proof.
  intros Hw Hsz Hsh. cbn [red_arr_shape] in Hsh. unfold redeemer_offsets.
  destruct (arr_first f rs Hw) as (b & t & E & Hb). rewrite E at 1. rewrite Hb. cbn [N.eqb Pos.eqb].
  rewrite (run_scan_arr f rs) by (try assumption; apply (size_ok_arr f rs); assumption).
  apply scan_all.
  - intros r p more Hin. rewrite forallb_forall in Hsh. specialize (Hsh r Hin). unfold red_arr_spec.
    destruct (red_elem r) as [[[[p' i'] o] x]|] eqn:Er; [|discriminate].
    rewrite (redeemer_arr_step_enc _ _ _ r more p' i' o x); auto.
    + apply (arr_wf_in rs r f Hw Hin).
    + apply (size_ok_child f rs r Hw Hsz Hin).
  - intros x Hin. apply (arr_no_break rs x f Hw Hin).
  - apply end_break.
  - apply end_count.
  - pose proof (arr_count_le f rs Hw). lia.
Qed.

Lemma redeemer_offsets_map f kvs base : wf (Map f kvs) -> size_ok (Map f kvs) -> red_map_shape (Map f kvs) = true ->
  redeemer_offsets (enc (Map f kvs)) base = spec_run enc_kv (red_map_spec (base + hdr_size f)) 0 kvs.
Proof.
  intros Hw Hsz Hsh. cbn [red_map_shape] in Hsh. unfold redeemer_offsets.
  destruct (map_first f kvs Hw) as (b & t & E & Hb). rewrite E at 1. rewrite Hb. cbn [N.eqb Pos.eqb].
  rewrite (run_scan_map f kvs) by (try assumption; apply (size_ok_map f kvs); assumption).
  apply scan_all.
  - intros [k v] p more Hin. rewrite forallb_forall in Hsh. specialize (Hsh _ Hin). unfold red_map_spec.
    destruct (red_entry (k, v)) as [[[[p' i'] o] x]|] eqn:Er; [|discriminate].
    destruct (wf_kv_in _ _ _ _ Hw Hin) as [Hk Hv].
    rewrite (redeemer_map_step_enc _ _ _ (k, v) more p' i' o x); auto.
    apply In_nth_error in Hin. destruct Hin as [j Hj]. eapply size_ok_located; [|exact Hsz].
      apply (located_map_value _ 0 f kvs j k v (located_self _) Hj).
  - intros kv Hin. eapply kv_no_break; eauto.
  - apply end_break.
  - apply end_count.
  - pose proof (map_count_le f kvs Hw). lia.
Qed.

(* ---- extractWitnessComponentOffsets ---- *)
Definition script_type (key : N) : option N :=
  if (key =? 1)%N then Some 0%N else if (key =? 3)%N then Some 1%N else if (key =? 6)%N then Some 2%N
  else if (key =? 7)%N then Some 3%N else if (key =? 8)%N then Some 4%N else None.

Definition wit_spec (base hs pos : nat) (kv : item * item) : list comp :=
  match fst kv with
  | UInt _ key =>
      let abs := base + hs + (pos + length (enc (fst kv))) in
      let value := enc (snd kv) in
      let scripts ty := map (CScript ty) (script_offsets value abs) in
      if (key =? 4)%N then map CDatum (datum_offsets value abs)
      else if (key =? 5)%N then map (fun kr => CRedeemer (fst kr) (snd kr)) (redeemer_offsets value abs)
      else if (key =? 1)%N then scripts 0%N
      else if (key =? 3)%N then scripts 1%N
      else if (key =? 6)%N then scripts 2%N
      else if (key =? 7)%N then scripts 3%N
      else if (key =? 8)%N then scripts 4%N
      else []
  | _ => []
  end.

Lemma witness_components_spec f kvs base : wf (Map f kvs) -> size_ok (Map f kvs) -> uint_keys (Map f kvs) = true ->
  witness_components (enc (Map f kvs)) base = spec_run enc_kv (wit_spec base (hdr_size f)) 0 kvs.
Proof.
  intros Hw Hsz Hk. cbn [uint_keys] in Hk. pose proof (size_ok_map _ _ Hw Hsz) as Hcnt.
  unfold witness_components.
  destruct (Nat.ltb_spec (length (enc (Map f kvs))) 2) as [Hlt|_].
  { assert (kvs = []).
    { rewrite enc_length_map in Hlt. pose proof (hdr_size_pos f).
      destruct kvs as [|[k v] r]; [reflexivity|]. exfalso. cbn [unpair flat_map] in Hlt. rewrite !app_length in Hlt.
      destruct (wf_kv_in f ((k, v) :: r) k v Hw (or_introl eq_refl)) as [Hk' Hv'].
      pose proof (enc_nonempty k Hk'). pose proof (enc_nonempty v Hv'). lia. }
    subst kvs. reflexivity. }
  rewrite run_scan_map by assumption. apply scan_all.
  - intros [k v] p more Hin. destruct (wf_kv_in _ _ _ _ Hw Hin) as [Hwk Hwv].
    rewrite forallb_forall in Hk. specialize (Hk _ Hin). cbn [fst] in Hk.
    destruct k as [fk n| | | | | | | | | | ]; try discriminate.
    unfold enc_kv, witness_step, wit_spec. cbn [fst snd]. rewrite <- app_assoc.
    rewrite sd_uint_enc by exact Hwk. rewrite parse_full_enc by exact Hwv. rewrite consumed_app, app_length. reflexivity.
  - intros kv Hin. eapply kv_no_break; eauto.
  - apply end_break.
  - apply end_count.
  - pose proof (map_count_le f kvs Hw). lia.
Qed.

Lemma walk_in xs : forall pos r, In r (walk pos (map enc xs)) ->
  exists m x, nth_error xs m = Some x /\ r = (pos + length (flat_map enc (firstn m xs)), length (enc x)).
Proof.
  induction xs as [|a l IH]; intros pos r H; [destruct H|]. cbn [map walk] in H. destruct H as [<-|H].
  - exists 0, a. cbn. rewrite Nat.add_0_r. auto.
  - apply IH in H. destruct H as (m & x & Hn & ->). exists (S m), x. cbn [nth_error firstn flat_map].
    rewrite app_length. split; [exact Hn|]. f_equal. lia.
Qed.

Definition is_arr (x : item) : bool := match x with Arr _ _ => true | _ => false end.
(* witness set: a map with unsigned keys; plutus data (4) and the script lists
   (1, 3, 6, 7, 8) are arrays, possibly inside tag wrappers (258 = set);
   redeemers (5) are the Alonzo list form or the Conway map form *)
Definition wit_shape (w : item) : bool :=
  match w with
  | Map _ kvs =>
      forallb (fun kv => match fst kv with
                         | UInt _ key =>
                             if (key =? 4)%N then is_arr (strip_tags (snd kv))
                             else if (key =? 5)%N then red_arr_shape (snd kv) || red_map_shape (snd kv)
                             else match script_type key with Some _ => is_arr (strip_tags (snd kv)) | None => true end
                         | _ => false end) kvs
  | _ => false
  end.

(* which decoded component of the witness set w a reported entry c stands for *)
Definition comp_in (w : item) (c : comp) (x : item) : Prop :=
  exists f kvs j fk key v, w = Map f kvs /\ nth_error kvs j = Some (UInt fk key, v) /\
    match c with
    | CDatum _ => key = 4%N /\ exists fa ds, strip_tags v = Arr fa ds /\ In x ds
    | CScript ty _ => script_type key = Some ty /\ exists fa ss, strip_tags v = Arr fa ss /\ In x ss
    | CRedeemer rk _ => key = 5%N /\
        ((exists fa rs r p i o, v = Arr fa rs /\ In r rs /\ red_elem r = Some (p, i, o, x) /\ rk = mk_key p i) \/
         (exists fa es e p i o, v = Map fa es /\ In e es /\ red_entry e = Some (p, i, o, x) /\ rk = mk_key p i))
    end.

Lemma located_eq B a b x : a = b -> located B a x -> located B b x.
Proof. intros <-. auto. Qed.

Lemma uint_keys_of_shape w : wit_shape w = true -> uint_keys w = true.
Proof.
  destruct w; try discriminate. cbn [wit_shape uint_keys]. intros H. rewrite forallb_forall in *. intros kv Hin.
  specialize (H kv Hin). destruct (fst kv); try discriminate. reflexivity.
Qed.

Theorem witness_components_exact B base w : wf w -> size_ok w -> wit_shape w = true -> located B base w ->
  forall c, In c (witness_components (enc w) base) -> exists x, range_is B (comp_range c) x /\ comp_in w c x.
Proof.
  intros Hw Hsz Hsh HL c Hc. pose proof (uint_keys_of_shape w Hsh) as Hk.
  destruct w as [| | | | | | |f kvs| | | ]; try discriminate.
  rewrite (witness_components_spec f kvs base Hw Hsz Hk) in Hc.
  apply spec_run_in in Hc. destruct Hc as (j & [k v] & Hj & Hc).
  cbn [wit_shape] in Hsh. pose proof (forallb_nth _ _ _ _ Hsh Hj) as Hs1. cbn [fst snd] in Hs1.
  destruct k as [fk key| | | | | | | | | | ]; try discriminate.
  assert (Hin : In (UInt fk key, v) kvs) by (eapply nth_error_In; eauto).
  destruct (wf_kv_in _ _ _ _ Hw Hin) as [Hwk Hwv].
  set (abs := base + (entry_off f kvs j + length (enc (UInt fk key)))).
  assert (Lv : located B abs v) by (apply (located_map_value B base f kvs j _ v HL Hj)).
  assert (Sv : size_ok v) by (eapply size_ok_located; [apply (located_map_value _ 0 f kvs j _ v (located_self _) Hj)|exact Hsz]).
  unfold wit_spec in Hc. cbn [fst snd] in Hc.
  assert (Eabs : base + hdr_size f + (0 + length (flat_map enc_kv (firstn j kvs)) + length (enc (UInt fk key))) = abs)
    by (unfold abs, entry_off; lia).
  rewrite Eabs in Hc. clear Eabs.
  (* the located array inside tag wrappers *)
  assert (Larr : forall fa xs m x, strip_tags v = Arr fa xs -> nth_error xs m = Some x ->
            located B (abs + (tag_size v + hdr_size fa) + length (flat_map enc (firstn m xs))) x).
  { intros fa xs m x Es Hm. pose proof (located_trans _ _ _ _ _ Lv (located_strip v)) as L1. rewrite Es in L1.
    pose proof (located_arr_child _ _ _ _ _ _ L1 Hm) as L2. unfold child_off in L2.
    eapply located_eq; [|exact L2]. lia. }
  assert (Scripts : forall ty, script_type key = Some ty -> In c (map (CScript ty) (script_offsets (enc v) abs)) ->
            exists x, range_is B (comp_range c) x /\ comp_in (Map f kvs) c x).
  { intros ty Hty Hcs. rewrite Hty in Hs1.
    assert (Hs4 : (if (key =? 4)%N then is_arr (strip_tags v) else if (key =? 5)%N then red_arr_shape v || red_map_shape v else is_arr (strip_tags v)) = true) by exact Hs1.
    assert (Ha : is_arr (strip_tags v) = true).
    { unfold script_type in Hty. destruct (N.eqb_spec key 4) as [->|]; [discriminate|]. destruct (N.eqb_spec key 5) as [->|]; [discriminate|exact Hs4]. }
    destruct (strip_tags v) as [| | | | | |fa ss| | | | ] eqn:Es; try discriminate.
    rewrite (script_offsets_spec v abs fa ss Hwv Sv Es) in Hcs. apply in_map_iff in Hcs. destruct Hcs as (r & <- & Hr).
    apply walk_in in Hr. destruct Hr as (m & x & Hm & ->). exists x. split.
    - split; [|reflexivity]. cbn [comp_range fst]. apply (Larr fa ss m x eq_refl Hm).
    - exists f, kvs, j, fk, key, v. repeat split; auto. exists fa, ss. split; [exact Es|eapply nth_error_In; eauto]. }
  destruct (N.eqb_spec key 4) as [->|N4].
  { (* datums *)
    destruct (strip_tags v) as [| | | | | |fa ds| | | | ] eqn:Es; try discriminate.
    rewrite (datum_offsets_spec v abs fa ds Hwv Sv Es) in Hc. apply in_map_iff in Hc. destruct Hc as (r & <- & Hr).
    apply spec_run_in in Hr. destruct Hr as (m & x & Hm & Hr). destruct Hr as [<-|[]]. exists x. split.
    - split; [|reflexivity]. cbn [comp_range fst]. eapply located_eq; [|apply (Larr fa ds m x eq_refl Hm)]. lia.
    - exists f, kvs, j, fk, 4%N, v. repeat split; auto. exists fa, ds. split; [exact Es|eapply nth_error_In; eauto]. }
  destruct (N.eqb_spec key 5) as [->|N5].
  { (* redeemers *)
    apply in_map_iff in Hc. destruct Hc as ([rk r] & <- & Hr). cbn [fst snd comp_range].
    apply orb_true_iff in Hs1. destruct Hs1 as [Ha|Hm].
    - destruct v as [| | | | | |fa rs| | | | ]; try discriminate.
      rewrite (redeemer_offsets_arr fa rs abs Hwv Sv Ha) in Hr. apply spec_run_in in Hr.
      destruct Hr as (m & e & Hme & Hr). unfold red_arr_spec in Hr.
      destruct (red_elem e) as [[[[p i] o] x]|] eqn:Ee; [|destruct Hr]. destruct Hr as [Hr|[]]. injection Hr as <- <-.
      exists x. split.
      + split; [|reflexivity]. cbn [fst].
        pose proof (located_arr_child _ _ _ _ _ _ Lv Hme) as Le.
        destruct e as [| | | | | |fr xs| | | | ]; try discriminate.
        destruct xs as [|[fp p'| | | | | | | | | | ] [|[fi i'| | | | | | | | | | ] [|x' rest]]]; try discriminate.
        cbn [red_elem] in Ee. remember (length (enc (UInt fp p'))) as lp. remember (length (enc (UInt fi i'))) as li.
        injection Ee as <- <- <- <-.
        pose proof (located_arr_child _ _ fr _ 2 x' Le eq_refl) as Lx. unfold child_off in *. cbn [firstn flat_map] in Lx.
        rewrite !app_length in Lx. cbn [length] in Lx. eapply located_eq; [|exact Lx]. subst lp li. lia.
      + exists f, kvs, j, fk, 5%N, (Arr fa rs). repeat split; auto. left. exists fa, rs, e, p, i, o.
        repeat split; auto. eapply nth_error_In; eauto.
    - destruct v as [| | | | | | |fa es| | | ]; try discriminate.
      rewrite (redeemer_offsets_map fa es abs Hwv Sv Hm) in Hr. apply spec_run_in in Hr.
      destruct Hr as (m & e & Hme & Hr). unfold red_map_spec in Hr.
      destruct (red_entry e) as [[[[p i] o] x]|] eqn:Ee; [|destruct Hr]. destruct Hr as [Hr|[]]. injection Hr as <- <-.
      exists x. split.
      + split; [|reflexivity]. cbn [fst]. destruct e as [k' v'].
        pose proof (located_map_value _ _ _ _ _ _ _ Lv Hme) as Le.
        destruct k' as [| | | | | |fk' ks| | | | ]; try discriminate.
        destruct ks as [|[fp p'| | | | | | | | | | ] [|[fi i'| | | | | | | | | | ] [|? ?]]]; try discriminate.
        destruct v' as [| | | | | |fv vs| | | | ]; try discriminate. destruct vs as [|x' vrest]; try discriminate.
        cbn [red_entry] in Ee. remember (length (enc (Arr fk' [UInt fp p'; UInt fi i']))) as lk.
        injection Ee as <- <- <- <-.
        pose proof (located_arr_child _ _ fv _ 0 x' Le eq_refl) as Lx. unfold child_off, entry_off in *. cbn [firstn flat_map length] in Lx.
        eapply located_eq; [|exact Lx]. subst lk. lia.
      + exists f, kvs, j, fk, 5%N, (Map fa es). repeat split; auto. right. exists fa, es, e, p, i, o.
        repeat split; auto. eapply nth_error_In; eauto. }
  (* scripts *)
  destruct (N.eqb_spec key 1) as [->|N1]; [apply (Scripts 0%N eq_refl Hc)|].
  destruct (N.eqb_spec key 3) as [->|N3]; [apply (Scripts 1%N eq_refl Hc)|].
  destruct (N.eqb_spec key 6) as [->|N6]; [apply (Scripts 2%N eq_refl Hc)|].
  destruct (N.eqb_spec key 7) as [->|N7]; [apply (Scripts 3%N eq_refl Hc)|].
  destruct (N.eqb_spec key 8) as [->|N8]; [apply (Scripts 4%N eq_refl Hc)|].
  destruct Hc.
Qed.
