(* C45 - reward calculation.  Model of the INTEGER ENVELOPE of
   ledger/common/rewards.go (CalculateRewards, distributePoolRewards) as it is
   after fixes/C45-clamp-rewards-to-remaining.patch.  No proofs here.

   Every float64 computation of the Go code is an ORACLE: the value
   uint64(<float expression>) enters the model as input data ("raw" amounts,
   arbitrary uint64 values, in the order in which the implementation iterates
   its maps).  uint64 / int64 arithmetic is modelled on Z with the wrap-around
   written out (u64, i64).  The pinned, unfixed code is modelled in
   legacy_* at the end of the file (used to document the defect). *)
From V Require Import Lib.Base.
Local Open Scope Z_scope.

Definition W : Z := 18446744073709551616.          (* 2^64 *)
Definition u64 (x : Z) : Z := x mod W.               (* uint64(x) / wrap of + and - *)
Definition i64 (x : Z) : Z :=                        (* int64(x) *)
  let y := x mod W in if y <? 9223372036854775808 then y else y - W.
Definition in_u64 (x : Z) : Prop := 0 <= x < W.

Definition id := N.

(* ---- CalculateRewards ------------------------------------------------------- *)
(* second pass: for poolID, rawShare := range poolShares { ... } with the fix:
     totalPoolRewards := uint64(float64(pot) * normalizedShare)          (raw: oracle)
     if remaining := pot - totalDistributed; totalPoolRewards > remaining { totalPoolRewards = remaining }
     poolRewardAmounts[poolID] = totalPoolRewards; totalDistributed += totalPoolRewards *)
Fixpoint pass2 (pot : Z) (raws : list (id * Z)) (dist : Z) : list (id * Z) * Z :=
  match raws with
  | [] => ([], dist)
  | (i, raw) :: r =>
      let remaining := u64 (pot - dist) in
      let t := if remaining <? raw then remaining else raw in
      let '(out, d) := pass2 pot r (u64 (dist + t)) in
      ((i, t) :: out, d)
  end.

(* the last-pool adjustment:
     adjustment := int64(pot) - int64(totalDistributed)
     poolRewardAmounts[last] = uint64(int64(poolRewardAmounts[last]) + adjustment) *)
Definition adjust_last (pot dist x : Z) : Z :=
  u64 (i64 x + i64 (i64 pot - i64 dist)).

Fixpoint map_last (f : Z -> Z) (l : list (id * Z)) : list (id * Z) :=
  match l with
  | [] => []
  | [(i, x)] => [(i, f x)]
  | p :: r => p :: map_last f r
  end.

Record calc_result := mkRes {
  r_total_rewards : Z;             (* RewardCalculationResult.TotalRewards *)
  r_pools : list (id * Z);         (* PoolRewards[id].TotalRewards, in second-pass order *)
  r_rewards_pot : Z                (* UpdatedPots.Rewards *)
}.

(* CalculateRewards: tas = snapshot.TotalActiveStake, pot = pots.Rewards, raws =
   the pools that have parameters, in second-pass order, with their raw amounts.
   None = the error "no valid pools found in reward snapshot". *)
Definition calc (tas pot : Z) (raws : list (id * Z)) : option calc_result :=
  if (tas =? 0) || (pot =? 0) then Some (mkRes 0 [] pot)
  else match raws with
  | [] => None
  | _ =>
      let '(amts, dist) := pass2 pot raws 0 in
      let amts' := if negb (dist =? pot) then map_last (adjust_last pot dist) amts else amts in
      Some (mkRes pot amts' 0)
  end.

(* ---- distributePoolRewards -------------------------------------------------- *)
Record dist_in := mkDist {
  d_total : Z;                     (* totalPoolRewards *)
  d_cost : Z;                      (* poolParams.Cost *)
  d_stakes : list Z;               (* every delegatorStake value (for totalPoolStake) *)
  d_op_raw : Z;                    (* oracle: uint64(float64(total-cost) * (margin + (1-margin)*ownerRatio)) *)
  d_delegs : list (id * Z)         (* registered delegators in loop order with the oracle
                                      uint64(stake/totalPoolStake * stakeholderRewardsTotal) *)
}.
Record pool_rewards := mkPR { p_operator : Z; p_delegators : list (id * Z); p_total : Z }.

Definition sum_u64 (l : list Z) : Z := fold_left (fun a s => u64 (a + s)) l 0.

Fixpoint deleg_loop (sh : Z) (ds : list (id * Z)) (assigned : Z) : list (id * Z) * Z :=
  match ds with
  | [] => ([], assigned)
  | (k, raw) :: r =>
      let left := u64 (sh - assigned) in
      let reward := if left <? raw then left else raw in
      let '(out, a) := deleg_loop sh r (u64 (assigned + reward)) in
      ((k, reward) :: out, a)
  end.

Definition distribute (d : dist_in) : pool_rewards :=
  let total := d_total d in let cost := d_cost d in
  let tps := sum_u64 (d_stakes d) in
  if total <=? cost then mkPR total [] total
  else
    let op1 :=
      if 0 <? tps then
        let room := u64 (total - cost) in
        let share := if room <? d_op_raw d then room else d_op_raw d in
        u64 (cost + share)
      else total in
    let sh := u64 (total - op1) in
    let '(drs, assigned) :=
      if (0 <? tps) && (0 <? sh) then deleg_loop sh (d_delegs d) 0 else ([], 0) in
    let op2 := if assigned <? sh then u64 (op1 + u64 (sh - assigned)) else op1 in
    mkPR op2 drs total.

(* ---- the pinned (unfixed) code, for the record ------------------------------- *)
Fixpoint legacy_pass2 (raws : list (id * Z)) (dist : Z) : list (id * Z) * Z :=
  match raws with
  | [] => ([], dist)
  | (i, raw) :: r => let '(out, d) := legacy_pass2 r (u64 (dist + raw)) in ((i, raw) :: out, d)
  end.
Definition legacy_calc (tas pot : Z) (raws : list (id * Z)) : option calc_result :=
  if (tas =? 0) || (pot =? 0) then Some (mkRes 0 [] pot)
  else match raws with
  | [] => None
  | _ =>
      let '(amts, dist) := legacy_pass2 raws 0 in
      let amts' := if negb (dist =? pot) then map_last (adjust_last pot dist) amts else amts in
      Some (mkRes pot amts' 0)
  end.
Fixpoint legacy_deleg_loop (ds : list (id * Z)) (assigned : Z) : list (id * Z) * Z :=
  match ds with
  | [] => ([], assigned)
  | (k, raw) :: r => let '(out, a) := legacy_deleg_loop r (u64 (assigned + raw)) in ((k, raw) :: out, a)
  end.
Definition legacy_distribute (d : dist_in) : pool_rewards :=
  let total := d_total d in let cost := d_cost d in
  let tps := sum_u64 (d_stakes d) in
  if total <=? cost then mkPR total [] total
  else
    let op1 := if 0 <? tps then u64 (cost + d_op_raw d) else total in
    let sh := u64 (total - op1) in
    let '(drs, assigned) :=
      if (0 <? tps) && (0 <? sh) then legacy_deleg_loop (d_delegs d) 0 else ([], 0) in
    let op2 := if assigned <? sh then u64 (op1 + u64 (sh - assigned)) else op1 in
    mkPR op2 drs total.

(* ---- correspondence ----------------------------------------------------------- *)
(* one case = one CalculateRewards call: inputs + oracle values (from the
   verif trace hook) + everything the implementation returned *)
Record pool_obs := mkPO {
  o_id : id;
  o_din : dist_in;                 (* d_total = the total handed to distributePoolRewards *)
  o_operator : Z; o_delegators : list (id * Z); o_total : Z   (* PoolRewards observed *)
}.
Record case := mkCase {
  c_tas : Z; c_pot : Z;
  c_raws : list (id * Z);
  c_err : bool;                    (* CalculateRewards returned an error *)
  c_total_rewards : Z; c_rewards_pot : Z;
  c_pools : list pool_obs          (* in second-pass order *)
}.

Definition idz_eqb (a b : id * Z) : bool := (fst a =? fst b)%N && (snd a =? snd b).
(* delegator rewards are a Go map: compare as sets of (key, amount); keys are unique *)
Definition subset (a b : list (id * Z)) : bool := forallb (fun x => existsb (idz_eqb x) b) a.
Definition same_set (a b : list (id * Z)) : bool :=
  subset a b && subset b a && Nat.eqb (length a) (length b).

Definition check_pool (legacy : bool) (amts : list (id * Z)) (o : pool_obs) : bool :=
  let pr := if legacy then legacy_distribute (o_din o) else distribute (o_din o) in
  existsb (idz_eqb (o_id o, d_total (o_din o))) amts
  && (p_operator pr =? o_operator o) && (p_total pr =? o_total o)
  && same_set (p_delegators pr) (o_delegators o).

Definition check_case_gen (legacy : bool) (c : case) : bool :=
  match (if legacy then legacy_calc else calc) (c_tas c) (c_pot c) (c_raws c) with
  | None => c_err c
  | Some r =>
      negb (c_err c)
      && (r_total_rewards r =? c_total_rewards c) && (r_rewards_pot r =? c_rewards_pot c)
      && Nat.eqb (length (r_pools r)) (length (c_pools c))
      && list_eqb N.eqb (map fst (r_pools r)) (map o_id (c_pools c))
      && forallb (check_pool legacy (r_pools r)) (c_pools c)
  end.
Definition check_case := check_case_gen false.
Definition mismatches : list case -> list nat := failing check_case.
(* the same cases against the model of the pinned code (diagnostic only) *)
Definition legacy_mismatches : list case -> list nat := failing (check_case_gen true).
