(* C45 - lemmas about the integer envelope of the reward calculation. *)
From V Require Import Lib.Base C45.Model.
Local Open Scope Z_scope.

Ltac splits := repeat match goal with |- _ /\ _ => split end.

Definition sumz (l : list Z) : Z := fold_right Z.add 0 l.
Definition amounts (l : list (id * Z)) : list Z := map snd l.

Lemma sumz_cons x l : sumz (x :: l) = x + sumz l.
Proof. reflexivity. Qed.
Lemma sumz_nil : sumz [] = 0.
Proof. reflexivity. Qed.
Lemma sumz_app a b : sumz (a ++ b) = sumz a + sumz b.
Proof. induction a as [|x a IH]; cbn [app]; rewrite ?sumz_cons, ?sumz_nil; lia. Qed.
Lemma sumz_nonneg l : Forall (fun x => 0 <= x) l -> 0 <= sumz l.
Proof. induction 1; rewrite ?sumz_cons, ?sumz_nil; lia. Qed.
Lemma nonneg_amounts l : Forall (fun r : id * Z => 0 <= snd r) l -> Forall (fun x => 0 <= x) (map snd l).
Proof. induction 1; cbn; constructor; auto. Qed.

Lemma W_val : W = 18446744073709551616. Proof. reflexivity. Qed.
Global Opaque W.

Lemma u64_id x : 0 <= x < W -> u64 x = x.
Proof. intros H. unfold u64. apply Z.mod_small. exact H. Qed.

Lemma u64_range x : 0 <= u64 x < W.
Proof. unfold u64. apply Z.mod_pos_bound. rewrite W_val. lia. Qed.

Lemma i64_eqm x : exists k, i64 x = x + k * W.
Proof.
  unfold i64. pose proof (Z.mod_eq x W ltac:(rewrite W_val; lia)) as E.
  destruct (x mod W <? 9223372036854775808).
  - exists (- (x / W)). lia.
  - exists (- (x / W) - 1). lia.
Qed.

(* the int64 round trip of the adjustment is plain modular arithmetic *)
Lemma adjust_last_mod pot dist x : adjust_last pot dist x = (x + pot - dist) mod W.
Proof.
  unfold adjust_last, u64.
  destruct (i64_eqm x) as [k1 ->]. destruct (i64_eqm pot) as [k2 ->]. destruct (i64_eqm dist) as [k3 ->].
  destruct (i64_eqm (pot + k2 * W - (dist + k3 * W))) as [k4 ->].
  replace (x + k1 * W + (pot + k2 * W - (dist + k3 * W) + k4 * W))
    with (x + pot - dist + (k1 + k2 - k3 + k4) * W) by lia.
  apply Z.mod_add. rewrite W_val. lia.
Qed.

(* ---- the clamped accumulation loop (second pass and delegator loop) ---------- *)
Definition nonneg (l : list (id * Z)) : Prop := Forall (fun r => 0 <= snd r) l.

Lemma pass2_spec pot raws : forall dist,
  0 <= dist <= pot -> pot < W -> nonneg raws ->
  let '(out, d) := pass2 pot raws dist in
  dist <= d <= pot
  /\ sumz (amounts out) = d - dist
  /\ map fst out = map fst raws
  /\ Forall (fun o => 0 <= snd o <= pot - dist) out
  /\ Forall2 (fun r o => snd o <= snd r) raws out
  /\ (dist + sumz (amounts raws) <= pot -> out = raws).
Proof.
  induction raws as [|[i raw] r IH]; intros dist Hd Hp Hn; cbn [pass2].
  - cbn. split; [lia|]. split; [lia|]. split; [reflexivity|]. split; [constructor|]. split; [constructor|reflexivity].
  - inversion Hn as [|? ? H0 Hn']; subst. cbn [snd] in H0.
    rewrite (u64_id (pot - dist)) by lia.
    set (t := if pot - dist <? raw then pot - dist else raw).
    assert (Ht : 0 <= t <= pot - dist /\ t <= raw /\ (raw <= pot - dist -> t = raw)).
    { unfold t. destruct (Z.ltb_spec (pot - dist) raw); lia. }
    rewrite (u64_id (dist + t)) by lia.
    specialize (IH (dist + t) ltac:(lia) Hp Hn').
    destruct (pass2 pot r (dist + t)) as [out d].
    destruct IH as (I1 & I2 & I3 & I4 & I5 & I6).
    unfold amounts in *. cbn [map fst snd]. rewrite !sumz_cons.
    split; [lia|]. split; [lia|]. split; [f_equal; exact I3|]. split; [|split].
    + constructor; [cbn; lia|]. eapply Forall_impl; [|exact I4]. cbn. intros; lia.
    + constructor; [cbn; lia|exact I5].
    + intros L.
      assert (0 <= sumz (map snd r)) by (apply sumz_nonneg, nonneg_amounts; exact Hn').
      destruct Ht as (_ & _ & Ht). rewrite Ht by lia. f_equal. apply I6. rewrite Ht by lia. lia.
Qed.

Lemma deleg_loop_pass2 sh ds : forall a, deleg_loop sh ds a = pass2 sh ds a.
Proof.
  induction ds as [|[k raw] r IH]; intros a; cbn [deleg_loop pass2]; [reflexivity|].
  rewrite IH. reflexivity.
Qed.

(* ---- map_last ----------------------------------------------------------------- *)
Lemma map_last_snoc f l i x : map_last f (l ++ [(i, x)]) = l ++ [(i, f x)].
Proof.
  induction l as [|[j y] l IH]; [reflexivity|].
  cbn [app]. destruct l as [|q l']; [reflexivity|].
  change (map_last f ((j, y) :: (q :: l') ++ [(i, x)])) with ((j, y) :: map_last f ((q :: l') ++ [(i, x)])).
  rewrite IH. reflexivity.
Qed.

Lemma snoc_cases {A} (l : list A) : l = [] \/ exists l' x, l = l' ++ [x].
Proof.
  destruct l as [|a l]; [left; reflexivity|right].
  destruct (@exists_last _ (a :: l)) as (l' & x & E); [discriminate|]. eauto.
Qed.

Lemma sumz_nonneg_le l : Forall (fun x => 0 <= x) l -> forall x, In x l -> x <= sumz l.
Proof.
  induction 1 as [|y l Hy Hl IH]; intros x I; [destruct I|]. rewrite sumz_cons.
  pose proof (sumz_nonneg l Hl). destruct I as [<-|I]; [lia|]. specialize (IH x I). lia.
Qed.

(* ---- CalculateRewards ----------------------------------------------------------- *)
Lemma calc_exact tas pot raws r :
  in_u64 pot -> nonneg raws -> calc tas pot raws = Some r ->
  sumz (amounts (r_pools r)) = r_total_rewards r
  /\ r_total_rewards r + r_rewards_pot r = pot
  /\ Forall (fun o => 0 <= snd o <= pot) (r_pools r)
  /\ (((tas = 0 \/ pot = 0) /\ r_pools r = [] /\ r_total_rewards r = 0)
      \/ (tas <> 0 /\ pot <> 0 /\ raws <> [] /\ map fst (r_pools r) = map fst raws
          /\ r_total_rewards r = pot /\ r_rewards_pot r = 0)).
Proof.
  intros Hp Hn. unfold calc, in_u64 in *.
  destruct ((tas =? 0) || (pot =? 0)) eqn:E0.
  - intros E. injection E as <-. cbn. repeat split; try lia; auto.
    left. split; [|auto]. apply orb_true_iff in E0. lia.
  - apply orb_false_iff in E0. destruct E0 as [T0 P0].
    destruct raws as [|r0 rs] eqn:ER; [discriminate|]. rewrite <- ER in *.
    assert (NE : raws <> []) by (rewrite ER; discriminate).
    pose proof (pass2_spec pot raws 0 ltac:(lia) ltac:(lia) Hn) as PS.
    replace (match raws with [] => None | _ :: _ =>
               let '(amts, dist) := pass2 pot raws 0 in
               Some (mkRes pot (if negb (dist =? pot) then map_last (adjust_last pot dist) amts else amts) 0) end)
      with (let '(amts, dist) := pass2 pot raws 0 in
               Some (mkRes pot (if negb (dist =? pot) then map_last (adjust_last pot dist) amts else amts) 0))
      by (rewrite ER; reflexivity).
    destruct (pass2 pot raws 0) as [amts d].
    destruct PS as (D & S & Ids & Rng & _ & _).
    intros E. injection E as <-. cbn [r_pools r_total_rewards r_rewards_pot].
    destruct (Z.eqb_spec d pot) as [->|ND]; cbn [negb].
    + split; [lia|]. split; [lia|]. split.
      * eapply Forall_impl; [|exact Rng]. cbn; intros; lia.
      * right. repeat split; auto; lia.
    + (* adjustment on the last pool: a non-negative remainder *)
      destruct (snoc_cases amts) as [->|(l' & [i x] & ->)].
      { destruct raws; [congruence|discriminate]. }
      rewrite map_last_snoc, adjust_last_mod.
      unfold amounts in S. rewrite map_app, sumz_app in S. cbn in S.
      assert (Fx : 0 <= x <= pot) by (rewrite Forall_app in Rng; destruct Rng as [_ R]; inversion R; cbn in *; lia).
      assert (Fl : 0 <= sumz (map snd l')).
      { rewrite Forall_app in Rng. destruct Rng as [R _]. clear - R.
        induction R as [|y l Hy Hl IH]; cbn; [lia|]. fold (sumz (map snd l)). lia. }
      rewrite Z.mod_small by lia.
      split; [|split; [lia|split]].
      * unfold amounts. rewrite map_app, sumz_app. cbn. lia.
      * rewrite Forall_app in *. destruct Rng as [R1 R2]. split.
        -- eapply Forall_impl; [|exact R1]. cbn; intros; lia.
        -- constructor; [cbn; lia|constructor].
      * right. repeat split; auto; try lia.
        rewrite map_app in *. cbn in *. exact Ids.
Qed.

Lemma calc_error tas pot raws : calc tas pot raws = None <-> tas <> 0 /\ pot <> 0 /\ raws = [].
Proof.
  unfold calc. destruct (Z.eqb_spec tas 0), (Z.eqb_spec pot 0); cbn [orb];
    try (split; [discriminate|intros (? & ? & ?); congruence]).
  destruct raws as [|r0 rs].
  - split; auto.
  - destruct (pass2 pot (r0 :: rs) 0). split; [discriminate|intros (_ & _ & ?); discriminate].
Qed.

(* when the float shares do not overshoot, the fix changes nothing: every pool
   keeps its raw amount and the last one receives the (non-negative) remainder *)
Lemma calc_faithful tas pot init i x :
  in_u64 pot -> tas <> 0 -> pot <> 0 -> nonneg (init ++ [(i, x)]) ->
  sumz (amounts (init ++ [(i, x)])) <= pot ->
  calc tas pot (init ++ [(i, x)]) =
    Some (mkRes pot (init ++ [(i, x + (pot - sumz (amounts (init ++ [(i, x)]))))]) 0).
Proof.
  intros Hp T0 P0 Hn Hs. unfold calc, in_u64 in *.
  destruct (Z.eqb_spec tas 0); [lia|]. destruct (Z.eqb_spec pot 0); [lia|]. cbn [orb].
  pose proof (pass2_spec pot (init ++ [(i, x)]) 0 ltac:(lia) ltac:(lia) Hn) as PS.
  destruct (init ++ [(i, x)]) as [|r0 rs] eqn:ER; [destruct init; discriminate|]. rewrite <- ER in *.
  destruct (pass2 pot (init ++ [(i, x)]) 0) as [amts d].
  destruct PS as (D & S & _ & _ & _ & Same). rewrite (Same ltac:(lia)) in *.
  destruct (Z.eqb_spec d pot) as [->|ND]; cbn [negb].
  - replace (x + (pot - sumz (amounts (init ++ [(i, x)])))) with x by lia. reflexivity.
  - rewrite map_last_snoc, adjust_last_mod.
    assert (X0 : 0 <= x).
    { unfold nonneg in Hn. rewrite Forall_app in Hn. destruct Hn as [_ R]. inversion R; cbn in *; lia. }
    assert (S0 : 0 <= sumz (amounts init)).
    { unfold nonneg in Hn. rewrite Forall_app in Hn. destruct Hn as [R _].
      apply sumz_nonneg, nonneg_amounts. exact R. }
    assert (E : sumz (amounts (init ++ [(i, x)])) = sumz (amounts init) + x).
    { unfold amounts. rewrite map_app, sumz_app. cbn [map snd]. rewrite sumz_cons, sumz_nil. lia. }
    replace ((x + pot - d) mod W) with (x + (pot - sumz (amounts (init ++ [(i, x)])))); [reflexivity|].
    rewrite Z.mod_small; lia.
Qed.

(* ---- distributePoolRewards -------------------------------------------------------- *)
Lemma distribute_exact d :
  in_u64 (d_total d) -> 0 <= d_cost d -> 0 <= d_op_raw d -> nonneg (d_delegs d) ->
  let pr := distribute d in
  p_total pr = d_total d
  /\ p_operator pr + sumz (amounts (p_delegators pr)) = d_total d
  /\ 0 <= p_operator pr <= d_total d
  /\ Forall (fun x => 0 <= snd x <= d_total d) (p_delegators pr)
  /\ (d_total d <= d_cost d -> p_operator pr = d_total d /\ p_delegators pr = [])
  /\ (d_cost d < d_total d -> d_cost d <= p_operator pr)
  /\ (forall k v, In (k, v) (p_delegators pr) -> exists raw, In (k, raw) (d_delegs d) /\ v <= raw).
Proof.
  intros HT HC HO HN. unfold distribute, in_u64 in *.
  set (T := d_total d) in *. set (C := d_cost d) in *.
  destruct (Z.leb_spec T C) as [LE|GT]; cbn [p_total p_operator p_delegators].
  { cbn. splits; auto; try lia; try (intros k v []). }
  set (tps := sum_u64 (d_stakes d)).
  set (op1 := if 0 <? tps then u64 (C + (if u64 (T - C) <? d_op_raw d then u64 (T - C) else d_op_raw d)) else T).
  assert (O1 : C <= op1 <= T).
  { unfold op1. destruct (0 <? tps); [|lia]. rewrite (u64_id (T - C)) by lia.
    destruct (Z.ltb_spec (T - C) (d_op_raw d)); rewrite u64_id; lia. }
  rewrite (u64_id (T - op1)) by lia.
  set (sh := T - op1) in *.
  assert (SHD : sh = T - op1) by reflexivity. clearbody sh.
  destruct ((0 <? tps) && (0 <? sh)) eqn:EL.
  - rewrite deleg_loop_pass2.
    pose proof (pass2_spec sh (d_delegs d) 0 ltac:(lia) ltac:(lia) HN) as PS.
    destruct (pass2 sh (d_delegs d) 0) as [drs assigned].
    destruct PS as (D & S & Ids & Rng & F2 & _).
    cbn [p_total p_operator p_delegators].
    assert (OP : (if assigned <? sh then u64 (op1 + u64 (sh - assigned)) else op1) = op1 + (sh - assigned)).
    { destruct (Z.ltb_spec assigned sh); [|lia]. rewrite (u64_id (sh - assigned)) by lia. rewrite u64_id by lia. lia. }
    rewrite OP. splits; try lia.
    + eapply Forall_impl; [|exact Rng]. cbn. intros; lia.
    + intros k v I. clear - F2 Ids I.
      revert drs F2 Ids I. induction (d_delegs d) as [|[k0 raw0] ds IH]; intros drs F2 Ids I.
      * inversion F2; subst. destruct I.
      * inversion F2 as [|? [k1 v1] ? ? Hle F2']; subst. cbn in Ids. injection Ids as E1 E2. subst k1.
        destruct I as [E|I].
        -- injection E as <- <-. exists raw0. split; [left; reflexivity|exact Hle].
        -- destruct (IH _ F2' E2 I) as (raw & Ir & L). exists raw. split; [right; exact Ir|exact L].
  - cbn [p_total p_operator p_delegators].
    assert (SH : sh = 0 \/ op1 = T).
    { apply andb_false_iff in EL. destruct EL as [E|E].
      - right. unfold op1. rewrite E. reflexivity.
      - left. lia. }
    destruct (Z.ltb_spec 0 sh) as [P|P]; [|cbn; splits; auto; try lia; try (intros k v [])].
    rewrite Z.sub_0_r. rewrite (u64_id sh) by lia. rewrite u64_id by lia.
    cbn. splits; auto; try lia; try (intros k v []).
Qed.

(* ---- the pinned code: what holds, and exactly when it goes wrong ------------------- *)
Lemma legacy_pass2_spec raws : forall dist, 0 <= dist < W ->
  let '(out, d) := legacy_pass2 raws dist in
  out = raws /\ d = (dist + sumz (amounts raws)) mod W.
Proof.
  induction raws as [|[i raw] r IH]; intros dist Hd; cbn [legacy_pass2].
  - cbn. split; auto. rewrite Z.add_0_r, Z.mod_small; lia.
  - specialize (IH (u64 (dist + raw)) (u64_range _)).
    destruct (legacy_pass2 r (u64 (dist + raw))) as [out d]. destruct IH as [-> ->].
    split; [reflexivity|]. unfold u64. cbn [amounts map sumz fold_right snd]. fold (sumz (map snd r)).
    rewrite Z.add_mod_idemp_l by (rewrite W_val; lia). f_equal. unfold amounts. lia.
Qed.

Lemma legacy_calc_last tas pot init i x :
  tas <> 0 -> pot <> 0 -> in_u64 pot -> in_u64 x ->
  legacy_calc tas pot (init ++ [(i, x)]) =
    Some (mkRes pot (init ++ [(i, (pot - sumz (amounts init)) mod W)]) 0).
Proof.
  intros T0 P0 Hp Hx. unfold legacy_calc, in_u64 in *.
  destruct (Z.eqb_spec tas 0); [lia|]. destruct (Z.eqb_spec pot 0); [lia|]. cbn [orb].
  pose proof (legacy_pass2_spec (init ++ [(i, x)]) 0 ltac:(rewrite W_val; lia)) as PS.
  destruct (init ++ [(i, x)]) as [|r0 rs] eqn:ER; [destruct init; discriminate|]. rewrite <- ER in *.
  destruct (legacy_pass2 (init ++ [(i, x)]) 0) as [amts d]. destruct PS as [-> ->].
  unfold amounts. rewrite map_app, sumz_app. cbn [map sumz fold_right snd]. rewrite Z.add_0_l, Z.add_0_r.
  fold (amounts init). set (S' := sumz (amounts init)).
  destruct (Z.eqb_spec ((S' + x) mod W) pot) as [E|NE]; cbn [negb].
  - do 4 f_equal. (* no adjustment: x itself is (pot - S') mod W *)
    rewrite <- E. rewrite Zminus_mod_idemp_l. replace (S' + x - S') with x by lia.
    rewrite Z.mod_small by lia. reflexivity.
  - rewrite map_last_snoc, adjust_last_mod. do 5 f_equal.
    rewrite Zminus_mod_idemp_r. f_equal. lia.
Qed.

Lemma legacy_calc_mod tas pot init i x :
  tas <> 0 -> pot <> 0 -> in_u64 pot -> in_u64 x ->
  exists r, legacy_calc tas pot (init ++ [(i, x)]) = Some r
    /\ (sumz (amounts (r_pools r))) mod W = pot mod W.
Proof.
  intros. eexists. split; [apply legacy_calc_last; assumption|]. cbn [r_pools].
  unfold amounts. rewrite map_app, sumz_app. cbn. fold (amounts init).
  rewrite Z.add_0_r, Z.add_mod_idemp_r by (rewrite W_val; lia). f_equal. lia.
Qed.

Lemma legacy_calc_exact_iff tas pot init i x :
  tas <> 0 -> pot <> 0 -> in_u64 pot -> in_u64 x -> nonneg init ->
  exists r, legacy_calc tas pot (init ++ [(i, x)]) = Some r
    /\ ((sumz (amounts (r_pools r)) = pot /\ Forall (fun o => 0 <= snd o <= pot) (r_pools r))
        <-> sumz (amounts init) <= pot).
Proof.
  intros T0 P0 Hp Hx Hn. eexists. split; [apply legacy_calc_last; assumption|]. cbn [r_pools].
  unfold amounts. rewrite map_app, sumz_app. cbn [map sumz fold_right snd]. fold (amounts init).
  set (S' := sumz (amounts init)). rewrite Z.add_0_r.
  assert (M : 0 <= (pot - S') mod W < W) by (apply Z.mod_pos_bound; rewrite W_val; lia).
  unfold in_u64 in *. split.
  - intros [E _]. lia.
  - intros L.
    assert (S0 : 0 <= S').
    { unfold S', amounts. clear - Hn. induction Hn as [|y l Hy Hl IH]; cbn; [lia|]. fold (sumz (map snd l)). lia. }
    rewrite Z.mod_small by lia. split; [lia|].
    rewrite Forall_app. split.
    + apply Forall_forall. intros [k v] I. cbn.
      assert (v <= S').
      { apply (sumz_nonneg_le (amounts init)).
        - unfold amounts. clear - Hn. induction Hn; cbn; constructor; auto.
        - unfold amounts. change v with (snd (k, v)). apply in_map. exact I. }
      unfold nonneg in Hn. rewrite Forall_forall in Hn. specialize (Hn _ I). cbn in Hn. lia.
    + constructor; [cbn; lia|constructor].
Qed.
