(* C45 - property theorems only (proofs are in C45/Proofs.v).
   The model is the code after fixes/C45-clamp-rewards-to-remaining.patch.
   "raws" are the uint64 conversions of the float64 results - arbitrary data:
   the theorems hold whatever the floating-point computations produce. *)
From V Require Import Lib.Base C45.Model C45.Proofs.
Local Open Scope Z_scope.

(* Whenever CalculateRewards succeeds: the pool totals add up exactly to
   TotalRewards, TotalRewards plus what stays in the rewards pot is the pot
   (TotalRewards = pot unless there was nothing to distribute), no total
   exceeds the pot or is negative (no wrap-around), and exactly the pools with
   parameters are rewarded. *)
Theorem C45_exact : forall tas pot raws r,
  in_u64 pot -> nonneg raws -> calc tas pot raws = Some r ->
  sumz (amounts (r_pools r)) = r_total_rewards r
  /\ r_total_rewards r + r_rewards_pot r = pot
  /\ Forall (fun o => 0 <= snd o <= pot) (r_pools r)
  /\ (((tas = 0 \/ pot = 0) /\ r_pools r = [] /\ r_total_rewards r = 0)
      \/ (tas <> 0 /\ pot <> 0 /\ raws <> [] /\ map fst (r_pools r) = map fst raws
          /\ r_total_rewards r = pot /\ r_rewards_pot r = 0)).
Proof. exact calc_exact. Qed.
Print Assumptions C45_exact.

(* the only failure: something to distribute but no pool with parameters *)
Theorem C45_error : forall tas pot raws,
  calc tas pot raws = None <-> tas <> 0 /\ pot <> 0 /\ raws = [].
Proof. exact calc_error. Qed.

(* the fix is inert when the float shares do not overshoot the pot: every pool
   keeps its float share, the last pool of the iteration gets the remainder *)
Theorem C45_faithful : forall tas pot init i x,
  in_u64 pot -> tas <> 0 -> pot <> 0 -> nonneg (init ++ [(i, x)]) ->
  sumz (amounts (init ++ [(i, x)])) <= pot ->
  calc tas pot (init ++ [(i, x)]) =
    Some (mkRes pot (init ++ [(i, x + (pot - sumz (amounts (init ++ [(i, x)]))))]) 0).
Proof. exact calc_faithful. Qed.

(* distributePoolRewards: operator + delegators = pool total exactly, nothing
   exceeds the pool total, the operator gets at least the cost (or everything
   when the total does not cover it), no delegator gets more than its float share *)
Theorem C45_pool : forall d,
  in_u64 (d_total d) -> 0 <= d_cost d -> 0 <= d_op_raw d -> nonneg (d_delegs d) ->
  let pr := distribute d in
  p_total pr = d_total d
  /\ p_operator pr + sumz (amounts (p_delegators pr)) = d_total d
  /\ 0 <= p_operator pr <= d_total d
  /\ Forall (fun x => 0 <= snd x <= d_total d) (p_delegators pr)
  /\ (d_total d <= d_cost d -> p_operator pr = d_total d /\ p_delegators pr = [])
  /\ (d_cost d < d_total d -> d_cost d <= p_operator pr)
  /\ (forall k v, In (k, v) (p_delegators pr) -> exists raw, In (k, raw) (d_delegs d) /\ v <= raw).
Proof. exact distribute_exact. Qed.
Print Assumptions C45_pool.

(* ---- the pinned (unfixed) code: what holds and exactly when it breaks ---------- *)
(* the pool totals are right modulo 2^64 ... *)
Theorem C45_unfixed_mod : forall tas pot init i x,
  tas <> 0 -> pot <> 0 -> in_u64 pot -> in_u64 x ->
  exists r, legacy_calc tas pot (init ++ [(i, x)]) = Some r
    /\ (sumz (amounts (r_pools r))) mod W = pot mod W.
Proof. exact legacy_calc_mod. Qed.

(* ... and exact (sum = pot, every total within [0, pot]) IF AND ONLY IF the
   float shares of all pools but the last-iterated one fit into the pot;
   otherwise the last pool's total wraps around *)
Theorem C45_unfixed_exact_iff : forall tas pot init i x,
  tas <> 0 -> pot <> 0 -> in_u64 pot -> in_u64 x -> nonneg init ->
  exists r, legacy_calc tas pot (init ++ [(i, x)]) = Some r
    /\ ((sumz (amounts (r_pools r)) = pot /\ Forall (fun o => 0 <= snd o <= pot) (r_pools r))
        <-> sumz (amounts init) <= pot).
Proof. exact legacy_calc_exact_iff. Qed.

(* the witness observed on the pinned code: pot = 2^53+3, pool 0 has the whole
   share (float64(pot)*1.0 = pot+1), pool 1 a zero share and is iterated last *)
Theorem C45_unfixed_refuted :
  exists tas pot raws r, legacy_calc tas pot raws = Some r
    /\ r_pools r = [(0%N, 9007199254740996); (1%N, 18446744073709551615)]
    /\ pot = 9007199254740995
    /\ sumz (amounts (r_pools r)) <> pot.
Proof.
  exists 1000000, 9007199254740995, [(0%N, 9007199254740996); (1%N, 0)].
  eexists. split; [vm_compute; reflexivity|]. cbn [r_pools]. repeat split. vm_compute. congruence.
Qed.
(* same inputs through the fixed code: pool 0 is clamped to the pot *)
Example C45_fixed_on_witness :
  calc 1000000 9007199254740995 [(0%N, 9007199254740996); (1%N, 0)]
  = Some (mkRes 9007199254740995 [(0%N, 9007199254740995); (1%N, 0)] 0).
Proof. vm_compute. reflexivity. Qed.

(* pinned distributePoolRewards, observed: margin 1, total 2^53+3, cost 0: the
   operator share float64(total)*1.0 = total+1, the stakeholder total wraps *)
Theorem C45_unfixed_pool_refuted :
  exists d, let pr := legacy_distribute d in
    in_u64 (d_total d) /\ p_operator pr + sumz (amounts (p_delegators pr)) <> d_total d
    /\ d_total d < p_operator pr.
Proof.
  exists (mkDist 9007199254740995 0 [7] 9007199254740996 [(1%N, 9223372036854775808)]).
  vm_compute. repeat split; congruence.
Qed.
Example C45_fixed_pool_on_witness :
  distribute (mkDist 9007199254740995 0 [7] 9007199254740996 [(1%N, 9223372036854775808)])
  = mkPR 9007199254740995 [] 9007199254740995.
Proof. vm_compute. reflexivity. Qed.
Print Assumptions C45_unfixed_refuted.

(* non-vacuity: a distribution with clamping in the middle and a remainder *)
Example C45_nonvacuous :
  calc 5 100 [(0%N, 60); (1%N, 70); (2%N, 0)] = Some (mkRes 100 [(0%N, 60); (1%N, 40); (2%N, 0)] 0)
  /\ calc 5 100 [(0%N, 30); (1%N, 30)] = Some (mkRes 100 [(0%N, 30); (1%N, 70)] 0)
  /\ distribute (mkDist 1000 100 [50; 50] 90 [(1%N, 400); (2%N, 405)]) = mkPR 195 [(1%N, 400); (2%N, 405)] 1000
  /\ distribute (mkDist 1000 100 [50; 50] 90 [(1%N, 400); (2%N, 500)]) = mkPR 190 [(1%N, 400); (2%N, 410)] 1000.
Proof. vm_compute. repeat split; reflexivity. Qed.
