(* C25 - call SEQUENCES of the local-state-query client across acquire / re-acquire /
   release (protocol/localstatequery/client.go: acquire, release, handleAcquired, runQuery,
   getCurrentEra and the query wrappers).  Calls are critical sections under busyMutex
   (C25_mutual_exclusion), so a sequence is modelled sequentially.  The server answers
   request number i with a reply carrying i; the reply to a CurrentEra query carries the
   era [era_at i].  [store] says whether getCurrentEra keeps its result in c.currentEra
   (the pinned code never does; the theorems hold either way because handleAcquired and
   release reset the cache). *)
From V Require Import Lib.Base.

Inductive lcall := CAcquire (target : nat) (* 0 point, 1 volatile tip, 2 immutable tip *)
                 | CRelease | CEra | CShelley (* era-dependent query, e.g. GetEpochNo *)
                 | CPlain (* era-independent query: GetChainPoint, GetSystemStart, GetChainBlockNo *).
Inductive lreq := RAcquire (target : nat) | RReacquire (target : nat) | RRelease
                | REraQ | RShelleyQ (era : nat) | RPlainQ.

Record lst := {
  acq : bool;               (* c.acquired *)
  cache : option nat;       (* c.currentEra (-1 = None) *)
  nreq : nat;               (* requests sent so far = index of the next request *)
  fresh : list nat          (* ghost: indices of the CurrentEra requests sent since the last (re-)acquire / release *)
}.

(* one call: the requests it puts on the wire (with their indices) and its result *)
Record outcome := { o_reqs : list (nat * lreq); o_result : option nat }.

Section Server.
Variable era_at : nat -> nat.   (* the era the server reports in its reply to request i *)
Variable store : bool.

(* runQuery's implicit acquire: if !c.acquired { c.acquire(AcquireVolatileTip{}) } ; handleAcquired resets the cache *)
Definition ensure_acq (s : lst) : lst * list (nat * lreq) :=
  if acq s then (s, [])
  else ({| acq := true; cache := None; nreq := S (nreq s); fresh := [] |}, [(nreq s, RAcquire 1)]).

(* getCurrentEra *)
Definition get_era (s : lst) : lst * list (nat * lreq) * nat :=
  match cache s with
  | Some e => (s, [], e)
  | None =>
      let '(s1, r1) := ensure_acq s in
      let i := nreq s1 in
      let e := era_at i in
      ({| acq := acq s1; cache := if store then Some e else None; nreq := S i; fresh := fresh s1 ++ [i] |},
       r1 ++ [(i, REraQ)], e)
  end.

Definition do_call (s : lst) (c : lcall) : lst * outcome :=
  match c with
  | CAcquire t =>
      let r := if acq s then RReacquire t else RAcquire t in
      ({| acq := true; cache := None; nreq := S (nreq s); fresh := [] |},
       {| o_reqs := [(nreq s, r)]; o_result := None |})
  | CRelease =>
      ({| acq := false; cache := None; nreq := S (nreq s); fresh := [] |},
       {| o_reqs := [(nreq s, RRelease)]; o_result := None |})
  | CEra =>
      let '(s1, r1, e) := get_era s in
      (s1, {| o_reqs := r1; o_result := Some e |})
  | CShelley =>
      let '(s1, r1, e) := get_era s in
      let '(s2, r2) := ensure_acq s1 in
      let i := nreq s2 in
      ({| acq := acq s2; cache := cache s2; nreq := S i; fresh := fresh s2 |},
       {| o_reqs := r1 ++ r2 ++ [(i, RShelleyQ e)]; o_result := Some i |})
  | CPlain =>
      let '(s1, r1) := ensure_acq s in
      let i := nreq s1 in
      ({| acq := acq s1; cache := cache s1; nreq := S i; fresh := fresh s1 |},
       {| o_reqs := r1 ++ [(i, RPlainQ)]; o_result := Some i |})
  end.

Fixpoint do_calls (s : lst) (cs : list lcall) : lst * list outcome :=
  match cs with
  | [] => (s, [])
  | c :: r => let '(s1, o) := do_call s c in let '(s2, os) := do_calls s1 r in (s2, o :: os)
  end.
End Server.

Definition linit : lst := {| acq := false; cache := None; nreq := 0; fresh := [] |}.

(* ---- correspondence: the observed sequence = calls with the requests each one caused
   (kind + era carried by a Shelley query) and its result; eras = the era the server put
   into its reply to request i (0 for other requests) ---- *)
Definition lreq_eqb (a b : lreq) : bool :=
  match a, b with
  | RAcquire x, RAcquire y | RReacquire x, RReacquire y => Nat.eqb x y
  | RRelease, RRelease | REraQ, REraQ | RPlainQ, RPlainQ => true
  | RShelleyQ x, RShelleyQ y => Nat.eqb x y
  | _, _ => false
  end.
Definition req_eqb (a b : nat * lreq) := Nat.eqb (fst a) (fst b) && lreq_eqb (snd a) (snd b).
Definition outcome_eqb (a b : outcome) :=
  list_eqb req_eqb (o_reqs a) (o_reqs b) && opt_eqb Nat.eqb (o_result a) (o_result b).

Record scase := { s_calls : list lcall; s_eras : list nat; s_obs : list outcome }.
Definition check_scase (c : scase) : bool :=
  list_eqb outcome_eqb (snd (do_calls (fun i => nth i (s_eras c) 0) false linit (s_calls c))) (s_obs c).
Definition smismatches := failing check_scase.
