(* C25 - acquire / re-acquire / release sequences: era-dependent calls never use an era
   obtained before the last (re-)acquire. *)
From V Require Import Lib.Base C25.Seq.

Section Server.
Variable era_at : nat -> nat.
Variable store : bool.

Definition SInv (s : lst) : Prop :=
  (forall e, cache s = Some e -> acq s = true /\ exists i, In i (fresh s) /\ e = era_at i)
  /\ (store = false -> cache s = None).

Lemma sinv_init : SInv linit.
Proof. split; [discriminate|reflexivity]. Qed.

Lemma ensure_acq_spec s s1 r :
  SInv s -> ensure_acq s = (s1, r) ->
  SInv s1 /\ acq s1 = true /\ nreq s <= nreq s1 /\
  ((acq s = true /\ s1 = s /\ r = []) \/ (acq s = false /\ r = [(nreq s, RAcquire 1)] /\ fresh s1 = [] /\ cache s1 = None)).
Proof.
  intros I E. unfold ensure_acq in E. destruct (acq s) eqn:EA; injection E as <- <-.
  - split; [exact I|]. split; [exact EA|]. split; [lia|]. left. auto.
  - split; [split; [discriminate|reflexivity]|]. cbn. split; [reflexivity|]. split; [lia|]. right. auto.
Qed.

(* what getCurrentEra returns is the reply to a CurrentEra request sent since the last
   (re-)acquire; without a stored cache it is the reply to the request this very call sent *)
Lemma get_era_spec s s1 r e :
  SInv s -> get_era era_at store s = (s1, r, e) ->
  SInv s1 /\ acq s1 = true /\
  (exists i, In i (fresh s1) /\ e = era_at i) /\
  (store = false -> exists i, In (i, REraQ) r /\ e = era_at i /\ nreq s <= i < nreq s1).
Proof.
  intros I E. pose proof I as [I1 I2]. unfold get_era in E. destruct (cache s) as [c|] eqn:EC.
  - injection E as <- <- <-. destruct (I1 _ eq_refl) as (A & i & Hi & ->).
    split; [exact I|]. split; [exact A|]. split; [eauto|].
    intros S. specialize (I2 S). discriminate.
  - destruct (ensure_acq s) as [s0 r0] eqn:EE. injection E as <- <- <-.
    destruct (ensure_acq_spec _ _ _ I EE) as ([J1 J2] & A & L & _).
    split; [|split; [exact A|split]].
    + split; cbn.
      * intros e0 H. destruct store; [|discriminate]. injection H as <-.
        split; [exact A|]. exists (nreq s0). split; [apply in_or_app; right; left; reflexivity|reflexivity].
      * intros ->. reflexivity.
    + exists (nreq s0). cbn. split; [apply in_or_app; right; left; reflexivity|reflexivity].
    + intros _. exists (nreq s0). cbn. split; [apply in_or_app; right; left; reflexivity|]. split; [reflexivity|lia].
Qed.

(* the statement about one call, given the invariant before it *)
Definition call_ok (c : lcall) (s' : lst) (o : outcome) : Prop :=
  match c with
  | CEra => exists i, In i (fresh s') /\ o_result o = Some (era_at i)
            /\ (store = false -> In (i, REraQ) (o_reqs o))
  | CShelley => exists i j, In i (fresh s') /\ In (j, RShelleyQ (era_at i)) (o_reqs o) /\ o_result o = Some j
            /\ (store = false -> In (i, REraQ) (o_reqs o) /\ i < j)
  | CPlain => exists j, In (j, RPlainQ) (o_reqs o) /\ o_result o = Some j
  | CAcquire _ | CRelease => fresh s' = [] /\ cache s' = None /\ length (o_reqs o) = 1
  end.

Lemma do_call_spec s c s' o :
  SInv s -> do_call era_at store s c = (s', o) -> SInv s' /\ call_ok c s' o.
Proof.
  intros I E. destruct c; cbn in E.
  - injection E as <- <-. split; [split; [discriminate|reflexivity]|]. cbn. auto.
  - injection E as <- <-. split; [split; [discriminate|reflexivity]|]. cbn. auto.
  - destruct (get_era era_at store s) as [[s1 r1] e] eqn:EG. injection E as <- <-.
    destruct (get_era_spec _ _ _ _ I EG) as (J & A & (i & Hi & ->) & O).
    split; [exact J|]. cbn.
    destruct store eqn:ES.
    + exists i. repeat split; auto. discriminate.
    + destruct (O eq_refl) as (i' & Hin & He & _).
      (* the own request is the one in fresh as well *)
      unfold get_era in EG. destruct J as [_ J2]. destruct I as [_ I2]. rewrite (I2 ES) in EG.
      destruct (ensure_acq s) as [s0 r0]. injection EG as <- <- EQ.
      exists (nreq s0). cbn. rewrite EQ. split; [apply in_or_app; right; left; reflexivity|].
      split; [reflexivity|]. intros _. apply in_or_app; right; left; reflexivity.
  - destruct (get_era era_at store s) as [[s1 r1] e] eqn:EG.
    destruct (ensure_acq s1) as [s2 r2] eqn:EE. injection E as <- <-.
    destruct (get_era_spec _ _ _ _ I EG) as (J & A & (i & Hi & ->) & O).
    destruct (ensure_acq_spec _ _ _ J EE) as (K & A2 & L & [(_ & -> & ->)|(F & _)]); [|congruence].
    split; [destruct K as [K1 K2]; split; cbn; auto|]. cbn.
    destruct store eqn:ES.
    + exists i, (nreq s1). repeat split; auto; try discriminate.
      apply in_or_app; right. left. reflexivity.
    + unfold get_era in EG. destruct I as [_ I2]. rewrite (I2 ES) in EG.
      destruct (ensure_acq s) as [s0 r0]. injection EG as <- <- EQ.
      exists (nreq s0), (S (nreq s0)). cbn. rewrite EQ.
      split; [apply in_or_app; right; left; reflexivity|].
      split; [apply in_or_app; right; left; reflexivity|].
      split; [reflexivity|]. intros _. split; [|lia].
      apply in_or_app; left. apply in_or_app; right; left; reflexivity.
  - destruct (ensure_acq s) as [s1 r1] eqn:EE. injection E as <- <-.
    destruct (ensure_acq_spec _ _ _ I EE) as ([K1 K2] & _).
    split; [split; cbn; auto|]. cbn. exists (nreq s1). split; [apply in_or_app; right; left; reflexivity|reflexivity].
Qed.

Lemma do_calls_inv cs : forall s s' os, SInv s -> do_calls era_at store s cs = (s', os) -> SInv s'.
Proof.
  induction cs as [|c r IH]; intros s s' os I E; cbn in E.
  - injection E as <- _. exact I.
  - destruct (do_call era_at store s c) as [s1 o] eqn:E1.
    destruct (do_calls era_at store s1 r) as [s2 os2] eqn:E2. injection E as <- _.
    eapply IH; [|exact E2]. eapply do_call_spec; eauto.
Qed.
End Server.
