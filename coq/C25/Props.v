(* C25 - property theorems. *)
From Coq Require Import String.
From V Require Import Lib.Base C25.Model C25.Proofs C25.Gen C25.Seq C25.SeqProofs.

(* For every number of goroutines, every call history (any kinds, in particular acquire /
   re-acquire / query / release / has-tx / next-tx / sizes / submit / get-peers), every
   schedule of callers, server, recvLoop and handler: a call that returns, returns the
   reply whose tag is the number of the request that this call itself put on the wire. *)
Theorem C25_own_reply : forall ls s t k req tag,
  run init ls = Some s -> In (t, k, req, tag) (rets s) -> tag = req.
Proof.
  intros ls s t k req tag HR HIn.
  destruct (inv_run ls init s inv_init HR) as [HF _].
  rewrite Forall_forall in HF. exact (HF _ HIn).
Qed.
Print Assumptions C25_own_reply.

(* the two facts it rests on: at most one request is in flight, and only the holder of
   busy is inside the critical section *)
Theorem C25_one_in_flight : forall ls s,
  run init ls = Some s -> length (flight s) <= 1 /\ (busy s = false -> flight s = []).
Proof.
  intros ls s HR. destruct (inv_run ls init s inv_init HR) as [_ HB].
  destruct (busy s).
  - destruct HB as (t0 & _ & [(k & _ & ->)|(k & r & _ & ->)]); cbn; split; auto; discriminate.
  - destruct HB as [_ ->]. cbn. auto.
Qed.

Theorem C25_mutual_exclusion : forall ls s t1 t2,
  run init ls = Some s -> ~ quiet (th s t1) -> ~ quiet (th s t2) -> t1 = t2.
Proof.
  intros ls s t1 t2 HR H1 H2. destruct (inv_run ls init s inv_init HR) as [_ HB].
  destruct (busy s).
  - destruct HB as (t0 & HQ & _).
    destruct (Nat.eq_dec t1 t0) as [->|N1]; [|exfalso; apply H1; auto].
    destruct (Nat.eq_dec t2 t0) as [->|N2]; [reflexivity|exfalso; apply H2; auto].
  - destruct HB as [HQ _]. exfalso. apply H1. apply HQ.
Qed.

(* non-vacuity: two goroutines, three calls of two kinds, interleaved *)
Example C25_nonvacuous : exists s,
  run init [LCall 0 7; LCall 1 3; LAcquire 1; LSend 1; LCall 2 7; LServe; LDeliver; LRv 1;
            LAcquire 0; LSend 0; LServe; LDeliver; LRv 0; LAcquire 2; LSend 2; LServe; LDeliver; LRv 2] = Some s
  /\ rets s = [(1, 3, 0, 0); (0, 7, 1, 1); (2, 7, 2, 2)].
Proof. eexists. split; vm_compute; reflexivity. Qed.

(* Translator tie (Gen.v is regenerated from protocol/*/client.go on every run): every
   exported Client method of the four packages that reaches SendMessage through its own
   body or unexported helpers takes busyMutex first thing, releases it only by the
   deferred Unlock, i.e. is one critical section as the LTS assumes.  The checker
   returns the offending entries. *)
Definition bad_entries := filter (fun x => negb (snd x)) lock_table.
Theorem C25_lock_discipline : bad_entries = [] /\ 40 <= length lock_table.
Proof. split; [vm_compute; reflexivity|]. vm_compute. repeat constructor. Qed.

(* C25_lsq_sequences.  Local-state-query call sequences across acquire / re-acquire /
   release, for every sequence, every server era assignment, with or without a stored era
   cache: the call made after any prefix satisfies [call_ok]:
   - GetCurrentEra returns the era of the reply to a CurrentEra request sent SINCE the last
     acquire / re-acquire / release (never one from before), and without a stored cache
     (the pinned code) to the request this very call sent;
   - an era-dependent (Shelley) query carries such an era and returns the reply to its own query;
   - an era-independent query returns the reply to its own query;
   - acquire / re-acquire / release send exactly one message and leave no cached era. *)
Theorem C25_lsq_sequences : forall era_at store cs c s os s' o,
  do_calls era_at store linit cs = (s, os) ->
  do_call era_at store s c = (s', o) ->
  call_ok era_at store c s' o.
Proof.
  intros era_at store cs c s os s' o E1 E2.
  pose proof (do_calls_inv era_at store cs _ _ _ (sinv_init era_at store) E1) as I.
  exact (proj2 (do_call_spec era_at store _ _ _ _ I E2)).
Qed.
Print Assumptions C25_lsq_sequences.

(* the seeded failure pattern is excluded: era query, re-acquire, era query -> the second
   call sends its own request (index 3) and returns that reply, not the first one *)
Example C25_lsq_reacquire_example :
  let era_at i := i + 10 in
  snd (do_calls era_at false linit [CAcquire 1; CEra; CAcquire 2; CEra]) =
  [ {| o_reqs := [(0, RAcquire 1)]; o_result := None |};
    {| o_reqs := [(1, REraQ)]; o_result := Some 11 |};
    {| o_reqs := [(2, RReacquire 2)]; o_result := None |};
    {| o_reqs := [(3, REraQ)]; o_result := Some 13 |} ].
Proof. reflexivity. Qed.
