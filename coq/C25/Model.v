(* C25 - the request/response pattern shared by the local-state-query,
   local-tx-monitor, local-tx-submission and peer-sharing clients
   (protocol/<name>/client.go): every API call is

       c.busyMutex.Lock(); defer c.busyMutex.Unlock()
       c.SendMessage(request)
       select { case r := <-c.<kind>ResultChan: return r ; case <-c.DoneChan(): ... }

   and the message handler routes each reply by its message type to the
   UNBUFFERED per-kind result channel.  Any number of goroutines call
   concurrently.  The server is any conforming responder: it answers request
   number i (in wire order) with a reply of the matching kind tagged i.
   Kinds: acquire/re-acquire/release-less calls, query, has-tx, next-tx,
   sizes, submit, get-peers ... - just a finite type here. *)
From V Require Import Lib.Base.

Definition kind := nat.     (* which result channel / reply message type *)
Definition tid := nat.      (* calling goroutine *)

Inductive tpc :=
| TIdle                      (* not in a call *)
| TLock (k : kind)           (* at busyMutex.Lock() *)
| TSend (k : kind)           (* holds busy; about to SendMessage *)
| TWait (k : kind) (req : nat). (* holds busy; sent request number req; blocked on kind k's channel *)

Inductive hpc := HIdle | HSend (k : kind) (tag : nat).  (* handler blocked on <kind>ResultChan <- reply *)

Record st := {
  th : tid -> tpc;
  busy : bool;
  nreq : nat;                       (* requests written so far = number of the next request *)
  unserved : list (kind * nat);     (* requests the server has not answered yet, FIFO *)
  inq : list (kind * nat);          (* replies (kind, tag) not yet taken by recvLoop, FIFO *)
  hp : hpc;
  rets : list (tid * kind * nat * nat)   (* (goroutine, kind, request number, tag of the reply returned) *)
}.

Inductive label :=
| LCall (t : tid) (k : kind)   (* goroutine t starts an API call of kind k *)
| LAcquire (t : tid)
| LSend (t : tid)
| LServe                       (* the server answers its oldest unanswered request *)
| LDeliver                     (* recvLoop takes the next reply and enters the handler for its type *)
| LRv (t : tid).               (* rendezvous on the per-kind channel; t unlocks busy and returns *)

Definition set (f : tid -> tpc) (t : tid) (v : tpc) : tid -> tpc := fun x => if Nat.eqb x t then v else f x.

Definition step (s : st) (l : label) : option st :=
  match l with
  | LCall t k =>
      match th s t with
      | TIdle => Some {| th := set (th s) t (TLock k); busy := busy s; nreq := nreq s; unserved := unserved s;
                         inq := inq s; hp := hp s; rets := rets s |}
      | _ => None
      end
  | LAcquire t =>
      match th s t with
      | TLock k => if busy s then None else
                   Some {| th := set (th s) t (TSend k); busy := true; nreq := nreq s; unserved := unserved s;
                           inq := inq s; hp := hp s; rets := rets s |}
      | _ => None
      end
  | LSend t =>
      match th s t with
      | TSend k => Some {| th := set (th s) t (TWait k (nreq s)); busy := busy s; nreq := S (nreq s);
                           unserved := unserved s ++ [(k, nreq s)]; inq := inq s; hp := hp s; rets := rets s |}
      | _ => None
      end
  | LServe =>
      match unserved s with
      | r :: u => Some {| th := th s; busy := busy s; nreq := nreq s; unserved := u; inq := inq s ++ [r];
                          hp := hp s; rets := rets s |}
      | [] => None
      end
  | LDeliver =>
      match hp s, inq s with
      | HIdle, (k, tag) :: q => Some {| th := th s; busy := busy s; nreq := nreq s; unserved := unserved s; inq := q;
                                        hp := HSend k tag; rets := rets s |}
      | _, _ => None
      end
  | LRv t =>
      match hp s, th s t with
      | HSend k tag, TWait k' req =>
          if Nat.eqb k k' then
            Some {| th := set (th s) t TIdle; busy := false; nreq := nreq s; unserved := unserved s; inq := inq s;
                    hp := HIdle; rets := rets s ++ [(t, k', req, tag)] |}
          else None
      | _, _ => None
      end
  end.

Fixpoint run (s : st) (ls : list label) : option st :=
  match ls with
  | [] => Some s
  | l :: r => match step s l with Some s' => run s' r | None => None end
  end.

Definition init : st :=
  {| th := fun _ => TIdle; busy := false; nreq := 0; unserved := []; inq := []; hp := HIdle; rets := [] |}.

(* ---- a mutant model used in Props to show the theorem is not vacuous: busy released
   right after SendMessage (before the reply is read) lets a call return a foreign tag ---- *)

(* ---- correspondence: an observed history = the order in which requests reached the
   server (goroutine, kind) and what each call returned; replayed with a canonical schedule ---- *)
Inductive ev := ECall (t : tid) (k : kind) | EWire (t : tid) (k : kind) | ERet (t : tid) (k : kind) (tag : nat).
Definition case := list ev.

Definition ret_matches (s : st) (t : tid) (k : kind) (tag : nat) : bool :=
  match rev (rets s) with
  | (t', k', _, tag') :: _ => Nat.eqb t t' && Nat.eqb k k' && Nat.eqb tag tag'
  | [] => false
  end.

Fixpoint replay (s : st) (evs : list ev) : bool :=
  match evs with
  | [] => true
  | ECall t k :: r => match step s (LCall t k) with Some s1 => replay s1 r | None => false end
  | EWire t k :: r =>
      match step s (LAcquire t) with
      | Some s1 => match th s1 t with
                   | TSend k' => if Nat.eqb k k' then match step s1 (LSend t) with Some s2 => replay s2 r | None => false end else false
                   | _ => false end
      | None => false
      end
  | ERet t k tag :: r =>
      match step s LServe with
      | Some s1 => match step s1 LDeliver with
                   | Some s2 => match step s2 (LRv t) with
                                | Some s3 => ret_matches s3 t k tag && replay s3 r
                                | None => false end
                   | None => false end
      | None => false
      end
  end.
Definition check_case (c : case) : bool := replay init c.
Definition mismatches := failing check_case.
