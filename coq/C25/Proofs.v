(* C25 - mutual exclusion + FIFO + kind routing => every call returns its own reply. *)
From V Require Import Lib.Base C25.Model.

Definition quiet (p : tpc) : Prop := match p with TIdle | TLock _ => True | _ => False end.
Definition hitem (h : hpc) : list (kind * nat) := match h with HSend k g => [(k, g)] | HIdle => [] end.
(* everything in flight between the client and the server, oldest first *)
Definition flight (s : st) : list (kind * nat) := hitem (hp s) ++ inq s ++ unserved s.

Definition ret_ok (x : tid * kind * nat * nat) : Prop := match x with (_, _, req, tag) => tag = req end.

Definition Inv (s : st) : Prop :=
  Forall ret_ok (rets s) /\
  if busy s then
    exists t0, (forall t, t <> t0 -> quiet (th s t)) /\
      ((exists k, th s t0 = TSend k /\ flight s = []) \/
       (exists k r, th s t0 = TWait k r /\ flight s = [(k, r)]))
  else (forall t, quiet (th s t)) /\ flight s = [].

Lemma set_same f t v : set f t v t = v.
Proof. unfold set. rewrite Nat.eqb_refl. reflexivity. Qed.
Lemma set_other f t v x : x <> t -> set f t v x = f x.
Proof. unfold set. intros H. apply Nat.eqb_neq in H. rewrite H. reflexivity. Qed.

Lemma inv_init : Inv init.
Proof. split; [constructor|]. cbn. split; [intros; exact I|reflexivity]. Qed.

Lemma app_nil3 {A} (a b c : list A) : a ++ b ++ c = [] -> a = [] /\ b = [] /\ c = [].
Proof. intros H. apply app_eq_nil in H as [-> H]. apply app_eq_nil in H as [-> ->]. auto. Qed.

Lemma inv_step s l s' : Inv s -> step s l = Some s' -> Inv s'.
Proof.
  intros [HR HB] Hs.
  destruct s as [th0 busy0 nreq0 uns0 inq0 hp0 rets0]. unfold flight in *. cbn in *.
  destruct l as [t k|t|t| | |t]; cbn in Hs.
  - (* LCall *)
    destruct (th0 t) eqn:ET; try discriminate. injection Hs as <-. split; [exact HR|]. cbn.
    destruct busy0.
    + destruct HB as (t0 & HQ & HC). exists t0. split.
      * intros x Hx. destruct (Nat.eq_dec x t) as [->|N]; [rewrite set_same; exact I|rewrite set_other; auto].
      * assert (t <> t0) by (intros ->; destruct HC as [(k0 & E & _)|(k0 & r & E & _)]; congruence).
        rewrite set_other by auto. exact HC.
    + destruct HB as [HQ HF]. split; [|exact HF].
      intros x. destruct (Nat.eq_dec x t) as [->|N]; [rewrite set_same; exact I|rewrite set_other; auto].
  - (* LAcquire *)
    destruct (th0 t) eqn:ET; try discriminate. destruct busy0; [discriminate|]. injection Hs as <-.
    split; [exact HR|]. cbn. destruct HB as [HQ HF]. exists t. split.
    + intros x Hx. rewrite set_other by auto. apply HQ.
    + left. exists k. rewrite set_same. auto.
  - (* LSend *)
    destruct (th0 t) eqn:ET; try discriminate. injection Hs as <-. split; [exact HR|]. cbn.
    destruct busy0.
    + destruct HB as (t0 & HQ & HC).
      assert (t = t0) as -> by (destruct (Nat.eq_dec t t0); auto; specialize (HQ t n); rewrite ET in HQ; destruct HQ).
      exists t0. split.
      * intros x Hx. rewrite set_other by auto. auto.
      * right. exists k, nreq0. rewrite set_same. split; [reflexivity|].
        destruct HC as [(k0 & E & HF)|(k0 & r & E & _)]; [|congruence].
        apply app_nil3 in HF as (H1 & H2 & H3). unfold flight; cbn. rewrite H1, H2, H3. reflexivity.
    + destruct HB as [HQ _]. specialize (HQ t). rewrite ET in HQ. destruct HQ.
  - (* LServe *)
    destruct uns0 as [|r u]; [discriminate|]. injection Hs as <-. split; [exact HR|]. cbn.
    destruct busy0.
    + destruct HB as (t0 & HQ & HC). exists t0. split; [exact HQ|].
      destruct HC as [(k0 & E & HF)|(k0 & r0 & E & HF)].
      * apply app_nil3 in HF as (_ & _ & HF). discriminate.
      * right. exists k0, r0. split; [exact E|].
        destruct hp0; cbn in *.
        -- destruct inq0; cbn in *; [|injection HF as _ HF; destruct inq0; discriminate].
           injection HF as -> HF. subst u. reflexivity.
        -- injection HF as _ HF. destruct inq0; discriminate.
    + destruct HB as [_ HF]. apply app_nil3 in HF as (_ & _ & HF). discriminate.
  - (* LDeliver *)
    destruct hp0; [|discriminate]. destruct inq0 as [|[k g] q]; [discriminate|]. injection Hs as <-.
    split; [exact HR|]. cbn in *. destruct busy0.
    + destruct HB as (t0 & HQ & HC). exists t0. split; [exact HQ|].
      destruct HC as [(k0 & E & HF)|(k0 & r0 & E & HF)]; [discriminate|].
      right. exists k0, r0. split; [exact E|exact HF].
    + destruct HB as [_ HF]. discriminate.
  - (* LRv *)
    destruct hp0 as [|k g]; [discriminate|]. destruct (th0 t) eqn:ET; try discriminate.
    destruct (Nat.eqb k k0) eqn:EK; [|discriminate]. apply Nat.eqb_eq in EK. subst k0. injection Hs as <-.
    cbn in *. destruct busy0.
    + destruct HB as (t0 & HQ & HC).
      assert (t = t0) as -> by (destruct (Nat.eq_dec t t0); auto; specialize (HQ t n); rewrite ET in HQ; destruct HQ).
      destruct HC as [(k0 & E & HF)|(k0 & r0 & E & HF)]; [discriminate|].
      rewrite ET in E. injection E as <- <-. injection HF as -> HF.
      split.
      * apply Forall_app. split; [exact HR|]. constructor; [reflexivity|constructor].
      * cbn. split; [|exact HF].
        intros x. destruct (Nat.eq_dec x t0) as [->|N]; [rewrite set_same; exact I|rewrite set_other; auto].
    + destruct HB as [_ HF]. discriminate.
Qed.

Lemma inv_run ls : forall s s', Inv s -> run s ls = Some s' -> Inv s'.
Proof.
  induction ls as [|l r IH]; intros s s' HI HR; cbn in HR.
  - injection HR as <-. exact HI.
  - destruct (step s l) as [s1|] eqn:E; [|discriminate]. eapply IH; [eapply inv_step; eauto|exact HR].
Qed.
