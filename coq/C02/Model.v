(* C02 - decoders are total on arbitrary bytes.

   Totality of a Gallina function says nothing about Go panics, so this model
   makes the PARTIAL operations of the Go text explicit: every data[i] is
   `idx`, every data[a:b] is `slice`, loops are fuel-bounded recursions, and
   the result type has `Panic` and `OutOfFuel` as ordinary values.  The
   theorems (C02/Proofs.v, C02/Props.v) say that these two values are never
   produced, under exactly the guards the Go code has.

   One definition per hand-written byte-level scanner of the repository; the
   comment names the Go function.  fxamacker/cbor (Skip / Decode / DecodeRaw of
   cbor.StreamDecoder, cbor.Decode) is NOT transcribed: it is the Lib parser
   (CborParse.parse_full) filtered by an acceptance predicate `ok`; what the
   model takes from it is only "a successful stream operation consumed exactly
   one well-formed item of the remaining input".
   NO proofs in this file. *)
From V Require Import Lib.Base Lib.Cbor Lib.CborParse.
Local Open Scope N_scope.

(* ---- outcomes ---- *)
Inductive out (A : Type) := Val (a : A) | Err | Panic | OutOfFuel.
Arguments Val {A}. Arguments Err {A}. Arguments Panic {A}. Arguments OutOfFuel {A}.

Definition bind {A B} (r : out A) (k : A -> out B) : out B :=
  match r with Val a => k a | Err => Err | Panic => Panic | OutOfFuel => OutOfFuel end.
Notation "x <- e ;; k" := (bind e (fun x => k)) (at level 61, e at next level, right associativity).

Definition bad {A} (r : out A) : bool := match r with Panic | OutOfFuel => true | _ => false end.

(* data[i]: run-time panic when i is out of range *)
Definition idx (data : bytes) (i : nat) : out N :=
  match nth_error data i with Some b => Val b | None => Panic end.
(* data[a:]  and  data[a:b] *)
Definition slice_from (data : bytes) (a : nat) : out bytes :=
  if Nat.ltb (length data) a then Panic else Val (skipn a data).
Definition slice (data : bytes) (a b : nat) : out bytes :=
  if Nat.ltb b a || Nat.ltb (length data) b then Panic else Val (firstn (b - a) (skipn a data)).

Definition nlen {A} (l : list A) : N := N.of_nat (length l).

(* big-endian read of data[from], ..., data[from+k-1], each through idx *)
Fixpoint rd_idx (data : bytes) (from k : nat) (acc : N) : out N :=
  match k with
  | O => Val acc
  | S k' => b <- idx data from ;; rd_idx data (S from) k' (acc * 256 + b)
  end.

Definition max_int32 : N := 2147483647.
Definition max_int64 : Z := 9223372036854775807%Z.

(* ================================================================== *)
(* cbor.ArrayInfo / cbor.MapInfo / common.cborArrayInfo / common.cborMapInfo
   (one text, the major-type byte differs: 0x80 / 0xa0).
   Returns (count, headerSize, isIndefinite); count = None stands for -1. *)
Definition info (major : N) (data : bytes) : out (option N * nat * bool) :=
  if Nat.eqb (length data) 0 then Val (None, 0%nat, false) else
  b0 <- idx data 0 ;;
  if negb (N.land b0 224 =? major) then Val (None, 0%nat, false) else
  let ai := N.land b0 31 in
  if ai <=? 23 then Val (Some ai, 1%nat, false)
  else if (ai =? 24) && Nat.leb 2 (length data) then v <- rd_idx data 1 1 0 ;; Val (Some v, 2%nat, false)
  else if (ai =? 25) && Nat.leb 3 (length data) then v <- rd_idx data 1 2 0 ;; Val (Some v, 3%nat, false)
  else if (ai =? 26) && Nat.leb 5 (length data) then
    v <- rd_idx data 1 4 0 ;; if max_int32 <? v then Val (None, 0%nat, false) else Val (Some v, 5%nat, false)
  else if (ai =? 27) && Nat.leb 9 (length data) then
    v <- rd_idx data 1 8 0 ;; if max_int32 <? v then Val (None, 0%nat, false) else Val (Some v, 9%nat, false)
  else if ai =? 31 then Val (Some 0, 1%nat, true)
  else Val (None, 0%nat, false).
Definition array_info := info 128.
Definition map_info := info 160.

(* the callers' test  `count < 0 && !indefinite` *)
Definition info_invalid (r : option N * nat * bool) : bool :=
  match r with (None, _, false) => true | _ => false end.

(* cbor.StreamDecoder.DecodeArrayHeader / DecodeMapHeader at absolute
   position abs = consumed + NumBytesRead, followed by Advance(headerLen).
   Returns (length, headerLen) ; the new position is abs + headerLen. *)
Definition decode_header (major : N) (data : bytes) (abs : nat) : out (N * nat) :=
  if Nat.leb (length data) abs then Err else
  b0 <- idx data abs ;;
  if negb (N.land b0 224 =? major) then Err else
  let ai := N.land b0 31 in
  r <- (if ai <? 24 then Val (ai, 1%nat)
        else if ai =? 24 then if Nat.ltb (length data) (abs + 2) then Err else v <- rd_idx data (abs + 1) 1 0 ;; Val (v, 2%nat)
        else if ai =? 25 then if Nat.ltb (length data) (abs + 3) then Err else v <- rd_idx data (abs + 1) 2 0 ;; Val (v, 3%nat)
        else if ai =? 26 then if Nat.ltb (length data) (abs + 5) then Err else
               v <- rd_idx data (abs + 1) 4 0 ;; if max_int32 <? v then Err else Val (v, 5%nat)
        else if ai =? 27 then if Nat.ltb (length data) (abs + 9) then Err else
               v <- rd_idx data (abs + 1) 8 0 ;; if max_int32 <? v then Err else Val (v, 9%nat)
        else Err) ;;
  (* d.Advance(headerLen): newPos > len(d.data) -> error ; d.data[d.consumed:] *)
  let newpos := (abs + snd r)%nat in
  if Nat.ltb (length data) newpos then Err else
  _ <- slice_from data newpos ;; Val r.

(* cbor.cborArrayHeaderSizeFromBytes(data, offset) *)
Definition header_size_from_bytes (data : bytes) (off : nat) : out nat :=
  if Nat.leb (length data) off then Err else
  b0 <- idx data off ;;
  if negb (N.land b0 224 =? 128) then Err else
  let ai := N.land b0 31 in
  if ai <? 24 then Val 1%nat else if ai =? 24 then Val 2%nat else if ai =? 25 then Val 3%nat
  else if ai =? 26 then Val 5%nat else if ai =? 27 then Val 9%nat else Err.

(* cbor.parseCollectionHeader(data, offset): (length, headerLen, indefinite);
   the guards are  offset+k >= len(data)  *)
Definition collection_header (data : bytes) (off : nat) : out (N * nat * bool) :=
  if Nat.leb (length data) off then Err else
  b0 <- idx data off ;;
  let ai := N.land b0 31 in
  if ai <? 24 then Val (ai, 1%nat, false)
  else if ai =? 24 then if Nat.leb (length data) (off + 1) then Err else v <- rd_idx data (off + 1) 1 0 ;; Val (v, 2%nat, false)
  else if ai =? 25 then if Nat.leb (length data) (off + 2) then Err else v <- rd_idx data (off + 1) 2 0 ;; Val (v, 3%nat, false)
  else if ai =? 26 then if Nat.leb (length data) (off + 4) then Err else
         v <- rd_idx data (off + 1) 4 0 ;; if max_int32 <? v then Err else Val (v, 5%nat, false)
  else if ai =? 27 then if Nat.leb (length data) (off + 8) then Err else
         v <- rd_idx data (off + 1) 8 0 ;; if max_int32 <? v then Err else Val (v, 9%nat, false)
  else if ai =? 31 then Val (0, 1%nat, true)
  else Err.

(* cbor.parseTagHeader(data, offset): (tag number, headerLen) *)
Definition tag_header (data : bytes) (off : nat) : out (N * nat) :=
  if Nat.leb (length data) off then Err else
  b0 <- idx data off ;;
  if negb (N.land b0 224 =? 192) then Err else
  let ai := N.land b0 31 in
  if ai <? 24 then Val (ai, 1%nat)
  else if ai =? 24 then if Nat.leb (length data) (off + 1) then Err else v <- rd_idx data (off + 1) 1 0 ;; Val (v, 2%nat)
  else if ai =? 25 then if Nat.leb (length data) (off + 2) then Err else v <- rd_idx data (off + 1) 2 0 ;; Val (v, 3%nat)
  else if ai =? 26 then if Nat.leb (length data) (off + 4) then Err else v <- rd_idx data (off + 1) 4 0 ;; Val (v, 5%nat)
  else if ai =? 27 then if Nat.leb (length data) (off + 8) then Err else v <- rd_idx data (off + 1) 8 0 ;; Val (v, 9%nat)
  else Err.

(* ================================================================== *)
(* Go int arithmetic where the argument is caller-supplied: int64 wrap *)
Local Open Scope Z_scope.
Definition wrap64 (z : Z) : Z := (z + 2^63) mod 2^64 - 2^63.

(* cbor.StreamDecoder.RawBytes(offset, length): None = nil *)
Definition raw_bytes (data : bytes) (offset len : Z) : out (option bytes) :=
  if (offset <? 0) || (len <? 0) then Val None else
  let e := wrap64 (offset + len) in
  if (e <? offset) || (Z.of_nat (length data) <? e) then Val None else
  (* d.data[offset:end] *)
  if (offset <? 0) || (e <? offset) || (Z.of_nat (length data) <? e) then Panic
  else Val (Some (firstn (Z.to_nat (e - offset)) (skipn (Z.to_nat offset) data))).

(* cbor.StreamDecoder.Advance(n) at position pos = consumed + NumBytesRead:
   new position, or Err.  The Go text has no overflow test on pos + n. *)
Definition advance (data : bytes) (pos : nat) (n : Z) : out nat :=
  if n <? 0 then Err else
  let np := wrap64 (Z.of_nat pos + n) in
  if Z.of_nat (length data) <? np then Err else
  (* d.data[d.consumed:] with d.consumed = np *)
  if (np <? 0) || (Z.of_nat (length data) <? np) then Panic else Val (Z.to_nat np).
Local Close Scope Z_scope.

(* ================================================================== *)
(* cbor.ListLength / cbor.DecodeIdFromList with their index expressions.
   `lib_len`, `lib_id` stand for the slow paths (cbor.Decode into []RawMessage /
   into Value + type switch): value or error, decided inside fxamacker. *)
Section idlist.
  Variable lib_len : bytes -> option N.
  Variable lib_id : bytes -> option N.
  Definition of_opt {A} (o : option A) : out A := match o with Some a => Val a | None => Err end.

  Definition list_length (data : bytes) : out N :=
    if Nat.eqb (length data) 0 then Err else
    b0 <- idx data 0 ;;
    if (128 <=? b0) && (b0 <=? 151) then Val (b0 - 128) else of_opt (lib_len data).

  Definition decode_id_from_list (data : bytes) : out N :=
    if Nat.ltb (length data) 2 then Err else
    len <- list_length data ;;
    if len =? 0 then Err else
    b0 <- idx data 0 ;;
    fast <- (if (128 <=? b0) && (b0 <=? 151) && (len <? 23) then
               b1 <- idx data 1 ;; Val (if b1 <=? 23 then Some b1 else None)
             else Val None) ;;
    match fast with Some v => Val v | None => of_opt (lib_id data) end.
End idlist.

(* ================================================================== *)
(* ledger/common/address.go *)
Definition two64 : N := 18446744073709551616.

(* readVarUint (closure in AddressPayloadPointer.decode):
   for offset < len(data) { byt := data[offset]; offset++; ... }
   returns (value, new offset, steps) *)
Fixpoint read_varuint (fuel : nat) (data : bytes) (off : nat) (acc : N) (steps : nat) : out (N * nat * nat) :=
  match fuel with
  | O => OutOfFuel
  | S f =>
    if Nat.ltb off (length data) then
      byt <- idx data off ;;
      let acc' := (acc * 128) mod two64 + N.land byt 127 in
      if N.land byt 128 =? 0 then Val (acc', S off, S steps)
      else read_varuint f data (S off) acc' (S steps)
    else Err    (* io.ErrUnexpectedEOF *)
  end.

(* AddressPayloadPointer.decode: (slot, txIndex, certIndex, offset, steps) *)
Definition decode_pointer (fuel : nat) (data : bytes) : out (N * N * N * nat * nat) :=
  r1 <- read_varuint fuel data 0 0 0 ;;
  let '(s, o1, k1) := r1 in
  r2 <- read_varuint fuel data o1 0 k1 ;;
  let '(t, o2, k2) := r2 in
  r3 <- read_varuint fuel data o2 0 k2 ;;
  let '(c, o3, k3) := r3 in
  Val (s, t, c, o3, k3).

Definition hash_size : nat := 28.
Inductive pkind := PK | PS | PN.
Inductive skind := SK | SS | SP | SN.
(* the case lists of the switch statements of populateFromBytes *)
Definition pay_kind (ty : N) : pkind :=
  if (ty =? 0) || (ty =? 2) || (ty =? 4) || (ty =? 6) then PK
  else if (ty =? 1) || (ty =? 3) || (ty =? 5) || (ty =? 7) then PS else PN.
Definition stake_kind (ty : N) : skind :=
  if (ty =? 0) || (ty =? 1) || (ty =? 14) then SK
  else if (ty =? 2) || (ty =? 3) || (ty =? 15) then SS
  else if (ty =? 4) || (ty =? 5) then SP else SN.
Definition known_type (ty : N) : bool := (ty <=? 7) || (ty =? 14) || (ty =? 15).

(* payload[0:AddressHashSize] converted to a [28]byte (panics when shorter),
   then payload = payload[AddressHashSize:] *)
Definition take_hash (payload : bytes) : out (bytes * bytes) :=
  if Nat.ltb (length payload) hash_size then Err else
  h <- slice payload 0 hash_size ;;
  _ <- (if Nat.eqb (length h) hash_size then Val tt else Panic) ;;
  r <- slice_from payload hash_size ;; Val (h, r).

Record saddr := mkS { s_type : N; s_net : N; s_pay : option bytes; s_stake : option bytes;
                      s_ptr : option (N * N * N); s_extra : bytes }.

Section address.
  (* the Byron branch decodes with fxamacker (reflection): value or error *)
  Variable byron : bytes -> bool.
  Variable known_trailer : bytes -> bool.

  (* (a *Address) populateFromBytes(data); Val None = a Byron address *)
  Definition populate (fuel : nat) (data : bytes) : out (option saddr) :=
    if Nat.eqb (length data) 0 then Err else
    header <- idx data 0 ;;
    let ty := N.shiftr (N.land header 240) 4 in
    let net := N.land header 15 in
    if ty =? 8 then (if byron data then Val None else Err) else
    if negb ((net =? 0) || (net =? 1)) then Err else
    if negb (known_type ty) then Err else
    payload <- slice_from data 1 ;;
    r1 <- (match pay_kind ty with
           | PN => Val (None, payload)
           | _ => hr <- take_hash payload ;; Val (Some (fst hr), snd hr) end) ;;
    let '(pay, p1) := r1 in
    r2 <- (match stake_kind ty with
           | SK | SS => hr <- take_hash p1 ;; Val (Some (fst hr), None, snd hr)
           | SP => d <- decode_pointer fuel p1 ;;
                   let '(s, t, c, n, _) := d in
                   rest <- slice_from p1 n ;; Val (None, Some (s, t, c), rest)
           | SN => Val (None, None, p1) end) ;;
    let '(stk, ptr, p2) := r2 in
    match p2 with
    | [] => Val (Some (mkS ty net pay stk ptr []))
    | _ => if negb (net =? 1) || negb (known_trailer p2) then Err
           else Val (Some (mkS ty net pay stk ptr p2))
    end.
End address.

(* ================================================================== *)
(* cbor.StreamDecoder over fxamacker: position + one operation.
   `ok` is the decode-time acceptance of the destination type (Skip: any
   well-formed item; Decode(&uint64): an unsigned integer; ...). *)
Definition sd_next (ok : item -> bool) (data : bytes) (pos : nat) : option (item * nat) :=
  match parse_full (skipn pos data) with
  | Ok i rest => if ok i then Some (i, (length (skipn pos data) - length rest)%nat) else None
  | _ => None
  end.

Definition any_ok (_ : item) : bool := true.
Definition u64_ok (i : item) : bool := match i with UInt _ _ => true | _ => false end.

(* one callback of ExtractAndSetTransactionCbor: kind 0 = metadata, 1 = body, 2 = witness *)
Definition cb := (N * nat * bytes)%type.
(* callbacks made so far, final status, loop iterations *)
Definition traced := (list cb * out unit * nat)%type.

Section extract.
  Variable ok : item -> bool.

  (* the loop of common.setArrayItemCbor; pos is dec.Position() (relative to
     arrayData[headerSize:]), i is itemIndex *)
  Fixpoint set_items (fuel : nat) (kind : N) (data : bytes) (hs : nat) (indef : bool) (count : N)
      (expected : nat) (pos i : nat) (acc : list cb) (steps : nat) : traced :=
    match fuel with
    | O => (acc, OutOfFuel, steps)
    | S f =>
      let finish := (acc, (if Nat.eqb i expected then Val tt else Err), steps) in
      if negb (indef || (N.of_nat i <? count)) then finish else
      (* if indefinite { pos := headerSize + dec.Position(); if pos >= len || arrayData[pos] == 0xff { break } } *)
      match (if indef then
               if Nat.leb (length data) (hs + pos) then Val true
               else b <- idx data (hs + pos) ;; Val (b =? 255)
             else Val false) with
      | Val true => finish
      | Val false =>
          match sd_next ok (skipn hs data) pos with
          | None => (acc, Err, S steps)
          | Some (_, n) =>
              if Nat.leb expected i then (acc, Err, S steps) else
              (* setItemCbor(itemIndex, arrayData[itemStart:itemStart+itemLen]) *)
              match slice data (hs + pos) (hs + pos + n) with
              | Val s => set_items f kind data hs indef count expected (pos + n) (S i) (acc ++ [(kind, i, s)]) (S steps)
              | _ => (acc, Panic, S steps)
              end
          end
      | Err => (acc, Err, steps) | Panic => (acc, Panic, steps) | OutOfFuel => (acc, OutOfFuel, steps)
      end
    end.

  (* common.setArrayItemCbor *)
  Definition set_array_item_cbor (fuel : nat) (kind : N) (data : bytes) (expected : nat) (acc : list cb) : traced :=
    match array_info data with
    | Val (cnt, hs, indef) =>
        if info_invalid (cnt, hs, indef) then (acc, Err, 0%nat) else
        let count := match cnt with Some c => c | None => 0 end in
        if negb indef && negb (count =? N.of_nat expected) then (acc, Err, 0%nat) else
        (* cbor.NewStreamDecoder(arrayData[headerSize:]) *)
        match slice_from data hs with
        | Val _ => set_items fuel kind data hs indef count expected 0 0 acc 0
        | _ => (acc, Panic, 0%nat)
        end
    | Err => (acc, Err, 0%nat) | Panic => (acc, Panic, 0%nat) | OutOfFuel => (acc, OutOfFuel, 0%nat)
    end.

  (* blockDecoder.DecodeRaw(new(cbor.RawMessage)): the raw bytes
     d.data[d.consumed+relStart : d.consumed+relEnd] and the new position *)
  Definition decode_raw (data : bytes) (pos : nat) : out (bytes * nat) :=
    match sd_next ok data pos with
    | None => Err
    | Some (_, n) => s <- slice data pos (pos + n) ;; Val (s, (pos + n)%nat)
    end.

  (* common.ExtractAndSetTransactionCbor(cborData, setBody, setWitness, setMetadata, expectedBodies, expectedWitnesses) *)
  Definition extract_and_set (fuel : nat) (data : bytes) (eb ew : nat) (with_meta : bool) : traced :=
    match array_info data with
    | Val (cnt, hs, indef) =>
        if info_invalid (cnt, hs, indef) then ([], Err, 0%nat) else
        let count := match cnt with Some c => c | None => 0 end in
        if negb indef && (count <? 3) then ([], Val tt, 0%nat) else
        match slice_from data hs with
        | Val body =>
            match sd_next ok body 0 with                       (* Skip the header *)
            | None => ([], Err, 0%nat)
            | Some (_, n0) =>
              match decode_raw body n0 with
              | Val (bodies, p1) =>
                match decode_raw body p1 with
                | Val (wits, p2) =>
                  let meta := if with_meta && (indef || (3 <? count)) then
                                match decode_raw body p2 with Val (m, _) => [(0, 0%nat, m)] | _ => [] end
                              else [] in
                  match set_array_item_cbor fuel 1 bodies eb meta with
                  | (acc, Val _, k1) =>
                      let '(acc2, st, k2) := set_array_item_cbor fuel 2 wits ew acc in (acc2, st, (k1 + k2)%nat)
                  | r => r
                  end
                | Err => ([], Err, 0%nat) | _ => ([], Panic, 0%nat)
                end
              | Err => ([], Err, 0%nat) | _ => ([], Panic, 0%nat)
              end
            end
        | _ => ([], Panic, 0%nat)
        end
    | Err => ([], Err, 0%nat) | Panic => ([], Panic, 0%nat) | OutOfFuel => ([], OutOfFuel, 0%nat)
    end.

  (* The extract*Offsets walkers of ledger/common/common.go and
     streaming_decode.go (extractMetadataOffsets, extractDatumOffsets,
     extractRedeemerMapOffsets, extractRedeemerArrayOffsets,
     extractWitnessComponentOffsets, extractOutputOffsets) share one loop:

       count, headerSize, indefinite := cbor{Array,Map}Info(data)
       dec := NewStreamDecoder(data[headerSize:])
       for i := 0; indefinite || i < count; i++ {
           if indefinite { p := headerSize + dec.Position(); if p >= len(data) || data[p] == 0xff { break } }
           <k stream operations; the first failure returns>
       }

     modelled at the level "every index expression with its guard" (their
     OUTPUT is the subject of C07).  `oks` are the acceptance predicates of the
     k operations of one iteration.  Result: iterations done. *)
  Fixpoint stream_ops (oks : list (item -> bool)) (data : bytes) (pos : nat) : option nat :=
    match oks with
    | [] => Some pos
    | o :: r => match sd_next o data pos with Some (_, n) => stream_ops r data (pos + n) | None => None end
    end.

  Fixpoint walk_items (fuel : nat) (oks : list (item -> bool)) (data : bytes) (hs : nat) (indef : bool)
      (count : N) (pos i : nat) : out nat :=
    match fuel with
    | O => OutOfFuel
    | S f =>
      if negb (indef || (N.of_nat i <? count)) then Val i else
      brk <- (if indef then
                if Nat.leb (length data) (hs + pos) then Val true
                else b <- idx data (hs + pos) ;; Val (b =? 255)
              else Val false) ;;
      if (brk : bool) then Val i else
      match stream_ops oks (skipn hs data) pos with
      | None => Val i                                  (* return on the first error *)
      | Some pos' => walk_items f oks data hs indef count pos' (S i)
      end
    end.

  Definition walker (major : N) (oks : list (item -> bool)) (fuel : nat) (data : bytes) : out nat :=
    r <- info major data ;;
    let '(cnt, hs, indef) := r in
    if info_invalid r then Val 0%nat else
    _ <- slice_from data hs ;;
    walk_items fuel oks data hs indef (match cnt with Some c => c | None => 0 end) 0 0.
End extract.

Definition extract_metadata_offsets := walker 160 [u64_ok; any_ok].          (* key uint64, Skip *)
Definition extract_datum_offsets := walker 128 [any_ok].                     (* DecodeRaw *)
Definition extract_redeemer_array_offsets := walker 128 [any_ok].            (* DecodeRaw; the element is re-scanned below *)
Definition extract_witness_component_offsets := walker 160 [u64_ok; any_ok]. (* key uint64, DecodeRaw *)
Definition extract_output_offsets_scan := walker 160 [u64_ok; any_ok].       (* key uint64, Skip / Decode outputs *)

(* the inner index expressions of extractRedeemer{Map,Array}Offsets:
     _, h, _ := cborArrayInfo(v); if int(h) >= len(v) { continue }; NewStreamDecoder(v[h:]) *)
Definition redeemer_inner (v : bytes) : out bool :=
  r <- array_info v ;;
  let '(_, h, _) := r in
  if Nat.leb (length v) h then Val false else _ <- slice_from v h ;; Val true.

(* the offset adjustment of extractOutputOffsets (uint32 arithmetic):
     bodyIdx := int(adjustedOffset - bodyOffset)
     if bodyIdx >= 0 && bodyIdx < len(bodyData) { b := bodyData[bodyIdx]; ... if !valid && bodyIdx > 0 { prev := bodyData[bodyIdx-1] ... } } *)
Definition two32 : N := 4294967296.
Definition is_out_start (b : N) : bool := (128 <=? b) && (b <=? 191).
Definition adjust_output_offset (body : bytes) (body_off out_pos : N) : out N :=
  let bi := N.to_nat ((out_pos + two32 - body_off mod two32) mod two32) in
  if Nat.ltb bi (length body) then
    b <- idx body bi ;;
    if negb (is_out_start b) && Nat.ltb 0 bi then
      p <- idx body (bi - 1) ;; Val (if is_out_start p then (out_pos + two32 - 1) mod two32 else out_pos)
    else Val out_pos
  else Val out_pos.

(* ================================================================== *)
(* muxer.readLoop framing.  The connection is the byte stream `conn`;
   binary.Read needs 8 header bytes, PayloadLength = bytes 6..7, a zero length
   is an error, the payload buffer is make([]byte, PayloadLength) and
   io.ReadFull must fill it.  Result: (segments delivered, allocation ledger). *)
Fixpoint mux_read (fuel : nat) (conn : bytes) (segs : nat) (allocs : list N) : out (nat * list N) :=
  match fuel with
  | O => OutOfFuel
  | S f =>
    if Nat.ltb (length conn) 8 then Val (segs, allocs) else        (* EOF / short header: error, loop ends *)
    hi <- idx conn 6 ;; lo <- idx conn 7 ;;
    let plen := hi * 256 + lo in
    if plen =? 0 then Val (segs, allocs) else                      (* zero-byte payload: error *)
    let allocs' := plen :: allocs in                               (* make([]byte, header.PayloadLength) *)
    if Nat.ltb (length conn) (8 + N.to_nat plen) then Val (segs, allocs')   (* io.ReadFull fails *)
    else mux_read f (skipn (8 + N.to_nat plen) conn) (S segs) allocs'
  end.

(* protocol.readLoop, buffer handling for one state of the read buffer:
   cbor.Decode(buffer, &[]RawMessage) gives numBytesRead and the list; then
   tmpMsg[0], buffer[:numBytesRead], buffer[numBytesRead:].  `lib` is the
   library's answer: None = error / need more data, Some (n, k) = n bytes read,
   k list elements.  Result: messages delivered. *)
Section proto.
  Variable lib : bytes -> option (nat * nat).
  Fixpoint proto_read (fuel : nat) (buf : bytes) (msgs : nat) : out nat :=
    match fuel with
    | O => OutOfFuel
    | S f =>
      if Nat.eqb (length buf) 0 then Val msgs else
      match lib buf with
      | None => Val msgs                                  (* wait for the next segment / error *)
      | Some (n, k) =>
          if Nat.eqb n 0 || Nat.eqb k 0 then Val msgs else
          (* tmpMsg[0] *)
          _ <- (if Nat.ltb 0 k then Val tt else Panic) ;;
          _ <- slice buf 0 n ;;                         (* readBuffer.Bytes()[:numBytesRead] *)
          if Nat.ltb n (length buf) then
            rest <- slice_from buf n ;; proto_read f rest (S msgs)   (* readBuffer.Bytes()[numBytesRead:] *)
          else Val (S msgs)
      end
    end.
End proto.

(* ================================================================== *)
(* cbor/diagnostic.go: parseDiagnosticNode and its helpers.  A node is
   (offset, length, children); primitives come from the stream decoder.
   `depth` is the Go depth argument (error above 256). *)
Inductive dnode := DN (off len : nat) (kids : list dnode).
Definition max_diag_depth : nat := 256.

Section diag.
  Variable ok : item -> bool.

  (* indefinite loop:  pos >= len -> error ; data[pos] == 0xff -> Advance(1), break ; else child(ren) *)
  Fixpoint diag_node (fuel : nat) (data : bytes) (depth pos : nat) {struct fuel} : out (dnode * nat) :=
    match fuel with
    | O => OutOfFuel
    | S f =>
      if Nat.ltb max_diag_depth depth then Err else
      if Nat.leb (length data) pos then Err else
      first <- idx data pos ;;
      let mt := N.land first 224 in
      let ai := N.land first 31 in
      let prim :=                                         (* dec.DecodeRaw(&val) *)
        match sd_next ok data pos with
        | None => Err
        | Some (_, n) => _ <- slice data pos (pos + n) ;; Val (DN pos n [], (pos + n)%nat)
        end in
      if (mt =? 0) || (mt =? 32) || (mt =? 224) then prim
      else if (mt =? 64) || (mt =? 96) then
        if ai =? 31 then
          (* parseIndefiniteStringDiagnosticNode: Advance(1), chunks until 0xff *)
          _ <- (if Nat.ltb (length data) (pos + 1) then Err else Val tt) ;;
          r <- diag_indef f data (S depth) (pos + 1) 1 mt ;;
          let '(kids, e) := r in
          _ <- slice data pos e ;; Val (DN pos (e - pos) kids, e)
        else prim
      else if (mt =? 128) || (mt =? 160) then
        h <- collection_header data pos ;;
        let '(len, hl, indef) := h in
        _ <- (if Nat.ltb (length data) (pos + hl) then Err else Val tt) ;;      (* dec.Advance(headerLen) *)
        let per := if mt =? 160 then 2%nat else 1%nat in
        r <- (if (indef : bool) then diag_indef f data (S depth) (pos + hl) per 0
              else diag_count f data (S depth) (pos + hl) (len * N.of_nat per)) ;;
        let '(kids, e) := r in
        _ <- slice data pos e ;; Val (DN pos (e - pos) kids, e)            (* data[start:end] *)
      else
        (* tag *)
        h <- tag_header data pos ;;
        let '(_, hl) := h in
        _ <- (if Nat.ltb (length data) (pos + hl) then Err else Val tt) ;;
        r <- diag_node f data (S depth) (pos + hl) ;;
        let '(kid, e) := r in
        _ <- slice data pos e ;; Val (DN pos (e - pos) [kid], e)
    end
  (* for range length { child } *)
  with diag_count (fuel : nat) (data : bytes) (depth pos : nat) (k : N) {struct fuel} : out (list dnode * nat) :=
    match fuel with
    | O => OutOfFuel
    | S f =>
      if k =? 0 then Val ([], pos) else
      r <- diag_node f data depth pos ;;
      let '(kid, p1) := r in
      r2 <- diag_count f data depth p1 (k - 1) ;;
      let '(kids, e) := r2 in Val (kid :: kids, e)
    end
  (* for { pos >= len -> error; data[pos] == 0xff -> Advance(1); break; per children }
     (parseArray/Map/IndefiniteString DiagnosticNode; chunk <> 0: the string variant) *)
  with diag_indef (fuel : nat) (data : bytes) (depth pos : nat) (per : nat) (chunk : N) {struct fuel} : out (list dnode * nat) :=
    match fuel with
    | O => OutOfFuel
    | S f =>
      if Nat.leb (length data) pos then Err else
      b <- idx data pos ;;
      if b =? 255 then
        (if Nat.ltb (length data) (pos + 1) then Err else Val ([], (pos + 1)%nat))
      else
        r <- diag_node f data depth pos ;;
        let '(k1, p1) := r in
        (* chunks of an indefinite string: definite strings of the same major type *)
        _ <- (if negb (chunk =? 0) && (negb (N.land b 224 =? chunk) || (N.land b 31 =? 31)) then Err else Val tt) ;;
        r1 <- (if Nat.eqb per 2 then
                 r' <- diag_node f data depth p1 ;; let '(k2, p2) := r' in Val ([k1; k2], p2)
               else Val ([k1], p1)) ;;
        let '(ks, p2) := r1 in
        r2 <- diag_indef f data depth p2 per chunk ;;
        let '(kids, e) := r2 in Val (ks ++ kids, e)
    end.

  (* cbor.ParseDiagnostic: one node, then EOF *)
  Definition parse_diagnostic (fuel : nat) (data : bytes) : out dnode :=
    r <- diag_node fuel data 0 0 ;;
    let '(n, e) := r in if Nat.ltb e (length data) then Err else Val n.
End diag.

(* ================================================================== *)
(* correspondence cases *)
Definition class {A} (r : out A) : N := match r with Val _ => 0 | Err => 1 | Panic => 2 | OutOfFuel => 3 end.
Definition optN_eqb := opt_eqb N.eqb.
Definition fuel_of (data : bytes) : nat := S (2 * length data).

(* preorder (offset, length) list of a diagnostic tree *)
Fixpoint spans (n : dnode) : list (nat * nat) :=
  match n with DN o l ks => (o, l) :: flat_map spans ks end.
Definition span_eqb (a b : nat * nat) : bool := Nat.eqb (fst a) (fst b) && Nat.eqb (snd a) (snd b).

Inductive case :=
| CInfo (major : N) (data : bytes) (cnt : option N) (hs : nat) (indef : bool)          (* ArrayInfo / MapInfo *)
| CHeader (major : N) (data : bytes) (abs : nat) (res : option (N * nat))              (* DecodeArrayHeader / DecodeMapHeader *)
| CRaw (data : bytes) (off len : Z) (res : option bytes) (panicked : bool)             (* RawBytes *)
| CAdvance (data : bytes) (pos : nat) (n : Z) (cls : N) (newpos : nat)                 (* Advance *)
| CId (data : bytes) (liblen libid : option N) (len id : option N)                     (* ListLength / DecodeIdFromList *)
| CAddr (data : bytes) (byron : bool) (cls : N) (ptr : option (N * N * N)) (extra : bytes)   (* NewAddressFromBytes *)
| CExtract (data : bytes) (eb ew : nat) (meta : bool) (cbs : list cb) (cls : N)        (* ExtractAndSetTransactionCbor *)
| CDiag (data : bytes) (cls : N) (sp : list (nat * nat))                               (* ParseDiagnostic *)
| CMux (conn : bytes) (segs : nat) (allocs : list N).                                  (* muxer read loop *)

Definition cb_eqb (a b : cb) : bool :=
  let '(k1, i1, s1) := a in let '(k2, i2, s2) := b in (k1 =? k2) && Nat.eqb i1 i2 && bytes_eqb s1 s2.
Definition ptr_eqb (a b : N * N * N) : bool :=
  let '(s1, t1, c1) := a in let '(s2, t2, c2) := b in (s1 =? s2) && (t1 =? t2) && (c1 =? c2).

(* the trailer whitelist is reduced to its observed verdict: the harness
   passes extra = the trailing bytes the implementation kept *)
Definition check_case (c : case) : bool :=
  match c with
  | CInfo major data cnt hs indef =>
      match info major data with
      | Val (c', h', i') => optN_eqb c' cnt && Nat.eqb h' hs && Bool.eqb i' indef
      | _ => false end
  | CHeader major data abs res =>
      match decode_header major data abs, res with
      | Val (l, h), Some (l', h') => (l =? l') && Nat.eqb h h'
      | Err, None => true
      | _, _ => false end
  | CRaw data off len res panicked =>
      match raw_bytes data off len with
      | Val r => negb panicked && opt_eqb bytes_eqb r res
      | Panic => panicked
      | _ => false end
  | CAdvance data pos n cls newpos =>
      match advance data pos n with
      | Val p => (cls =? 0) && Nat.eqb p newpos
      | r => class r =? cls end
  | CId data liblen libid len id =>
      optN_eqb (match list_length (fun _ => liblen) data with Val v => Some v | _ => None end) len &&
      optN_eqb (match decode_id_from_list (fun _ => liblen) (fun _ => libid) data with Val v => Some v | _ => None end) id &&
      negb (bad (list_length (fun _ => liblen) data)) &&
      negb (bad (decode_id_from_list (fun _ => liblen) (fun _ => libid) data))
  | CAddr data byron cls ptr extra =>
      match populate (fun _ => byron) (fun t => bytes_eqb t extra) (S (length data)) data with
      | Val (Some a) => (cls =? 0) && opt_eqb ptr_eqb (s_ptr a) ptr && bytes_eqb (s_extra a) extra
      | Val None => cls =? 0
      | r => class r =? cls end
  | CExtract data eb ew meta cbs cls =>
      let '(acc, st, _) := extract_and_set any_ok (fuel_of data) data eb ew meta in
      list_eqb cb_eqb acc cbs && (class st =? cls)
  | CDiag data cls sp =>
      match parse_diagnostic any_ok (fuel_of data) data with
      | Val n => (cls =? 0) && list_eqb span_eqb (spans n) sp
      | r => class r =? cls end
  | CMux conn segs allocs =>
      match mux_read (S (length conn)) conn 0 [] with
      | Val (s, a) => Nat.eqb s segs && list_eqb N.eqb (rev a) allocs
      | _ => false end
  end.
Definition mismatches := failing check_case.
