(* C02 - decoders are total on arbitrary bytes.

   Totality of a Gallina function says nothing about Go panics, so this model
   makes the PARTIAL operations of the Go text explicit: every data[i] is
   `idx`, every data[a:b] is `slice`, loops are fuel-bounded recursions, and
   the result type has `Panic` and `OutOfFuel` as ordinary values.  The
   theorems (C02/Proofs.v, C02/Props.v) say that these two values are never
   produced, under exactly the guards the Go code has.

   One definition per hand-written byte-level scanner of the repository; the
   comment names the Go function.  fxamacker/cbor (Skip / Decode / DecodeRaw of
   cbor.StreamDecoder, cbor.Decode) is NOT transcribed: it is the Lib parser
   (CborParse.parse_full) filtered by an acceptance predicate `ok`; what the
   model takes from it is only "a successful stream operation consumed exactly
   one well-formed item of the remaining input".
   NO proofs in this file. *)
From V Require Import Lib.Base Lib.Cbor Lib.CborParse.
Local Open Scope N_scope.

(* ---- outcomes ---- *)
Inductive out (A : Type) := Val (a : A) | Err | Panic | OutOfFuel.
Arguments Val {A}. Arguments Err {A}. Arguments Panic {A}. Arguments OutOfFuel {A}.

Definition bind {A B} (r : out A) (k : A -> out B) : out B :=
  match r with Val a => k a | Err => Err | Panic => Panic | OutOfFuel => OutOfFuel end.
Notation "x <- e ;; k" := (bind e (fun x => k)) (at level 61, e at next level, right associativity).

Definition bad {A} (r : out A) : bool := match r with Panic | OutOfFuel => true | _ => false end.

(* results with a tick counter: loop iterations / node visits made so far,
   whatever the outcome (so that a step bound can be stated for the error
   paths too) *)
Definition tk (A : Type) := (out A * nat)%type.
Definition tlift {A} (r : out A) : tk A := (r, 0%nat).
Definition tbind {A B} (m : tk A) (k : A -> tk B) : tk B :=
  match fst m with
  | Val a => let r := k a in (fst r, (snd m + snd r)%nat)
  | Err => (Err, snd m) | Panic => (Panic, snd m) | OutOfFuel => (OutOfFuel, snd m)
  end.
Definition tick {A} (m : tk A) : tk A := (fst m, S (snd m)).
Notation "x <~ e ;; k" := (tbind e (fun x => k)) (at level 61, e at next level, right associativity).

(* data[i]: run-time panic when i is out of range *)
Definition idx (data : bytes) (i : nat) : out N :=
  match nth_error data i with Some b => Val b | None => Panic end.
(* data[a:]  and  data[a:b] *)
Definition slice_from (data : bytes) (a : nat) : out bytes :=
  if Nat.ltb (length data) a then Panic else Val (skipn a data).
Definition slice (data : bytes) (a b : nat) : out bytes :=
  if Nat.ltb b a || Nat.ltb (length data) b then Panic else Val (firstn (b - a) (skipn a data)).

Definition nlen {A} (l : list A) : N := N.of_nat (length l).

(* big-endian read of data[from], ..., data[from+k-1], each through idx *)
Fixpoint rd_idx (data : bytes) (from k : nat) (acc : N) : out N :=
  match k with
  | O => Val acc
  | S k' => b <- idx data from ;; rd_idx data (S from) k' (acc * 256 + b)
  end.

Definition max_int32 : N := 2147483647.
Definition max_int64 : Z := 9223372036854775807%Z.

(* ================================================================== *)
(* cbor.ArrayInfo / cbor.MapInfo / common.cborArrayInfo / common.cborMapInfo
   (one text, the major-type byte differs: 0x80 / 0xa0).
   Returns (count, headerSize, isIndefinite); count = None stands for -1. *)
Definition info (major : N) (data : bytes) : out (option N * nat * bool) :=
  if Nat.eqb (length data) 0 then Val (None, 0%nat, false) else
  b0 <- idx data 0 ;;
  if negb (N.land b0 224 =? major) then Val (None, 0%nat, false) else
  let ai := N.land b0 31 in
  if ai <=? 23 then Val (Some ai, 1%nat, false)
  else if (ai =? 24) && Nat.leb 2 (length data) then v <- rd_idx data 1 1 0 ;; Val (Some v, 2%nat, false)
  else if (ai =? 25) && Nat.leb 3 (length data) then v <- rd_idx data 1 2 0 ;; Val (Some v, 3%nat, false)
  else if (ai =? 26) && Nat.leb 5 (length data) then
    v <- rd_idx data 1 4 0 ;; if max_int32 <? v then Val (None, 0%nat, false) else Val (Some v, 5%nat, false)
  else if (ai =? 27) && Nat.leb 9 (length data) then
    v <- rd_idx data 1 8 0 ;; if max_int32 <? v then Val (None, 0%nat, false) else Val (Some v, 9%nat, false)
  else if ai =? 31 then Val (Some 0, 1%nat, true)
  else Val (None, 0%nat, false).
Definition array_info := info 128.
Definition map_info := info 160.

(* the callers' test  `count < 0 && !indefinite` *)
Definition info_invalid (r : option N * nat * bool) : bool :=
  match r with (None, _, false) => true | _ => false end.

(* cbor.StreamDecoder.DecodeArrayHeader / DecodeMapHeader at absolute
   position abs = consumed + NumBytesRead, followed by Advance(headerLen).
   Returns (length, headerLen) ; the new position is abs + headerLen. *)
Definition decode_header (major : N) (data : bytes) (abs : nat) : out (N * nat) :=
  if Nat.leb (length data) abs then Err else
  b0 <- idx data abs ;;
  if negb (N.land b0 224 =? major) then Err else
  let ai := N.land b0 31 in
  r <- (if ai <? 24 then Val (ai, 1%nat)
        else if ai =? 24 then if Nat.ltb (length data) (abs + 2) then Err else v <- rd_idx data (abs + 1) 1 0 ;; Val (v, 2%nat)
        else if ai =? 25 then if Nat.ltb (length data) (abs + 3) then Err else v <- rd_idx data (abs + 1) 2 0 ;; Val (v, 3%nat)
        else if ai =? 26 then if Nat.ltb (length data) (abs + 5) then Err else
               v <- rd_idx data (abs + 1) 4 0 ;; if max_int32 <? v then Err else Val (v, 5%nat)
        else if ai =? 27 then if Nat.ltb (length data) (abs + 9) then Err else
               v <- rd_idx data (abs + 1) 8 0 ;; if max_int32 <? v then Err else Val (v, 9%nat)
        else Err) ;;
  (* d.Advance(headerLen): newPos > len(d.data) -> error ; d.data[d.consumed:] *)
  let newpos := (abs + snd r)%nat in
  if Nat.ltb (length data) newpos then Err else
  _ <- slice_from data newpos ;; Val r.

(* cbor.cborArrayHeaderSizeFromBytes(data, offset) *)
Definition header_size_from_bytes (data : bytes) (off : nat) : out nat :=
  if Nat.leb (length data) off then Err else
  b0 <- idx data off ;;
  if negb (N.land b0 224 =? 128) then Err else
  let ai := N.land b0 31 in
  if ai <? 24 then Val 1%nat else if ai =? 24 then Val 2%nat else if ai =? 25 then Val 3%nat
  else if ai =? 26 then Val 5%nat else if ai =? 27 then Val 9%nat else Err.

(* cbor.parseCollectionHeader(data, offset): (length, headerLen, indefinite);
   the guards are  offset+k >= len(data)  *)
Definition collection_header (data : bytes) (off : nat) : out (N * nat * bool) :=
  if Nat.leb (length data) off then Err else
  b0 <- idx data off ;;
  let ai := N.land b0 31 in
  if ai <? 24 then Val (ai, 1%nat, false)
  else if ai =? 24 then if Nat.leb (length data) (off + 1) then Err else v <- rd_idx data (off + 1) 1 0 ;; Val (v, 2%nat, false)
  else if ai =? 25 then if Nat.leb (length data) (off + 2) then Err else v <- rd_idx data (off + 1) 2 0 ;; Val (v, 3%nat, false)
  else if ai =? 26 then if Nat.leb (length data) (off + 4) then Err else
         v <- rd_idx data (off + 1) 4 0 ;; if max_int32 <? v then Err else Val (v, 5%nat, false)
  else if ai =? 27 then if Nat.leb (length data) (off + 8) then Err else
         v <- rd_idx data (off + 1) 8 0 ;; if max_int32 <? v then Err else Val (v, 9%nat, false)
  else if ai =? 31 then Val (0, 1%nat, true)
  else Err.

(* cbor.parseTagHeader(data, offset): (tag number, headerLen) *)
Definition tag_header (data : bytes) (off : nat) : out (N * nat) :=
  if Nat.leb (length data) off then Err else
  b0 <- idx data off ;;
  if negb (N.land b0 224 =? 192) then Err else
  let ai := N.land b0 31 in
  if ai <? 24 then Val (ai, 1%nat)
  else if ai =? 24 then if Nat.leb (length data) (off + 1) then Err else v <- rd_idx data (off + 1) 1 0 ;; Val (v, 2%nat)
  else if ai =? 25 then if Nat.leb (length data) (off + 2) then Err else v <- rd_idx data (off + 1) 2 0 ;; Val (v, 3%nat)
  else if ai =? 26 then if Nat.leb (length data) (off + 4) then Err else v <- rd_idx data (off + 1) 4 0 ;; Val (v, 5%nat)
  else if ai =? 27 then if Nat.leb (length data) (off + 8) then Err else v <- rd_idx data (off + 1) 8 0 ;; Val (v, 9%nat)
  else Err.

(* ================================================================== *)
(* Go int arithmetic where the argument is caller-supplied: int64 wrap *)
Local Open Scope Z_scope.
Definition wrap64 (z : Z) : Z := (z + 2^63) mod 2^64 - 2^63.

(* cbor.StreamDecoder.RawBytes(offset, length): None = nil *)
Definition raw_bytes (data : bytes) (offset len : Z) : out (option bytes) :=
  if (offset <? 0) || (len <? 0) then Val None else
  let e := wrap64 (offset + len) in
  if (e <? offset) || (Z.of_nat (length data) <? e) then Val None else
  (* d.data[offset:end] *)
  if (offset <? 0) || (e <? offset) || (Z.of_nat (length data) <? e) then Panic
  else Val (Some (firstn (Z.to_nat (e - offset)) (skipn (Z.to_nat offset) data))).

(* cbor.StreamDecoder.Advance(n) at position pos = consumed + NumBytesRead:
   new position, or Err.  The Go text has no overflow test on pos + n. *)
Definition advance (data : bytes) (pos : nat) (n : Z) : out nat :=
  if n <? 0 then Err else
  let np := wrap64 (Z.of_nat pos + n) in
  if Z.of_nat (length data) <? np then Err else
  (* d.data[d.consumed:] with d.consumed = np *)
  if (np <? 0) || (Z.of_nat (length data) <? np) then Panic else Val (Z.to_nat np).
Local Close Scope Z_scope.

(* ================================================================== *)
(* cbor.ListLength / cbor.DecodeIdFromList with their index expressions.
   `lib_len`, `lib_id` stand for the slow paths (cbor.Decode into []RawMessage /
   into Value + type switch): value or error, decided inside fxamacker. *)
Section idlist.
  Variable lib_len : bytes -> option N.
  Variable lib_id : bytes -> option N.
  Definition of_opt {A} (o : option A) : out A := match o with Some a => Val a | None => Err end.

  Definition list_length (data : bytes) : out N :=
    if Nat.eqb (length data) 0 then Err else
    b0 <- idx data 0 ;;
    if (128 <=? b0) && (b0 <=? 151) then Val (b0 - 128) else of_opt (lib_len data).

  Definition decode_id_from_list (data : bytes) : out N :=
    if Nat.ltb (length data) 2 then Err else
    len <- list_length data ;;
    if len =? 0 then Err else
    b0 <- idx data 0 ;;
    fast <- (if (128 <=? b0) && (b0 <=? 151) && (len <? 23) then
               b1 <- idx data 1 ;; Val (if b1 <=? 23 then Some b1 else None)
             else Val None) ;;
    match fast with Some v => Val v | None => of_opt (lib_id data) end.
End idlist.

(* ================================================================== *)
(* ledger/common/address.go *)
Definition two64 : N := 18446744073709551616.

(* readVarUint (closure in AddressPayloadPointer.decode):
   for offset < len(data) { byt := data[offset]; offset++; ... }
   returns (value, new offset, steps) *)
Fixpoint read_varuint (fuel : nat) (data : bytes) (off : nat) (acc : N) (steps : nat) : out (N * nat * nat) :=
  match fuel with
  | O => OutOfFuel
  | S f =>
    if Nat.ltb off (length data) then
      byt <- idx data off ;;
      let acc' := (acc * 128) mod two64 + N.land byt 127 in
      if N.land byt 128 =? 0 then Val (acc', S off, S steps)
      else read_varuint f data (S off) acc' (S steps)
    else Err    (* io.ErrUnexpectedEOF *)
  end.

(* AddressPayloadPointer.decode: (slot, txIndex, certIndex, offset, steps) *)
Definition decode_pointer (fuel : nat) (data : bytes) : out (N * N * N * nat * nat) :=
  r1 <- read_varuint fuel data 0 0 0 ;;
  let '(s, o1, k1) := r1 in
  r2 <- read_varuint fuel data o1 0 k1 ;;
  let '(t, o2, k2) := r2 in
  r3 <- read_varuint fuel data o2 0 k2 ;;
  let '(c, o3, k3) := r3 in
  Val (s, t, c, o3, k3).

Definition hash_size : nat := 28.
Inductive pkind := PK | PS | PN.
Inductive skind := SK | SS | SP | SN.
(* the case lists of the switch statements of populateFromBytes *)
Definition pay_kind (ty : N) : pkind :=
  if (ty =? 0) || (ty =? 2) || (ty =? 4) || (ty =? 6) then PK
  else if (ty =? 1) || (ty =? 3) || (ty =? 5) || (ty =? 7) then PS else PN.
Definition stake_kind (ty : N) : skind :=
  if (ty =? 0) || (ty =? 1) || (ty =? 14) then SK
  else if (ty =? 2) || (ty =? 3) || (ty =? 15) then SS
  else if (ty =? 4) || (ty =? 5) then SP else SN.
Definition known_type (ty : N) : bool := (ty <=? 7) || (ty =? 14) || (ty =? 15).

(* payload[0:AddressHashSize] converted to a [28]byte (panics when shorter),
   then payload = payload[AddressHashSize:] *)
Definition take_hash (payload : bytes) : out (bytes * bytes) :=
  if Nat.ltb (length payload) hash_size then Err else
  h <- slice payload 0 hash_size ;;
  _ <- (if Nat.eqb (length h) hash_size then Val tt else Panic) ;;
  r <- slice_from payload hash_size ;; Val (h, r).

Record saddr := mkS { s_type : N; s_net : N; s_pay : option bytes; s_stake : option bytes;
                      s_ptr : option (N * N * N); s_extra : bytes }.

Section address.
  (* the Byron branch decodes with fxamacker (reflection): value or error *)
  Variable byron : bytes -> bool.
  Variable known_trailer : bytes -> bool.

  (* (a *Address) populateFromBytes(data); Val None = a Byron address *)
  Definition populate (fuel : nat) (data : bytes) : out (option saddr) :=
    if Nat.eqb (length data) 0 then Err else
    header <- idx data 0 ;;
    let ty := N.shiftr (N.land header 240) 4 in
    let net := N.land header 15 in
    if ty =? 8 then (if byron data then Val None else Err) else
    if negb ((net =? 0) || (net =? 1)) then Err else
    if negb (known_type ty) then Err else
    payload <- slice_from data 1 ;;
    r1 <- (match pay_kind ty with
           | PN => Val (None, payload)
           | _ => hr <- take_hash payload ;; Val (Some (fst hr), snd hr) end) ;;
    let '(pay, p1) := r1 in
    r2 <- (match stake_kind ty with
           | SK | SS => hr <- take_hash p1 ;; Val (Some (fst hr), None, snd hr)
           | SP => d <- decode_pointer fuel p1 ;;
                   let '(s, t, c, n, _) := d in
                   rest <- slice_from p1 n ;; Val (None, Some (s, t, c), rest)
           | SN => Val (None, None, p1) end) ;;
    let '(stk, ptr, p2) := r2 in
    match p2 with
    | [] => Val (Some (mkS ty net pay stk ptr []))
    | _ => if negb (net =? 1) || negb (known_trailer p2) then Err
           else Val (Some (mkS ty net pay stk ptr p2))
    end.
End address.

(* ================================================================== *)
(* cbor.StreamDecoder over fxamacker: position + one operation.
   `ok` is the decode-time acceptance of the destination type (Skip: any
   well-formed item; Decode(&uint64): an unsigned integer; ...). *)
Definition sd_next (ok : item -> bool) (data : bytes) (pos : nat) : option (item * nat) :=
  match parse_full (skipn pos data) with
  | Ok i rest => if ok i then Some (i, (length (skipn pos data) - length rest)%nat) else None
  | _ => None
  end.

Definition any_ok (_ : item) : bool := true.
Definition u64_ok (i : item) : bool := match i with UInt _ _ => true | _ => false end.

(* one callback of ExtractAndSetTransactionCbor: kind 0 = metadata, 1 = body, 2 = witness *)
Definition cb := (N * nat * bytes)%type.
(* callbacks made so far, final status, loop iterations *)
Definition traced := (list cb * out unit * nat)%type.

Section extract.
  Variable ok : item -> bool.

  (* the loop of common.setArrayItemCbor; pos is dec.Position() (relative to
     arrayData[headerSize:]), i is itemIndex *)
  Fixpoint set_items (fuel : nat) (kind : N) (data : bytes) (hs : nat) (indef : bool) (count : N)
      (expected : nat) (pos i : nat) (acc : list cb) (steps : nat) : traced :=
    match fuel with
    | O => (acc, OutOfFuel, steps)
    | S f =>
      let finish := (acc, (if Nat.eqb i expected then Val tt else Err), steps) in
      if negb (indef || (N.of_nat i <? count)) then finish else
      (* if indefinite { pos := headerSize + dec.Position(); if pos >= len || arrayData[pos] == 0xff { break } } *)
      match (if indef then
               if Nat.leb (length data) (hs + pos) then Val true
               else b <- idx data (hs + pos) ;; Val (b =? 255)
             else Val false) with
      | Val true => finish
      | Val false =>
          match sd_next ok (skipn hs data) pos with
          | None => (acc, Err, S steps)
          | Some (_, n) =>
              if Nat.leb expected i then (acc, Err, S steps) else
              (* setItemCbor(itemIndex, arrayData[itemStart:itemStart+itemLen]) *)
              match slice data (hs + pos) (hs + pos + n) with
              | Val s => set_items f kind data hs indef count expected (pos + n) (S i) (acc ++ [(kind, i, s)]) (S steps)
              | _ => (acc, Panic, S steps)
              end
          end
      | Err => (acc, Err, steps) | Panic => (acc, Panic, steps) | OutOfFuel => (acc, OutOfFuel, steps)
      end
    end.

  (* common.setArrayItemCbor *)
  Definition set_array_item_cbor (fuel : nat) (kind : N) (data : bytes) (expected : nat) (acc : list cb) : traced :=
    match array_info data with
    | Val (cnt, hs, indef) =>
        if info_invalid (cnt, hs, indef) then (acc, Err, 0%nat) else
        let count := match cnt with Some c => c | None => 0 end in
        if negb indef && negb (count =? N.of_nat expected) then (acc, Err, 0%nat) else
        (* cbor.NewStreamDecoder(arrayData[headerSize:]) *)
        match slice_from data hs with
        | Val _ => set_items fuel kind data hs indef count expected 0 0 acc 0
        | _ => (acc, Panic, 0%nat)
        end
    | Err => (acc, Err, 0%nat) | Panic => (acc, Panic, 0%nat) | OutOfFuel => (acc, OutOfFuel, 0%nat)
    end.

  (* blockDecoder.DecodeRaw(new(cbor.RawMessage)): the raw bytes
     d.data[d.consumed+relStart : d.consumed+relEnd] and the new position *)
  Definition decode_raw (data : bytes) (pos : nat) : out (bytes * nat) :=
    match sd_next ok data pos with
    | None => Err
    | Some (_, n) => s <- slice data pos (pos + n) ;; Val (s, (pos + n)%nat)
    end.

  (* common.ExtractAndSetTransactionCbor(cborData, setBody, setWitness, setMetadata, expectedBodies, expectedWitnesses) *)
  Definition extract_and_set (fuel : nat) (data : bytes) (eb ew : nat) (with_meta : bool) : traced :=
    match array_info data with
    | Val (cnt, hs, indef) =>
        if info_invalid (cnt, hs, indef) then ([], Err, 0%nat) else
        let count := match cnt with Some c => c | None => 0 end in
        if negb indef && (count <? 3) then ([], Val tt, 0%nat) else
        match slice_from data hs with
        | Val body =>
            match sd_next ok body 0 with                       (* Skip the header *)
            | None => ([], Err, 0%nat)
            | Some (_, n0) =>
              match decode_raw body n0 with
              | Val (bodies, p1) =>
                match decode_raw body p1 with
                | Val (wits, p2) =>
                  let meta := if with_meta && (indef || (3 <? count)) then
                                match decode_raw body p2 with Val (m, _) => [(0, 0%nat, m)] | _ => [] end
                              else [] in
                  match set_array_item_cbor fuel 1 bodies eb meta with
                  | (acc, Val _, k1) =>
                      let '(acc2, st, k2) := set_array_item_cbor fuel 2 wits ew acc in (acc2, st, (k1 + k2)%nat)
                  | r => r
                  end
                | Err => ([], Err, 0%nat) | _ => ([], Panic, 0%nat)
                end
              | Err => ([], Err, 0%nat) | _ => ([], Panic, 0%nat)
              end
            end
        | _ => ([], Panic, 0%nat)
        end
    | Err => ([], Err, 0%nat) | Panic => ([], Panic, 0%nat) | OutOfFuel => ([], OutOfFuel, 0%nat)
    end.

End extract.

(* ================================================================== *)
(* The offset walkers of ledger/common/common.go and streaming_decode.go as
   they are in the CURRENT tree (after the fix commits "measure array
   headers", "tag wrappers", "EBB"): every index / slice expression with its
   guard, every loop with fuel, and - unlike the first round - the OFFSETS
   they return, so that the model can be compared with what the exported
   entry points ExtractTransactionOffsets / DecodeWithOffsets produce.

   fxamacker's typed destinations (calibrated against the library, see notes):
     Decode(&uint64)        unsigned integer; tag numbers are skipped; null and
                            undefined leave the (zero) variable untouched; a
                            simple value other than false/true is its number
     Decode(&[]RawMessage)  array (either form), tag numbers skipped, null and
                            undefined give a nil slice; an element is the
                            element's bytes
     Decode(&[]uint64)      the same with Decode(&uint64) per element
     Skip / DecodeRaw(new(RawMessage))   any well-formed item
   Offsets are Go uint32 (wrap written out: `u32`), positions are Go int (nat). *)
Fixpoint strip_tags (i : item) : item := match i with Tag _ _ x => strip_tags x | _ => i end.
Definition is_nil (v : N) : bool := (v =? 22) || (v =? 23).
Definition uint_of (i : item) : option N :=
  match strip_tags i with
  | UInt _ n => Some n
  | Simple _ v => if is_nil v then Some 0 else if (v =? 20) || (v =? 21) then None else Some v
  | _ => None
  end.
Definition items_of (i : item) : option (list item) :=
  match strip_tags i with
  | Arr _ xs => Some xs
  | Simple _ v => if is_nil v then Some [] else None
  | _ => None
  end.
Fixpoint uints_of_items (xs : list item) : option (list N) :=
  match xs with
  | [] => Some []
  | x :: r => match uint_of x, uints_of_items r with Some n, Some l => Some (n :: l) | _, _ => None end
  end.
Definition uints_of (i : item) : option (list N) :=
  match items_of i with Some xs => uints_of_items xs | None => None end.

(* one stream operation at position pos of the decoder over `data`:
   the decoded value and the number of bytes read *)
Definition sd_val {V} (f : item -> option V) (data : bytes) (pos : nat) : option (V * nat) :=
  match parse_full (skipn pos data) with
  | Ok i rest => match f i with
                 | Some v => Some (v, (length (skipn pos data) - length rest)%nat)
                 | None => None end
  | _ => None
  end.
Definition sd_skip := sd_val (fun _ : item => Some tt).          (* Skip, DecodeRaw(new(RawMessage)) *)
Definition sd_uint := sd_val uint_of.                            (* Decode(&uint64) *)
Definition sd_items := sd_val items_of.                          (* Decode(&[]RawMessage) *)
Definition sd_uints := sd_val uints_of.                          (* Decode(&[]uint64) *)
(* cbor.Decode(bs, &[]RawMessage) *)
Definition raw_list (bs : bytes) : option (list bytes) :=
  match sd_items bs 0 with Some (xs, _) => Some (map enc xs) | None => None end.

Definition two32 : N := 4294967296.
Definition u32 (n : N) : N := n mod two32.
Definition range := (N * N)%type.                               (* ByteRange{Offset, Length} *)
Definition zero_range : range := (0, 0).
Definition count_of (c : option N) : N := match c with Some c => c | None => 0 end.

(* cborArrayHeaderSize(length) *)
Definition array_header_size (len : nat) : N :=
  let n := N.of_nat len in if n <? 24 then 1 else if n <? 256 then 2 else if n <? 65536 then 3 else 5.
(* cborArrayHeaderSizeOf(data, length): the header that is there, else the minimal one *)
Definition array_header_size_of (data : bytes) (len : nat) : out N :=
  r <- array_info data ;;
  let '(_, hs, _) := r in
  if Nat.ltb 0 hs then Val (N.of_nat hs) else Val (array_header_size len).

(* cborSkipTags(data): for len(data) > 0 && data[0]&0xe0 == 0xc0 { size by additional info;
   default -> return; len(data) < size -> return; data = data[size:]; skipped += size }
   result: remaining data, bytes skipped, iterations *)
Definition tag_size (ai : N) : nat :=
  if ai <=? 23 then 1%nat else if ai =? 24 then 2%nat else if ai =? 25 then 3%nat
  else if ai =? 26 then 5%nat else if ai =? 27 then 9%nat else 0%nat.
Fixpoint skip_tags (fuel : nat) (data : bytes) (skipped : N) (steps : nat) : out (bytes * N * nat) :=
  match fuel with
  | O => OutOfFuel
  | S f =>
    if Nat.ltb 0 (length data) then
      b0 <- idx data 0 ;;
      if N.land b0 224 =? 192 then
        let size := tag_size (N.land b0 31) in
        if Nat.eqb size 0 then Val (data, skipped, steps)
        else if Nat.ltb (length data) size then Val (data, skipped, steps)
        else d <- slice_from data size ;; skip_tags f d (u32 (skipped + N.of_nat size)) (S steps)
      else Val (data, skipped, steps)
    else Val (data, skipped, steps)
  end.

(* ---- the loop all walkers share --------------------------------------
     count, headerSize, indefinite := cbor{Array,Map}Info(data)
     dec := NewStreamDecoder(data[headerSize:])
     for i := 0; indefinite || i < count; i++ {
         if indefinite { p := headerSize + dec.Position(); if p >= len(data) || data[p] == 0xff { break } }
         BODY
     }
   BODY at decoder position pos: goes on at pos' having recorded es (SNext; a
   `continue` after the element was read is SNext with nothing recorded),
   or returns from the function (SStop with what it recorded, SAbort with
   nothing).  t = loop iterations made inside BODY (nested walkers). *)
Inductive sres (E : Type) := SNext (es : list E) (pos' t : nat) | SStop (es : list E) (t : nat) | SAbort (t : nat).
Arguments SNext {E}. Arguments SStop {E}. Arguments SAbort {E}.

Section wloop.
  Variable E : Type.
  Variable step : nat -> out (sres E).
  (* result: everything recorded, iterations made (nested ones included) *)
  Fixpoint wloop (fuel : nat) (data : bytes) (hs : nat) (indef : bool) (count : N)
      (pos i : nat) (acc : list E) (ticks : nat) : out (list E * nat) :=
    match fuel with
    | O => OutOfFuel
    | S f =>
      if negb (indef || (N.of_nat i <? count)) then Val (acc, ticks) else
      brk <- (if indef then
                if Nat.leb (length data) (hs + pos) then Val true
                else b <- idx data (hs + pos) ;; Val (b =? 255)
              else Val false) ;;
      if (brk : bool) then Val (acc, ticks) else
      r <- step pos ;;
      match r with
      | SNext es pos' t => wloop f data hs indef count pos' (S i) (acc ++ es) (S (ticks + t))
      | SStop es t => Val (acc ++ es, S (ticks + t))
      | SAbort t => Val (acc, S (ticks + t))
      end
    end.
End wloop.
Arguments wloop {E}.

(* header, `count < 0 && !indefinite -> return`, data[headerSize:], the loop *)
Definition wrun {E} (major : N) (fuel : nat) (data : bytes) (step : nat -> nat -> out (sres E)) : out (list E * nat) :=
  r <- info major data ;;
  let '(cnt, hs, indef) := r in
  if info_invalid r then Val ([], 0%nat) else
  _ <- slice_from data hs ;;
  wloop (step hs) fuel data hs indef (count_of cnt) 0 0 [] 0.

(* what the witness walkers record: the Go maps are keyed by a hash of the
   content (datums, scripts) or by (tag, index) (redeemers) *)
Inductive comp :=
| CDatum (r : range) (content : bytes)
| CRedeemer (tag idx : N) (r : range)
| CScript (ty : N) (r : range) (content : bytes).

(* extractDatumOffsets: dec.DecodeRaw -> (offset, d.data[relStart:relEnd]) *)
Definition datum_step (data : bytes) (base : N) (hs pos : nat) : out (sres comp) :=
  let stream := skipn hs data in
  match sd_skip stream pos with
  | None => Val (SAbort 0)
  | Some (_, n) =>
      s <- slice stream pos (pos + n) ;;
      Val (SNext [CDatum (u32 (base + N.of_nat hs + N.of_nat pos), u32 (nlen s)) s] (pos + n) 0)
  end.
Definition datum_offsets (fuel : nat) (data : bytes) (base : N) : out (list comp * nat) :=
  if Nat.ltb (length data) 1 then Val ([], 0%nat) else
  t <- skip_tags fuel data 0 0 ;;
  let '(d, ts, k) := t in
  r <- wrun 128 fuel d (datum_step d (u32 (base + ts))) ;;
  Val (fst r, (k + snd r)%nat).

(* extractScriptArrayOffsets: the elements come from cbor.Decode(&[]RawMessage);
   positions from cborSkipTags and (0x9f ? 1 : cborArrayInfo(arrayData).headerSize) *)
Fixpoint walk_scripts (ty : N) (base pos : N) (scripts : list bytes) : list comp :=
  match scripts with
  | [] => []
  | s :: r => CScript ty (u32 (base + pos), u32 (nlen s)) s :: walk_scripts ty base (u32 (pos + u32 (nlen s))) r
  end.
Definition script_offsets (fuel : nat) (ty : N) (data : bytes) (base : N) : out (list comp * nat) :=
  if Nat.ltb (length data) 1 then Val ([], 0%nat) else
  match raw_list data with
  | None => Val ([], 0%nat)
  | Some scripts =>
      t <- skip_tags fuel data 0 0 ;;
      let '(d, ts, k) := t in
      is9f <- (if Nat.ltb 0 (length d) then b <- idx d 0 ;; Val (b =? 159) else Val false) ;;
      hs <- (if (is9f : bool) then Val 1 else r <- array_info d ;; Val (N.of_nat (snd (fst r)))) ;;
      Val (walk_scripts ty base (u32 (ts + hs)) scripts, (k + length scripts)%nat)
  end.

(* extractRedeemerArrayOffsets: [[purpose, index, data, exunits], ...] *)
Definition redeemer_arr_step (data : bytes) (base : N) (hs pos : nat) : out (sres comp) :=
  let stream := skipn hs data in
  match sd_skip stream pos with
  | None => Val (SAbort 0)
  | Some (_, n) =>
      elem <- slice stream pos (pos + n) ;;
      r <- array_info elem ;;
      let '(_, ih, _) := r in
      if Nat.leb (length elem) ih then Val (SNext [] (pos + n) 0) else       (* int(innerHeaderSize) >= len(elemBytes): continue *)
      e <- slice_from elem ih ;;
      match sd_uint e 0 with
      | None => Val (SNext [] (pos + n) 0)
      | Some (purpose, l1) =>
        match sd_uint e l1 with
        | None => Val (SNext [] (pos + n) 0)
        | Some (index, l2) =>
          match sd_skip e (l1 + l2) with
          | None => Val (SNext [] (pos + n) 0)
          | Some (_, dl) =>
              Val (SNext [CRedeemer (purpose mod 256) (u32 index)
                            (u32 (base + N.of_nat hs + N.of_nat pos + N.of_nat ih + N.of_nat (l1 + l2)), u32 (N.of_nat dl))]
                         (pos + n) 0)
          end
        end
      end
  end.

(* extractRedeemerMapOffsets: {[purpose, index]: [data, exunits], ...} *)
Definition redeemer_map_step (data : bytes) (base : N) (hs pos : nat) : out (sres comp) :=
  let stream := skipn hs data in
  match sd_uints stream pos with
  | None => Val (SAbort 0)
  | Some (kp, kl) =>
    match kp with
    | purpose :: index :: _ =>
      match sd_skip stream (pos + kl) with
      | None => Val (SAbort 0)
      | Some (_, vl) =>
          value <- slice stream (pos + kl) (pos + kl + vl) ;;
          r <- array_info value ;;
          let '(_, vh, _) := r in
          if Nat.leb (length value) vh then Val (SNext [] (pos + kl + vl) 0) else
          v <- slice_from value vh ;;
          match sd_skip v 0 with
          | None => Val (SNext [] (pos + kl + vl) 0)
          | Some (_, dl) =>
              Val (SNext [CRedeemer (purpose mod 256) (u32 index)
                            (u32 (base + N.of_nat hs + N.of_nat (pos + kl) + N.of_nat vh), u32 (N.of_nat dl))]
                         (pos + kl + vl) 0)
          end
      end
    | _ => Val (SAbort 0)                                      (* len(keyPair) < 2 *)
    end
  end.

(* extractRedeemerOffsets: len < 1 -> return; redeemerData[0] & 0xe0 *)
Definition redeemer_offsets (fuel : nat) (data : bytes) (base : N) : out (list comp * nat) :=
  if Nat.ltb (length data) 1 then Val ([], 0%nat) else
  b0 <- idx data 0 ;;
  if N.land b0 224 =? 128 then wrun 128 fuel data (redeemer_arr_step data base)
  else if N.land b0 224 =? 160 then wrun 160 fuel data (redeemer_map_step data base)
  else Val ([], 0%nat).

(* extractWitnessComponentOffsets *)
Definition witness_step (fuel : nat) (data : bytes) (base : N) (hs pos : nat) : out (sres comp) :=
  let stream := skipn hs data in
  match sd_uint stream pos with
  | None => Val (SAbort 0)
  | Some (key, kl) =>
    match sd_skip stream (pos + kl) with
    | None => Val (SAbort 0)
    | Some (_, vl) =>
        value <- slice stream (pos + kl) (pos + kl + vl) ;;
        let abs := u32 (base + N.of_nat hs + N.of_nat (pos + kl)) in
        r <- (if key =? 4 then datum_offsets fuel value abs
              else if key =? 5 then redeemer_offsets fuel value abs
              else if key =? 1 then script_offsets fuel 0 value abs
              else if key =? 3 then script_offsets fuel 1 value abs
              else if key =? 6 then script_offsets fuel 2 value abs
              else if key =? 7 then script_offsets fuel 3 value abs
              else if key =? 8 then script_offsets fuel 4 value abs
              else Val ([], 0%nat)) ;;
        Val (SNext (fst r) (pos + kl + vl) (snd r))
    end
  end.
Definition witness_components (fuel : nat) (data : bytes) (base : N) : out (list comp * nat) :=
  if Nat.ltb (length data) 2 then Val ([], 0%nat) else wrun 160 fuel data (witness_step fuel data base).

(* the offset adjustment of common.extractOutputOffsets (uint32 arithmetic):
     bodyIdx := int(adjustedOffset - bodyOffset)
     if bodyIdx >= 0 && bodyIdx < len(bodyData) { b := bodyData[bodyIdx]; ... if !valid && bodyIdx > 0 { prev := bodyData[bodyIdx-1] ... } } *)
Definition is_out_start (b : N) : bool := (128 <=? b) && (b <=? 191).
Definition adjust_output_offset (body : bytes) (body_off out_pos : N) : out N :=
  let bi := N.to_nat ((out_pos + two32 - body_off mod two32) mod two32) in
  if Nat.ltb bi (length body) then
    b <- idx body bi ;;
    if negb (is_out_start b) && Nat.ltb 0 bi then
      p <- idx body (bi - 1) ;; Val (if is_out_start p then (out_pos + two32 - 1) mod two32 else out_pos)
    else Val out_pos
  else Val out_pos.

(* for j, rawOutput := range outputsRaw { ...; outputPos += outputLen }
   heur = the function in common.go (adjusts), false = the method in streaming_decode.go *)
Fixpoint walk_outputs (heur : bool) (body : bytes) (body_off pos : N) (outs : list bytes) : out (list range) :=
  match outs with
  | [] => Val []
  | o :: r =>
      p <- (if heur then adjust_output_offset body body_off pos else Val pos) ;;
      rest <- walk_outputs heur body body_off (u32 (pos + u32 (nlen o))) r ;;
      Val ((p, u32 (nlen o)) :: rest)
  end.

(* extractOutputOffsets (both copies): key 1 -> Decode(&outputsRaw), header size of
   bodyData[headerSize+valueStart:], positions of the elements, return *)
Definition outputs_step (heur : bool) (body : bytes) (body_off : N) (hs pos : nat) : out (sres range) :=
  let stream := skipn hs body in
  match sd_uint stream pos with
  | None => Val (SAbort 0)
  | Some (key, kl) =>
    if key =? 1 then
      let vstart := (pos + kl)%nat in
      match sd_items stream vstart with
      | None => Val (SAbort 0)
      | Some (outs, _) =>
          let raws := map enc outs in
          let arr_off := u32 (body_off + N.of_nat hs + N.of_nat vstart) in
          d <- slice_from body (hs + vstart) ;;
          h <- array_header_size_of d (length raws) ;;
          rs <- walk_outputs heur body body_off (u32 (arr_off + h)) raws ;;
          Val (SStop rs (length raws))
      end
    else
      match sd_skip stream (pos + kl) with
      | None => Val (SAbort 0)
      | Some (_, vl) => Val (SNext [] (pos + kl + vl) 0)
      end
  end.
Definition output_offsets (heur : bool) (fuel : nat) (body : bytes) (body_off : N) : out (list range * nat) :=
  if Nat.ltb (length body) 2 then Val ([], 0%nat) else wrun 160 fuel body (outputs_step heur body body_off).

(* extractMetadataOffsets: (uint32(txIdx), offset, length) in insertion order;
   an error return keeps what was recorded (the caller ignores the error) *)
Definition metadata_step (data : bytes) (base : N) (hs pos : nat) : out (sres (N * range)) :=
  let stream := skipn hs data in
  match sd_uint stream pos with
  | None => Val (SAbort 0)
  | Some (idx, kl) =>
    match sd_skip stream (pos + kl) with
    | None => Val (SAbort 0)
    | Some (_, vl) =>
        Val (SNext [(u32 idx, (u32 (base + N.of_nat hs + N.of_nat (pos + kl)), u32 (N.of_nat vl)))] (pos + kl + vl) 0)
    end
  end.
Definition metadata_offsets (fuel : nat) (data : bytes) (base : N) : out (list (N * range) * nat) :=
  if Nat.eqb (length data) 0 then Val ([], 0%nat) else wrun 160 fuel data (metadata_step data base).

(* Go map semantics: the last insertion for a key wins *)
Fixpoint lookup_last {V} (k : N) (l : list (N * V)) : option V :=
  match l with
  | [] => None
  | (k', v) :: r => match lookup_last k r with Some w => Some w | None => if k' =? k then Some v else None end
  end.

Record txloc := mk_txloc { l_body : range; l_wit : range; l_meta : range; l_outs : list range; l_comps : list comp }.

(* isByronBlock / isDijkstraBlock: shape tests made of cbor.Decode(&[]RawMessage) calls *)
Definition is_byron_block (blk : list bytes) : bool :=
  match blk with
  | [_; b1; _] =>
      match raw_list b1 with
      | Some [p0; _; _; _] =>
          match raw_list p0 with
          | Some [] => true
          | Some (pair0 :: _) => match raw_list pair0 with Some [_; _] => true | _ => false end
          | None => false
          end
      | _ => false
      end
  | _ => false
  end.
Definition is_dijkstra_block (blk : list bytes) : bool :=
  match blk with
  | [_; b1] =>
      match raw_list b1 with
      | Some [_; p1; _; _] =>
          match raw_list p1 with
          | Some [] => true
          | Some (tx0 :: _) => match raw_list tx0 with Some [_; _; _] => true | _ => false end
          | None => false
          end
      | _ => false
      end
  | _ => false
  end.

(* the two loops over the decoded bodies / witness sets (Go `range` over a slice) *)
Fixpoint walk_bodies (heur : bool) (fuel : nat) (pos : N) (bodies : list bytes) : out (list (range * list range) * nat) :=
  match bodies with
  | [] => Val ([], 0%nat)
  | b :: r =>
      o <- output_offsets heur fuel b pos ;;
      rest <- walk_bodies heur fuel (u32 (pos + u32 (nlen b))) r ;;
      Val (((pos, u32 (nlen b)), fst o) :: fst rest, S (snd o + snd rest))
  end.
Fixpoint walk_witnesses (fuel : nat) (pos : N) (wits : list bytes) : out (list (range * list comp) * nat) :=
  match wits with
  | [] => Val ([], 0%nat)
  | w :: r =>
      c <- witness_components fuel w pos ;;
      rest <- walk_witnesses fuel (u32 (pos + u32 (nlen w))) r ;;
      Val (((pos, u32 (nlen w)), fst c) :: fst rest, S (snd c + snd rest))
  end.
Fixpoint assemble (i : N) (bs : list (range * list range)) (ws : list (range * list comp)) (metas : list (N * range)) : list txloc :=
  match bs, ws with
  | (b, outs) :: br, (w, comps) :: wr =>
      mk_txloc b w (match lookup_last i metas with Some r => r | None => zero_range end) outs comps
      :: assemble (i + 1) br wr metas
  | _, _ => []
  end.

(* outcome of the block walkers: the transaction locations and the iterations made *)
Inductive xres := XDone (txs : list txloc) (ticks : nat).

(* ---- Byron main blocks: [header, [tx_payload, ssc, dlg, upd], extra], tx_payload = [[body, witnesses], ...] ---- *)
Fixpoint walk_ranges (pos : N) (items : list bytes) : list range :=
  match items with
  | [] => []
  | x :: r => (pos, u32 (nlen x)) :: walk_ranges (u32 (pos + u32 (nlen x))) r
  end.

(* extractByronOutputOffsets: tx body = [inputs, outputs, attributes]; bodyParts[0], bodyParts[1] after len >= 2 *)
Definition byron_output_offsets (body : bytes) (body_off : N) : out (list range * nat) :=
  if Nat.ltb (length body) 2 then Val ([], 0%nat) else
  match raw_list body with
  | None => Val ([], 0%nat)
  | Some parts =>
      if Nat.ltb (length parts) 2 then Val ([], 0%nat) else
      match parts with
      | p0 :: p1 :: _ =>
          match raw_list p1 with
          | None => Val ([], 0%nat)
          | Some outs =>
              if Nat.eqb (length outs) 0 then Val ([], 0%nat) else
              bh <- array_header_size_of body (length parts) ;;
              let outs_abs := u32 (u32 (body_off + bh) + u32 (nlen p0)) in
              oh <- array_header_size_of p1 (length outs) ;;
              Val (walk_ranges (u32 (outs_abs + oh)) outs, length outs)
          end
      | _ => Panic
      end
  end.

(* the loop over the pairs: txPair[0], txPair[1] after len >= 2 *)
Fixpoint byron_pairs (pairs : list bytes) (pos : N) : out (list txloc * nat) :=
  match pairs with
  | [] => Val ([], 0%nat)
  | raw :: r =>
      match raw_list raw with
      | None => Err
      | Some tx_pair =>
          if Nat.ltb (length tx_pair) 2 then Err else
          match tx_pair with
          | b :: w :: _ =>
              ph <- array_header_size_of raw (length tx_pair) ;;
              let bstart := u32 (pos + ph) in
              let wstart := u32 (bstart + u32 (nlen b)) in
              o <- byron_output_offsets b bstart ;;
              rest <- byron_pairs r (u32 (pos + u32 (nlen raw))) ;;
              Val (mk_txloc (bstart, u32 (nlen b)) (wstart, u32 (nlen w)) zero_range (fst o) [] :: fst rest,
                   S (snd o + snd rest))
          | _ => Panic
          end
      end
  end.

(* extractByronTransactionOffsets: blockArray[0], blockArray[1] (three elements), bodyParts[0] (four) *)
Definition byron_offsets (data : bytes) (blk : list bytes) : out xres :=
  match blk with
  | b0 :: b1 :: _ =>
      ahs <- array_header_size_of data (length blk) ;;
      let body_off := u32 (ahs + u32 (nlen b0)) in
      match raw_list b1 with
      | None => Err
      | Some parts =>
          if negb (Nat.eqb (length parts) 4) then Err else
          match parts with
          | p0 :: _ =>
              match raw_list p0 with
              | None => Err
              | Some payload =>
                  if Nat.eqb (length payload) 0 then Val (XDone [] 0) else
                  bah <- array_header_size_of b1 (length parts) ;;
                  ph <- array_header_size_of p0 (length payload) ;;
                  r <- byron_pairs payload (u32 (u32 (body_off + bah) + ph)) ;;
                  Val (XDone (fst r) (snd r))
              end
          | _ => Panic
          end
      end
  | _ => Panic
  end.

(* ---- Dijkstra blocks: [header, [invalid/nil, transactions, leios/nil, peras/nil]] ---- *)
(* cborArrayInfo + `count < 0 && !indefinite` + `!indefinite && count != n`: the header size *)
Definition info_ok (data : bytes) (n : N) : out nat :=
  r <- array_info data ;;
  let '(cnt, hs, indef) := r in
  if info_invalid r then Err
  else if negb indef && negb (count_of cnt =? n) then Err
  else Val hs.
(* DecodeRaw on the decoder over `stream` at pos: the bytes and the new position *)
Definition sd_raw (stream : bytes) (pos : nat) : out (bytes * nat) :=
  match sd_skip stream pos with
  | None => Err
  | Some (_, n) => s <- slice stream pos (pos + n) ;; Val (s, (pos + n)%nat)
  end.

(* for i := range txs { txsDecoder.DecodeRaw; cbor.Decode(rawTx, &txParts); cborArrayInfo(rawTx);
   rawTx[txHeaderSize:]; three DecodeRaw; auxBytes[0] under len == 1; the two walkers } *)
Fixpoint dijkstra_txs (fuel : nat) (txs : list bytes) (stream : bytes) (pos : nat) (base : N) : out (list txloc * nat) :=
  match txs with
  | [] => Val ([], 0%nat)
  | _ :: r =>
      t <- sd_raw stream pos ;;
      let '(raw_tx, pos') := t in
      let tx_pos := u32 (base + N.of_nat pos) in
      match raw_list raw_tx with
      | None => Err
      | Some parts =>
          if negb (Nat.eqb (length parts) 3) then Err else
          ths <- info_ok raw_tx 3 ;;
          st <- slice_from raw_tx ths ;;
          b <- sd_raw st 0 ;;
          let '(body, p1) := b in
          w <- sd_raw st p1 ;;
          let '(wit, p2) := w in
          a <- sd_raw st p2 ;;
          let '(aux, _) := a in
          let bstart := u32 (tx_pos + N.of_nat ths) in
          let wstart := u32 (tx_pos + N.of_nat ths + N.of_nat p1) in
          let astart := u32 (tx_pos + N.of_nat ths + N.of_nat p2) in
          is_null <- (if Nat.eqb (length aux) 1 then x <- idx aux 0 ;; Val (x =? 246) else Val false) ;;
          let meta := if (is_null : bool) then zero_range else (astart, u32 (nlen aux)) in
          o <- output_offsets true fuel body bstart ;;
          c <- witness_components fuel wit wstart ;;
          rest <- dijkstra_txs fuel r stream pos' base ;;
          Val (mk_txloc (bstart, u32 (nlen body)) (wstart, u32 (nlen wit)) meta (fst o) (fst c) :: fst rest,
               S (snd o + snd c + snd rest))
      end
  end.

(* extractDijkstraTransactionOffsets *)
Definition dijkstra_offsets (fuel : nat) (data : bytes) (blk : list bytes) : out xres :=
  if negb (Nat.eqb (length blk) 2) then Err else
  top_hs <- info_ok data 2 ;;
  match blk with
  | _ :: b1 :: _ =>
      match raw_list b1 with
      | None => Err
      | Some parts =>
          if negb (Nat.eqb (length parts) 4) then Err else
          st <- slice_from data top_hs ;;                               (* cborData[topHeaderSize:] *)
          match sd_skip st 0 with
          | None => Err
          | Some (_, hl) =>
              b <- sd_raw st hl ;;
              let '(body_raw, _) := b in
              let block_body_off := u32 (N.of_nat top_hs + N.of_nat hl) in
              bhs <- info_ok body_raw 4 ;;
              bst <- slice_from body_raw bhs ;;                         (* bodyRaw[bodyHeaderSize:] *)
              match sd_skip bst 0 with
              | None => Err
              | Some (_, il) =>
                  t <- sd_raw bst il ;;
                  let '(txs_raw, _) := t in
                  let txs_off := u32 (block_body_off + N.of_nat bhs + N.of_nat il) in
                  match raw_list txs_raw with
                  | None => Err
                  | Some txs =>
                      if Nat.eqb (length txs) 0 then Val (XDone [] 0) else
                      ths <- info_ok txs_raw (N.of_nat (length txs)) ;;
                      tst <- slice_from txs_raw ths ;;                  (* txsRaw[txsHeaderSize:] *)
                      r <- dijkstra_txs fuel txs tst 0 (u32 (txs_off + N.of_nat ths)) ;;
                      Val (XDone (fst r) (snd r))
                  end
              end
          end
      end
  | _ => Panic
  end.

(* ExtractTransactionOffsets (streaming = false) and StreamingBlockDecoder.DecodeWithOffsets
   (streaming = true); Err = the Go error return.  blockArray[0..3] after the
   length guards are index expressions: the `_ => Panic` branch is what an
   index out of range would be. *)
Definition extract_offsets (streaming : bool) (fuel : nat) (data : bytes) : out xres :=
  match raw_list data with
  | None => Err
  | Some blk =>
    if negb streaming && is_dijkstra_block blk then dijkstra_offsets fuel data blk
    else if Nat.ltb (length blk) 3 then Val (XDone [] 0)
    else if is_byron_block blk then byron_offsets data blk
    else if Nat.ltb (length blk) 4 then Val (XDone [] 0)
    else
      d0 <- slice_from data 0 ;;                                   (* d.data[blockStart:] ; cborData *)
      ahs <- array_header_size_of d0 (length blk) ;;
      match blk with
      | b0 :: b1 :: b2 :: b3 :: _ =>
          let bodies_off := u32 (ahs + u32 (nlen b0)) in
          let wits_off := u32 (bodies_off + u32 (nlen b1)) in
          let meta_off := u32 (wits_off + u32 (nlen b2)) in
          match raw_list b1 with
          | None => Err
          | Some bodies =>
            match raw_list b2 with
            | None => Err
            | Some wits =>
              if negb (Nat.eqb (length bodies) (length wits)) then Err else
              metas <- (if Nat.ltb 1 (length b3) then metadata_offsets fuel b3 meta_off else Val ([], 0%nat)) ;;
              bh <- array_header_size_of b1 (length bodies) ;;
              bl <- walk_bodies (negb streaming) fuel (u32 (bodies_off + bh)) bodies ;;
              wh <- array_header_size_of b2 (length wits) ;;
              wl <- walk_witnesses fuel (u32 (wits_off + wh)) wits ;;
              Val (XDone (assemble 0 (fst bl) (fst wl) (fst metas)) (snd metas + snd bl + snd wl + length bodies)%nat)
            end
          end
      | _ => Panic
      end
  end.

(* ExtractTransactionBodyCbor / ExtractWitnessCbor / ExtractOutputCbor after the index checks:
   end := uint64(Offset) + uint64(Length); if end > len -> error; blockData[Offset : Offset+Length]
   (the slice bounds are computed in uint32) *)
Definition extract_cbor (data : bytes) (r : range) : out bytes :=
  let '(off, len) := r in
  if N.of_nat (length data) <? off + len then Err
  else slice data (N.to_nat off) (N.to_nat (u32 (off + len))).

(* cbor.StreamDecoder.DecodeArrayItems at position abs (= consumed + NumBytesRead):
   Decode(&[]RawMessage), cborArrayHeaderSizeFromBytes(d.data, arrayStart), then the
   callback for every item with (index, position, length).
   Result: (arrayStart, total length, callback arguments) *)
Fixpoint walk_items_cb (i pos : nat) (items : list bytes) : list (nat * nat * nat) :=
  match items with
  | [] => []
  | x :: r => (i, pos, length x) :: walk_items_cb (S i) (pos + length x) r
  end.
Definition decode_array_items (data : bytes) (abs : nat) : out (nat * nat * list (nat * nat * nat)) :=
  match sd_items data abs with
  | None => Err
  | Some (xs, n) =>
      h <- header_size_from_bytes data abs ;;
      Val (abs, n, walk_items_cb 0 (abs + h) (map enc xs))
  end.

(* ================================================================== *)
(* muxer.readLoop framing.  The connection is the byte stream `conn`;
   binary.Read needs 8 header bytes, PayloadLength = bytes 6..7, a zero length
   is an error, the payload buffer is make([]byte, PayloadLength) and
   io.ReadFull must fill it.  Result: (segments delivered, allocation ledger). *)
Fixpoint mux_read (fuel : nat) (conn : bytes) (segs : nat) (allocs : list N) : out (nat * list N) :=
  match fuel with
  | O => OutOfFuel
  | S f =>
    if Nat.ltb (length conn) 8 then Val (segs, allocs) else        (* EOF / short header: error, loop ends *)
    hi <- idx conn 6 ;; lo <- idx conn 7 ;;
    let plen := hi * 256 + lo in
    if plen =? 0 then Val (segs, allocs) else                      (* zero-byte payload: error *)
    let allocs' := plen :: allocs in                               (* make([]byte, header.PayloadLength) *)
    if Nat.ltb (length conn) (8 + N.to_nat plen) then Val (segs, allocs')   (* io.ReadFull fails *)
    else mux_read f (skipn (8 + N.to_nat plen) conn) (S segs) allocs'
  end.

(* protocol.readLoop, buffer handling.  The muxer hands over segment payloads;
   each is appended to the read buffer, then, as long as data is left over:
     cbor.Decode(buffer, &[]RawMessage):  io.ErrUnexpectedEOF -> wait for the next segment
         (error once the buffer is above 16 MiB); another error -> SendError, return;
         numBytesRead == 0 or an empty list -> error / return
     cbor.Decode(tmpMsg[0], &msgType): error -> SendError, return
     msgData := buffer[:numBytesRead]; MessageFromCborFunc(msgType, msgData)
     numBytesRead < len(buffer) -> buffer = buffer[numBytesRead:], go on; else buffer.Reset()
   `lib` is the library's answer on the buffer, `typ` its answer on the first element. *)
Inductive lib_res := LMsg (n k : nat) (first : bytes) | LMore | LBad.
Inductive pstat := PWait (buf : bytes) | PStop.
Definition max_read_buffer : N := 16777216.

Section proto.
  Variable lib : bytes -> lib_res.
  Variable typ : bytes -> option N.
  (* the inner loop on one state of the buffer: messages delivered (type, bytes), what then *)
  Fixpoint proto_drain (fuel : nat) (buf : bytes) (acc : list (N * bytes)) : out (list (N * bytes) * pstat) :=
    match fuel with
    | O => OutOfFuel
    | S f =>
      if Nat.eqb (length buf) 0 then Val (acc, PStop) else
      match lib buf with
      | LMore => if max_read_buffer <? nlen buf then Val (acc, PStop) else Val (acc, PWait buf)
      | LBad => Val (acc, PStop)
      | LMsg n k first =>
          if Nat.eqb n 0 || Nat.eqb k 0 then Val (acc, PStop) else
          _ <- (if Nat.ltb 0 k then Val tt else Panic) ;;                     (* tmpMsg[0] *)
          match typ first with
          | None => Val (acc, PStop)
          | Some ty =>
              msg <- slice buf 0 n ;;                                         (* readBuffer.Bytes()[:numBytesRead] *)
              if Nat.ltb n (length buf) then
                rest <- slice_from buf n ;; proto_drain f rest (acc ++ [(ty, msg)])   (* readBuffer.Bytes()[numBytesRead:] *)
              else Val (acc ++ [(ty, msg)], PWait [])
          end
      end
    end.

  (* the outer loop over the segments; every delivered message carries the index of the
     segment after which it was delivered; Some j = the loop ended (error) at segment j *)
  Fixpoint proto_read (fuel : nat) (segs : list bytes) (si : nat) (buf : bytes)
      (acc : list (nat * (N * bytes))) : out (list (nat * (N * bytes)) * option nat) :=
    match segs with
    | [] => Val (acc, None)
    | s :: r =>
        d <- proto_drain fuel (buf ++ s) [] ;;
        let '(msgs, st) := d in
        let acc' := acc ++ map (fun m => (si, m)) msgs in
        match st with
        | PWait b => proto_read fuel r (S si) b acc'
        | PStop => Val (acc', Some si)
        end
    end.
End proto.

(* the library calls of the read loop through the Lib parser *)
Definition lib_cbor (buf : bytes) : lib_res :=
  match parse_full buf with
  | Ok i rest =>
      match items_of i with
      | Some xs => LMsg (length buf - length rest) (length xs) (match xs with x :: _ => enc x | [] => [] end)
      | None => LBad
      end
  | NeedMore => LMore
  | Bad => LBad
  end.
Definition typ_cbor (bs : bytes) : option N :=
  match parse_full bs with Ok i _ => uint_of i | _ => None end.

(* ================================================================== *)
(* cbor/diagnostic.go: parseDiagnosticNode and its helpers.  A node is
   (offset, length, children); primitives come from the stream decoder.
   `depth` is the Go depth argument (error above 256).  Every function returns
   its result AND the number of parseDiagnosticNode calls made so far (`tk`):
   one call = one tick; every loop iteration of the array / map / chunk loops
   makes at least one such call or leaves the loop. *)
Inductive dnode := DN (off len : nat) (kids : list dnode).
Definition max_diag_depth : nat := 256.

Section diag.
  Variable ok : item -> bool.

  (* data[start:end] of a finished container / tag / chunked string *)
  Definition diag_close {K} (data : bytes) (pos : nat) (mk : K -> list dnode) (r : K * nat) : tk (dnode * nat) :=
    let '(kids, e) := r in tlift (_ <- slice data pos e ;; Val (DN pos (e - pos) (mk kids), e)).

  Fixpoint diag_node (fuel : nat) (data : bytes) (depth pos : nat) {struct fuel} : tk (dnode * nat) :=
    match fuel with
    | O => (OutOfFuel, 0%nat)
    | S f => tick (
      if Nat.ltb max_diag_depth depth then tlift Err else
      if Nat.leb (length data) pos then tlift Err else
      first <~ tlift (idx data pos) ;;
      let mt := N.land first 224 in
      let ai := N.land first 31 in
      let prim :=                                         (* dec.DecodeRaw(&val) *)
        tlift (match sd_next ok data pos with
               | None => Err
               | Some (_, n) => _ <- slice data pos (pos + n) ;; Val (DN pos n [], (pos + n)%nat)
               end) in
      if (mt =? 0) || (mt =? 32) || (mt =? 224) then prim
      else if (mt =? 64) || (mt =? 96) then
        if ai =? 31 then
          (* parseIndefiniteStringDiagnosticNode: Advance(1), chunks until 0xff *)
          _ <~ tlift (if Nat.ltb (length data) (pos + 1) then Err else Val tt) ;;
          r <~ diag_indef f data (S depth) (pos + 1) 1 mt ;;
          diag_close data pos (fun k => k) r
        else prim
      else if (mt =? 128) || (mt =? 160) then
        h <~ tlift (collection_header data pos) ;;
        let '(len, hl, indef) := h in
        _ <~ tlift (if Nat.ltb (length data) (pos + hl) then Err else Val tt) ;;      (* dec.Advance(headerLen) *)
        let per := if mt =? 160 then 2%nat else 1%nat in
        r <~ (if (indef : bool) then diag_indef f data (S depth) (pos + hl) per 0
              else diag_count f data (S depth) (pos + hl) (len * N.of_nat per)) ;;
        diag_close data pos (fun k => k) r                                          (* data[start:end] *)
      else
        (* tag *)
        h <~ tlift (tag_header data pos) ;;
        let '(_, hl) := h in
        _ <~ tlift (if Nat.ltb (length data) (pos + hl) then Err else Val tt) ;;
        r <~ diag_node f data (S depth) (pos + hl) ;;
        diag_close data pos (fun k => [k]) r)
    end
  (* for range length { child } *)
  with diag_count (fuel : nat) (data : bytes) (depth pos : nat) (k : N) {struct fuel} : tk (list dnode * nat) :=
    match fuel with
    | O => (OutOfFuel, 0%nat)
    | S f =>
      if k =? 0 then tlift (Val ([], pos)) else
      r <~ diag_node f data depth pos ;;
      let '(kid, p1) := r in
      r2 <~ diag_count f data depth p1 (k - 1) ;;
      let '(kids, e) := r2 in tlift (Val (kid :: kids, e))
    end
  (* for { pos >= len -> error; data[pos] == 0xff -> Advance(1); break; per children }
     (parseArray/Map/IndefiniteString DiagnosticNode; chunk <> 0: the string variant) *)
  with diag_indef (fuel : nat) (data : bytes) (depth pos : nat) (per : nat) (chunk : N) {struct fuel} : tk (list dnode * nat) :=
    match fuel with
    | O => (OutOfFuel, 0%nat)
    | S f =>
      if Nat.leb (length data) pos then tlift Err else
      b <~ tlift (idx data pos) ;;
      if b =? 255 then
        tlift (if Nat.ltb (length data) (pos + 1) then Err else Val ([], (pos + 1)%nat))
      else
        r <~ diag_node f data depth pos ;;
        let '(k1, p1) := r in
        (* chunks of an indefinite string: definite strings of the same major type *)
        _ <~ tlift (if negb (chunk =? 0) && (negb (N.land b 224 =? chunk) || (N.land b 31 =? 31)) then Err else Val tt) ;;
        r1 <~ (if Nat.eqb per 2 then
                 r' <~ diag_node f data depth p1 ;; let '(k2, p2) := r' in tlift (Val ([k1; k2], p2))
               else tlift (Val ([k1], p1))) ;;
        let '(ks, p2) := r1 in
        r2 <~ diag_indef f data depth p2 per chunk ;;
        let '(kids, e) := r2 in tlift (Val (ks ++ kids, e))
    end.

  (* cbor.ParseDiagnostic: one node, then EOF *)
  Definition parse_diagnostic (fuel : nat) (data : bytes) : tk dnode :=
    r <~ diag_node fuel data 0 0 ;;
    let '(n, e) := r in tlift (if Nat.ltb e (length data) then Err else Val n).
End diag.

(* ================================================================== *)
(* correspondence cases *)
Definition class {A} (r : out A) : N := match r with Val _ => 0 | Err => 1 | Panic => 2 | OutOfFuel => 3 end.
Definition optN_eqb := opt_eqb N.eqb.
Definition fuel_of (data : bytes) : nat := S (2 * length data).

(* preorder (offset, length) list of a diagnostic tree *)
Fixpoint spans (n : dnode) : list (nat * nat) :=
  match n with DN o l ks => (o, l) :: flat_map spans ks end.
Definition span_eqb (a b : nat * nat) : bool := Nat.eqb (fst a) (fst b) && Nat.eqb (snd a) (snd b).

(* observed transaction location: body, witness, metadata, outputs, components;
   a component is (kind 0 datum / 1 redeemer / 2 script, a, b, range): the Go maps
   are keyed by hashes, so the harness reports their VALUES (for redeemers also the key) *)
Definition ocomp := (N * N * N * range)%type.
Definition otx := (range * range * range * list range * list ocomp)%type.
Definition range_eqb (a b : range) : bool := (fst a =? fst b) && (snd a =? snd b).

Definition comp_key (c : comp) : N * N * N * bytes :=
  match c with
  | CDatum _ s => (0, 0, 0, s)
  | CRedeemer t i _ => (1, t, i, [])
  | CScript ty _ s => (2, ty, 0, s)
  end.
Definition key_eqb (a b : N * N * N * bytes) : bool :=
  let '(a1, a2, a3, a4) := a in let '(b1, b2, b3, b4) := b in
  (a1 =? b1) && (a2 =? b2) && (a3 =? b3) && bytes_eqb a4 b4.
(* a Go map keeps the last insertion of a key *)
Fixpoint dedup_last (l : list comp) : list comp :=
  match l with
  | [] => []
  | c :: r => if existsb (fun d => key_eqb (comp_key c) (comp_key d)) r then dedup_last r else c :: dedup_last r
  end.
Definition comp_matches (c : comp) (o : ocomp) : bool :=
  let '(kind, a, b, rg) := o in
  match c with
  | CDatum r _ => (kind =? 0) && range_eqb r rg
  | CRedeemer t i r => (kind =? 1) && (t =? a) && (i =? b) && range_eqb r rg
  | CScript _ r _ => (kind =? 2) && range_eqb r rg
  end.
Definition comps_eqb (cs : list comp) (os : list ocomp) : bool :=
  let cs' := dedup_last cs in
  Nat.eqb (length cs') (length os) &&
  forallb (fun c => existsb (comp_matches c) os) cs' &&
  forallb (fun o => existsb (fun c => comp_matches c o) cs') os.
Definition tx_eqb (t : txloc) (o : otx) : bool :=
  let '(b, w, m, outs, comps) := o in
  range_eqb (l_body t) b && range_eqb (l_wit t) w && range_eqb (l_meta t) m &&
  list_eqb range_eqb (l_outs t) outs && comps_eqb (l_comps t) comps.

Fixpoint txs_eqb (ts : list txloc) (os : list otx) : bool :=
  match ts, os with
  | [], [] => true
  | t :: tr, o :: orr => tx_eqb t o && txs_eqb tr orr
  | _, _ => false
  end.

Definition cb3_eqb (a b : nat * nat * nat) : bool :=
  let '(a1, a2, a3) := a in let '(b1, b2, b3) := b in Nat.eqb a1 b1 && Nat.eqb a2 b2 && Nat.eqb a3 b3.
Definition msg_eqb (a b : N * bytes) : bool := (fst a =? fst b) && bytes_eqb (snd a) (snd b).
Fixpoint is_prefix {A} (eqb : A -> A -> bool) (p l : list A) : bool :=
  match p, l with
  | [], _ => true
  | x :: pr, y :: lr => eqb x y && is_prefix eqb pr lr
  | _ :: _, [] => false
  end.

Inductive case :=
| CInfo (major : N) (data : bytes) (cnt : option N) (hs : nat) (indef : bool)          (* ArrayInfo / MapInfo *)
| CHeader (major : N) (data : bytes) (abs : nat) (res : option (N * nat))              (* DecodeArrayHeader / DecodeMapHeader *)
| CRaw (data : bytes) (off len : Z) (res : option bytes) (panicked : bool)             (* RawBytes *)
| CAdvance (data : bytes) (pos : nat) (n : Z) (cls : N) (newpos : nat)                 (* Advance *)
| CId (data : bytes) (liblen libid : option N) (len id : option N)                     (* ListLength / DecodeIdFromList *)
| CAddr (data : bytes) (byron : bool) (cls : N) (ptr : option (N * N * N)) (extra : bytes)   (* NewAddressFromBytes *)
| CExtract (data : bytes) (eb ew : nat) (meta : bool) (cbs : list cb) (cls : N)        (* ExtractAndSetTransactionCbor *)
| CDiag (data : bytes) (cls : N) (sp : list (nat * nat))                               (* ParseDiagnostic *)
| CMux (conn : bytes) (segs : nat) (allocs : list N)                                   (* muxer read loop *)
| COffsets (streaming : bool) (data : bytes) (res : option (list otx))                 (* DecodeWithOffsets / ExtractTransactionOffsets *)
| CCbor (data : bytes) (off len : N) (res : option bytes)                              (* ExtractTransactionBodyCbor & co *)
| CItems (data : bytes) (abs : nat) (res : option (nat * nat * list (nat * nat * nat))) (* DecodeArrayItems *)
| CProto (segs : list bytes) (must : nat) (msgs : list (N * bytes)) (errored : bool).  (* protocol read loop *)

Definition cb_eqb (a b : cb) : bool :=
  let '(k1, i1, s1) := a in let '(k2, i2, s2) := b in (k1 =? k2) && Nat.eqb i1 i2 && bytes_eqb s1 s2.
Definition ptr_eqb (a b : N * N * N) : bool :=
  let '(s1, t1, c1) := a in let '(s2, t2, c2) := b in (s1 =? s2) && (t1 =? t2) && (c1 =? c2).

(* the trailer whitelist is reduced to its observed verdict: the harness
   passes extra = the trailing bytes the implementation kept *)
Definition check_case (c : case) : bool :=
  match c with
  | CInfo major data cnt hs indef =>
      match info major data with
      | Val (c', h', i') => optN_eqb c' cnt && Nat.eqb h' hs && Bool.eqb i' indef
      | _ => false end
  | CHeader major data abs res =>
      match decode_header major data abs, res with
      | Val (l, h), Some (l', h') => (l =? l') && Nat.eqb h h'
      | Err, None => true
      | _, _ => false end
  | CRaw data off len res panicked =>
      match raw_bytes data off len with
      | Val r => negb panicked && opt_eqb bytes_eqb r res
      | Panic => panicked
      | _ => false end
  | CAdvance data pos n cls newpos =>
      (* position + n above MaxInt64: the caller handed in a number that is not a length of
         anything; the current text wraps and panics (C02_advance_overflow_refuted), an
         overflow-safe text returns the error - either is accepted here *)
      if (max_int64 <? Z.of_nat pos + n)%Z then (cls =? 1) || (cls =? 2) else
      match advance data pos n with
      | Val p => (cls =? 0) && Nat.eqb p newpos
      | r => class r =? cls end
  | CId data liblen libid len id =>
      optN_eqb (match list_length (fun _ => liblen) data with Val v => Some v | _ => None end) len &&
      optN_eqb (match decode_id_from_list (fun _ => liblen) (fun _ => libid) data with Val v => Some v | _ => None end) id &&
      negb (bad (list_length (fun _ => liblen) data)) &&
      negb (bad (decode_id_from_list (fun _ => liblen) (fun _ => libid) data))
  | CAddr data byron cls ptr extra =>
      match populate (fun _ => byron) (fun t => bytes_eqb t extra) (S (length data)) data with
      | Val (Some a) => (cls =? 0) && opt_eqb ptr_eqb (s_ptr a) ptr && bytes_eqb (s_extra a) extra
      | Val None => cls =? 0
      | r => class r =? cls end
  | CExtract data eb ew meta cbs cls =>
      let '(acc, st, _) := extract_and_set any_ok (fuel_of data) data eb ew meta in
      list_eqb cb_eqb acc cbs && (class st =? cls)
  | CDiag data cls sp =>
      match fst (parse_diagnostic any_ok (fuel_of data) data) with
      | Val n => (cls =? 0) && list_eqb span_eqb (spans n) sp
      | r => class r =? cls end
  | CMux conn segs allocs =>
      match mux_read (S (length conn)) conn 0 [] with
      | Val (s, a) => Nat.eqb s segs && list_eqb N.eqb (rev a) allocs
      | _ => false end
  | COffsets streaming data res =>
      match extract_offsets streaming (S (length data)) data, res with
      | Val (XDone txs _), Some os => txs_eqb txs os
      | Err, None => true
      | _, _ => false end
  | CCbor data off len res =>
      match extract_cbor data (off, len), res with
      | Val s, Some s' => bytes_eqb s s'
      | Err, None => true
      | _, _ => false end
  | CItems data abs res =>
      match decode_array_items data abs, res with
      | Val (s, n, cbs), Some (s', n', cbs') => Nat.eqb s s' && Nat.eqb n n' && list_eqb cb3_eqb cbs cbs'
      | Err, None => true
      | _, _ => false end
  | CProto segs must msgs errored =>
      (* the harness knows that the segments 0 .. must-1 have been worked off completely;
         the later ones (flush segments) may or may not have been *)
      match proto_read lib_cbor typ_cbor (S (length (concat segs))) segs 0 [] [] with
      | Val (ms, err_at) =>
          let all := map snd ms in
          let sure := map snd (filter (fun m => Nat.ltb (fst m) must) ms) in
          match err_at with
          | Some j =>
              if Nat.ltb j must then errored && list_eqb msg_eqb all msgs
              else is_prefix msg_eqb sure msgs && (if errored then list_eqb msg_eqb all msgs else is_prefix msg_eqb msgs all)
          | None => negb errored && is_prefix msg_eqb sure msgs && is_prefix msg_eqb msgs all
          end
      | _ => false end
  end.
Definition mismatches := failing check_case.
