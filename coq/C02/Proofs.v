(* C02 - proofs: the model's partial operations never fire, loops end within
   a fuel linear in the input, allocations are bounded. *)
From V Require Import Lib.Base Lib.Cbor Lib.CborParse Lib.CborProofs C02.Model.
From V Require Lib.CborFuel Lib.CborSpan.
Local Open Scope N_scope.

(* ---- basics ---- *)
Lemma idx_lt data i : (i < length data)%nat -> exists b, idx data i = Val b.
Proof.
  intros H. unfold idx. destruct (nth_error data i) as [b|] eqn:E; [eauto|].
  apply nth_error_None in E. lia.
Qed.

Lemma idx_bad data i : (i < length data)%nat -> bad (idx data i) = false.
Proof. intros H. destruct (idx_lt data i H) as (b & ->). reflexivity. Qed.

Lemma rd_idx_ok data : forall k from acc, (from + k <= length data)%nat -> exists v, rd_idx data from k acc = Val v.
Proof.
  induction k as [|k IH]; intros from acc H; cbn [rd_idx]; [eauto|].
  destruct (idx_lt data from) as (b & ->); [lia|]. cbn [bind]. apply IH. lia.
Qed.

Lemma slice_from_ok data a : (a <= length data)%nat -> slice_from data a = Val (skipn a data).
Proof. intros H. unfold slice_from. destruct (Nat.ltb_spec (length data) a); [lia|reflexivity]. Qed.

Lemma slice_ok data a b : (a <= b)%nat -> (b <= length data)%nat -> slice data a b = Val (firstn (b - a) (skipn a data)).
Proof.
  intros H1 H2. unfold slice. destruct (Nat.ltb_spec b a); [lia|]. destruct (Nat.ltb_spec (length data) b); [lia|]. reflexivity.
Qed.

Lemma bad_bind {A B} (r : out A) (k : A -> out B) :
  bad r = false -> (forall a, r = Val a -> bad (k a) = false) -> bad (bind r k) = false.
Proof. destruct r; cbn; intros H1 H2; try discriminate; auto. Qed.

Ltac brk :=
  repeat match goal with
  | |- context [if ?c then _ else _] => destruct c eqn:?
  end.

(* ================================================================== *)
(* ArrayInfo / MapInfo / cborArrayInfo / cborMapInfo *)
Lemma info_spec major data : exists c h ind, info major data = Val (c, h, ind) /\
  (info_invalid (c, h, ind) = false -> (1 <= h <= length data)%nat).
Proof.
  unfold info.
  destruct (Nat.eqb_spec (length data) 0) as [E0|E0].
  { do 3 eexists. split; [reflexivity|]. cbn. discriminate. }
  destruct (idx_lt data 0) as (b0 & ->); [lia|]. cbn [bind].
  destruct (negb (N.land b0 224 =? major)).
  { do 3 eexists. split; [reflexivity|]. cbn. discriminate. }
  destruct (N.land b0 31 <=? 23).
  { do 3 eexists. split; [reflexivity|]. cbn. intros _; lia. }
  assert (RD : forall k, (1 + k <= length data)%nat -> exists v, rd_idx data 1 k 0 = Val v) by (intros; apply rd_idx_ok; lia).
  destruct ((N.land b0 31 =? 24) && Nat.leb 2 (length data)) eqn:E1.
  { apply andb_true_iff in E1. destruct E1 as [_ E1]. apply Nat.leb_le in E1.
    destruct (RD 1%nat) as (v & ->); [lia|]. cbn [bind]. do 3 eexists. split; [reflexivity|]. cbn. lia. }
  destruct ((N.land b0 31 =? 25) && Nat.leb 3 (length data)) eqn:E2.
  { apply andb_true_iff in E2. destruct E2 as [_ E2]. apply Nat.leb_le in E2.
    destruct (RD 2%nat) as (v & ->); [lia|]. cbn [bind]. do 3 eexists. split; [reflexivity|]. cbn. lia. }
  destruct ((N.land b0 31 =? 26) && Nat.leb 5 (length data)) eqn:E3.
  { apply andb_true_iff in E3. destruct E3 as [_ E3]. apply Nat.leb_le in E3.
    destruct (RD 4%nat) as (v & ->); [lia|]. cbn [bind].
    destruct (max_int32 <? v); do 3 eexists; (split; [reflexivity|]); cbn; [discriminate|lia]. }
  destruct ((N.land b0 31 =? 27) && Nat.leb 9 (length data)) eqn:E4.
  { apply andb_true_iff in E4. destruct E4 as [_ E4]. apply Nat.leb_le in E4.
    destruct (RD 8%nat) as (v & ->); [lia|]. cbn [bind].
    destruct (max_int32 <? v); do 3 eexists; (split; [reflexivity|]); cbn; [discriminate|lia]. }
  destruct (N.land b0 31 =? 31); do 3 eexists; (split; [reflexivity|]); cbn; [lia|discriminate].
Qed.

Lemma info_no_bad major data : bad (info major data) = false.
Proof. destruct (info_spec major data) as (c & h & ind & -> & _). reflexivity. Qed.

(* a 4- or 8-byte claimed count above MaxInt32 is refused (all_bytes: the input is a byte string) *)
Lemma info_count_cap major data c h ind : all_bytes data -> info major data = Val (Some c, h, ind) -> c < 4294967296.
Proof.
  intros Hb. unfold info.
  destruct (Nat.eqb (length data) 0); [discriminate|].
  destruct (idx data 0) as [b0| | |] eqn:E0; cbn [bind]; try discriminate.
  assert (Hai : N.land b0 31 < 32).
  { change 31 with (N.ones 5). rewrite N.land_ones. apply N.mod_lt. discriminate. }
  destruct (negb (N.land b0 224 =? major)); [discriminate|].
  destruct (N.leb_spec (N.land b0 31) 23); [intros [= <- _ _]; lia|].
  assert (B : forall i b, idx data i = Val b -> b < 256).
  { intros i b. unfold idx. destruct (nth_error data i) eqn:En; [|discriminate]. intros [= <-].
    eapply Forall_forall in Hb; [exact Hb|]. eapply nth_error_In; eauto. }
  destruct ((N.land b0 31 =? 24) && Nat.leb 2 (length data)).
  { cbn [rd_idx]. destruct (idx data 1) as [b1| | |] eqn:E1; cbn [bind]; try discriminate.
    intros [= <- _ _]. specialize (B _ _ E1). lia. }
  destruct ((N.land b0 31 =? 25) && Nat.leb 3 (length data)).
  { cbn [rd_idx]. destruct (idx data 1) as [b1| | |] eqn:E1; cbn [bind]; try discriminate.
    destruct (idx data 2) as [b2| | |] eqn:E2; cbn [bind]; try discriminate.
    intros [= <- _ _]. pose proof (B _ _ E1). pose proof (B _ _ E2). lia. }
  destruct ((N.land b0 31 =? 26) && Nat.leb 5 (length data)).
  { destruct (rd_idx data 1 4 0) as [v| | |]; cbn [bind]; try discriminate.
    destruct (N.ltb_spec max_int32 v); [discriminate|]. intros [= <- _ _]. unfold max_int32 in *. lia. }
  destruct ((N.land b0 31 =? 27) && Nat.leb 9 (length data)).
  { destruct (rd_idx data 1 8 0) as [v| | |]; cbn [bind]; try discriminate.
    destruct (N.ltb_spec max_int32 v); [discriminate|]. intros [= <- _ _]. unfold max_int32 in *. lia. }
  destruct (N.land b0 31 =? 31); [intros [= <- _ _]; lia|discriminate].
Qed.

(* ================================================================== *)
(* DecodeArrayHeader / DecodeMapHeader, cborArrayHeaderSizeFromBytes,
   parseCollectionHeader, parseTagHeader *)
Lemma rd_at data from k acc : (from + k <= length data)%nat -> exists v, rd_idx data from k acc = Val v.
Proof. apply rd_idx_ok. Qed.

Ltac rd_step H :=
  match goal with
  | |- context [rd_idx ?d ?f ?k ?a] =>
      let v := fresh "v" in let E := fresh "E" in
      destruct (rd_at d f k a) as (v & E); [lia|rewrite E; cbn [bind]]
  end.

Lemma decode_header_spec major data abs :
  bad (decode_header major data abs) = false /\
  forall l h, decode_header major data abs = Val (l, h) -> (1 <= h /\ abs + h <= length data)%nat /\ l <= max_int32 \/ (1 <= h /\ abs + h <= length data)%nat.
Proof.
  unfold decode_header.
  destruct (Nat.leb_spec (length data) abs) as [L|L]; [split; [reflexivity|discriminate]|].
  destruct (idx_lt data abs L) as (b0 & ->). cbn [bind].
  destruct (negb (N.land b0 224 =? major)); [split; [reflexivity|discriminate]|].
  set (ai := N.land b0 31).
  assert (FIN : forall (r : N * nat), (1 <= snd r)%nat ->
     bad (let newpos := (abs + snd r)%nat in if Nat.ltb (length data) newpos then Err else _ <- slice_from data newpos ;; Val r) = false /\
     forall l h, (let newpos := (abs + snd r)%nat in if Nat.ltb (length data) newpos then Err else _ <- slice_from data newpos ;; Val r) = Val (l, h) ->
       (1 <= h /\ abs + h <= length data)%nat).
  { intros r Hr. cbv zeta. destruct (Nat.ltb_spec (length data) (abs + snd r)); [split; [reflexivity|discriminate]|].
    rewrite slice_from_ok by lia. cbn [bind]. split; [reflexivity|]. intros l h [= ->]. cbn [snd] in *. lia. }
  assert (G : forall (x : out (N * nat)), (x = Err \/ exists r, x = Val r /\ (1 <= snd r)%nat) ->
     bad (r <- x ;; let newpos := (abs + snd r)%nat in if Nat.ltb (length data) newpos then Err else _ <- slice_from data newpos ;; Val r) = false /\
     forall l h, (r <- x ;; let newpos := (abs + snd r)%nat in if Nat.ltb (length data) newpos then Err else _ <- slice_from data newpos ;; Val r) = Val (l, h) ->
       (1 <= h /\ abs + h <= length data)%nat).
  { intros x [->|(r & -> & Hr)]; cbn [bind]; [split; [reflexivity|discriminate]|]. apply FIN; exact Hr. }
  match goal with |- bad (r <- ?x ;; _) = false /\ _ => destruct (G x) as [G1 G2] end.
  { destruct (ai <? 24); [right; eexists; split; [reflexivity|cbn; lia]|].
    destruct (ai =? 24).
    { destruct (Nat.ltb_spec (length data) (abs + 2)); [left; reflexivity|]. rd_step tt. right. eexists. split; [reflexivity|cbn; lia]. }
    destruct (ai =? 25).
    { destruct (Nat.ltb_spec (length data) (abs + 3)); [left; reflexivity|]. rd_step tt. right. eexists. split; [reflexivity|cbn; lia]. }
    destruct (ai =? 26).
    { destruct (Nat.ltb_spec (length data) (abs + 5)); [left; reflexivity|]. rd_step tt.
      destruct (max_int32 <? v); [left; reflexivity|]. right. eexists. split; [reflexivity|cbn; lia]. }
    destruct (ai =? 27).
    { destruct (Nat.ltb_spec (length data) (abs + 9)); [left; reflexivity|]. rd_step tt.
      destruct (max_int32 <? v); [left; reflexivity|]. right. eexists. split; [reflexivity|cbn; lia]. }
    left; reflexivity. }
  split; [exact G1|]. intros l h E. right. eapply G2; eauto.
Qed.

Lemma header_size_no_bad data off : bad (header_size_from_bytes data off) = false.
Proof.
  unfold header_size_from_bytes. destruct (Nat.leb_spec (length data) off) as [L|L]; [reflexivity|].
  destruct (idx_lt data off L) as (b0 & ->). cbn [bind]. brk; reflexivity.
Qed.

Lemma collection_header_spec data off :
  bad (collection_header data off) = false /\
  forall l h ind, collection_header data off = Val (l, h, ind) -> (1 <= h <= 9)%nat /\ (off < length data)%nat.
Proof.
  unfold collection_header. destruct (Nat.leb_spec (length data) off) as [L|L]; [split; [reflexivity|discriminate]|].
  destruct (idx_lt data off L) as (b0 & ->). cbn [bind].
  destruct (N.land b0 31 <? 24); [split; [reflexivity|intros ? ? ? [= <- <- <-]; lia]|].
  destruct (N.land b0 31 =? 24).
  { destruct (Nat.leb_spec (length data) (off + 1)); [split; [reflexivity|discriminate]|]. rd_step tt.
    split; [reflexivity|intros ? ? ? [= <- <- <-]; lia]. }
  destruct (N.land b0 31 =? 25).
  { destruct (Nat.leb_spec (length data) (off + 2)); [split; [reflexivity|discriminate]|]. rd_step tt.
    split; [reflexivity|intros ? ? ? [= <- <- <-]; lia]. }
  destruct (N.land b0 31 =? 26).
  { destruct (Nat.leb_spec (length data) (off + 4)); [split; [reflexivity|discriminate]|]. rd_step tt.
    destruct (max_int32 <? v); (split; [reflexivity|]); [discriminate|intros ? ? ? [= <- <- <-]; lia]. }
  destruct (N.land b0 31 =? 27).
  { destruct (Nat.leb_spec (length data) (off + 8)); [split; [reflexivity|discriminate]|]. rd_step tt.
    destruct (max_int32 <? v); (split; [reflexivity|]); [discriminate|intros ? ? ? [= <- <- <-]; lia]. }
  destruct (N.land b0 31 =? 31); (split; [reflexivity|]); [intros ? ? ? [= <- <- <-]; lia|discriminate].
Qed.

Lemma tag_header_spec data off :
  bad (tag_header data off) = false /\
  forall t h, tag_header data off = Val (t, h) -> (1 <= h <= 9)%nat /\ (off < length data)%nat.
Proof.
  unfold tag_header. destruct (Nat.leb_spec (length data) off) as [L|L]; [split; [reflexivity|discriminate]|].
  destruct (idx_lt data off L) as (b0 & ->). cbn [bind].
  destruct (negb (N.land b0 224 =? 192)); [split; [reflexivity|discriminate]|].
  destruct (N.land b0 31 <? 24); [split; [reflexivity|intros ? ? [= <- <-]; lia]|].
  destruct (N.land b0 31 =? 24).
  { destruct (Nat.leb_spec (length data) (off + 1)); [split; [reflexivity|discriminate]|]. rd_step tt.
    split; [reflexivity|intros ? ? [= <- <-]; lia]. }
  destruct (N.land b0 31 =? 25).
  { destruct (Nat.leb_spec (length data) (off + 2)); [split; [reflexivity|discriminate]|]. rd_step tt.
    split; [reflexivity|intros ? ? [= <- <-]; lia]. }
  destruct (N.land b0 31 =? 26).
  { destruct (Nat.leb_spec (length data) (off + 4)); [split; [reflexivity|discriminate]|]. rd_step tt.
    split; [reflexivity|intros ? ? [= <- <-]; lia]. }
  destruct (N.land b0 31 =? 27).
  { destruct (Nat.leb_spec (length data) (off + 8)); [split; [reflexivity|discriminate]|]. rd_step tt.
    split; [reflexivity|intros ? ? [= <- <-]; lia]. }
  split; [reflexivity|discriminate].
Qed.

(* ================================================================== *)
(* RawBytes: total for every int64 offset / length (the overflow test is there) *)
Lemma raw_bytes_no_bad data offset len : bad (raw_bytes data offset len) = false.
Proof.
  unfold raw_bytes. destruct ((offset <? 0)%Z || (len <? 0)%Z) eqn:E1; [reflexivity|].
  apply orb_false_iff in E1. destruct E1 as [E1 E2].
  destruct ((wrap64 (offset + len) <? offset)%Z || (Z.of_nat (length data) <? wrap64 (offset + len))%Z) eqn:E3; [reflexivity|].
  apply orb_false_iff in E3. destruct E3 as [E3 E4]. rewrite E1, E3, E4. reflexivity.
Qed.

(* Advance: safe when position + n does not overflow int64 ... *)
Lemma advance_no_bad data pos n : (Z.of_nat pos + n <= max_int64)%Z -> bad (advance data pos n) = false.
Proof.
  intros H. unfold advance. destruct (Z.ltb_spec n 0); [reflexivity|].
  assert (W : wrap64 (Z.of_nat pos + n) = (Z.of_nat pos + n)%Z).
  { unfold wrap64, max_int64 in *. rewrite Z.mod_small; lia. }
  rewrite W. destruct (Z.ltb_spec (Z.of_nat (length data)) (Z.of_nat pos + n)); [reflexivity|].
  destruct (Z.ltb_spec (Z.of_nat pos + n) 0); [lia|]. reflexivity.
Qed.
(* ... and the Go text has no overflow test: a caller-supplied n near MaxInt64 wraps *)
Lemma advance_wraps : advance [0; 0] 1 max_int64 = Panic.
Proof. vm_compute. reflexivity. Qed.

(* ================================================================== *)
(* ListLength / DecodeIdFromList *)
Lemma list_length_no_bad ll data : bad (list_length ll data) = false.
Proof.
  unfold list_length. destruct (Nat.eqb_spec (length data) 0); [reflexivity|].
  destruct (idx_lt data 0) as (b0 & ->); [lia|]. cbn [bind].
  destruct ((128 <=? b0) && (b0 <=? 151)); [reflexivity|]. destruct (ll data); reflexivity.
Qed.

Lemma decode_id_no_bad ll li data : bad (decode_id_from_list ll li data) = false.
Proof.
  unfold decode_id_from_list. destruct (Nat.ltb_spec (length data) 2); [reflexivity|].
  pose proof (list_length_no_bad ll data) as HL.
  destruct (list_length ll data) as [len| | |]; cbn [bind]; try discriminate; try reflexivity.
  destruct (len =? 0); [reflexivity|].
  destruct (idx_lt data 0) as (b0 & ->); [lia|]. cbn [bind].
  destruct ((128 <=? b0) && (b0 <=? 151) && (len <? 23)).
  - destruct (idx_lt data 1) as (b1 & ->); [lia|]. cbn [bind]. destruct (b1 <=? 23); [reflexivity|]. destruct (li data); reflexivity.
  - cbn [bind]. destruct (li data); reflexivity.
Qed.

(* ================================================================== *)
(* address.go: readVarUint / AddressPayloadPointer.decode / populateFromBytes *)
Lemma read_varuint_spec data : forall fuel off acc steps,
  (length data - off < fuel)%nat ->
  bad (read_varuint fuel data off acc steps) = false /\
  forall v o k, read_varuint fuel data off acc steps = Val (v, o, k) ->
    (off < o <= length data)%nat /\ (k = steps + (o - off))%nat.
Proof.
  induction fuel as [|f IH]; intros off acc steps Hf; [lia|].
  cbn [read_varuint]. destruct (Nat.ltb_spec off (length data)) as [L|L]; [|split; [reflexivity|discriminate]].
  destruct (idx_lt data off L) as (b & ->). cbn [bind].
  destruct (N.land b 128 =? 0).
  - split; [reflexivity|]. intros v o k [= <- <- <-]. lia.
  - destruct (IH (S off) ((acc * 128) mod two64 + N.land b 127) (S steps)) as [B R]; [lia|]. split; [exact B|].
    intros v o k E. destruct (R v o k E) as [R1 R2]. lia.
Qed.

Lemma decode_pointer_spec data fuel : (length data < fuel)%nat ->
  bad (decode_pointer fuel data) = false /\
  forall s t c o k, decode_pointer fuel data = Val (s, t, c, o, k) -> (3 <= o <= length data)%nat /\ (k = o)%nat.
Proof.
  intros Hf. unfold decode_pointer.
  destruct (read_varuint_spec data fuel 0 0 0) as [B1 R1]; [lia|].
  destruct (read_varuint fuel data 0 0 0) as [[[s o1] k1]| | |] eqn:E1; cbn [bind]; try discriminate; try (split; [reflexivity|discriminate]).
  destruct (R1 _ _ _ eq_refl) as [H1 K1].
  destruct (read_varuint_spec data fuel o1 0 k1) as [B2 R2]; [lia|].
  destruct (read_varuint fuel data o1 0 k1) as [[[t o2] k2]| | |] eqn:E2; cbn [bind]; try discriminate; try (split; [reflexivity|discriminate]).
  destruct (R2 _ _ _ eq_refl) as [H2 K2].
  destruct (read_varuint_spec data fuel o2 0 k2) as [B3 R3]; [lia|].
  destruct (read_varuint fuel data o2 0 k2) as [[[c o3] k3]| | |] eqn:E3; cbn [bind]; try discriminate; try (split; [reflexivity|discriminate]).
  destruct (R3 _ _ _ eq_refl) as [H3 K3].
  split; [reflexivity|]. intros ? ? ? ? ? [= <- <- <- <- <-]. lia.
Qed.

Lemma take_hash_no_bad p : bad (take_hash p) = false /\ forall h r, take_hash p = Val (h, r) -> (length r + hash_size = length p)%nat.
Proof.
  unfold take_hash. destruct (Nat.ltb_spec (length p) hash_size) as [L|L]; [split; [reflexivity|discriminate]|].
  rewrite slice_ok by lia. cbn [bind]. rewrite Nat.sub_0_r. cbn [skipn].
  rewrite firstn_length_le by lia. rewrite Nat.eqb_refl. cbn [bind]. rewrite slice_from_ok by lia. cbn [bind].
  split; [reflexivity|]. intros h r E. assert (Er : r = skipn hash_size p) by congruence. rewrite Er, skipn_length. lia.
Qed.

Lemma populate_no_bad byron kt data fuel : (length data < fuel)%nat -> bad (populate byron kt fuel data) = false.
Proof.
  intros Hf. unfold populate. destruct (Nat.eqb_spec (length data) 0) as [E0|E0]; [reflexivity|].
  destruct (idx_lt data 0) as (hd & ->); [lia|]. cbn [bind].
  set (ty := N.shiftr (N.land hd 240) 4). set (net := N.land hd 15).
  destruct (ty =? 8); [destruct (byron data); reflexivity|].
  destruct (negb ((net =? 0) || (net =? 1))); [reflexivity|].
  destruct (negb (known_type ty)); [reflexivity|].
  rewrite slice_from_ok by lia. cbn [bind].
  assert (L1 : (length (skipn 1 data) < fuel)%nat) by (rewrite skipn_length; lia).
  set (payload := skipn 1 data) in *.
  assert (ST : forall pay p1, (length p1 < fuel)%nat ->
    bad (r2 <- match stake_kind ty with
           | SK | SS => hr <- take_hash p1 ;; Val (Some (fst hr), None, snd hr)
           | SP => d <- decode_pointer fuel p1 ;;
                   (let '(s, t, c, n, _) := d in rest <- slice_from p1 n ;; Val (None, Some (s, t, c), rest))
           | SN => Val (None, None, p1) end ;;
         (let '(stk, ptr, p2) := r2 in
          match p2 with
          | [] => Val (Some (mkS ty net pay stk ptr []))
          | _ => if negb (net =? 1) || negb (kt p2) then Err else Val (Some (mkS ty net pay stk ptr p2))
          end)) = false).
  { intros pay p1 Lp.
    assert (FIN : forall stk ptr p2, bad (match p2 with
          | [] => Val (Some (mkS ty net pay stk ptr []))
          | _ => if negb (net =? 1) || negb (kt p2) then Err else Val (Some (mkS ty net pay stk ptr p2))
          end) = false).
    { intros stk ptr [|x r]; [reflexivity|]. destruct (negb (net =? 1) || negb (kt (x :: r))); reflexivity. }
    destruct (stake_kind ty).
    - destruct (take_hash_no_bad p1) as [B _]. destruct (take_hash p1) as [[h r]| | |]; cbn [bind]; try discriminate; try reflexivity. apply FIN.
    - destruct (take_hash_no_bad p1) as [B _]. destruct (take_hash p1) as [[h r]| | |]; cbn [bind]; try discriminate; try reflexivity. apply FIN.
    - destruct (decode_pointer_spec p1 fuel Lp) as [B R].
      destruct (decode_pointer fuel p1) as [[[[[s t] c] n] k]| | |]; cbn [bind]; try discriminate; try reflexivity.
      destruct (R _ _ _ _ _ eq_refl) as [Hn _]. rewrite slice_from_ok by lia. cbn [bind]. apply FIN.
    - cbn [bind]. apply FIN. }
  destruct (pay_kind ty).
  - destruct (take_hash_no_bad payload) as [B R]. destruct (take_hash payload) as [[h r]| | |]; cbn [bind]; try discriminate; try reflexivity.
    cbn [fst snd]. apply ST. specialize (R _ _ eq_refl). lia.
  - destruct (take_hash_no_bad payload) as [B R]. destruct (take_hash payload) as [[h r]| | |]; cbn [bind]; try discriminate; try reflexivity.
    cbn [fst snd]. apply ST. specialize (R _ _ eq_refl). lia.
  - cbn [bind]. apply ST. exact L1.
Qed.

(* ================================================================== *)
(* the stream decoder: a successful operation consumed one item of the rest *)
Lemma sd_next_bounds ok data pos i n : sd_next ok data pos = Some (i, n) -> (1 <= n /\ pos + n <= length data)%nat.
Proof.
  unfold sd_next. destruct (parse_full (skipn pos data)) as [j rest| |] eqn:E; try discriminate.
  destruct (ok j); [|discriminate]. intros [= <- <-].
  apply parse_consumes in E. rewrite skipn_length in *. lia.
Qed.

Lemma skipn_skipn_len {A} (l : list A) a : length (skipn a l) = (length l - a)%nat.
Proof. apply skipn_length. Qed.

(* ---- setArrayItemCbor ---- *)
Definition st_of (t : traced) : out unit := snd (fst t).
Definition steps_of (t : traced) : nat := snd t.
Definition cbs_of (t : traced) : list cb := fst (fst t).

Lemma set_items_spec ok kind data hs indef count expected : (hs <= length data)%nat ->
  forall fuel pos i acc steps, (hs + pos <= length data)%nat -> (length data - (hs + pos) < fuel)%nat ->
  let t := set_items ok fuel kind data hs indef count expected pos i acc steps in
  bad (st_of t) = false /\ (steps_of t <= steps + (length data - (hs + pos)) + 1)%nat.
Proof.
  intros Hhs. induction fuel as [|f IH]; intros pos i acc steps Hp Hf; [lia|].
  cbn [set_items]. cbv zeta.
  assert (FIN : bad (st_of (acc, (if Nat.eqb i expected then Val tt else Err), steps)) = false /\
                (steps_of (acc, (if Nat.eqb i expected then Val tt else Err : out unit), steps) <= steps + (length data - (hs + pos)) + 1)%nat).
  { unfold st_of, steps_of. cbn [fst snd]. split; [destruct (Nat.eqb i expected); reflexivity|lia]. }
  destruct (negb (indef || (N.of_nat i <? count))); [exact FIN|].
  assert (BODY : let t := match sd_next ok (skipn hs data) pos with
          | None => (acc, Err, S steps)
          | Some (_, n) =>
              if Nat.leb expected i then (acc, Err, S steps) else
              match slice data (hs + pos) (hs + pos + n) with
              | Val s => set_items ok f kind data hs indef count expected (pos + n) (S i) (acc ++ [(kind, i, s)]) (S steps)
              | _ => (acc, Panic, S steps)
              end
          end in bad (st_of t) = false /\ (steps_of t <= steps + (length data - (hs + pos)) + 1)%nat).
  { cbv zeta. destruct (sd_next ok (skipn hs data) pos) as [[it n]|] eqn:E.
    - apply sd_next_bounds in E. rewrite skipn_length in E.
      destruct (Nat.leb expected i); [unfold st_of, steps_of; cbn; split; [reflexivity|lia]|].
      rewrite slice_ok by lia.
      destruct (IH (pos + n)%nat (S i) (acc ++ [(kind, i, firstn (hs + pos + n - (hs + pos)) (skipn (hs + pos) data))]) (S steps)) as [B S']; [lia|lia|].
      split; [exact B|]. eapply Nat.le_trans; [exact S'|]. lia.
    - unfold st_of, steps_of; cbn; split; [reflexivity|lia]. }
  destruct indef.
  - destruct (Nat.leb_spec (length data) (hs + pos)) as [L|L]; [exact FIN|].
    destruct (idx_lt data (hs + pos) L) as (b & ->). cbn [bind]. destruct (b =? 255); [exact FIN|exact BODY].
  - exact BODY.
Qed.

Lemma set_array_item_spec ok kind data expected acc fuel : (length data < fuel)%nat ->
  let t := set_array_item_cbor ok fuel kind data expected acc in
  bad (st_of t) = false /\ (steps_of t <= length data + 1)%nat.
Proof.
  intros Hf. unfold set_array_item_cbor, array_info.
  destruct (info_spec 128 data) as (c & h & ind & -> & Hh).
  destruct (info_invalid (c, h, ind)) eqn:Ei; [unfold st_of, steps_of; cbn; split; [reflexivity|lia]|].
  specialize (Hh eq_refl).
  destruct (negb ind && negb (match c with Some c0 => c0 | None => 0 end =? N.of_nat expected)); [unfold st_of, steps_of; cbn; split; [reflexivity|lia]|].
  rewrite slice_from_ok by lia.
  destruct (set_items_spec ok kind data h ind (match c with Some c0 => c0 | None => 0 end) expected) with (fuel := fuel) (pos := 0%nat) (i := 0%nat) (acc := acc) (steps := 0%nat) as [B S']; try lia.
  split; [exact B|]. lia.
Qed.

Lemma decode_raw_spec ok data pos : (pos <= length data)%nat ->
  bad (decode_raw ok data pos) = false /\
  forall s p, decode_raw ok data pos = Val (s, p) -> (pos < p <= length data)%nat /\ (length s = p - pos)%nat.
Proof.
  intros Hp. unfold decode_raw. destruct (sd_next ok data pos) as [[it n]|] eqn:E; [|split; [reflexivity|discriminate]].
  apply sd_next_bounds in E. rewrite slice_ok by lia. cbn [bind]. split; [reflexivity|].
  intros s p [= <- <-]. split; [lia|]. rewrite firstn_length, skipn_length. lia.
Qed.

Lemma extract_and_set_spec ok data eb ew meta fuel : (length data < fuel)%nat ->
  let t := extract_and_set ok fuel data eb ew meta in
  bad (st_of t) = false /\ (steps_of t <= length data + 2)%nat.
Proof.
  intros Hf. unfold extract_and_set, array_info.
  destruct (info_spec 128 data) as (c & h & ind & -> & Hh).
  destruct (info_invalid (c, h, ind)) eqn:Ei; [unfold st_of, steps_of; cbn; split; [reflexivity|lia]|].
  specialize (Hh eq_refl).
  destruct (negb ind && ((match c with Some c0 => c0 | None => 0 end) <? 3)); [unfold st_of, steps_of; cbn; split; [reflexivity|lia]|].
  rewrite slice_from_ok by lia. set (body := skipn h data).
  assert (Lb : (length body = length data - h)%nat) by apply skipn_length.
  destruct (sd_next ok body 0) as [[i0 n0]|] eqn:E0; [|unfold st_of, steps_of; cbn; split; [reflexivity|lia]].
  apply sd_next_bounds in E0.
  destruct (decode_raw_spec ok body n0) as [B1 R1]; [lia|].
  destruct (decode_raw ok body n0) as [[bodies p1]| | |]; try discriminate; try (unfold st_of, steps_of; cbn; split; [reflexivity|lia]).
  destruct (R1 _ _ eq_refl) as [P1 L1].
  destruct (decode_raw_spec ok body p1) as [B2 R2]; [lia|].
  destruct (decode_raw ok body p1) as [[wits p2]| | |]; try discriminate; try (unfold st_of, steps_of; cbn; split; [reflexivity|lia]).
  destruct (R2 _ _ eq_refl) as [P2 L2].
  set (metacb := if meta && (ind || (3 <? match c with Some c0 => c0 | None => 0 end)) then
                   match decode_raw ok body p2 with Val (m, _) => [(0, 0%nat, m)] | _ => [] end else []).
  destruct (set_array_item_spec ok 1 bodies eb metacb fuel) as [B3 S3]; [lia|].
  destruct (set_array_item_cbor ok fuel 1 bodies eb metacb) as [[acc st] k1] eqn:E3.
  unfold st_of, steps_of in B3, S3. cbn [fst snd] in B3, S3.
  destruct st as [u| | |]; try discriminate; try (unfold st_of, steps_of; cbn; split; [reflexivity|lia]).
  destruct (set_array_item_spec ok 2 wits ew acc fuel) as [B4 S4]; [lia|].
  destruct (set_array_item_cbor ok fuel 2 wits ew acc) as [[acc2 st2] k2] eqn:E4.
  unfold st_of, steps_of in *. cbn [fst snd] in *. split; [exact B4|]. lia.
Qed.

(* ================================================================== *)
(* the offset walkers (current tree): cborSkipTags, cborArrayHeaderSizeOf,
   the shared loop, extractDatum/Script/Redeemer{Array,Map}/WitnessComponent/
   Output/Metadata offsets, ExtractTransactionOffsets / DecodeWithOffsets *)
Lemma sd_val_bounds {V} (f : item -> option V) data pos v n :
  sd_val f data pos = Some (v, n) -> (1 <= n /\ pos + n <= length data)%nat.
Proof.
  unfold sd_val. destruct (parse_full (skipn pos data)) as [j rest| |] eqn:E; try discriminate.
  destruct (f j); [|discriminate]. intros [= _ <-].
  apply parse_consumes in E. rewrite skipn_length in *. lia.
Qed.

Lemma all_bytes_skipn (l : bytes) n : all_bytes l -> all_bytes (skipn n l).
Proof. unfold all_bytes. intros H. rewrite <- (firstn_skipn n l) in H. apply Forall_app in H. tauto. Qed.
Lemma all_bytes_firstn (l : bytes) n : all_bytes l -> all_bytes (firstn n l).
Proof. unfold all_bytes. intros H. rewrite <- (firstn_skipn n l) in H. apply Forall_app in H. tauto. Qed.

Lemma array_header_size_of_val data len : exists h, array_header_size_of data len = Val h.
Proof.
  unfold array_header_size_of, array_info. destruct (info_spec 128 data) as (c & h & ind & -> & _). cbn [bind].
  destruct (Nat.ltb 0 h); eauto.
Qed.

(* cborSkipTags: ends within len(data) iterations, returns a suffix *)
Lemma tag_size_cases ai : tag_size ai = 0%nat \/ (1 <= tag_size ai)%nat.
Proof. unfold tag_size. brk; lia. Qed.

Lemma skip_tags_spec : forall fuel data skipped steps, (length data < fuel)%nat ->
  exists d ts k, skip_tags fuel data skipped steps = Val (d, ts, k) /\
    (all_bytes data -> all_bytes d) /\ (steps <= k)%nat /\ (k - steps + length d <= length data)%nat.
Proof.
  induction fuel as [|f IH]; intros data skipped steps Hf; [lia|].
  cbn [skip_tags].
  assert (STOP : exists d ts k, Val (data, skipped, steps) = Val (d, ts, k) /\
                   (all_bytes data -> all_bytes d) /\ (steps <= k)%nat /\ (k - steps + length d <= length data)%nat).
  { exists data, skipped, steps. split; [reflexivity|]. split; [auto|lia]. }
  destruct (Nat.ltb_spec 0 (length data)) as [L|L]; [|exact STOP].
  destruct (idx_lt data 0 L) as (b0 & ->). cbn [bind].
  destruct (N.land b0 224 =? 192); [|exact STOP].
  destruct (tag_size_cases (N.land b0 31)) as [Z|P].
  { rewrite Z. cbn [Nat.eqb]. exact STOP. }
  destruct (Nat.eqb_spec (tag_size (N.land b0 31)) 0); [lia|].
  destruct (Nat.ltb_spec (length data) (tag_size (N.land b0 31))) as [S1|S1]; [exact STOP|].
  rewrite slice_from_ok by lia. cbn [bind].
  destruct (IH (skipn (tag_size (N.land b0 31)) data) (u32 (skipped + N.of_nat (tag_size (N.land b0 31)))) (S steps))
    as (d & ts & k & E & Hd & Hk & Hl).
  { rewrite skipn_length. lia. }
  exists d, ts, k. split; [exact E|]. rewrite skipn_length in Hl. split.
  - intros Hb. apply Hd. apply all_bytes_skipn. exact Hb.
  - lia.
Qed.

Definition isval {A} (r : out A) : bool := match r with Val _ => true | _ => false end.
Lemma isval_bad {A} (r : out A) : isval r = true -> bad r = false.
Proof. destruct r; cbn; congruence. Qed.

(* ---- the shared loop ---- *)
(* what one BODY at decoder position pos must guarantee (L' = length of the decoder's data,
   c = cost factor of nested loops, AB = the assumption under which costs are bounded) *)
Definition good_step {E} (AB : Prop) (L' c pos : nat) (r : out (sres E)) : Prop :=
  isval r = true /\
  forall x, r = Val x ->
    match x with
    | SNext _ pos' t => (pos < pos' <= L')%nat /\ (AB -> (t <= c * (pos' - pos))%nat)
    | SStop _ t | SAbort t => AB -> (t <= c * (L' - pos))%nat
    end.

Section wloop_spec.
  Variable E : Type.
  Variable step : nat -> out (sres E).
  Variable AB : Prop.
  Variable data : bytes.
  Variable hs c : nat.
  Let L' := (length data - hs)%nat.
  Hypothesis Hhs : (hs <= length data)%nat.
  Hypothesis step_good : forall pos, (pos <= L')%nat -> good_step AB L' c pos (step pos).

  Lemma wloop_spec : forall fuel indef count pos i acc ticks, (pos <= L')%nat -> (L' - pos < fuel)%nat ->
    isval (wloop step fuel data hs indef count pos i acc ticks) = true /\
    (AB -> forall acc' t', wloop step fuel data hs indef count pos i acc ticks = Val (acc', t') ->
       (t' <= ticks + (c + 1) * (L' - pos) + 1)%nat).
  Proof.
    induction fuel as [|f IH]; intros indef count pos i acc ticks Hp Hf; [lia|].
    cbn [wloop].
    assert (FIN : isval (Val (acc, ticks) : out (list E * nat)) = true /\
                  (AB -> forall acc' t', Val (acc, ticks) = Val (acc', t') -> (t' <= ticks + (c + 1) * (L' - pos) + 1)%nat)).
    { split; [reflexivity|]. intros _ acc' t' [= _ <-]. nia. }
    destruct (negb (indef || (N.of_nat i <? count))); [exact FIN|].
    assert (BODY : isval (r <- step pos ;;
                        match r with
                        | SNext es pos' t => wloop step f data hs indef count pos' (S i) (acc ++ es) (S (ticks + t))
                        | SStop es t => Val (acc ++ es, S (ticks + t))
                        | SAbort t => Val (acc, S (ticks + t))
                        end) = true /\
                   (AB -> forall acc' t', (r <- step pos ;;
                        match r with
                        | SNext es pos' t => wloop step f data hs indef count pos' (S i) (acc ++ es) (S (ticks + t))
                        | SStop es t => Val (acc ++ es, S (ticks + t))
                        | SAbort t => Val (acc, S (ticks + t))
                        end) = Val (acc', t') -> (t' <= ticks + (c + 1) * (L' - pos) + 1)%nat)).
    { destruct (step_good pos Hp) as [B G].
      destruct (step pos) as [r| | |]; cbn [bind]; try discriminate; try (split; [reflexivity|intros; discriminate]).
      specialize (G r eq_refl). destruct r as [es pos' t|es t|t].
      - destruct G as [Hpp Ht]. destruct (IH indef count pos' (S i) (acc ++ es) (S (ticks + t))) as [B2 T2]; [lia|lia|].
        split; [exact B2|]. intros Hab acc' t' Ew. specialize (T2 Hab acc' t' Ew). specialize (Ht Hab).
        assert (EQ : (L' - pos = (pos' - pos) + (L' - pos'))%nat) by lia. rewrite EQ. nia.
      - split; [reflexivity|]. intros Hab acc' t' [= _ <-]. specialize (G Hab). nia.
      - split; [reflexivity|]. intros Hab acc' t' [= _ <-]. specialize (G Hab). nia. }
    destruct indef.
    - destruct (Nat.leb_spec (length data) (hs + pos)) as [Lq|Lq]; cbn [bind]; [exact FIN|].
      destruct (idx_lt data (hs + pos) Lq) as (b & ->). cbn [bind]. destruct (b =? 255); [exact FIN|exact BODY].
    - cbn [bind]. exact BODY.
  Qed.
End wloop_spec.

Lemma wrun_spec {E} (AB : Prop) major fuel data (step : nat -> nat -> out (sres E)) c : (length data < fuel)%nat ->
  (forall hs pos, (1 <= hs <= length data)%nat -> (pos <= length data - hs)%nat ->
     good_step AB (length data - hs) c pos (step hs pos)) ->
  isval (wrun major fuel data step) = true /\
  (AB -> forall es t, wrun major fuel data step = Val (es, t) -> (t <= (c + 1) * length data)%nat).
Proof.
  intros Hf Hg. unfold wrun. destruct (info_spec major data) as (cnt & h & ind & -> & Hh). cbn [bind].
  destruct (info_invalid (cnt, h, ind)) eqn:Ei.
  { split; [reflexivity|]. intros _ es t [= _ <-]. lia. }
  specialize (Hh eq_refl). rewrite slice_from_ok by lia. cbn [bind].
  destruct (wloop_spec E (step h) AB data h c) with (fuel := fuel) (indef := ind) (count := count_of cnt)
    (pos := 0%nat) (i := 0%nat) (acc := @nil E) (ticks := 0%nat) as [B T]; try lia.
  { intros pos Hp. apply Hg; lia. }
  split; [exact B|]. intros Hab es t Ew. specialize (T Hab es t Ew). nia.
Qed.

(* ---- facts taken from the Lib parser about decoded lists ---- *)
Lemma wf_arr_forall f xs : wf (Arr f xs) -> Forall wf xs.
Proof.
  cbn [wf]. intros [_ H]. induction xs as [|x r IH]; [constructor|]. destruct H as [Hx Hr]. constructor; auto.
Qed.

Lemma sum_ge_count (xs : list item) : (length xs <= list_sum (map (fun x => length (enc x)) xs))%nat.
Proof. induction xs as [|x r IH]; cbn [length map list_sum fold_right]; [lia|]. pose proof (CborFuel.enc_len_pos x). unfold list_sum in IH. lia. Qed.

Lemma items_of_sound : forall i xs, wf i -> items_of i = Some xs ->
  Forall wf xs /\ (list_sum (map (fun x => length (enc x)) xs) <= length (enc i))%nat.
Proof.
  unfold items_of.
  induction i as [f n|f n|f bs|cs|f bs|cs|f xs'|f kvs|f t x IH|f v|f v]; intros xs Hw; cbn [strip_tags]; try discriminate.
  - intros [= <-]. split; [eapply wf_arr_forall; eauto|]. rewrite CborSpan.enc_length_arr, CborSpan.flat_map_length_sum. lia.
  - intros H. destruct Hw as [_ Hx]. destruct (IH xs Hx H) as [A B]. split; [exact A|].
    cbn [enc]. rewrite app_length. lia.
  - destruct (is_nil v); [|discriminate]. intros [= <-]. split; [constructor|cbn; lia].
Qed.

Lemma sd_items_sound data pos xs n : all_bytes data -> sd_items data pos = Some (xs, n) ->
  Forall wf xs /\ (list_sum (map (fun x => length (enc x)) xs) <= n)%nat /\ (pos + n <= length data)%nat.
Proof.
  intros Hb E. pose proof (sd_val_bounds _ _ _ _ _ E) as [_ Hn]. unfold sd_items, sd_val in E.
  destruct (parse_full (skipn pos data)) as [i rest| |] eqn:P; try discriminate.
  destruct (items_of i) as [ys|] eqn:I; [|discriminate]. injection E as <- <-.
  apply parse_full_sound in P; [|apply all_bytes_skipn; exact Hb]. destruct P as [Eq Hw].
  destruct (items_of_sound i ys Hw I) as [A B]. split; [exact A|]. split; [|exact Hn].
  rewrite Eq, app_length. lia.
Qed.

(* cbor.Decode(bs, &[]RawMessage): the elements are byte strings no longer than bs, as are all of them together *)
Definition sum_len (l : list bytes) : nat := list_sum (map (@length N) l).
Lemma raw_list_sound bs l : all_bytes bs -> raw_list bs = Some l ->
  Forall all_bytes l /\ (sum_len l <= length bs)%nat /\ (length l <= sum_len l)%nat.
Proof.
  intros Hb. unfold raw_list. destruct (sd_items bs 0) as [[xs n]|] eqn:E; [|discriminate]. intros [= <-].
  destruct (sd_items_sound bs 0 xs n Hb E) as (W & S & Hn). unfold sum_len. rewrite map_map. split; [|split].
  - apply Forall_forall. intros b Hin. apply in_map_iff in Hin. destruct Hin as (x & <- & Hx).
    apply enc_bytes. eapply Forall_forall in W; eauto.
  - cbn in Hn. lia.
  - rewrite map_length. apply sum_ge_count.
Qed.

Lemma sum_len_in (l : list bytes) b : In b l -> (length b <= sum_len l)%nat.
Proof.
  unfold sum_len, list_sum. induction l as [|x r IH]; [intros []|]. cbn [map fold_right]. intros [->|H]; [lia|]. specialize (IH H). lia.
Qed.

(* ---- the loop bodies ---- *)
Ltac step_trivial := split; [reflexivity|]; intros ? [= <-]; try (split; [lia|]); intros; nia.

Lemma datum_step_good AB data base hs pos : (hs <= length data)%nat -> (pos <= length data - hs)%nat ->
  good_step AB (length data - hs) 0 pos (datum_step data base hs pos).
Proof.
  intros Hhs Hp. unfold datum_step, good_step.
  destruct (sd_skip (skipn hs data) pos) as [[u n]|] eqn:E; [|step_trivial].
  apply sd_val_bounds in E. rewrite skipn_length in E. rewrite slice_ok by (rewrite ?skipn_length; lia). cbn [bind].
  step_trivial.
Qed.

Lemma datum_offsets_spec fuel data base : (length data < fuel)%nat ->
  isval (datum_offsets fuel data base) = true /\
  forall es t, datum_offsets fuel data base = Val (es, t) -> (t <= length data)%nat.
Proof.
  intros Hf. unfold datum_offsets. destruct (Nat.ltb (length data) 1); [split; [reflexivity|intros es t [= _ <-]; lia]|].
  destruct (skip_tags_spec fuel data 0 0 Hf) as (d & ts & k & -> & _ & _ & Hl). cbn [bind].
  destruct (wrun_spec True 128 fuel d (datum_step d (u32 (base + ts))) 0) as [B T]; [lia| |].
  { intros hs pos Hh Hp. apply datum_step_good; lia. }
  destruct (wrun 128 fuel d (datum_step d (u32 (base + ts)))) as [[es t]| | |]; try discriminate; cbn [bind fst snd].
  - split; [reflexivity|]. intros es' t' [= _ <-]. specialize (T I es t eq_refl). lia.
Qed.

Lemma redeemer_arr_step_good AB data base hs pos : (hs <= length data)%nat -> (pos <= length data - hs)%nat ->
  good_step AB (length data - hs) 0 pos (redeemer_arr_step data base hs pos).
Proof.
  intros Hhs Hp. unfold redeemer_arr_step, good_step.
  destruct (sd_skip (skipn hs data) pos) as [[u n]|] eqn:E; [|step_trivial].
  apply sd_val_bounds in E. rewrite skipn_length in E. rewrite slice_ok by (rewrite ?skipn_length; lia). cbn [bind].
  set (elem := firstn (pos + n - pos) (skipn pos (skipn hs data))).
  unfold array_info. destruct (info_spec 128 elem) as (c & ih & ind & -> & _). cbn [bind].
  destruct (Nat.leb_spec (length elem) ih); [step_trivial|].
  rewrite slice_from_ok by lia. cbn [bind].
  destruct (sd_uint (skipn ih elem) 0) as [[purpose l1]|]; [|step_trivial].
  destruct (sd_uint (skipn ih elem) l1) as [[index l2]|]; [|step_trivial].
  destruct (sd_skip (skipn ih elem) (l1 + l2)) as [[u2 dl]|]; step_trivial.
Qed.

Lemma redeemer_map_step_good AB data base hs pos : (hs <= length data)%nat -> (pos <= length data - hs)%nat ->
  good_step AB (length data - hs) 0 pos (redeemer_map_step data base hs pos).
Proof.
  intros Hhs Hp. unfold redeemer_map_step, good_step.
  destruct (sd_uints (skipn hs data) pos) as [[kp kl]|] eqn:E; [|step_trivial].
  apply sd_val_bounds in E. rewrite skipn_length in E.
  destruct kp as [|purpose [|index kr]]; try step_trivial.
  destruct (sd_skip (skipn hs data) (pos + kl)) as [[u vl]|] eqn:E2; [|step_trivial].
  apply sd_val_bounds in E2. rewrite skipn_length in E2. rewrite slice_ok by (rewrite ?skipn_length; lia). cbn [bind].
  set (value := firstn (pos + kl + vl - (pos + kl)) (skipn (pos + kl) (skipn hs data))).
  unfold array_info. destruct (info_spec 128 value) as (c & vh & ind & -> & _). cbn [bind].
  destruct (Nat.leb_spec (length value) vh); [step_trivial|].
  rewrite slice_from_ok by lia. cbn [bind].
  destruct (sd_skip (skipn vh value) 0) as [[u2 dl]|]; step_trivial.
Qed.

Lemma redeemer_offsets_spec fuel data base : (length data < fuel)%nat ->
  isval (redeemer_offsets fuel data base) = true /\
  forall es t, redeemer_offsets fuel data base = Val (es, t) -> (t <= length data)%nat.
Proof.
  intros Hf. unfold redeemer_offsets.
  destruct (Nat.ltb_spec (length data) 1); [split; [reflexivity|intros es t [= _ <-]; lia]|].
  destruct (idx_lt data 0) as (b0 & ->); [lia|]. cbn [bind].
  destruct (N.land b0 224 =? 128).
  { destruct (wrun_spec True 128 fuel data (redeemer_arr_step data base) 0 Hf) as [B T].
    { intros hs pos Hh Hp. apply redeemer_arr_step_good; lia. }
    split; [exact B|]. intros es t E. specialize (T I es t E). lia. }
  destruct (N.land b0 224 =? 160).
  { destruct (wrun_spec True 160 fuel data (redeemer_map_step data base) 0 Hf) as [B T].
    { intros hs pos Hh Hp. apply redeemer_map_step_good; lia. }
    split; [exact B|]. intros es t E. specialize (T I es t E). lia. }
  split; [reflexivity|intros es t [= _ <-]; lia].
Qed.

Lemma script_offsets_spec fuel ty data base : (length data < fuel)%nat ->
  isval (script_offsets fuel ty data base) = true /\
  (all_bytes data -> forall es t, script_offsets fuel ty data base = Val (es, t) -> (t <= 2 * length data)%nat).
Proof.
  intros Hf. unfold script_offsets.
  destruct (Nat.ltb (length data) 1); [split; [reflexivity|intros _ es t [= _ <-]; lia]|].
  destruct (raw_list data) as [scripts|] eqn:R; [|split; [reflexivity|intros _ es t [= _ <-]; lia]].
  destruct (skip_tags_spec fuel data 0 0 Hf) as (d & ts & k & -> & _ & _ & Hl). cbn [bind].
  assert (F : exists b, (if Nat.ltb 0 (length d) then b <- idx d 0 ;; Val (b =? 159) else Val false) = Val b).
  { destruct (Nat.ltb_spec 0 (length d)) as [Ld|Ld]; [|eauto]. destruct (idx_lt d 0 Ld) as (b & ->). cbn [bind]. eauto. }
  destruct F as (is9f & ->). cbn [bind].
  assert (G : exists h, (if is9f then Val 1 else r <- array_info d ;; Val (N.of_nat (snd (fst r)))) = Val h).
  { destruct is9f; [eauto|]. unfold array_info. destruct (info_spec 128 d) as (c & h & ind & -> & _). cbn [bind]. eauto. }
  destruct G as (h & ->). cbn [bind]. split; [reflexivity|].
  intros Hb es t [= _ <-]. destruct (raw_list_sound data scripts Hb R) as (_ & S1 & S2). lia.
Qed.

(* the three component walkers a witness-set value can go to *)
Definition inner_ok (f : nat -> bytes -> N -> out (list comp * nat)) (c : nat) : Prop :=
  forall fuel data base, (length data < fuel)%nat ->
    isval (f fuel data base) = true /\
    (all_bytes data -> forall es t, f fuel data base = Val (es, t) -> (t <= c * length data)%nat).

Lemma witness_step_good fuel data base hs pos : (length data < fuel)%nat -> (hs <= length data)%nat -> (pos <= length data - hs)%nat ->
  good_step (all_bytes data) (length data - hs) 2 pos (witness_step fuel data base hs pos).
Proof.
  intros Hf Hhs Hp. unfold witness_step, good_step.
  destruct (sd_uint (skipn hs data) pos) as [[key kl]|] eqn:E; [|step_trivial].
  apply sd_val_bounds in E. rewrite skipn_length in E.
  destruct (sd_skip (skipn hs data) (pos + kl)) as [[u vl]|] eqn:E2; [|step_trivial].
  apply sd_val_bounds in E2. rewrite skipn_length in E2. rewrite slice_ok by (rewrite ?skipn_length; lia). cbn [bind].
  set (value := firstn (pos + kl + vl - (pos + kl)) (skipn (pos + kl) (skipn hs data))).
  assert (Lv : (length value = vl)%nat).
  { unfold value. rewrite firstn_length, !skipn_length. lia. }
  assert (Bv : all_bytes data -> all_bytes value).
  { intros Hb. unfold value. apply all_bytes_firstn, all_bytes_skipn, all_bytes_skipn. exact Hb. }
  set (abs := u32 (base + N.of_nat hs + N.of_nat (pos + kl))).
  assert (INNER : forall f c, inner_ok f c -> (c <= 2)%nat ->
            isval (r <- f fuel value abs ;; Val (SNext (fst r) (pos + kl + vl) (snd r))) = true /\
            forall x, (r <- f fuel value abs ;; Val (SNext (fst r) (pos + kl + vl) (snd r))) = Val x ->
              match x with
              | SNext _ pos' t => (pos < pos' <= length data - hs)%nat /\ (all_bytes data -> (t <= 2 * (pos' - pos))%nat)
              | SStop _ t | SAbort t => all_bytes data -> (t <= 2 * (length data - hs - pos))%nat
              end).
  { intros f c Hi Hc. destruct (Hi fuel value abs) as [B T]; [lia|].
    destruct (f fuel value abs) as [[es t]| | |]; try discriminate; cbn [bind fst snd].
    split; [reflexivity|]. intros x [= <-]. split; [lia|]. intros Hb. specialize (T (Bv Hb) es t eq_refl). nia. }
  assert (ID : inner_ok datum_offsets 1%nat).
  { intros fu d b Hfu. destruct (datum_offsets_spec fu d b Hfu) as [B T]. split; [exact B|]. intros _ es t E3. specialize (T es t E3). lia. }
  assert (IR : inner_ok redeemer_offsets 1%nat).
  { intros fu d b Hfu. destruct (redeemer_offsets_spec fu d b Hfu) as [B T]. split; [exact B|]. intros _ es t E3. specialize (T es t E3). lia. }
  assert (IS : forall ty, inner_ok (fun fu => script_offsets fu ty) 2%nat).
  { intros ty fu d b Hfu. apply script_offsets_spec. exact Hfu. }
  destruct (key =? 4); [apply (INNER datum_offsets 1%nat ID); lia|].
  destruct (key =? 5); [apply (INNER redeemer_offsets 1%nat IR); lia|].
  destruct (key =? 1); [apply (INNER (fun fu => script_offsets fu 0) 2%nat (IS 0)); lia|].
  destruct (key =? 3); [apply (INNER (fun fu => script_offsets fu 1) 2%nat (IS 1)); lia|].
  destruct (key =? 6); [apply (INNER (fun fu => script_offsets fu 2) 2%nat (IS 2)); lia|].
  destruct (key =? 7); [apply (INNER (fun fu => script_offsets fu 3) 2%nat (IS 3)); lia|].
  destruct (key =? 8); [apply (INNER (fun fu => script_offsets fu 4) 2%nat (IS 4)); lia|].
  cbn [bind fst snd]. split; [reflexivity|]. intros x [= <-]. split; [lia|intros; lia].
Qed.

Lemma witness_components_spec fuel data base : (length data < fuel)%nat ->
  isval (witness_components fuel data base) = true /\
  (all_bytes data -> forall es t, witness_components fuel data base = Val (es, t) -> (t <= 3 * length data)%nat).
Proof.
  intros Hf. unfold witness_components.
  destruct (Nat.ltb (length data) 2); [split; [reflexivity|intros _ es t [= _ <-]; lia]|].
  apply (wrun_spec (all_bytes data) 160 fuel data (witness_step fuel data base) 2 Hf).
  intros hs pos Hh Hp. apply witness_step_good; lia.
Qed.

(* ---- outputs ---- *)
Lemma adjust_output_no_bad body bo op : bad (adjust_output_offset body bo op) = false.
Proof.
  unfold adjust_output_offset. set (bi := N.to_nat ((op + two32 - bo mod two32) mod two32)).
  destruct (Nat.ltb_spec bi (length body)) as [L|L]; [|reflexivity].
  destruct (idx_lt body bi L) as (b & ->). cbn [bind].
  destruct (negb (is_out_start b) && Nat.ltb 0 bi) eqn:E; [|reflexivity].
  apply andb_true_iff in E. destruct E as [_ E]. apply Nat.ltb_lt in E.
  destruct (idx_lt body (bi - 1)) as (p & ->); [lia|]. reflexivity.
Qed.

Lemma walk_outputs_val heur body bo : forall outs pos, exists rs, walk_outputs heur body bo pos outs = Val rs.
Proof.
  induction outs as [|o r IH]; intros pos; cbn [walk_outputs]; [eauto|].
  assert (P : exists p, (if heur then adjust_output_offset body bo pos else Val pos) = Val p).
  { destruct heur; [|eauto].
    unfold adjust_output_offset. set (bi := N.to_nat ((pos + two32 - bo mod two32) mod two32)).
    destruct (Nat.ltb_spec bi (length body)) as [L|L]; [|eauto].
    destruct (idx_lt body bi L) as (b & ->). cbn [bind].
    destruct (negb (is_out_start b) && Nat.ltb 0 bi) eqn:E; [|eauto].
    apply andb_true_iff in E. destruct E as [_ E]. apply Nat.ltb_lt in E.
    destruct (idx_lt body (bi - 1)) as (p & ->); [lia|]. cbn [bind]. eauto. }
  destruct P as (p & ->). cbn [bind]. destruct (IH (u32 (pos + u32 (nlen o)))) as (rs & ->). cbn [bind]. eauto.
Qed.

Lemma outputs_step_good heur body bo hs pos : (hs <= length body)%nat -> (pos <= length body - hs)%nat ->
  good_step (all_bytes body) (length body - hs) 1 pos (outputs_step heur body bo hs pos).
Proof.
  intros Hhs Hp. unfold outputs_step, good_step.
  destruct (sd_uint (skipn hs body) pos) as [[key kl]|] eqn:E; [|step_trivial].
  apply sd_val_bounds in E. rewrite skipn_length in E.
  destruct (key =? 1).
  - destruct (sd_items (skipn hs body) (pos + kl)) as [[outs n]|] eqn:E2; [|step_trivial].
    pose proof (sd_val_bounds _ _ _ _ _ E2) as B2. rewrite skipn_length in B2.
    rewrite slice_from_ok by lia. cbn [bind].
    destruct (array_header_size_of_val (skipn (hs + (pos + kl)) body) (length (map enc outs))) as (h & ->). cbn [bind].
    destruct (walk_outputs_val heur body bo (map enc outs) (u32 (u32 (bo + N.of_nat hs + N.of_nat (pos + kl)) + h))) as (rs & ->).
    cbn [bind]. split; [reflexivity|]. intros x [= <-]. intros Hb.
    destruct (sd_items_sound (skipn hs body) (pos + kl) outs n (all_bytes_skipn _ _ Hb) E2) as (_ & S & _).
    pose proof (sum_ge_count outs). rewrite map_length. lia.
  - destruct (sd_skip (skipn hs body) (pos + kl)) as [[u vl]|] eqn:E2; [|step_trivial].
    apply sd_val_bounds in E2. rewrite skipn_length in E2. step_trivial.
Qed.

Lemma output_offsets_spec heur fuel body bo : (length body < fuel)%nat ->
  isval (output_offsets heur fuel body bo) = true /\
  (all_bytes body -> forall es t, output_offsets heur fuel body bo = Val (es, t) -> (t <= 2 * length body)%nat).
Proof.
  intros Hf. unfold output_offsets.
  destruct (Nat.ltb (length body) 2); [split; [reflexivity|intros _ es t [= _ <-]; lia]|].
  apply (wrun_spec (all_bytes body) 160 fuel body (outputs_step heur body bo) 1 Hf).
  intros hs pos Hh Hp. apply outputs_step_good; lia.
Qed.

(* ---- metadata ---- *)
Lemma metadata_step_good AB data base hs pos : (hs <= length data)%nat -> (pos <= length data - hs)%nat ->
  good_step AB (length data - hs) 0 pos (metadata_step data base hs pos).
Proof.
  intros Hhs Hp. unfold metadata_step, good_step.
  destruct (sd_uint (skipn hs data) pos) as [[key kl]|] eqn:E; [|step_trivial].
  apply sd_val_bounds in E. rewrite skipn_length in E.
  destruct (sd_skip (skipn hs data) (pos + kl)) as [[u vl]|] eqn:E2; [|step_trivial].
  apply sd_val_bounds in E2. rewrite skipn_length in E2. step_trivial.
Qed.

Lemma metadata_offsets_spec fuel data base : (length data < fuel)%nat ->
  isval (metadata_offsets fuel data base) = true /\
  forall es t, metadata_offsets fuel data base = Val (es, t) -> (t <= length data)%nat.
Proof.
  intros Hf. unfold metadata_offsets.
  destruct (Nat.eqb (length data) 0); [split; [reflexivity|intros es t [= _ <-]; lia]|].
  destruct (wrun_spec True 160 fuel data (metadata_step data base) 0 Hf) as [B T].
  { intros hs pos Hh Hp. apply metadata_step_good; lia. }
  split; [exact B|]. intros es t E. specialize (T I es t E). lia.
Qed.

(* ---- the loops over the decoded bodies / witness sets ---- *)
Lemma walk_bodies_spec heur fuel : forall bodies pos, Forall all_bytes bodies -> (sum_len bodies < fuel)%nat ->
  isval (walk_bodies heur fuel pos bodies) = true /\
  forall l t, walk_bodies heur fuel pos bodies = Val (l, t) -> (t <= length bodies + 2 * sum_len bodies)%nat.
Proof.
  induction bodies as [|b r IH]; intros pos Hb Hf; cbn [walk_bodies].
  { split; [reflexivity|]. intros l t [= _ <-]. cbn. lia. }
  inversion Hb as [|? ? Hb1 Hb2]; subst.
  assert (Es : (sum_len (b :: r) = length b + sum_len r)%nat) by reflexivity.
  destruct (output_offsets_spec heur fuel b pos) as [B T]; [lia|].
  destruct (output_offsets heur fuel b pos) as [[o t1]| | |]; try discriminate; cbn [bind].
  specialize (T Hb1 o t1 eq_refl).
  destruct (IH (u32 (pos + u32 (nlen b))) Hb2) as [B2 T2]; [lia|].
  destruct (walk_bodies heur fuel (u32 (pos + u32 (nlen b))) r) as [[l2 t2]| | |]; try discriminate; cbn [bind fst snd].
  specialize (T2 l2 t2 eq_refl). split; [reflexivity|]. intros l t [= _ <-]. cbn [length]. lia.
Qed.

Lemma walk_witnesses_spec fuel : forall wits pos, Forall all_bytes wits -> (sum_len wits < fuel)%nat ->
  isval (walk_witnesses fuel pos wits) = true /\
  forall l t, walk_witnesses fuel pos wits = Val (l, t) -> (t <= length wits + 3 * sum_len wits)%nat.
Proof.
  induction wits as [|w r IH]; intros pos Hb Hf; cbn [walk_witnesses].
  { split; [reflexivity|]. intros l t [= _ <-]. cbn. lia. }
  inversion Hb as [|? ? Hb1 Hb2]; subst.
  assert (Es : (sum_len (w :: r) = length w + sum_len r)%nat) by reflexivity.
  destruct (witness_components_spec fuel w pos) as [B T]; [lia|].
  destruct (witness_components fuel w pos) as [[c t1]| | |]; try discriminate; cbn [bind].
  specialize (T Hb1 c t1 eq_refl).
  destruct (IH (u32 (pos + u32 (nlen w))) Hb2) as [B2 T2]; [lia|].
  destruct (walk_witnesses fuel (u32 (pos + u32 (nlen w))) r) as [[l2 t2]| | |]; try discriminate; cbn [bind fst snd].
  specialize (T2 l2 t2 eq_refl). split; [reflexivity|]. intros l t [= _ <-]. cbn [length]. lia.
Qed.

(* ---- Byron main blocks ---- *)
Lemma raw_list_elem bs l b : all_bytes bs -> raw_list bs = Some l -> In b l -> all_bytes b /\ (length b <= length bs)%nat.
Proof.
  intros Hb R Hin. destruct (raw_list_sound bs l Hb R) as (F & S1 & _). split.
  - eapply Forall_forall in F; eauto.
  - pose proof (sum_len_in l b Hin). lia.
Qed.

Lemma byron_output_offsets_spec body bo : all_bytes body ->
  isval (byron_output_offsets body bo) = true /\
  forall es t, byron_output_offsets body bo = Val (es, t) -> (t <= length body)%nat.
Proof.
  intros Hb. unfold byron_output_offsets.
  destruct (Nat.ltb (length body) 2); [split; [reflexivity|intros es t [= _ <-]; lia]|].
  destruct (raw_list body) as [parts|] eqn:R; [|split; [reflexivity|intros es t [= _ <-]; lia]].
  destruct (Nat.ltb_spec (length parts) 2) as [L2|L2]; [split; [reflexivity|intros es t [= _ <-]; lia]|].
  destruct parts as [|p0 [|p1 pr]]; cbn [length] in L2; try lia.
  destruct (raw_list_elem body (p0 :: p1 :: pr) p1 Hb R) as [B1 L1]; [right; left; reflexivity|].
  destruct (raw_list p1) as [outs|] eqn:R1; [|split; [reflexivity|intros es t [= _ <-]; lia]].
  destruct (Nat.eqb (length outs) 0); [split; [reflexivity|intros es t [= _ <-]; lia]|].
  destruct (array_header_size_of_val body (length (p0 :: p1 :: pr))) as (bh & ->). cbn [bind].
  destruct (array_header_size_of_val p1 (length outs)) as (oh & ->). cbn [bind].
  split; [reflexivity|]. intros es t [= _ <-].
  destruct (raw_list_sound p1 outs B1 R1) as (_ & S1 & S2). lia.
Qed.

Lemma byron_pairs_spec : forall pairs pos, Forall all_bytes pairs ->
  bad (byron_pairs pairs pos) = false /\
  forall l t, byron_pairs pairs pos = Val (l, t) -> (t <= length pairs + sum_len pairs)%nat.
Proof.
  induction pairs as [|raw r IH]; intros pos Hb; cbn [byron_pairs].
  { split; [reflexivity|]. intros l t [= _ <-]. cbn. lia. }
  inversion Hb as [|? ? Hb1 Hb2]; subst.
  assert (Es : (sum_len (raw :: r) = length raw + sum_len r)%nat) by reflexivity.
  destruct (raw_list raw) as [tx_pair|] eqn:R; [|split; [reflexivity|discriminate]].
  destruct (Nat.ltb_spec (length tx_pair) 2) as [L2|L2]; [split; [reflexivity|discriminate]|].
  destruct tx_pair as [|b [|w pr]]; cbn [length] in L2; try lia.
  destruct (raw_list_elem raw (b :: w :: pr) b Hb1 R) as [Bb Lb]; [left; reflexivity|].
  destruct (array_header_size_of_val raw (length (b :: w :: pr))) as (ph & ->). cbn [bind].
  destruct (byron_output_offsets_spec b (u32 (pos + ph)) Bb) as [B T].
  destruct (byron_output_offsets b (u32 (pos + ph))) as [[o t1]| | |]; try discriminate. cbn [bind].
  specialize (T o t1 eq_refl).
  destruct (IH (u32 (pos + u32 (nlen raw))) Hb2) as [B2 T2].
  destruct (byron_pairs r (u32 (pos + u32 (nlen raw)))) as [[l2 t2]| | |]; try discriminate; cbn [bind fst snd];
    [|split; [reflexivity|discriminate]].
  specialize (T2 l2 t2 eq_refl). split; [reflexivity|]. intros l t [= _ <-]. cbn [length]. lia.
Qed.

Lemma byron_offsets_spec data blk : all_bytes data -> raw_list data = Some blk -> (3 <= length blk)%nat ->
  bad (byron_offsets data blk) = false /\
  forall txs t, byron_offsets data blk = Val (XDone txs t) -> (t <= 2 * length data)%nat.
Proof.
  intros Hb R L3. unfold byron_offsets.
  destruct blk as [|b0 [|b1 br]]; cbn [length] in L3; try lia.
  destruct (raw_list_elem data (b0 :: b1 :: br) b1 Hb R) as [B1 L1]; [right; left; reflexivity|].
  destruct (array_header_size_of_val data (length (b0 :: b1 :: br))) as (ahs & ->). cbn [bind].
  destruct (raw_list b1) as [parts|] eqn:R1; [|split; [reflexivity|discriminate]].
  destruct (Nat.eqb_spec (length parts) 4) as [L4|L4]; cbn [negb]; [|split; [reflexivity|discriminate]].
  destruct parts as [|p0 pr]; cbn [length] in L4; try lia.
  destruct (raw_list_elem b1 (p0 :: pr) p0 B1 R1) as [B0 L0]; [left; reflexivity|].
  destruct (raw_list p0) as [payload|] eqn:R0; [|split; [reflexivity|discriminate]].
  destruct (Nat.eqb (length payload) 0); [split; [reflexivity|intros txs t [= _ <-]; lia]|].
  destruct (array_header_size_of_val b1 (length (p0 :: pr))) as (bah & ->). cbn [bind].
  destruct (array_header_size_of_val p0 (length payload)) as (ph & ->). cbn [bind].
  destruct (raw_list_sound p0 payload B0 R0) as (FP & S1 & S2).
  destruct (byron_pairs_spec payload (u32 (u32 (u32 (ahs + u32 (nlen b0)) + bah) + ph)) FP) as [B T].
  destruct (byron_pairs payload (u32 (u32 (u32 (ahs + u32 (nlen b0)) + bah) + ph))) as [[l t]| | |]; try discriminate; cbn [bind fst snd];
    [|split; [reflexivity|discriminate]].
  specialize (T l t eq_refl). split; [reflexivity|]. intros txs t' [= _ <-]. lia.
Qed.

(* ---- Dijkstra blocks ---- *)
Lemma info_ok_spec data n : bad (info_ok data n) = false /\ forall hs, info_ok data n = Val hs -> (1 <= hs <= length data)%nat.
Proof.
  unfold info_ok, array_info. destruct (info_spec 128 data) as (c & h & ind & -> & Hh). cbn [bind].
  destruct (info_invalid (c, h, ind)); [split; [reflexivity|discriminate]|]. specialize (Hh eq_refl).
  destruct (negb ind && negb (count_of c =? n)); (split; [reflexivity|]); [discriminate|]. intros hs [= <-]. exact Hh.
Qed.

Lemma sd_raw_spec stream pos : (pos <= length stream)%nat ->
  bad (sd_raw stream pos) = false /\
  forall s p, sd_raw stream pos = Val (s, p) ->
    (pos < p <= length stream)%nat /\ (length s = p - pos)%nat /\ (all_bytes stream -> all_bytes s).
Proof.
  intros Hp. unfold sd_raw. destruct (sd_skip stream pos) as [[u n]|] eqn:E; [|split; [reflexivity|discriminate]].
  apply sd_val_bounds in E. rewrite slice_ok by lia. cbn [bind]. split; [reflexivity|].
  intros s p [= <- <-]. split; [lia|]. split.
  - rewrite firstn_length, skipn_length. lia.
  - intros Hb. apply all_bytes_firstn, all_bytes_skipn. exact Hb.
Qed.

Lemma dijkstra_txs_spec fuel stream base : (length stream < fuel)%nat -> forall txs pos, (pos <= length stream)%nat ->
  bad (dijkstra_txs fuel txs stream pos base) = false /\
  (all_bytes stream -> forall l t, dijkstra_txs fuel txs stream pos base = Val (l, t) ->
     (t <= length txs + 3 * (length stream - pos))%nat).
Proof.
  intros Hf. induction txs as [|x r IH]; intros pos Hp; cbn [dijkstra_txs].
  { split; [reflexivity|]. intros _ l t [= _ <-]. cbn. lia. }
  destruct (sd_raw_spec stream pos Hp) as [B0 R0].
  destruct (sd_raw stream pos) as [[raw_tx pos']| | |]; try discriminate; cbn [bind]; [|split; [reflexivity|intros; discriminate]].
  destruct (R0 raw_tx pos' eq_refl) as (P0 & L0 & A0).
  destruct (raw_list raw_tx) as [parts|]; [|split; [reflexivity|intros; discriminate]].
  destruct (negb (Nat.eqb (length parts) 3)); [split; [reflexivity|intros; discriminate]|].
  destruct (info_ok_spec raw_tx 3) as [B1 R1].
  destruct (info_ok raw_tx 3) as [ths| | |]; try discriminate; cbn [bind]; [|split; [reflexivity|intros; discriminate]].
  specialize (R1 ths eq_refl). rewrite slice_from_ok by lia. cbn [bind].
  set (st := skipn ths raw_tx). assert (Ls : (length st = length raw_tx - ths)%nat) by apply skipn_length.
  destruct (sd_raw_spec st 0) as [B2 R2]; [lia|].
  destruct (sd_raw st 0) as [[body p1]| | |]; try discriminate; cbn [bind]; [|split; [reflexivity|intros; discriminate]].
  destruct (R2 body p1 eq_refl) as (P1 & L1 & A1).
  destruct (sd_raw_spec st p1) as [B3 R3]; [lia|].
  destruct (sd_raw st p1) as [[wit p2]| | |]; try discriminate; cbn [bind]; [|split; [reflexivity|intros; discriminate]].
  destruct (R3 wit p2 eq_refl) as (P2 & L2 & A2).
  destruct (sd_raw_spec st p2) as [B4 R4]; [lia|].
  destruct (sd_raw st p2) as [[aux p3]| | |]; try discriminate; cbn [bind]; [|split; [reflexivity|intros; discriminate]].
  destruct (R4 aux p3 eq_refl) as (P3 & L3 & A3).
  assert (NULL : exists b, (if Nat.eqb (length aux) 1 then x <- idx aux 0 ;; Val (x =? 246) else Val false) = Val b).
  { destruct (Nat.eqb_spec (length aux) 1) as [La|La]; [|eauto]. destruct (idx_lt aux 0) as (x0 & ->); [lia|]. cbn [bind]. eauto. }
  destruct NULL as (is_null & ->). cbn [bind].
  set (tx_pos := u32 (base + N.of_nat pos)).
  destruct (output_offsets_spec true fuel body (u32 (tx_pos + N.of_nat ths))) as [B5 T5]; [lia|].
  destruct (output_offsets true fuel body (u32 (tx_pos + N.of_nat ths))) as [[o t1]| | |]; try discriminate. cbn [bind].
  destruct (witness_components_spec fuel wit (u32 (tx_pos + N.of_nat ths + N.of_nat p1))) as [B6 T6]; [lia|].
  destruct (witness_components fuel wit (u32 (tx_pos + N.of_nat ths + N.of_nat p1))) as [[c t2]| | |]; try discriminate. cbn [bind].
  destruct (IH pos') as [B7 T7]; [lia|].
  destruct (dijkstra_txs fuel r stream pos' base) as [[l2 t3]| | |]; try discriminate; cbn [bind fst snd];
    [|split; [reflexivity|intros; discriminate]].
  split; [reflexivity|]. intros Hb l t [= _ <-].
  assert (Ast : all_bytes st) by (apply all_bytes_skipn, A0, Hb).
  specialize (T5 (A1 Ast) o t1 eq_refl). specialize (T6 (A2 Ast) c t2 eq_refl). specialize (T7 Hb l2 t3 eq_refl).
  cbn [length]. lia.
Qed.

Lemma dijkstra_offsets_spec fuel data blk : all_bytes data -> (length data < fuel)%nat ->
  bad (dijkstra_offsets fuel data blk) = false /\
  forall txs t, dijkstra_offsets fuel data blk = Val (XDone txs t) -> (t <= 4 * length data)%nat.
Proof.
  intros Hb Hf. unfold dijkstra_offsets.
  destruct (Nat.eqb_spec (length blk) 2) as [L2|L2]; cbn [negb]; [|split; [reflexivity|discriminate]].
  destruct (info_ok_spec data 2) as [B1 R1].
  destruct (info_ok data 2) as [top_hs| | |]; try discriminate; cbn [bind]; [|split; [reflexivity|discriminate]].
  specialize (R1 top_hs eq_refl).
  destruct blk as [|b0 [|b1 br]]; cbn [length] in L2; try lia.
  destruct (raw_list b1) as [parts|]; [|split; [reflexivity|discriminate]].
  destruct (negb (Nat.eqb (length parts) 4)); [split; [reflexivity|discriminate]|].
  rewrite slice_from_ok by lia. cbn [bind].
  set (st := skipn top_hs data). assert (Ls : (length st = length data - top_hs)%nat) by apply skipn_length.
  assert (Ast : all_bytes st) by (apply all_bytes_skipn; exact Hb).
  destruct (sd_skip st 0) as [[u hl]|] eqn:E; [|split; [reflexivity|discriminate]].
  apply sd_val_bounds in E.
  destruct (sd_raw_spec st hl) as [B2 R2]; [lia|].
  destruct (sd_raw st hl) as [[body_raw p1]| | |]; try discriminate; cbn [bind]; [|split; [reflexivity|discriminate]].
  destruct (R2 body_raw p1 eq_refl) as (P1 & Lb & Ab). specialize (Ab Ast).
  destruct (info_ok_spec body_raw 4) as [B3 R3].
  destruct (info_ok body_raw 4) as [bhs| | |]; try discriminate; cbn [bind]; [|split; [reflexivity|discriminate]].
  specialize (R3 bhs eq_refl). rewrite slice_from_ok by lia. cbn [bind].
  set (bst := skipn bhs body_raw). assert (Lbs : (length bst = length body_raw - bhs)%nat) by apply skipn_length.
  assert (Abst : all_bytes bst) by (apply all_bytes_skipn; exact Ab).
  destruct (sd_skip bst 0) as [[u2 il]|] eqn:E2; [|split; [reflexivity|discriminate]].
  apply sd_val_bounds in E2.
  destruct (sd_raw_spec bst il) as [B4 R4]; [lia|].
  destruct (sd_raw bst il) as [[txs_raw p2]| | |]; try discriminate; cbn [bind]; [|split; [reflexivity|discriminate]].
  destruct (R4 txs_raw p2 eq_refl) as (P2 & Lt & At). specialize (At Abst).
  destruct (raw_list txs_raw) as [txs|] eqn:Rt; [|split; [reflexivity|discriminate]].
  destruct (Nat.eqb (length txs) 0); [split; [reflexivity|intros l t [= _ <-]; lia]|].
  destruct (info_ok_spec txs_raw (N.of_nat (length txs))) as [B5 R5].
  destruct (info_ok txs_raw (N.of_nat (length txs))) as [ths| | |]; try discriminate; cbn [bind]; [|split; [reflexivity|discriminate]].
  specialize (R5 ths eq_refl). rewrite slice_from_ok by lia. cbn [bind].
  set (tst := skipn ths txs_raw). assert (Lts : (length tst = length txs_raw - ths)%nat) by apply skipn_length.
  set (base := u32 (u32 (u32 (N.of_nat top_hs + N.of_nat hl) + N.of_nat bhs + N.of_nat il) + N.of_nat ths)).
  destruct (dijkstra_txs_spec fuel tst base) with (txs := txs) (pos := 0%nat) as [B6 T6]; [lia|lia|].
  destruct (dijkstra_txs fuel txs tst 0 base) as [[l t]| | |]; try discriminate; cbn [bind fst snd]; [|split; [reflexivity|discriminate]].
  split; [reflexivity|]. intros l' t' [= _ <-].
  specialize (T6 (all_bytes_skipn _ _ At) l t eq_refl).
  destruct (raw_list_sound txs_raw txs At Rt) as (_ & S1 & S2). lia.
Qed.

(* ---- ExtractTransactionOffsets / DecodeWithOffsets ---- *)
Lemma extract_offsets_spec streaming fuel data : all_bytes data -> (length data < fuel)%nat ->
  bad (extract_offsets streaming fuel data) = false /\
  forall txs t, extract_offsets streaming fuel data = Val (XDone txs t) -> (t <= 6 * length data)%nat.
Proof.
  intros Hb Hf. unfold extract_offsets.
  destruct (raw_list data) as [blk|] eqn:R; [|split; [reflexivity|discriminate]].
  destruct (raw_list_sound data blk Hb R) as (Fb & S1 & S2).
  destruct (negb streaming && is_dijkstra_block blk).
  { destruct (dijkstra_offsets_spec fuel data blk Hb Hf) as [B T]. split; [exact B|]. intros txs t E. specialize (T txs t E). lia. }
  destruct (Nat.ltb_spec (length blk) 3); [split; [reflexivity|intros txs t [= _ <-]; lia]|].
  destruct (is_byron_block blk).
  { destruct (byron_offsets_spec data blk Hb R) as [B T]; [lia|]. split; [exact B|]. intros txs t E. specialize (T txs t E). lia. }
  destruct (Nat.ltb_spec (length blk) 4) as [L4|L4]; [split; [reflexivity|intros txs t [= _ <-]; lia]|].
  rewrite slice_from_ok by lia. cbn [bind skipn].
  destruct (array_header_size_of_val data (length blk)) as (ahs & ->). cbn [bind].
  destruct blk as [|b0 [|b1 [|b2 [|b3 br]]]]; cbn [length] in L4; try lia.
  assert (Hl : (length b1 <= length data /\ length b2 <= length data /\ length b3 <= length data /\
                length b1 + length b2 + length b3 <= length data)%nat).
  { unfold sum_len in S1. cbn [map list_sum fold_right] in S1. unfold list_sum in S1. cbn [fold_right] in S1. lia. }
  inversion Fb as [|? ? F0 Fb1]; subst. inversion Fb1 as [|? ? F1 Fb2]; subst.
  inversion Fb2 as [|? ? F2 Fb3]; subst. inversion Fb3 as [|? ? F3 _]; subst.
  destruct (raw_list b1) as [bodies|] eqn:R1; [|split; [reflexivity|discriminate]].
  destruct (raw_list b2) as [wits|] eqn:R2; [|split; [reflexivity|discriminate]].
  destruct (raw_list_sound b1 bodies F1 R1) as (FB & SB1 & SB2).
  destruct (raw_list_sound b2 wits F2 R2) as (FW & SW1 & SW2).
  destruct (negb (Nat.eqb (length bodies) (length wits))); [split; [reflexivity|discriminate]|].
  set (meta_off := u32 (u32 (u32 (ahs + u32 (nlen b0)) + u32 (nlen b1)) + u32 (nlen b2))).
  assert (M : exists ms tm, (if Nat.ltb 1 (length b3) then metadata_offsets fuel b3 meta_off else Val ([], 0%nat)) = Val (ms, tm) /\ (tm <= length b3)%nat).
  { destruct (Nat.ltb 1 (length b3)); [|exists [], 0%nat; split; [reflexivity|lia]].
    destruct (metadata_offsets_spec fuel b3 meta_off) as [B T]; [lia|].
    destruct (metadata_offsets fuel b3 meta_off) as [[ms tm]| | |]; try discriminate. exists ms, tm. split; [reflexivity|]. eapply T; eauto. }
  destruct M as (ms & tm & -> & Htm). cbn [bind].
  destruct (array_header_size_of_val b1 (length bodies)) as (bh & ->). cbn [bind].
  destruct (walk_bodies_spec (negb streaming) fuel bodies (u32 (u32 (ahs + u32 (nlen b0)) + bh)) FB) as [B1 T1]; [lia|].
  destruct (walk_bodies (negb streaming) fuel (u32 (u32 (ahs + u32 (nlen b0)) + bh)) bodies) as [[bl tb]| | |];
    try discriminate; cbn [bind].
  specialize (T1 bl tb eq_refl).
  destruct (array_header_size_of_val b2 (length wits)) as (wh & ->). cbn [bind].
  destruct (walk_witnesses_spec fuel wits (u32 (u32 (u32 (ahs + u32 (nlen b0)) + u32 (nlen b1)) + wh)) FW) as [B2 T2]; [lia|].
  destruct (walk_witnesses fuel (u32 (u32 (u32 (ahs + u32 (nlen b0)) + u32 (nlen b1)) + wh)) wits) as [[wl tw]| | |];
    try discriminate; cbn [bind fst snd].
  specialize (T2 wl tw eq_refl).
  split; [reflexivity|]. intros txs t [= _ <-]. lia.
Qed.

(* Extract*Cbor: the uint64 bound check makes the uint32 slice bounds safe (blocks below 4 GiB) *)
Lemma extract_cbor_no_bad data off len : (N.of_nat (length data) < two32) -> bad (extract_cbor data (off, len)) = false.
Proof.
  intros Hd. unfold extract_cbor. destruct (N.ltb_spec (N.of_nat (length data)) (off + len)) as [H|H]; [reflexivity|].
  unfold u32. rewrite N.mod_small by (unfold two32 in *; lia).
  rewrite slice_ok by lia. reflexivity.
Qed.

(* DecodeArrayItems *)
Lemma decode_array_items_no_bad data abs : bad (decode_array_items data abs) = false.
Proof.
  unfold decode_array_items. destruct (sd_items data abs) as [[xs n]|]; [|reflexivity].
  pose proof (header_size_no_bad data abs) as B.
  destruct (header_size_from_bytes data abs); cbn [bind] in *; try discriminate; reflexivity.
Qed.
(* ================================================================== *)
(* muxer.readLoop framing *)
Lemma idx_byte data i b : all_bytes data -> idx data i = Val b -> b < 256.
Proof.
  intros Hb. unfold idx. destruct (nth_error data i) eqn:En; [|discriminate]. intros [= <-].
  eapply Forall_forall in Hb; [exact Hb|]. eapply nth_error_In; eauto.
Qed.

Definition sumN (l : list N) : N := fold_right N.add 0 l.

Lemma mux_read_spec : forall fuel conn segs allocs, all_bytes conn -> (length conn < 9 * fuel)%nat ->
  bad (mux_read fuel conn segs allocs) = false /\
  forall s a, mux_read fuel conn segs allocs = Val (s, a) ->
    (forall x, In x a -> In x allocs \/ x <= 65535) /\
    sumN a <= sumN allocs + N.of_nat (length conn) + 65535 /\
    (9 * (s - segs) <= length conn)%nat.
Proof.
  induction fuel as [|f IH]; intros conn segs allocs Hb Hf; [lia|].
  cbn [mux_read]. destruct (Nat.ltb_spec (length conn) 8) as [L|L].
  { split; [reflexivity|]. intros s a [= <- <-]. repeat split; [auto|lia|lia]. }
  destruct (idx_lt conn 6) as (hi & Ehi); [lia|]. destruct (idx_lt conn 7) as (lo & Elo); [lia|].
  rewrite Ehi, Elo. cbn [bind].
  pose proof (idx_byte _ _ _ Hb Ehi). pose proof (idx_byte _ _ _ Hb Elo).
  destruct (N.eqb_spec (hi * 256 + lo) 0) as [Z0|Z0].
  { split; [reflexivity|]. intros s a [= <- <-]. repeat split; [auto|lia|lia]. }
  destruct (Nat.ltb_spec (length conn) (8 + N.to_nat (hi * 256 + lo))) as [L2|L2].
  { split; [reflexivity|]. intros s a [= <- <-]. repeat split.
    - intros x [<-|Hx]; [right; lia|left; exact Hx].
    - cbn [sumN fold_right]. fold (sumN allocs). lia.
    - lia. }
  assert (Hb' : all_bytes (skipn (8 + N.to_nat (hi * 256 + lo)) conn)).
  { unfold all_bytes in *. rewrite <- (firstn_skipn (8 + N.to_nat (hi * 256 + lo)) conn) in Hb. apply Forall_app in Hb. tauto. }
  destruct (IH (skipn (8 + N.to_nat (hi * 256 + lo)) conn) (S segs) ((hi * 256 + lo) :: allocs) Hb') as [B R].
  { rewrite skipn_length. lia. }
  split; [exact B|]. intros s a E. destruct (R s a E) as (R1 & R2 & R3). rewrite skipn_length in *. repeat split.
  - intros x Hx. destruct (R1 x Hx) as [[<-|Hi]|Hle]; [right; lia|left; exact Hi|right; exact Hle].
  - cbn [sumN fold_right] in R2. fold (sumN allocs) in R2. lia.
  - lia.
Qed.

(* protocol.readLoop buffer handling; the library contract: NumBytesRead <= len(buffer) *)
Section proto.
  Variable lib : bytes -> lib_res.
  Variable typ : bytes -> option N.
  Hypothesis lib_reads_within : forall buf n k first, lib buf = LMsg n k first -> (n <= length buf)%nat.

  Lemma proto_drain_spec : forall fuel buf acc, (length buf < fuel)%nat ->
    isval (proto_drain lib typ fuel buf acc) = true /\
    forall acc' st, proto_drain lib typ fuel buf acc = Val (acc', st) ->
      (length acc' <= length acc + length buf)%nat /\
      match st with PWait b => (length b + (length acc' - length acc) <= length buf)%nat | PStop => True end.
  Proof.
    induction fuel as [|f IH]; intros buf acc Hf; [lia|].
    cbn [proto_drain].
    destruct (Nat.eqb_spec (length buf) 0); [split; [reflexivity|intros acc' st [= <- <-]; split; [lia|exact I]]|].
    destruct (lib buf) as [n' k first| |] eqn:El.
    - pose proof (lib_reads_within _ _ _ _ El) as Hn.
      destruct (Nat.eqb_spec n' 0) as [N0|N0]; cbn [orb]; [split; [reflexivity|intros acc' st [= <- <-]; split; [lia|exact I]]|].
      destruct (Nat.eqb_spec k 0) as [K0|K0]; [split; [reflexivity|intros acc' st [= <- <-]; split; [lia|exact I]]|].
      destruct (Nat.ltb_spec 0 k); [|lia]. cbn [bind].
      destruct (typ first) as [ty|]; [|split; [reflexivity|intros acc' st [= <- <-]; split; [lia|exact I]]].
      rewrite slice_ok by lia. cbn [bind].
      destruct (Nat.ltb_spec n' (length buf)).
      + rewrite slice_from_ok by lia. cbn [bind].
        destruct (IH (skipn n' buf) (acc ++ [(ty, firstn (n' - 0) (skipn 0 buf))])) as [B R]; [rewrite skipn_length; lia|].
        split; [exact B|]. intros acc' st E. destruct (R acc' st E) as [R1 R2].
        rewrite app_length, skipn_length in *. cbn [length] in *. split; [lia|]. destruct st; [lia|exact I].
      + split; [reflexivity|]. intros acc' st [= <- <-]. rewrite app_length. cbn [length]. split; lia.
    - destruct (max_read_buffer <? nlen buf); (split; [reflexivity|]); intros acc' st [= <- <-]; (split; [lia|]); [exact I|lia].
    - split; [reflexivity|]. intros acc' st [= <- <-]. split; [lia|exact I].
  Qed.

  Lemma proto_read_spec fuel : forall segs si buf acc, (length buf + length (concat segs) < fuel)%nat ->
    isval (proto_read lib typ fuel segs si buf acc) = true /\
    forall ms e, proto_read lib typ fuel segs si buf acc = Val (ms, e) ->
      (length ms <= length acc + length buf + length (concat segs))%nat.
  Proof.
    induction segs as [|s r IH]; intros si buf acc Hf; cbn [proto_read].
    { split; [reflexivity|]. intros ms e [= <- _]. lia. }
    cbn [concat] in Hf. rewrite app_length in Hf.
    destruct (proto_drain_spec fuel (buf ++ s) []) as [B R]; [rewrite app_length; lia|].
    destruct (proto_drain lib typ fuel (buf ++ s) []) as [[msgs st]| | |]; try discriminate. cbn [bind].
    destruct (R msgs st eq_refl) as [R1 R2]. rewrite app_length in *. cbn [length] in *.
    destruct st as [b|].
    - destruct (IH (S si) b (acc ++ map (fun m => (si, m)) msgs)) as [B2 T2]; [lia|].
      split; [exact B2|]. intros ms e E. specialize (T2 ms e E). rewrite app_length, map_length in T2.
      cbn [concat]. rewrite app_length. lia.
    - split; [reflexivity|]. intros ms e [= <- _]. rewrite app_length, map_length. cbn [concat]. rewrite app_length. lia.
  Qed.
End proto.

Lemma lib_cbor_within buf n k first : lib_cbor buf = LMsg n k first -> (n <= length buf)%nat.
Proof.
  unfold lib_cbor. destruct (parse_full buf) as [i rest| |] eqn:E; try discriminate.
  destruct (items_of i); [|discriminate]. intros [= <- _ _]. lia.
Qed.
(* ================================================================== *)
(* cbor/diagnostic.go: parseDiagnosticNode and its loops.
   For EVERY fuel: no index / slice expression is out of range, and the number
   of parseDiagnosticNode calls (ticks) is at most len - pos + 1 whatever the
   outcome - every call that got as far as reading its first byte owns that
   byte.  For fuel >= 2 * (len - pos) + 1 the fuel is never exhausted: the
   walker terminates. *)
Definition panics {A} (r : out A) : bool := match r with Panic => true | _ => false end.
Definition oof {A} (r : out A) : bool := match r with OutOfFuel => true | _ => false end.

Lemma bad_split {A} (r : out A) : bad r = false <-> panics r = false /\ oof r = false.
Proof. destruct r; cbn; intuition congruence. Qed.

Lemma tbind_val {A B} (a : A) (k : A -> tk B) : tbind (tlift (Val a)) k = k a.
Proof. unfold tbind, tlift. cbn [fst snd]. destruct (k a); reflexivity. Qed.
Lemma tbind_val_t {A B} (a : A) (t : nat) (k : A -> tk B) : tbind (Val a, t) k = (fst (k a), (t + snd (k a))%nat).
Proof. reflexivity. Qed.
Lemma tbind_err {A B} (t : nat) (k : A -> tk B) : tbind (Err, t) k = (Err, t).
Proof. reflexivity. Qed.
Lemma tbind_lift_err {A B} (k : A -> tk B) : tbind (tlift Err) k = (Err, 0%nat).
Proof. reflexivity. Qed.
Lemma tbind_panic {A B} (t : nat) (k : A -> tk B) : tbind (Panic, t) k = (Panic, t).
Proof. reflexivity. Qed.
Lemma tbind_oof {A B} (t : nat) (k : A -> tk B) : tbind (OutOfFuel, t) k = (OutOfFuel, t).
Proof. reflexivity. Qed.

Section diag.
  Variable ok : item -> bool.
  Variable data : bytes.
  Let L := length data.

  (* what one parser call at `pos` guarantees; `extra` = ticks already spent by the
     caller on behalf of this call, `fu` = the fuel condition under which it does not run out *)
  Definition GP {K} (pos : nat) (strict : bool) (extra : nat) (fu : Prop) (m : tk (K * nat)) : Prop :=
    panics (fst m) = false /\
    (forall x e, fst m = Val (x, e) -> ((if strict then S pos else pos) <= e /\ e <= L)%nat /\ (extra + snd m <= e - pos)%nat) /\
    (extra + snd m <= L - pos + 1)%nat /\
    (fu -> oof (fst m) = false).

  Lemma gp_err {K} pos s extra fu t : (extra + t <= L - pos + 1)%nat -> @GP K pos s extra fu (Err, t).
  Proof. intros H. repeat split; cbn; try discriminate; auto. Qed.

  Lemma gp_tick {K} pos s fu (m : tk (K * nat)) : GP pos s 1 fu m -> GP pos s 0 fu (tick m).
  Proof.
    intros (H1 & H2 & H3 & H4). unfold tick, GP. cbn [fst snd]. split; [exact H1|]. split; [|split; [lia|exact H4]].
    intros x e H. destruct (H2 x e H) as [Ha Hb]. split; [exact Ha|lia].
  Qed.

  Lemma gp_fu {K} pos s extra (fu fu' : Prop) (m : tk (K * nat)) : (fu' -> fu) -> GP pos s extra fu m -> GP pos s extra fu' m.
  Proof. intros Hf (H1 & H2 & H3 & H4). unfold GP. repeat (split; [assumption|]). auto. Qed.

  (* a container / tag / chunked string: header of hl bytes consumed, children parsed from
     pos + hl, then data[start:end] *)
  Lemma close_ok {K} pos hl s fu (m : tk (K * nat)) (mk : K -> list dnode) :
    (1 <= hl)%nat -> (pos + hl <= L)%nat -> GP (pos + hl) s 0 fu m ->
    GP pos true 1 fu (r <~ m ;; diag_close data pos mk r).
  Proof.
    intros Hh Hl (H1 & H2 & H3 & H4). destruct m as [r t]. cbn [fst snd] in *.
    destruct r as [[ks e]| | |]; unfold tbind; cbn [fst snd]; try discriminate.
    - destruct (H2 ks e eq_refl) as [[Ha Hb] Hc]. unfold diag_close, tlift.
      assert (Hpe : (pos <= e)%nat) by (destruct s; lia).
      assert (HeL : (e <= length data)%nat) by exact Hb.
      rewrite (slice_ok data pos e Hpe HeL). cbn [bind fst snd]. unfold GP. cbn [fst snd].
      split; [reflexivity|]. split; [|split; [lia|reflexivity]].
      intros x e' [= _ <-]. split; [split; [destruct s; lia|exact Hb]|destruct s; lia].
    - unfold GP. cbn [fst snd]. split; [reflexivity|]. split; [discriminate|]. split; [lia|reflexivity].
    - unfold GP. cbn [fst snd]. split; [reflexivity|]. split; [discriminate|]. split; [lia|exact H4].
  Qed.

  Definition node_ok (fuel : nat) := forall depth pos,
    GP pos true 0 (2 * (L - pos) + 1 <= fuel)%nat (diag_node ok fuel data depth pos).
  Definition count_ok (fuel : nat) := forall depth pos k, (pos <= L)%nat ->
    GP pos false 0 (2 * (L - pos) + 2 <= fuel)%nat (diag_count ok fuel data depth pos k).
  Definition indef_ok (fuel : nat) := forall depth pos per chunk,
    GP pos true 0 (2 * (L - pos) + 2 <= fuel)%nat (diag_indef ok fuel data depth pos per chunk).

  Lemma diag_node_S f depth pos : diag_node ok (S f) data depth pos =
    tick (
      if Nat.ltb max_diag_depth depth then tlift Err else
      if Nat.leb (length data) pos then tlift Err else
      first <~ tlift (idx data pos) ;;
      let mt := N.land first 224 in
      let ai := N.land first 31 in
      let prim :=
        tlift (match sd_next ok data pos with
               | None => Err
               | Some (_, n) => _ <- slice data pos (pos + n) ;; Val (DN pos n [], (pos + n)%nat)
               end) in
      if (mt =? 0) || (mt =? 32) || (mt =? 224) then prim
      else if (mt =? 64) || (mt =? 96) then
        if ai =? 31 then
          _ <~ tlift (if Nat.ltb (length data) (pos + 1) then Err else Val tt) ;;
          r <~ diag_indef ok f data (S depth) (pos + 1) 1 mt ;;
          diag_close data pos (fun k => k) r
        else prim
      else if (mt =? 128) || (mt =? 160) then
        h <~ tlift (collection_header data pos) ;;
        let '(len, hl, indef) := h in
        _ <~ tlift (if Nat.ltb (length data) (pos + hl) then Err else Val tt) ;;
        let per := if mt =? 160 then 2%nat else 1%nat in
        r <~ (if (indef : bool) then diag_indef ok f data (S depth) (pos + hl) per 0
              else diag_count ok f data (S depth) (pos + hl) (len * N.of_nat per)) ;;
        diag_close data pos (fun k => k) r
      else
        h <~ tlift (tag_header data pos) ;;
        let '(_, hl) := h in
        _ <~ tlift (if Nat.ltb (length data) (pos + hl) then Err else Val tt) ;;
        r <~ diag_node ok f data (S depth) (pos + hl) ;;
        diag_close data pos (fun k => [k]) r).
  Proof. reflexivity. Qed.

  Lemma diag_count_S f depth pos k : diag_count ok (S f) data depth pos k =
    if k =? 0 then tlift (Val ([], pos)) else
      r <~ diag_node ok f data depth pos ;;
      let '(kid, p1) := r in
      r2 <~ diag_count ok f data depth p1 (k - 1) ;;
      let '(kids, e) := r2 in tlift (Val (kid :: kids, e)).
  Proof. reflexivity. Qed.

  Lemma diag_indef_S f depth pos per chunk : diag_indef ok (S f) data depth pos per chunk =
      if Nat.leb (length data) pos then tlift Err else
      b <~ tlift (idx data pos) ;;
      if b =? 255 then
        tlift (if Nat.ltb (length data) (pos + 1) then Err else Val ([], (pos + 1)%nat))
      else
        r <~ diag_node ok f data depth pos ;;
        let '(k1, p1) := r in
        _ <~ tlift (if negb (chunk =? 0) && (negb (N.land b 224 =? chunk) || (N.land b 31 =? 31)) then Err else Val tt) ;;
        r1 <~ (if Nat.eqb per 2 then
                 r' <~ diag_node ok f data depth p1 ;; let '(k2, p2) := r' in tlift (Val ([k1; k2], p2))
               else tlift (Val ([k1], p1))) ;;
        let '(ks, p2) := r1 in
        r2 <~ diag_indef ok f data depth p2 per chunk ;;
        let '(kids, e) := r2 in tlift (Val (ks ++ kids, e)).
  Proof. reflexivity. Qed.

  Lemma diag_all : forall fuel, node_ok fuel /\ count_ok fuel /\ indef_ok fuel.
  Proof.
    induction fuel as [|f (IHn & IHc & IHi)].
    { repeat split; cbn; try discriminate; try lia. }
    assert (Hnode : node_ok (S f)).
    { intros depth pos. rewrite diag_node_S. apply gp_tick.
      destruct (Nat.ltb max_diag_depth depth); [apply gp_err; cbn [Nat.add]; lia|].
      destruct (Nat.leb_spec (length data) pos) as [Lp|Lp]; [apply gp_err; cbn [Nat.add]; lia|].
      destruct (idx_lt data pos Lp) as (first & ->). rewrite tbind_val.
      assert (PRIM : GP pos true 1 (2 * (L - pos) + 1 <= S f)%nat
                (tlift (match sd_next ok data pos with
                        | None => Err
                        | Some (_, n) => _ <- slice data pos (pos + n) ;; Val (DN pos n [], (pos + n)%nat) end))).
      { destruct (sd_next ok data pos) as [[it n]|] eqn:E; [|apply gp_err; cbn [Nat.add]; lia].
        apply sd_next_bounds in E. rewrite slice_ok by lia. unfold tlift, GP. cbn [bind fst snd].
        split; [reflexivity|]. split; [|split; [unfold L; lia|reflexivity]].
        intros x e [= _ <-]. unfold L. lia. }
      cbv zeta.
      destruct ((N.land first 224 =? 0) || (N.land first 224 =? 32) || (N.land first 224 =? 224)); [exact PRIM|].
      destruct ((N.land first 224 =? 64) || (N.land first 224 =? 96)).
      { destruct (N.land first 31 =? 31); [|exact PRIM].
        destruct (Nat.ltb_spec (length data) (pos + 1)); [rewrite tbind_lift_err; apply gp_err; cbn [Nat.add]; lia|].
        rewrite tbind_val.
        apply (close_ok pos 1 true); [lia|unfold L; lia|].
        eapply gp_fu; [|apply IHi]. unfold L in *. lia. }
      destruct ((N.land first 224 =? 128) || (N.land first 224 =? 160)).
      { destruct (collection_header_spec data pos) as [B R].
        destruct (collection_header data pos) as [[[len hl] ind]| | |]; try discriminate;
          [|rewrite tbind_lift_err; apply gp_err; cbn [Nat.add]; lia].
        rewrite tbind_val.
        destruct (R _ _ _ eq_refl) as [Hh _].
        destruct (Nat.ltb_spec (length data) (pos + hl)); [rewrite tbind_lift_err; apply gp_err; cbn [Nat.add]; lia|].
        rewrite tbind_val.
        destruct ind.
        - apply (close_ok pos hl true); [lia|unfold L; lia|]. eapply gp_fu; [|apply IHi]. unfold L in *. lia.
        - apply (close_ok pos hl false); [lia|unfold L; lia|]. eapply gp_fu; [|apply IHc; unfold L; lia]. unfold L in *. lia. }
      destruct (tag_header_spec data pos) as [B R].
      destruct (tag_header data pos) as [[t hl]| | |]; try discriminate;
        [|rewrite tbind_lift_err; apply gp_err; cbn [Nat.add]; lia].
      rewrite tbind_val.
      destruct (R _ _ eq_refl) as [Hh _].
      destruct (Nat.ltb_spec (length data) (pos + hl)); [rewrite tbind_lift_err; apply gp_err; cbn [Nat.add]; lia|].
      rewrite tbind_val.
      apply (close_ok pos hl true); [lia|unfold L; lia|]. eapply gp_fu; [|apply IHn]. unfold L in *. lia. }
    split; [exact Hnode|]. split.
    - intros depth pos k Hp. rewrite diag_count_S.
      destruct (k =? 0).
      { unfold tlift, GP. cbn [fst snd]. split; [reflexivity|]. split; [|split; [lia|reflexivity]].
        intros x e [= _ <-]. lia. }
      destruct (IHn depth pos) as (N1 & N2 & N3 & N4).
      destruct (diag_node ok f data depth pos) as [[[kid p1]| | |] t1]; cbn [fst snd] in *; try discriminate.
      2:{ rewrite tbind_err. apply gp_err. lia. }
      2:{ rewrite tbind_oof. unfold GP. cbn [fst snd]. split; [reflexivity|]. split; [discriminate|]. split; [lia|].
          intros Hf. apply N4. lia. }
      rewrite tbind_val_t.
      destruct (N2 kid p1 eq_refl) as [[Ha Hb] Hc].
      destruct (IHc depth p1 (k - 1) Hb) as (C1 & C2 & C3 & C4).
      destruct (diag_count ok f data depth p1 (k - 1)) as [[[kids e]| | |] t2]; cbn [fst snd] in *; try discriminate.
      + rewrite tbind_val_t. destruct (C2 kids e eq_refl) as [[Hd He] Hg]. unfold tlift, GP. cbn [fst snd].
        split; [reflexivity|]. split; [|split; [lia|reflexivity]].
        intros x e' [= _ <-]. lia.
      + rewrite tbind_err. unfold GP. cbn [fst snd]. split; [reflexivity|]. split; [discriminate|]. split; [lia|reflexivity].
      + rewrite tbind_oof. unfold GP. cbn [fst snd]. split; [reflexivity|]. split; [discriminate|]. split; [lia|].
        intros Hf. apply C4. lia.
    - intros depth pos per chunk. rewrite diag_indef_S.
      destruct (Nat.leb_spec (length data) pos) as [Lp|Lp]; [apply gp_err; lia|].
      destruct (idx_lt data pos Lp) as (b & ->). rewrite tbind_val.
      destruct (b =? 255).
      { destruct (Nat.ltb_spec (length data) (pos + 1)); [apply gp_err; lia|].
        unfold tlift, GP. cbn [fst snd]. split; [reflexivity|]. split; [|split; [lia|reflexivity]].
        intros x e [= _ <-]. unfold L. lia. }
      destruct (IHn depth pos) as (N1 & N2 & N3 & N4).
      destruct (diag_node ok f data depth pos) as [[[k1 p1]| | |] t1]; cbn [fst snd] in *; try discriminate.
      2:{ rewrite tbind_err. apply gp_err. lia. }
      2:{ rewrite tbind_oof. unfold GP. cbn [fst snd]. split; [reflexivity|]. split; [discriminate|]. split; [lia|].
          intros Hf. apply N4. lia. }
      rewrite tbind_val_t.
      destruct (N2 k1 p1 eq_refl) as [[Ha Hb] Hc].
      destruct (negb (chunk =? 0) && (negb (N.land b 224 =? chunk) || (N.land b 31 =? 31))).
      { rewrite tbind_lift_err. unfold GP. cbn [fst snd]. split; [reflexivity|]. split; [discriminate|]. split; [lia|reflexivity]. }
      rewrite tbind_val.
      (* the second child of a map entry *)
      set (second := if Nat.eqb per 2 then
                       r' <~ diag_node ok f data depth p1 ;; (let '(k2, p2) := r' in tlift (Val ([k1; k2], p2)))
                     else tlift (Val ([k1], p1))).
      assert (SEC : GP p1 false 0 (2 * (L - p1) + 1 <= f)%nat second).
      { unfold second. destruct (Nat.eqb per 2).
        - destruct (IHn depth p1) as (M1 & M2 & M3 & M4).
          destruct (diag_node ok f data depth p1) as [[[k2 p2]| | |] t2]; cbn [fst snd] in *; try discriminate.
          + rewrite tbind_val_t. destruct (M2 k2 p2 eq_refl) as [[Hd He] Hg]. unfold tlift, GP. cbn [fst snd].
            split; [reflexivity|]. split; [|split; [lia|reflexivity]].
            intros x e' [= _ <-]. lia.
          + rewrite tbind_err. apply gp_err. lia.
          + rewrite tbind_oof. unfold GP. cbn [fst snd]. split; [reflexivity|]. split; [discriminate|]. split; [lia|exact M4].
        - unfold tlift, GP. cbn [fst snd]. split; [reflexivity|]. split; [|split; [lia|reflexivity]].
          intros x e' [= _ <-]. lia. }
      destruct SEC as (S1 & S2 & S3 & S4).
      destruct second as [[[ks p2]| | |] t2]; cbn [fst snd] in *; try discriminate.
      2:{ rewrite tbind_err. unfold GP. cbn [fst snd]. split; [reflexivity|]. split; [discriminate|]. split; [lia|reflexivity]. }
      2:{ rewrite tbind_oof. unfold GP. cbn [fst snd]. split; [reflexivity|]. split; [discriminate|]. split; [lia|].
          intros Hf. apply S4. lia. }
      rewrite tbind_val_t. cbn [fst snd].
      destruct (S2 ks p2 eq_refl) as [[Hd He] Hg].
      destruct (IHi depth p2 per chunk) as (I1 & I2 & I3 & I4).
      destruct (diag_indef ok f data depth p2 per chunk) as [[[kids e]| | |] t3]; cbn [fst snd] in *; try discriminate.
      + rewrite tbind_val_t. destruct (I2 kids e eq_refl) as [[Hh Hi] Hj]. unfold tlift, GP. cbn [fst snd].
        split; [reflexivity|]. split; [|split; [lia|reflexivity]].
        intros x e' [= _ <-]. lia.
      + rewrite tbind_err. unfold GP. cbn [fst snd]. split; [reflexivity|]. split; [discriminate|]. split; [lia|reflexivity].
      + rewrite tbind_oof. unfold GP. cbn [fst snd]. split; [reflexivity|]. split; [discriminate|]. split; [lia|].
        intros Hf. apply I4. lia.
  Qed.

  Lemma parse_diagnostic_spec fuel :
    panics (fst (parse_diagnostic ok fuel data)) = false /\
    (snd (parse_diagnostic ok fuel data) <= L + 1)%nat /\
    ((2 * L + 1 <= fuel)%nat -> oof (fst (parse_diagnostic ok fuel data)) = false).
  Proof.
    unfold parse_diagnostic. destruct (diag_all fuel) as (Hn & _ & _). destruct (Hn 0%nat 0%nat) as (P1 & P2 & P3 & P4).
    destruct (diag_node ok fuel data 0 0) as [[[n e]| | |] t]; unfold tbind; cbn [fst snd] in *; try discriminate.
    - unfold tlift. destruct (Nat.ltb e (length data)); cbn; repeat split; auto; lia.
    - cbn. repeat split; auto; lia.
    - cbn. repeat split; auto; [lia|]. intros Hf. apply P4. lia.
  Qed.
End diag.
