(* C02 - proofs: the model's partial operations never fire, loops end within
   a fuel linear in the input, allocations are bounded. *)
From V Require Import Lib.Base Lib.Cbor Lib.CborParse Lib.CborProofs C02.Model.
Local Open Scope N_scope.

(* ---- basics ---- *)
Lemma idx_lt data i : (i < length data)%nat -> exists b, idx data i = Val b.
Proof.
  intros H. unfold idx. destruct (nth_error data i) as [b|] eqn:E; [eauto|].
  apply nth_error_None in E. lia.
Qed.

Lemma idx_bad data i : (i < length data)%nat -> bad (idx data i) = false.
Proof. intros H. destruct (idx_lt data i H) as (b & ->). reflexivity. Qed.

Lemma rd_idx_ok data : forall k from acc, (from + k <= length data)%nat -> exists v, rd_idx data from k acc = Val v.
Proof.
  induction k as [|k IH]; intros from acc H; cbn [rd_idx]; [eauto|].
  destruct (idx_lt data from) as (b & ->); [lia|]. cbn [bind]. apply IH. lia.
Qed.

Lemma slice_from_ok data a : (a <= length data)%nat -> slice_from data a = Val (skipn a data).
Proof. intros H. unfold slice_from. destruct (Nat.ltb_spec (length data) a); [lia|reflexivity]. Qed.

Lemma slice_ok data a b : (a <= b)%nat -> (b <= length data)%nat -> slice data a b = Val (firstn (b - a) (skipn a data)).
Proof.
  intros H1 H2. unfold slice. destruct (Nat.ltb_spec b a); [lia|]. destruct (Nat.ltb_spec (length data) b); [lia|]. reflexivity.
Qed.

Lemma bad_bind {A B} (r : out A) (k : A -> out B) :
  bad r = false -> (forall a, r = Val a -> bad (k a) = false) -> bad (bind r k) = false.
Proof. destruct r; cbn; intros H1 H2; try discriminate; auto. Qed.

Ltac brk :=
  repeat match goal with
  | |- context [if ?c then _ else _] => destruct c eqn:?
  end.

(* ================================================================== *)
(* ArrayInfo / MapInfo / cborArrayInfo / cborMapInfo *)
Lemma info_spec major data : exists c h ind, info major data = Val (c, h, ind) /\
  (info_invalid (c, h, ind) = false -> (1 <= h <= length data)%nat).
Proof.
  unfold info.
  destruct (Nat.eqb_spec (length data) 0) as [E0|E0].
  { do 3 eexists. split; [reflexivity|]. cbn. discriminate. }
  destruct (idx_lt data 0) as (b0 & ->); [lia|]. cbn [bind].
  destruct (negb (N.land b0 224 =? major)).
  { do 3 eexists. split; [reflexivity|]. cbn. discriminate. }
  destruct (N.land b0 31 <=? 23).
  { do 3 eexists. split; [reflexivity|]. cbn. intros _; lia. }
  assert (RD : forall k, (1 + k <= length data)%nat -> exists v, rd_idx data 1 k 0 = Val v) by (intros; apply rd_idx_ok; lia).
  destruct ((N.land b0 31 =? 24) && Nat.leb 2 (length data)) eqn:E1.
  { apply andb_true_iff in E1. destruct E1 as [_ E1]. apply Nat.leb_le in E1.
    destruct (RD 1%nat) as (v & ->); [lia|]. cbn [bind]. do 3 eexists. split; [reflexivity|]. cbn. lia. }
  destruct ((N.land b0 31 =? 25) && Nat.leb 3 (length data)) eqn:E2.
  { apply andb_true_iff in E2. destruct E2 as [_ E2]. apply Nat.leb_le in E2.
    destruct (RD 2%nat) as (v & ->); [lia|]. cbn [bind]. do 3 eexists. split; [reflexivity|]. cbn. lia. }
  destruct ((N.land b0 31 =? 26) && Nat.leb 5 (length data)) eqn:E3.
  { apply andb_true_iff in E3. destruct E3 as [_ E3]. apply Nat.leb_le in E3.
    destruct (RD 4%nat) as (v & ->); [lia|]. cbn [bind].
    destruct (max_int32 <? v); do 3 eexists; (split; [reflexivity|]); cbn; [discriminate|lia]. }
  destruct ((N.land b0 31 =? 27) && Nat.leb 9 (length data)) eqn:E4.
  { apply andb_true_iff in E4. destruct E4 as [_ E4]. apply Nat.leb_le in E4.
    destruct (RD 8%nat) as (v & ->); [lia|]. cbn [bind].
    destruct (max_int32 <? v); do 3 eexists; (split; [reflexivity|]); cbn; [discriminate|lia]. }
  destruct (N.land b0 31 =? 31); do 3 eexists; (split; [reflexivity|]); cbn; [lia|discriminate].
Qed.

Lemma info_no_bad major data : bad (info major data) = false.
Proof. destruct (info_spec major data) as (c & h & ind & -> & _). reflexivity. Qed.

(* a 4- or 8-byte claimed count above MaxInt32 is refused (all_bytes: the input is a byte string) *)
Lemma info_count_cap major data c h ind : all_bytes data -> info major data = Val (Some c, h, ind) -> c < 4294967296.
Proof.
  intros Hb. unfold info.
  destruct (Nat.eqb (length data) 0); [discriminate|].
  destruct (idx data 0) as [b0| | |] eqn:E0; cbn [bind]; try discriminate.
  assert (Hai : N.land b0 31 < 32).
  { change 31 with (N.ones 5). rewrite N.land_ones. apply N.mod_lt. discriminate. }
  destruct (negb (N.land b0 224 =? major)); [discriminate|].
  destruct (N.leb_spec (N.land b0 31) 23); [intros [= <- _ _]; lia|].
  assert (B : forall i b, idx data i = Val b -> b < 256).
  { intros i b. unfold idx. destruct (nth_error data i) eqn:En; [|discriminate]. intros [= <-].
    eapply Forall_forall in Hb; [exact Hb|]. eapply nth_error_In; eauto. }
  destruct ((N.land b0 31 =? 24) && Nat.leb 2 (length data)).
  { cbn [rd_idx]. destruct (idx data 1) as [b1| | |] eqn:E1; cbn [bind]; try discriminate.
    intros [= <- _ _]. specialize (B _ _ E1). lia. }
  destruct ((N.land b0 31 =? 25) && Nat.leb 3 (length data)).
  { cbn [rd_idx]. destruct (idx data 1) as [b1| | |] eqn:E1; cbn [bind]; try discriminate.
    destruct (idx data 2) as [b2| | |] eqn:E2; cbn [bind]; try discriminate.
    intros [= <- _ _]. pose proof (B _ _ E1). pose proof (B _ _ E2). lia. }
  destruct ((N.land b0 31 =? 26) && Nat.leb 5 (length data)).
  { destruct (rd_idx data 1 4 0) as [v| | |]; cbn [bind]; try discriminate.
    destruct (N.ltb_spec max_int32 v); [discriminate|]. intros [= <- _ _]. unfold max_int32 in *. lia. }
  destruct ((N.land b0 31 =? 27) && Nat.leb 9 (length data)).
  { destruct (rd_idx data 1 8 0) as [v| | |]; cbn [bind]; try discriminate.
    destruct (N.ltb_spec max_int32 v); [discriminate|]. intros [= <- _ _]. unfold max_int32 in *. lia. }
  destruct (N.land b0 31 =? 31); [intros [= <- _ _]; lia|discriminate].
Qed.

(* ================================================================== *)
(* DecodeArrayHeader / DecodeMapHeader, cborArrayHeaderSizeFromBytes,
   parseCollectionHeader, parseTagHeader *)
Lemma rd_at data from k acc : (from + k <= length data)%nat -> exists v, rd_idx data from k acc = Val v.
Proof. apply rd_idx_ok. Qed.

Ltac rd_step H :=
  match goal with
  | |- context [rd_idx ?d ?f ?k ?a] =>
      let v := fresh "v" in let E := fresh "E" in
      destruct (rd_at d f k a) as (v & E); [lia|rewrite E; cbn [bind]]
  end.

Lemma decode_header_spec major data abs :
  bad (decode_header major data abs) = false /\
  forall l h, decode_header major data abs = Val (l, h) -> (1 <= h /\ abs + h <= length data)%nat /\ l <= max_int32 \/ (1 <= h /\ abs + h <= length data)%nat.
Proof.
  unfold decode_header.
  destruct (Nat.leb_spec (length data) abs) as [L|L]; [split; [reflexivity|discriminate]|].
  destruct (idx_lt data abs L) as (b0 & ->). cbn [bind].
  destruct (negb (N.land b0 224 =? major)); [split; [reflexivity|discriminate]|].
  set (ai := N.land b0 31).
  assert (FIN : forall (r : N * nat), (1 <= snd r)%nat ->
     bad (let newpos := (abs + snd r)%nat in if Nat.ltb (length data) newpos then Err else _ <- slice_from data newpos ;; Val r) = false /\
     forall l h, (let newpos := (abs + snd r)%nat in if Nat.ltb (length data) newpos then Err else _ <- slice_from data newpos ;; Val r) = Val (l, h) ->
       (1 <= h /\ abs + h <= length data)%nat).
  { intros r Hr. cbv zeta. destruct (Nat.ltb_spec (length data) (abs + snd r)); [split; [reflexivity|discriminate]|].
    rewrite slice_from_ok by lia. cbn [bind]. split; [reflexivity|]. intros l h [= ->]. cbn [snd] in *. lia. }
  assert (G : forall (x : out (N * nat)), (x = Err \/ exists r, x = Val r /\ (1 <= snd r)%nat) ->
     bad (r <- x ;; let newpos := (abs + snd r)%nat in if Nat.ltb (length data) newpos then Err else _ <- slice_from data newpos ;; Val r) = false /\
     forall l h, (r <- x ;; let newpos := (abs + snd r)%nat in if Nat.ltb (length data) newpos then Err else _ <- slice_from data newpos ;; Val r) = Val (l, h) ->
       (1 <= h /\ abs + h <= length data)%nat).
  { intros x [->|(r & -> & Hr)]; cbn [bind]; [split; [reflexivity|discriminate]|]. apply FIN; exact Hr. }
  match goal with |- bad (r <- ?x ;; _) = false /\ _ => destruct (G x) as [G1 G2] end.
  { destruct (ai <? 24); [right; eexists; split; [reflexivity|cbn; lia]|].
    destruct (ai =? 24).
    { destruct (Nat.ltb_spec (length data) (abs + 2)); [left; reflexivity|]. rd_step tt. right. eexists. split; [reflexivity|cbn; lia]. }
    destruct (ai =? 25).
    { destruct (Nat.ltb_spec (length data) (abs + 3)); [left; reflexivity|]. rd_step tt. right. eexists. split; [reflexivity|cbn; lia]. }
    destruct (ai =? 26).
    { destruct (Nat.ltb_spec (length data) (abs + 5)); [left; reflexivity|]. rd_step tt.
      destruct (max_int32 <? v); [left; reflexivity|]. right. eexists. split; [reflexivity|cbn; lia]. }
    destruct (ai =? 27).
    { destruct (Nat.ltb_spec (length data) (abs + 9)); [left; reflexivity|]. rd_step tt.
      destruct (max_int32 <? v); [left; reflexivity|]. right. eexists. split; [reflexivity|cbn; lia]. }
    left; reflexivity. }
  split; [exact G1|]. intros l h E. right. eapply G2; eauto.
Qed.

Lemma header_size_no_bad data off : bad (header_size_from_bytes data off) = false.
Proof.
  unfold header_size_from_bytes. destruct (Nat.leb_spec (length data) off) as [L|L]; [reflexivity|].
  destruct (idx_lt data off L) as (b0 & ->). cbn [bind]. brk; reflexivity.
Qed.

Lemma collection_header_spec data off :
  bad (collection_header data off) = false /\
  forall l h ind, collection_header data off = Val (l, h, ind) -> (1 <= h <= 9)%nat /\ (off < length data)%nat.
Proof.
  unfold collection_header. destruct (Nat.leb_spec (length data) off) as [L|L]; [split; [reflexivity|discriminate]|].
  destruct (idx_lt data off L) as (b0 & ->). cbn [bind].
  destruct (N.land b0 31 <? 24); [split; [reflexivity|intros ? ? ? [= <- <- <-]; lia]|].
  destruct (N.land b0 31 =? 24).
  { destruct (Nat.leb_spec (length data) (off + 1)); [split; [reflexivity|discriminate]|]. rd_step tt.
    split; [reflexivity|intros ? ? ? [= <- <- <-]; lia]. }
  destruct (N.land b0 31 =? 25).
  { destruct (Nat.leb_spec (length data) (off + 2)); [split; [reflexivity|discriminate]|]. rd_step tt.
    split; [reflexivity|intros ? ? ? [= <- <- <-]; lia]. }
  destruct (N.land b0 31 =? 26).
  { destruct (Nat.leb_spec (length data) (off + 4)); [split; [reflexivity|discriminate]|]. rd_step tt.
    destruct (max_int32 <? v); (split; [reflexivity|]); [discriminate|intros ? ? ? [= <- <- <-]; lia]. }
  destruct (N.land b0 31 =? 27).
  { destruct (Nat.leb_spec (length data) (off + 8)); [split; [reflexivity|discriminate]|]. rd_step tt.
    destruct (max_int32 <? v); (split; [reflexivity|]); [discriminate|intros ? ? ? [= <- <- <-]; lia]. }
  destruct (N.land b0 31 =? 31); (split; [reflexivity|]); [intros ? ? ? [= <- <- <-]; lia|discriminate].
Qed.

Lemma tag_header_spec data off :
  bad (tag_header data off) = false /\
  forall t h, tag_header data off = Val (t, h) -> (1 <= h <= 9)%nat /\ (off < length data)%nat.
Proof.
  unfold tag_header. destruct (Nat.leb_spec (length data) off) as [L|L]; [split; [reflexivity|discriminate]|].
  destruct (idx_lt data off L) as (b0 & ->). cbn [bind].
  destruct (negb (N.land b0 224 =? 192)); [split; [reflexivity|discriminate]|].
  destruct (N.land b0 31 <? 24); [split; [reflexivity|intros ? ? [= <- <-]; lia]|].
  destruct (N.land b0 31 =? 24).
  { destruct (Nat.leb_spec (length data) (off + 1)); [split; [reflexivity|discriminate]|]. rd_step tt.
    split; [reflexivity|intros ? ? [= <- <-]; lia]. }
  destruct (N.land b0 31 =? 25).
  { destruct (Nat.leb_spec (length data) (off + 2)); [split; [reflexivity|discriminate]|]. rd_step tt.
    split; [reflexivity|intros ? ? [= <- <-]; lia]. }
  destruct (N.land b0 31 =? 26).
  { destruct (Nat.leb_spec (length data) (off + 4)); [split; [reflexivity|discriminate]|]. rd_step tt.
    split; [reflexivity|intros ? ? [= <- <-]; lia]. }
  destruct (N.land b0 31 =? 27).
  { destruct (Nat.leb_spec (length data) (off + 8)); [split; [reflexivity|discriminate]|]. rd_step tt.
    split; [reflexivity|intros ? ? [= <- <-]; lia]. }
  split; [reflexivity|discriminate].
Qed.

(* ================================================================== *)
(* RawBytes: total for every int64 offset / length (the overflow test is there) *)
Lemma raw_bytes_no_bad data offset len : bad (raw_bytes data offset len) = false.
Proof.
  unfold raw_bytes. destruct ((offset <? 0)%Z || (len <? 0)%Z) eqn:E1; [reflexivity|].
  apply orb_false_iff in E1. destruct E1 as [E1 E2].
  destruct ((wrap64 (offset + len) <? offset)%Z || (Z.of_nat (length data) <? wrap64 (offset + len))%Z) eqn:E3; [reflexivity|].
  apply orb_false_iff in E3. destruct E3 as [E3 E4]. rewrite E1, E3, E4. reflexivity.
Qed.

(* Advance: safe when position + n does not overflow int64 ... *)
Lemma advance_no_bad data pos n : (Z.of_nat pos + n <= max_int64)%Z -> bad (advance data pos n) = false.
Proof.
  intros H. unfold advance. destruct (Z.ltb_spec n 0); [reflexivity|].
  assert (W : wrap64 (Z.of_nat pos + n) = (Z.of_nat pos + n)%Z).
  { unfold wrap64, max_int64 in *. rewrite Z.mod_small; lia. }
  rewrite W. destruct (Z.ltb_spec (Z.of_nat (length data)) (Z.of_nat pos + n)); [reflexivity|].
  destruct (Z.ltb_spec (Z.of_nat pos + n) 0); [lia|]. reflexivity.
Qed.
(* ... and the Go text has no overflow test: a caller-supplied n near MaxInt64 wraps *)
Lemma advance_wraps : advance [0; 0] 1 max_int64 = Panic.
Proof. vm_compute. reflexivity. Qed.

(* ================================================================== *)
(* ListLength / DecodeIdFromList *)
Lemma list_length_no_bad ll data : bad (list_length ll data) = false.
Proof.
  unfold list_length. destruct (Nat.eqb_spec (length data) 0); [reflexivity|].
  destruct (idx_lt data 0) as (b0 & ->); [lia|]. cbn [bind].
  destruct ((128 <=? b0) && (b0 <=? 151)); [reflexivity|]. destruct (ll data); reflexivity.
Qed.

Lemma decode_id_no_bad ll li data : bad (decode_id_from_list ll li data) = false.
Proof.
  unfold decode_id_from_list. destruct (Nat.ltb_spec (length data) 2); [reflexivity|].
  pose proof (list_length_no_bad ll data) as HL.
  destruct (list_length ll data) as [len| | |]; cbn [bind]; try discriminate; try reflexivity.
  destruct (len =? 0); [reflexivity|].
  destruct (idx_lt data 0) as (b0 & ->); [lia|]. cbn [bind].
  destruct ((128 <=? b0) && (b0 <=? 151) && (len <? 23)).
  - destruct (idx_lt data 1) as (b1 & ->); [lia|]. cbn [bind]. destruct (b1 <=? 23); [reflexivity|]. destruct (li data); reflexivity.
  - cbn [bind]. destruct (li data); reflexivity.
Qed.

(* ================================================================== *)
(* address.go: readVarUint / AddressPayloadPointer.decode / populateFromBytes *)
Lemma read_varuint_spec data : forall fuel off acc steps,
  (length data - off < fuel)%nat ->
  bad (read_varuint fuel data off acc steps) = false /\
  forall v o k, read_varuint fuel data off acc steps = Val (v, o, k) ->
    (off < o <= length data)%nat /\ (k = steps + (o - off))%nat.
Proof.
  induction fuel as [|f IH]; intros off acc steps Hf; [lia|].
  cbn [read_varuint]. destruct (Nat.ltb_spec off (length data)) as [L|L]; [|split; [reflexivity|discriminate]].
  destruct (idx_lt data off L) as (b & ->). cbn [bind].
  destruct (N.land b 128 =? 0).
  - split; [reflexivity|]. intros v o k [= <- <- <-]. lia.
  - destruct (IH (S off) ((acc * 128) mod two64 + N.land b 127) (S steps)) as [B R]; [lia|]. split; [exact B|].
    intros v o k E. destruct (R v o k E) as [R1 R2]. lia.
Qed.

Lemma decode_pointer_spec data fuel : (length data < fuel)%nat ->
  bad (decode_pointer fuel data) = false /\
  forall s t c o k, decode_pointer fuel data = Val (s, t, c, o, k) -> (3 <= o <= length data)%nat /\ (k = o)%nat.
Proof.
  intros Hf. unfold decode_pointer.
  destruct (read_varuint_spec data fuel 0 0 0) as [B1 R1]; [lia|].
  destruct (read_varuint fuel data 0 0 0) as [[[s o1] k1]| | |] eqn:E1; cbn [bind]; try discriminate; try (split; [reflexivity|discriminate]).
  destruct (R1 _ _ _ eq_refl) as [H1 K1].
  destruct (read_varuint_spec data fuel o1 0 k1) as [B2 R2]; [lia|].
  destruct (read_varuint fuel data o1 0 k1) as [[[t o2] k2]| | |] eqn:E2; cbn [bind]; try discriminate; try (split; [reflexivity|discriminate]).
  destruct (R2 _ _ _ eq_refl) as [H2 K2].
  destruct (read_varuint_spec data fuel o2 0 k2) as [B3 R3]; [lia|].
  destruct (read_varuint fuel data o2 0 k2) as [[[c o3] k3]| | |] eqn:E3; cbn [bind]; try discriminate; try (split; [reflexivity|discriminate]).
  destruct (R3 _ _ _ eq_refl) as [H3 K3].
  split; [reflexivity|]. intros ? ? ? ? ? [= <- <- <- <- <-]. lia.
Qed.

Lemma take_hash_no_bad p : bad (take_hash p) = false /\ forall h r, take_hash p = Val (h, r) -> (length r + hash_size = length p)%nat.
Proof.
  unfold take_hash. destruct (Nat.ltb_spec (length p) hash_size) as [L|L]; [split; [reflexivity|discriminate]|].
  rewrite slice_ok by lia. cbn [bind]. rewrite Nat.sub_0_r. cbn [skipn].
  rewrite firstn_length_le by lia. rewrite Nat.eqb_refl. cbn [bind]. rewrite slice_from_ok by lia. cbn [bind].
  split; [reflexivity|]. intros h r E. assert (Er : r = skipn hash_size p) by congruence. rewrite Er, skipn_length. lia.
Qed.

Lemma populate_no_bad byron kt data fuel : (length data < fuel)%nat -> bad (populate byron kt fuel data) = false.
Proof.
  intros Hf. unfold populate. destruct (Nat.eqb_spec (length data) 0) as [E0|E0]; [reflexivity|].
  destruct (idx_lt data 0) as (hd & ->); [lia|]. cbn [bind].
  set (ty := N.shiftr (N.land hd 240) 4). set (net := N.land hd 15).
  destruct (ty =? 8); [destruct (byron data); reflexivity|].
  destruct (negb ((net =? 0) || (net =? 1))); [reflexivity|].
  destruct (negb (known_type ty)); [reflexivity|].
  rewrite slice_from_ok by lia. cbn [bind].
  assert (L1 : (length (skipn 1 data) < fuel)%nat) by (rewrite skipn_length; lia).
  set (payload := skipn 1 data) in *.
  assert (ST : forall pay p1, (length p1 < fuel)%nat ->
    bad (r2 <- match stake_kind ty with
           | SK | SS => hr <- take_hash p1 ;; Val (Some (fst hr), None, snd hr)
           | SP => d <- decode_pointer fuel p1 ;;
                   (let '(s, t, c, n, _) := d in rest <- slice_from p1 n ;; Val (None, Some (s, t, c), rest))
           | SN => Val (None, None, p1) end ;;
         (let '(stk, ptr, p2) := r2 in
          match p2 with
          | [] => Val (Some (mkS ty net pay stk ptr []))
          | _ => if negb (net =? 1) || negb (kt p2) then Err else Val (Some (mkS ty net pay stk ptr p2))
          end)) = false).
  { intros pay p1 Lp.
    assert (FIN : forall stk ptr p2, bad (match p2 with
          | [] => Val (Some (mkS ty net pay stk ptr []))
          | _ => if negb (net =? 1) || negb (kt p2) then Err else Val (Some (mkS ty net pay stk ptr p2))
          end) = false).
    { intros stk ptr [|x r]; [reflexivity|]. destruct (negb (net =? 1) || negb (kt (x :: r))); reflexivity. }
    destruct (stake_kind ty).
    - destruct (take_hash_no_bad p1) as [B _]. destruct (take_hash p1) as [[h r]| | |]; cbn [bind]; try discriminate; try reflexivity. apply FIN.
    - destruct (take_hash_no_bad p1) as [B _]. destruct (take_hash p1) as [[h r]| | |]; cbn [bind]; try discriminate; try reflexivity. apply FIN.
    - destruct (decode_pointer_spec p1 fuel Lp) as [B R].
      destruct (decode_pointer fuel p1) as [[[[[s t] c] n] k]| | |]; cbn [bind]; try discriminate; try reflexivity.
      destruct (R _ _ _ _ _ eq_refl) as [Hn _]. rewrite slice_from_ok by lia. cbn [bind]. apply FIN.
    - cbn [bind]. apply FIN. }
  destruct (pay_kind ty).
  - destruct (take_hash_no_bad payload) as [B R]. destruct (take_hash payload) as [[h r]| | |]; cbn [bind]; try discriminate; try reflexivity.
    cbn [fst snd]. apply ST. specialize (R _ _ eq_refl). lia.
  - destruct (take_hash_no_bad payload) as [B R]. destruct (take_hash payload) as [[h r]| | |]; cbn [bind]; try discriminate; try reflexivity.
    cbn [fst snd]. apply ST. specialize (R _ _ eq_refl). lia.
  - cbn [bind]. apply ST. exact L1.
Qed.

(* ================================================================== *)
(* the stream decoder: a successful operation consumed one item of the rest *)
Lemma sd_next_bounds ok data pos i n : sd_next ok data pos = Some (i, n) -> (1 <= n /\ pos + n <= length data)%nat.
Proof.
  unfold sd_next. destruct (parse_full (skipn pos data)) as [j rest| |] eqn:E; try discriminate.
  destruct (ok j); [|discriminate]. intros [= <- <-].
  apply parse_consumes in E. rewrite skipn_length in *. lia.
Qed.

Lemma skipn_skipn_len {A} (l : list A) a : length (skipn a l) = (length l - a)%nat.
Proof. apply skipn_length. Qed.

(* ---- setArrayItemCbor ---- *)
Definition st_of (t : traced) : out unit := snd (fst t).
Definition steps_of (t : traced) : nat := snd t.
Definition cbs_of (t : traced) : list cb := fst (fst t).

Lemma set_items_spec ok kind data hs indef count expected : (hs <= length data)%nat ->
  forall fuel pos i acc steps, (hs + pos <= length data)%nat -> (length data - (hs + pos) < fuel)%nat ->
  let t := set_items ok fuel kind data hs indef count expected pos i acc steps in
  bad (st_of t) = false /\ (steps_of t <= steps + (length data - (hs + pos)) + 1)%nat.
Proof.
  intros Hhs. induction fuel as [|f IH]; intros pos i acc steps Hp Hf; [lia|].
  cbn [set_items]. cbv zeta.
  assert (FIN : bad (st_of (acc, (if Nat.eqb i expected then Val tt else Err), steps)) = false /\
                (steps_of (acc, (if Nat.eqb i expected then Val tt else Err : out unit), steps) <= steps + (length data - (hs + pos)) + 1)%nat).
  { unfold st_of, steps_of. cbn [fst snd]. split; [destruct (Nat.eqb i expected); reflexivity|lia]. }
  destruct (negb (indef || (N.of_nat i <? count))); [exact FIN|].
  assert (BODY : let t := match sd_next ok (skipn hs data) pos with
          | None => (acc, Err, S steps)
          | Some (_, n) =>
              if Nat.leb expected i then (acc, Err, S steps) else
              match slice data (hs + pos) (hs + pos + n) with
              | Val s => set_items ok f kind data hs indef count expected (pos + n) (S i) (acc ++ [(kind, i, s)]) (S steps)
              | _ => (acc, Panic, S steps)
              end
          end in bad (st_of t) = false /\ (steps_of t <= steps + (length data - (hs + pos)) + 1)%nat).
  { cbv zeta. destruct (sd_next ok (skipn hs data) pos) as [[it n]|] eqn:E.
    - apply sd_next_bounds in E. rewrite skipn_length in E.
      destruct (Nat.leb expected i); [unfold st_of, steps_of; cbn; split; [reflexivity|lia]|].
      rewrite slice_ok by lia.
      destruct (IH (pos + n)%nat (S i) (acc ++ [(kind, i, firstn (hs + pos + n - (hs + pos)) (skipn (hs + pos) data))]) (S steps)) as [B S']; [lia|lia|].
      split; [exact B|]. eapply Nat.le_trans; [exact S'|]. lia.
    - unfold st_of, steps_of; cbn; split; [reflexivity|lia]. }
  destruct indef.
  - destruct (Nat.leb_spec (length data) (hs + pos)) as [L|L]; [exact FIN|].
    destruct (idx_lt data (hs + pos) L) as (b & ->). cbn [bind]. destruct (b =? 255); [exact FIN|exact BODY].
  - exact BODY.
Qed.

Lemma set_array_item_spec ok kind data expected acc fuel : (length data < fuel)%nat ->
  let t := set_array_item_cbor ok fuel kind data expected acc in
  bad (st_of t) = false /\ (steps_of t <= length data + 1)%nat.
Proof.
  intros Hf. unfold set_array_item_cbor, array_info.
  destruct (info_spec 128 data) as (c & h & ind & -> & Hh).
  destruct (info_invalid (c, h, ind)) eqn:Ei; [unfold st_of, steps_of; cbn; split; [reflexivity|lia]|].
  specialize (Hh eq_refl).
  destruct (negb ind && negb (match c with Some c0 => c0 | None => 0 end =? N.of_nat expected)); [unfold st_of, steps_of; cbn; split; [reflexivity|lia]|].
  rewrite slice_from_ok by lia.
  destruct (set_items_spec ok kind data h ind (match c with Some c0 => c0 | None => 0 end) expected) with (fuel := fuel) (pos := 0%nat) (i := 0%nat) (acc := acc) (steps := 0%nat) as [B S']; try lia.
  split; [exact B|]. lia.
Qed.

Lemma decode_raw_spec ok data pos : (pos <= length data)%nat ->
  bad (decode_raw ok data pos) = false /\
  forall s p, decode_raw ok data pos = Val (s, p) -> (pos < p <= length data)%nat /\ (length s = p - pos)%nat.
Proof.
  intros Hp. unfold decode_raw. destruct (sd_next ok data pos) as [[it n]|] eqn:E; [|split; [reflexivity|discriminate]].
  apply sd_next_bounds in E. rewrite slice_ok by lia. cbn [bind]. split; [reflexivity|].
  intros s p [= <- <-]. split; [lia|]. rewrite firstn_length, skipn_length. lia.
Qed.

Lemma extract_and_set_spec ok data eb ew meta fuel : (length data < fuel)%nat ->
  let t := extract_and_set ok fuel data eb ew meta in
  bad (st_of t) = false /\ (steps_of t <= length data + 2)%nat.
Proof.
  intros Hf. unfold extract_and_set, array_info.
  destruct (info_spec 128 data) as (c & h & ind & -> & Hh).
  destruct (info_invalid (c, h, ind)) eqn:Ei; [unfold st_of, steps_of; cbn; split; [reflexivity|lia]|].
  specialize (Hh eq_refl).
  destruct (negb ind && ((match c with Some c0 => c0 | None => 0 end) <? 3)); [unfold st_of, steps_of; cbn; split; [reflexivity|lia]|].
  rewrite slice_from_ok by lia. set (body := skipn h data).
  assert (Lb : (length body = length data - h)%nat) by apply skipn_length.
  destruct (sd_next ok body 0) as [[i0 n0]|] eqn:E0; [|unfold st_of, steps_of; cbn; split; [reflexivity|lia]].
  apply sd_next_bounds in E0.
  destruct (decode_raw_spec ok body n0) as [B1 R1]; [lia|].
  destruct (decode_raw ok body n0) as [[bodies p1]| | |]; try discriminate; try (unfold st_of, steps_of; cbn; split; [reflexivity|lia]).
  destruct (R1 _ _ eq_refl) as [P1 L1].
  destruct (decode_raw_spec ok body p1) as [B2 R2]; [lia|].
  destruct (decode_raw ok body p1) as [[wits p2]| | |]; try discriminate; try (unfold st_of, steps_of; cbn; split; [reflexivity|lia]).
  destruct (R2 _ _ eq_refl) as [P2 L2].
  set (metacb := if meta && (ind || (3 <? match c with Some c0 => c0 | None => 0 end)) then
                   match decode_raw ok body p2 with Val (m, _) => [(0, 0%nat, m)] | _ => [] end else []).
  destruct (set_array_item_spec ok 1 bodies eb metacb fuel) as [B3 S3]; [lia|].
  destruct (set_array_item_cbor ok fuel 1 bodies eb metacb) as [[acc st] k1] eqn:E3.
  unfold st_of, steps_of in B3, S3. cbn [fst snd] in B3, S3.
  destruct st as [u| | |]; try discriminate; try (unfold st_of, steps_of; cbn; split; [reflexivity|lia]).
  destruct (set_array_item_spec ok 2 wits ew acc fuel) as [B4 S4]; [lia|].
  destruct (set_array_item_cbor ok fuel 2 wits ew acc) as [[acc2 st2] k2] eqn:E4.
  unfold st_of, steps_of in *. cbn [fst snd] in *. split; [exact B4|]. lia.
Qed.

(* ---- the shared loop of the extract*Offsets walkers ---- *)
Lemma stream_ops_bounds data : forall oks pos pos', oks <> [] -> (pos <= length data)%nat ->
  stream_ops oks data pos = Some pos' -> (pos < pos' <= length data)%nat.
Proof.
  induction oks as [|o r IH]; intros pos pos' Hne Hp; [congruence|].
  cbn [stream_ops]. destruct (sd_next o data pos) as [[it n]|] eqn:E; [|discriminate].
  apply sd_next_bounds in E. destruct r as [|o2 r2].
  - cbn [stream_ops]. intros [= <-]. lia.
  - intros H. apply IH in H; [lia|discriminate|lia].
Qed.

Lemma walk_items_spec oks data hs indef count : oks <> [] -> (hs <= length data)%nat ->
  forall fuel pos i, (hs + pos <= length data)%nat -> (length data - (hs + pos) < fuel)%nat ->
  bad (walk_items fuel oks data hs indef count pos i) = false /\
  forall k, walk_items fuel oks data hs indef count pos i = Val k -> (k <= i + (length data - (hs + pos)))%nat.
Proof.
  intros Hne Hhs. induction fuel as [|f IH]; intros pos i Hp Hf; [lia|].
  cbn [walk_items].
  destruct (negb (indef || (N.of_nat i <? count))); [split; [reflexivity|intros k [= <-]; lia]|].
  assert (BODY : bad (match stream_ops oks (skipn hs data) pos with
                      | None => Val i | Some pos' => walk_items f oks data hs indef count pos' (S i) end) = false /\
                 forall k, match stream_ops oks (skipn hs data) pos with
                      | None => Val i | Some pos' => walk_items f oks data hs indef count pos' (S i) end = Val k ->
                   (k <= i + (length data - (hs + pos)))%nat).
  { destruct (stream_ops oks (skipn hs data) pos) as [pos'|] eqn:E; [|split; [reflexivity|intros k [= <-]; lia]].
    apply stream_ops_bounds in E; [|exact Hne|rewrite skipn_length; lia]. rewrite skipn_length in E.
    destruct (IH pos' (S i)) as [B R]; [lia|lia|]. split; [exact B|]. intros k Hk. specialize (R k Hk). lia. }
  destruct indef.
  - destruct (Nat.leb_spec (length data) (hs + pos)) as [L|L]; cbn [bind]; [split; [reflexivity|intros k [= <-]; lia]|].
    destruct (idx_lt data (hs + pos) L) as (b & ->). cbn [bind]. destruct (b =? 255); [split; [reflexivity|intros k [= <-]; lia]|exact BODY].
  - cbn [bind]. exact BODY.
Qed.

Lemma walker_spec major oks data fuel : oks <> [] -> (length data < fuel)%nat ->
  bad (walker major oks fuel data) = false /\ forall k, walker major oks fuel data = Val k -> (k <= length data)%nat.
Proof.
  intros Hne Hf. unfold walker. destruct (info_spec major data) as (c & h & ind & -> & Hh). cbn [bind].
  destruct (info_invalid (c, h, ind)) eqn:Ei; [split; [reflexivity|intros k [= <-]; lia]|].
  specialize (Hh eq_refl). rewrite slice_from_ok by lia. cbn [bind].
  destruct (walk_items_spec oks data h ind (match c with Some c0 => c0 | None => 0 end) Hne) with (fuel := fuel) (pos := 0%nat) (i := 0%nat) as [B R]; try lia.
  split; [exact B|]. intros k Hk. specialize (R k Hk). lia.
Qed.

Lemma redeemer_inner_no_bad v : bad (redeemer_inner v) = false.
Proof.
  unfold redeemer_inner, array_info. destruct (info_spec 128 v) as (c & h & ind & -> & _). cbn [bind].
  destruct (Nat.leb_spec (length v) h); [reflexivity|]. rewrite slice_from_ok by lia. reflexivity.
Qed.

Lemma adjust_output_no_bad body bo op : bad (adjust_output_offset body bo op) = false.
Proof.
  unfold adjust_output_offset. set (bi := N.to_nat ((op + two32 - bo mod two32) mod two32)).
  destruct (Nat.ltb_spec bi (length body)) as [L|L]; [|reflexivity].
  destruct (idx_lt body bi L) as (b & ->). cbn [bind].
  destruct (negb (is_out_start b) && Nat.ltb 0 bi) eqn:E; [|reflexivity].
  apply andb_true_iff in E. destruct E as [_ E]. apply Nat.ltb_lt in E.
  destruct (idx_lt body (bi - 1)) as (p & ->); [lia|]. reflexivity.
Qed.

(* ================================================================== *)
(* muxer.readLoop framing *)
Lemma idx_byte data i b : all_bytes data -> idx data i = Val b -> b < 256.
Proof.
  intros Hb. unfold idx. destruct (nth_error data i) eqn:En; [|discriminate]. intros [= <-].
  eapply Forall_forall in Hb; [exact Hb|]. eapply nth_error_In; eauto.
Qed.

Definition sumN (l : list N) : N := fold_right N.add 0 l.

Lemma mux_read_spec : forall fuel conn segs allocs, all_bytes conn -> (length conn < 9 * fuel)%nat ->
  bad (mux_read fuel conn segs allocs) = false /\
  forall s a, mux_read fuel conn segs allocs = Val (s, a) ->
    (forall x, In x a -> In x allocs \/ x <= 65535) /\
    sumN a <= sumN allocs + N.of_nat (length conn) + 65535 /\
    (9 * (s - segs) <= length conn)%nat.
Proof.
  induction fuel as [|f IH]; intros conn segs allocs Hb Hf; [lia|].
  cbn [mux_read]. destruct (Nat.ltb_spec (length conn) 8) as [L|L].
  { split; [reflexivity|]. intros s a [= <- <-]. repeat split; [auto|lia|lia]. }
  destruct (idx_lt conn 6) as (hi & Ehi); [lia|]. destruct (idx_lt conn 7) as (lo & Elo); [lia|].
  rewrite Ehi, Elo. cbn [bind].
  pose proof (idx_byte _ _ _ Hb Ehi). pose proof (idx_byte _ _ _ Hb Elo).
  destruct (N.eqb_spec (hi * 256 + lo) 0) as [Z0|Z0].
  { split; [reflexivity|]. intros s a [= <- <-]. repeat split; [auto|lia|lia]. }
  destruct (Nat.ltb_spec (length conn) (8 + N.to_nat (hi * 256 + lo))) as [L2|L2].
  { split; [reflexivity|]. intros s a [= <- <-]. repeat split.
    - intros x [<-|Hx]; [right; lia|left; exact Hx].
    - cbn [sumN fold_right]. fold (sumN allocs). lia.
    - lia. }
  assert (Hb' : all_bytes (skipn (8 + N.to_nat (hi * 256 + lo)) conn)).
  { unfold all_bytes in *. rewrite <- (firstn_skipn (8 + N.to_nat (hi * 256 + lo)) conn) in Hb. apply Forall_app in Hb. tauto. }
  destruct (IH (skipn (8 + N.to_nat (hi * 256 + lo)) conn) (S segs) ((hi * 256 + lo) :: allocs) Hb') as [B R].
  { rewrite skipn_length. lia. }
  split; [exact B|]. intros s a E. destruct (R s a E) as (R1 & R2 & R3). rewrite skipn_length in *. repeat split.
  - intros x Hx. destruct (R1 x Hx) as [[<-|Hi]|Hle]; [right; lia|left; exact Hi|right; exact Hle].
  - cbn [sumN fold_right] in R2. fold (sumN allocs) in R2. lia.
  - lia.
Qed.

(* protocol.readLoop buffer handling; the library contract: NumBytesRead <= len(buffer) *)
Section proto.
  Variable lib : bytes -> option (nat * nat).
  Hypothesis lib_reads_within : forall buf n k, lib buf = Some (n, k) -> (n <= length buf)%nat.

  Lemma proto_read_spec : forall fuel buf msgs, (length buf < fuel)%nat ->
    bad (proto_read lib fuel buf msgs) = false /\
    forall m, proto_read lib fuel buf msgs = Val m -> (m <= msgs + length buf)%nat.
  Proof.
    induction fuel as [|f IH]; intros buf msgs Hf; [lia|].
    cbn [proto_read]. destruct (Nat.eqb_spec (length buf) 0); [split; [reflexivity|intros m [= <-]; lia]|].
    destruct (lib buf) as [[n' k]|] eqn:El; [|split; [reflexivity|intros m [= <-]; lia]].
    pose proof (lib_reads_within _ _ _ El) as Hn.
    destruct (Nat.eqb_spec n' 0) as [N0|N0]; cbn [orb]; [split; [reflexivity|intros m [= <-]; lia]|].
    destruct (Nat.eqb_spec k 0) as [K0|K0]; [split; [reflexivity|intros m [= <-]; lia]|].
    destruct (Nat.ltb_spec 0 k); [|lia]. cbn [bind]. rewrite slice_ok by lia. cbn [bind].
    destruct (Nat.ltb_spec n' (length buf)).
    - rewrite slice_from_ok by lia. cbn [bind]. destruct (IH (skipn n' buf) (S msgs)) as [B R]; [rewrite skipn_length; lia|].
      split; [exact B|]. intros m E. specialize (R m E). rewrite skipn_length in R. lia.
    - split; [reflexivity|intros m [= <-]; lia].
  Qed.
End proto.

(* ================================================================== *)
(* cbor/diagnostic.go: index safety of parseDiagnosticNode and its loops,
   for EVERY fuel (termination of this walker is not proved here) *)
Definition panics {A} (r : out A) : bool := match r with Panic => true | _ => false end.

Lemma panics_bind {A B} (r : out A) (k : A -> out B) :
  panics r = false -> (forall a, r = Val a -> panics (k a) = false) -> panics (bind r k) = false.
Proof. destruct r; cbn; intros H1 H2; try discriminate; auto. Qed.

Lemma bind_val {A B} (r : out A) (k : A -> out B) v : bind r k = Val v -> exists a, r = Val a /\ k a = Val v.
Proof. destruct r; cbn; try discriminate. eauto. Qed.

Lemma bad_panics {A} (r : out A) : bad r = false -> panics r = false.
Proof. destruct r; cbn; congruence. Qed.

Section diag.
  Variable ok : item -> bool.
  Variable data : bytes.
  Let L := length data.

  Definition node_ok (fuel : nat) := forall depth pos,
    panics (diag_node ok fuel data depth pos) = false /\
    forall n e, diag_node ok fuel data depth pos = Val (n, e) -> (pos < e <= L)%nat.
  Definition count_ok (fuel : nat) := forall depth pos k, (pos <= L)%nat ->
    panics (diag_count ok fuel data depth pos k) = false /\
    forall ks e, diag_count ok fuel data depth pos k = Val (ks, e) -> (pos <= e <= L)%nat.
  Definition indef_ok (fuel : nat) := forall depth pos per chunk,
    panics (diag_indef ok fuel data depth pos per chunk) = false /\
    forall ks e, diag_indef ok fuel data depth pos per chunk = Val (ks, e) -> (pos < e <= L)%nat.

  (* a container / tag / chunked string node: header consumed, children parsed, data[start:end] *)
  Lemma wrap_ok {K} (pos hl : nat) (r : out (K * nat)) (mk : K -> list dnode) :
    (1 <= hl)%nat ->
    panics r = false -> (forall ks e, r = Val (ks, e) -> (pos + hl <= e <= L)%nat) ->
    let res := (x <- r ;; let '(kids, e) := x in _ <- slice data pos e ;; Val (DN pos (e - pos) (mk kids), e)) in
    panics res = false /\ forall n e, res = Val (n, e) -> (pos < e <= L)%nat.
  Proof.
    intros Hh Hp Hr. cbv zeta. destruct r as [[ks e]| | |]; cbn [bind]; try discriminate; try (split; [reflexivity|discriminate]).
    destruct (Hr ks e eq_refl) as [H1 H2]. rewrite slice_ok by (unfold L in *; lia). cbn [bind].
    split; [reflexivity|]. intros n e' [= _ <-]. lia.
  Qed.

  Lemma diag_count_S f depth pos k : diag_count ok (S f) data depth pos k =
    if k =? 0 then Val ([], pos) else
      r <- diag_node ok f data depth pos ;;
      let '(kid, p1) := r in
      r2 <- diag_count ok f data depth p1 (k - 1) ;;
      let '(kids, e) := r2 in Val (kid :: kids, e).
  Proof. reflexivity. Qed.

  Lemma diag_indef_S f depth pos per chunk : diag_indef ok (S f) data depth pos per chunk =
      if Nat.leb (length data) pos then Err else
      b <- idx data pos ;;
      if b =? 255 then
        (if Nat.ltb (length data) (pos + 1) then Err else Val ([], (pos + 1)%nat))
      else
        r <- diag_node ok f data depth pos ;;
        let '(k1, p1) := r in
        _ <- (if negb (chunk =? 0) && (negb (N.land b 224 =? chunk) || (N.land b 31 =? 31)) then Err else Val tt) ;;
        r1 <- (if Nat.eqb per 2 then
                 r' <- diag_node ok f data depth p1 ;; let '(k2, p2) := r' in Val ([k1; k2], p2)
               else Val ([k1], p1)) ;;
        let '(ks, p2) := r1 in
        r2 <- diag_indef ok f data depth p2 per chunk ;;
        let '(kids, e) := r2 in Val (ks ++ kids, e).
  Proof. reflexivity. Qed.

  Lemma diag_all : forall fuel, node_ok fuel /\ count_ok fuel /\ indef_ok fuel.
  Proof.
    induction fuel as [|f (IHn & IHc & IHi)].
    { repeat split; try reflexivity; cbn; discriminate. }
    assert (Hnode : node_ok (S f)).
    { intros depth pos. cbn [diag_node].
      destruct (Nat.ltb max_diag_depth depth); [split; [reflexivity|discriminate]|].
      destruct (Nat.leb_spec (length data) pos) as [Lp|Lp]; [split; [reflexivity|discriminate]|].
      destruct (idx_lt data pos Lp) as (first & ->). cbn [bind].
      assert (PRIM : panics (match sd_next ok data pos with
                             | None => Err
                             | Some (_, n) => _ <- slice data pos (pos + n) ;; Val (DN pos n [], (pos + n)%nat) end) = false /\
                     forall n e, match sd_next ok data pos with
                             | None => Err
                             | Some (_, n) => _ <- slice data pos (pos + n) ;; Val (DN pos n [], (pos + n)%nat) end = Val (n, e) -> (pos < e <= L)%nat).
      { destruct (sd_next ok data pos) as [[it n]|] eqn:E; [|split; [reflexivity|discriminate]].
        apply sd_next_bounds in E. rewrite slice_ok by lia. cbn [bind]. split; [reflexivity|]. intros n' e [= _ <-]. unfold L. lia. }
      destruct ((N.land first 224 =? 0) || (N.land first 224 =? 32) || (N.land first 224 =? 224)); [exact PRIM|].
      destruct ((N.land first 224 =? 64) || (N.land first 224 =? 96)).
      { destruct (N.land first 31 =? 31); [|exact PRIM].
        destruct (Nat.ltb_spec (length data) (pos + 1)); cbn [bind]; [split; [reflexivity|discriminate]|].
        destruct (IHi (S depth) (pos + 1)%nat 1%nat (N.land first 224)) as [P R].
        apply (wrap_ok pos 1 _ (fun k => k)); [lia|exact P|]. intros ks e E. specialize (R ks e E). lia. }
      destruct ((N.land first 224 =? 128) || (N.land first 224 =? 160)).
      { destruct (collection_header_spec data pos) as [B R].
        destruct (collection_header data pos) as [[[len hl] ind]| | |]; cbn [bind]; try discriminate; try (split; [reflexivity|discriminate]).
        destruct (R _ _ _ eq_refl) as [Hh _].
        destruct (Nat.ltb_spec (length data) (pos + hl)); cbn [bind]; [split; [reflexivity|discriminate]|].
        apply (wrap_ok pos hl _ (fun k => k)); [lia| |].
        - destruct ind; [apply IHi|apply IHc; unfold L; lia].
        - intros ks e E. destruct ind.
          + destruct (IHi (S depth) (pos + hl)%nat (if N.land first 224 =? 160 then 2%nat else 1%nat) 0) as [_ R']. specialize (R' ks e E). lia.
          + destruct (IHc (S depth) (pos + hl)%nat (len * N.of_nat (if N.land first 224 =? 160 then 2 else 1))) as [_ R']; [unfold L; lia|]. specialize (R' ks e E). lia. }
      destruct (tag_header_spec data pos) as [B R].
      destruct (tag_header data pos) as [[t hl]| | |]; cbn [bind]; try discriminate; try (split; [reflexivity|discriminate]).
      destruct (R _ _ eq_refl) as [Hh _].
      destruct (Nat.ltb_spec (length data) (pos + hl)); cbn [bind]; [split; [reflexivity|discriminate]|].
      destruct (IHn (S depth) (pos + hl)%nat) as [P R'].
      apply (wrap_ok pos hl _ (fun k => [k])); [lia|exact P|]. intros ks e E. specialize (R' ks e E). lia. }
    split; [exact Hnode|]. split.
    - intros depth pos k Hp. rewrite diag_count_S. destruct (k =? 0); [split; [reflexivity|intros ks e [= _ <-]; lia]|].
      destruct (IHn depth pos) as [P R].
      destruct (diag_node ok f data depth pos) as [[kid p1]| | |]; cbn [bind]; try discriminate; try (split; [reflexivity|discriminate]).
      specialize (R _ _ eq_refl). destruct (IHc depth p1 (k - 1)) as [P2 R2]; [lia|].
      destruct (diag_count ok f data depth p1 (k - 1)) as [[kids e]| | |]; cbn [bind]; try discriminate; try (split; [reflexivity|discriminate]).
      specialize (R2 _ _ eq_refl). split; [reflexivity|]. intros ks e' [= _ <-]. lia.
    - intros depth pos per chunk. rewrite diag_indef_S.
      destruct (Nat.leb_spec (length data) pos) as [Lp|Lp]; [split; [reflexivity|discriminate]|].
      destruct (idx_lt data pos Lp) as (b & ->). cbn [bind].
      destruct (b =? 255).
      { destruct (Nat.ltb_spec (length data) (pos + 1)); [split; [reflexivity|discriminate]|].
        split; [reflexivity|]. intros ks e [= _ <-]. unfold L. lia. }
      destruct (IHn depth pos) as [P R].
      destruct (diag_node ok f data depth pos) as [[k1 p1]| | |]; cbn [bind]; try discriminate; try (split; [reflexivity|discriminate]).
      specialize (R _ _ eq_refl).
      destruct (negb (chunk =? 0) && (negb (N.land b 224 =? chunk) || (N.land b 31 =? 31))); cbn [bind]; [split; [reflexivity|discriminate]|].
      assert (SECOND : exists r1, (if Nat.eqb per 2 then r' <- diag_node ok f data depth p1 ;; (let '(k2, p2) := r' in Val ([k1; k2], p2)) else Val ([k1], p1)) = r1 /\
                 panics r1 = false /\ forall ks p2, r1 = Val (ks, p2) -> (p1 <= p2 <= L)%nat).
      { eexists. split; [reflexivity|]. destruct (Nat.eqb per 2); [|split; [reflexivity|intros ks p2 [= _ <-]; lia]].
        destruct (IHn depth p1) as [P' R'].
        destruct (diag_node ok f data depth p1) as [[k2 p2]| | |]; cbn [bind]; try discriminate; try (split; [reflexivity|discriminate]).
        specialize (R' _ _ eq_refl). split; [reflexivity|]. intros ks p2' [= _ <-]. lia. }
      destruct SECOND as (r1 & -> & P1 & R1).
      destruct r1 as [[ks p2]| | |]; cbn [bind]; try discriminate; try (split; [reflexivity|discriminate]).
      specialize (R1 _ _ eq_refl).
      destruct (IHi depth p2 per chunk) as [P3 R3].
      destruct (diag_indef ok f data depth p2 per chunk) as [[kids e]| | |]; cbn [bind]; try discriminate; try (split; [reflexivity|discriminate]).
      specialize (R3 _ _ eq_refl). split; [reflexivity|]. intros ks' e' [= _ <-]. lia.
  Qed.

  Lemma parse_diagnostic_no_panic fuel : panics (parse_diagnostic ok fuel data) = false.
  Proof.
    unfold parse_diagnostic. destruct (diag_all fuel) as (Hn & _ & _). destruct (Hn 0%nat 0%nat) as [P _].
    destruct (diag_node ok fuel data 0 0) as [[n e]| | |]; cbn [bind]; try discriminate; try reflexivity.
    destruct (Nat.ltb e (length data)); reflexivity.
  Qed.
End diag.
