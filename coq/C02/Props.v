(* C02 - property theorems only.  `bad r = false` means: r is neither Panic
   nor OutOfFuel (it is a value or an error).  Everything is stated for
   EVERY byte list `data` (no well-formedness assumption) and every fuel above
   the stated linear bound. *)
From V Require Import Lib.Base Lib.Cbor Lib.CborParse C02.Model C02.Proofs.
From V Require C03.Model.
Local Open Scope N_scope.

(* ---- header scanners: cbor.ArrayInfo / MapInfo, common.cborArrayInfo / cborMapInfo ---- *)
Theorem C02_no_panic_info : forall major data,
  bad (info major data) = false /\
  forall c h ind, info major data = Val (c, h, ind) -> info_invalid (c, h, ind) = false -> (1 <= h <= length data)%nat.
Proof.
  intros major data. split; [apply info_no_bad|]. intros c h ind E Hv.
  destruct (info_spec major data) as (c' & h' & ind' & E' & H). rewrite E in E'. injection E' as <- <- <-. auto.
Qed.
(* the claimed element count that reaches the callers never exceeds 2^32 (MaxInt32 test on the wide forms) *)
Theorem C02_alloc_info : forall major data c h ind, all_bytes data -> info major data = Val (Some c, h, ind) -> c < 4294967296.
Proof. exact info_count_cap. Qed.

(* ---- cbor.StreamDecoder.DecodeArrayHeader / DecodeMapHeader (+ Advance(headerLen)) ---- *)
Theorem C02_no_panic_decode_header : forall major data abs,
  bad (decode_header major data abs) = false /\
  forall l h, decode_header major data abs = Val (l, h) -> (1 <= h /\ abs + h <= length data)%nat.
Proof.
  intros major data abs. destruct (decode_header_spec major data abs) as [B R]. split; [exact B|].
  intros l h E. destruct (R l h E) as [[H _]|H]; exact H.
Qed.

Theorem C02_no_panic_header_size_from_bytes : forall data off, bad (header_size_from_bytes data off) = false.
Proof. exact header_size_no_bad. Qed.
Theorem C02_no_panic_collection_header : forall data off,
  bad (collection_header data off) = false /\
  forall l h ind, collection_header data off = Val (l, h, ind) -> (1 <= h <= 9)%nat /\ (off < length data)%nat.
Proof. exact collection_header_spec. Qed.
Theorem C02_no_panic_tag_header : forall data off,
  bad (tag_header data off) = false /\
  forall t h, tag_header data off = Val (t, h) -> (1 <= h <= 9)%nat /\ (off < length data)%nat.
Proof. exact tag_header_spec. Qed.

(* ---- cbor.StreamDecoder.RawBytes / Advance ---- *)
Theorem C02_no_panic_raw_bytes : forall data offset len, bad (raw_bytes data offset len) = false.
Proof. exact raw_bytes_no_bad. Qed.
(* Advance is safe as long as position + n does not overflow int64 (every call in the repository passes n <= 9) *)
Theorem C02_no_panic_advance_partial : forall data pos n, (Z.of_nat pos + n <= max_int64)%Z -> bad (advance data pos n) = false.
Proof. exact advance_no_bad. Qed.
(* without that side condition the Go text panics (no overflow test, unlike RawBytes): not reachable from input bytes *)
Theorem C02_advance_overflow_refuted : exists data pos n, advance data pos n = Panic.
Proof. exists [0; 0], 1%nat, max_int64. exact advance_wraps. Qed.

(* ---- cbor.ListLength / cbor.DecodeIdFromList ---- *)
Theorem C02_no_panic_list_length : forall lib_len data, bad (list_length lib_len data) = false.
Proof. exact list_length_no_bad. Qed.
Theorem C02_no_panic_decode_id_from_list : forall lib_len lib_id data, bad (decode_id_from_list lib_len lib_id data) = false.
Proof. exact decode_id_no_bad. Qed.
(* the explicit-index transcription computes what the C03 model (pattern matching on the list) computes *)
Theorem C02_decode_id_agrees_with_C03 : forall raw_ok val_ok data,
  decode_id_from_list (C03.Model.decode_raw_list raw_ok) (C03.Model.decode_value_id val_ok) data =
  of_opt (C03.Model.decode_id_from_list raw_ok val_ok data).
Proof.
  intros raw_ok val_ok data. destruct data as [|b0 [|b1 r]]; [reflexivity|reflexivity|].
  unfold decode_id_from_list, list_length, C03.Model.decode_id_from_list, C03.Model.decode_id_gen, C03.Model.list_length,
    C03.Model.short_array_head.
  cbn [length Nat.ltb Nat.leb Nat.eqb idx nth_error bind].
  destruct ((128 <=? b0) && (b0 <=? 151)) eqn:Eh; cbn [bind of_opt negb orb andb].
  - destruct (b0 - 128 =? 0); [reflexivity|]. destruct (b0 - 128 <? 23); cbn [bind andb]; [|reflexivity].
    destruct (b1 <=? 23); reflexivity.
  - destruct (C03.Model.decode_raw_list raw_ok (b0 :: b1 :: r)) as [len|]; cbn [bind of_opt]; [|reflexivity].
    destruct (len =? 0); reflexivity.
Qed.

(* ---- ledger/common/address.go ---- *)
Theorem C02_no_panic_read_varuint : forall data fuel off, (length data - off < fuel)%nat ->
  bad (read_varuint fuel data off 0 0) = false /\
  forall v o steps, read_varuint fuel data off 0 0 = Val (v, o, steps) -> (off < o <= length data)%nat /\ (steps <= length data)%nat.
Proof.
  intros data fuel off Hf. destruct (read_varuint_spec data fuel off 0 0 Hf) as [B R]. split; [exact B|].
  intros v o steps E. destruct (R v o steps E). split; [assumption|lia].
Qed.
Theorem C02_no_panic_decode_pointer : forall data fuel, (length data < fuel)%nat ->
  bad (decode_pointer fuel data) = false /\
  forall s t c o steps, decode_pointer fuel data = Val (s, t, c, o, steps) -> (o <= length data)%nat /\ (steps <= length data)%nat.
Proof.
  intros data fuel Hf. destruct (decode_pointer_spec data fuel Hf) as [B R]. split; [exact B|].
  intros s t c o k E. destruct (R s t c o k E). lia.
Qed.
Theorem C02_no_panic_populate_from_bytes : forall byron known_trailer data fuel, (length data < fuel)%nat ->
  bad (populate byron known_trailer fuel data) = false.
Proof. exact populate_no_bad. Qed.

(* ---- common.setArrayItemCbor / ExtractAndSetTransactionCbor ---- *)
Theorem C02_no_panic_set_array_item_cbor : forall ok kind data expected acc fuel, (length data < fuel)%nat ->
  bad (st_of (set_array_item_cbor ok fuel kind data expected acc)) = false /\
  (steps_of (set_array_item_cbor ok fuel kind data expected acc) <= length data + 1)%nat.
Proof. intros. apply set_array_item_spec. assumption. Qed.
Theorem C02_no_panic_extract_and_set : forall ok data eb ew meta fuel, (length data < fuel)%nat ->
  bad (st_of (extract_and_set ok fuel data eb ew meta)) = false /\
  (steps_of (extract_and_set ok fuel data eb ew meta) <= length data + 2)%nat.
Proof. intros. apply extract_and_set_spec. assumption. Qed.

(* ---- the offset walkers of ledger/common (current tree), with the offsets they return.
   `isval r = true`: r is a value (in particular neither Panic nor OutOfFuel); ticks = loop
   iterations made, nested loops included ---- *)
Theorem C02_no_panic_skip_tags : forall data fuel, (length data < fuel)%nat ->
  exists d skipped steps, skip_tags fuel data 0 0 = Val (d, skipped, steps) /\ (steps + length d <= length data)%nat.
Proof.
  intros data fuel Hf. destruct (skip_tags_spec fuel data 0 0 Hf) as (d & ts & k & E & _ & _ & H).
  exists d, ts, k. split; [exact E|lia].
Qed.
Theorem C02_no_panic_array_header_size_of : forall data len, exists h, array_header_size_of data len = Val h.
Proof. exact array_header_size_of_val. Qed.
(* extractDatumOffsets, extractRedeemerOffsets (both layouts), extractScriptArrayOffsets *)
Theorem C02_no_panic_witness_component_walkers : forall data fuel base, (length data < fuel)%nat ->
  (isval (datum_offsets fuel data base) = true /\
   forall es t, datum_offsets fuel data base = Val (es, t) -> (t <= length data)%nat) /\
  (isval (redeemer_offsets fuel data base) = true /\
   forall es t, redeemer_offsets fuel data base = Val (es, t) -> (t <= length data)%nat) /\
  (forall ty, isval (script_offsets fuel ty data base) = true /\
     (all_bytes data -> forall es t, script_offsets fuel ty data base = Val (es, t) -> (t <= 2 * length data)%nat)).
Proof.
  intros data fuel base Hf. split; [apply datum_offsets_spec; exact Hf|]. split; [apply redeemer_offsets_spec; exact Hf|].
  intros ty. apply script_offsets_spec; exact Hf.
Qed.
(* extractWitnessComponentOffsets (calls the three above on the values) *)
Theorem C02_no_panic_witness_components : forall data fuel base, (length data < fuel)%nat ->
  isval (witness_components fuel data base) = true /\
  (all_bytes data -> forall es t, witness_components fuel data base = Val (es, t) -> (t <= 3 * length data)%nat).
Proof. intros. apply witness_components_spec. assumption. Qed.
(* both copies of extractOutputOffsets (heur = true: the one with the backward adjustment) *)
Theorem C02_no_panic_output_offsets : forall heur body fuel body_off, (length body < fuel)%nat ->
  isval (output_offsets heur fuel body body_off) = true /\
  (all_bytes body -> forall es t, output_offsets heur fuel body body_off = Val (es, t) -> (t <= 2 * length body)%nat).
Proof. intros. apply output_offsets_spec. assumption. Qed.
Theorem C02_no_panic_adjust_output_offset : forall body bo op, bad (adjust_output_offset body bo op) = false.
Proof. exact adjust_output_no_bad. Qed.
Theorem C02_no_panic_metadata_offsets : forall data fuel base, (length data < fuel)%nat ->
  isval (metadata_offsets fuel data base) = true /\
  forall es t, metadata_offsets fuel data base = Val (es, t) -> (t <= length data)%nat.
Proof. intros. apply metadata_offsets_spec. assumption. Qed.
(* ExtractTransactionOffsets (streaming = false) and StreamingBlockDecoder.DecodeWithOffsets (true), Shelley+ and
   EBB layouts: a value or an error for every byte string, within 6 * len loop iterations in total *)
Theorem C02_no_panic_extract_offsets : forall streaming data fuel, all_bytes data -> (length data < fuel)%nat ->
  bad (extract_offsets streaming fuel data) = false /\
  forall txs t, extract_offsets streaming fuel data = Val (XDone txs t) -> (t <= 6 * length data)%nat.
Proof. intros. apply extract_offsets_spec; assumption. Qed.
(* Extract{TransactionBody,Witness,Output}Cbor on any offsets (block below 4 GiB) *)
Theorem C02_no_panic_extract_cbor : forall data off len, N.of_nat (length data) < two32 -> bad (extract_cbor data (off, len)) = false.
Proof. exact extract_cbor_no_bad. Qed.
(* StreamDecoder.DecodeArrayItems (+ cborArrayHeaderSizeFromBytes) *)
Theorem C02_no_panic_decode_array_items : forall data abs, bad (decode_array_items data abs) = false.
Proof. exact decode_array_items_no_bad. Qed.

(* ---- muxer.readLoop framing ---- *)
Theorem C02_no_panic_mux_read : forall conn fuel, all_bytes conn -> (length conn < 9 * fuel)%nat ->
  bad (mux_read fuel conn 0 []) = false /\
  forall segs allocs, mux_read fuel conn 0 [] = Val (segs, allocs) -> (9 * segs <= length conn)%nat.
Proof.
  intros conn fuel Hb Hf. destruct (mux_read_spec fuel conn 0%nat [] Hb Hf) as [B R]. split; [exact B|].
  intros s a E. destruct (R s a E) as (_ & _ & H). lia.
Qed.
(* every make([]byte, PayloadLength) is at most 65535 bytes and the total is input + one buffer *)
Theorem C02_alloc_mux_read : forall conn fuel segs allocs, all_bytes conn -> (length conn < 9 * fuel)%nat ->
  mux_read fuel conn 0 [] = Val (segs, allocs) ->
  (forall x, In x allocs -> x <= 65535) /\ sumN allocs <= N.of_nat (length conn) + 65535.
Proof.
  intros conn fuel s a Hb Hf E. destruct (mux_read_spec fuel conn 0%nat [] Hb Hf) as [_ R].
  destruct (R s a E) as (R1 & R2 & _). split.
  - intros x Hx. destruct (R1 x Hx) as [[]|H]; exact H.
  - cbn [sumN fold_right] in R2. lia.
Qed.

(* ---- protocol.readLoop buffer handling (contract of the library: NumBytesRead <= len) ---- *)
Theorem C02_no_panic_proto_read : forall lib typ, (forall buf n k first, lib buf = LMsg n k first -> (n <= length buf)%nat) ->
  forall fuel segs, (length (concat segs) < fuel)%nat ->
  bad (proto_read lib typ fuel segs 0 [] []) = false /\
  forall ms e, proto_read lib typ fuel segs 0 [] [] = Val (ms, e) -> (length ms <= length (concat segs))%nat.
Proof.
  intros lib typ H fuel segs Hf. destruct (proto_read_spec lib typ H fuel segs 0%nat [] []) as [B R]; [cbn [length]; lia|].
  split; [apply isval_bad; exact B|]. intros ms e E. specialize (R ms e E). cbn [length] in R. lia.
Qed.
(* ... and with the Lib parser in the place of the library the contract is a theorem *)
Theorem C02_no_panic_proto_read_cbor : forall fuel segs, (length (concat segs) < fuel)%nat ->
  bad (proto_read lib_cbor typ_cbor fuel segs 0 [] []) = false.
Proof. intros fuel segs Hf. apply (C02_no_panic_proto_read lib_cbor typ_cbor lib_cbor_within fuel segs Hf). Qed.

(* ---- cbor.ParseDiagnostic ---- *)
(* index safety for EVERY fuel *)
Theorem C02_no_index_panic_parse_diagnostic : forall ok data fuel, panics (fst (parse_diagnostic ok fuel data)) = false.
Proof. intros ok data fuel. apply (parse_diagnostic_spec ok data fuel). Qed.
(* step bound for EVERY fuel and every outcome: at most len + 1 parseDiagnosticNode calls are ever made *)
Theorem C02_steps_parse_diagnostic : forall ok data fuel, (snd (parse_diagnostic ok fuel data) <= length data + 1)%nat.
Proof. intros ok data fuel. apply (parse_diagnostic_spec ok data fuel). Qed.
(* termination: with fuel 2 * len + 1 (what the correspondence uses) the fuel is never exhausted *)
Theorem C02_no_panic_parse_diagnostic : forall ok data fuel, (2 * length data + 1 <= fuel)%nat ->
  bad (fst (parse_diagnostic ok fuel data)) = false.
Proof.
  intros ok data fuel Hf. apply bad_split. destruct (parse_diagnostic_spec ok data fuel) as (P & _ & O). split; [exact P|exact (O Hf)].
Qed.

Print Assumptions C02_no_panic_info.
Print Assumptions C02_no_panic_extract_and_set.
Print Assumptions C02_no_panic_extract_offsets.
Print Assumptions C02_no_panic_witness_components.
Print Assumptions C02_no_panic_proto_read_cbor.
Print Assumptions C02_no_panic_populate_from_bytes.
Print Assumptions C02_alloc_mux_read.
Print Assumptions C02_no_panic_parse_diagnostic.
Print Assumptions C02_steps_parse_diagnostic.
Print Assumptions C02_decode_id_agrees_with_C03.

(* ---- non-vacuity: Panic and OutOfFuel are real values of the model (nothing is totalised away),
   and the scanners do produce values ---- *)
Example C02_model_can_panic : idx [1; 2] 2 = Panic /\ slice_from [1] 2 = @Panic bytes /\ slice [1; 2; 3] 2 1 = @Panic bytes.
Proof. vm_compute. repeat split. Qed.
Example C02_model_can_run_out : read_varuint 1 [128; 128; 1] 0 0 0 = OutOfFuel /\ bad (read_varuint 4 [128; 128; 1] 0 0 0) = false.
Proof. vm_compute. split; reflexivity. Qed.
(* 9a 00 00 00 02 ... : a 4-byte count; 98 : truncated; 9b ff.. : refused *)
Example C02_info_examples :
  array_info [154; 0; 0; 0; 2; 1; 2] = Val (Some 2, 5%nat, false) /\
  array_info [152] = Val (None, 0%nat, false) /\
  array_info [155; 255; 255; 255; 255; 255; 255; 255; 255] = Val (None, 0%nat, false) /\
  array_info [159; 255] = Val (Some 0, 1%nat, true).
Proof. vm_compute. repeat split. Qed.
(* [hdr, [b1, b2], [w1, w2]] : two bodies, two witness sets *)
Example C02_extract_example :
  cbs_of (extract_and_set any_ok 20 [131; 0; 130; 1; 2; 130; 3; 4] 2 2 true) = [(1, 0%nat, [1]); (1, 1%nat, [2]); (2, 0%nat, [3]); (2, 1%nat, [4])]
  /\ st_of (extract_and_set any_ok 20 [131; 0; 130; 1; 2; 130; 3; 4] 2 2 true) = Val tt.
Proof. vm_compute. split; reflexivity. Qed.
Example C02_mux_example : mux_read 3 [0;0;0;0;0;2;0;1;7; 0;0;0;0;0;2;255;255;1] 0 [] = Val (1%nat, [65535; 1]).
Proof. vm_compute. reflexivity. Qed.
(* the diagnostic walker: too little fuel is visible as OutOfFuel, enough fuel gives the tree; 3 nodes = 3 calls *)
Example C02_diag_example :
  fst (parse_diagnostic any_ok 2 [130; 1; 2]) = OutOfFuel /\
  parse_diagnostic any_ok 7 [130; 1; 2] = (Val (DN 0 3 [DN 1 1 []; DN 2 1 []]), 3%nat) /\
  parse_diagnostic any_ok 7 [130; 1] = (Err, 3%nat).
Proof. vm_compute. repeat split. Qed.
(* [hdr, [{1: [[h'00', 1]]}], [{4: 258([5])}], {}] : one body with one output, one witness set with one tagged datum *)
Example C02_offsets_example :
  extract_offsets false 40 [132; 128; 129; 161; 1; 129; 130; 65; 0; 1; 129; 161; 4; 217; 1; 2; 129; 5; 160] =
  Val (XDone [mk_txloc (3, 7) (11, 7) (0, 0) [(6, 4)] [CDatum (17, 1) [5]]] 8).
Proof. vm_compute. reflexivity. Qed.
Example C02_proto_example :
  proto_read lib_cbor typ_cbor 20 [[129; 0; 130]; [7]; [0; 255]] 0 [] [] =
  Val ([(0%nat, (0, [129; 0])); (2%nat, (7, [130; 7; 0]))], Some 2%nat).
Proof. vm_compute. reflexivity. Qed.
