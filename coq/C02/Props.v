(* C02 - property theorems only.  `bad r = false` means: r is neither Panic
   nor OutOfFuel (it is a value or an error).  Everything is stated for
   EVERY byte list `data` (no well-formedness assumption) and every fuel above
   the stated linear bound. *)
From V Require Import Lib.Base Lib.Cbor Lib.CborParse C02.Model C02.Proofs.
From V Require C03.Model.
Local Open Scope N_scope.

(* ---- header scanners: cbor.ArrayInfo / MapInfo, common.cborArrayInfo / cborMapInfo ---- *)
Theorem C02_no_panic_info : forall major data,
  bad (info major data) = false /\
  forall c h ind, info major data = Val (c, h, ind) -> info_invalid (c, h, ind) = false -> (1 <= h <= length data)%nat.
Proof.
  intros major data. split; [apply info_no_bad|]. intros c h ind E Hv.
  destruct (info_spec major data) as (c' & h' & ind' & E' & H). rewrite E in E'. injection E' as <- <- <-. auto.
Qed.
(* the claimed element count that reaches the callers never exceeds 2^32 (MaxInt32 test on the wide forms) *)
Theorem C02_alloc_info : forall major data c h ind, all_bytes data -> info major data = Val (Some c, h, ind) -> c < 4294967296.
Proof. exact info_count_cap. Qed.

(* ---- cbor.StreamDecoder.DecodeArrayHeader / DecodeMapHeader (+ Advance(headerLen)) ---- *)
Theorem C02_no_panic_decode_header : forall major data abs,
  bad (decode_header major data abs) = false /\
  forall l h, decode_header major data abs = Val (l, h) -> (1 <= h /\ abs + h <= length data)%nat.
Proof.
  intros major data abs. destruct (decode_header_spec major data abs) as [B R]. split; [exact B|].
  intros l h E. destruct (R l h E) as [[H _]|H]; exact H.
Qed.

Theorem C02_no_panic_header_size_from_bytes : forall data off, bad (header_size_from_bytes data off) = false.
Proof. exact header_size_no_bad. Qed.
Theorem C02_no_panic_collection_header : forall data off,
  bad (collection_header data off) = false /\
  forall l h ind, collection_header data off = Val (l, h, ind) -> (1 <= h <= 9)%nat /\ (off < length data)%nat.
Proof. exact collection_header_spec. Qed.
Theorem C02_no_panic_tag_header : forall data off,
  bad (tag_header data off) = false /\
  forall t h, tag_header data off = Val (t, h) -> (1 <= h <= 9)%nat /\ (off < length data)%nat.
Proof. exact tag_header_spec. Qed.

(* ---- cbor.StreamDecoder.RawBytes / Advance ---- *)
Theorem C02_no_panic_raw_bytes : forall data offset len, bad (raw_bytes data offset len) = false.
Proof. exact raw_bytes_no_bad. Qed.
(* Advance is safe as long as position + n does not overflow int64 (every call in the repository passes n <= 9) *)
Theorem C02_no_panic_advance_partial : forall data pos n, (Z.of_nat pos + n <= max_int64)%Z -> bad (advance data pos n) = false.
Proof. exact advance_no_bad. Qed.
(* without that side condition the Go text panics (no overflow test, unlike RawBytes): not reachable from input bytes *)
Theorem C02_advance_overflow_refuted : exists data pos n, advance data pos n = Panic.
Proof. exists [0; 0], 1%nat, max_int64. exact advance_wraps. Qed.

(* ---- cbor.ListLength / cbor.DecodeIdFromList ---- *)
Theorem C02_no_panic_list_length : forall lib_len data, bad (list_length lib_len data) = false.
Proof. exact list_length_no_bad. Qed.
Theorem C02_no_panic_decode_id_from_list : forall lib_len lib_id data, bad (decode_id_from_list lib_len lib_id data) = false.
Proof. exact decode_id_no_bad. Qed.
(* the explicit-index transcription computes what the C03 model (pattern matching on the list) computes *)
Theorem C02_decode_id_agrees_with_C03 : forall raw_ok val_ok data,
  decode_id_from_list (C03.Model.decode_raw_list raw_ok) (C03.Model.decode_value_id val_ok) data =
  of_opt (C03.Model.decode_id_from_list raw_ok val_ok data).
Proof.
  intros raw_ok val_ok data. destruct data as [|b0 [|b1 r]]; [reflexivity|reflexivity|].
  unfold decode_id_from_list, list_length, C03.Model.decode_id_from_list, C03.Model.decode_id_gen, C03.Model.list_length,
    C03.Model.short_array_head.
  cbn [length Nat.ltb Nat.leb Nat.eqb idx nth_error bind].
  destruct ((128 <=? b0) && (b0 <=? 151)) eqn:Eh; cbn [bind of_opt negb orb andb].
  - destruct (b0 - 128 =? 0); [reflexivity|]. destruct (b0 - 128 <? 23); cbn [bind andb]; [|reflexivity].
    destruct (b1 <=? 23); reflexivity.
  - destruct (C03.Model.decode_raw_list raw_ok (b0 :: b1 :: r)) as [len|]; cbn [bind of_opt]; [|reflexivity].
    destruct (len =? 0); reflexivity.
Qed.

(* ---- ledger/common/address.go ---- *)
Theorem C02_no_panic_read_varuint : forall data fuel off, (length data - off < fuel)%nat ->
  bad (read_varuint fuel data off 0 0) = false /\
  forall v o steps, read_varuint fuel data off 0 0 = Val (v, o, steps) -> (off < o <= length data)%nat /\ (steps <= length data)%nat.
Proof.
  intros data fuel off Hf. destruct (read_varuint_spec data fuel off 0 0 Hf) as [B R]. split; [exact B|].
  intros v o steps E. destruct (R v o steps E). split; [assumption|lia].
Qed.
Theorem C02_no_panic_decode_pointer : forall data fuel, (length data < fuel)%nat ->
  bad (decode_pointer fuel data) = false /\
  forall s t c o steps, decode_pointer fuel data = Val (s, t, c, o, steps) -> (o <= length data)%nat /\ (steps <= length data)%nat.
Proof.
  intros data fuel Hf. destruct (decode_pointer_spec data fuel Hf) as [B R]. split; [exact B|].
  intros s t c o k E. destruct (R s t c o k E). lia.
Qed.
Theorem C02_no_panic_populate_from_bytes : forall byron known_trailer data fuel, (length data < fuel)%nat ->
  bad (populate byron known_trailer fuel data) = false.
Proof. exact populate_no_bad. Qed.

(* ---- common.setArrayItemCbor / ExtractAndSetTransactionCbor ---- *)
Theorem C02_no_panic_set_array_item_cbor : forall ok kind data expected acc fuel, (length data < fuel)%nat ->
  bad (st_of (set_array_item_cbor ok fuel kind data expected acc)) = false /\
  (steps_of (set_array_item_cbor ok fuel kind data expected acc) <= length data + 1)%nat.
Proof. intros. apply set_array_item_spec. assumption. Qed.
Theorem C02_no_panic_extract_and_set : forall ok data eb ew meta fuel, (length data < fuel)%nat ->
  bad (st_of (extract_and_set ok fuel data eb ew meta)) = false /\
  (steps_of (extract_and_set ok fuel data eb ew meta) <= length data + 2)%nat.
Proof. intros. apply extract_and_set_spec. assumption. Qed.

(* ---- the extract*Offsets walkers (index structure and termination only) ---- *)
Theorem C02_no_panic_walker : forall major oks data fuel, oks <> [] -> (length data < fuel)%nat ->
  bad (walker major oks fuel data) = false /\ forall k, walker major oks fuel data = Val k -> (k <= length data)%nat.
Proof. exact walker_spec. Qed.
Theorem C02_no_panic_extract_offsets : forall data fuel, (length data < fuel)%nat ->
  bad (extract_metadata_offsets fuel data) = false /\ bad (extract_datum_offsets fuel data) = false /\
  bad (extract_redeemer_array_offsets fuel data) = false /\ bad (extract_witness_component_offsets fuel data) = false /\
  bad (extract_output_offsets_scan fuel data) = false.
Proof.
  intros data fuel Hf. repeat split; apply walker_spec; try exact Hf; discriminate.
Qed.
Theorem C02_no_panic_redeemer_inner : forall v, bad (redeemer_inner v) = false.
Proof. exact redeemer_inner_no_bad. Qed.
Theorem C02_no_panic_adjust_output_offset : forall body bo op, bad (adjust_output_offset body bo op) = false.
Proof. exact adjust_output_no_bad. Qed.

(* ---- muxer.readLoop framing ---- *)
Theorem C02_no_panic_mux_read : forall conn fuel, all_bytes conn -> (length conn < 9 * fuel)%nat ->
  bad (mux_read fuel conn 0 []) = false /\
  forall segs allocs, mux_read fuel conn 0 [] = Val (segs, allocs) -> (9 * segs <= length conn)%nat.
Proof.
  intros conn fuel Hb Hf. destruct (mux_read_spec fuel conn 0%nat [] Hb Hf) as [B R]. split; [exact B|].
  intros s a E. destruct (R s a E) as (_ & _ & H). lia.
Qed.
(* every make([]byte, PayloadLength) is at most 65535 bytes and the total is input + one buffer *)
Theorem C02_alloc_mux_read : forall conn fuel segs allocs, all_bytes conn -> (length conn < 9 * fuel)%nat ->
  mux_read fuel conn 0 [] = Val (segs, allocs) ->
  (forall x, In x allocs -> x <= 65535) /\ sumN allocs <= N.of_nat (length conn) + 65535.
Proof.
  intros conn fuel s a Hb Hf E. destruct (mux_read_spec fuel conn 0%nat [] Hb Hf) as [_ R].
  destruct (R s a E) as (R1 & R2 & _). split.
  - intros x Hx. destruct (R1 x Hx) as [[]|H]; exact H.
  - cbn [sumN fold_right] in R2. lia.
Qed.

(* ---- protocol.readLoop buffer handling (contract of the library: NumBytesRead <= len) ---- *)
Theorem C02_no_panic_proto_read : forall lib, (forall buf n k, lib buf = Some (n, k) -> (n <= length buf)%nat) ->
  forall fuel buf, (length buf < fuel)%nat ->
  bad (proto_read lib fuel buf 0) = false /\ forall m, proto_read lib fuel buf 0 = Val m -> (m <= length buf)%nat.
Proof.
  intros lib H fuel buf Hf. destruct (proto_read_spec lib H fuel buf 0%nat Hf) as [B R]. split; [exact B|].
  intros m E. specialize (R m E). lia.
Qed.

(* ---- cbor.ParseDiagnostic: index safety for EVERY fuel; termination is NOT proved for this walker ---- *)
Theorem C02_no_index_panic_parse_diagnostic : forall ok data fuel, panics (parse_diagnostic ok fuel data) = false.
Proof. exact parse_diagnostic_no_panic. Qed.

Print Assumptions C02_no_panic_info.
Print Assumptions C02_no_panic_extract_and_set.
Print Assumptions C02_no_panic_walker.
Print Assumptions C02_no_panic_populate_from_bytes.
Print Assumptions C02_alloc_mux_read.
Print Assumptions C02_no_index_panic_parse_diagnostic.
Print Assumptions C02_decode_id_agrees_with_C03.

(* ---- non-vacuity: Panic and OutOfFuel are real values of the model (nothing is totalised away),
   and the scanners do produce values ---- *)
Example C02_model_can_panic : idx [1; 2] 2 = Panic /\ slice_from [1] 2 = @Panic bytes /\ slice [1; 2; 3] 2 1 = @Panic bytes.
Proof. vm_compute. repeat split. Qed.
Example C02_model_can_run_out : read_varuint 1 [128; 128; 1] 0 0 0 = OutOfFuel /\ bad (read_varuint 4 [128; 128; 1] 0 0 0) = false.
Proof. vm_compute. split; reflexivity. Qed.
(* 9a 00 00 00 02 ... : a 4-byte count; 98 : truncated; 9b ff.. : refused *)
Example C02_info_examples :
  array_info [154; 0; 0; 0; 2; 1; 2] = Val (Some 2, 5%nat, false) /\
  array_info [152] = Val (None, 0%nat, false) /\
  array_info [155; 255; 255; 255; 255; 255; 255; 255; 255] = Val (None, 0%nat, false) /\
  array_info [159; 255] = Val (Some 0, 1%nat, true).
Proof. vm_compute. repeat split. Qed.
(* [hdr, [b1, b2], [w1, w2]] : two bodies, two witness sets *)
Example C02_extract_example :
  cbs_of (extract_and_set any_ok 20 [131; 0; 130; 1; 2; 130; 3; 4] 2 2 true) = [(1, 0%nat, [1]); (1, 1%nat, [2]); (2, 0%nat, [3]); (2, 1%nat, [4])]
  /\ st_of (extract_and_set any_ok 20 [131; 0; 130; 1; 2; 130; 3; 4] 2 2 true) = Val tt.
Proof. vm_compute. split; reflexivity. Qed.
Example C02_mux_example : mux_read 3 [0;0;0;0;0;2;0;1;7; 0;0;0;0;0;2;255;255;1] 0 [] = Val (1%nat, [65535; 1]).
Proof. vm_compute. reflexivity. Qed.
