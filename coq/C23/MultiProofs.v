(* C23 - N concurrent callers: the single-caller invariants lift to every
   schedule of the N-caller system; mutual exclusion; deadlock freedom and
   termination (no caller is starved in a maximal run). *)
From V Require Import Lib.Base C23.Model C23.Proofs C23.MultiModel.

(* ---------- list update ---------- *)
Lemma nth_upd_same {A} (l : list A) : forall i x t, nth_error l i = Some t -> nth_error (upd_nth l i x) i = Some x.
Proof. induction l as [|y r IH]; intros [|i] x t H; cbn in *; try discriminate; eauto. Qed.
Lemma nth_upd_other {A} (l : list A) : forall i j x, i <> j -> nth_error (upd_nth l i x) j = nth_error l j.
Proof. induction l as [|y r IH]; intros [|i] [|j] x H; cbn; try reflexivity; try congruence. apply IH. congruence. Qed.
Lemma upd_length {A} (l : list A) : forall i x, length (upd_nth l i x) = length l.
Proof. induction l as [|y r IH]; intros [|i] x; cbn; auto. Qed.

(* ---------- how Model.step depends on the caller's private part ---------- *)
Definition shared_label (l : label) : bool :=
  match l with LDeliver | LCbBlock _ | LCbDone | LHandlerErr | LRecvExit | LWatch | LFail => true | _ => false end.

Ltac dst s := destruct s as [[cb0 cr0 cd0] todo0 pc0 hp0 srv0 pst0 busy0 usecb0 watch0 stopped0 wire0 cblog0 rets0 got0 cbbase0].

(* a shared step does the same thing whoever's view it is taken through *)
Lemma deliver_setpc s p td m r :
  pc (deliver (setpc s p td) m r) = p /\ todo (deliver (setpc s p td) m r) = td /\
  strip (deliver (setpc s p td) m r) = strip (deliver (setpc s CIdle []) m r).
Proof. dst s. destruct pst0, m as [| |[b|]|]; cbn; try (repeat split; fail); destruct usecb0, cb0, cr0, cd0; repeat split. Qed.

Lemma shared_transfer fx s p1 t1 p2 t2 l s1 : shared_label l = true ->
  step fx (setpc s p1 t1) l = Some s1 ->
  pc s1 = p1 /\ todo s1 = t1 /\
  exists s2, step fx (setpc s p2 t2) l = Some s2 /\ strip s2 = strip s1 /\ pc s2 = p2 /\ todo s2 = t2.
Proof.
  intros SL H. destruct l; try discriminate SL.
  - dst s. cbn in H. crush_step H; subst. cbn. match goal with H : blk_eqb _ _ = true |- _ => rewrite H end.
    split; [reflexivity|]; split; [reflexivity|]; eexists; split; [reflexivity|]; repeat split.
  - dst s. cbn in H. crush_step H; subst; cbn;
    (split; [reflexivity|]; split; [reflexivity|]; eexists; split; [reflexivity|]; repeat split).
  - (* LDeliver *)
    cbn in H. cbn. change (hp (setpc s p1 t1)) with (hp s) in H. change (srv (setpc s p1 t1)) with (srv s) in H.
    change (pst (setpc s p1 t1)) with (pst s) in H. change (stopped (setpc s p1 t1)) with (stopped s) in H.
    change (hp (setpc s p2 t2)) with (hp s). change (srv (setpc s p2 t2)) with (srv s).
    change (pst (setpc s p2 t2)) with (pst s). change (stopped (setpc s p2 t2)) with (stopped s).
    destruct (hp s); cbn in H; try discriminate H. destruct (srv s) as [|m r]; cbn in H; try discriminate H.
    destruct (deliver_setpc s p1 t1 m r) as (A1 & B1 & C1). destruct (deliver_setpc s p2 t2 m r) as (A2 & B2 & C2).
    destruct (pst s); try discriminate H; (destruct (stopped s); [discriminate H|]); injection H as <-;
      (split; [exact A1|]; split; [exact B1|]; eexists; split; [reflexivity|]; split; [congruence|]; split; [exact A2|exact B2]).
  - dst s. cbn in H. crush_step H; subst; cbn;
    (split; [reflexivity|]; split; [reflexivity|]; eexists; split; [reflexivity|]; repeat split).
  - dst s. cbn in H. crush_step H; subst; cbn;
    (split; [reflexivity|]; split; [reflexivity|]; eexists; split; [reflexivity|]; repeat split).
  - dst s. cbn in H. crush_step H; subst; cbn;
    (split; [reflexivity|]; split; [reflexivity|]; eexists; split; [reflexivity|]; repeat split).
  - dst s. cbn in H. crush_step H; subst; cbn;
    (split; [reflexivity|]; split; [reflexivity|]; eexists; split; [reflexivity|]; repeat split).
Qed.

(* what a thread that is not inside can do *)
Lemma outside_step fx s p td l s' : inside p = false -> step fx (setpc s p td) l = Some s' ->
  shared_label l = true \/
  (exists c, l = LCall c /\ p = CIdle /\ pc s' = CLock c /\ strip s' = strip s) \/
  (exists c r c0 r0, l = LRet c r /\ p = CRet c0 r0 /\ pc s' = CIdle /\ todo s' = td /\ strip s' = strip s) \/
  (exists c, l = LAcquire /\ p = CLock c /\ busy s = false /\ pc s' = CSend c).
Proof.
  intros NI H. dst s. destruct l; cbn in H; try (left; reflexivity); right; crush_step H; subst; try discriminate NI;
    repeat match goal with H : call_eqb _ _ = true |- _ => apply call_eqb_eq in H; subst end.
  - left. eexists. repeat split.
  - right. left. do 4 eexists. repeat split.
  - right. right. eexists. repeat split.
Qed.

(* from inside, a step leads to inside or to the decided result *)
Lemma inside_step fx s l s' : inside (pc s) = true -> step fx s l = Some s' -> inside (pc s') = true \/ is_ret (pc s') = true.
Proof.
  intros I H. dst s. destruct l; cbn in H; crush_step H; subst; cbn in I; try discriminate I; cbn; auto.
  all: unfold deliver, die, take, upd, set_busy, set_pst, set_stopped; cbn;
       repeat match goal with |- context[match ?b with _ => _ end] => destruct b; cbn end; auto.
Qed.
Lemma inside_not_ret p : inside p = true -> is_ret p = false.
Proof. destruct p; cbn; congruence. Qed.
Lemma inside_no_acquire fx s s' : inside (pc s) = true -> step fx s LAcquire = Some s' -> False.
Proof. intros I H. cbn in H. destruct (pc s); try discriminate. Qed.

Lemma inside_busy s : ctl_ok s = true -> inside (pc s) = true -> busy s = true.
Proof.
  intros C I. dst s. destruct pc0; try discriminate I; destruct hp0; rdc in C; split_and; try discriminate; reflexivity.
Qed.

Lemma ctl_ret_idle s : ctl_ok s = true -> is_ret (pc s) = true -> ctl_ok (strip s) = true.
Proof.
  intros C I. dst s. destruct pc0; try discriminate I. destruct hp0; rdc in C; cbv [strip setpc]; rdc; split_and; try discriminate;
    repeat match goal with |- context[if ?b then _ else _] => destruct b end; try reflexivity; try discriminate; auto.
Qed.
Lemma ctl_idle_lock s c td : ctl_ok (strip s) = true -> ctl_ok (setpc s (CLock c) td) = true.
Proof. dst s. destruct hp0; intros C; exact C. Qed.
Lemma ctl_idle_todo s td : ctl_ok (strip s) = true -> ctl_ok (setpc s CIdle td) = true.
Proof. dst s. intros C; exact C. Qed.
Lemma ctl_setpc_self s : ctl_ok (setpc s (pc s) (todo s)) = ctl_ok s.
Proof. dst s. reflexivity. Qed.
Lemma ginv_setpc_self s : GInv (setpc s (pc s) (todo s)) <-> GInv s.
Proof. dst s. reflexivity. Qed.
Lemma kinv_setpc s p td : KInv (setpc s p td) <-> KInv s.
Proof. dst s. reflexivity. Qed.
Lemma setpc_strip s p td : setpc (strip s) p td = setpc s p td.
Proof. dst s. reflexivity. Qed.
Lemma strip_setpc s p td : strip (setpc s p td) = strip s.
Proof. dst s. reflexivity. Qed.
Lemma strip_strip s : strip (strip s) = strip s.
Proof. dst s. reflexivity. Qed.
Lemma setpc_of_strip_eq s1 s2 p td : strip s1 = strip s2 -> setpc s1 p td = setpc s2 p td.
Proof. intros E. rewrite <- (setpc_strip s1), <- (setpc_strip s2), E. reflexivity. Qed.

(* ---------- the invariant of the N-caller system ---------- *)
Definition Local (t : thread) : Prop :=
  match tpc t with
  | CRet (GetBlock p) r => r = RErr EShutdown \/ r = spec_single p (tgot t)
  | CRet (GetRange _ _) r => r = ROk \/ r = RErr ENotFound \/ r = RErr EShutdown
  | _ => True
  end.
Definition mret_ok (x : nat * call * list smsg * result) : Prop :=
  match x with (_, c, g, r) => ret_ok (c, g, r) end.

Definition MInv (m : mst) : Prop :=
  sh m = strip (sh m) /\ KInv (sh m) /\
  (forall j t, nth_error (ths m) j = Some t -> Local t) /\
  Forall mret_ok (mrets m) /\
  ( ((forall j t, nth_error (ths m) j = Some t -> inside (tpc t) = false) /\ ctl_ok (sh m) = true)
    \/ exists k tk, nth_error (ths m) k = Some tk /\ inside (tpc tk) = true /\ owner m = Some k /\
         (forall j t, j <> k -> nth_error (ths m) j = Some t -> inside (tpc t) = false) /\
         ctl_ok (view tk (sh m)) = true /\ GInv (view tk (sh m)) ).

Lemma minv_init progs script : MInv (minit progs script).
Proof.
  unfold MInv, minit. cbn [ths sh mrets owner]. split; [reflexivity|]. split; [reflexivity|]. split.
  - intros j t H. apply nth_error_In in H. apply in_map_iff in H. destruct H as (p & <- & _). exact I.
  - split; [constructor|]. left. split; [|reflexivity].
    intros j t H. apply nth_error_In in H. apply in_map_iff in H. destruct H as (p & <- & _). reflexivity.
Qed.

Lemma rinv_view t s : inside (tpc t) = true -> RInv (view t s).
Proof. intros Hin. split; [constructor|]. cbn. destruct (tpc t); try discriminate Hin; exact I. Qed.

Lemma local_of_ret s : is_ret (pc s) = true -> GInv s -> RInv s ->
  Local {| ttodo := todo s; tpc := pc s; tgot := got s |}.
Proof.
  intros Hr G [_ R]. unfold Local. cbn. destruct (pc s) as [| | | | | |c r] eqn:E; try discriminate Hr.
  destruct c; [|exact R]. unfold GInv in G. rewrite E in G. destruct (hp s); exact G.
Qed.

Lemma minv_step m il m' : MInv m -> mstep true m il = Some m' -> MInv m'.
Proof.
  intros (NF & KI & LO & MR & DIS) H. destruct il as [i l]. unfold mstep in H.
  destruct (nth_error (ths m) i) as [ti|] eqn:Ei; [|discriminate].
  destruct (step true (view ti (sh m)) l) as [s'|] eqn:Es; [|discriminate]. injection H as <-.
  unfold MInv. cbn [ths sh mrets owner].
  split; [symmetry; apply strip_strip|].
  assert (MR' : Forall mret_ok (match l, tpc ti with
            | LRet _ _, CRet c r => mrets m ++ [(i, c, tgot ti, r)] | _, _ => mrets m end)).
  { destruct l; try exact MR. cbn [view setpc pc]. destruct (tpc ti) as [| | | | | |c0 r0] eqn:Ep; try exact MR.
    apply Forall_app. split; [exact MR|]. constructor; [|constructor].
    specialize (LO _ _ Ei). unfold Local in LO. rewrite Ep in LO. unfold mret_ok, ret_ok. destruct c0; exact LO. }
  destruct DIS as [[NI CO]|(k & tk & Ek & Ik & Ow & NI & CO & GI)].
  - (* nobody holds the token *)
    pose proof (NI _ _ Ei) as NIi.
    destruct (outside_step _ _ _ _ _ _ NIi Es) as [SL|[(c & -> & Ep & Ep' & ES)|[(c & r & c0 & r0 & -> & Ep & Ep' & Et' & ES)|(c & -> & Ep & Bf & Ep')]]].
    + (* handler / timer step *)
      destruct (shared_transfer _ _ _ _ CIdle [] _ _ SL Es) as (P1 & T1 & s2 & S2 & E2 & P2 & T2).
      change (setpc (sh m) CIdle []) with (strip (sh m)) in S2. rewrite <- NF in S2.
      assert (C2 : ctl_ok s2 = true) by exact (ctl_step _ _ _ _ CO S2).
      assert (K2 : KInv s2) by exact (kinv_step _ _ _ _ CO KI S2).
      assert (Tsame : {| ttodo := todo s'; tpc := pc s'; tgot := if is_ret (pc s') && negb (is_ret (tpc ti)) then got s' else tgot ti |} = ti).
      { rewrite P1, T1. destruct ti as [a b c]; cbn. destruct (is_ret b); reflexivity. }
      rewrite Tsame. split.
      { rewrite <- E2. apply kinv_setpc. exact K2. }
      split.
      { intros j t Hj. destruct (Nat.eq_dec i j) as [<-|N]; [rewrite (nth_upd_same _ _ _ _ Ei) in Hj; injection Hj as <-; eauto|].
        rewrite nth_upd_other in Hj by exact N. eauto. }
      split; [destruct l; try discriminate SL; exact MR|]. left. split.
      { intros j t Hj. destruct (Nat.eq_dec i j) as [<-|N]; [rewrite (nth_upd_same _ _ _ _ Ei) in Hj; injection Hj as <-; eauto|].
        rewrite nth_upd_other in Hj by exact N. eauto. }
      rewrite <- E2. unfold strip. rewrite <- P2 at 1. rewrite <- T2 at 1. rewrite ctl_setpc_self. exact C2.
    + (* LCall: private *)
      rewrite ES, <- NF. split; [exact KI|]. split.
      { intros j t Hj. destruct (Nat.eq_dec i j) as [<-|N]; [rewrite (nth_upd_same _ _ _ _ Ei) in Hj; injection Hj as <-; unfold Local; cbn; rewrite Ep'; exact I|].
        rewrite nth_upd_other in Hj by exact N. eauto. }
      split; [exact MR|]. left. split; [|exact CO].
      intros j t Hj. destruct (Nat.eq_dec i j) as [<-|N]; [rewrite (nth_upd_same _ _ _ _ Ei) in Hj; injection Hj as <-; cbn; rewrite Ep'; reflexivity|].
      rewrite nth_upd_other in Hj by exact N. eauto.
    + (* LRet: private *)
      rewrite ES, <- NF. split; [exact KI|]. split.
      { intros j t Hj. destruct (Nat.eq_dec i j) as [<-|N]; [rewrite (nth_upd_same _ _ _ _ Ei) in Hj; injection Hj as <-; unfold Local; cbn; rewrite Ep'; exact I|].
        rewrite nth_upd_other in Hj by exact N. eauto. }
      split; [exact MR'|]. left. split; [|exact CO].
      intros j t Hj. destruct (Nat.eq_dec i j) as [<-|N]; [rewrite (nth_upd_same _ _ _ _ Ei) in Hj; injection Hj as <-; cbn; rewrite Ep'; reflexivity|].
      rewrite nth_upd_other in Hj by exact N. eauto.
    + (* LAcquire: thread i takes the token *)
      assert (C1 : ctl_ok (view ti (sh m)) = true).
      { unfold view. rewrite Ep. apply ctl_idle_lock. rewrite <- NF. exact CO. }
      assert (G1 : GInv (view ti (sh m))).
      { unfold GInv, view. cbn [setpc pc hp]. rewrite Ep. destruct (hp (sh m)); exact I. }
      assert (K1 : KInv (view ti (sh m))) by (apply kinv_setpc; exact KI).
      assert (C' : ctl_ok s' = true) by exact (ctl_step _ _ _ _ C1 Es).
      assert (G' : GInv s') by exact (ginv_step _ _ _ C1 G1 Es).
      assert (K' : KInv s') by exact (kinv_step _ _ _ _ C1 K1 Es).
      split; [apply kinv_setpc; exact K'|]. split.
      { intros j t Hj. destruct (Nat.eq_dec i j) as [<-|N]; [rewrite (nth_upd_same _ _ _ _ Ei) in Hj; injection Hj as <-; unfold Local; cbn; rewrite Ep'; exact I|].
        rewrite nth_upd_other in Hj by exact N. eauto. }
      split; [exact MR|]. right. eexists i, _. split; [eapply nth_upd_same; eauto|].
      cbn [tpc]. split; [rewrite Ep'; reflexivity|]. split; [reflexivity|]. split.
      { intros j t N Hj. rewrite nth_upd_other in Hj by congruence. eauto. }
      unfold view. cbn [tpc ttodo]. rewrite setpc_strip. rewrite ctl_setpc_self, ginv_setpc_self. auto.
  - (* thread k holds the token *)
    destruct (Nat.eq_dec i k) as [->|Nik].
    + (* the holder steps *)
      rewrite Ek in Ei. injection Ei as <-.
      assert (R1 : RInv (view tk (sh m))) by (apply rinv_view; exact Ik).
      assert (K1 : KInv (view tk (sh m))) by (apply kinv_setpc; exact KI).
      assert (C' : ctl_ok s' = true) by exact (ctl_step _ _ _ _ CO Es).
      assert (G' : GInv s') by exact (ginv_step _ _ _ CO GI Es).
      assert (R' : RInv s') by exact (rinv_step _ _ _ GI R1 Es).
      assert (K' : KInv s') by exact (kinv_step _ _ _ _ CO K1 Es).
      assert (NR : is_ret (tpc tk) = false) by (apply inside_not_ret; exact Ik).
      rewrite NR. cbn [negb]. rewrite andb_true_r.
      assert (MRk : Forall mret_ok (match l, tpc tk with
            | LRet _ _, CRet c r => mrets m ++ [(k, c, tgot tk, r)] | _, _ => mrets m end)) by exact MR'.
      split; [apply kinv_setpc; exact K'|].
      destruct (inside_step true (view tk (sh m)) l s' Ik Es) as [I'|Rt'].
      * (* still inside *)
        rewrite (inside_not_ret _ I'). split.
        { intros j t Hj. destruct (Nat.eq_dec k j) as [<-|N]; [rewrite (nth_upd_same _ _ _ _ Ek) in Hj; injection Hj as <-; unfold Local; cbn; destruct (pc s'); try exact I; discriminate I'|].
          rewrite nth_upd_other in Hj by exact N. eauto. }
        split; [exact MRk|]. right. eexists k, _. split; [eapply nth_upd_same; eauto|]. cbn [tpc].
        split; [exact I'|]. split.
        { destruct l; try exact Ow. exfalso. exact (inside_no_acquire true (view tk (sh m)) s' Ik Es). }
        split.
        { intros j t N Hj. rewrite nth_upd_other in Hj by congruence. eauto. }
        unfold view. cbn [tpc ttodo]. rewrite setpc_strip. rewrite ctl_setpc_self, ginv_setpc_self. auto.
      * (* the result is decided: the token is no longer this thread's business *)
        rewrite Rt'. split.
        { intros j t Hj. destruct (Nat.eq_dec k j) as [<-|N]; [rewrite (nth_upd_same _ _ _ _ Ek) in Hj; injection Hj as <-; apply local_of_ret; auto|].
          rewrite nth_upd_other in Hj by exact N. eauto. }
        split; [exact MRk|]. left. split.
        { intros j t Hj. destruct (Nat.eq_dec k j) as [<-|N]; [rewrite (nth_upd_same _ _ _ _ Ek) in Hj; injection Hj as <-; cbn; destruct (pc s'); try discriminate Rt'; reflexivity|].
          rewrite nth_upd_other in Hj by exact N. eauto. }
        apply ctl_ret_idle; assumption.
    + (* another thread steps while k holds the token *)
      pose proof (NI _ _ Nik Ei) as NIi.
      destruct (outside_step _ _ _ _ _ _ NIi Es) as [SL|[(c & -> & Ep & Ep' & ES)|[(c & r & c0 & r0 & -> & Ep & Ep' & Et' & ES)|(c & -> & Ep & Bf & Ep')]]].
      * destruct (shared_transfer _ _ _ _ (tpc tk) (ttodo tk) _ _ SL Es) as (P1 & T1 & s2 & S2 & E2 & P2 & T2).
        fold (view tk (sh m)) in S2.
        assert (K1 : KInv (view tk (sh m))) by (apply kinv_setpc; exact KI).
        assert (C2 : ctl_ok s2 = true) by exact (ctl_step _ _ _ _ CO S2).
        assert (G2 : GInv s2) by exact (ginv_step _ _ _ CO GI S2).
        assert (K2 : KInv s2) by exact (kinv_step _ _ _ _ CO K1 S2).
        assert (Tsame : {| ttodo := todo s'; tpc := pc s'; tgot := if is_ret (pc s') && negb (is_ret (tpc ti)) then got s' else tgot ti |} = ti).
        { rewrite P1, T1. destruct ti as [a b c]; cbn. destruct (is_ret b); reflexivity. }
        rewrite Tsame. split; [rewrite <- E2; apply kinv_setpc; exact K2|]. split.
        { intros j t Hj. destruct (Nat.eq_dec i j) as [<-|N]; [rewrite (nth_upd_same _ _ _ _ Ei) in Hj; injection Hj as <-; eauto|].
          rewrite nth_upd_other in Hj by exact N. eauto. }
        split; [destruct l; try discriminate SL; exact MR|]. right. exists k, tk.
        split; [rewrite nth_upd_other by exact Nik; exact Ek|]. split; [exact Ik|]. split; [destruct l; try discriminate SL; exact Ow|]. split.
        { intros j t N Hj. destruct (Nat.eq_dec i j) as [<-|N2]; [rewrite (nth_upd_same _ _ _ _ Ei) in Hj; injection Hj as <-; exact NIi|].
          rewrite nth_upd_other in Hj by exact N2. eauto. }
        unfold view. rewrite setpc_strip. rewrite (setpc_of_strip_eq s' s2) by (symmetry; exact E2).
        rewrite <- P2, <- T2. rewrite ctl_setpc_self, ginv_setpc_self. auto.
      * rewrite ES, <- NF. split; [exact KI|]. split.
        { intros j t Hj. destruct (Nat.eq_dec i j) as [<-|N]; [rewrite (nth_upd_same _ _ _ _ Ei) in Hj; injection Hj as <-; unfold Local; cbn; rewrite Ep'; exact I|].
          rewrite nth_upd_other in Hj by exact N. eauto. }
        split; [exact MR|]. right. exists k, tk.
        split; [rewrite nth_upd_other by exact Nik; exact Ek|]. split; [exact Ik|]. split; [exact Ow|]. split; [|auto].
        intros j t N Hj. destruct (Nat.eq_dec i j) as [<-|N2]; [rewrite (nth_upd_same _ _ _ _ Ei) in Hj; injection Hj as <-; cbn; rewrite Ep'; reflexivity|].
        rewrite nth_upd_other in Hj by exact N2. eauto.
      * rewrite ES, <- NF. split; [exact KI|]. split.
        { intros j t Hj. destruct (Nat.eq_dec i j) as [<-|N]; [rewrite (nth_upd_same _ _ _ _ Ei) in Hj; injection Hj as <-; unfold Local; cbn; rewrite Ep'; exact I|].
          rewrite nth_upd_other in Hj by exact N. eauto. }
        split; [exact MR'|]. right. exists k, tk.
        split; [rewrite nth_upd_other by exact Nik; exact Ek|]. split; [exact Ik|]. split; [exact Ow|]. split; [|auto].
        intros j t N Hj. destruct (Nat.eq_dec i j) as [<-|N2]; [rewrite (nth_upd_same _ _ _ _ Ei) in Hj; injection Hj as <-; cbn; rewrite Ep'; reflexivity|].
        rewrite nth_upd_other in Hj by exact N2. eauto.
      * (* acquireBusy while k holds the token: impossible *)
        exfalso. pose proof (inside_busy _ CO Ik) as B. unfold view in B. cbn in B. congruence.
Qed.

Lemma minv_run ls : forall m m', MInv m -> mrun true m ls = Some m' -> MInv m'.
Proof.
  induction ls as [|l r IH]; intros m m' HI HR; cbn in HR; [injection HR as <-; exact HI|].
  destruct (mstep true m l) as [m1|] eqn:E; [|discriminate]. eapply IH; [eapply minv_step; eauto|exact HR].
Qed.

(* ---------- deadlock freedom ---------- *)
Lemma mprogress m : MInv m -> (exists j t, nth_error (ths m) j = Some t /\ tpending t = true) ->
  exists il m', mstep true m il = Some m'.
Proof.
  intros (NF & KI & LO & MR & DIS) (j & t & Ej & P).
  assert (G : forall i ti, nth_error (ths m) i = Some ti -> ctl_ok (view ti (sh m)) = true -> pending (view ti (sh m)) = true ->
              exists il m', mstep true m il = Some m').
  { intros i ti Ei C Pn. destruct (progress _ C Pn) as (l & s' & Hs). exists (i, l). unfold mstep. rewrite Ei, Hs. eauto. }
  destruct DIS as [[NI CO]|(k & tk & Ek & Ik & Ow & NI & CO & GI)].
  - pose proof (NI _ _ Ej) as NIj. destruct (tpc t) eqn:Ep; try discriminate NIj.
    + apply (G j t Ej); [unfold view; rewrite Ep; apply ctl_idle_todo; rewrite <- NF; exact CO|].
      unfold pending, tpending in *. cbn. rewrite Ep in *. exact P.
    + apply (G j t Ej); [unfold view; rewrite Ep; apply ctl_idle_lock; rewrite <- NF; exact CO|].
      unfold pending. cbn. rewrite Ep. reflexivity.
    + (* CRet: LRet is enabled whatever the shared state *)
      clear G. exists (j, LRet c r). unfold mstep. rewrite Ej. unfold view. rewrite Ep. cbn.
      rewrite call_eqb_refl, result_eqb_refl. cbn. eauto.
  - apply (G k tk Ek CO). unfold pending. cbn. destruct (tpc tk); try discriminate Ik; reflexivity.
Qed.

(* ---------- termination ---------- *)
Definition lmu (t : thread) : nat := 10 * length (ttodo t) + wc (tpc t).
Definition smu (s : st) : nat :=
  3 * length (srv s) + wh (hp s) + (if watch s then 1 else 0) + (if stopped s then 0 else 1).
Definition sumf {A} (f : A -> nat) (l : list A) : nat := fold_right (fun x a => f x + a) 0 l.
Definition mmu (m : mst) : nat := sumf lmu (ths m) + smu (sh m).

Lemma mu_view t s : mu (view t s) = lmu t + smu s.
Proof. dst s. unfold mu, lmu, smu, view, setpc. cbn. lia. Qed.
Lemma smu_strip s : smu (strip s) = smu s.
Proof. dst s. reflexivity. Qed.
Lemma sumf_upd {A} (f : A -> nat) (l : list A) : forall i t x, nth_error l i = Some t -> sumf f (upd_nth l i x) + f t = sumf f l + f x.
Proof.
  unfold sumf. induction l as [|y r IH]; intros [|i] t x H; cbn in *; try discriminate.
  - injection H as ->. lia.
  - specialize (IH _ _ x H). lia.
Qed.

Lemma mmu_step fx m il m' : mstep fx m il = Some m' -> mmu m' < mmu m.
Proof.
  destruct il as [i l]. unfold mstep. destruct (nth_error (ths m) i) as [ti|] eqn:Ei; [|discriminate].
  destruct (step fx (view ti (sh m)) l) as [s'|] eqn:Es; [|discriminate]. intros H; injection H as <-.
  pose proof (mu_step _ _ _ _ Es) as M. rewrite mu_view in M.
  unfold mmu. cbn [ths sh]. rewrite smu_strip.
  set (t' := {| ttodo := todo s'; tpc := pc s'; tgot := _ |}).
  pose proof (sumf_upd lmu (ths m) i ti t' Ei) as S.
  assert (E : mu s' = lmu t' + smu s').
  { unfold mu, lmu, smu, t'. cbn. lia. }
  lia.
Qed.

Lemma mrun_bound fx : forall ls m m', mrun fx m ls = Some m' -> length ls + mmu m' <= mmu m.
Proof.
  induction ls as [|l r IH]; intros m m' HR; cbn in HR.
  - injection HR as <-. cbn. lia.
  - destruct (mstep fx m l) as [m1|] eqn:E; [|discriminate]. apply IH in HR. apply mmu_step in E. cbn [length]. lia.
Qed.

Definition ncalls_of (progs : list (list call)) : nat := sumf (@length call) progs.
Lemma mmu_init progs script : mmu (minit progs script) = 10 * ncalls_of progs + 3 * length script + 2.
Proof.
  unfold mmu, minit. cbn [ths sh]. rewrite smu_strip. unfold smu, init. cbn.
  assert (E : sumf lmu (map (fun p => {| ttodo := p; tpc := CIdle; tgot := [] |}) progs) = 10 * ncalls_of progs).
  { unfold ncalls_of, sumf. induction progs as [|p r IH]; [reflexivity|]. cbn [map fold_right] in *. rewrite IH. unfold lmu. cbn [ttodo tpc wc]. lia. }
  rewrite E. lia.
Qed.

(* every call is accounted for *)
Definition mcalls (m : mst) : nat :=
  length (mrets m) + sumf (fun t => length (ttodo t) + match tpc t with CIdle => 0 | _ => 1 end) (ths m).
Lemma rets_step fx s l s' : step fx s l = Some s' -> rets s = [] ->
  length (rets s') = match l, pc s with LRet _ _, CRet _ _ => 1 | _, _ => 0 end.
Proof.
  intros H R. dst s. cbn in R. subst rets0. destruct l; cbn in H; crush_step H; subst; cbn;
    unfold deliver, die, take, upd, set_busy, set_pst, set_stopped, add_cb; cbn;
    repeat match goal with |- context[match ?b with _ => _ end] => destruct b; cbn end; reflexivity.
Qed.
Lemma mcalls_step fx m il m' : mstep fx m il = Some m' -> mcalls m' = mcalls m.
Proof.
  destruct il as [i l]. unfold mstep. destruct (nth_error (ths m) i) as [ti|] eqn:Ei; [|discriminate].
  destruct (step fx (view ti (sh m)) l) as [s'|] eqn:Es; [|discriminate]. intros H; injection H as <-.
  unfold mcalls. cbn [ths mrets].
  pose proof (ncalls_step _ _ _ _ Es) as N. unfold ncalls in N. cbn [view setpc rets todo pc length] in N.
  pose proof (rets_step _ _ _ _ Es eq_refl) as RL. cbn [view setpc pc] in RL.
  match goal with |- context[upd_nth (ths m) i ?x] => set (t' := x) end.
  pose proof (sumf_upd (fun t => length (ttodo t) + match tpc t with CIdle => 0 | _ => 1 end) (ths m) i ti t' Ei) as S.
  cbn beta in S. unfold t' in S at 2 3. cbn [ttodo tpc] in S.
  assert (ML : length (match l, tpc ti with LRet _ _, CRet c r => mrets m ++ [(i, c, tgot ti, r)] | _, _ => mrets m end)
               = length (mrets m) + match l, tpc ti with LRet _ _, CRet _ _ => 1 | _, _ => 0 end).
  { destruct l; try lia. destruct (tpc ti); try lia. rewrite app_length. reflexivity. }
  cbn [view setpc pc]. rewrite ML. lia.
Qed.
Lemma mcalls_run fx : forall ls m m', mrun fx m ls = Some m' -> mcalls m' = mcalls m.
Proof.
  induction ls as [|l r IH]; intros m m' HR; cbn in HR; [injection HR as <-; reflexivity|].
  destruct (mstep fx m l) as [m1|] eqn:E; [|discriminate]. rewrite (IH _ _ HR). eapply mcalls_step; eauto.
Qed.
Lemma mcalls_init progs script : mcalls (minit progs script) = ncalls_of progs.
Proof.
  unfold mcalls, minit, ncalls_of, sumf. cbn [ths mrets length]. induction progs as [|p r IH]; [reflexivity|].
  cbn [map fold_right] in *. cbn [ttodo tpc]. lia.
Qed.

Lemma sumf_zero {A} (f : A -> nat) (l : list A) : (forall j t, nth_error l j = Some t -> f t = 0) -> sumf f l = 0.
Proof.
  unfold sumf. induction l as [|x r IH]; intros H; [reflexivity|]. cbn [fold_right].
  rewrite (H 0 x eq_refl). rewrite IH; [reflexivity|]. intros j t Hj. exact (H (S j) t Hj).
Qed.

(* while a batch is outstanding the token is held (except in the window in which the failing
   handler has released it and is about to stop the protocol) *)
Lemma ctl_batch_busy s : ctl_ok s = true -> stopped s = false -> pst s <> PIdle -> hp s <> HFail -> busy s = true.
Proof.
  intros C S P F. dst s. cbn in S, P, F. subst stopped0.
  destruct hp0; try congruence; destruct pc0; rdc in C; split_and; try discriminate; try reflexivity; try congruence;
    destruct busy0; try reflexivity; rdc in C; split_and; try discriminate; congruence.
Qed.
Lemma minv_batch_busy m : MInv m -> stopped (sh m) = false -> pst (sh m) <> PIdle -> hp (sh m) <> HFail -> busy (sh m) = true.
Proof.
  intros (NF & KI & LO & MR & [[NI CO]|(k & tk & Ek & Ik & Ow & NI & CO & GI)]) S P F.
  - apply ctl_batch_busy; assumption.
  - exact (ctl_batch_busy (view tk (sh m)) CO S P F).
Qed.
