(* C23 - invariants of the block-fetch client LTS, for every label sequence. *)
From V Require Import Lib.Base C23.Model.

(* ---------- equality tests ---------- *)
Lemma point_eqb_refl p : point_eqb p p = true.
Proof. unfold point_eqb. rewrite N.eqb_refl. cbn. apply bytes_eqb_eq. reflexivity. Qed.
Lemma blk_eqb_refl b : blk_eqb b b = true.
Proof. unfold blk_eqb. rewrite N.eqb_refl. cbn. apply bytes_eqb_eq. reflexivity. Qed.
Lemma call_eqb_refl c : call_eqb c c = true.
Proof. destruct c; cbn; rewrite ?point_eqb_refl; reflexivity. Qed.
Lemma result_eqb_refl r : result_eqb r r = true.
Proof. destruct r as [|b|e]; cbn; [reflexivity|apply blk_eqb_refl|destruct e; reflexivity]. Qed.
Lemma point_eqb_eq p q : point_eqb p q = true -> p = q.
Proof.
  destruct p, q; unfold point_eqb; cbn. intros H. apply andb_true_iff in H as [A B].
  apply N.eqb_eq in A. apply bytes_eqb_eq in B. congruence.
Qed.
Lemma blk_eqb_eq a b : blk_eqb a b = true -> a = b.
Proof.
  destruct a, b; unfold blk_eqb; cbn. intros H. apply andb_true_iff in H as [A B].
  apply N.eqb_eq in A. apply bytes_eqb_eq in B. congruence.
Qed.
Lemma call_eqb_eq c d : call_eqb c d = true -> c = d.
Proof.
  destruct c, d; cbn; try discriminate; intros H.
  - apply point_eqb_eq in H. congruence.
  - apply andb_true_iff in H as [A B]. apply point_eqb_eq in A. apply point_eqb_eq in B. congruence.
Qed.
Lemma matches_spec p b : matches p b = true <-> bslot b = pslot p /\ bhash b = phash p.
Proof.
  unfold matches. rewrite andb_true_iff, N.eqb_eq, bytes_eqb_eq. reflexivity.
Qed.

(* ---------- the specification of GetBlock as a function of the server's reply ---------- *)
Fixpoint blocks_only (l : list smsg) : bool :=
  match l with [] => true | Block (Some _) :: r => blocks_only r | _ => false end.
Fixpoint blocks_then_done (l : list smsg) : bool :=
  match l with
  | [BatchDone] => true
  | Block (Some _) :: r => blocks_then_done r
  | _ => false
  end.

(* What GetBlock p must return when the server's (state-machine conforming)
   reply is g and nothing fails: written from the property text. *)
Definition spec_single (p : point) (g : list smsg) : result :=
  match g with
  | [NoBlocks] => RErr ENotFound
  | StartBatch :: r =>
      match r with
      | [BatchDone] => RErr ENoBlock
      | Block (Some b) :: r' =>
          match r' with
          | [BatchDone] => if matches p b then RBlock b else RErr EMismatch
          | _ => if blocks_then_done r' then RErr EExtra else RErr EShutdown
          end
      | _ => RErr EShutdown
      end
  | _ => RErr EShutdown
  end.

Lemma spec_single_ok p g b :
  spec_single p g = RBlock b -> g = [StartBatch; Block (Some b); BatchDone] /\ matches p b = true.
Proof.
  unfold spec_single. intros H.
  destruct g as [|m g]; [discriminate|]. destruct m; try discriminate.
  2:{ destruct g; discriminate. }
  destruct g as [|m g]; [discriminate|]. destruct m as [| |ob|]; try discriminate.
  2:{ destruct g; discriminate. }
  destruct ob as [b0|]; [|discriminate].
  destruct g as [|m g]; [cbn in H; discriminate|].
  destruct m as [| |ob|].
  - cbn in H. discriminate.
  - cbn in H. discriminate.
  - destruct (blocks_then_done (Block ob :: g)); discriminate.
  - destruct g.
    + destruct (matches p b0) eqn:E; [|discriminate]. injection H as <-. auto.
    + cbn in H. discriminate.
Qed.

Lemma blocks_then_done_app more : blocks_only more = true -> blocks_then_done (more ++ [BatchDone]) = true.
Proof.
  induction more as [|m r IH]; [reflexivity|]. cbn. destruct m as [| |[b|]|]; try discriminate.
  intros H. specialize (IH H). destruct (r ++ [BatchDone]) eqn:E; [destruct r; discriminate|]. exact IH.
Qed.
Lemma blocks_only_app a b : blocks_only a = true -> blocks_only b = true -> blocks_only (a ++ b) = true.
Proof. induction a as [|m r IH]; cbn; auto. destruct m as [| |[x|]|]; auto. Qed.

Definition is_nil {A} (l : list A) : bool := match l with [] => true | _ => false end.

Lemma spec_single_extra p b more :
  blocks_only more = true -> is_nil more = false ->
  spec_single p (StartBatch :: Block (Some b) :: more ++ [BatchDone]) = RErr EExtra.
Proof.
  intros B N. unfold spec_single.
  destruct more as [|m r]; [discriminate|].
  pose proof (blocks_then_done_app _ B) as D.
  cbn [app] in *. destruct m as [| |[x|]|]; try discriminate.
  rewrite D. reflexivity.
Qed.

(* ---------- control invariant (finite part of the state) ---------- *)
Definition pst_eqb (a b : pstate) :=
  match a, b with PIdle, PIdle | PBusy, PBusy | PStreaming, PStreaming => true | _, _ => false end.

Definition outside_ok (s : st) : bool :=
  if busy s then watch s && usecb s && (stopped s || pst_eqb (pst s) PStreaming)
  else negb (watch s) && (stopped s || pst_eqb (pst s) PIdle).

Definition ctl_ok (s : st) : bool :=
  match hp s with
  | HStart =>
      match pc s with CWaitStart c => Bool.eqb (usecb s) (is_range c) | _ => false end
      && busy s && negb (watch s) && pst_eqb (pst s) PStreaming
  | HNoBlocks =>
      match pc s with CWaitStart c => true | _ => false end
      && busy s && negb (watch s) && pst_eqb (pst s) PIdle
  | HCbBlock _ =>
      match pc s with CIdle | CLock _ | CRet (GetRange _ _) ROk => true | _ => false end
      && busy s && watch s && usecb s && pst_eqb (pst s) PStreaming
  | HBlockChan _ =>
      match pc s with CWaitBlock _ | CWaitDone _ _ _ => true | _ => false end
      && busy s && negb (watch s) && negb (usecb s) && pst_eqb (pst s) PStreaming
  | HCbDone =>
      match pc s with CIdle | CLock _ | CRet (GetRange _ _) ROk => true | _ => false end
      && busy s && watch s && usecb s && pst_eqb (pst s) PIdle
  | HDoneChan =>
      match pc s with CWaitBlock _ | CWaitDone _ _ _ => true | _ => false end
      && busy s && negb (watch s) && negb (usecb s) && pst_eqb (pst s) PIdle
  | HIdle =>
      match pc s with
      | CIdle | CLock _ => outside_ok s
      | CRet c r => outside_ok s && (match c, r with GetRange _ _, ROk => true | _, _ => negb (busy s) end)
      | CSend c => busy s && negb (watch s) && (stopped s || pst_eqb (pst s) PIdle) && Bool.eqb (usecb s) (is_range c)
      | CWaitStart c => busy s && negb (watch s) && (stopped s || pst_eqb (pst s) PBusy) && Bool.eqb (usecb s) (is_range c)
      | CWaitBlock _ | CWaitDone _ _ _ =>
          busy s && negb (watch s) && negb (usecb s) && (stopped s || pst_eqb (pst s) PStreaming)
      end
  | HFail =>
      (* busy was released by the failing handler; whoever holds it now acquired it afterwards *)
      negb (watch s) && pst_eqb (pst s) PStreaming &&
      match pc s with
      | CIdle | CLock _ => negb (busy s)
      | CRet c r => negb (busy s) && (match c, r with GetRange _ _, ROk => true | _, _ => negb (busy s) end)
      | CSend c | CWaitStart c => busy s && Bool.eqb (usecb s) (is_range c)
      | _ => false
      end
  | HDead =>
      stopped s &&
      match pc s with
      | CIdle | CLock _ => if busy s then watch s else negb (watch s)
      | CRet c r => (if busy s then watch s else negb (watch s))
                    && (match c, r with GetRange _ _, ROk => true | _, _ => negb (busy s) end)
      | _ => busy s && negb (watch s)
      end
  end.

Ltac crush_step H :=
  repeat match type of H with
  | match ?x with _ => _ end = Some _ => destruct x eqn:?; try discriminate H
  | (if ?x then _ else _) = Some _ => destruct x eqn:?; try discriminate H
  end;
  try (injection H as <-).

Ltac split_and := repeat match goal with
  | H : _ && _ = true |- _ => apply andb_true_iff in H; destruct H
  | H : negb _ = true |- _ => apply negb_true_iff in H
  | H : Bool.eqb _ _ = true |- _ => apply Bool.eqb_prop in H
  | H : _ || _ = true |- _ => apply orb_true_iff in H; destruct H
  | H : pst_eqb ?a ?b = true |- _ => destruct a; try discriminate H; clear H
  | H : (if ?b then _ else _) = true |- _ => destruct b eqn:?
  | H : match ?x with _ => _ end = true |- _ => destruct x eqn:?; try discriminate H
  | H : true = true |- _ => clear H
  | H : false = true |- _ => discriminate H
  end; subst.
Ltac dvars := repeat match goal with
  | m : smsg |- _ => destruct m
  | o : option blk |- _ => destruct o
  | c : call |- _ => destruct c
  | r : result |- _ => destruct r
  end.
(* call-by-value unfolding: the nested record updates must be evaluated before
   they are projected, otherwise the term grows exponentially *)
Tactic Notation "rdc" := cbv [ctl_ok outside_ok deliver die upd set_busy set_stopped set_pst add_cb take
  cfg cfg_block cfg_raw cfg_done todo pc hp srv pst busy usecb watch stopped wire cblog rets got cbbase pst_eqb negb andb orb Bool.eqb is_range].
Tactic Notation "rdc" "in" hyp(H) := cbv [ctl_ok outside_ok deliver die upd set_busy set_stopped set_pst add_cb take
  cfg cfg_block cfg_raw cfg_done todo pc hp srv pst busy usecb watch stopped wire cblog rets got cbbase pst_eqb negb andb orb Bool.eqb is_range] in H.
Ltac fin := dvars; rdc;
  repeat (match goal with |- context[if ?b then _ else _] => is_var b; destruct b end; rdc);
  try reflexivity.

Lemma ctl_step fx s l s' : ctl_ok s = true -> step fx s l = Some s' -> ctl_ok s' = true.
Proof.
  intros HI Hs.
  destruct s as [[cb0 cr0 cd0] todo0 pc0 hp0 srv0 pst0 busy0 usecb0 watch0 stopped0 wire0 cblog0 rets0 got0 cbbase0].
  destruct l; cbn in Hs; crush_step Hs.
  all: subst; rdc in HI.
  all: split_and.
  all: fin.
  all: try congruence.
  all: try (cbn in *; congruence).
Qed.

Lemma ctl_init c prog script : ctl_ok (init c prog script) = true.
Proof. reflexivity. Qed.

Lemma run_inv {P : st -> Prop} fx :
  (forall s l s', P s -> step fx s l = Some s' -> P s') ->
  forall ls s s', P s -> run fx s ls = Some s' -> P s'.
Proof.
  intros HS. induction ls as [|l r IH]; intros s s' HP HR; cbn in HR.
  - injection HR as <-. exact HP.
  - destruct (step fx s l) as [s1|] eqn:E; [|discriminate]. eapply IH; [eapply HS; eauto|exact HR].
Qed.

Lemma ctl_run fx ls s s' : ctl_ok s = true -> run fx s ls = Some s' -> ctl_ok s' = true.
Proof. apply (run_inv (P := fun s => ctl_ok s = true) fx). intros; eapply ctl_step; eauto. Qed.

(* ---------- progress: with the fix no reachable state is stuck while a call is pending ---------- *)
Ltac bools :=
  repeat match goal with
  | b : bool |- _ => destruct b
  | q : pstate |- _ => destruct q
  end.
Lemma err_eqb_refl e : err_eqb e e = true.
Proof. destruct e; reflexivity. Qed.
Ltac try_l l := solve [exists l; cbn; rewrite ?call_eqb_refl, ?result_eqb_refl, ?point_eqb_refl, ?blk_eqb_refl, ?err_eqb_refl; cbn; eauto].

Lemma progress s : ctl_ok s = true -> pending s = true -> exists l s', step true s l = Some s'.
Proof.
  intros HI HP.
  destruct s as [[cb0 cr0 cd0] todo0 pc0 hp0 srv0 pst0 busy0 usecb0 watch0 stopped0 wire0 cblog0 rets0 got0 cbbase0].
  unfold pending in HP; cbn in HP.
  destruct pc0 as [|c|c|c|p|p b e|c r]; [destruct todo0 as [|c t]; [discriminate|]; try_l (LCall c)|..];
  destruct hp0; rdc in HI; split_and; try discriminate; bools; try discriminate;
  first [ try_l LHandlerErr | try_l LAcquire | try_l LQueue | try_l LRecvExit | try_l LSendFail | try_l LRvStart | try_l LRvNoBlocks
        | try_l LRvBlock | try_l LRvDone | try_l LDoneCase | try_l LWatch | try_l LCbDone
        | match goal with |- context[HCbBlock ?b] => try_l (LCbBlock b) end
        | match goal with |- context[CSend ?c] => try_l (LWire c) end
        | match goal with |- context[CRet ?c ?r] => try_l (LRet c r) end
        | try_l LFail
        | destruct c; try_l LRvStart ].
Qed.

(* ---------- termination: every label strictly decreases a measure ---------- *)
Definition wc (c : cpc) : nat :=
  match c with CIdle => 0 | CRet _ _ => 1 | CWaitDone _ _ _ => 2 | CWaitBlock _ => 3 | CWaitStart _ => 4
             | CSend _ => 5 | CLock _ => 6 end.
Definition wh (h : hpc) : nat := match h with HDead => 0 | HIdle => 1 | _ => 2 end.  (* HFail: 2 *)
Definition mu (s : st) : nat :=
  10 * length (todo s) + wc (pc s) + 3 * length (srv s) + wh (hp s)
  + (if watch s then 1 else 0) + (if stopped s then 0 else 1).

Tactic Notation "rdm" := cbv [orb mu wc wh deliver die upd set_busy set_stopped set_pst add_cb take
  cfg cfg_block cfg_raw cfg_done todo pc hp srv pst busy usecb watch stopped wire cblog rets got cbbase is_range].

Lemma mu_step fx s l s' : step fx s l = Some s' -> mu s' < mu s.
Proof.
  intros Hs.
  destruct s as [[cb0 cr0 cd0] todo0 pc0 hp0 srv0 pst0 busy0 usecb0 watch0 stopped0 wire0 cblog0 rets0 got0 cbbase0].
  destruct l; cbn in Hs; crush_step Hs; subst; dvars; rdm;
    repeat (match goal with |- context[if ?b then _ else _] => is_var b; destruct b end; rdm);
    cbn [length]; try lia; try discriminate.
Qed.

Lemma run_bound fx : forall ls s s', run fx s ls = Some s' -> length ls + mu s' <= mu s.
Proof.
  induction ls as [|l r IH]; intros s s' HR; cbn in HR.
  - injection HR as <-. cbn. lia.
  - destruct (step fx s l) as [s1|] eqn:E; [|discriminate].
    apply IH in HR. apply mu_step in E. cbn [length]. lia.
Qed.

(* ---------- what GetBlock returns (ghost reply [got]) ---------- *)
Definition GInv (s : st) : Prop :=
  match pc s, hp s with
  | CSend _, HIdle => got s = []
  | CWaitStart _, HIdle => got s = []
  | CWaitStart _, HStart => got s = [StartBatch]
  | CWaitStart _, HNoBlocks => got s = [NoBlocks]
  | CWaitBlock _, HIdle => got s = [StartBatch]
  | CWaitBlock _, HBlockChan b => got s = [StartBatch; Block (Some b)]
  | CWaitBlock _, HDoneChan => got s = [StartBatch; BatchDone]
  | CWaitDone _ b e, HIdle =>
      exists more, got s = StartBatch :: Block (Some b) :: more /\ blocks_only more = true /\ e = negb (is_nil more)
  | CWaitDone _ b e, HBlockChan b' =>
      exists more, got s = StartBatch :: Block (Some b) :: more ++ [Block (Some b')]
                   /\ blocks_only more = true /\ e = negb (is_nil more)
  | CWaitDone _ b e, HDoneChan =>
      exists more, got s = StartBatch :: Block (Some b) :: more ++ [BatchDone]
                   /\ blocks_only more = true /\ e = negb (is_nil more)
  | CRet (GetBlock p) r, _ => r = RErr EShutdown \/ r = spec_single p (got s)
  | _, _ => True
  end.

Definition ret_ok (x : call * list smsg * result) : Prop :=
  match x with
  | (GetBlock p, g, r) => r = RErr EShutdown \/ r = spec_single p g
  | (GetRange _ _, _, r) => r = ROk \/ r = RErr ENotFound \/ r = RErr EShutdown
  end.

Definition RInv (s : st) : Prop :=
  Forall ret_ok (rets s)
  /\ match pc s with CRet (GetRange _ _) r => r = ROk \/ r = RErr ENotFound \/ r = RErr EShutdown | _ => True end.

Tactic Notation "rdg" := cbv [orb GInv RInv deliver die upd set_busy set_stopped set_pst add_cb take
  cfg cfg_block cfg_raw cfg_done todo pc hp srv pst busy usecb watch stopped wire cblog rets got cbbase is_range].
Tactic Notation "rdg" "in" hyp(H) := cbv [orb GInv RInv deliver die upd set_busy set_stopped set_pst add_cb take
  cfg cfg_block cfg_raw cfg_done todo pc hp srv pst busy usecb watch stopped wire cblog rets got cbbase is_range] in H.

Lemma is_nil_app {A} (l : list A) x : is_nil (l ++ [x]) = false.
Proof. destruct l; reflexivity. Qed.

Lemma ginv_step s l s' : ctl_ok s = true -> GInv s -> step true s l = Some s' -> GInv s'.
Proof.
  intros HC HI Hs.
  destruct s as [[cb0 cr0 cd0] todo0 pc0 hp0 srv0 pst0 busy0 usecb0 watch0 stopped0 wire0 cblog0 rets0 got0 cbbase0].
  destruct l; cbn in Hs; crush_step Hs; subst; rdc in HC; split_and; rdg in HI; dvars; rdg;
    repeat (match goal with |- context[if ?b then _ else _] => is_var b; destruct b end; rdg);
    try exact I; try discriminate; try (subst; reflexivity); try (left; reflexivity); try assumption.
  all: try (destruct HI as (more & -> & HB & ->)).
  all: try (subst got0).
  all: try (right; reflexivity).
  - exists more. auto.
  - exists more. auto.
  - exists []. auto.
  - exists (more ++ [Block (Some b)]). split; [reflexivity|].
    split; [apply blocks_only_app; auto|rewrite is_nil_app; reflexivity].
  - destruct HI as (more & -> & HB & HE). right. symmetry. apply spec_single_extra; auto.
    destruct (is_nil more); [discriminate|reflexivity].
  - destruct HI as (more & -> & HB & HE). destruct more; [|discriminate]. right. reflexivity.
Qed.

Lemma rinv_step s l s' : GInv s -> RInv s -> step true s l = Some s' -> RInv s'.
Proof.
  intros HG [HR HP] Hs.
  destruct s as [[cb0 cr0 cd0] todo0 pc0 hp0 srv0 pst0 busy0 usecb0 watch0 stopped0 wire0 cblog0 rets0 got0 cbbase0].
  destruct l; cbn in Hs; crush_step Hs; subst; cbn in HR, HP; rdg in HG; dvars; rdg;
    repeat (match goal with |- context[if ?b then _ else _] => is_var b; destruct b end; rdg);
    try (split; [assumption|]; try exact I; auto; fail).
  all: split; [|exact I]; apply Forall_app; split; [assumption|]; constructor; [|constructor].
  all: match goal with H : call_eqb _ _ && result_eqb _ _ = true |- _ => clear H end.
  all: cbn; auto.
  all: destruct hp0; auto.
Qed.

(* callbacks: the log is the image of the accepted messages, in order *)
Definition cb_of (c : config) (m : smsg) : list cbev :=
  match m with
  | Block (Some b) => if cfg_block c || cfg_raw c then [CbBlock b] else []
  | Block None => if cfg_block c then [] else if cfg_raw c then [CbBlock rawnone] else []
  | BatchDone => if cfg_done c then [CbDone] else []
  | _ => []
  end.
Definition cbs_of (c : config) (g : list smsg) : list cbev := flat_map (cb_of c) g.
Definition pendingcb (h : hpc) : list cbev :=
  match h with HCbBlock b => [CbBlock b] | HCbDone => [CbDone] | _ => [] end.
Definition KInv (s : st) : Prop :=
  cblog s ++ pendingcb (hp s) = cbbase s ++ (if usecb s then cbs_of (cfg s) (got s) else []).

Lemma cbs_of_app c a b : cbs_of c (a ++ b) = cbs_of c a ++ cbs_of c b.
Proof. unfold cbs_of. apply flat_map_app. Qed.

Tactic Notation "rdk" := cbv [orb KInv pendingcb deliver die upd set_busy set_stopped set_pst add_cb take
  cfg cfg_block cfg_raw cfg_done todo pc hp srv pst busy usecb watch stopped wire cblog rets got cbbase is_range].
Tactic Notation "rdk" "in" hyp(H) := cbv [orb KInv pendingcb deliver die upd set_busy set_stopped set_pst add_cb take
  cfg cfg_block cfg_raw cfg_done todo pc hp srv pst busy usecb watch stopped wire cblog rets got cbbase is_range] in H.

Lemma kinv_step fx s l s' : ctl_ok s = true -> KInv s -> step fx s l = Some s' -> KInv s'.
Proof.
  intros HC HI Hs.
  destruct s as [[cb0 cr0 cd0] todo0 pc0 hp0 srv0 pst0 busy0 usecb0 watch0 stopped0 wire0 cblog0 rets0 got0 cbbase0].
  destruct l; cbn in Hs; crush_step Hs; subst; rdk in HI; dvars; rdk;
    repeat (match goal with |- context[if ?b then _ else _] => is_var b; destruct b end; rdk);
    rewrite ?cbs_of_app, ?app_nil_r in *; cbn [cbs_of flat_map app] in *; rewrite ?app_nil_r in *;
    try assumption; try discriminate.
  all: try (rewrite app_assoc; rewrite <- HI; rewrite <- ?app_assoc; reflexivity).
  all: try (rewrite <- HI; rewrite <- ?app_assoc; reflexivity).
  all: rdc in HC; split_and; try discriminate; cbn [pendingcb]; rewrite ?app_nil_r; auto.
Qed.

(* every call of the program is accounted for *)
Definition ncalls (s : st) : nat :=
  length (rets s) + length (todo s) + match pc s with CIdle => 0 | _ => 1 end.
Lemma ncalls_step fx s l s' : step fx s l = Some s' -> ncalls s' = ncalls s.
Proof.
  intros Hs.
  destruct s as [[cb0 cr0 cd0] todo0 pc0 hp0 srv0 pst0 busy0 usecb0 watch0 stopped0 wire0 cblog0 rets0 got0 cbbase0].
  destruct l; cbn in Hs; crush_step Hs; subst; dvars;
    cbv [orb ncalls deliver die upd set_busy set_stopped set_pst add_cb take cfg cfg_block cfg_raw cfg_done todo pc hp srv pst busy usecb watch stopped wire cblog rets got cbbase is_range];
    repeat (match goal with |- context[if ?b then _ else _] => is_var b; destruct b end;
            cbv [orb ncalls deliver die upd set_busy set_stopped set_pst add_cb take cfg cfg_block cfg_raw cfg_done todo pc hp srv pst busy usecb watch stopped wire cblog rets got cbbase is_range]);
    rewrite ?app_length; cbn [length]; try lia; try discriminate.
Qed.

Definition Inv (s : st) : Prop := ctl_ok s = true /\ GInv s /\ RInv s /\ KInv s.
Lemma inv_init c prog script : Inv (init c prog script).
Proof. repeat split; cbn; auto. Qed.
Lemma inv_step s l s' : Inv s -> step true s l = Some s' -> Inv s'.
Proof.
  intros (A & B & C & D) Hs. repeat split.
  - eapply ctl_step; eauto.
  - eapply ginv_step; eauto.
  - eapply rinv_step; eauto.
  - eapply rinv_step; eauto.
  - eapply kinv_step; eauto.
Qed.
Lemma inv_run ls : forall s s', Inv s -> run true s ls = Some s' -> Inv s'.
Proof. apply (run_inv (P := Inv) true). exact inv_step. Qed.
Lemma ncalls_run fx ls : forall s s', run fx s ls = Some s' -> ncalls s' = ncalls s.
Proof.
  induction ls as [|l r IH]; intros s s' HR; cbn in HR.
  - injection HR as <-. reflexivity.
  - destruct (step fx s l) as [s1|] eqn:E; [|discriminate]. rewrite (IH _ _ HR). eapply ncalls_step; eauto.
Qed.
