(* C23 - block-fetch client logic (protocol/blockfetch/client.go) as a labelled
   transition system.  Threads: the API caller, the engine's recvLoop running
   the message handlers, the (scripted) server.  All three Go channels
   (startBatchResultChan, blockChan, batchDoneChan) are UNBUFFERED: a send and
   the matching receive are one joint rendezvous step.

   [fx] selects the code that is modelled:
     fx = true   the tree with fixes/C23-getblock-hash-check.patch (GetBlock also receives
                 from batchDoneChan while waiting for the block, drains extra
                 blocks while waiting for BatchDone, compares slot and hash)
     fx = false  the pinned tree (no such alternatives, no comparison)

   Engine abstraction (the engine itself is C11-C13): SendMessage performs the
   client-agency transition at once; recvLoop takes the next server message only
   when the state map gives the server agency, performs transitionState and
   then runs the handler; a handler error or a message that the state map does
   not allow stops the protocol and ends recvLoop; doneChan is closed only when
   recvLoop has returned (hpc = HDead) - so the `case <-c.DoneChan()` arms inside
   handlers can never fire and are omitted. *)
From V Require Import Lib.Base.

Record point := { pslot : N; phash : bytes }.
Record blk := { bslot : N; bhash : bytes }.   (* SlotNumber(), Hash() of a decoded block *)

Inductive smsg := StartBatch | NoBlocks | Block (b : option blk) (* None: undecodable *) | BatchDone.
Inductive call := GetBlock (p : point) | GetRange (a e : point).
Inductive err := ENotFound | ENoBlock | EExtra | EMismatch | EShutdown.
Inductive result := ROk | RBlock (b : blk) | RErr (e : err).
Inductive pstate := PIdle | PBusy | PStreaming.
Inductive cbev := CbBlock (b : blk) | CbDone.

(* program counter of the API caller *)
Inductive cpc :=
| CIdle                                   (* between API calls *)
| CLock (c : call)                        (* acquireBusy: busyMutex.Lock() *)
| CSend (c : call)                        (* holds busy; about to SendMessage(RequestRange) *)
| CWaitStart (c : call)                   (* select startBatchResultChan | protocolDone *)
| CWaitBlock (p : point)                  (* GetBlock: select blockChan | [fx] batchDoneChan | protocolDone *)
| CWaitDone (p : point) (b : blk) (extra : bool) (* GetBlock: select [fx] blockChan | batchDoneChan | protocolDone *)
| CRet (c : call) (r : result).           (* result decided (busy released where the code does); about to return *)

(* program counter of recvLoop / the message handlers *)
Inductive hpc :=
| HIdle                 (* waiting for recvReady and the next message *)
| HStart                (* handleStartBatch: startBatchResultChan <- nil *)
| HNoBlocks             (* handleNoBlocks:   startBatchResultChan <- err *)
| HCbBlock (b : blk)    (* handleBlock, callback mode: about to call BlockFunc *)
| HBlockChan (b : blk)  (* handleBlock, GetBlock mode: blockChan <- block *)
| HCbDone               (* handleBatchDone, callback mode: BatchDoneFunc, then releaseCurrentBusy *)
| HDoneChan             (* handleBatchDone, GetBlock mode: batchDoneChan <- struct{}{} *)
| HFail                 (* handleBlock, callback mode, decode error: releaseCurrentBusy() done, about to
                           return the error (SendError -> Stop).  In this window busy is free while the
                           protocol is not yet stopped: another call can acquire it and queue a request *)
| HDead.                (* recvLoop returned; doneChan closed *)

(* the optional callbacks of blockfetch.Config that the client logic looks at *)
Record config := {
  cfg_block : bool;   (* config.BlockFunc != nil *)
  cfg_raw : bool;     (* config.BlockRawFunc != nil (takes precedence in the callback) *)
  cfg_done : bool     (* config.BatchDoneFunc != nil *)
}.
(* what BlockRawFunc is shown for a block that does not decode (raw mode without BlockFunc never decodes) *)
(* every optional callback configured (BlockFunc + BatchDoneFunc) *)
Definition cfg_all : config := {| cfg_block := true; cfg_raw := false; cfg_done := true |}.
Definition rawnone : blk := {| bslot := 0; bhash := [] |}.

Record st := {
  cfg : config;           (* constant *)
  todo : list call;       (* the client program: API calls still to be made *)
  pc : cpc;
  hp : hpc;
  srv : list smsg;        (* server messages not yet taken by recvLoop (wire + recvQueue), FIFO *)
  pst : pstate;           (* protocol state of the engine *)
  busy : bool;            (* busyMutex held (busyLocked) *)
  usecb : bool;           (* blockUseCallback *)
  watch : bool;           (* a releaseBusyOnProtocolDone goroutine waits for the current token *)
  stopped : bool;         (* protocol stopped (SendError/Stop): stopChan closed *)
  wire : list call;       (* RequestRange messages sent *)
  cblog : list cbev;      (* user callbacks invoked *)
  rets : list (call * list smsg * result);  (* returned calls with the reply they saw (ghost) *)
  got : list smsg;        (* ghost: messages accepted by the state machine since the last acquireBusy *)
  cbbase : list cbev      (* ghost: cblog at the last acquireBusy *)
}.

Inductive label :=
(* observable *)
| LCall (c : call) | LWire (c : call) | LCbBlock (b : blk) | LCbDone | LRet (c : call) (r : result)
(* internal *)
| LAcquire | LSendFail | LDeliver | LRvStart | LRvNoBlocks | LRvBlock | LRvDone
| LDoneCase | LRecvExit | LWatch
| LHandlerErr   (* the handler returns its error: SendError -> Stop, recvLoop returns *)
| LQueue        (* SendMessage while the server has agency: the request is queued, never written *)
| LFail.   (* the state timer of Busy/Streaming fires: SendError -> Stop *)

Definition point_eqb (p q : point) := N.eqb (pslot p) (pslot q) && bytes_eqb (phash p) (phash q).
Definition blk_eqb (a b : blk) := N.eqb (bslot a) (bslot b) && bytes_eqb (bhash a) (bhash b).
Definition call_eqb (c d : call) :=
  match c, d with
  | GetBlock p, GetBlock q => point_eqb p q
  | GetRange a e, GetRange a' e' => point_eqb a a' && point_eqb e e'
  | _, _ => false
  end.
Definition err_eqb (a b : err) :=
  match a, b with
  | ENotFound, ENotFound | ENoBlock, ENoBlock | EExtra, EExtra | EMismatch, EMismatch | EShutdown, EShutdown => true
  | _, _ => false end.
Definition result_eqb (a b : result) :=
  match a, b with
  | ROk, ROk => true | RBlock x, RBlock y => blk_eqb x y | RErr x, RErr y => err_eqb x y | _, _ => false end.

(* the comparison added by the fix: block.SlotNumber() == point.Slot && block.Hash() == point.Hash *)
Definition matches (p : point) (b : blk) := N.eqb (bslot b) (pslot p) && bytes_eqb (bhash b) (phash p).

Definition is_range (c : call) := match c with GetRange _ _ => true | _ => false end.

(* record update helpers *)
Definition upd (s : st) (pc' : cpc) (hp' : hpc) : st :=
  {| cfg := cfg s; todo := todo s; pc := pc'; hp := hp'; srv := srv s; pst := pst s; busy := busy s; usecb := usecb s;
     watch := watch s; stopped := stopped s; wire := wire s; cblog := cblog s; rets := rets s;
     got := got s; cbbase := cbbase s |}.
Definition set_busy (s : st) (b w : bool) : st :=
  {| cfg := cfg s; todo := todo s; pc := pc s; hp := hp s; srv := srv s; pst := pst s; busy := b; usecb := usecb s;
     watch := w; stopped := stopped s; wire := wire s; cblog := cblog s; rets := rets s;
     got := got s; cbbase := cbbase s |}.
Definition set_stopped (s : st) : st :=
  {| cfg := cfg s; todo := todo s; pc := pc s; hp := hp s; srv := srv s; pst := pst s; busy := busy s; usecb := usecb s;
     watch := watch s; stopped := true; wire := wire s; cblog := cblog s; rets := rets s;
     got := got s; cbbase := cbbase s |}.
Definition set_pst (s : st) (q : pstate) : st :=
  {| cfg := cfg s; todo := todo s; pc := pc s; hp := hp s; srv := srv s; pst := q; busy := busy s; usecb := usecb s;
     watch := watch s; stopped := stopped s; wire := wire s; cblog := cblog s; rets := rets s;
     got := got s; cbbase := cbbase s |}.
Definition add_cb (s : st) (e : cbev) : st :=
  {| cfg := cfg s; todo := todo s; pc := pc s; hp := hp s; srv := srv s; pst := pst s; busy := busy s; usecb := usecb s;
     watch := watch s; stopped := stopped s; wire := wire s; cblog := cblog s ++ [e]; rets := rets s;
     got := got s; cbbase := cbbase s |}.
(* recvLoop takes message m (tail r); accepted messages are recorded in got *)
Definition take (s : st) (r : list smsg) (g : list smsg) : st :=
  {| cfg := cfg s; todo := todo s; pc := pc s; hp := hp s; srv := r; pst := pst s; busy := busy s; usecb := usecb s;
     watch := watch s; stopped := stopped s; wire := wire s; cblog := cblog s; rets := rets s;
     got := g; cbbase := cbbase s |}.

(* handler error / state-map violation: SendError -> Stop, recvLoop returns *)
Definition die (s : st) : st := upd (set_stopped s) (pc s) HDead.

(* recvLoop: transitionState(msg) then MessageHandlerFunc(msg) *)
Definition deliver (s : st) (m : smsg) (r : list smsg) : st :=
  let s1 := take s r (got s ++ [m]) in
  match pst s, m with
  | PBusy, StartBatch => upd (set_pst s1 PStreaming) (pc s) HStart
  | PBusy, NoBlocks => upd (set_pst s1 PIdle) (pc s) HNoBlocks
  | PStreaming, Block None =>
      if usecb s then
        (* callback mode decodes only when BlockFunc is configured; a decode error (and "no
           callback function is defined") releases busy, then the error ends the protocol;
           BlockRawFunc alone is handed the raw bytes whatever they are *)
        if cfg_block (cfg s) then upd (set_busy s1 false false) (pc s) HFail
        else if cfg_raw (cfg s) then upd s1 (pc s) (HCbBlock rawnone)
        else upd (set_busy s1 false false) (pc s) HFail
      else die s1   (* GetBlock mode always decodes: the error ends the protocol *)
  | PStreaming, Block (Some b) =>
      if usecb s then
        if cfg_block (cfg s) || cfg_raw (cfg s) then upd s1 (pc s) (HCbBlock b)
        else upd (set_busy s1 false false) (pc s) HFail   (* no callback function is defined *)
      else upd s1 (pc s) (HBlockChan b)
  | PStreaming, BatchDone =>
      if usecb s then
        (* BatchDoneFunc only if configured; releaseCurrentBusy() in either case *)
        if cfg_done (cfg s) then upd (set_pst s1 PIdle) (pc s) HCbDone
        else upd (set_busy (set_pst s1 PIdle) false false) (pc s) HIdle
      else upd (set_pst s1 PIdle) (pc s) HDoneChan
  | _, _ => die (take s r (got s))   (* message not allowed in this state *)
  end.

Section Variant.
Variable fx : bool.

Definition step (s : st) (l : label) : option st :=
  match l with
  | LCall c =>
      match pc s, todo s with
      | CIdle, c' :: t =>
          if call_eqb c c' then
            Some {| cfg := cfg s; todo := t; pc := CLock c'; hp := hp s; srv := srv s; pst := pst s; busy := busy s; usecb := usecb s;
                    watch := watch s; stopped := stopped s; wire := wire s; cblog := cblog s; rets := rets s;
                    got := got s; cbbase := cbbase s |}
          else None
      | _, _ => None
      end
  | LAcquire =>
      match pc s with
      | CLock c =>
          if busy s then None else
          Some {| cfg := cfg s; todo := todo s; pc := CSend c; hp := hp s; srv := srv s; pst := pst s; busy := true;
                  usecb := is_range c; watch := false; stopped := stopped s; wire := wire s; cblog := cblog s;
                  rets := rets s; got := []; cbbase := cblog s |}
      | _ => None
      end
  | LWire c' =>
      match pc s, pst s with
      | CSend c, PIdle =>
          if negb (stopped s) && call_eqb c' c then
            Some {| cfg := cfg s; todo := todo s; pc := CWaitStart c; hp := hp s; srv := srv s; pst := PBusy; busy := busy s;
                    usecb := usecb s; watch := watch s; stopped := stopped s; wire := wire s ++ [c]; cblog := cblog s;
                    rets := rets s; got := got s; cbbase := cbbase s |}
          else None
      | _, _ => None
      end
  | LSendFail =>   (* SendMessage returns ErrProtocolShuttingDown: releaseBusy, return err *)
      match pc s with
      | CSend c => if stopped s then Some (upd (set_busy s false false) (CRet c (RErr EShutdown)) (hp s)) else None
      | _ => None
      end
  | LDeliver =>
      match hp s, srv s, pst s with
      | HIdle, m :: r, (PBusy | PStreaming) => if stopped s then None else Some (deliver s m r)
      | _, _, _ => None
      end
  | LCbBlock b' =>
      match hp s with
      | HCbBlock b => if blk_eqb b' b then Some (upd (add_cb s (CbBlock b)) (pc s) HIdle) else None
      | _ => None
      end
  | LCbDone =>
      match hp s with
      | HCbDone => Some (upd (set_busy (add_cb s CbDone) false false) (pc s) HIdle)
      | _ => None
      end
  | LRvStart =>
      match hp s, pc s with
      | HStart, CWaitStart (GetBlock p) => Some (upd s (CWaitBlock p) HIdle)
      | HStart, CWaitStart (GetRange a e) =>
          (* go releaseBusyOnProtocolDone(...); return nil *)
          Some (upd (set_busy s (busy s) true) (CRet (GetRange a e) ROk) HIdle)
      | _, _ => None
      end
  | LRvNoBlocks =>
      match hp s, pc s with
      | HNoBlocks, CWaitStart c => Some (upd (set_busy s false false) (CRet c (RErr ENotFound)) HIdle)
      | _, _ => None
      end
  | LRvBlock =>
      match hp s, pc s with
      | HBlockChan b, CWaitBlock p => Some (upd s (CWaitDone p b false) HIdle)
      | HBlockChan _, CWaitDone p b _ => if fx then Some (upd s (CWaitDone p b true) HIdle) else None
      | _, _ => None
      end
  | LRvDone =>
      match hp s, pc s with
      | HDoneChan, CWaitBlock p =>
          if fx then Some (upd (set_busy s false false) (CRet (GetBlock p) (RErr ENoBlock)) HIdle) else None
      | HDoneChan, CWaitDone p b extra =>
          let r := if fx then (if extra then RErr EExtra else if matches p b then RBlock b else RErr EMismatch)
                   else RBlock b in
          Some (upd (set_busy s false false) (CRet (GetBlock p) r) HIdle)
      | _, _ => None
      end
  | LDoneCase =>   (* case <-protocolDone: releaseBusy, return ErrProtocolShuttingDown *)
      match hp s, pc s with
      | HDead, CWaitStart c => Some (upd (set_busy s false false) (CRet c (RErr EShutdown)) HDead)
      | HDead, CWaitBlock p | HDead, CWaitDone p _ _ =>
          Some (upd (set_busy s false false) (CRet (GetBlock p) (RErr EShutdown)) HDead)
      | _, _ => None
      end
  | LHandlerErr =>
      match hp s with
      | HFail => Some (die s)
      | _ => None
      end
  | LQueue =>
      match pc s, pst s with
      | CSend c, (PBusy | PStreaming) =>
          if stopped s then None else Some (upd s (CWaitStart c) (hp s))
      | _, _ => None
      end
  | LRecvExit =>
      match hp s with
      | HIdle => if stopped s then Some (upd s (pc s) HDead) else None
      | _ => None
      end
  | LWatch =>
      match hp s with
      | HDead => if watch s then Some (set_busy s false false) else None
      | _ => None
      end
  | LFail =>
      match pst s with
      | PBusy | PStreaming => if stopped s then None else Some (set_stopped s)
      | PIdle => None
      end
  | LRet c' r' =>
      match pc s with
      | CRet c r =>
          if call_eqb c' c && result_eqb r' r then
            Some {| cfg := cfg s; todo := todo s; pc := CIdle; hp := hp s; srv := srv s; pst := pst s; busy := busy s; usecb := usecb s;
                    watch := watch s; stopped := stopped s; wire := wire s; cblog := cblog s;
                    rets := rets s ++ [(c, got s, r)]; got := got s; cbbase := cbbase s |}
          else None
      | _ => None
      end
  end.

Fixpoint run (s : st) (ls : list label) : option st :=
  match ls with
  | [] => Some s
  | l :: r => match step s l with Some s' => run s' r | None => None end
  end.

(* ------------------------------------------------------------------ *)
(* canonical internal scheduler, used to replay observed histories     *)

Definition internals : list label :=
  [LHandlerErr; LAcquire; LRvStart; LRvNoBlocks; LRvBlock; LRvDone; LDeliver; LSendFail; LDoneCase; LRecvExit; LWatch; LQueue; LFail].

Fixpoint first_enabled (s : st) (ls : list label) : option st :=
  match ls with
  | [] => None
  | l :: r => match step s l with Some s' => Some s' | None => first_enabled s r end
  end.

(* The canonical scheduler.  The "wire" observation (the peer has READ the request)
   can be missing when the protocol dies right after SendMessage queued the
   request, so LWire may also be taken silently - but only when nothing else
   except the timer is enabled. *)
Definition sched (s : st) : list label :=
  [LHandlerErr; LAcquire; LRvStart; LRvNoBlocks; LRvBlock; LRvDone; LDeliver; LSendFail; LDoneCase; LRecvExit; LWatch]
  ++ match pc s with CSend c => [LWire c] | _ => [] end ++ [LQueue; LFail].

(* fire observable o, after as many canonical internal steps as needed *)
Fixpoint advance (fuel : nat) (s : st) (o : label) : option st :=
  match step s o with
  | Some s' => Some s'
  | None =>
      match fuel with
      | O => None
      | S f => match first_enabled s (sched s) with Some s1 => advance f s1 o | None => None end
      end
  end.

Fixpoint settle (fuel : nat) (s : st) : st :=
  match fuel with
  | O => s
  | S f => match first_enabled s (sched s) with Some s1 => settle f s1 | None => s end
  end.

End Variant.

Definition init (c : config) (prog : list call) (script : list smsg) : st :=
  {| cfg := c; todo := prog; pc := CIdle; hp := HIdle; srv := script; pst := PIdle; busy := false; usecb := false;
     watch := false; stopped := false; wire := []; cblog := []; rets := []; got := []; cbbase := [] |}.

(* is the API caller blocked or is there work left? *)
Definition pending (s : st) : bool :=
  match pc s, todo s with CIdle, [] => false | _, _ => true end.

Definition all_labels_of (s : st) : list label :=
  internals ++ [LCbDone]
  ++ match hp s with HCbBlock b => [LCbBlock b] | _ => [] end
  ++ match pc s with CRet c r => [LRet c r] | CSend c => [LWire c] | _ => [] end
  ++ match todo s with c :: _ => [LCall c] | [] => [] end.
Definition stuck (fx : bool) (s : st) : bool :=
  forallb (fun l => match step fx s l with None => true | Some _ => false end) (all_labels_of s).

(* ------------------------------------------------------------------ *)
(* correspondence: an observed history is (program, server script, observable events);
   the model (of the FIXED code) must accept the events in the recorded order
   and then be quiescent with nothing pending *)
Record case := { c_cfg : config; c_prog : list call; c_script : list smsg; c_obs : list label; c_hung : bool }.

(* Linearisation.  Every observation except "wire" is logged by the goroutine that performs
   the step, at the step.  The "wire" observation is logged by the PEER when it has read the
   request: it happens-after the client's SendMessage (the LWire step) but is not ordered
   with the client's later steps - when the protocol dies right after SendMessage the call
   returns (and the next call may start) before the peer gets to read the request, or the
   peer never reads it.  So a wire observation is matched against the model's FIFO log of
   sent requests: if the model has already taken the LWire step (silently, through the
   canonical scheduler) the observation is consumed without a step; [seenw] counts the
   requests whose read has been observed. *)
Fixpoint replay (s : st) (seenw : nat) (obs : list label) : option st :=
  match obs with
  | [] => Some s
  | LWire c :: r =>
      match nth_error (wire s) seenw with
      | Some c' => if call_eqb c c' then replay s (S seenw) r else None
      | None => match advance true 64 s (LWire c) with Some s' => replay s' (S seenw) r | None => None end
      end
  | o :: r => match advance true 64 s o with Some s' => replay s' seenw r | None => None end
  end.

Definition check_case (c : case) : bool :=
  match replay (init (c_cfg c) (c_prog c) (c_script c)) 0 (c_obs c) with
  | None => false
  | Some s =>
      let s' := settle true (64 + 4 * length (c_script c)) s in
      (* the fixed code never hangs: after the observed events nothing is pending
         and no further observable event is due *)
      negb (c_hung c) && negb (pending s')
      && match hp s' with HCbBlock _ | HCbDone => false | _ => true end
  end.
Definition mismatches := failing check_case.
