(* C23 - N caller goroutines contending for the busy token.

   Every goroutine that calls GetBlock / GetBlockRange runs the SAME code on
   the SAME Client; what is private to it is its program counter (and the
   calls it still has to make), everything else of Model.st is shared.  So a
   step of the N-caller system is: pick a thread i, put its private part into
   the shared state ([view]), take one step of the single-caller LTS
   (Model.step - unchanged), write the private part back.  Steps of recvLoop /
   the handlers / the timers do not look at the caller's pc and can be taken
   through the view of any thread.  Nothing in the step relation says that
   only one thread can be past acquireBusy - that is a theorem (MultiProofs).

   Ghost state: [tgot] = the server messages accepted between THIS thread's
   acquireBusy and the moment its result was decided (snapshot of Model.got);
   [owner] = the thread that performed the last acquireBusy; [mrets] = returned
   calls (thread, call, tgot, result).  NO proofs in this file. *)
From V Require Import Lib.Base C23.Model.

Record thread := { ttodo : list call; tpc : cpc; tgot : list smsg }.
Record mst := {
  ths : list thread;
  sh : st;                                            (* shared part; its todo/pc/rets fields are kept at [] / CIdle / [] *)
  mrets : list (nat * call * list smsg * result);
  owner : option nat
}.

Definition setpc (s : st) (p : cpc) (td : list call) : st :=
  {| cfg := cfg s; todo := td; pc := p; hp := hp s; srv := srv s; pst := pst s; busy := busy s; usecb := usecb s;
     watch := watch s; stopped := stopped s; wire := wire s; cblog := cblog s; rets := [];
     got := got s; cbbase := cbbase s |}.
Definition view (t : thread) (s : st) : st := setpc s (tpc t) (ttodo t).
Definition strip (s : st) : st := setpc s CIdle [].

(* between acquireBusy and the decision of the result *)
Definition inside (c : cpc) : bool :=
  match c with CSend _ | CWaitStart _ | CWaitBlock _ | CWaitDone _ _ _ => true | _ => false end.
Definition is_ret (c : cpc) : bool := match c with CRet _ _ => true | _ => false end.

Fixpoint upd_nth {A} (l : list A) (i : nat) (x : A) : list A :=
  match l, i with
  | [], _ => []
  | _ :: r, O => x :: r
  | y :: r, S j => y :: upd_nth r j x
  end.

Section Variant.
Variable fx : bool.

Definition mstep (m : mst) (il : nat * label) : option mst :=
  let (i, l) := il in
  match nth_error (ths m) i with
  | None => None
  | Some t =>
      let s := view t (sh m) in
      match step fx s l with
      | None => None
      | Some s' =>
          let t' := {| ttodo := todo s'; tpc := pc s';
                       tgot := if is_ret (pc s') && negb (is_ret (pc s)) then got s' else tgot t |} in
          Some {| ths := upd_nth (ths m) i t';
                  sh := strip s';
                  mrets := match l, pc s with
                           | LRet _ _, CRet c r => mrets m ++ [(i, c, tgot t, r)]
                           | _, _ => mrets m
                           end;
                  owner := match l with LAcquire => Some i | _ => owner m end |}
      end
  end.

Fixpoint mrun (m : mst) (ls : list (nat * label)) : option mst :=
  match ls with
  | [] => Some m
  | l :: r => match mstep m l with Some m' => mrun m' r | None => None end
  end.
End Variant.

Definition minit (progs : list (list call)) (script : list smsg) : mst :=
  {| ths := map (fun p => {| ttodo := p; tpc := CIdle; tgot := [] |}) progs;
     sh := strip (init cfg_all [] script);  (* the N-caller development fixes the configuration with all callbacks *) mrets := []; owner := None |}.

Definition tpending (t : thread) : bool := match tpc t, ttodo t with CIdle, [] => false | _, _ => true end.

(* ------------------------------------------------------------------ *)
(* correspondence for the concurrent-callers class: the observed history
   carries the thread of every call / return; the harness also gives the
   order in which the scripted peer READ the requests ([c_order], thread ids):
   requests are written while the token is held, so this is the order of the
   acquireBusy steps, which are not observable themselves. *)
Inductive mobs :=
| OCall (i : nat) (c : call) | OWire (c : call) | OCbBlock (b : blk) | OCbDone | ORet (i : nat) (c : call) (r : result).

Definition find_inside (l : list thread) : option nat :=
  (fix go (l : list thread) (i : nat) := match l with
     | [] => None | t :: r => if inside (tpc t) then Some i else go r (S i) end) l 0%nat.

(* the thread whose view takes the next silent step: the one inside, else the
   preferred one (next to acquire / the one whose return is awaited) *)
Definition actor (m : mst) (pref : nat) : nat :=
  match find_inside (ths m) with Some k => k | None => pref end.

Definition msched (m : mst) (i : nat) : list label :=
  match nth_error (ths m) i with Some t => sched (view t (sh m)) | None => [] end.

Fixpoint mfirst (m : mst) (i : nat) (ls : list label) : option mst :=
  match ls with
  | [] => None
  | l :: r => match mstep true m (i, l) with Some m' => Some m' | None => mfirst m i r end
  end.

Definition head_or (l : list nat) (d : nat) : nat := match l with x :: _ => x | [] => d end.
(* drop thread i from the acquisition order once it holds the token *)
Definition settle_order (m : mst) (order : list nat) : list nat :=
  match order with
  | x :: r => match owner m with Some o => if Nat.eqb o x then r else order | None => order end
  | [] => []
  end.

(* fire observable (i, o) after as many canonical silent steps as needed *)
Fixpoint madvance (fuel : nat) (m : mst) (order : list nat) (pref : nat) (io : nat * label) : option (mst * list nat) :=
  match mstep true m io with
  | Some m' => Some (m', order)
  | None =>
      match fuel with
      | O => None
      | S f =>
          let a := actor m pref in
          match mfirst m a (msched m a) with
          | Some m1 =>
              let order' := match find_inside (ths m), find_inside (ths m1) with
                            | None, Some k => match order with x :: r => if Nat.eqb x k then r else order | [] => [] end
                            | _, _ => order end in
              madvance f m1 order' (match find_inside (ths m1) with Some _ => pref | None => head_or order' pref end) io
          | None => None
          end
      end
  end.

Definition thread_of_call (m : mst) (c : call) : option nat :=
  (fix go (l : list thread) (i : nat) := match l with
     | [] => None
     | t :: r => match tpc t with
                 | CLock c' | CSend c' | CWaitStart c' => if call_eqb c c' then Some i else go r (S i)
                 | _ => go r (S i) end end) (ths m) 0%nat.

Fixpoint mreplay (m : mst) (order : list nat) (seenw : nat) (obs : list mobs) : option mst :=
  match obs with
  | [] => Some m
  | OCall i c :: r => match mstep true m (i, LCall c) with Some m' => mreplay m' order seenw r | None => None end
  | OWire c :: r =>
      match nth_error (wire (sh m)) seenw with
      | Some c' => if call_eqb c c' then mreplay m order (S seenw) r else None
      | None =>
          match thread_of_call m c with
          | Some i => match madvance 64 m order i (i, LWire c) with
                      | Some (m', order') => mreplay m' order' (S seenw) r | None => None end
          | None => None
          end
      end
  | OCbBlock b :: r =>
      let a := actor m (head_or order 0%nat) in
      match madvance 64 m order (head_or order 0%nat) (a, LCbBlock b) with
      | Some (m', order') => mreplay m' order' seenw r | None => None end
  | OCbDone :: r =>
      let a := actor m (head_or order 0%nat) in
      match madvance 64 m order (head_or order 0%nat) (a, LCbDone) with
      | Some (m', order') => mreplay m' order' seenw r | None => None end
  | ORet i c res :: r =>
      match madvance 64 m order i (i, LRet c res) with
      | Some (m', order') => mreplay m' order' seenw r | None => None end
  end.

Fixpoint msettle (fuel : nat) (m : mst) : mst :=
  match fuel with
  | O => m
  | S f => let a := actor m 0%nat in
           match mfirst m a (msched m a) with Some m1 => msettle f m1 | None => m end
  end.

Record mcase := { mc_progs : list (list call); mc_script : list smsg; mc_order : list nat; mc_obs : list mobs }.

Definition mcheck_case (c : mcase) : bool :=
  match mreplay (minit (mc_progs c) (mc_script c)) (mc_order c) 0 (mc_obs c) with
  | None => false
  | Some m =>
      let m' := msettle (64 + 4 * length (mc_script c)) m in
      forallb (fun t => negb (tpending t)) (ths m')
      && match hp (sh m') with HCbBlock _ | HCbDone => false | _ => true end
  end.
Definition mmismatches := failing mcheck_case.
