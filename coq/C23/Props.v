(* C23 - property theorems.  [run fx s ls] = the state after the label sequence ls
   (any interleaving of the caller, recvLoop/handlers, timer);  fx = true is the
   tree with the C23 fixes, fx = false the pinned tree. *)
From Coq Require Import String.
From V Require Import Lib.Base Lib.Hex C23.Model C23.Proofs C23.MultiModel C23.MultiProofs.


(* C23_single.  For every client program, every server script (conforming or not),
   every schedule: a GetBlock call that returns a block saw exactly the reply
   StartBatch, Block b, BatchDone and b has the requested slot and hash. *)
Theorem C23_single : forall c prog script ls s p g b,
  run true (init c prog script) ls = Some s ->
  In (GetBlock p, g, RBlock b) (rets s) ->
  g = [StartBatch; Block (Some b); BatchDone] /\ bslot b = pslot p /\ bhash b = phash p.
Proof.
  intros c prog script ls s p g b HR HIn.
  destruct (inv_run ls _ _ (inv_init c prog script) HR) as (_ & _ & (HF & _) & _).
  rewrite Forall_forall in HF. specialize (HF _ HIn). cbn in HF.
  destruct HF as [HF|HF]; [discriminate|]. symmetry in HF.
  apply spec_single_ok in HF as [-> HM]. apply matches_spec in HM. tauto.
Qed.
Print Assumptions C23_single.

(* Every returned GetBlock obeys the reply-shape specification (or reports shutdown);
   GetBlockRange returns nil, "not found" or shutdown. *)
Theorem C23_single_spec : forall c prog script ls s p g r,
  run true (init c prog script) ls = Some s ->
  In (GetBlock p, g, r) (rets s) -> r = RErr EShutdown \/ r = spec_single p g.
Proof.
  intros c prog script ls s p g r HR HIn.
  destruct (inv_run ls _ _ (inv_init c prog script) HR) as (_ & _ & (HF & _) & _).
  rewrite Forall_forall in HF. exact (HF _ HIn).
Qed.
(* ... and the specification makes every wrong batch shape an error *)
Theorem C23_shapes_are_errors : forall p,
  spec_single p [NoBlocks] = RErr ENotFound
  /\ spec_single p [StartBatch; BatchDone] = RErr ENoBlock
  /\ (forall b, matches p b = false -> spec_single p [StartBatch; Block (Some b); BatchDone] = RErr EMismatch)
  /\ (forall b, matches p b = true -> spec_single p [StartBatch; Block (Some b); BatchDone] = RBlock b)
  /\ (forall b more, blocks_only more = true -> more <> [] ->
        spec_single p (StartBatch :: Block (Some b) :: more ++ [BatchDone]) = RErr EExtra).
Proof.
  intros p. repeat split; intros.
  - cbn. rewrite H. reflexivity.
  - cbn. rewrite H. reflexivity.
  - apply spec_single_extra; auto. destruct more; [congruence|reflexivity].
Qed.

(* C23_single_total.  No reachable state of the fixed client is stuck while a call is
   outstanding or still to be made, and every run is finite: every maximal run ends
   with all calls returned.  For all programs (GetBlock and GetBlockRange mixed), all
   server scripts of any length and shape, all schedules, with or without timeouts. *)
Theorem C23_single_total : forall c prog script ls s,
  run true (init c prog script) ls = Some s ->
  (pending s = true -> exists l s', step true s l = Some s')
  /\ length ls <= 10 * length prog + 3 * length script + 2
  /\ ((forall l, step true s l = None) -> pc s = CIdle /\ todo s = [] /\ length (rets s) = length prog).
Proof.
  intros c prog script ls s HR.
  destruct (inv_run ls _ _ (inv_init c prog script) HR) as (HC & _).
  assert (P : pending s = true -> exists l s', step true s l = Some s') by (apply progress; exact HC).
  split; [exact P|]. split.
  - pose proof (run_bound true ls _ _ HR) as B. unfold mu at 2 in B. cbn in B. lia.
  - intros HN. assert (E : pending s = false).
    { destruct (pending s) eqn:E; [|reflexivity]. destruct (P eq_refl) as (l & s' & Hs). rewrite HN in Hs. discriminate. }
    pose proof (ncalls_run true ls _ _ HR) as NC. unfold ncalls in NC. cbn in NC.
    unfold pending in E. destruct (pc s); try discriminate. destruct (todo s); [|discriminate].
    cbn in NC. repeat split. lia.
Qed.
Print Assumptions C23_single_total.

(* C23_range.  In every reachable state (all scripts, all schedules, also on the pinned
   tree) the callback log since the last acquireBusy is the image, in order, of the
   messages accepted since then: one BlockFunc per decodable block, BatchDoneFunc for
   BatchDone, nothing else; no callback at all in GetBlock mode. *)
Theorem C23_range_log : forall fx c prog script ls s,
  run fx (init c prog script) ls = Some s ->
  cblog s ++ pendingcb (hp s) = cbbase s ++ (if usecb s then cbs_of (cfg s) (got s) else []).
Proof.
  intros fx c prog script ls s HR.
  assert (G : ctl_ok s = true /\ KInv s).
  { apply (run_inv (P := fun s => ctl_ok s = true /\ KInv s) fx) with (ls := ls) (s := init c prog script); auto.
    - intros s0 l s1 [A B] Hs. split; [eapply ctl_step|eapply kinv_step]; eauto.
    - split; reflexivity. }
  exact (proj2 G).
Qed.

(* the configuration never changes *)
Lemma cfg_const : forall fx ls s s', run fx s ls = Some s' -> cfg s' = cfg s.
Proof.
  intros fx. induction ls as [|l r IH]; intros s s' HR; cbn in HR.
  - injection HR as <-. reflexivity.
  - destruct (step fx s l) as [s1|] eqn:E; [|discriminate]. rewrite (IH _ _ HR).
    clear HR IH. destruct s as [c0 todo0 pc0 hp0 srv0 pst0 busy0 usecb0 watch0 stopped0 wire0 cblog0 rets0 got0 cbbase0].
    destruct l; cbn in E;
      repeat match type of E with
      | match ?x with _ => _ end = Some _ => destruct x eqn:?; try discriminate E
      | (if ?x then _ else _) = Some _ => destruct x eqn:?; try discriminate E
      end; try (injection E as <-); try reflexivity.
    all: unfold deliver, die, upd, set_busy, set_stopped, set_pst, add_cb, take; cbn;
      repeat match goal with |- context[if ?b then _ else _] => destruct b end;
      repeat match goal with |- context[match ?x with _ => _ end] => destruct x end; reflexivity.
Qed.

(* C23_range, for every configuration with a block callback (BlockFunc and/or BlockRawFunc):
   one block callback per block in the order served, then the BatchDone callback exactly when
   BatchDoneFunc is configured (absent = no log entry; busy is released all the same, see
   C23_range_release, which holds for every configuration). *)
Theorem C23_range : forall fx c prog script ls s bs,
  run fx (init c prog script) ls = Some s ->
  cfg_block c || cfg_raw c = true ->
  usecb s = true ->
  got s = StartBatch :: map (fun b => Block (Some b)) bs ++ [BatchDone] ->
  hp s = HIdle ->
  cblog s = cbbase s ++ map CbBlock bs ++ (if cfg_done c then [CbDone] else []).
Proof.
  intros fx c prog script ls s bs HR HB HU HG HH.
  pose proof (C23_range_log _ _ _ _ _ _ HR) as K. rewrite HU, HG, HH in K. cbn [pendingcb] in K.
  rewrite app_nil_r in K. rewrite K. f_equal.
  rewrite (cfg_const _ _ _ _ HR). cbn [cfg init].
  change (StartBatch :: ?x) with ([StartBatch] ++ x). rewrite !cbs_of_app. cbn.
  f_equal; [|rewrite app_nil_r; reflexivity].
  clear - HB. induction bs as [|b r IH]; [reflexivity|]. cbn. rewrite HB. cbn. f_equal. exact IH.
Qed.
Print Assumptions C23_range.

(* ... then the call sequence completes: once the batch is over (Idle, handler idle,
   not stopped) nobody outside a call holds busy, so the next call can start *)
Theorem C23_range_release : forall fx cf prog script ls s,
  run fx (init cf prog script) ls = Some s ->
  hp s = HIdle -> pst s = PIdle -> stopped s = false ->
  (pc s = CIdle \/ exists c, pc s = CLock c) -> busy s = false.
Proof.
  intros fx cf prog script ls s HR HH HP HS HC.
  pose proof (ctl_run fx ls _ _ (ctl_init cf prog script) HR) as C.
  unfold ctl_ok, outside_ok in C. rewrite HH, HP, HS in C.
  destruct (busy s); [|reflexivity].
  destruct HC as [E|[c E]]; rewrite E in C; cbn in C; rewrite ?andb_false_r in C; discriminate.
Qed.

(* ---- the pinned tree (fx = false) ---- *)
Definition call_all : config := {| cfg_block := true; cfg_raw := false; cfg_done := true |}.
Definition no_done : config := {| cfg_block := true; cfg_raw := false; cfg_done := false |}.
Definition p0 : point := {| pslot := 12345; phash := hx "00"%string |}.
Definition bA : blk := {| bslot := 159835207; bhash := hx "27807a70"%string |}.
Definition bB : blk := {| bslot := 76204984; bhash := hx "db19fcfa"%string |}.

(* GetBlock returns a block that was not asked for *)
Theorem C23_single_refuted : exists ls s,
  run false (init call_all [GetBlock p0] [StartBatch; Block (Some bA); BatchDone]) ls = Some s
  /\ In (GetBlock p0, [StartBatch; Block (Some bA); BatchDone], RBlock bA) (rets s)
  /\ matches p0 bA = false.
Proof.
  exists [LCall (GetBlock p0); LAcquire; LWire (GetBlock p0); LDeliver; LRvStart; LDeliver; LRvBlock; LDeliver; LRvDone;
          LRet (GetBlock p0) (RBlock bA)].
  eexists. split; [vm_compute; reflexivity|]. split; [left; reflexivity|reflexivity].
Qed.

Lemma stuck_sound fx s : stuck fx s = true -> pc s <> CIdle -> forall l, step fx s l = None.
Proof.
  intros HS HP l. unfold stuck in HS. rewrite forallb_forall in HS.
  destruct (step fx s l) as [s'|] eqn:E; [|reflexivity]. exfalso.
  assert (In l (all_labels_of s)).
  { unfold all_labels_of, internals. destruct l; cbn in E.
    all: try (cbn; tauto).
    - destruct (pc s); try discriminate. congruence.
    - destruct (pc s) eqn:EP; try discriminate. destruct (pst s); try discriminate.
      destruct (negb (stopped s) && call_eqb c c0) eqn:EC; [|discriminate].
      apply andb_true_iff in EC as [_ EC]. apply call_eqb_eq in EC. subst.
      apply in_or_app. right. apply in_or_app. right. apply in_or_app. right. apply in_or_app. left. left. reflexivity.
    - destruct (hp s) eqn:EH; try discriminate. destruct (blk_eqb b b0) eqn:EB; [|discriminate].
      apply blk_eqb_eq in EB. subst.
      apply in_or_app. right. apply in_or_app. right. apply in_or_app. left. left. reflexivity.
    - destruct (pc s) eqn:EP; try discriminate. destruct (call_eqb c c0 && result_eqb r r0) eqn:EC; [|discriminate].
      apply andb_true_iff in EC as [EC ER]. apply call_eqb_eq in EC. subst.
      assert (r = r0).
      { destruct r, r0; cbn in ER; try discriminate; auto.
        - apply blk_eqb_eq in ER. congruence.
        - destruct e, e0; try discriminate; reflexivity. }
      subst.
      apply in_or_app. right. apply in_or_app. right. apply in_or_app. right. apply in_or_app. left. left. reflexivity. }
  specialize (HS _ H). rewrite E in HS. discriminate.
Qed.

(* StartBatch + BatchDone without a block: caller waits on blockChan, handler on
   batchDoneChan, the protocol is Idle (no timer) - a reachable state with a call
   outstanding in which NO label is enabled *)
Theorem C23_single_total_refuted_nobatch : exists ls s,
  run false (init call_all [GetBlock p0] [StartBatch; BatchDone]) ls = Some s
  /\ pc s = CWaitBlock p0 /\ hp s = HDoneChan /\ forall l, step false s l = None.
Proof.
  exists [LCall (GetBlock p0); LAcquire; LWire (GetBlock p0); LDeliver; LRvStart; LDeliver].
  eexists. split; [vm_compute; reflexivity|]. split; [reflexivity|]. split; [reflexivity|].
  apply stuck_sound; [vm_compute; reflexivity|discriminate].
Qed.

(* two blocks: the handler blocks on the second blockChan send; even the Streaming
   timeout does not help because doneChan cannot close while recvLoop sits in the handler *)
Theorem C23_single_total_refuted_twoblocks : exists ls s,
  run false (init call_all [GetBlock p0] [StartBatch; Block (Some bA); Block (Some bB); BatchDone]) ls = Some s
  /\ pc s = CWaitDone p0 bA false /\ hp s = HBlockChan bB /\ stopped s = true /\ forall l, step false s l = None.
Proof.
  exists [LCall (GetBlock p0); LAcquire; LWire (GetBlock p0); LDeliver; LRvStart; LDeliver; LRvBlock; LDeliver; LFail].
  eexists. split; [vm_compute; reflexivity|]. repeat split.
  apply stuck_sound; [vm_compute; reflexivity|discriminate].
Qed.

(* non-vacuity: a range of three blocks followed by a GetBlock, run by the canonical scheduler *)
Example C23_nonvacuous :
  let s := settle true 200 (init call_all [GetRange p0 p0; GetBlock {| pslot := 159835207; phash := hx "27807a70"%string |}]
             [StartBatch; Block (Some bA); Block (Some bB); Block (Some bA); BatchDone;
              StartBatch; Block (Some bA); BatchDone]) in
  (* the observable labels still have to be fired by hand: none enabled initially *)
  pending s = true.
Proof. vm_compute. reflexivity. Qed.

Example C23_full_run : exists s,
  replay (init call_all [GetRange p0 p0; GetBlock {| pslot := 159835207; phash := hx "27807a70"%string |}]
             [StartBatch; Block (Some bA); Block (Some bB); BatchDone; StartBatch; Block (Some bA); BatchDone]) 0
    [LCall (GetRange p0 p0); LWire (GetRange p0 p0); LCbBlock bA; LRet (GetRange p0 p0) ROk; LCbBlock bB; LCbDone;
     LCall (GetBlock {| pslot := 159835207; phash := hx "27807a70"%string |});
     LWire (GetBlock {| pslot := 159835207; phash := hx "27807a70"%string |});
     LRet (GetBlock {| pslot := 159835207; phash := hx "27807a70"%string |}) (RBlock bA)] = Some s
  /\ cblog s = [CbBlock bA; CbBlock bB; CbDone] /\ pending s = false /\ busy s = false.
Proof. eexists. split; [vm_compute; reflexivity|]. repeat split. Qed.

(* regression (thorough seed 1, case 41): after the server's surplus BatchDone the second call
   dies right after SendMessage; the peer reads its request only after the call has returned
   and the third call has started.  The late "wire" observation is matched against the FIFO
   log of sent requests (happens-before, not log order). *)
Example C23_late_wire_observation :
  let p1 : point := {| pslot := 7; phash := hx "01"%string |} in
  check_case {| c_cfg := call_all; c_prog := [GetRange p0 p0; GetRange p1 p1; GetBlock p0];
                c_script := [StartBatch; BatchDone; BatchDone; StartBatch];
                c_obs := [LCall (GetRange p0 p0); LWire (GetRange p0 p0); LRet (GetRange p0 p0) ROk;
                          LCall (GetRange p1 p1); LCbDone; LRet (GetRange p1 p1) (RErr EShutdown);
                          LCall (GetBlock p0); LWire (GetRange p1 p1); LRet (GetBlock p0) (RErr EShutdown)];
                c_hung := false |} = true.
Proof. vm_compute. reflexivity. Qed.

(* ================= N caller goroutines contending for the busy token =================
   [mrun true (minit progs script) ls]: progs = one program of GetBlock / GetBlockRange calls per
   goroutine (any number of goroutines), ls = any sequence of (thread, label) steps: every interleaving
   of the callers, recvLoop/handlers and timers (C23/MultiModel.v: each step is a step of the
   single-caller LTS taken through the view of one thread). *)

(* C23_single / C23_single_spec hold PER CALL in every schedule: g is the sequence of server messages
   accepted between THIS call's acquireBusy and the decision of its result. *)
Theorem C23_multi_single : forall progs script ls m i p g b,
  mrun true (minit progs script) ls = Some m ->
  In (i, GetBlock p, g, RBlock b) (mrets m) ->
  g = [StartBatch; Block (Some b); BatchDone] /\ bslot b = pslot p /\ bhash b = phash p.
Proof.
  intros progs script ls m i p g b HR HIn.
  destruct (minv_run ls _ _ (minv_init progs script) HR) as (_ & _ & _ & HF & _).
  rewrite Forall_forall in HF. specialize (HF _ HIn). cbn in HF.
  destruct HF as [HF|HF]; [discriminate|]. symmetry in HF.
  apply spec_single_ok in HF as [-> HM]. apply matches_spec in HM. tauto.
Qed.
Print Assumptions C23_multi_single.
Theorem C23_multi_single_spec : forall progs script ls m i c g r,
  mrun true (minit progs script) ls = Some m ->
  In (i, c, g, r) (mrets m) ->
  match c with
  | GetBlock p => r = RErr EShutdown \/ r = spec_single p g
  | GetRange _ _ => r = ROk \/ r = RErr ENotFound \/ r = RErr EShutdown
  end.
Proof.
  intros progs script ls m i c g r HR HIn.
  destruct (minv_run ls _ _ (minv_init progs script) HR) as (_ & _ & _ & HF & _).
  rewrite Forall_forall in HF. specialize (HF _ HIn). cbn in HF. destruct c; exact HF.
Qed.

(* Mutual exclusion: at most one goroutine is between acquireBusy and the decision of its result, it is
   the one that performed the last acquireBusy, and the token is held; a request is written (LWire)
   only by that goroutine and only when no batch is outstanding (protocol Idle); while a batch is
   outstanding the token is held (HFail = the failing handler has released it and is stopping the protocol). *)
Theorem C23_multi_mutex : forall progs script ls m,
  mrun true (minit progs script) ls = Some m ->
  (forall j k tj tk, nth_error (ths m) j = Some tj -> nth_error (ths m) k = Some tk ->
     inside (tpc tj) = true -> inside (tpc tk) = true -> j = k)
  /\ (forall k tk, nth_error (ths m) k = Some tk -> inside (tpc tk) = true -> owner m = Some k /\ busy (sh m) = true)
  /\ (forall i c m', mstep true m (i, LWire c) = Some m' ->
        owner m = Some i /\ pst (sh m) = PIdle /\ pst (sh m') = PBusy /\ wire (sh m') = wire (sh m) ++ [c])
  /\ (stopped (sh m) = false -> pst (sh m) <> PIdle -> hp (sh m) <> HFail -> busy (sh m) = true).
Proof.
  intros progs script ls m HR.
  pose proof (minv_run ls _ _ (minv_init progs script) HR) as MI.
  pose proof MI as (NF & KI & LO & MR & DIS).
  assert (A : forall k tk, nth_error (ths m) k = Some tk -> inside (tpc tk) = true -> owner m = Some k /\ busy (sh m) = true).
  { intros k tk Ek Ik. destruct DIS as [[NI CO]|(k0 & tk0 & Ek0 & Ik0 & Ow & NI & CO & GI)].
    - rewrite (NI _ _ Ek) in Ik. discriminate.
    - destruct (Nat.eq_dec k k0) as [->|N]; [|rewrite (NI _ _ N Ek) in Ik; discriminate].
      split; [exact Ow|]. exact (inside_busy _ CO Ik0). }
  split; [|split; [exact A|split]].
  - intros j k tj tk Ej Ek Ij Ik. destruct (A _ _ Ej Ij) as [O1 _]. destruct (A _ _ Ek Ik) as [O2 _]. congruence.
  - intros i c m' Hs. unfold mstep in Hs. destruct (nth_error (ths m) i) as [ti|] eqn:Ei; [|discriminate].
    destruct (step true (view ti (sh m)) (LWire c)) as [s'|] eqn:Es; [|discriminate]. injection Hs as <-. cbn [sh].
    cbn in Es. destruct (tpc ti) eqn:Ep; try discriminate Es. destruct (pst (sh m)) eqn:EP; try discriminate Es.
    destruct (negb (stopped (sh m)) && call_eqb c c0) eqn:EC; [|discriminate Es]. injection Es as <-.
    apply andb_true_iff in EC as [_ EC]. apply call_eqb_eq in EC. subst c0.
    assert (Ii : inside (tpc ti) = true) by (rewrite Ep; reflexivity).
    destruct (A _ _ Ei Ii) as [O _]. repeat split; auto.
  - apply minv_batch_busy; exact MI.
Qed.
Print Assumptions C23_multi_mutex.

(* C23_range_log per call: in every reachable state the callbacks invoked since the last acquireBusy
   (performed by goroutine [owner m]) are the in-order image of the server messages accepted since then;
   none in GetBlock mode.  Callbacks of one call never mix with another call's. *)
Theorem C23_multi_range_log : forall progs script ls m,
  mrun true (minit progs script) ls = Some m ->
  cblog (sh m) ++ pendingcb (hp (sh m)) = cbbase (sh m) ++ (if usecb (sh m) then cbs_of (cfg (sh m)) (got (sh m)) else []).
Proof.
  intros progs script ls m HR. destruct (minv_run ls _ _ (minv_init progs script) HR) as (_ & KI & _). exact KI.
Qed.

(* No caller is starved: as long as any goroutine has a call outstanding or still to make some step is
   enabled (no deadlock on the token), every run is finite, and a run that cannot be extended has
   returned every call of every goroutine.  (Server scripts of any shape; when the server answers each
   request no timer step is needed, but they are allowed.) *)
Theorem C23_multi_total : forall progs script ls m,
  mrun true (minit progs script) ls = Some m ->
  ((exists j t, nth_error (ths m) j = Some t /\ tpending t = true) -> exists il m', mstep true m il = Some m')
  /\ length ls <= 10 * ncalls_of progs + 3 * length script + 2
  /\ ((forall il, mstep true m il = None) ->
        (forall j t, nth_error (ths m) j = Some t -> tpc t = CIdle /\ ttodo t = []) /\ length (mrets m) = ncalls_of progs).
Proof.
  intros progs script ls m HR.
  pose proof (minv_run ls _ _ (minv_init progs script) HR) as MI.
  assert (P : (exists j t, nth_error (ths m) j = Some t /\ tpending t = true) -> exists il m', mstep true m il = Some m')
    by (apply mprogress; exact MI).
  split; [exact P|]. split.
  - pose proof (mrun_bound true ls _ _ HR) as B. rewrite mmu_init in B. lia.
  - intros HN.
    assert (Q : forall j t, nth_error (ths m) j = Some t -> tpc t = CIdle /\ ttodo t = []).
    { intros j t Hj. destruct (tpending t) eqn:E.
      - destruct P as (il & m' & Hs); [eauto|]. rewrite HN in Hs. discriminate.
      - unfold tpending in E. destruct (tpc t); try discriminate. destruct (ttodo t); [auto|discriminate]. }
    split; [exact Q|].
    pose proof (mcalls_run true ls _ _ HR) as NC. rewrite mcalls_init in NC. unfold mcalls in NC.
    rewrite sumf_zero in NC; [lia|]. intros j t Hj. destruct (Q _ _ Hj) as [-> ->]. reflexivity.
Qed.
Print Assumptions C23_multi_total.

(* non-vacuity: two goroutines; goroutine 1 calls while goroutine 0 holds the token and is served second;
   each gets its own block *)
Definition pA : point := {| pslot := 159835207; phash := hx "27807a70"%string |}.
Definition pB : point := {| pslot := 76204984; phash := hx "db19fcfa"%string |}.
Example C23_multi_nonvacuous : exists m,
  mrun true (minit [[GetBlock pA]; [GetBlock pB]] [StartBatch; Block (Some bA); BatchDone; StartBatch; Block (Some bB); BatchDone])
    [(0, LCall (GetBlock pA)); (0, LAcquire); (1, LCall (GetBlock pB)); (0, LWire (GetBlock pA)); (1, LDeliver); (0, LRvStart);
     (0, LDeliver); (0, LRvBlock); (1, LDeliver); (0, LRvDone); (1, LAcquire); (1, LWire (GetBlock pB)); (0, LRet (GetBlock pA) (RBlock bA));
     (0, LDeliver); (1, LRvStart); (1, LDeliver); (1, LRvBlock); (1, LDeliver); (1, LRvDone); (1, LRet (GetBlock pB) (RBlock bB))] = Some m
  /\ mrets m = [(0, GetBlock pA, [StartBatch; Block (Some bA); BatchDone], RBlock bA);
                (1, GetBlock pB, [StartBatch; Block (Some bB); BatchDone], RBlock bB)]
  /\ (forall il, mstep true m il = None -> True).
Proof. eexists. split; [vm_compute; reflexivity|]. split; [reflexivity|auto]. Qed.
(* ... and acquireBusy by the second goroutine is NOT enabled while the first holds the token *)
Example C23_multi_lock_blocks : forall m,
  mrun true (minit [[GetBlock pA]; [GetBlock pB]] [StartBatch])
    [(0, LCall (GetBlock pA)); (0, LAcquire); (1, LCall (GetBlock pB))] = Some m -> mstep true m (1, LAcquire) = None.
Proof. intros m H. vm_compute in H. injection H as <-. vm_compute. reflexivity. Qed.
(* a concurrent history as the harness records it: calls of both goroutines logged up front, the peer read
   request B first (mc_order = [1; 0]) *)
Example C23_multi_history :
  mcheck_case {| mc_progs := [[GetBlock pA]; [GetBlock pB]];
                 mc_script := [StartBatch; Block (Some bB); BatchDone; StartBatch; Block (Some bA); BatchDone];
                 mc_order := [1; 0];
                 mc_obs := [OCall 0 (GetBlock pA); OCall 1 (GetBlock pB); OWire (GetBlock pB); ORet 1 (GetBlock pB) (RBlock bB);
                            OWire (GetBlock pA); ORet 0 (GetBlock pA) (RBlock bA)] |} = true.
Proof. vm_compute. reflexivity. Qed.
(* ... and a history in which a call got the other call's block is rejected *)
Example C23_multi_history_foreign :
  mcheck_case {| mc_progs := [[GetBlock pA]; [GetBlock pB]];
                 mc_script := [StartBatch; Block (Some bB); BatchDone; StartBatch; Block (Some bA); BatchDone];
                 mc_order := [1; 0];
                 mc_obs := [OCall 0 (GetBlock pA); OCall 1 (GetBlock pB); OWire (GetBlock pB); ORet 0 (GetBlock pA) (RBlock bB)] |} = false.
Proof. vm_compute. reflexivity. Qed.

(* BatchDoneFunc absent: the range delivers its blocks, logs no BatchDone callback, releases
   busy, and the follow-up GetBlock on the same client completes *)
Example C23_no_batchdone_callback : exists s,
  replay (init no_done [GetRange p0 p0; GetBlock {| pslot := 159835207; phash := hx "27807a70"%string |}]
             [StartBatch; Block (Some bA); Block (Some bB); BatchDone; StartBatch; Block (Some bA); BatchDone]) 0
    [LCall (GetRange p0 p0); LWire (GetRange p0 p0); LRet (GetRange p0 p0) ROk; LCbBlock bA; LCbBlock bB;
     LCall (GetBlock {| pslot := 159835207; phash := hx "27807a70"%string |});
     LWire (GetBlock {| pslot := 159835207; phash := hx "27807a70"%string |});
     LRet (GetBlock {| pslot := 159835207; phash := hx "27807a70"%string |}) (RBlock bA)] = Some s
  /\ cblog s = [CbBlock bA; CbBlock bB] /\ pending s = false /\ busy s = false.
Proof. eexists. split; [vm_compute; reflexivity|]. repeat split. Qed.
