(* C13 - receive buffering is bounded. *)
From V Require Import Lib.Base C11.Engine C11.EngineProofs C11.Model C13.Proofs C13.Gen.
Local Open Scope N_scope.

(* pendingRecvBytes is exactly the size of the messages that were accounted and
   not yet completed: in the handler (or stuck with a failed recvLoop), in the
   receive queue, or about to be put into it *)
Theorem C13_accounting : forall sm r s0 rqcap k ls s,
  run sm r s0 rqcap k (init sm r s0) ls = Some s ->
  sizes (rc s) = lens (inproc (lph (rc s)) ++ recvq (rc s) ++ rtail (rph (rc s))) /\
  pendR (rc s) = sumN (sizes (rc s)).
Proof. exact accounting_inv. Qed.
Print Assumptions C13_accounting.

(* PARTIAL form of the bound: if every state the engine can be in declares a
   limit in (0, L], pending never exceeds L (message in process included).  The
   side condition excludes exactly the state maps whose limits differ between
   states in the sense of C13_cross_state_refuted below: with one limit for
   all states (chain-sync NtN) it is the property's per-state bound. *)
Theorem C13_bound_partial : forall sm r s0 rqcap k L,
  (forall ls s, run sm r s0 rqcap k (init sm r s0) ls = Some s -> 0 < limit_of sm (cur (c s)) <= L) ->
  forall ls s, run sm r s0 rqcap k (init sm r s0) ls = Some s ->
  pendR (rc s) <= L /\ Forall (fun p => p <= L) (plog (lg s)).
Proof.
  intros sm r s0 rqcap k L HL ls s H. split.
  - eapply bound_inv; eauto.
  - eapply plog_bound; eauto.
Qed.
Print Assumptions C13_bound_partial.

(* the states the engine can be in are the initial one and targets of transitions *)
Lemma path_end_target sm r : forall tl p, path sm r p tl ->
  path_end p tl = p \/ exists a m, next sm a m = Some (path_end p tl).
Proof.
  induction tl as [|[[[w a] m] b] tl IH]; intros p HP; cbn in *; [left; reflexivity|].
  destruct HP as (E & N1 & _ & HP). destruct (IH b HP) as [->|X]; [right; eauto|right; exact X].
Qed.
Lemma next_in_target : forall ts m b, next_in ts m = Some b -> In b (map t_next ts).
Proof.
  induction ts as [|t ts IH]; intros m b H; cbn in *; [discriminate|].
  destruct (_ && _); [injection H as <-; left; reflexivity|right; eapply IH; eauto].
Qed.
Lemma lookup_in : forall es s e, lookup_entry es s = Some e -> In e (map snd es).
Proof.
  induction es as [|[k0 e0] es IH]; intros s e H; cbn in *; [discriminate|].
  destruct (N.eqb k0 s); [injection H as <-; left; reflexivity|right; eapply IH; eauto].
Qed.
Definition targets (sm : statemap) : list N := flat_map (fun e => map t_next (e_trans e)) (map snd (sm_entries sm)).
Lemma next_target sm a m b : next sm a m = Some b -> In b (targets sm).
Proof.
  unfold next, entry_of. intros H. destruct (lookup_entry (sm_entries sm) a) as [e|] eqn:E; [|discriminate].
  apply in_flat_map. exists e. split; [eapply lookup_in; eauto|eapply next_in_target; eauto].
Qed.
Lemma cur_cases sm r s0 rqcap k ls s : run sm r s0 rqcap k (init sm r s0) ls = Some s ->
  cur (c s) = s0 \/ In (cur (c s)) (targets sm).
Proof.
  intros H. destruct (path_inv sm r s0 rqcap k ls s H) as (_ & HP & HE & _).
  destruct (path_end_target sm r _ _ HP) as [X|(a & m & X)]; [left; congruence|right].
  rewrite <- HE. eapply next_target; eauto.
Qed.

(* chain-sync node-to-node as the code defines it NOW: every state declares the
   same limit, so in every reachable state pending <= that state's limit *)
Theorem C13_chainsync_ntn_bound : forall r rqcap ls s,
  run sm_chainsync_ntn r init_chainsync_ntn rqcap consts_gen (init sm_chainsync_ntn r init_chainsync_ntn) ls = Some s ->
  0 < limit_of sm_chainsync_ntn (cur (c s)) /\ pendR (rc s) <= limit_of sm_chainsync_ntn (cur (c s)).
Proof.
  intros r rqcap.
  assert (T : forallb (fun q => N.eqb (limit_of sm_chainsync_ntn q) (limit_of sm_chainsync_ntn init_chainsync_ntn) && (0 <? limit_of sm_chainsync_ntn q))
                (init_chainsync_ntn :: targets sm_chainsync_ntn) = true) by (vm_compute; reflexivity).
  rewrite forallb_forall in T.
  assert (HL : forall ls s, run sm_chainsync_ntn r init_chainsync_ntn rqcap consts_gen (init sm_chainsync_ntn r init_chainsync_ntn) ls = Some s ->
           0 < limit_of sm_chainsync_ntn (cur (c s)) <= limit_of sm_chainsync_ntn init_chainsync_ntn).
  { intros ls s H. destruct (cur_cases _ _ _ _ _ _ _ H) as [E|E].
    - specialize (T _ (or_introl (eq_sym E))). lia.
    - specialize (T _ (or_intror E)). lia. }
  intros ls s H. pose proof (HL ls s H) as B.
  pose proof (bound_inv sm_chainsync_ntn r init_chainsync_ntn rqcap consts_gen _ HL ls s H) as P.
  assert (E : limit_of sm_chainsync_ntn (cur (c s)) = limit_of sm_chainsync_ntn init_chainsync_ntn).
  { destruct (cur_cases _ _ _ _ _ _ _ H) as [E|E].
    - specialize (T _ (or_introl (eq_sym E))). lia.
    - specialize (T _ (or_intror E)). lia. }
  split; [lia|]. rewrite E. exact P.
Qed.
Print Assumptions C13_chainsync_ntn_bound.

(* a single message larger than the limit of the current state ends the
   protocol: readLoop fails, the message is never queued or accounted, the only
   next action of readLoop reports the error and stops *)
Theorem C13_oversize : forall sm r s0 rqcap k s m s',
  rph (rc s) = RDecode -> 0 < limit_of sm (cur (c s)) -> limit_of sm (cur (c s)) < m_len m ->
  step sm r s0 rqcap k s (DecMsg m) = Some s' ->
  rph (rc s') = RFail /\ recvq (rc s') = recvq (rc s) /\ pendR (rc s') = pendR (rc s) /\
  (forall l s'', step sm r s0 rqcap k s' l = Some s'' ->
     rph (rc s'') = RFail \/ (exists full, l = SendError GRead full) /\ rph (rc s'') = RDead []) /\
  (forall s'', stopped (fl s') = false -> step sm r s0 rqcap k s' (SendError GRead false) = Some s'' ->
     err (fl s'') = true /\ stopped (fl s'') = true).
Proof.
  intros sm r s0 rqcap k s m s' H1 H2 H3 H4.
  destruct (oversize_step sm r s0 rqcap k s m s' H1 H2 H3 H4) as (A & B & C & _).
  repeat split; auto.
  - intros l s'' S. eapply rfail_only_error; eauto.
  - eapply rfail_reports; eauto.
  - eapply rfail_reports; eauto.
Qed.

(* an incomplete message that grew past maxReadBufferSize ends the protocol; a
   smaller one just waits for more data *)
Theorem C13_incomplete : forall sm r s0 rqcap k s s',
  rph (rc s) = RDecode -> step sm r s0 rqcap k s DecIncomplete = Some s' ->
  (c_maxrbuf k < rbuf (rc s) -> rph (rc s') = RFail) /\
  (0 < rbuf (rc s) <= c_maxrbuf k -> rph (rc s') = RWaitSeg /\ fl s' = fl s /\ rbuf (rc s') = rbuf (rc s)).
Proof.
  intros. split; intros.
  - eapply incomplete_step; eauto.
  - eapply incomplete_wait; eauto.
Qed.

(* back-pressure: an admit that would pass the limit is simply not enabled
   (nothing changes, no error); it becomes enabled as soon as enough has been
   handled; and while it is blocked there is work for recvLoop - the wait is
   never for readLoop itself *)
Theorem C13_backpressure : forall sm r s0 rqcap k ls s m lim,
  run sm r s0 rqcap k (init sm r s0) ls = Some s -> rph (rc s) = RAdmit m lim ->
  (0 < lim -> lim < pendR (rc s) + m_len m -> step sm r s0 rqcap k s Admit = None) /\
  ((lim = 0 \/ pendR (rc s) + m_len m <= lim) ->
     exists s', step sm r s0 rqcap k s Admit = Some s' /\ fl s' = fl s /\ rph (rc s') = RPut m) /\
  (step sm r s0 rqcap k s Admit = None -> inproc (lph (rc s)) ++ recvq (rc s) <> []) /\
  (lim = 0 \/ m_len m <= lim).
Proof.
  intros sm r s0 rqcap k ls s m lim H HR. repeat split.
  - intros. eapply backpressure_blocks; eauto.
  - intros. eapply backpressure_releases; eauto.
  - intros. eapply blocked_has_work; eauto.
  - destruct (admit_lim_inv sm r s0 rqcap k ls s H m lim HR) as (_ & _ & X). exact X.
Qed.
Print Assumptions C13_backpressure.

(* progress of the back-pressure wait (the specification of the wait is
   "re-check whenever pending decreases", with no wake-up token that could be
   lost): in EVERY state in which readLoop holds a decoded message m and
   pending + len m <= limit (or there is no limit) the admission step is
   enabled - in particular in the state right after ANY handler return that
   made enough room, however many returns that took - and taking it sets no
   error.  An implementation that stays blocked in such a state (with an idle
   consumer) does not refine the model: the correspondence reports code 8. *)
Theorem C13_backpressure_progress : forall sm r s0 rqcap k s m lim,
  rph (rc s) = RAdmit m lim -> (lim = 0 \/ pendR (rc s) + m_len m <= lim) ->
  exists s', step sm r s0 rqcap k s Admit = Some s' /\ fl s' = fl s /\ rph (rc s') = RPut m /\
             pendR (rc s') = pendR (rc s) + m_len m.
Proof.
  intros sm r s0 rqcap k s m lim HR HG. destr_st s. cbn in *. subst rph.
  unfold do_admit. cbn.
  assert (E : N.eqb lim 0 || (pendR + m_len m <=? lim) = true).
  { destruct HG as [->|HG]; [reflexivity|]. apply orb_true_iff. right. apply N.leb_le. exact HG. }
  rewrite E. eexists. repeat split; reflexivity.
Qed.
(* ... and once everything accounted has been handled (pending = 0) a held
   message is always admissible: a drained consumer can never face a stalled reader *)
Theorem C13_drained_reader_moves : forall sm r s0 rqcap k ls s m lim,
  run sm r s0 rqcap k (init sm r s0) ls = Some s -> rph (rc s) = RAdmit m lim -> pendR (rc s) = 0 ->
  exists s', step sm r s0 rqcap k s Admit = Some s'.
Proof.
  intros sm r s0 rqcap k ls s m lim H HR HP.
  destruct (admit_lim_inv sm r s0 rqcap k ls s H m lim HR) as (_ & _ & HL).
  destruct (C13_backpressure_progress sm r s0 rqcap k s m lim HR) as (s' & E & _).
  - destruct HL as [->|HL]; [left; reflexivity|right; rewrite HP; lia].
  - eauto.
Qed.
Print Assumptions C13_drained_reader_moves.

(* REFUTED as written ("in EVERY state that declares a limit ... never more
   than THAT limit"): block-fetch declares 2,500,000 for Busy/Streaming and
   65,535 for Idle; the limit is read when a message is admitted, so bytes
   admitted under the larger limit are still unprocessed when the state becomes
   Idle.  Witness: a client that pipelined two RequestRange and a conforming
   server that answers both while the application is busy. *)
Definition cross_labels : list label :=
  [Enq (M 1 0 20 []); Enq (M 2 0 20 []); TakeSendToken; SendDeq; SendDeq; BatchEnd; SendSeg 40; TakeRecvToken;
   SegIn 65535; DecMsg (M 3 2 3 []); Admit; Put; Handle; HandlerCall;
   DecMsg (M 4 4 5000 []); Admit; Put; DecMsg (M 5 5 3 []); Admit; Put; DecMsg (M 6 2 3 []); Admit; Put;
   DecIncomplete; SegIn 65535; DecMsg (M 7 4 90000 []); Admit; Put;
   DecIncomplete; SegIn 53939; DecMsg (M 8 4 90000 []); Admit; Put;
   HandlerRet HOk; TakeRecvToken; Handle; HandlerCall; HandlerRet HOk; TakeRecvToken; Handle].
Theorem C13_cross_state_refuted : exists ls s,
  run sm_blockfetch RClient init_blockfetch 64 consts_gen (init sm_blockfetch RClient init_blockfetch) ls = Some s /\
  0 < limit_of sm_blockfetch (cur (c s)) /\
  limit_of sm_blockfetch (cur (c s)) < pendR (rc s) - sumN (lens (inproc (lph (rc s)))).
Proof.
  exists cross_labels.
  destruct (run sm_blockfetch RClient init_blockfetch 64 consts_gen (init sm_blockfetch RClient init_blockfetch) cross_labels) as [s|] eqn:E;
    [|vm_compute in E; discriminate].
  exists s. split; [reflexivity|]. vm_compute in E. injection E as <-. vm_compute. split; reflexivity.
Qed.
Print Assumptions C13_cross_state_refuted.

(* non-vacuity of the bound's premise and of back-pressure: chain-sync NtN with a
   slow application: the second large message is blocked, not an error *)
Example C13_backpressure_run :
  match run sm_chainsync_ntn RClient 1 55 consts_gen (init sm_chainsync_ntn RClient 1)
    [Enq (M 1 0 3 []); TakeSendToken; SendDeq; BatchEnd; SendSeg 3; TakeRecvToken;
     SegIn 65535; DecIncomplete; SegIn 65535; DecIncomplete; SegIn 65535; DecIncomplete; SegIn 65535; DecIncomplete;
     SegIn 65535; DecIncomplete; SegIn 65535; DecIncomplete; SegIn 65535; DecIncomplete; SegIn 65535;
     DecMsg (M 2 2 400000 []); Admit; Put; DecMsg (M 3 2 100000 [])] with
  | Some s => step sm_chainsync_ntn RClient 1 55 consts_gen s Admit = None /\ err (fl s) = false /\ pendR (rc s) = 400000
  | None => False
  end.
Proof. vm_compute. repeat split; reflexivity. Qed.
