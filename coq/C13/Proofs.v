(* C13 - receive side of protocol.Protocol (readLoop / recvLoop): accounting of
   pendingRecvBytes, the per-state byte limit, back-pressure, behaviour after a
   read failure.  All statements are about the LTS of C11/Engine.v, for every
   label sequence. *)
From V Require Import Lib.Base C11.Engine.
Local Open Scope N_scope.
Section C13.
Variable sm : statemap. Variable r : role. Variable s0 : N. Variable rqcap : N. Variable k : consts.
Notation step := (step sm r s0 rqcap k).
Notation run := (run sm r s0 rqcap k).
Notation init := (init sm r s0).

(* ------------------------------------------------------------------ tactics *)
Ltac unf H :=
  unfold Engine.step, do_enq, do_enq_over, do_take_send, do_send_queued, do_send_deq,
    do_batch_end, do_send_seg, do_seg_in, do_dec_incomplete, do_dec_bad, do_dec_empty,
    do_dec_msg, do_admit, do_put, do_take_recv, do_handle, do_handler_call, do_handler_ret,
    do_send_error, do_exit in H;
  unfold with_c, with_sn, with_rc, with_fl, with_lg, set_sph, set_rph, set_lph,
    add_t, add_wire, add_strans, add_rej, add_enq, add_seg, add_h, add_p in H;
  cbn [c sn rc fl lg sendq pendS sph queued rbuf rph recvq pendR sizes lph
       enq_log wire_log rej_log seg_log strans_log tlog hlog plog] in H.

Ltac crush H :=
  repeat match type of H with
  | context [match ?x with _ => _ end] => destruct x eqn:?; try discriminate
  end;
  try (inversion H; subst; clear H).

Ltac dst s :=
  destruct s as [[cur_ st_ rt_ sh_ rh_] [sendq_ pendS_ sph_ queued_]
                 [rbuf_ rph_ recvq_ pendR_ sizes_ lph_] [err_ stopped_ muxdone_]
                 [enq_ wire_ rej_ segs_ strans_ tl_ hl_ pl_]].

Ltac cases s l H :=
  dst s; destruct l; unf H; crush H; cbn in *.

(* -------------------------------------------------------------- list lemmas *)
Lemma sumN_app : forall a b, sumN (a ++ b) = sumN a + sumN b.
Proof. unfold sumN. induction a; intros; cbn [fold_right app]; [reflexivity|]. rewrite IHa. lia. Qed.
Lemma lens_app : forall a b, lens (a ++ b) = lens a ++ lens b.
Proof. intros. unfold lens. apply map_app. Qed.

Lemma run_ind_inv (P : st -> Prop) :
  P init -> (forall s l s', P s -> step s l = Some s' -> P s') ->
  forall ls s, run init ls = Some s -> P s.
Proof.
  intros H0 HS.
  assert (G : forall ls a s, P a -> run a ls = Some s -> P s).
  { induction ls as [|l ls IH]; intros a s Pa H; cbn in H.
    - inversion H; subst; exact Pa.
    - destruct (step a l) eqn:E; [|discriminate]. eapply IH; [|exact H]. eapply HS; eauto. }
  intros ls s H. eapply G; eauto.
Qed.

Lemma run_snoc : forall ls s l,
  run s (ls ++ [l]) = match run s ls with Some s1 => step s1 l | None => None end.
Proof.
  induction ls as [|a ls IH]; intros s l; cbn [app Engine.run].
  - destruct (step s l); reflexivity.
  - destruct (step s a) as [s1|]; [apply IH | reflexivity].
Qed.

(* ------------------------------------------------------- 1. accounting_inv *)
Definition acc_I (s : st) : Prop :=
  sizes (rc s) = lens (inproc (lph (rc s)) ++ recvq (rc s) ++ rtail (rph (rc s))) /\
  pendR (rc s) = sumN (sizes (rc s)).

Lemma acc_step : forall s l s', acc_I s -> step s l = Some s' -> acc_I s'.
Proof.
  intros s l s' [I1 I2] H. unfold acc_I in *.
  cases s l H.
  all: try (split; assumption).
  all: rewrite ?app_nil_r in *.
  all: try (split; assumption).
  all: change (fold_right N.add 0) with sumN in *.
  - subst. rewrite (app_assoc (inproc lph_)), (lens_app (_ ++ _) [m]), sumN_app. cbn. split; [reflexivity | lia].
  - inversion I1; subst. split; [reflexivity | lia].
Qed.

Theorem accounting_inv : forall ls s, run init ls = Some s ->
  sizes (rc s) = lens (inproc (lph (rc s)) ++ recvq (rc s) ++ rtail (rph (rc s))) /\
  pendR (rc s) = sumN (sizes (rc s)).
Proof.
  apply (run_ind_inv acc_I); [| exact acc_step]. unfold acc_I; cbn. auto.
Qed.

(* ------------------------------------------------------------- 2. plog_inv *)
Definition plog_I (s : st) : Prop :=
  (plog (lg s) = [] /\ pendR (rc s) = 0) \/ (exists l, plog (lg s) = l ++ [pendR (rc s)]).

Lemma plog_step : forall s l s', plog_I s -> step s l = Some s' -> plog_I s'.
Proof.
  intros s l s' I H. unfold plog_I in *.
  cases s l H.
  all: try assumption.
  all: right; eexists; reflexivity.
Qed.

Theorem plog_inv : forall ls s, run init ls = Some s ->
  (plog (lg s) = [] /\ pendR (rc s) = 0) \/ (exists l, plog (lg s) = l ++ [pendR (rc s)]).
Proof.
  apply (run_ind_inv plog_I); [| exact plog_step]. left; cbn; auto.
Qed.

(* -------------------------------------------------------- 3. admit_lim_inv *)
Definition alim_I (s : st) : Prop :=
  forall m lim, rph (rc s) = RAdmit m lim ->
    (exists q, lim = limit_of sm q) /\ 0 < m_len m /\ (lim = 0 \/ m_len m <= lim).

Lemma alim_step : forall s l s', alim_I s -> step s l = Some s' -> alim_I s'.
Proof.
  intros s l s' I H. unfold alim_I in *.
  cases s l H.
  all: try assumption.
  all: intros m' lim' E; try discriminate E.
  all: inversion E; subst; clear E.
  all: split; [eexists; reflexivity | lia].
Qed.

Theorem admit_lim_inv : forall ls s, run init ls = Some s ->
  forall m lim, rph (rc s) = RAdmit m lim ->
    (exists q, lim = limit_of sm q) /\ 0 < m_len m /\ (lim = 0 \/ m_len m <= lim).
Proof.
  apply (run_ind_inv alim_I). - intros m lim E; discriminate E. - exact alim_step.
Qed.

(* ---------------------------------------------------------------- 4. bound *)
Section Bound.
Variable L : N.
Hypothesis Hlim : forall ls s, run init ls = Some s -> 0 < limit_of sm (cur (c s)) <= L.

Definition bnd_I (s : st) : Prop :=
  pendR (rc s) <= L /\
  (forall m lim, rph (rc s) = RAdmit m lim -> 0 < lim <= L) /\
  Forall (fun p => p <= L) (plog (lg s)).

Lemma bnd_step : forall s l s', 0 < limit_of sm (cur (c s)) <= L ->
  bnd_I s -> step s l = Some s' -> bnd_I s'.
Proof.
  intros s l s' Hc (I1 & I2 & I3) H. unfold bnd_I in *.
  cases s l H.
  all: try (split; [|split]; assumption).
  all: try specialize (I2 _ _ eq_refl).
  all: split; [lia | split].
  all: try assumption.
  all: try (intros m' lim' E; try discriminate E; inversion E; subst; clear E; lia).
  all: apply Forall_app; split; [assumption | constructor; [lia | constructor]].
Qed.

Lemma bnd_all : forall ls s, run init ls = Some s -> bnd_I s.
Proof.
  induction ls as [|l ls IH] using rev_ind; intros s H.
  - cbn in H. inversion H; subst. unfold bnd_I; cbn.
    split; [lia | split; [intros m lim E; discriminate E | constructor]].
  - rewrite run_snoc in H. destruct (run init ls) as [s1|] eqn:E; [|discriminate].
    eapply bnd_step; [| apply IH; reflexivity | exact H].
    eapply Hlim; exact E.
Qed.

Theorem bound_inv : forall ls s, run init ls = Some s -> pendR (rc s) <= L.
Proof. intros ls s H. apply (bnd_all ls s H). Qed.

Theorem plog_bound : forall ls s, run init ls = Some s -> Forall (fun p => p <= L) (plog (lg s)).
Proof. intros ls s H. apply (bnd_all ls s H). Qed.

Theorem admit_lim_bounded : forall ls s, run init ls = Some s ->
  forall m lim, rph (rc s) = RAdmit m lim -> 0 < lim <= L.
Proof. intros ls s H. apply (bnd_all ls s H). Qed.
End Bound.

Corollary bound_const : forall L, 0 < L -> (forall q, limit_of sm q = L) ->
  forall ls s, run init ls = Some s -> pendR (rc s) <= L.
Proof.
  intros L HL HC. apply bound_inv. intros ls s _. rewrite HC. lia.
Qed.

(* ------------------------------------------------- 5. oversize / read failure *)
Theorem oversize_step : forall s m s',
  rph (rc s) = RDecode -> 0 < limit_of sm (cur (c s)) -> limit_of sm (cur (c s)) < m_len m ->
  step s (DecMsg m) = Some s' ->
  rph (rc s') = RFail /\ recvq (rc s') = recvq (rc s) /\ pendR (rc s') = pendR (rc s) /\ lg s' = lg s.
Proof.
  intros s m s' Hp H1 H2 H. dst s. cbn in Hp, H1, H2. subst.
  unf H. crush H; cbn in *.
  - auto.
  - lia.
Qed.

Theorem rfail_only_error : forall s l s', rph (rc s) = RFail -> step s l = Some s' ->
  rph (rc s') = RFail \/ (exists full, l = SendError GRead full) /\ rph (rc s') = RDead [].
Proof.
  intros s l s' Hp H. dst s. cbn in Hp. subst.
  destruct l; unf H; crush H; cbn.
  all: try (left; reflexivity).
  all: right; split; [eexists; reflexivity | reflexivity].
Qed.

Theorem rfail_reports : forall s s', rph (rc s) = RFail -> stopped (fl s) = false ->
  step s (SendError GRead false) = Some s' -> err (fl s') = true /\ stopped (fl s') = true.
Proof.
  intros s s' Hp Hs H. dst s. cbn in Hp, Hs. subst.
  unf H. unfold send_error in H. cbn in H. inversion H; subst; clear H. cbn. auto.
Qed.

Lemma rdead_step : forall s l s' h, rph (rc s) = RDead h -> step s l = Some s' ->
  rph (rc s') = RDead h /\ (exists taken, recvq (rc s) = taken ++ recvq (rc s')).
Proof.
  intros s l s' h Hp H. dst s. cbn in Hp. subst.
  destruct l; unf H; crush H; cbn.
  all: split; [reflexivity |].
  all: first [ exists []; reflexivity | eexists [_]; reflexivity ].
Qed.

Theorem read_dead_frozen : forall ls s s' h, rph (rc s) = RDead h -> run s ls = Some s' ->
  rph (rc s') = RDead h /\ (exists taken, recvq (rc s) = taken ++ recvq (rc s')).
Proof.
  induction ls as [|l ls IH]; intros s s' h Hd H; cbn in H.
  - inversion H; subst. split; [exact Hd | exists []; reflexivity].
  - destruct (step s l) as [s1|] eqn:E; [|discriminate].
    destruct (rdead_step s l s1 h Hd E) as (A1 & t1 & T1).
    destruct (IH s1 s' h A1 H) as (A2 & t2 & T2).
    split; [exact A2 |]. exists (t1 ++ t2). rewrite T1, T2. apply app_assoc.
Qed.

(* ------------------------------------------------------ 6. incomplete decode *)
Theorem incomplete_step : forall s s', rph (rc s) = RDecode -> c_maxrbuf k < rbuf (rc s) ->
  step s DecIncomplete = Some s' -> rph (rc s') = RFail.
Proof.
  intros s s' Hp H1 H. dst s. cbn in Hp, H1. subst.
  unf H. crush H; cbn.
  - reflexivity.
  - lia.
Qed.

Theorem incomplete_wait : forall s s', rph (rc s) = RDecode -> 0 < rbuf (rc s) <= c_maxrbuf k ->
  step s DecIncomplete = Some s' -> rph (rc s') = RWaitSeg /\ fl s' = fl s /\ rbuf (rc s') = rbuf (rc s).
Proof.
  intros s s' Hp H1 H. dst s. cbn in Hp, H1. subst.
  unf H. crush H; cbn.
  - lia.
  - auto.
Qed.

(* ---------------------------------------------------------- 7. back-pressure *)
Theorem backpressure_blocks : forall s m lim, rph (rc s) = RAdmit m lim -> 0 < lim ->
  lim < pendR (rc s) + m_len m -> step s Admit = None.
Proof.
  intros s m lim Hp H1 H2. dst s. cbn in Hp, H2. subst.
  unfold Engine.step, do_admit. cbn.
  destruct ((lim =? 0) || (pendR_ + m_len m <=? lim)) eqn:E; [lia | reflexivity].
Qed.

Theorem backpressure_releases : forall s m lim, rph (rc s) = RAdmit m lim ->
  (lim = 0 \/ pendR (rc s) + m_len m <= lim) ->
  exists s', step s Admit = Some s' /\ fl s' = fl s /\ rph (rc s') = RPut m.
Proof.
  intros s m lim Hp H1. dst s. cbn in Hp, H1. subst.
  unfold Engine.step, do_admit. cbn.
  destruct ((lim =? 0) || (pendR_ + m_len m <=? lim)) eqn:E; [| lia].
  eexists. split; [reflexivity |]. cbn. auto.
Qed.

Theorem blocked_has_work : forall ls s m lim, run init ls = Some s ->
  rph (rc s) = RAdmit m lim -> step s Admit = None ->
  inproc (lph (rc s)) ++ recvq (rc s) <> [].
Proof.
  intros ls s m lim Hr Hp Hb.
  destruct (accounting_inv ls s Hr) as [A1 A2].
  destruct (admit_lim_inv ls s Hr m lim Hp) as (_ & B1 & B2).
  rewrite Hp in A1. cbn [rtail] in A1. rewrite app_nil_r in A1.
  intros C. rewrite C in A1. cbn in A1. rewrite A1 in A2. cbn in A2.
  unfold Engine.step, do_admit in Hb. rewrite Hp in Hb.
  destruct ((lim =? 0) || (pendR (rc s) + m_len m <=? lim)) eqn:E; [discriminate Hb |].
  lia.
Qed.

End C13.

Print Assumptions accounting_inv.
Print Assumptions plog_inv.
Print Assumptions admit_lim_inv.
Print Assumptions bound_inv.
Print Assumptions plog_bound.
Print Assumptions admit_lim_bounded.
Print Assumptions bound_const.
Print Assumptions oversize_step.
Print Assumptions rfail_only_error.
Print Assumptions rfail_reports.
Print Assumptions read_dead_frozen.
Print Assumptions incomplete_step.
Print Assumptions incomplete_wait.
Print Assumptions backpressure_blocks.
Print Assumptions backpressure_releases.
Print Assumptions blocked_has_work.
