(* C40 - lemmas: window arithmetic, enumeration of the checks, completeness
   of build -> validate from the component completeness laws. *)
From Coq Require Import String.
From V Require Import Lib.Base Lib.Cbor C40.Model.
Local Open Scope N_scope.

Ltac w64 := unfold wsub, wadd, W64 in *; change (2 ^ 64) with 18446744073709551616 in *.

Lemma wsub_exact a b : b <= a -> a < 2 ^ 64 -> wsub a b = a - b.
Proof. intros. w64. lia. Qed.

Lemma leneq_true b n : leneq b n = true <-> length b = n.
Proof. unfold leneq. apply Nat.eqb_eq. Qed.
Lemma nleneq_false b n : negb (leneq b n) = false -> length b = n.
Proof. intros H. apply negb_false_iff in H. apply leneq_true. exact H. Qed.
Lemma empty_false b : empty b = false <-> b <> [].
Proof. destruct b; cbn; split; congruence. Qed.
Lemma empty_len b n : length b = S n -> empty b = false.
Proof. destruct b; cbn; [discriminate|reflexivity]. Qed.
Lemma bytes_eqb_refl b : bytes_eqb b b = true.
Proof. apply bytes_eqb_eq. reflexivity. Qed.

(* ------------------------------------------------------------------ *)
(* the KES window: ledger.ValidateKesPeriod                             *)

Section window.
Variables c slot spk maxev : N.
Hypothesis Hslot : slot < 2 ^ 64.

Lemma vkp_spk0 : spk = 0 -> validate_kes_period c slot spk maxev = KErrSpk0.
Proof. intros ->. reflexivity. Qed.
Lemma vkp_max0 : spk <> 0 -> maxev = 0 -> validate_kes_period c slot spk maxev = KErrMax0.
Proof.
  intros Hs ->. unfold validate_kes_period.
  destruct (spk =? 0) eqn:E; [apply N.eqb_eq in E; contradiction|reflexivity].
Qed.

Lemma cur_small : spk <> 0 -> slot / spk < 2 ^ 64.
Proof. intros. apply N.le_lt_trans with slot; [apply N.div_le_upper_bound; [assumption|]|assumption]. nia. Qed.

Lemma vkp_cases : spk <> 0 -> maxev <> 0 ->
  (slot / spk < c /\ validate_kes_period c slot spk maxev = KFuture) \/
  (c + maxev <= slot / spk /\ validate_kes_period c slot spk maxev = KExpired) \/
  (c <= slot / spk < c + maxev /\ validate_kes_period c slot spk maxev = KOk (slot / spk - c)).
Proof.
  intros Hs Hm. unfold validate_kes_period.
  destruct (spk =? 0) eqn:E1; [apply N.eqb_eq in E1; contradiction|].
  destruct (maxev =? 0) eqn:E2; [apply N.eqb_eq in E2; contradiction|].
  pose proof (cur_small Hs) as Hc. set (cur := slot / spk) in *.
  destruct (cur <? c) eqn:E3.
  - left. apply N.ltb_lt in E3. auto.
  - apply N.ltb_ge in E3. rewrite (wsub_exact cur c E3 Hc).
    destruct (maxev <=? cur - c) eqn:E4.
    + right; left. apply N.leb_le in E4. split; [lia|reflexivity].
    + right; right. apply N.leb_gt in E4. split; [lia|reflexivity].
Qed.
End window.

(* consensus validateKESPeriod / validateKESSignature use the same arithmetic *)
Lemma chk_kes_period_spec cfg i : v_slot i < 2 ^ 64 ->
  chk_kes_period cfg i = true <->
  c_spk cfg <> 0 /\ v_kper i <= v_slot i / c_spk cfg < v_kper i + c_maxev cfg.
Proof.
  intros Hs. unfold chk_kes_period.
  destruct (c_spk cfg =? 0) eqn:E1.
  - apply N.eqb_eq in E1. split; [discriminate|]. intros [H _]. contradiction.
  - apply N.eqb_neq in E1. pose proof (cur_small _ _ Hs E1) as Hc.
    set (cur := v_slot i / c_spk cfg) in *.
    destruct (cur <? v_kper i) eqn:E3.
    + apply N.ltb_lt in E3. split; [discriminate|]. intros (_ & H & _). lia.
    + apply N.ltb_ge in E3. rewrite (wsub_exact cur _ E3 Hc).
      destruct (c_maxev cfg <=? cur - v_kper i) eqn:E4.
      * apply N.leb_le in E4. split; [discriminate|]. intros (_ & _ & H). lia.
      * apply N.leb_gt in E4. split; [|reflexivity]. intros _. split; [assumption|lia].
Qed.

(* ------------------------------------------------------------------ *)
(* ValidateHeader = the conjunction of its ten checks                   *)

Section checks.
Variable P : prims.

(* a check "holds" if it passed or was not run (leadership after a failed VRF check) *)
Definition check_ok (c : vcfg) (i : vinput) (k : check) : bool :=
  match k with
  | CSlot => chk_slot i | CBlockNo => chk_blockno i | CPrevHash => chk_prevhash i
  | CVrf => match chk_vrf P c i with Some _ => true | None => false end
  | CLeader => match chk_vrf P c i with Some out => chk_leader P c i out | None => true end
  | CNonceVrf => chk_nonce_vrf P c i | CKesPeriod => chk_kes_period c i | CKesSig => chk_kes_sig P c i
  | COpCert => chk_opcert P i | CVrfReg => chk_vrf_reg P i
  end.

Lemma fail_if_cons b k (rest : list check) : (if negb b then k :: rest else rest) = fail_if b k ++ rest.
Proof. destruct b; reflexivity. Qed.
Lemma fail_if_nil b k : fail_if b k = [] <-> b = true.
Proof. destruct b; cbn; split; congruence. Qed.
Lemma nil_true {A} (l : list A) : (match l with [] => true | _ => false end) = true <-> l = [].
Proof. destruct l; split; congruence. Qed.
Lemma app_nil_iff {A} (l1 l2 : list A) : l1 ++ l2 = [] <-> l1 = [] /\ l2 = [].
Proof. split; [apply app_eq_nil|intros [-> ->]; reflexivity]. Qed.

Lemma failed_is_filter c i :
  fst (validate_header P c i) = filter (fun k => negb (check_ok c i k)) all_checks.
Proof.
  unfold validate_header, all_checks. cbn [fst filter check_ok].
  rewrite !fail_if_cons.
  destruct (chk_vrf P c i) as [out|]; cbn [negb fail_if app]; rewrite ?app_nil_r; reflexivity.
Qed.

Lemma vrf_leader_nil c i :
  match chk_vrf P c i with None => [CVrf] | Some out => fail_if (chk_leader P c i out) CLeader end = [] <->
  exists out, chk_vrf P c i = Some out /\ chk_leader P c i out = true.
Proof.
  destruct (chk_vrf P c i) as [out|].
  - rewrite fail_if_nil. split; [intros H; exists out; auto|intros (o & E & H); congruence].
  - split; [discriminate|intros (o & E & _); discriminate].
Qed.

Lemma valid_iff c i :
  valid P c i = true <->
  chk_slot i = true /\ chk_blockno i = true /\ chk_prevhash i = true /\
  (exists out, chk_vrf P c i = Some out /\ chk_leader P c i out = true) /\
  chk_nonce_vrf P c i = true /\ chk_kes_period c i = true /\ chk_kes_sig P c i = true /\
  chk_opcert P i = true /\ chk_vrf_reg P i = true.
Proof.
  unfold valid, validate_header. cbn [fst]. rewrite nil_true.
  rewrite !app_nil_iff, !fail_if_nil, vrf_leader_nil. tauto.
Qed.

Lemma valid_vrf_output c i : valid P c i = true -> snd (validate_header P c i) = Some (v_out i).
Proof.
  intros H. apply valid_iff in H. destruct H as (_ & _ & _ & (out & E & _) & _).
  unfold validate_header. cbn [snd]. rewrite E. f_equal.
  unfold chk_vrf, verify_cert_vrf in E.
  repeat match type of E with
  | (if ?b then _ else _) = _ => destruct b; try discriminate E
  | match ?x with _ => _ end = _ => destruct x; try discriminate E
  end. congruence.
Qed.
End checks.
