(* written by harness/cmd/c40 gen *)
From Coq Require Import String.
From V Require Import Lib.Base.
Open Scope string_scope.
(* the validate* calls of HeaderValidator.ValidateHeader in source order: method, enclosing guard,
   whether a non-nil error sets result.Valid = false and is appended to result.Errors *)
Definition checks_source : string := "ast".
Definition go_checks : list (string * string * bool) :=
  [("validateSlotOrdering", "", true);
   ("validateBlockNumber", "", true);
   ("validatePrevHash", "", true);
   ("validateVRFProof", "", true);
   ("validateLeadership", "out(validateVRFProof) != nil", true);
   ("validateNonceVRFProof", "", true);
   ("validateKESPeriod", "", true);
   ("validateKESSignature", "", true);
   ("validateOpCertSignature", "", true);
   ("validateVRFKeyRegistration", "", true)].
Definition go_verify_block_calls : list string :=
  ["vrf.MkSeedTPraos"; "vrf.MkInputVrf"; "vrf.Verify"; "extractOriginalBodyCbor"; "ExtractKesFields"; "VerifyKesComponents"; "validateDijkstraBlockBodyHash"; "common.ValidateBlockBodyHash"].
Definition go_validate_opcert_calls : list string :=
  ["VerifyOpCertSignature"; "ValidateKesPeriod"].
Definition go_consts : list (string * N) :=
  [("vrf.PublicKeySize", 32%N);
   ("vrf.ProofSize", 80%N);
   ("vrf.OutputSize", 64%N);
   ("kes.CardanoKesSignatureSize", 448%N);
   ("kes.PublicKeySize", 32%N);
   ("kes.CardanoKesDepth", 6%N);
   ("ed25519.PublicKeySize", 32%N);
   ("ed25519.SignatureSize", 64%N);
   ("ConsensusModeCPraos", 0%N);
   ("ConsensusModeTPraos", 1%N);
   ("len(OpCertSignableBytes(32))", 48%N);
   ("HeaderBodyLengthShelleyLike", 15%N);
   ("HeaderBodyLengthBabbageLike", 10%N)].
