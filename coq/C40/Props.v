(* C40 - property theorems only.  Cryptographic components are the fields of
   [P : prims]; their laws are explicit premises (never axioms). *)
From Coq Require Import String.
From V Require Import Lib.Base Lib.Cbor C40.Model C40.Gen C40.Proofs C40.Accept C40.Tamper C40.Ideal.
Local Open Scope N_scope.

(* ---- the translator's view of the Go source = what the model transcribes *)
Theorem C40_checks_table :
  go_checks = map (fun k => (check_name k, check_guard k, true)) all_checks.
Proof. reflexivity. Qed.
Theorem C40_component_calls :
  go_verify_block_calls = ["vrf.MkSeedTPraos"; "vrf.MkInputVrf"; "vrf.Verify"; "extractOriginalBodyCbor"; "ExtractKesFields";
                           "VerifyKesComponents"; "validateDijkstraBlockBodyHash"; "common.ValidateBlockBodyHash"]%string /\
  go_validate_opcert_calls = ["VerifyOpCertSignature"; "ValidateKesPeriod"]%string.
Proof. split; reflexivity. Qed.
Theorem C40_constants :
  go_consts = [("vrf.PublicKeySize", 32); ("vrf.ProofSize", 80); ("vrf.OutputSize", 64);
               ("kes.CardanoKesSignatureSize", 448); ("kes.PublicKeySize", 32); ("kes.CardanoKesDepth", 6);
               ("ed25519.PublicKeySize", 32); ("ed25519.SignatureSize", 64);
               ("ConsensusModeCPraos", mode_id Praos); ("ConsensusModeTPraos", mode_id TPraos);
               ("len(OpCertSignableBytes(32))", N.of_nat (length (opcert_signable (repeat 0 32) 1 2)));
               ("HeaderBodyLengthShelleyLike", 15); ("HeaderBodyLengthBabbageLike", 10)]%string.
Proof. reflexivity. Qed.

(* ---- C40_window: ledger.ValidateKesPeriod, for all naturals (c + maxev is an
   unbounded sum; the Go code never forms it).  slot < 2^64 is the only bound used. *)
Theorem C40_window : forall c slot spk maxev, slot < 2 ^ 64 ->
  (spk = 0 -> validate_kes_period c slot spk maxev = KErrSpk0) /\
  (spk <> 0 -> maxev = 0 -> validate_kes_period c slot spk maxev = KErrMax0) /\
  (spk <> 0 -> maxev <> 0 ->
     (forall t, validate_kes_period c slot spk maxev = KOk t <-> (c <= slot / spk < c + maxev /\ t = slot / spk - c)) /\
     (validate_kes_period c slot spk maxev = KFuture <-> slot / spk < c) /\
     (validate_kes_period c slot spk maxev = KExpired <-> c + maxev <= slot / spk)).
Proof.
  intros c slot spk maxev Hs. split; [apply vkp_spk0|]. split; [apply vkp_max0|].
  intros H1 H2. destruct (vkp_cases c slot spk maxev Hs H1 H2) as [[A E]|[[A E]|[A E]]]; rewrite E;
    (split; [intros t; split; intros H | split; split; intros H]);
    try discriminate H; try reflexivity; try assumption;
    try (inversion H; subst; split; [assumption|reflexivity]);
    try (destruct H as [_ ->]; reflexivity);
    try (exfalso; lia).
Qed.
Print Assumptions C40_window.

(* consensus validateKESPeriod is the same window (no separate error for maxev = 0: the window is empty) *)
Theorem C40_window_consensus : forall cfg i, v_slot i < 2 ^ 64 ->
  (chk_kes_period cfg i = true <-> c_spk cfg <> 0 /\ v_kper i <= v_slot i / c_spk cfg < v_kper i + c_maxev cfg).
Proof. exact chk_kes_period_spec. Qed.

(* ---- C40_checks_complete: Valid <-> every one of the ten checks passed, and the
   error list is exactly the failed checks in the order of [all_checks] *)
Theorem C40_checks_complete : forall P c i,
  (valid P c i = true <->
   chk_slot i = true /\ chk_blockno i = true /\ chk_prevhash i = true /\
   (exists out, chk_vrf P c i = Some out /\ chk_leader P c i out = true) /\
   chk_nonce_vrf P c i = true /\ chk_kes_period c i = true /\ chk_kes_sig P c i = true /\
   chk_opcert P i = true /\ chk_vrf_reg P i = true) /\
  fst (validate_header P c i) = filter (fun k => negb (check_ok P c i k)) all_checks /\
  (valid P c i = true -> snd (validate_header P c i) = Some (v_out i)).
Proof. intros. split; [apply valid_iff|]. split; [apply failed_is_filter|apply valid_vrf_output]. Qed.
Print Assumptions C40_checks_complete.

(* ---- C40_accept: both layouts (b_mode st = Praos or TPraos; BadMode never builds) *)
Theorem C40_accept : forall P : prims,
  (* C38_complete_all_keys *)
  (forall sk a pi out, vrf_prove P sk a = Some (pi, out) -> vrf_vh P (vrf_pk P sk) pi a = Some out) ->
  (* C39_complete at depth 6 *)
  (forall seed t m sg, t < 64 -> kes_sig P seed t m = Some sg ->
     kes_verify P (kes_vk P seed) t m sg = true /\ length sg = 448%nat) ->
  (* Ed25519 correctness *)
  (forall sk m, ed_verify P (ed_pk P sk) m (ed_sign P sk m) = true) ->
  forall st i h x cfg cold msg segs,
  build_header P st i = BOk h ->                        (* includes: the pool leads the slot *)
  serialize_body (b_mode st) (h_body h) = Some msg ->   (* the bytes on the wire *)
  ctx_ok P st i cfg x cold ->
  i_bhash i = body_hash P segs ->
  let b := h_body h in
  validate_header P cfg (vinput_of b msg (h_sig h) x) = ([], Some (hb_out b)) /\
  validate_opcert P (hb_hot b) (hb_seq b) (hb_kper b) (hb_csig b) (hb_issuer b) (hb_slot b) (c_spk cfg) (c_maxev cfg)
    = inr (KOk (b_kes_period st)) /\
  verify_block P (mode_eqb (b_mode st) TPraos) (hb_slot b) (hb_vrfkey b) (hb_proof b) (hb_out b) (x_nonce x)
    msg (h_sig h) (hb_hot b) (hb_kper b) (c_spk cfg) (hb_bhash b) segs = VbOk.
Proof.
  intros P Hv Hk He st i h x cfg cold msg segs HB HS C Hh. cbv zeta.
  split; [eapply accept_validate; eauto|]. split.
  - eapply accept_opcert; eauto. destruct C. lia.
  - eapply accept_verify_block; eauto.
Qed.
Print Assumptions C40_accept.

Theorem C40_build_succeeds : forall P st i proof out,
  length (i_prev i) = 32%nat -> length (i_nonce i) = 32%nat -> length (i_bhash i) = 32%nat ->
  length (b_issuer st) = 32%nat -> length (vrf_pk P (b_vrf_sk st)) = 32%nat ->
  length (b_hot st) = 32%nat -> length (b_csig st) = 64%nat -> kes_vk P (b_kes_seed st) = b_hot st ->
  is_slot_leader P (b_mode st) (b_vrf_sk st) (i_slot i) (i_nonce i) (i_pool i) (i_total i) = LOk proof out ->
  (b_mode st = TPraos -> exists np no, vrf_prove P (b_vrf_sk st) (mk_seed_tpraos P (i_slot i) (i_nonce i) (seed_eta P)) = Some (np, no)
                                       /\ length np = 80%nat /\ length no = 64%nat) ->
  (forall m, exists sg, kes_sig P (b_kes_seed st) (b_kes_period st) m = Some sg) ->
  exists h, build_header P st i = BOk h.
Proof. exact build_succeeds. Qed.

(* ---- C40_tamper (IDEALISED primitives: the eight premises below hold for no
   real fixed-width function; C40_premises_satisfiable gives a term-algebra instance) *)
Definition ideal (P : prims) : Prop :=
  (forall x y, H256 P x = H256 P y -> x = y) /\
  (forall x, length (H256 P x) = 32%nat) /\
  (forall s t m sg, kes_verify P (kes_vk P s) t m sg = true -> kes_sig P s t m = Some sg) /\
  (forall s t m t' m' sg, kes_sig P s t m = Some sg -> kes_sig P s t' m' = Some sg -> t = t' /\ m = m') /\
  (forall s m sg, ed_verify P (ed_pk P s) m sg = true -> sg = ed_sign P s m) /\
  (forall s m m', ed_sign P s m = ed_sign P s m' -> m = m') /\
  (forall s pi a out, vrf_vh P (vrf_pk P s) pi a = Some out -> vrf_prove P s a = Some (pi, out)) /\
  (forall s a a' r, vrf_prove P s a = Some r -> vrf_prove P s a' = Some r -> a = a').

(* with the pool's issuer key, cold signature and the genuine KES signature attached,
   the only header that validates is the genuine one: same signed bytes, same
   certificate triple, same KES evolution, and (canonical encoding) every signed field *)
Theorem C40_tamper : forall P, ideal P ->
  forall st i h x cfg cold msg b' body',
  build_header P st i = BOk h ->
  serialize_body (b_mode st) (h_body h) = Some msg ->
  b_issuer st = ed_pk P cold ->
  b_csig st = ed_sign P cold (opcert_signable (b_hot st) (b_seq st) (b_kper st)) ->
  b_seq st < 2 ^ 64 -> b_kper st < 2 ^ 64 ->
  valid P cfg (vinput_of b' body' (h_sig h) x) = true ->
  hb_issuer b' = hb_issuer (h_body h) -> hb_csig b' = hb_csig (h_body h) ->
  hb_slot b' < 2 ^ 64 -> hb_seq b' < 2 ^ 64 -> hb_kper b' < 2 ^ 64 ->
  body' = msg /\ hb_hot b' = hb_hot (h_body h) /\ hb_seq b' = hb_seq (h_body h) /\ hb_kper b' = hb_kper (h_body h) /\
  hb_slot b' / c_spk cfg - hb_kper b' = b_kes_period st /\
  (hb_wf b' -> hb_wf (h_body h) -> serialize_body (b_mode st) b' = Some body' -> same_signed (b_mode st) b' (h_body h)).
Proof.
  intros P (A1 & A2 & A3 & A4 & A5 & A6 & A7 & A8). intros. eapply tamper_header; eauto.
Qed.
Print Assumptions C40_tamper.

(* the single checks *)
Theorem C40_tamper_opcert : forall P, ideal P -> forall i cold hot seq kper,
  chk_opcert P i = true -> v_issuer i = ed_pk P cold ->
  v_csig i = ed_sign P cold (opcert_signable hot seq kper) ->
  seq < 2 ^ 64 -> kper < 2 ^ 64 -> v_seq i < 2 ^ 64 -> v_kper i < 2 ^ 64 ->
  v_hot i = hot /\ v_seq i = seq /\ v_kper i = kper.
Proof. intros P (A1 & A2 & A3 & A4 & A5 & A6 & A7 & A8). intros. eapply tamper_opcert; eauto. Qed.

Theorem C40_tamper_opcert_sig : forall P, ideal P -> forall i cold,
  chk_opcert P i = true -> v_issuer i = ed_pk P cold ->
  v_csig i = ed_sign P cold (opcert_signable (v_hot i) (v_seq i) (v_kper i)).
Proof. intros P (A1 & A2 & A3 & A4 & A5 & A6 & A7 & A8). intros. eapply tamper_opcert_sig; eauto. Qed.

Theorem C40_tamper_kes_sig : forall P, ideal P -> forall cfg i seed sg0,
  chk_kes_sig P cfg i = true -> v_hot i = kes_vk P seed -> v_slot i < 2 ^ 64 ->
  kes_sig P seed (v_slot i / c_spk cfg - v_kper i) (v_body i) = Some sg0 -> v_sig i = sg0.
Proof. intros P (A1 & A2 & A3 & A4 & A5 & A6 & A7 & A8). intros. eapply tamper_kes_sig; eauto. Qed.

Theorem C40_tamper_signed_bytes : forall P, ideal P -> forall cfg i seed t msg,
  chk_kes_sig P cfg i = true -> v_hot i = kes_vk P seed -> v_slot i < 2 ^ 64 ->
  kes_sig P seed t msg = Some (v_sig i) ->
  v_body i = msg /\ v_slot i / c_spk cfg - v_kper i = t.
Proof. intros P (A1 & A2 & A3 & A4 & A5 & A6 & A7 & A8). intros. eapply tamper_signed_bytes; eauto. Qed.

Theorem C40_tamper_vrf : forall P, ideal P -> forall cfg i sk o a0,
  chk_vrf P cfg i = Some o -> v_vrfkey i = vrf_pk P sk -> v_slot i < 2 ^ 64 ->
  (* the certificate was made for a0 = input(slot0, nonce0): it passes for no other slot or epoch nonce *)
  (vrf_prove P sk a0 = Some (v_proof i, v_out i) ->
   forall slot0 nonce0, slot0 < 2 ^ 64 -> length nonce0 = 32%nat ->
   vrf_input P (c_mode cfg) slot0 nonce0 (seed_l P) = Some a0 -> v_slot i = slot0 /\ v_nonce i = nonce0) /\
  (* for this slot and nonce only the genuine proof and output pass *)
  (forall proof0 out0, vrf_input P (c_mode cfg) (v_slot i) (v_nonce i) (seed_l P) = Some a0 ->
   vrf_prove P sk a0 = Some (proof0, out0) -> v_proof i = proof0 /\ v_out i = out0).
Proof.
  intros P (A1 & A2 & A3 & A4 & A5 & A6 & A7 & A8). intros. split; intros.
  - eapply tamper_vrf_input; eauto.
  - eapply tamper_vrf_cert; eauto.
Qed.

Theorem C40_tamper_vrf_key : forall P, ideal P -> forall i vk,
  chk_vrf_reg P i = true -> v_reg i = H256 P vk -> v_vrfkey i = vk.
Proof. intros P (A1 & A2 & A3 & A4 & A5 & A6 & A7 & A8). intros. eapply tamper_vrf_key; eauto. Qed.

Theorem C40_tamper_body : forall P, ideal P ->
  forall tp slot vrfkey proof out eta0 body sg hot kper spk bhash segs segs0 seed t msg,
  verify_block P tp slot vrfkey proof out eta0 body sg hot kper spk bhash segs = VbOk ->
  (bhash = body_hash P segs0 -> segs = segs0) /\
  (hot = kes_vk P seed -> kes_sig P seed t msg = Some sg -> body = msg /\ slot / spk - kper = t).
Proof.
  intros P (A1 & A2 & A3 & A4 & A5 & A6 & A7 & A8). intros. split; intros.
  - eapply tamper_body; eauto.
  - eapply tamper_verify_block_kes; eauto.
Qed.
Print Assumptions C40_tamper_body.

(* a header presented outside the certificate's window is invalid (no idealisation needed) *)
Theorem C40_tamper_window : forall P cfg i, v_slot i < 2 ^ 64 ->
  ~ (v_kper i <= v_slot i / c_spk cfg < v_kper i + c_maxev cfg) -> valid P cfg i = false.
Proof.
  intros P cfg i Hs Hn. destruct (valid P cfg i) eqn:V; [|reflexivity].
  apply valid_iff in V. destruct V as (_ & _ & _ & _ & _ & V & _).
  apply chk_kes_period_spec in V; [|exact Hs]. destruct V as [_ V]. contradiction.
Qed.

(* ---- non-vacuity *)
(* all premises of C40_accept and C40_tamper hold together in the term-algebra instance *)
Example C40_premises_satisfiable :
  ideal IP /\
  (forall sk a pi out, vrf_prove IP sk a = Some (pi, out) -> vrf_vh IP (vrf_pk IP sk) pi a = Some out) /\
  (forall seed t m sg, t < 64 -> kes_sig IP seed t m = Some sg ->
     kes_verify IP (kes_vk IP seed) t m sg = true /\ length sg = 448%nat) /\
  (forall sk m, ed_verify IP (ed_pk IP sk) m (ed_sign IP sk m) = true).
Proof.
  split; [|split; [exact IP_vrf_complete|split; [exact IP_kes_complete|exact IP_ed_complete]]].
  exact (conj IP_H_inj (conj IP_H_len (conj IP_kes_ideal (conj IP_kes_bind (conj IP_ed_ideal (conj IP_ed_bind (conj IP_vrf_ideal IP_vrf_bind))))))).
Qed.

(* build -> validate runs in a computable instance of the completeness laws, both layouts:
   a header at evolution 61 of a certificate starting at period 5, mainnet parameters *)
Definition run_example (m : mode) : list check * option bytes :=
  match build_header TP (ex_state m) ex_input with
  | BOk h => match serialize_body m (h_body h) with
             | Some msg => validate_header TP (ex_cfg m) (vinput_of (h_body h) msg (h_sig h) ex_ctx)
             | None => ([CSlot], None) end
  | _ => ([CSlot], None)
  end.
Example C40_accept_runs : run_example Praos = ([], Some (zeros 64)) /\ run_example TPraos = ([], Some (zeros 64)).
Proof. split; vm_compute; reflexivity. Qed.
(* one period later the certificate (62 evolutions) has expired: exactly check 7 fails *)
Example C40_window_runs :
  match build_header TP (ex_state Praos) ex_input with
  | BOk h => match serialize_body Praos (h_body h) with
             | Some msg => fst (validate_header TP {| c_spk := 129600; c_maxev := 61; c_mode := Praos |}
                                                  (vinput_of (h_body h) msg (h_sig h) ex_ctx))
             | None => [] end
  | _ => []
  end = [CKesPeriod].
Proof. vm_compute. reflexivity. Qed.
(* the hypotheses of C40_accept's context are satisfiable *)
Example C40_ctx_satisfiable : ctx_ok TP (ex_state Praos) ex_input (ex_cfg Praos) ex_ctx [].
Proof.
  constructor; cbn; try reflexivity; try (left; reflexivity); try discriminate;
    vm_compute; try reflexivity; try (split; [discriminate|reflexivity]).
Qed.

(* ---- known finding: there is no "no previous header" (Origin) in ValidateHeaderInput.
   C40_accept asks for x_prev_slot < slot (ok_prev_slot), which no context satisfies at
   slot 0; and indeed a header for slot 0 - which the builder produces - is rejected in
   EVERY context, although slot 0 is a legitimate slot for the first block of a chain. *)
Theorem C40_slot0_refuted :
  (forall P cfg i, v_slot i = 0 -> valid P cfg i = false /\ In CSlot (fst (validate_header P cfg i))) /\
  (exists h, build_header TP (ex_state Praos)
               {| i_slot := 0; i_blockno := 0; i_prev := zeros 32; i_nonce := zeros 32; i_pool := 1; i_total := 2;
                  i_bhash := zeros 32; i_bsize := 3; i_pmaj := 9; i_pmin := 0 |} = BOk h /\ hb_slot (h_body h) = 0).
Proof.
  split.
  - intros P cfg i E.
    assert (C : chk_slot i = false) by (unfold chk_slot; rewrite E; apply negb_false_iff; apply N.leb_le; apply N.le_0_l).
    split.
    + destruct (valid P cfg i) eqn:V; [|reflexivity]. apply valid_iff in V. destruct V as [V _]. congruence.
    + rewrite failed_is_filter. apply filter_In. split; [left; reflexivity|]. cbn. rewrite C. reflexivity.
  - eexists. split; vm_compute; reflexivity.
Qed.

(* in the term-algebra instance (where all idealised premises hold) the builder produces a header
   for every well-sized input of either layout: the premise of C40_tamper is satisfiable there *)
Example C40_ideal_world_inhabited : forall st i,
  b_mode st <> BadMode ->
  length (i_prev i) = 32%nat -> length (i_nonce i) = 32%nat -> length (i_bhash i) = 32%nat ->
  length (b_issuer st) = 32%nat -> length (b_csig st) = 64%nat -> b_hot st = kes_vk IP (b_kes_seed st) ->
  i_pool i <> 0 -> i_total i <> 0 -> i_slot i <= max_int64 ->
  exists h, build_header IP st i = BOk h.
Proof. exact IP_builds. Qed.

(* ---- no hidden state: the model's validator has no history parameter, so in any
   sequence of validations by one validator the verdict on a header is the verdict a fresh
   validator gives, whatever was validated before or after.  The correspondence run
   validates HISTORIES on long-lived HeaderValidator instances (genuine -> tampered,
   tampered -> genuine -> tampered, two pools interleaved) and compares every step with
   this stateless model: that is what ties "validation is a function of (header, context)"
   to the code. *)
Definition run_history (P : prims) (c : vcfg) (hist : list vinput) : list (list check * option bytes) :=
  map (validate_header P c) hist.
Theorem C40_history_independent : forall P c pre i post,
  nth (length pre) (run_history P c (pre ++ i :: post)) ([], None) = validate_header P c i.
Proof.
  intros. unfold run_history. rewrite map_app, app_nth2; rewrite map_length; [|lia].
  rewrite Nat.sub_diag. reflexivity.
Qed.
