(* C40 - produced headers validate, tampered ones do not.
   Model of consensus/block.go (BuildHeader, serializeHeaderBody{CPraos,TPraos}),
   consensus/validate.go (ValidateHeader and its ten checks), consensus/leader.go
   (IsSlotLeaderWithMode), ledger/verify_opcert.go (VerifyOpCertSignature,
   ValidateKesPeriod, ValidateOpCert), ledger/verify_kes.go (VerifyKesComponents)
   and the header part of ledger/verify_block.go (VerifyBlock).

   The cryptographic components are the fields of a record [prims]: the
   theorems quantify over it (Section variable + Section hypotheses), the
   correspondence run instantiates it with finite oracle tables recorded from
   the Go run.  Everything else (order of checks, length checks, uint64
   arithmetic, which bytes are signed, VRF input construction, both header
   layouts) is transcribed.  uint64 wrap-around is written explicitly
   ([wadd], [wsub]).  NO proofs in this file. *)
From Coq Require Import String.
From V Require Import Lib.Base Lib.Hex Lib.Cbor.
Local Open Scope N_scope.

Definition W64 : N := 2 ^ 64.
Definition wadd (a b : N) : N := (a + b) mod W64.          (* uint64 a + b *)
Definition wsub (a b : N) : N := (a + W64 - b) mod W64.    (* uint64 a - b, for a, b < 2^64 *)
Definition max_int64 : N := 2 ^ 63 - 1.
Definition be64 (n : N) : bytes := be 8 n.                 (* binary.BigEndian.PutUint64 *)
Definition leneq (b : bytes) (n : nat) : bool := Nat.eqb (length b) n.

(* ConsensusModeCPraos = 0, ConsensusModeTPraos = 1, anything else *)
Inductive mode := Praos | TPraos | BadMode.
Definition mode_eqb (a b : mode) : bool :=
  match a, b with Praos, Praos | TPraos, TPraos | BadMode, BadMode => true | _, _ => false end.

(* CertifiedNatThresholdWithMode (C37): threshold or error *)
Inductive thr_res := TOk (t : N) | TErr.

Record prims := {
  H256 : bytes -> bytes;                                   (* Blake2b-256 *)
  vrf_pk : bytes -> bytes;                                 (* VRFSigner.PublicKey *)
  vrf_prove : bytes -> bytes -> option (bytes * bytes);    (* VRFSigner.Prove: sk alpha -> proof, output; None = error *)
  vrf_vh : bytes -> bytes -> bytes -> option bytes;        (* vrf.VerifyAndHash pk proof alpha; None = any error *)
  kes_vk : bytes -> bytes;                                 (* KESSigner.PublicKey *)
  kes_sig : bytes -> N -> bytes -> option bytes;           (* KESSigner.Sign at the signer's period; None = error *)
  kes_verify : bytes -> N -> bytes -> bytes -> bool;       (* kes.VerifySignedKES vk period msg sig *)
  ed_pk : bytes -> bytes;
  ed_sign : bytes -> bytes -> bytes;                       (* ed25519.Sign sk msg *)
  ed_verify : bytes -> bytes -> bytes -> bool;             (* ed25519.Verify pk msg sig *)
  thr : N -> N -> mode -> thr_res                          (* pool total mode, for the configured f *)
}.

(* ------------------------------------------------------------------ *)
(* VRF input (vrf.MkInputVrf, vrf.MkSeedTPraos, SeedEta, SeedL)        *)

Fixpoint xor_bytes (a b : bytes) : bytes :=
  match a, b with x :: r, y :: s => N.lxor x y :: xor_bytes r s | _, _ => [] end.

Section with_prims.
Variable P : prims.

Definition mk_input (slot : N) (nonce : bytes) : bytes := H256 P (be64 slot ++ nonce).
Definition seed_eta : bytes := H256 P (be64 0).
Definition seed_l : bytes := H256 P (be64 1).
Definition mk_seed_tpraos (slot : N) (nonce seed : bytes) : bytes := xor_bytes (mk_input slot nonce) seed.

(* the switch on the mode in verifyCertifiedVRF / IsSlotLeaderWithMode *)
Definition vrf_input (m : mode) (slot : N) (nonce seed : bytes) : option bytes :=
  match m with
  | TPraos => Some (mk_seed_tpraos slot nonce seed)
  | Praos => Some (mk_input slot nonce)
  | BadMode => None
  end.

(* ------------------------------------------------------------------ *)
(* leader value and threshold comparison (threshold.go)                 *)

Definition nat_of_bytes (b : bytes) : N := fold_left (fun acc x => acc * 256 + x) b 0.
Definition leader_value (m : mode) (out : bytes) : bytes :=
  match m with TPraos => out | _ => H256 P (76 :: out) end.           (* "L" || output *)
(* IsVRFOutputBelowThresholdWithMode with a non-nil threshold; None = unknown mode *)
Definition below (m : mode) (out : bytes) (t : N) : option bool :=
  match m with
  | BadMode => None
  | _ => Some (match out with [] => false | _ => nat_of_bytes (leader_value m out) <? t end)
  end.

(* ------------------------------------------------------------------ *)
(* the header                                                           *)

Record header_body := {
  hb_blockno : N; hb_slot : N; hb_prev : bytes; hb_issuer : bytes; hb_vrfkey : bytes;
  hb_nonce_out : bytes; hb_nonce_proof : bytes;      (* TPraos only *)
  hb_out : bytes; hb_proof : bytes;
  hb_bsize : N; hb_bhash : bytes;
  hb_hot : bytes; hb_seq : N; hb_kper : N; hb_csig : bytes;
  hb_pmaj : N; hb_pmin : N }.
Record header := { h_body : header_body; h_sig : bytes }.

(* cbor.Encode of []any: shortest heads, definite lengths *)
Definition cu (n : N) : item := UInt (min_form n) n.
Definition cb (b : bytes) : item := BStr (min_form (N.of_nat (length b))) b.
Definition ca (xs : list item) : item := Arr (Some (min_form (N.of_nat (length xs)))) xs.

(* serializeHeaderBodyCPraos / serializeHeaderBodyTPraos *)
Definition body_item (m : mode) (b : header_body) : option item :=
  match m with
  | Praos => Some (ca [cu (hb_blockno b); cu (hb_slot b); cb (hb_prev b); cb (hb_issuer b); cb (hb_vrfkey b);
                       ca [cb (hb_out b); cb (hb_proof b)];
                       cu (hb_bsize b); cb (hb_bhash b);
                       ca [cb (hb_hot b); cu (hb_seq b); cu (hb_kper b); cb (hb_csig b)];
                       ca [cu (hb_pmaj b); cu (hb_pmin b)]])
  | TPraos => Some (ca [cu (hb_blockno b); cu (hb_slot b); cb (hb_prev b); cb (hb_issuer b); cb (hb_vrfkey b);
                        ca [cb (hb_nonce_out b); cb (hb_nonce_proof b)];
                        ca [cb (hb_out b); cb (hb_proof b)];
                        cu (hb_bsize b); cb (hb_bhash b);
                        cb (hb_hot b); cu (hb_seq b); cu (hb_kper b); cb (hb_csig b);
                        cu (hb_pmaj b); cu (hb_pmin b)])
  | BadMode => None
  end.
Definition serialize_body (m : mode) (b : header_body) : option bytes :=
  match body_item m b with Some i => Some (enc i) | None => None end.

(* common.OpCertSignableBytes: raw concatenation, not CBOR *)
Definition opcert_signable (hot : bytes) (seq kper : N) : bytes := hot ++ be64 seq ++ be64 kper.

(* ------------------------------------------------------------------ *)
(* consensus/leader.go IsSlotLeaderWithMode (after the nil checks)      *)

Inductive lres := LErr | LNot | LOk (proof out : bytes).
Definition is_slot_leader (m : mode) (sk : bytes) (slot : N) (nonce : bytes) (pool total : N) : lres :=
  if negb (leneq nonce 32) then LErr else
  if total =? 0 then LNot else
  if pool =? 0 then LNot else
  if max_int64 <? slot then LErr else
  match vrf_input m slot nonce seed_l with
  | None => LErr
  | Some a =>
    match vrf_prove P sk a with
    | None => LErr
    | Some (proof, out) =>
      if negb (leneq proof 80) then LErr else
      if negb (leneq out 64) then LErr else
      match thr P pool total m with
      | TErr => LErr
      | TOk t => match below m out t with
                 | None => LErr
                 | Some true => LOk proof out
                 | Some false => LNot
                 end
      end
    end
  end.

(* ------------------------------------------------------------------ *)
(* consensus/block.go BuildHeader                                       *)

Record bstate := {
  b_vrf_sk : bytes;
  b_kes_seed : bytes; b_kes_period : N;        (* the KES signer and the period it is evolved to *)
  b_hot : bytes; b_seq : N; b_kper : N; b_csig : bytes;   (* the operational certificate *)
  b_issuer : bytes;
  b_mode : mode }.
Record binput := {
  i_slot : N; i_blockno : N; i_prev : bytes; i_nonce : bytes; i_pool : N; i_total : N;
  i_bhash : bytes; i_bsize : N; i_pmaj : N; i_pmin : N }.
Inductive bres := BErr | BNotLeader | BOk (h : header).

Definition empty (b : bytes) : bool := match b with [] => true | _ => false end.

Definition build_header (st : bstate) (i : binput) : bres :=
  if empty (i_prev i) then BErr else
  if empty (i_nonce i) then BErr else
  if empty (i_bhash i) then BErr else
  if negb (leneq (b_issuer st) 32) then BErr else
  if negb (leneq (i_prev i) 32) then BErr else
  if negb (leneq (i_nonce i) 32) then BErr else
  if negb (leneq (i_bhash i) 32) then BErr else
  if negb (leneq (vrf_pk P (b_vrf_sk st)) 32) then BErr else
  if negb (leneq (b_hot st) 32) then BErr else
  if negb (leneq (b_csig st) 64) then BErr else
  if negb (leneq (kes_vk P (b_kes_seed st)) 32) then BErr else
  if negb (bytes_eqb (kes_vk P (b_kes_seed st)) (b_hot st)) then BErr else
  match is_slot_leader (b_mode st) (b_vrf_sk st) (i_slot i) (i_nonce i) (i_pool i) (i_total i) with
  | LErr => BErr
  | LNot => BNotLeader
  | LOk proof out =>
    (* Step 1b: the TPraos nonce VRF certificate *)
    let nonce_cert :=
      match b_mode st with
      | TPraos =>
        if max_int64 <? i_slot i then None else
        match vrf_prove P (b_vrf_sk st) (mk_seed_tpraos (i_slot i) (i_nonce i) seed_eta) with
        | None => None
        | Some (np, no) => if negb (leneq np 80) then None else if negb (leneq no 64) then None else Some (np, no)
        end
      | _ => Some ([], [])
      end in
    match nonce_cert with
    | None => BErr
    | Some (np, no) =>
      let hb := {| hb_blockno := i_blockno i; hb_slot := i_slot i; hb_prev := i_prev i;
                   hb_issuer := b_issuer st; hb_vrfkey := vrf_pk P (b_vrf_sk st);
                   hb_nonce_out := no; hb_nonce_proof := np; hb_out := out; hb_proof := proof;
                   hb_bsize := i_bsize i; hb_bhash := i_bhash i;
                   hb_hot := b_hot st; hb_seq := b_seq st; hb_kper := b_kper st; hb_csig := b_csig st;
                   hb_pmaj := i_pmaj i; hb_pmin := i_pmin i |} in
      match serialize_body (b_mode st) hb with
      | None => BErr
      | Some msg =>
        match kes_sig P (b_kes_seed st) (b_kes_period st) msg with
        | None => BErr
        | Some sg => BOk {| h_body := hb; h_sig := sg |}
        end
      end
    end
  end.

(* ------------------------------------------------------------------ *)
(* consensus/validate.go                                                *)

Record vcfg := { c_spk : N; c_maxev : N; c_mode : mode }.
Record vinput := {
  v_slot : N; v_blockno : N; v_prev : bytes; v_issuer : bytes; v_vrfkey : bytes;
  v_proof : bytes; v_out : bytes; v_sig : bytes; v_body : bytes;   (* KesSignature, HeaderBodyCbor *)
  v_nonce_proof : bytes; v_nonce_out : bytes;
  v_hot : bytes; v_seq : N; v_kper : N; v_csig : bytes;
  v_prev_slot : N; v_prev_blockno : N; v_prev_hh : bytes;
  v_nonce : bytes; v_pool : N; v_total : N; v_reg : bytes }.

(* validateSlotOrdering *)
Definition chk_slot (i : vinput) : bool := negb (v_slot i <=? v_prev_slot i).
(* validateBlockNumber: PrevBlockNumber + 1 is a uint64 addition *)
Definition chk_blockno (i : vinput) : bool := v_blockno i =? wadd (v_prev_blockno i) 1.
(* validatePrevHash *)
Definition chk_prevhash (i : vinput) : bool :=
  if (0 <? v_blockno i) && empty (v_prev_hh i) then false
  else if negb (empty (v_prev_hh i)) && negb (bytes_eqb (v_prev i) (v_prev_hh i)) then false
  else true.
(* verifyCertifiedVRF: Some output = success *)
Definition verify_cert_vrf (m : mode) (slot : N) (nonce key proof out seed : bytes) (check_out : bool) : option bytes :=
  if negb (leneq nonce 32) then None else
  if negb (leneq key 32) then None else
  if negb (leneq proof 80) then None else
  if check_out && negb (leneq out 64) then None else
  match vrf_input m slot nonce seed with
  | None => None
  | Some a =>
    match vrf_vh P key proof a with
    | None => None
    | Some o => if bytes_eqb o out then Some out else None     (* subtle.ConstantTimeCompare *)
    end
  end.
(* validateVRFProof *)
Definition chk_vrf (c : vcfg) (i : vinput) : option bytes :=
  verify_cert_vrf (c_mode c) (v_slot i) (v_nonce i) (v_vrfkey i) (v_proof i) (v_out i) seed_l false.
(* validateLeadership *)
Definition chk_leader (c : vcfg) (i : vinput) (out : bytes) : bool :=
  if v_total i =? 0 then false else
  match thr P (v_pool i) (v_total i) (c_mode c) with
  | TErr => false
  | TOk t => match below (c_mode c) out t with Some true => true | _ => false end
  end.
(* validateNonceVRFProof *)
Definition chk_nonce_vrf (c : vcfg) (i : vinput) : bool :=
  match c_mode c with
  | TPraos =>
    match verify_cert_vrf TPraos (v_slot i) (v_nonce i) (v_vrfkey i) (v_nonce_proof i) (v_nonce_out i) seed_eta true with
    | Some _ => true | None => false end
  | _ => true
  end.
(* validateKESPeriod *)
Definition chk_kes_period (c : vcfg) (i : vinput) : bool :=
  if c_spk c =? 0 then false else
  let cur := v_slot i / c_spk c in
  if cur <? v_kper i then false else
  if c_maxev c <=? wsub cur (v_kper i) then false else true.
(* validateKESSignature *)
Definition chk_kes_sig (c : vcfg) (i : vinput) : bool :=
  if c_spk c =? 0 then false else
  if empty (v_body i) then false else
  if negb (leneq (v_sig i) 448) then false else
  if negb (leneq (v_hot i) 32) then false else
  let cur := v_slot i / c_spk c in
  if cur <? v_kper i then false else
  kes_verify P (v_hot i) (wsub cur (v_kper i)) (v_body i) (v_sig i).
(* validateOpCertSignature *)
Definition chk_opcert (i : vinput) : bool :=
  if empty (v_issuer i) then false else
  if negb (leneq (v_issuer i) 32) then false else
  if negb (leneq (v_csig i) 64) then false else
  ed_verify P (v_issuer i) (opcert_signable (v_hot i) (v_seq i) (v_kper i)) (v_csig i).
(* validateVRFKeyRegistration *)
Definition chk_vrf_reg (i : vinput) : bool :=
  if empty (v_reg i) then true else
  if negb (leneq (v_vrfkey i) 32) then false else
  bytes_eqb (H256 P (v_vrfkey i)) (v_reg i).

Inductive check := CSlot | CBlockNo | CPrevHash | CVrf | CLeader | CNonceVrf | CKesPeriod | CKesSig | COpCert | CVrfReg.
Definition check_id (k : check) : N :=
  match k with CSlot => 1 | CBlockNo => 2 | CPrevHash => 3 | CVrf => 4 | CLeader => 5 | CNonceVrf => 6
             | CKesPeriod => 7 | CKesSig => 8 | COpCert => 9 | CVrfReg => 10 end.
(* the Go method behind each check, for the translator-generated list *)
Definition check_name (k : check) : string :=
  match k with
  | CSlot => "validateSlotOrdering" | CBlockNo => "validateBlockNumber" | CPrevHash => "validatePrevHash"
  | CVrf => "validateVRFProof" | CLeader => "validateLeadership" | CNonceVrf => "validateNonceVRFProof"
  | CKesPeriod => "validateKESPeriod" | CKesSig => "validateKESSignature" | COpCert => "validateOpCertSignature"
  | CVrfReg => "validateVRFKeyRegistration" end%string.
Definition all_checks : list check :=
  [CSlot; CBlockNo; CPrevHash; CVrf; CLeader; CNonceVrf; CKesPeriod; CKesSig; COpCert; CVrfReg].
(* the guard under which ValidateHeader runs the check ("" = always); the variable holding the
   first result of a check is written out(<check>) by the translator *)
Definition check_guard (k : check) : string :=
  match k with CLeader => "out(validateVRFProof) != nil" | _ => "" end%string.

Definition fail_if (ok : bool) (k : check) : list check := if ok then [] else [k].

(* ValidateHeader: the failed checks in the order their errors are appended,
   and ValidateResult.VrfOutput *)
Definition validate_header (c : vcfg) (i : vinput) : list check * option bytes :=
  let vo := chk_vrf c i in
  (fail_if (chk_slot i) CSlot ++ fail_if (chk_blockno i) CBlockNo ++ fail_if (chk_prevhash i) CPrevHash ++
   match vo with
   | None => [CVrf]
   | Some out => fail_if (chk_leader c i out) CLeader     (* step 5 runs only when vrfOutput != nil *)
   end ++
   fail_if (chk_nonce_vrf c i) CNonceVrf ++ fail_if (chk_kes_period c i) CKesPeriod ++
   fail_if (chk_kes_sig c i) CKesSig ++ fail_if (chk_opcert i) COpCert ++ fail_if (chk_vrf_reg i) CVrfReg,
   vo).
Definition valid (c : vcfg) (i : vinput) : bool := match fst (validate_header c i) with [] => true | _ => false end.

(* ------------------------------------------------------------------ *)
(* ledger/verify_opcert.go                                              *)

(* ValidateKesPeriod *)
Inductive kp_res := KErrSpk0 | KErrMax0 | KFuture | KExpired | KOk (t : N).
Definition validate_kes_period (c slot spk maxev : N) : kp_res :=
  if spk =? 0 then KErrSpk0 else
  if maxev =? 0 then KErrMax0 else
  let cur := slot / spk in
  if cur <? c then KFuture else
  let t := wsub cur c in
  if maxev <=? t then KExpired else KOk t.

(* VerifyOpCertSignature: which field is reported, or success *)
Inductive oc_res := OcKesVkey | OcSigLen | OcColdVkey | OcSigBad | OcOk.
Definition verify_opcert_sig (hot : bytes) (seq kper : N) (csig cold : bytes) : oc_res :=
  if negb (leneq hot 32) then OcKesVkey else
  if negb (leneq csig 64) then OcSigLen else
  if negb (leneq cold 32) then OcColdVkey else
  if ed_verify P cold (opcert_signable hot seq kper) csig then OcOk else OcSigBad.

(* ValidateOpCert: inl = signature failure, inr = period result *)
Definition validate_opcert (hot : bytes) (seq kper : N) (csig cold : bytes) (slot spk maxev : N) : oc_res + kp_res :=
  match verify_opcert_sig hot seq kper csig cold with
  | OcOk => inr (validate_kes_period kper slot spk maxev)
  | r => inl r
  end.

(* ------------------------------------------------------------------ *)
(* ledger/verify_kes.go VerifyKesComponents: error / verdict            *)

Definition verify_kes_components (body sg hot : bytes) (kper slot spk : N) : option bool :=
  if spk =? 0 then None else
  if negb (leneq sg 448) then None else
  let cur := slot / spk in
  if cur <? kper then Some false else
  Some (kes_verify P hot (wsub cur kper) body sg).

(* ------------------------------------------------------------------ *)
(* ledger/verify_block.go VerifyBlock, header part and body hash.
   [segs] = the raw CBOR of the block's top-level elements 1..minLength-1. *)

Inductive vb_res := VbProtocol | VbConfig | VbVrf | VbKes | VbBodyHash | VbOk.
Definition body_hash (segs : list bytes) : bytes := H256 P (flat_map (H256 P) segs).
Definition verify_block (tpraos : bool) (slot : N) (vrfkey proof out eta0 body sg hot : bytes) (kper spk : N)
    (bhash : bytes) (segs : list bytes) : vb_res :=
  if max_int64 <? slot then VbProtocol else
  if negb (leneq eta0 32) then VbConfig else
  let a := if tpraos then mk_seed_tpraos slot eta0 seed_l else mk_input slot eta0 in
  match vrf_vh P vrfkey proof a with
  | None => VbVrf
  | Some o =>
    if negb (bytes_eqb o out) then VbVrf else
    if empty body then VbProtocol else
    match verify_kes_components body sg hot kper slot spk with
    | None => VbKes
    | Some false => VbKes
    | Some true => if bytes_eqb (body_hash segs) bhash then VbOk else VbBodyHash
    end
  end.

(* ------------------------------------------------------------------ *)
(* the adapter the caller of ValidateHeader has to write: the decoded
   header's fields and its ORIGINAL body bytes *)

Record vctx := {
  x_prev_slot : N; x_prev_blockno : N; x_prev_hh : bytes; x_nonce : bytes; x_pool : N; x_total : N; x_reg : bytes }.
Definition vinput_of (b : header_body) (body sg : bytes) (x : vctx) : vinput :=
  {| v_slot := hb_slot b; v_blockno := hb_blockno b; v_prev := hb_prev b; v_issuer := hb_issuer b;
     v_vrfkey := hb_vrfkey b; v_proof := hb_proof b; v_out := hb_out b; v_sig := sg; v_body := body;
     v_nonce_proof := hb_nonce_proof b; v_nonce_out := hb_nonce_out b;
     v_hot := hb_hot b; v_seq := hb_seq b; v_kper := hb_kper b; v_csig := hb_csig b;
     v_prev_slot := x_prev_slot x; v_prev_blockno := x_prev_blockno x; v_prev_hh := x_prev_hh x;
     v_nonce := x_nonce x; v_pool := x_pool x; v_total := x_total x; v_reg := x_reg x |}.

End with_prims.

(* ------------------------------------------------------------------ *)
(* correspondence: primitives as finite oracle tables                   *)

Fixpoint lookup {K V} (eqb : K -> K -> bool) (k : K) (t : list (K * V)) : option V :=
  match t with [] => None | (k', v) :: r => if eqb k k' then Some v else lookup eqb k r end.
Definition eq2 (a b : bytes * bytes) : bool := bytes_eqb (fst a) (fst b) && bytes_eqb (snd a) (snd b).
Definition eq3 (a b : bytes * bytes * bytes) : bool := eq2 (fst a) (fst b) && bytes_eqb (snd a) (snd b).
Definition eq_kv (a b : bytes * N * bytes * bytes) : bool :=
  match a, b with (k1, p1, m1, s1), (k2, p2, m2, s2) => bytes_eqb k1 k2 && (p1 =? p2) && bytes_eqb m1 m2 && bytes_eqb s1 s2 end.
Definition eq_ks (a b : bytes * N * bytes) : bool :=
  match a, b with (k1, p1, m1), (k2, p2, m2) => bytes_eqb k1 k2 && (p1 =? p2) && bytes_eqb m1 m2 end.
Definition mode_id (m : mode) : N := match m with Praos => 0 | TPraos => 1 | BadMode => 2 end.
Definition eq_thr (a b : N * N * N) : bool :=
  match a, b with (p1, t1, m1), (p2, t2, m2) => (p1 =? p2) && (t1 =? t2) && (m1 =? m2) end.

Record tables := {
  t_hash : list (bytes * bytes);                       (* preimage -> Blake2b-256 digest *)
  t_vrf_pk : list (bytes * bytes);
  t_vrf_prove : list ((bytes * bytes) * (bytes * bytes));
  t_vrf_vh : list ((bytes * bytes * bytes) * bytes);   (* only successes are listed *)
  t_kes_vk : list (bytes * bytes);
  t_kes_sig : list ((bytes * N * bytes) * bytes);
  t_kes_verify : list ((bytes * N * bytes * bytes) * bool);
  t_ed_verify : list ((bytes * bytes * bytes) * bool);
  t_thr : list ((N * N * N) * thr_res) }.

(* an entry that was not recorded reads as "fails" / empty: a model that asks
   for something the implementation never computed then disagrees visibly *)
Definition prims_of (t : tables) : prims :=
  {| H256 := fun x => match lookup bytes_eqb x (t_hash t) with Some d => d | None => [] end;
     vrf_pk := fun s => match lookup bytes_eqb s (t_vrf_pk t) with Some d => d | None => [] end;
     vrf_prove := fun s a => lookup eq2 (s, a) (t_vrf_prove t);
     vrf_vh := fun k p a => lookup eq3 (k, p, a) (t_vrf_vh t);
     kes_vk := fun s => match lookup bytes_eqb s (t_kes_vk t) with Some d => d | None => [] end;
     kes_sig := fun s p m => lookup eq_ks (s, p, m) (t_kes_sig t);
     kes_verify := fun k p m s => match lookup eq_kv (k, p, m, s) (t_kes_verify t) with Some b => b | None => false end;
     ed_pk := fun _ => [];
     ed_sign := fun _ _ => [];
     ed_verify := fun k m s => match lookup eq3 (k, m, s) (t_ed_verify t) with Some b => b | None => false end;
     thr := fun p t' m => match lookup eq_thr (p, t', mode_id m) (t_thr t) with Some r => r | None => TErr end |}.

(* observed results are projected to small numbers by the harness *)
Definition kp_code (r : kp_res) : N * N :=
  match r with KErrSpk0 => (1, 0) | KErrMax0 => (2, 0) | KFuture => (3, 0) | KExpired => (4, 0) | KOk t => (0, t) end.
Definition oc_code (r : oc_res) : N :=
  match r with OcOk => 0 | OcKesVkey => 1 | OcSigLen => 2 | OcColdVkey => 3 | OcSigBad => 4 end.
Definition vb_code (r : vb_res) : N :=
  match r with VbOk => 0 | VbProtocol => 1 | VbConfig => 2 | VbVrf => 3 | VbKes => 4 | VbBodyHash => 5 end.

Definition header_body_eqb (a b : header_body) : bool :=
  (hb_blockno a =? hb_blockno b) && (hb_slot a =? hb_slot b) && bytes_eqb (hb_prev a) (hb_prev b) &&
  bytes_eqb (hb_issuer a) (hb_issuer b) && bytes_eqb (hb_vrfkey a) (hb_vrfkey b) &&
  bytes_eqb (hb_nonce_out a) (hb_nonce_out b) && bytes_eqb (hb_nonce_proof a) (hb_nonce_proof b) &&
  bytes_eqb (hb_out a) (hb_out b) && bytes_eqb (hb_proof a) (hb_proof b) &&
  (hb_bsize a =? hb_bsize b) && bytes_eqb (hb_bhash a) (hb_bhash b) &&
  bytes_eqb (hb_hot a) (hb_hot b) && (hb_seq a =? hb_seq b) && (hb_kper a =? hb_kper b) &&
  bytes_eqb (hb_csig a) (hb_csig b) && (hb_pmaj a =? hb_pmaj b) && (hb_pmin a =? hb_pmin b).

Definition opt_bytes_eqb := opt_eqb bytes_eqb.

Inductive case :=
(* ValidateHeader: config, input, failed checks in order, ValidateResult.VrfOutput *)
| KValidate (c : vcfg) (i : vinput) (failed : list N) (out : option bytes)
(* BuildHeader: 0 = error, 1 = ErrNotSlotLeader, 2 = header *)
| KBuild (st : bstate) (i : binput) (cls : N) (h : option header)
(* the builder's signed bytes: serializeHeaderBody output as recovered from the wire *)
| KSerialize (m : mode) (b : header_body) (wire : bytes)
| KKesPeriod (c slot spk maxev : N) (cls t : N)
| KOpCertSig (hot : bytes) (seq kper : N) (csig cold : bytes) (cls : N)
| KValidateOpCert (hot : bytes) (seq kper : N) (csig cold : bytes) (slot spk maxev : N) (sigcls pcls t : N)
| KKesComponents (body sg hot : bytes) (kper slot spk : N) (err verdict : bool)
| KVerifyBlock (tpraos : bool) (slot : N) (vrfkey proof out eta0 body sg hot : bytes) (kper spk : N)
               (bhash : bytes) (segs : list bytes) (cls : N).

Definition check_case (T : tables) (c : case) : bool :=
  let P := prims_of T in
  match c with
  | KValidate cfg i failed out =>
      let r := validate_header P cfg i in
      list_eqb N.eqb (map check_id (fst r)) failed && opt_bytes_eqb (snd r) out
  | KBuild st i cls h =>
      match build_header P st i, h with
      | BErr, None => cls =? 0
      | BNotLeader, None => cls =? 1
      | BOk h1, Some h2 => (cls =? 2) && header_body_eqb (h_body h1) (h_body h2) && bytes_eqb (h_sig h1) (h_sig h2)
      | _, _ => false
      end
  | KSerialize m b wire =>
      match serialize_body m b with Some bs => bytes_eqb bs wire | None => false end
  | KKesPeriod c slot spk maxev cls t =>
      let r := kp_code (validate_kes_period c slot spk maxev) in (fst r =? cls) && (snd r =? t)
  | KOpCertSig hot seq kper csig cold cls => oc_code (verify_opcert_sig P hot seq kper csig cold) =? cls
  | KValidateOpCert hot seq kper csig cold slot spk maxev sigcls pcls t =>
      match validate_opcert P hot seq kper csig cold slot spk maxev with
      | inl r => (oc_code r =? sigcls) && negb (sigcls =? 0)
      | inr k => (sigcls =? 0) && (fst (kp_code k) =? pcls) && (snd (kp_code k) =? t)
      end
  | KKesComponents body sg hot kper slot spk err verdict =>
      match verify_kes_components P body sg hot kper slot spk with
      | None => err
      | Some b => negb err && Bool.eqb b verdict
      end
  | KVerifyBlock tp slot vrfkey proof out eta0 body sg hot kper spk bhash segs cls =>
      vb_code (verify_block P tp slot vrfkey proof out eta0 body sg hot kper spk bhash segs) =? cls
  end.

Definition mismatches (T : tables) : list case -> list nat := failing (check_case T).
