(* C40 - a header produced by the builder model passes every validator
   model, from the completeness laws of the components (Section hypotheses). *)
From Coq Require Import String.
From V Require Import Lib.Base Lib.Cbor Lib.CborLemmas C40.Model C40.Proofs.
Local Open Scope N_scope.

Ltac step H :=
  match type of H with
  | (if ?b then _ else _) = _ => let E := fresh "E" in destruct b eqn:E; try discriminate H
  | match ?x with _ => _ end = _ => let E := fresh "E" in destruct x eqn:E; try discriminate H
  end.
Ltac norm_hyps :=
  repeat match goal with
  | H : negb (leneq _ _) = false |- _ => apply nleneq_false in H
  | H : negb (bytes_eqb _ _) = false |- _ => apply negb_false_iff in H; apply bytes_eqb_eq in H
  | H : (_ =? _) = false |- _ => apply N.eqb_neq in H
  | H : (_ <? _) = false |- _ => apply N.ltb_ge in H
  end.

Lemma slot64 slot : slot <= max_int64 -> slot < 2 ^ 64.
Proof. unfold max_int64. change (2 ^ 63) with 9223372036854775808. change (2 ^ 64) with 18446744073709551616. lia. Qed.

Section accept.
Variable P : prims.

(* C38_complete_all_keys: whatever Prove returns verifies under the signer's
   public key and VerifyAndHash yields the same output *)
Hypothesis vrf_complete : forall sk a pi out,
  vrf_prove P sk a = Some (pi, out) -> vrf_vh P (vrf_pk P sk) pi a = Some out.
(* C39_complete (depth 6): the signature made at evolution t < 2^6 verifies
   at t under the key-generation public key and has SignatureSize(6) bytes *)
Hypothesis kes_complete : forall seed t m sg, t < 64 ->
  kes_sig P seed t m = Some sg -> kes_verify P (kes_vk P seed) t m sg = true /\ length sg = 448%nat.
(* Ed25519 correctness *)
Hypothesis ed_complete : forall sk m, ed_verify P (ed_pk P sk) m (ed_sign P sk m) = true.

Lemma leader_inv m sk slot nonce pool total proof out :
  is_slot_leader P m sk slot nonce pool total = LOk proof out ->
  length nonce = 32%nat /\ total <> 0 /\ pool <> 0 /\ slot <= max_int64 /\
  exists a t, vrf_input P m slot nonce (seed_l P) = Some a /\ vrf_prove P sk a = Some (proof, out) /\
    length proof = 80%nat /\ length out = 64%nat /\ thr P pool total m = TOk t /\ below P m out t = Some true.
Proof.
  unfold is_slot_leader. intros H. repeat step H. inversion H; subst. norm_hyps.
  repeat split; try assumption. do 2 eexists. repeat split; try eassumption; reflexivity.
Qed.

Definition built_body (st : bstate) (i : binput) (proof out np no : bytes) : header_body :=
  {| hb_blockno := i_blockno i; hb_slot := i_slot i; hb_prev := i_prev i;
     hb_issuer := b_issuer st; hb_vrfkey := vrf_pk P (b_vrf_sk st);
     hb_nonce_out := no; hb_nonce_proof := np; hb_out := out; hb_proof := proof;
     hb_bsize := i_bsize i; hb_bhash := i_bhash i;
     hb_hot := b_hot st; hb_seq := b_seq st; hb_kper := b_kper st; hb_csig := b_csig st;
     hb_pmaj := i_pmaj i; hb_pmin := i_pmin i |}.

Lemma build_inv st i h : build_header P st i = BOk h ->
  exists proof out np no msg,
    length (i_prev i) = 32%nat /\ length (i_nonce i) = 32%nat /\ length (i_bhash i) = 32%nat /\
    length (b_issuer st) = 32%nat /\ length (vrf_pk P (b_vrf_sk st)) = 32%nat /\
    length (b_hot st) = 32%nat /\ length (b_csig st) = 64%nat /\
    kes_vk P (b_kes_seed st) = b_hot st /\
    is_slot_leader P (b_mode st) (b_vrf_sk st) (i_slot i) (i_nonce i) (i_pool i) (i_total i) = LOk proof out /\
    match b_mode st with
    | TPraos => vrf_prove P (b_vrf_sk st) (mk_seed_tpraos P (i_slot i) (i_nonce i) (seed_eta P)) = Some (np, no) /\
                length np = 80%nat /\ length no = 64%nat
    | _ => np = [] /\ no = []
    end /\
    h_body h = built_body st i proof out np no /\
    serialize_body (b_mode st) (h_body h) = Some msg /\
    kes_sig P (b_kes_seed st) (b_kes_period st) msg = Some (h_sig h).
Proof.
  unfold build_header. cbv zeta. intros H. repeat step H. inversion H; subst; clear H. norm_hyps.
  match goal with
  | E : match b_mode st with _ => _ end = Some (?np, ?no) |- _ =>
      exists proof, out, np, no; eexists; repeat split; try eassumption;
      destruct (b_mode st); try (inversion E; subst; split; reflexivity);
      repeat step E; inversion E; subst; norm_hyps; repeat split; assumption
  end.
Qed.

(* the context in which the header is presented *)
Record ctx_ok (st : bstate) (i : binput) (cfg : vcfg) (x : vctx) (cold : bytes) : Prop := {
  ok_mode : c_mode cfg = b_mode st;
  ok_spk : c_spk cfg <> 0;
  (* the slot is inside the certificate's window and the signer is evolved to the slot's period *)
  ok_window : b_kper st <= i_slot i / c_spk cfg < b_kper st + c_maxev cfg;
  ok_signer : b_kes_period st = i_slot i / c_spk cfg - b_kper st;
  ok_depth : b_kes_period st < 64;
  (* the certificate is the cold key's signature over (hot key, counter, start period) *)
  ok_issuer : b_issuer st = ed_pk P cold;
  ok_cert : b_csig st = ed_sign P cold (opcert_signable (b_hot st) (b_seq st) (b_kper st));
  (* the previous header *)
  ok_prev_slot : x_prev_slot x < i_slot i;
  ok_blockno : i_blockno i = wadd (x_prev_blockno x) 1;
  ok_prev_hh : x_prev_hh x = i_prev i;
  (* same epoch nonce and stake distribution on both sides *)
  ok_nonce : x_nonce x = i_nonce i;
  ok_pool : x_pool x = i_pool i;
  ok_total : x_total x = i_total i;
  ok_reg : x_reg x = [] \/ x_reg x = H256 P (vrf_pk P (b_vrf_sk st)) }.

Lemma serialize_nonempty m b msg : serialize_body m b = Some msg -> empty msg = false.
Proof.
  unfold serialize_body, body_item. destruct m; intros E; inversion E; subst; reflexivity.
Qed.

Theorem accept_validate st i h x cfg cold msg :
  build_header P st i = BOk h ->
  serialize_body (b_mode st) (h_body h) = Some msg ->
  ctx_ok st i cfg x cold ->
  validate_header P cfg (vinput_of (h_body h) msg (h_sig h) x) = ([], Some (hb_out (h_body h))).
Proof.
  intros HB HS C. destruct (build_inv _ _ _ HB) as (proof & out & np & no & msg' & Lp & Ln & Lb & Li & Lv & Lh & Lc & Ek & HL & HN & Eb & HS' & Hsig).
  assert (msg' = msg) by congruence. subst msg'.
  destruct (leader_inv _ _ _ _ _ _ _ _ HL) as (_ & Ht & _ & Hs64 & a & t & Ha & Hp & Lpr & Lo & Hthr & Hbel).
  destruct C. pose proof (slot64 _ Hs64) as Hslot.
  assert (V : valid P cfg (vinput_of (h_body h) msg (h_sig h) x) = true).
  { apply valid_iff. rewrite Eb. unfold vinput_of, built_body. cbn.
    assert (Ecur : (i_slot i / c_spk cfg <? b_kper st) = false) by (apply N.ltb_ge; lia).
    destruct (kes_complete _ _ _ _ ok_depth0 Hsig) as [Hkv Lsig].
    repeat split.
    - unfold chk_slot. cbn. apply negb_true_iff. apply N.leb_gt. assumption.
    - unfold chk_blockno. cbn. apply N.eqb_eq. assumption.
    - unfold chk_prevhash. cbn. rewrite ok_prev_hh0, (empty_len _ _ Lp), andb_false_r. cbn.
      rewrite bytes_eqb_refl. reflexivity.
    - exists out. split.
      + unfold chk_vrf, verify_cert_vrf. cbn. rewrite ok_nonce0, ok_mode0.
        unfold leneq. rewrite Ln, Lv, Lpr. cbn. rewrite Ha, (vrf_complete _ _ _ _ Hp), bytes_eqb_refl. reflexivity.
      + unfold chk_leader. cbn. rewrite ok_total0, ok_pool0, ok_mode0.
        destruct (i_total i =? 0) eqn:E0; [apply N.eqb_eq in E0; contradiction|].
        rewrite Hthr, Hbel. reflexivity.
    - unfold chk_nonce_vrf. rewrite ok_mode0. destruct (b_mode st) eqn:Em; try reflexivity.
      destruct HN as (Hnp & Lnp & Lno). unfold verify_cert_vrf. cbn. rewrite ok_nonce0.
      unfold leneq. rewrite Ln, Lv, Lnp, Lno. cbn. rewrite (vrf_complete _ _ _ _ Hnp), bytes_eqb_refl. reflexivity.
    - apply chk_kes_period_spec; cbn; [assumption|]. split; assumption.
    - unfold chk_kes_sig. cbn.
      destruct (c_spk cfg =? 0) eqn:E0; [apply N.eqb_eq in E0; contradiction|].
      rewrite (serialize_nonempty _ _ _ HS). unfold leneq. rewrite Lsig, Lh. cbn. rewrite Ecur.
      rewrite wsub_exact; [|lia|apply cur_small; assumption].
      rewrite <- ok_signer0, <- Ek. exact Hkv.
    - unfold chk_opcert. cbn. rewrite (empty_len _ _ Li). unfold leneq. rewrite Li, Lc. cbn.
      rewrite ok_cert0, ok_issuer0. apply ed_complete.
    - unfold chk_vrf_reg. cbn. destruct (empty (x_reg x)) eqn:Er; [reflexivity|].
      destruct ok_reg0 as [E|E]; [rewrite E in Er; discriminate|].
      unfold leneq. rewrite Lv. cbn. rewrite E. apply bytes_eqb_refl. }
  pose proof (valid_vrf_output P _ _ V) as Vo.
  unfold valid in V. apply nil_true in V.
  destruct (validate_header P cfg (vinput_of (h_body h) msg (h_sig h) x)) as [l o]. cbn in *. subst. reflexivity.
Qed.

(* ledger.ValidateOpCert accepts and returns the evolution the signer used *)
Theorem accept_opcert st i h x cfg cold :
  build_header P st i = BOk h -> ctx_ok st i cfg x cold -> c_maxev cfg <> 0 ->
  validate_opcert P (hb_hot (h_body h)) (hb_seq (h_body h)) (hb_kper (h_body h)) (hb_csig (h_body h))
    (hb_issuer (h_body h)) (hb_slot (h_body h)) (c_spk cfg) (c_maxev cfg) = inr (KOk (b_kes_period st)).
Proof.
  intros HB C Hm. destruct (build_inv _ _ _ HB) as (proof & out & np & no & msg' & Lp & Ln & Lb & Li & Lv & Lh & Lc & Ek & HL & HN & Eb & HS' & Hsig).
  destruct (leader_inv _ _ _ _ _ _ _ _ HL) as (_ & _ & _ & Hs64 & _).
  destruct C. rewrite Eb. unfold built_body. cbn.
  unfold validate_opcert, verify_opcert_sig, leneq. rewrite Lh, Lc, Li. cbn.
  rewrite ok_cert0, ok_issuer0, ed_complete.
  destruct (vkp_cases (b_kper st) (i_slot i) (c_spk cfg) (c_maxev cfg) (slot64 _ Hs64) ok_spk0 Hm) as [[H _]|[[H _]|[_ E]]]; try lia.
  rewrite E, ok_signer0. reflexivity.
Qed.

(* ledger.VerifyBlock (header part + body hash) accepts the block whose body
   segments hash to the header's body hash *)
Theorem accept_verify_block st i h x cfg cold msg segs :
  build_header P st i = BOk h ->
  serialize_body (b_mode st) (h_body h) = Some msg ->
  ctx_ok st i cfg x cold ->
  i_bhash i = body_hash P segs ->
  let b := h_body h in
  verify_block P (mode_eqb (b_mode st) TPraos) (hb_slot b) (hb_vrfkey b) (hb_proof b) (hb_out b) (x_nonce x)
    msg (h_sig h) (hb_hot b) (hb_kper b) (c_spk cfg) (hb_bhash b) segs = VbOk.
Proof.
  intros HB HS C Hh. destruct (build_inv _ _ _ HB) as (proof & out & np & no & msg' & Lp & Ln & Lb & Li & Lv & Lh & Lc & Ek & HL & HN & Eb & HS' & Hsig).
  destruct (leader_inv _ _ _ _ _ _ _ _ HL) as (_ & Ht & _ & Hs64 & a & t & Ha & Hp & Lpr & Lo & Hthr & Hbel).
  destruct C. cbv zeta. rewrite Eb. unfold built_body. cbn.
  unfold verify_block.
  destruct (max_int64 <? i_slot i) eqn:E1; [apply N.ltb_lt in E1; lia|].
  unfold leneq. rewrite ok_nonce0, Ln. cbn.
  assert (Ea : (if mode_eqb (b_mode st) TPraos then mk_seed_tpraos P (i_slot i) (i_nonce i) (seed_l P) else mk_input P (i_slot i) (i_nonce i)) = a).
  { destruct (b_mode st); cbn in *; congruence. }
  rewrite Ea, (vrf_complete _ _ _ _ Hp), bytes_eqb_refl. cbn.
  rewrite (serialize_nonempty _ _ _ HS).
  destruct (kes_complete _ _ _ _ ok_depth0 Hsig) as [Hkv Lsig].
  unfold verify_kes_components.
  destruct (c_spk cfg =? 0) eqn:E0; [apply N.eqb_eq in E0; contradiction|].
  unfold leneq. rewrite Lsig. cbn.
  assert (Ecur : (i_slot i / c_spk cfg <? b_kper st) = false) by (apply N.ltb_ge; lia).
  rewrite Ecur. rewrite wsub_exact; [|lia|apply cur_small; [apply slot64|]; assumption].
  assert (msg' = msg) by congruence. subst msg'.
  rewrite <- ok_signer0, <- Ek, Hkv, Hh, bytes_eqb_refl. reflexivity.
Qed.

(* the builder succeeds whenever its inputs are well-sized and the pool leads *)
Theorem build_succeeds st i proof out :
  length (i_prev i) = 32%nat -> length (i_nonce i) = 32%nat -> length (i_bhash i) = 32%nat ->
  length (b_issuer st) = 32%nat -> length (vrf_pk P (b_vrf_sk st)) = 32%nat ->
  length (b_hot st) = 32%nat -> length (b_csig st) = 64%nat -> kes_vk P (b_kes_seed st) = b_hot st ->
  is_slot_leader P (b_mode st) (b_vrf_sk st) (i_slot i) (i_nonce i) (i_pool i) (i_total i) = LOk proof out ->
  (b_mode st = TPraos -> exists np no, vrf_prove P (b_vrf_sk st) (mk_seed_tpraos P (i_slot i) (i_nonce i) (seed_eta P)) = Some (np, no)
                                       /\ length np = 80%nat /\ length no = 64%nat) ->
  (forall m, exists sg, kes_sig P (b_kes_seed st) (b_kes_period st) m = Some sg) ->
  exists h, build_header P st i = BOk h.
Proof.
  intros Lp Ln Lb Li Lv Lh Lc Ek HL HN Hk.
  destruct (leader_inv _ _ _ _ _ _ _ _ HL) as (_ & _ & _ & Hs64 & a & t & Ha & _).
  unfold build_header. rewrite (empty_len _ _ Lp), (empty_len _ _ Ln), (empty_len _ _ Lb).
  unfold leneq. rewrite Li, Lp, Ln, Lb, Lv, Lh, Lc, Ek, Lh. cbn. rewrite bytes_eqb_refl. cbn.
  rewrite HL.
  destruct (b_mode st) eqn:Em.
  - cbv zeta. unfold serialize_body. cbn [body_item].
    match goal with |- context[kes_sig P ?s ?p ?m] => destruct (Hk m) as [sg ->] end. eexists; reflexivity.
  - destruct (HN eq_refl) as (np & no & Hnp & Lnp & Lno).
    assert (E1 : (max_int64 <? i_slot i) = false) by (apply N.ltb_ge; assumption).
    rewrite E1, Hnp. unfold leneq. rewrite Lnp, Lno. cbn.
    cbv zeta. unfold serialize_body. cbn [body_item].
    match goal with |- context[kes_sig P ?s ?p ?m] => destruct (Hk m) as [sg ->] end. eexists; reflexivity.
  - cbn in Ha. discriminate.
Qed.

End accept.
