(* C40 - tampering, under EXPLICITLY IDEALISED primitives (symbolic model):
   injective hash, signatures that verify only if they are the signature of
   exactly that message (and period), VRF proofs that verify only if they are
   the proof of exactly that input.  These are hypotheses of this Section; no
   real fixed-width function satisfies them (C40/Ideal.v gives a term-algebra
   instance, so they are jointly satisfiable together with the completeness
   laws).  Serialisation injectivity is proved, not assumed (Lib.CborProofs). *)
From Coq Require Import String.
From V Require Import Lib.Base Lib.Cbor Lib.CborParse Lib.CborLemmas Lib.CborProofs C40.Model C40.Proofs C40.Accept.
Local Open Scope N_scope.

(* ------------------------------------------------------------------ *)
(* byte-level injectivity facts (no hypotheses)                         *)

Lemma app_len_inj {A} (l1 l2 r1 r2 : list A) :
  length l1 = length l2 -> l1 ++ r1 = l2 ++ r2 -> l1 = l2 /\ r1 = r2.
Proof.
  revert l2. induction l1 as [|x l1 IH]; intros [|y l2] L E; cbn in *; try discriminate; auto.
  inversion E; subst. destruct (IH l2) as [-> ->]; auto.
Qed.

Lemma be64_inj n n' : n < 2 ^ 64 -> n' < 2 ^ 64 -> be64 n = be64 n' -> n = n'.
Proof.
  intros Hn Hn' E. unfold be64 in E.
  assert (A : rd 8 (be 8 n ++ []) 0 = Some (n, [])) by (apply rd_be; exact Hn).
  assert (B : rd 8 (be 8 n' ++ []) 0 = Some (n', [])) by (apply rd_be; exact Hn').
  rewrite E in A. congruence.
Qed.
Lemma be64_len n : length (be64 n) = 8%nat.
Proof. apply be_length. Qed.

Lemma signable_inj hot s k hot' s' k' :
  s < 2 ^ 64 -> k < 2 ^ 64 -> s' < 2 ^ 64 -> k' < 2 ^ 64 ->
  opcert_signable hot s k = opcert_signable hot' s' k' -> hot = hot' /\ s = s' /\ k = k'.
Proof.
  intros Hs Hk Hs' Hk' E. unfold opcert_signable in E.
  assert (L : length hot = length hot').
  { apply (f_equal (@length N)) in E. rewrite !app_length, !be64_len in E. lia. }
  apply app_len_inj in E; [|exact L]. destruct E as [-> E].
  apply app_len_inj in E; [|rewrite !be64_len; reflexivity]. destruct E as [E1 E2].
  apply be64_inj in E1; auto. apply be64_inj in E2; auto.
Qed.

Lemma lxor_cancel a b c : N.lxor a c = N.lxor b c -> a = b.
Proof.
  intros E. apply (f_equal (fun x => N.lxor x c)) in E.
  rewrite !N.lxor_assoc, !N.lxor_nilpotent, !N.lxor_0_r in E. exact E.
Qed.
Lemma xor_inj : forall x y s, length x = length s -> length y = length s -> xor_bytes x s = xor_bytes y s -> x = y.
Proof.
  induction x as [|a x IH]; intros [|b y] [|c s] Lx Ly E; cbn in *; try discriminate; auto.
  inversion E as [[E1 E2]]. apply lxor_cancel in E1. subst. f_equal. apply (IH y s); congruence.
Qed.

(* ------------------------------------------------------------------ *)
(* serialisation is injective on well-formed header bodies              *)

Lemma fits_min_form n : n < 2 ^ 64 -> fits (min_form n) n.
Proof.
  intros H. unfold min_form.
  destruct (n <? 24) eqn:E1; [apply N.ltb_lt in E1; exact E1|].
  destruct (n <? 2 ^ 8) eqn:E2; [apply N.ltb_lt in E2; exact E2|].
  destruct (n <? 2 ^ 16) eqn:E3; [apply N.ltb_lt in E3; exact E3|].
  destruct (n <? 2 ^ 32) eqn:E4; [apply N.ltb_lt in E4; exact E4|]. exact H.
Qed.
Definition bytes_ok (b : bytes) : Prop := all_bytes b /\ N.of_nat (length b) < 2 ^ 64.
Lemma wf_cu n : n < 2 ^ 64 -> wf (cu n).
Proof. intros H. cbn. apply fits_min_form. exact H. Qed.
Lemma wf_cb b : bytes_ok b -> wf (cb b).
Proof. intros [A L]. cbn. split; [apply fits_min_form; exact L|exact A]. Qed.

Record hb_wf (b : header_body) : Prop := {
  wf_blockno : hb_blockno b < 2 ^ 64; wf_slot : hb_slot b < 2 ^ 64; wf_prev : bytes_ok (hb_prev b);
  wf_issuer : bytes_ok (hb_issuer b); wf_vrfkey : bytes_ok (hb_vrfkey b);
  wf_nonce_out : bytes_ok (hb_nonce_out b); wf_nonce_proof : bytes_ok (hb_nonce_proof b);
  wf_out : bytes_ok (hb_out b); wf_proof : bytes_ok (hb_proof b);
  wf_bsize : hb_bsize b < 2 ^ 64; wf_bhash : bytes_ok (hb_bhash b);
  wf_hot : bytes_ok (hb_hot b); wf_seq : hb_seq b < 2 ^ 64; wf_kper : hb_kper b < 2 ^ 64; wf_csig : bytes_ok (hb_csig b);
  wf_pmaj : hb_pmaj b < 2 ^ 64; wf_pmin : hb_pmin b < 2 ^ 64 }.

Lemma body_item_wf m b it : hb_wf b -> body_item m b = Some it -> wf it.
Proof.
  intros W E. destruct W. destruct m; inversion E; subst; clear E;
    cbn [wf ca]; repeat split; try (apply wf_cu; assumption); try (apply wf_cb; assumption);
    try (apply fits_min_form; cbn; lia).
Qed.

(* the fields that the layout serialises *)
Definition same_signed (m : mode) (a b : header_body) : Prop :=
  hb_blockno a = hb_blockno b /\ hb_slot a = hb_slot b /\ hb_prev a = hb_prev b /\ hb_issuer a = hb_issuer b /\
  hb_vrfkey a = hb_vrfkey b /\ hb_out a = hb_out b /\ hb_proof a = hb_proof b /\ hb_bsize a = hb_bsize b /\
  hb_bhash a = hb_bhash b /\ hb_hot a = hb_hot b /\ hb_seq a = hb_seq b /\ hb_kper a = hb_kper b /\
  hb_csig a = hb_csig b /\ hb_pmaj a = hb_pmaj b /\ hb_pmin a = hb_pmin b /\
  (m = TPraos -> hb_nonce_out a = hb_nonce_out b /\ hb_nonce_proof a = hb_nonce_proof b).

Lemma serialize_inj m a b bs : hb_wf a -> hb_wf b ->
  serialize_body m a = Some bs -> serialize_body m b = Some bs -> same_signed m a b.
Proof.
  intros Wa Wb Ea Eb. unfold serialize_body in *.
  destruct (body_item m a) as [ia|] eqn:Ia; [|discriminate].
  destruct (body_item m b) as [ib|] eqn:Ib; [|discriminate].
  inversion Ea; inversion Eb; subst. clear Ea Eb.
  assert (E : ia = ib).
  { destruct (enc_inj ia ib [] [] (body_item_wf _ _ _ Wa Ia) (body_item_wf _ _ _ Wb Ib)) as [E _]; [|exact E].
    rewrite !app_nil_r. congruence. }
  subst ib. unfold same_signed.
  destruct m; cbn in Ia, Ib; inversion Ia as [Ja]; rewrite <- Ja in Ib; inversion Ib; subst;
    repeat split; try congruence; try discriminate.
Qed.

(* ------------------------------------------------------------------ *)
Section ideal.
Variable P : prims.

Hypothesis H_inj : forall x y, H256 P x = H256 P y -> x = y.
Hypothesis H_len : forall x, length (H256 P x) = 32%nat.
(* a KES signature verifies under a generated key only if it is that key's
   signature of that message at that period (C39_period_bound / C39_sig_unique) *)
Hypothesis kes_ideal : forall s t m sg, kes_verify P (kes_vk P s) t m sg = true -> kes_sig P s t m = Some sg.
Hypothesis kes_bind : forall s t m t' m' sg, kes_sig P s t m = Some sg -> kes_sig P s t' m' = Some sg -> t = t' /\ m = m'.
Hypothesis ed_ideal : forall s m sg, ed_verify P (ed_pk P s) m sg = true -> sg = ed_sign P s m.
Hypothesis ed_bind : forall s m m', ed_sign P s m = ed_sign P s m' -> m = m'.
(* a VRF certificate verifies under a generated key only if it is what Prove
   returns for that input; a certificate belongs to one input *)
Hypothesis vrf_ideal : forall s pi a out, vrf_vh P (vrf_pk P s) pi a = Some out -> vrf_prove P s a = Some (pi, out).
Hypothesis vrf_bind : forall s a a' r, vrf_prove P s a = Some r -> vrf_prove P s a' = Some r -> a = a'.

(* --- the operational certificate and its cold signature *)
Theorem tamper_opcert_sig i cold :
  chk_opcert P i = true -> v_issuer i = ed_pk P cold ->
  v_csig i = ed_sign P cold (opcert_signable (v_hot i) (v_seq i) (v_kper i)).
Proof.
  unfold chk_opcert. intros H E. repeat step H. rewrite E in H. apply ed_ideal in H. exact H.
Qed.

Theorem tamper_opcert i cold hot seq kper :
  chk_opcert P i = true -> v_issuer i = ed_pk P cold ->
  v_csig i = ed_sign P cold (opcert_signable hot seq kper) ->
  seq < 2 ^ 64 -> kper < 2 ^ 64 -> v_seq i < 2 ^ 64 -> v_kper i < 2 ^ 64 ->
  v_hot i = hot /\ v_seq i = seq /\ v_kper i = kper.
Proof.
  intros H E Ec B1 B2 B3 B4. pose proof (tamper_opcert_sig _ _ H E) as S. rewrite Ec in S.
  apply ed_bind in S. apply signable_inj in S; auto. destruct S as (-> & -> & ->). auto.
Qed.

(* the same for ledger.VerifyOpCertSignature *)
Theorem tamper_ledger_opcert hot seq kper csig cold hot0 seq0 kper0 :
  verify_opcert_sig P hot seq kper csig (ed_pk P cold) = OcOk ->
  csig = ed_sign P cold (opcert_signable hot0 seq0 kper0) ->
  seq < 2 ^ 64 -> kper < 2 ^ 64 -> seq0 < 2 ^ 64 -> kper0 < 2 ^ 64 ->
  hot = hot0 /\ seq = seq0 /\ kper = kper0.
Proof.
  unfold verify_opcert_sig. intros H Ec B1 B2 B3 B4. repeat step H.
  match goal with E : ed_verify _ _ _ _ = true |- _ => apply ed_ideal in E; rewrite Ec in E; apply ed_bind in E; apply signable_inj in E; auto end.
  destruct E2 as (-> & -> & ->). auto.
Qed.

(* --- the KES signature: which bytes, which period *)
Theorem tamper_kes cfg i seed :
  chk_kes_sig P cfg i = true -> v_hot i = kes_vk P seed -> v_slot i < 2 ^ 64 ->
  c_spk cfg <> 0 /\ v_kper i <= v_slot i / c_spk cfg /\
  kes_sig P seed (v_slot i / c_spk cfg - v_kper i) (v_body i) = Some (v_sig i).
Proof.
  unfold chk_kes_sig. intros H E Hs. repeat step H. norm_hyps.
  rewrite E in H. apply kes_ideal in H.
  rewrite wsub_exact in H; [|assumption|apply cur_small; assumption]. auto.
Qed.

(* with the genuine signature attached, the signed bytes and the evolution are the genuine ones *)
Theorem tamper_signed_bytes cfg i seed t msg :
  chk_kes_sig P cfg i = true -> v_hot i = kes_vk P seed -> v_slot i < 2 ^ 64 ->
  kes_sig P seed t msg = Some (v_sig i) ->
  v_body i = msg /\ v_slot i / c_spk cfg - v_kper i = t.
Proof.
  intros H E Hs G. destruct (tamper_kes _ _ _ H E Hs) as (_ & _ & S).
  destruct (kes_bind _ _ _ _ _ _ S G) as [-> ->]. auto.
Qed.

(* with the genuine bytes and period, the signature is the genuine one *)
Theorem tamper_kes_sig cfg i seed sg0 :
  chk_kes_sig P cfg i = true -> v_hot i = kes_vk P seed -> v_slot i < 2 ^ 64 ->
  kes_sig P seed (v_slot i / c_spk cfg - v_kper i) (v_body i) = Some sg0 -> v_sig i = sg0.
Proof.
  intros H E Hs G. destruct (tamper_kes _ _ _ H E Hs) as (_ & _ & S). congruence.
Qed.

(* --- the VRF certificate *)
Theorem tamper_vrf cfg i sk o :
  chk_vrf P cfg i = Some o -> v_vrfkey i = vrf_pk P sk ->
  exists a, vrf_input P (c_mode cfg) (v_slot i) (v_nonce i) (seed_l P) = Some a /\
            vrf_prove P sk a = Some (v_proof i, v_out i) /\ length (v_nonce i) = 32%nat.
Proof.
  unfold chk_vrf, verify_cert_vrf. intros H E. repeat step H. norm_hyps.
  match goal with A : vrf_vh _ _ _ _ = Some ?x, B : bytes_eqb ?x _ = true |- _ =>
    apply bytes_eqb_eq in B; subst x; rewrite E in A; apply vrf_ideal in A end.
  eexists. repeat split; eassumption.
Qed.

Lemma vrf_input_inj m slot nonce slot' nonce' a :
  slot < 2 ^ 64 -> slot' < 2 ^ 64 -> length nonce = 32%nat -> length nonce' = 32%nat ->
  vrf_input P m slot nonce (seed_l P) = Some a -> vrf_input P m slot' nonce' (seed_l P) = Some a ->
  slot = slot' /\ nonce = nonce'.
Proof.
  intros B B' L L' E E'.
  assert (X : mk_input P slot nonce = mk_input P slot' nonce').
  { destruct m; unfold vrf_input in E, E'; try discriminate.
    - rewrite <- E' in E. injection E. auto.
    - unfold mk_seed_tpraos in *. apply (xor_inj _ _ (seed_l P)); unfold mk_input, seed_l; rewrite ?H_len; try reflexivity.
      rewrite <- E' in E. injection E. auto. }
  unfold mk_input in X. apply H_inj in X.
  apply app_len_inj in X; [|rewrite !be64_len; reflexivity]. destruct X as [X ->].
  apply be64_inj in X; auto.
Qed.

(* a certificate made for (slot, nonce) is rejected for any other slot or epoch nonce;
   for the same slot and nonce only the genuine proof and output pass *)
Theorem tamper_vrf_input cfg i sk o a0 :
  chk_vrf P cfg i = Some o -> v_vrfkey i = vrf_pk P sk -> v_slot i < 2 ^ 64 ->
  vrf_prove P sk a0 = Some (v_proof i, v_out i) ->
  forall slot0 nonce0, slot0 < 2 ^ 64 -> length nonce0 = 32%nat ->
  vrf_input P (c_mode cfg) slot0 nonce0 (seed_l P) = Some a0 -> v_slot i = slot0 /\ v_nonce i = nonce0.
Proof.
  intros H E Hs G slot0 nonce0 B0 L0 E0.
  destruct (tamper_vrf _ _ _ _ H E) as (a & Ea & Pa & Ln).
  pose proof (vrf_bind _ _ _ _ Pa G) as ->.
  eapply vrf_input_inj; eauto.
Qed.
Theorem tamper_vrf_cert cfg i sk o a0 proof0 out0 :
  chk_vrf P cfg i = Some o -> v_vrfkey i = vrf_pk P sk ->
  vrf_input P (c_mode cfg) (v_slot i) (v_nonce i) (seed_l P) = Some a0 ->
  vrf_prove P sk a0 = Some (proof0, out0) -> v_proof i = proof0 /\ v_out i = out0.
Proof.
  intros H E E0 G. destruct (tamper_vrf _ _ _ _ H E) as (a & Ea & Pa & _).
  assert (a = a0) by congruence. subst. rewrite Pa in G. inversion G. auto.
Qed.

(* --- the registered VRF key pins the key *)
Theorem tamper_vrf_key i vk : chk_vrf_reg P i = true -> v_reg i = H256 P vk -> v_vrfkey i = vk.
Proof.
  unfold chk_vrf_reg. intros H E. rewrite E in H.
  destruct (empty (H256 P vk)) eqn:Em.
  - pose proof (H_len vk) as L. destruct (H256 P vk); [discriminate L|discriminate Em].
  - repeat step H. apply bytes_eqb_eq in H. apply H_inj in H. exact H.
Qed.

(* --- the body against the body hash *)
Lemma flat_hash_inj : forall l l', flat_map (H256 P) l = flat_map (H256 P) l' -> l = l'.
Proof.
  induction l as [|x l IH]; intros [|y l'] E; cbn in E; auto.
  - apply (f_equal (@length N)) in E. rewrite app_length, H_len in E. discriminate.
  - apply (f_equal (@length N)) in E. rewrite app_length, H_len in E. discriminate.
  - apply app_len_inj in E; [|rewrite !H_len; reflexivity]. destruct E as [E1 E2].
    apply H_inj in E1. apply IH in E2. congruence.
Qed.
Theorem tamper_body tp slot vrfkey proof out eta0 body sg hot kper spk bhash segs segs0 :
  verify_block P tp slot vrfkey proof out eta0 body sg hot kper spk bhash segs = VbOk ->
  bhash = body_hash P segs0 -> segs = segs0.
Proof.
  unfold verify_block. intros H E. repeat step H.
  match goal with B : bytes_eqb (body_hash P segs) bhash = true |- _ => apply bytes_eqb_eq in B; rewrite E in B;
    unfold body_hash in B; apply H_inj in B; apply flat_hash_inj in B; exact B end.
Qed.
(* and VerifyBlock binds the signed bytes like ValidateHeader does *)
Theorem tamper_verify_block_kes tp slot vrfkey proof out eta0 body sg hot kper spk bhash segs seed t msg :
  verify_block P tp slot vrfkey proof out eta0 body sg hot kper spk bhash segs = VbOk ->
  hot = kes_vk P seed -> kes_sig P seed t msg = Some sg -> body = msg /\ slot / spk - kper = t.
Proof.
  unfold verify_block. intros H E G. repeat step H.
  match goal with K : verify_kes_components _ _ _ _ _ _ _ = Some true |- _ =>
    unfold verify_kes_components in K; cbv zeta in K; repeat step K; injection K as A' end.
  norm_hyps. rewrite E in A'. apply kes_ideal in A'.
  rewrite wsub_exact in A'; [|assumption|].
  - destruct (kes_bind _ _ _ _ _ _ A' G) as [-> ->]. auto.
  - apply cur_small; [|assumption]. apply slot64. assumption.
Qed.

(* --- everything together: with the pool's cold signature and the genuine KES
   signature attached, the only header that validates is the genuine one *)
Theorem tamper_header st i h x cfg cold msg b' body' :
  build_header P st i = BOk h ->
  serialize_body (b_mode st) (h_body h) = Some msg ->
  b_issuer st = ed_pk P cold ->
  b_csig st = ed_sign P cold (opcert_signable (b_hot st) (b_seq st) (b_kper st)) ->
  b_seq st < 2 ^ 64 -> b_kper st < 2 ^ 64 ->
  (* what is presented: fields b', body bytes body', the genuine issuer, cold signature and KES signature *)
  valid P cfg (vinput_of b' body' (h_sig h) x) = true ->
  hb_issuer b' = hb_issuer (h_body h) -> hb_csig b' = hb_csig (h_body h) ->
  hb_slot b' < 2 ^ 64 -> hb_seq b' < 2 ^ 64 -> hb_kper b' < 2 ^ 64 ->
  body' = msg /\ hb_hot b' = hb_hot (h_body h) /\ hb_seq b' = hb_seq (h_body h) /\ hb_kper b' = hb_kper (h_body h) /\
  hb_slot b' / c_spk cfg - hb_kper b' = b_kes_period st /\
  (* and if the presented fields are what the presented bytes canonically encode, every signed field *)
  (hb_wf b' -> hb_wf (h_body h) -> serialize_body (b_mode st) b' = Some body' -> same_signed (b_mode st) b' (h_body h)).
Proof.
  intros HB HS Ei Ec B1 B2 V Eiss Ecs B3 B4 B5.
  destruct (build_inv P _ _ _ HB) as (proof & out & np & no & msg' & _ & _ & _ & _ & _ & _ & _ & Ek & _ & _ & Eb & HS' & Hsig).
  assert (msg' = msg) by congruence. subst msg'.
  apply valid_iff in V. destruct V as (_ & _ & _ & _ & _ & _ & Vk & Vo & _).
  assert (Eb2 := Eb). rewrite Eb in Eiss, Ecs. unfold built_body in Eiss, Ecs. cbn in Eiss, Ecs.
  destruct (tamper_opcert _ cold (b_hot st) (b_seq st) (b_kper st) Vo) as (Eh & Es & Ep); cbn; try assumption; try congruence.
  cbn in Eh, Es, Ep.
  destruct (tamper_signed_bytes cfg _ (b_kes_seed st) (b_kes_period st) msg Vk) as [Em Et]; cbn; try assumption; try congruence.
  cbn in Em, Et.
  assert (F1 : hb_hot (h_body h) = b_hot st) by (rewrite Eb; reflexivity).
  assert (F2 : hb_seq (h_body h) = b_seq st) by (rewrite Eb; reflexivity).
  assert (F3 : hb_kper (h_body h) = b_kper st) by (rewrite Eb; reflexivity).
  split; [exact Em|]. split; [congruence|]. split; [congruence|]. split; [congruence|]. split; [exact Et|].
  intros W W' S. subst body'. eapply serialize_inj; eauto.
Qed.

End ideal.
