(* C40 - instances of the primitive record.
   [IP]: a term-algebra instance in which ALL Section hypotheses of Accept.v
   (completeness) and Tamper.v (idealised soundness) hold together, so the
   theorems are not vacuous.  A cell of [bytes] is an unbounded N here, which
   is what makes an injective "hash" possible: this is the symbolic
   idealisation, no real fixed-width function has these properties.
   [TP]: a trivial computable instance (all-zero strings, every verification
   succeeds) satisfying the completeness laws, used to run build -> validate
   by vm_compute for both layouts. *)
From Coq Require Import String.
From V Require Import Lib.Base Lib.Cbor C40.Model C40.Proofs C40.Accept C40.Tamper.
Local Open Scope N_scope.

(* list N -> N, injective: [] -> 0, x :: r -> 2^x * (2 * code r + 1) *)
Fixpoint code (l : list N) : N :=
  match l with [] => 0 | x :: r => 2 ^ x * (2 * code r + 1) end.

Lemma pow2odd_inj x : forall y a b, 2 ^ x * (2 * a + 1) = 2 ^ y * (2 * b + 1) -> x = y /\ a = b.
Proof.
  induction x as [|x IH] using N.peano_ind; intros y a b E;
    destruct y as [|y] using N.peano_ind.
  - rewrite !N.pow_0_r in E. lia.
  - rewrite N.pow_0_r, N.pow_succ_r', <- N.mul_assoc in E.
    remember (2 ^ y * (2 * b + 1)) as T. lia.
  - rewrite N.pow_0_r, N.pow_succ_r', <- N.mul_assoc in E.
    remember (2 ^ x * (2 * a + 1)) as T. lia.
  - rewrite !N.pow_succ_r', <- !N.mul_assoc in E.
    assert (E' : 2 ^ x * (2 * a + 1) = 2 ^ y * (2 * b + 1)).
    { remember (2 ^ x * (2 * a + 1)) as T. remember (2 ^ y * (2 * b + 1)) as U. lia. }
    apply IH in E'. destruct E' as [-> ->]. auto.
Qed.
Lemma code_cons_nonzero x r : 2 ^ x * (2 * code r + 1) <> 0.
Proof.
  intros E. apply N.eq_mul_0 in E. destruct E as [E|E]; [|lia].
  revert E. apply N.pow_nonzero. discriminate.
Qed.
Lemma code_inj : forall l l', code l = code l' -> l = l'.
Proof.
  induction l as [|x r IH]; intros [|y r'] E; cbn [code] in E.
  - reflexivity.
  - symmetry in E. apply code_cons_nonzero in E. destruct E.
  - apply code_cons_nonzero in E. destruct E.
  - apply pow2odd_inj in E. destruct E as [-> E]. apply IH in E. congruence.
Qed.
Global Opaque code.

Definition pad (n : nat) (v : N) : bytes := v :: repeat 0 (n - 1).
Lemma pad_len n v : (1 <= n)%nat -> length (pad n v) = n.
Proof. intros. unfold pad. cbn [length]. rewrite repeat_length. lia. Qed.
Lemma pad_inj n v w : pad n v = pad n w -> v = w.
Proof. unfold pad. congruence. Qed.
Lemma hd_pad n v : hd 0 (pad n v) = v.
Proof. reflexivity. Qed.

Definition zeros (n : nat) : bytes := repeat 0 n.
(* the Praos leader value of the all-zero VRF output in this instance *)
Definition K : N := fold_left (fun acc x => acc * 256 + x) (pad 32 (code (76 :: zeros 64))) 0.

Definition IP : prims :=
  {| H256 := fun x => pad 32 (code x);
     vrf_pk := fun s => pad 32 (code s);
     (* the proof names key and input; the output is constant (it need not bind anything) *)
     vrf_prove := fun s a => Some (pad 80 (code [code s; code a]), zeros 64);
     vrf_vh := fun pk pi a => if bytes_eqb pi (pad 80 (code [hd 0 pk; code a])) then Some (zeros 64) else None;
     kes_vk := fun s => pad 32 (code s);
     kes_sig := fun s t m => Some (pad 448 (code [code s; t; code m]));
     kes_verify := fun vk t m sg => bytes_eqb sg (pad 448 (code [hd 0 vk; t; code m]));
     ed_pk := fun s => pad 32 (code s);
     ed_sign := fun s m => pad 64 (code [code s; code m]);
     ed_verify := fun pk m sg => bytes_eqb sg (pad 64 (code [hd 0 pk; code m]));
     thr := fun _ _ _ => TOk (K + 1) |}.

Ltac ip := cbn [IP H256 vrf_pk vrf_prove vrf_vh kes_vk kes_sig kes_verify ed_pk ed_sign ed_verify thr] in *; rewrite ?hd_pad in *.
(* completeness laws (Accept.v) *)
Lemma IP_vrf_complete : forall sk a pi out,
  vrf_prove IP sk a = Some (pi, out) -> vrf_vh IP (vrf_pk IP sk) pi a = Some out.
Proof. intros sk a pi out E. ip. inversion E; subst. rewrite bytes_eqb_refl. reflexivity. Qed.
Lemma IP_kes_complete : forall seed t m sg, t < 64 ->
  kes_sig IP seed t m = Some sg -> kes_verify IP (kes_vk IP seed) t m sg = true /\ length sg = 448%nat.
Proof. intros seed t m sg _ E. ip. inversion E; subst. split; [apply bytes_eqb_refl|apply pad_len; lia]. Qed.
Lemma IP_ed_complete : forall sk m, ed_verify IP (ed_pk IP sk) m (ed_sign IP sk m) = true.
Proof. intros. ip. apply bytes_eqb_refl. Qed.

(* idealised laws (Tamper.v) *)
Lemma IP_H_inj : forall x y, H256 IP x = H256 IP y -> x = y.
Proof. intros x y E. ip. apply pad_inj in E. apply code_inj. exact E. Qed.
Lemma IP_H_len : forall x, length (H256 IP x) = 32%nat.
Proof. intros. ip. apply pad_len. lia. Qed.
Lemma IP_kes_ideal : forall s t m sg, kes_verify IP (kes_vk IP s) t m sg = true -> kes_sig IP s t m = Some sg.
Proof. intros s t m sg E. ip. apply bytes_eqb_eq in E. subst. reflexivity. Qed.
Lemma IP_kes_bind : forall s t m t' m' sg, kes_sig IP s t m = Some sg -> kes_sig IP s t' m' = Some sg -> t = t' /\ m = m'.
Proof.
  intros s t m t' m' sg E E'. ip. rewrite <- E' in E. inversion E as [E1].
  apply code_inj in E1. inversion E1 as [[E2 E3]]. apply code_inj in E3. auto.
Qed.
Lemma IP_ed_ideal : forall s m sg, ed_verify IP (ed_pk IP s) m sg = true -> sg = ed_sign IP s m.
Proof. intros s m sg E. ip. apply bytes_eqb_eq in E. exact E. Qed.
Lemma IP_ed_bind : forall s m m', ed_sign IP s m = ed_sign IP s m' -> m = m'.
Proof. intros s m m' E. ip. apply pad_inj in E. apply code_inj in E. inversion E as [E1]. apply code_inj. exact E1. Qed.
Lemma IP_vrf_ideal : forall s pi a out, vrf_vh IP (vrf_pk IP s) pi a = Some out -> vrf_prove IP s a = Some (pi, out).
Proof.
  intros s pi a out. ip.
  destruct (bytes_eqb pi (pad 80 (code [code s; code a]))) eqn:B; intros E; [|discriminate].
  apply bytes_eqb_eq in B. inversion E; subst. reflexivity.
Qed.
Lemma IP_vrf_bind : forall s a a' r, vrf_prove IP s a = Some r -> vrf_prove IP s a' = Some r -> a = a'.
Proof.
  intros s a a' r E E'. ip. rewrite <- E' in E. inversion E as [E1].
  apply code_inj in E1. inversion E1 as [E2]. apply code_inj. exact E2.
Qed.

(* ------------------------------------------------------------------ *)
(* a computable instance of the completeness laws *)
Ltac tp := cbn [H256 vrf_pk vrf_prove vrf_vh kes_vk kes_sig kes_verify ed_pk ed_sign ed_verify thr].
Definition TP : prims :=
  {| H256 := fun _ => zeros 32;
     vrf_pk := fun _ => zeros 32;
     vrf_prove := fun _ _ => Some (zeros 80, zeros 64);
     vrf_vh := fun _ _ _ => Some (zeros 64);
     kes_vk := fun _ => zeros 32;
     kes_sig := fun _ _ _ => Some (zeros 448);
     kes_verify := fun _ _ _ _ => true;
     ed_pk := fun _ => zeros 32;
     ed_sign := fun _ _ => zeros 64;
     ed_verify := fun _ _ _ => true;
     thr := fun _ _ _ => TOk 1 |}.
Lemma TP_vrf_complete : forall sk a pi out,
  vrf_prove TP sk a = Some (pi, out) -> vrf_vh TP (vrf_pk TP sk) pi a = Some out.
Proof. cbn. intros. congruence. Qed.
Lemma TP_kes_complete : forall seed t m sg, t < 64 ->
  kes_sig TP seed t m = Some sg -> kes_verify TP (kes_vk TP seed) t m sg = true /\ length sg = 448%nat.
Proof. cbn. intros seed t m sg _ E. inversion E. split; reflexivity. Qed.
Lemma TP_ed_complete : forall sk m, ed_verify TP (ed_pk TP sk) m (ed_sign TP sk m) = true.
Proof. reflexivity. Qed.

Definition ex_state (m : mode) : bstate :=
  {| b_vrf_sk := [1]; b_kes_seed := [2]; b_kes_period := 61; b_hot := zeros 32; b_seq := 0; b_kper := 5;
     b_csig := zeros 64; b_issuer := zeros 32; b_mode := m |}.
Definition ex_input : binput :=
  {| i_slot := 129600 * 66 + 7; i_blockno := 10; i_prev := zeros 32; i_nonce := zeros 32; i_pool := 1; i_total := 2;
     i_bhash := zeros 32; i_bsize := 3; i_pmaj := 9; i_pmin := 0 |}.
Definition ex_cfg (m : mode) : vcfg := {| c_spk := 129600; c_maxev := 62; c_mode := m |}.
Definition ex_ctx : vctx :=
  {| x_prev_slot := 129600 * 66; x_prev_blockno := 9; x_prev_hh := zeros 32; x_nonce := zeros 32; x_pool := 1; x_total := 2; x_reg := [] |}.

(* ------------------------------------------------------------------ *)
(* the idealised world is inhabited: every pool leads, a genuine header exists *)
Lemma zeros_len n : length (zeros n) = n.
Proof. apply repeat_length. Qed.

Lemma IP_leads m sk slot nonce pool total :
  m <> BadMode -> length nonce = 32%nat -> pool <> 0 -> total <> 0 -> slot <= max_int64 ->
  exists proof, is_slot_leader IP m sk slot nonce pool total = LOk proof (zeros 64) /\ length proof = 80%nat.
Proof.
  intros Hm Ln Hp Ht Hs. unfold is_slot_leader, leneq. rewrite Ln. cbn [Nat.eqb negb].
  destruct (total =? 0) eqn:E1; [apply N.eqb_eq in E1; contradiction|].
  destruct (pool =? 0) eqn:E2; [apply N.eqb_eq in E2; contradiction|].
  destruct (max_int64 <? slot) eqn:E3; [apply N.ltb_lt in E3; lia|].
  destruct m; [| |contradiction]; cbn [vrf_input];
    cbn [IP vrf_prove thr]; rewrite (pad_len 80) by lia; rewrite zeros_len; cbn [Nat.eqb negb];
    unfold below, leader_value.
  - change (zeros 64) with (0 :: zeros 63) at 1.
    assert (L : (nat_of_bytes (H256 IP (76 :: zeros 64)) <? K + 1) = true).
    { apply N.ltb_lt. unfold nat_of_bytes, K. cbn [IP H256]. lia. }
    change (0 :: zeros 63) with (zeros 64). rewrite L. eexists. split; [reflexivity|apply pad_len; lia].
  - assert (L : (nat_of_bytes (zeros 64) <? K + 1) = true).
    { apply N.ltb_lt. replace (nat_of_bytes (zeros 64)) with 0 by (vm_compute; reflexivity). lia. }
    change (zeros 64) with (0 :: zeros 63) at 1. change (0 :: zeros 63) with (zeros 64). rewrite L.
    eexists. split; [reflexivity|apply pad_len; lia].
Qed.

(* in the idealised instance a genuine header exists for every well-sized input,
   so the premise [build_header P st i = BOk h] of C40_tamper is satisfiable there *)
Lemma IP_builds st i :
  b_mode st <> BadMode ->
  length (i_prev i) = 32%nat -> length (i_nonce i) = 32%nat -> length (i_bhash i) = 32%nat ->
  length (b_issuer st) = 32%nat -> length (b_csig st) = 64%nat -> b_hot st = kes_vk IP (b_kes_seed st) ->
  i_pool i <> 0 -> i_total i <> 0 -> i_slot i <= max_int64 ->
  exists h, build_header IP st i = BOk h.
Proof.
  intros Hm Lp Ln Lb Li Lc Eh Hp Ht Hs.
  destruct (IP_leads (b_mode st) (b_vrf_sk st) (i_slot i) (i_nonce i) (i_pool i) (i_total i) Hm Ln Hp Ht Hs) as (proof & HL & _).
  apply (build_succeeds IP st i proof (zeros 64)); try assumption.
  - cbn [IP vrf_pk]. apply pad_len. lia.
  - rewrite Eh. cbn [IP kes_vk]. apply pad_len. lia.
  - symmetry. exact Eh.
  - intros _. cbn [IP vrf_prove]. do 2 eexists. split; [reflexivity|]. split; [apply pad_len; lia|apply zeros_len].
  - intros m. cbn [IP kes_sig]. eexists. reflexivity.
Qed.
