(* C34 - lemmas. *)
From Coq Require Import String.
From V Require Import Lib.CborProofs Lib.HTerm C35.Model C34.Model.
Local Open Scope N_scope.

Section proofs.
  Variable H : bytes -> bytes.

  Lemma hev_seg_term l : hev H (seg_term l) = H (flat_map (fun x => H (enc x)) l).
  Proof.
    unfold hev, seg_term. cbn [heval]. f_equal.
    induction l as [|x r IH]; [reflexivity|].
    cbn [map flat_map heval]. rewrite IH, app_nil_r. reflexivity.
  Qed.

  Lemma hev_whole x : hev H (HH 0 [HB (enc x)]) = H (enc x).
  Proof. unfold hev. cbn [heval flat_map]. rewrite app_nil_r. reflexivity. Qed.

  Lemma segments_all k h body : length (h :: body) = k -> segments k (h :: body) = body.
  Proof.
    intros L. unfold segments. cbn [skipn length] in *. subst k.
    replace (S (length body) - 1)%nat with (length body) by lia. apply firstn_all.
  Qed.

  (* ---- Shelley .. Conway: commitment and coverage ---- *)
  Lemma segments_commit exact ok r bs :
    r_mode r = MSegments -> row_bad r = None -> all_bytes bs ->
    decode_ok H exact false ok r bs ->
    exists f h body rest hd tl c,
      parse_full bs = Ok (Arr f (h :: body)) rest /\
      length (h :: body) = r_struct r /\
      bs = hd ++ enc h ++ flat_map enc body ++ tl ++ rest /\
      length hd = hdr_size f /\ length tl = trailer f /\
      header_commitment (r_idx r) h = Some c /\
      c = H (flat_map (fun x => H (enc x)) body).
  Proof.
    intros Hm Hrow Hb [_ [Hs|(cs & Hc & Hall)]]; [discriminate|].
    unfold block_checks in Hc. destruct (parse_full bs) as [top rest| |] eqn:P; try discriminate.
    unfold checks in Hc. rewrite Hm in Hc. unfold checks_segments in Hc.
    destruct top as [| | | | | |f xs| | | |]; try discriminate.
    unfold row_bad in Hrow. rewrite Hm in Hrow.
    destruct (Nat.eqb (r_hashed r) (r_struct r)) eqn:Ek; cbn [negb] in Hrow; [|discriminate].
    apply Nat.eqb_eq in Ek.
    destruct (Nat.eqb (length xs) (r_struct r)) eqn:El; cbn [negb] in Hc; [|discriminate].
    apply Nat.eqb_eq in El.
    destruct (Nat.ltb (length xs) (r_hashed r)) eqn:Elt; [discriminate|].
    destruct xs as [|h body]; [discriminate|].
    destruct (header_commitment (r_idx r) h) as [c|] eqn:Ec; [|discriminate].
    injection Hc as <-. inversion Hall as [|? ? Hch _]; subst. unfold check_holds in Hch. cbn [fst snd] in Hch.
    rewrite Ek, segments_all in Hch by exact El. rewrite hev_seg_term in Hch.
    destruct (parse_full_sound _ _ _ Hb P) as [E _].
    destruct (enc_arr_shape f (h :: body)) as (hd & tl & Es & Lh & Lt).
    exists f, h, body, rest, hd, tl, c. repeat split; try assumption.
    rewrite E, Es. cbn [flat_map]. rewrite <- !app_assoc. reflexivity.
  Qed.

  (* ---- Dijkstra ---- *)
  Lemma whole_commit exact ok r bs :
    r_mode r = MWholeBody -> all_bytes bs ->
    decode_ok H exact false ok r bs ->
    exists top f h body rest hd tl c,
      parse_full bs = Ok top rest /\ strip_tags top = Arr f [h; body] /\
      enc (Arr f [h; body]) = hd ++ enc h ++ enc body ++ tl /\
      length hd = hdr_size f /\ length tl = trailer f /\
      header_commitment (r_idx r) h = Some c /\ c = H (enc body).
  Proof.
    intros Hm Hb [_ [Hs|(cs & Hc & Hall)]]; [discriminate|].
    unfold block_checks in Hc. destruct (parse_full bs) as [top rest| |] eqn:P; try discriminate.
    unfold checks in Hc. rewrite Hm in Hc. unfold checks_whole in Hc.
    destruct (strip_tags top) as [| | | | | |f xs| | | |] eqn:Et; try discriminate.
    destruct xs as [|h [|body [|? ?]]]; try discriminate.
    destruct (header_commitment (r_idx r) h) as [c|] eqn:Ec; [|discriminate].
    injection Hc as <-. inversion Hall as [|? ? Hch _]; subst. unfold check_holds in Hch. cbn [fst snd] in Hch.
    rewrite hev_whole in Hch.
    destruct (enc_arr_shape f [h; body]) as (hd & tl & Es & Lh & Lt).
    exists top, f, h, body, rest, hd, tl, c. repeat split; try assumption.
    rewrite Es. cbn [flat_map]. rewrite app_nil_r, <- !app_assoc. reflexivity.
  Qed.

  (* ---- lists of fixed-size digests split uniquely ---- *)
  Lemma app_same_length {A} (a b x y : list A) : length a = length b -> a ++ x = b ++ y -> a = b /\ x = y.
  Proof.
    revert b. induction a as [|u a IH]; intros [|v b] L E; cbn in L; try discriminate.
    - auto.
    - cbn [app] in E. injection E as -> E. injection L as L. destruct (IH b L E) as [-> ->]. auto.
  Qed.

  Lemma concat_fixed (n : nat) (g1 g2 : list bytes) :
    Forall (fun x => length x = n) g1 -> Forall (fun x => length x = n) g2 ->
    length g1 = length g2 -> concat g1 = concat g2 -> g1 = g2.
  Proof.
    intros F1. revert g2. induction F1 as [|x r Hx _ IH]; intros [|y s] F2 L E; cbn in L; try discriminate; [reflexivity|].
    pose proof (Forall_inv F2) as Hy. pose proof (Forall_inv_tail F2) as F2'. cbn beta in Hy. cbn [concat] in E.
    destruct (app_same_length x y (concat r) (concat s) (eq_trans Hx (eq_sym Hy)) E) as [-> E'].
    f_equal. apply IH; [assumption|lia|assumption].
  Qed.

  (* ---- binding: same header, both accepted => same body bytes ---- *)
  Section bind.
    (* D = the byte strings on which H is assumed collision-free and of fixed
       digest size n (an idealisation of Blake2b-256, stated as a premise) *)
    Variable D : bytes -> Prop.
    Variable n : nat.
    Hypothesis H_inj : forall x y, D x -> D y -> H x = H y -> x = y.
    Hypothesis H_len : forall x, D x -> length (H x) = n.

    Lemma seg_digests_inj (b1 b2 : list item) :
      length b1 = length b2 ->
      Forall (fun x => D (enc x)) b1 -> Forall (fun x => D (enc x)) b2 ->
      D (flat_map (fun x => H (enc x)) b1) -> D (flat_map (fun x => H (enc x)) b2) ->
      H (flat_map (fun x => H (enc x)) b1) = H (flat_map (fun x => H (enc x)) b2) ->
      map enc b1 = map enc b2.
    Proof.
      intros L F1 F2 D1 D2 E. apply H_inj in E; [|assumption|assumption].
      rewrite !flat_map_concat_map in E.
      apply (concat_fixed n) in E.
      - clear D1 D2. revert b2 L F2 E. induction F1 as [|x r Hx _ IH]; intros [|y s] L F2 E; cbn in L; try discriminate; [reflexivity|].
        pose proof (Forall_inv F2) as Hy. pose proof (Forall_inv_tail F2) as F2'. cbn beta in Hy. cbn [map] in E. injection E as E1 E2.
        cbn [map]. f_equal; [apply H_inj; assumption|apply IH; [lia|assumption|assumption]].
      - apply Forall_map. eapply Forall_impl; [|exact F1]. intros a Ha. apply H_len, Ha.
      - apply Forall_map. eapply Forall_impl; [|exact F2]. intros a Ha. apply H_len, Ha.
      - rewrite !map_length. exact L.
    Qed.
  End bind.
End proofs.

(* ---- Byron main: what an accepted block satisfies ---- *)
Lemma all_some_length {A} (l : list (option A)) r : all_some l = Some r -> length r = length l.
Proof.
  revert r. induction l as [|[x|] l IH]; intros r E; cbn [all_some] in E; try discriminate.
  - injection E as <-. reflexivity.
  - destruct (all_some l) as [r'|]; [|discriminate]. cbn in E. injection E as <-. cbn. f_equal. apply IH. reflexivity.
Qed.

Section byron.
  Variable H : bytes -> bytes.

  Lemma byron_main_commit exact ok r bs :
    r_mode r = MByronMain ->
    decode_ok H exact false ok r bs ->
    exists top rest fa h body extra fh m0 m1 proof m3 m4 fb txs ssc dlg upd fp txp sscp dlgp updp more
           ft txl fx cnt root wit more2 parts nn c_root c_wit c_dlg c_upd mt,
      parse_full bs = Ok top rest /\
      strip_tags top = Arr fa [h; body; extra] /\
      strip_tags h = Arr fh [m0; m1; proof; m3; m4] /\
      strip_tags body = Arr fb [txs; ssc; dlg; upd] /\
      proof = Arr fp (txp :: sscp :: dlgp :: updp :: more) /\
      strip_tags txs = Arr ft txl /\
      txp = Arr fx (cnt :: root :: wit :: more2) /\
      all_some (map (tx_parts exact) txl) = Some parts /\
      cnt = UInt nn (N.of_nat (length txl)) /\
      hash32 root = Some c_root /\ hash32 wit = Some c_wit /\ hash32 dlgp = Some c_dlg /\ hash32 updp = Some c_upd /\
      merkle_root (map (fun p => enc (fst p)) parts) = Some mt /\
      c_root = hev H mt /\
      c_wit = H (witness_list (map snd parts)) /\
      c_dlg = H (enc dlg) /\
      c_upd = H (enc upd).
  Proof.
    intros Hm [_ [Hs|(cs & Hc & Hall)]]; [discriminate|].
    unfold block_checks in Hc. destruct (parse_full bs) as [top rest| |] eqn:P; try discriminate.
    unfold checks in Hc. rewrite Hm in Hc. unfold checks_byron_main in Hc.
    destruct (strip_tags top) as [| | | | | |fa xs| | | |] eqn:Et; try discriminate.
    destruct xs as [|h [|body [|extra [|? ?]]]]; try discriminate.
    destruct (strip_tags h) as [| | | | | |fh hs| | | |] eqn:Eh; try discriminate.
    destruct hs as [|m0 [|m1 [|proof [|m3 [|m4 [|? ?]]]]]]; try discriminate.
    destruct (strip_tags body) as [| | | | | |fb bsx| | | |] eqn:Eb; try discriminate.
    destruct bsx as [|txs [|ssc [|dlg [|upd [|? ?]]]]]; try discriminate.
    destruct proof as [| | | | | |fp ps| | | |]; try discriminate.
    destruct ps as [|txp [|sscp [|dlgp [|updp more]]]]; try discriminate.
    destruct (strip_tags txs) as [| | | | | |ft txl| | | |] eqn:Etx; try discriminate.
    destruct txp as [| | | | | |fx ts| | | |]; try discriminate.
    destruct ts as [|cnt [|root [|wit more2]]]; try discriminate.
    destruct (as_count cnt) as [nv|] eqn:Ecnt; [|discriminate].
    destruct (all_some (map (tx_parts exact) txl)) as [parts|] eqn:Ep; [|discriminate].
    destruct (hash32 root) as [c_root|] eqn:E1; [|discriminate].
    destruct (hash32 wit) as [c_wit|] eqn:E2; [|discriminate].
    destruct (hash32 dlgp) as [c_dlg|] eqn:E3; [|discriminate].
    destruct (hash32 updp) as [c_upd|] eqn:E4; [|discriminate].
    destruct (nv =? N.of_nat (length txl)) eqn:En; cbn [negb] in Hc; [|discriminate].
    apply N.eqb_eq in En.
    destruct (merkle_root (map (fun p => enc (fst p)) parts)) as [mt|] eqn:Em; [|discriminate].
    injection Hc as <-.
    inversion Hall as [|? ? C1 Hall1]; subst. inversion Hall1 as [|? ? C2 Hall2]; subst.
    inversion Hall2 as [|? ? C3 Hall3]; subst. inversion Hall3 as [|? ? C4 _]; subst.
    unfold check_holds in C1, C2, C3, C4. cbn [fst snd] in C1, C2, C3, C4.
    destruct cnt as [nn nv'| | | | | | | | | |]; try discriminate. cbn in Ecnt. injection Ecnt as ->.
    unfold hev in C2, C3, C4. cbn [heval flat_map] in C2, C3, C4. rewrite app_nil_r in C2, C3, C4.
    exists top, rest, fa, h, body, extra, fh, m0, m1,
      (Arr fp (Arr fx (UInt nn (N.of_nat (length txl)) :: root :: wit :: more2) :: sscp :: dlgp :: updp :: more)),
      m3, m4, fb, txs, ssc, dlg, upd, fp,
      (Arr fx (UInt nn (N.of_nat (length txl)) :: root :: wit :: more2)), sscp, dlgp, updp, more,
      ft, txl, fx, (UInt nn (N.of_nat (length txl))), root, wit, more2, parts, nn, c_root, c_wit, c_dlg, c_upd, mt.
    repeat split; try assumption; try reflexivity.
  Qed.
End byron.
