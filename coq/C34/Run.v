(* C34 - entry point of the correspondence run: the model with the generated table. *)
From Coq Require Import String.
From V Require Import Lib.Base C34.Model C34.Gen.
Definition model_outs (cs : list case) : list string := map (out_of Gen.byron_tx_exact Gen.era_table) cs.
