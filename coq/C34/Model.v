(* C34 - block bodies are bound to their headers at decode time.
   Model of ledger/common/verify_config.go (ValidateBlockBodyHash), the body
   hash step of ledger/<era>/<era>.go New<Era>BlockFromCbor (Shelley..Conway),
   ledger/dijkstra/dijkstra.go (NewDijkstraBlockFromCbor, DijkstraBlockBody.Hash),
   ledger/byron/bodyproof.go (ByronMainBlock.ValidateBodyProof: validateTxProof,
   checkPayloadHash, checkHash, encodeWitnessList; ByronEpochBoundaryBlock.
   ValidateBodyProof) and of how ledger.NewBlockFromCbor uses VerifyConfig.

   Digests stay symbolic (Lib/HTerm, alg 0 = Blake2b-256): the model returns
   the list of (value the header carries, preimage term) pairs the decoder
   compares; the theorems evaluate the terms with an arbitrary H, the harness
   with the real Blake2b.  Everything else the era decoders check (field
   types, transaction contents, the Byron ssc_proof SHAPE check ...) is the
   boolean `struct_ok`: in the theorems a Section variable, in the
   correspondence the observed outcome of decoding with
   SkipBodyHashValidation.  The Byron merkle root is C35's model.
   Per-era numbers come from C34/Gen.v (generated).  NO proofs here. *)
From Coq Require Import String.
From V Require Import Lib.Base Lib.Hex Lib.HTerm Lib.Cbor Lib.CborParse C35.Model.
Local Open Scope N_scope.

(* fxamacker skips tags when the destination is not a tag type *)
Fixpoint strip_tags (i : item) : item := match i with Tag _ _ x => strip_tags x | _ => i end.

(* a CBOR byte string decoded into []byte (chunks are concatenated) *)
Definition bytes_of (c : item) : option bytes :=
  match c with
  | BStr _ bs => Some bs
  | BStrI cs => Some (flat_map snd cs)
  | _ => None
  end.

(* a byte string decoded into the Go array type Blake2b256 = [32]byte:
   fxamacker copies what fits and zero-fills the rest (no length error) *)
Definition to32 (bs : bytes) : bytes := firstn 32 (bs ++ repeat 0 32).

Definition children (i : item) : option (list item) :=
  match i with Arr _ xs => Some xs | _ => None end.

(* how an era binds the body: *)
Inductive mode := MByronEbb | MByronMain | MSegments | MWholeBody.

Record era_row := {
  r_type : N;        (* NtC block type *)
  r_mode : mode;
  r_struct : nat;    (* number of elements the block decoder demands *)
  r_hashed : nat;    (* minRawLength given to ValidateBlockBodyHash: segments 1..r_hashed-1 are hashed *)
  r_idx : nat        (* position of the body hash in the header body array *)
}.

Definition hh (t : hterm) : hterm := HH 0 [t].

(* ---- Shelley .. Conway ---- *)

(* header.BlockBodyHash(): header = [header_body, signature],
   header_body[r_idx] decoded into Blake2b256 *)
Definition header_commitment (idx : nat) (h : item) : option bytes :=
  match strip_tags h with
  | Arr _ (hb :: _) =>
      match strip_tags hb with
      | Arr _ fields =>
          match nth_error fields idx with
          | Some f => option_map to32 (bytes_of (strip_tags f))
          | None => None
          end
      | _ => None
      end
  | _ => None
  end.

(* ValidateBlockBodyHash: the preimage term over the raw segments 1..k-1 *)
Definition segments (k : nat) (xs : list item) : list item := firstn (k - 1) (skipn 1 xs).
Definition seg_term (segs : list item) : hterm :=
  HH 0 (map (fun x => HH 0 [HB (enc x)]) segs).

(* the comparisons New<Era>BlockFromCbor makes; None = rejected before any
   comparison (not an array, wrong element count, no header hash) *)
Definition checks_segments (r : era_row) (top : item) : option (list (bytes * hterm)) :=
  match top with
  | Arr _ xs =>
      if negb (Nat.eqb (length xs) (r_struct r)) then None
      else if Nat.ltb (length xs) (r_hashed r) then None
      else match xs with
           | h :: _ =>
               match header_commitment (r_idx r) h with
               | Some c => Some [(c, seg_term (segments (r_hashed r) xs))]
               | None => None
               end
           | [] => None
           end
  | _ => None
  end.

(* ---- Dijkstra: [header, block_body], hash of the body item's bytes ---- *)
Definition checks_whole (r : era_row) (top : item) : option (list (bytes * hterm)) :=
  match strip_tags top with
  | Arr _ [h; body] =>
      match header_commitment (r_idx r) h with
      | Some c => Some [(c, HH 0 [HB (enc body)])]
      | None => None
      end
  | _ => None
  end.

(* ---- Byron ---- *)

(* checkHashShapeBytes: the proof entry must decode (into `any`) as a []byte of 32 bytes *)
Definition hash32 (i : item) : option bytes :=
  match bytes_of i with
  | Some bs => if Nat.eqb (length bs) 32 then Some bs else None
  | None => None
  end.

(* one transaction of the payload: [body, witnesses, ...]; `exact` = the
   decoder demands exactly two elements *)
Definition tx_parts (exact : bool) (tx : item) : option (item * item) :=
  match strip_tags tx with
  | Arr _ (b :: w :: more) =>
      if exact then (match more with [] => Some (b, w) | _ => None end) else Some (b, w)
  | _ => None
  end.

Fixpoint all_some {A} (l : list (option A)) : option (list A) :=
  match l with
  | [] => Some []
  | Some x :: r => option_map (cons x) (all_some r)
  | None :: _ => None
  end.

(* encodeWitnessList *)
Definition witness_list (ws : list item) : bytes := [159] ++ flat_map enc ws ++ [255].

(* asUint on a value decoded into `any` *)
Definition as_count (i : item) : option N := match i with UInt _ n => Some n | _ => None end.

Definition checks_byron_main (exact : bool) (top : item) : option (list (bytes * hterm)) :=
  match strip_tags top with
  | Arr _ [h; body; _] =>
    match strip_tags h, strip_tags body with
    | Arr _ [_; _; proof; _; _], Arr _ [txs; _; dlg; upd] =>
      match proof, strip_tags txs with
      | Arr _ (txp :: _ :: dlgp :: updp :: _), Arr _ txl =>
        match txp with
        | Arr _ (cnt :: root :: wit :: _) =>
          match as_count cnt, all_some (map (tx_parts exact) txl), hash32 root, hash32 wit, hash32 dlgp, hash32 updp with
          | Some n, Some parts, Some c_root, Some c_wit, Some c_dlg, Some c_upd =>
              if negb (n =? N.of_nat (length txl)) then None else
              match merkle_root (map (fun p => enc (fst p)) parts) with
              | Some mt =>
                  Some [(c_root, mt);
                        (c_wit, HH 0 [HB (witness_list (map snd parts))]);
                        (c_dlg, HH 0 [HB (enc dlg)]);
                        (c_upd, HH 0 [HB (enc upd)])]
              | None => None
              end
          | _, _, _, _, _, _ => None
          end
        | _ => None
        end
      | _, _ => None
      end
    | _, _ => None
    end
  | _ => None
  end.

(* EBB: [header, body, extra]; header[2] is the hash of the body item *)
Definition checks_byron_ebb (top : item) : option (list (bytes * hterm)) :=
  match strip_tags top with
  | Arr _ [h; body; _] =>
    match strip_tags h with
    | Arr _ [_; _; proof; _; _] =>
        match hash32 proof with
        | Some c => Some [(c, HH 0 [HB (enc body)])]
        | None => None
        end
    | _ => None
    end
  | _ => None
  end.

Definition checks (exact : bool) (r : era_row) (top : item) : option (list (bytes * hterm)) :=
  match r_mode r with
  | MByronEbb => checks_byron_ebb top
  | MByronMain => checks_byron_main exact top
  | MSegments => checks_segments r top
  | MWholeBody => checks_whole r top
  end.

(* the decoder reads ONE item; bytes after it are ignored *)
Definition block_checks (exact : bool) (r : era_row) (bs : bytes) : option (list (bytes * hterm)) :=
  match parse_full bs with
  | Ok top _ => checks exact r top
  | _ => None
  end.

(* ---- acceptance, for an arbitrary hash function ---- *)
Section accept.
  Variable H : bytes -> bytes.
  Definition hev (t : hterm) : bytes := heval (fun _ => H) t.
  Definition check_holds (c : bytes * hterm) : Prop := fst c = hev (snd c).

  (* New<Era>BlockFromCbor(bs, cfg).  skip = cfg.SkipBodyHashValidation;
     struct_ok = everything else the decoder checks *)
  Definition decode_ok (exact skip struct_ok : bool) (r : era_row) (bs : bytes) : Prop :=
    struct_ok = true /\
    (skip = true \/ exists cs, block_checks exact r bs = Some cs /\ Forall check_holds cs).
End accept.

(* ---- VerifyConfig: a configuration = the values of its bool fields (names
   and the position of SkipBodyHashValidation come from C34/Gen.v).  The body
   comparisons do not depend on any other flag: a flag can only ADD checks,
   and those (Byron ssc_proof hash comparison, anything a future flag brings)
   live in struct_ok, which is a function of the configuration. ---- *)
Definition config := list bool.
Definition flag_on (idx : nat) (cfg : config) : bool := nth idx cfg false.
Definition decode_ok_cfg (H : bytes -> bytes) (exact : bool) (skip_idx : nat)
    (struct_ok : config -> bool) (r : era_row) (bs : bytes) (cfg : config) : Prop :=
  decode_ok H exact (flag_on skip_idx cfg) (struct_ok cfg) r bs.
Fixpoint all_configs (n : nat) : list config :=
  match n with
  | O => [[]]
  | S k => map (cons false) (all_configs k) ++ map (cons true) (all_configs k)
  end.
Definition validating_configs (n skip_idx : nat) : list config :=
  filter (fun c => negb (flag_on skip_idx c)) (all_configs n).

Fixpoint find_row (tbl : list era_row) (t : N) : option era_row :=
  match tbl with
  | [] => None
  | r :: rest => if r_type r =? t then Some r else find_row rest t
  end.

(* finite check of the era table: first offending row (block type, kind):
   1 = the hashed segment count differs from the element count the decoder
       demands (a trailing body segment would escape hashing),
   2 = fewer than two elements *)
Definition row_bad (r : era_row) : option (N * N) :=
  match r_mode r with
  | MSegments =>
      if negb (Nat.eqb (r_hashed r) (r_struct r)) then Some (r_type r, 1)
      else if Nat.ltb (r_struct r) 2 then Some (r_type r, 2) else None
  | MWholeBody => if Nat.eqb (r_struct r) 2 then None else Some (r_type r, 1)
  | _ => if Nat.eqb (r_struct r) 3 then None else Some (r_type r, 1)
  end.
Fixpoint table_check (tbl : list era_row) : option (N * N) :=
  match tbl with [] => None | r :: rest => match row_bad r with Some x => Some x | None => table_check rest end end.

(* ---- correspondence ---- *)
(* one case = (block type, block bytes); output = the comparisons as text:
   "R" = rejected before any comparison, otherwise "C" followed by
   <hex of the header's value>=<serialised preimage term>| per comparison *)
Local Open Scope string_scope.
Definition ser_checks (cs : list (bytes * hterm)) : string :=
  "C" ++ fold_right (fun c acc => to_hex (fst c) ++ "=" ++ hser (snd c) ++ "|" ++ acc) "" cs.
Definition case := (N * bytes)%type.
Definition out_of (exact : bool) (tbl : list era_row) (c : case) : string :=
  match find_row tbl (fst c) with
  | Some r => match block_checks exact r (snd c) with Some cs => ser_checks cs | None => "R" end
  | None => "U"
  end.
