(* C34 - property theorems only. *)
From Coq Require Import String.
From V Require Import Lib.CborProofs Lib.HTerm C35.Model C35.Proofs C34.Model C34.Gen C34.Proofs C34.Run. (* Run: entry point of the correspondence, built with the cone *)
Local Open Scope N_scope.

(* The generated era table: for every era that hashes segments, the number of
   hashed segments is the number of elements the block decoder demands (so no
   trailing body segment escapes hashing); Byron blocks have 3 elements,
   Dijkstra blocks 2.  A break names the block type. *)
Theorem C34_table : table_check Gen.era_table = None.
Proof. vm_compute. reflexivity. Qed.

Lemma table_rows r : In r Gen.era_table -> row_bad r = None.
Proof.
  pose proof C34_table as T. revert T. generalize Gen.era_table as tbl.
  induction tbl as [|a l IH]; intros T Hin; [destruct Hin|].
  cbn [table_check] in T. destruct (row_bad a) eqn:E; [discriminate|].
  destruct Hin as [<-|Hin]; [exact E|apply IH; assumption].
Qed.

Section C34.
  Variable H : bytes -> bytes.   (* Blake2b-256, arbitrary in the theorems *)

  (* Shelley .. Conway.  If New<Era>BlockFromCbor accepts bs with body
     validation on (skip = false), then bs is
        outer-array header ++ header item ++ ALL body segments ++ break? ++ ignored trailing bytes
     and the body hash the header carries is H of the concatenated H's of
     exactly those segments: no body byte escapes hashing, for every form of
     the outer array (definite of any width, indefinite). *)
  Theorem C34_commit : forall exact ok r bs,
    In r Gen.era_table -> r_mode r = MSegments -> all_bytes bs ->
    decode_ok H exact false ok r bs ->
    exists f h body rest hd tl c,
      parse_full bs = Ok (Arr f (h :: body)) rest /\
      length (h :: body) = r_struct r /\
      bs = hd ++ enc h ++ flat_map enc body ++ tl ++ rest /\
      length hd = hdr_size f /\ length tl = trailer f /\
      header_commitment (r_idx r) h = Some c /\
      c = H (flat_map (fun x => H (enc x)) body).
  Proof. intros exact ok r bs Hin. intros. eapply segments_commit; eauto. apply table_rows, Hin. Qed.

  (* Dijkstra: [header, block_body]; the header carries H of the body item's bytes *)
  Theorem C34_commit_dijkstra : forall exact ok r bs,
    r_mode r = MWholeBody -> all_bytes bs ->
    decode_ok H exact false ok r bs ->
    exists top f h body rest hd tl c,
      parse_full bs = Ok top rest /\ strip_tags top = Arr f [h; body] /\
      enc (Arr f [h; body]) = hd ++ enc h ++ enc body ++ tl /\
      length hd = hdr_size f /\ length tl = trailer f /\
      header_commitment (r_idx r) h = Some c /\ c = H (enc body).
  Proof. exact (whole_commit H). Qed.

  (* Byron main block: an accepted block has the shape
     [header, [txs, ssc, dlg, upd], extra]; the header's proof carries the
     number of transactions, the merkle root (C35's construction) over the
     transaction BODY bytes, H of the indefinite-length list of the WITNESS
     bytes, H of the delegation payload bytes and H of the update payload bytes. *)
  Theorem C34_byron : forall exact ok r bs,
    r_mode r = MByronMain ->
    decode_ok H exact false ok r bs ->
    exists top rest fa h body extra fh m0 m1 proof m3 m4 fb txs ssc dlg upd fp txp sscp dlgp updp more
           ft txl fx cnt root wit more2 parts nn c_root c_wit c_dlg c_upd mt,
      parse_full bs = Ok top rest /\
      strip_tags top = Arr fa [h; body; extra] /\
      strip_tags h = Arr fh [m0; m1; proof; m3; m4] /\
      strip_tags body = Arr fb [txs; ssc; dlg; upd] /\
      proof = Arr fp (txp :: sscp :: dlgp :: updp :: more) /\
      strip_tags txs = Arr ft txl /\
      txp = Arr fx (cnt :: root :: wit :: more2) /\
      all_some (map (tx_parts exact) txl) = Some parts /\
      cnt = UInt nn (N.of_nat (length txl)) /\
      hash32 root = Some c_root /\ hash32 wit = Some c_wit /\ hash32 dlgp = Some c_dlg /\ hash32 updp = Some c_upd /\
      merkle_root (map (fun p => enc (fst p)) parts) = Some mt /\
      c_root = hev H mt /\
      c_wit = H (witness_list (map snd parts)) /\
      c_dlg = H (enc dlg) /\
      c_upd = H (enc upd).
  Proof. exact (byron_main_commit H). Qed.

  (* VerifyConfig: SkipBodyHashValidation is the ONLY switch that removes the
     binding; with it the decoder accepts whatever is structurally fine.  By
     default (zero VerifyConfig) the comparisons are made. *)
  Theorem C34_config_skip : forall exact ok r bs, decode_ok H exact true ok r bs <-> ok = true.
  Proof. intros. unfold decode_ok. split; [intros [A _]; exact A|intros A; split; [exact A|left; reflexivity]]. Qed.
  Theorem C34_config_default : forall exact ok r bs, decode_ok H exact false ok r bs ->
    exists cs, block_checks exact r bs = Some cs /\ Forall (check_holds H) cs.
  Proof. intros exact ok r bs [_ [A|A]]; [discriminate|exact A]. Qed.

  (* Every configuration (every combination of the generated VerifyConfig
     flags) that leaves body validation enabled makes at least the default
     comparisons: flags can only add checks.  So C34_commit / C34_commit_dijkstra /
     C34_byron / C34_bind* hold under every such configuration. *)
  Theorem C34_config_all : forall exact ok r bs cfg,
    flag_on Gen.skip_flag_index cfg = false ->
    decode_ok_cfg H exact Gen.skip_flag_index ok r bs cfg ->
    exists cs, block_checks exact r bs = Some cs /\ Forall (check_holds H) cs.
  Proof.
    intros exact ok r bs cfg Hs D. unfold decode_ok_cfg in D. rewrite Hs in D.
    eapply C34_config_default; exact D.
  Qed.
  (* what a validating configuration accepts, the default configuration
     accepts too (given the default's own structural acceptance) *)
  Theorem C34_config_superset : forall exact ok r bs cfg,
    flag_on Gen.skip_flag_index cfg = false ->
    decode_ok_cfg H exact Gen.skip_flag_index ok r bs cfg ->
    ok (repeat false (length Gen.config_flags)) = true ->
    decode_ok_cfg H exact Gen.skip_flag_index ok r bs (repeat false (length Gen.config_flags)).
  Proof.
    intros exact ok r bs cfg Hs D Hok. destruct (C34_config_all _ _ _ _ _ Hs D) as (cs & E & F).
    unfold decode_ok_cfg, decode_ok. split; [exact Hok|]. right. eauto.
  Qed.
  Theorem C34_config_table : forall exact ok r bs,
    Forall (fun cfg => decode_ok_cfg H exact Gen.skip_flag_index ok r bs cfg ->
              exists cs, block_checks exact r bs = Some cs /\ Forall (check_holds H) cs)
           (validating_configs (length Gen.config_flags) Gen.skip_flag_index).
  Proof.
    intros exact ok r bs. apply Forall_forall. intros cfg Hin D.
    apply filter_In in Hin. destruct Hin as [_ Hn]. apply negb_true_iff in Hn.
    eapply C34_config_all; eauto.
  Qed.

  (* Binding.  D is the set of byte strings on which H is assumed
     collision-free with digests of n bytes (explicit premises; an
     idealisation of Blake2b-256, never an axiom).  Two blocks of the same era
     with the same header that are both accepted have the same body bytes. *)
  Section bind.
    Variable D : bytes -> Prop.
    Variable n : nat.
    Hypothesis H_inj : forall x y, D x -> D y -> H x = H y -> x = y.
    Hypothesis H_len : forall x, D x -> length (H x) = n.

    Theorem C34_bind : forall exact ok1 ok2 r bs1 bs2 f1 f2 h body1 body2 rest1 rest2,
      In r Gen.era_table -> r_mode r = MSegments -> all_bytes bs1 -> all_bytes bs2 ->
      parse_full bs1 = Ok (Arr f1 (h :: body1)) rest1 ->
      parse_full bs2 = Ok (Arr f2 (h :: body2)) rest2 ->          (* same header item *)
      Forall (fun x => D (enc x)) body1 -> Forall (fun x => D (enc x)) body2 ->
      D (flat_map (fun x => H (enc x)) body1) -> D (flat_map (fun x => H (enc x)) body2) ->
      decode_ok H exact false ok1 r bs1 -> decode_ok H exact false ok2 r bs2 ->
      map enc body1 = map enc body2 /\ flat_map enc body1 = flat_map enc body2.
    Proof.
      intros exact ok1 ok2 r bs1 bs2 f1 f2 h body1 body2 rest1 rest2 Hin Hm B1 B2 P1 P2 F1 F2 D1 D2 A1 A2.
      destruct (C34_commit exact ok1 r bs1 Hin Hm B1 A1) as (g1 & h1 & b1 & r1 & _ & _ & c1 & Q1 & L1 & _ & _ & _ & C1 & E1).
      destruct (C34_commit exact ok2 r bs2 Hin Hm B2 A2) as (g2 & h2 & b2 & r2 & _ & _ & c2 & Q2 & L2 & _ & _ & _ & C2 & E2).
      rewrite P1 in Q1. injection Q1 as <- <- <- <-. rewrite P2 in Q2. injection Q2 as <- <- <- <-.
      rewrite C1 in C2. injection C2 as <-. subst c1.
      assert (M : map enc body1 = map enc body2).
      { eapply (seg_digests_inj H D n H_inj H_len); eauto. cbn [length] in L1, L2. lia. }
      split; [exact M|]. rewrite !flat_map_concat_map. f_equal. exact M.
    Qed.

    (* Dijkstra *)
    Theorem C34_bind_dijkstra : forall exact ok1 ok2 r bs1 bs2 f1 f2 h body1 body2 rest1 rest2,
      r_mode r = MWholeBody -> all_bytes bs1 -> all_bytes bs2 ->
      parse_full bs1 = Ok (Arr f1 [h; body1]) rest1 -> parse_full bs2 = Ok (Arr f2 [h; body2]) rest2 ->
      D (enc body1) -> D (enc body2) ->
      decode_ok H exact false ok1 r bs1 -> decode_ok H exact false ok2 r bs2 ->
      enc body1 = enc body2.
    Proof.
      intros exact ok1 ok2 r bs1 bs2 f1 f2 h body1 body2 rest1 rest2 Hm B1 B2 P1 P2 D1 D2 A1 A2.
      destruct (C34_commit_dijkstra exact ok1 r bs1 Hm B1 A1) as (t1 & g1 & h1 & b1 & r1 & _ & _ & c1 & Q1 & S1 & _ & _ & _ & C1 & E1).
      destruct (C34_commit_dijkstra exact ok2 r bs2 Hm B2 A2) as (t2 & g2 & h2 & b2 & r2 & _ & _ & c2 & Q2 & S2 & _ & _ & _ & C2 & E2).
      rewrite P1 in Q1. injection Q1 as <- <-. rewrite P2 in Q2. injection Q2 as <- <-.
      cbn [strip_tags] in S1, S2. injection S1 as <- <- <-. injection S2 as <- <- <-.
      rewrite C1 in C2. injection C2 as <-. subst c1. apply H_inj; assumption.
    Qed.

    (* Byron main: same header => same witness-list bytes, delegation and
       update payload bytes (the transaction bodies are bound through the
       merkle root; its injectivity is NOT proved here) *)
    Theorem C34_bind_byron : forall exact ok1 ok2 r bs1 bs2,
      r_mode r = MByronMain ->
      decode_ok H exact false ok1 r bs1 -> decode_ok H exact false ok2 r bs2 ->
      forall cs1 cs2, block_checks exact r bs1 = Some cs1 -> block_checks exact r bs2 = Some cs2 ->
      map fst cs1 = map fst cs2 ->                                  (* same proof values in the header *)
      Forall (fun c => match snd c with HH _ [HB p] => D p | _ => True end) (cs1 ++ cs2) ->
      Forall2 (fun a b => match snd a, snd b with HH _ [HB p], HH _ [HB q] => p = q | _, _ => True end) cs1 cs2.
    Proof.
      intros exact ok1 ok2 r bs1 bs2 Hm A1 A2 cs1 cs2 K1 K2 Efst HD.
      destruct (C34_config_default _ _ _ _ A1) as (x1 & X1 & G1). destruct (C34_config_default _ _ _ _ A2) as (x2 & X2 & G2).
      rewrite K1 in X1. injection X1 as <-. rewrite K2 in X2. injection X2 as <-.
      apply Forall_app in HD. destruct HD as [HD1 HD2].
      clear K1 K2 A1 A2. revert cs2 Efst G2 HD2. induction cs1 as [|[v1 t1] l1 IH]; intros [|[v2 t2] l2] Efst G2 HD2; cbn in Efst; try discriminate; [constructor|].
      injection Efst as -> Efst.
      pose proof (Forall_inv G1) as g1. pose proof (Forall_inv G2) as g2.
      pose proof (Forall_inv HD1) as d1. pose proof (Forall_inv HD2) as d2.
      constructor.
      - unfold check_holds in g1, g2. cbn [fst snd] in *.
        destruct t1 as [|a1 [|[p1|] [|? ?]]]; try exact I. destruct t2 as [|a2 [|[p2|] [|? ?]]]; try exact I.
        unfold hev in g1, g2. cbn [heval flat_map] in g1, g2. rewrite app_nil_r in g1, g2.
        apply H_inj; [assumption|assumption|congruence].
      - apply IH; try (eapply Forall_inv_tail; eassumption). exact Efst.
    Qed.
  End bind.
End C34.
Print Assumptions C34_commit.
Print Assumptions C34_bind.
Print Assumptions C34_byron.

(* the generated flag table: the skip flag is where the model looks for it,
   and half of all flag combinations leave validation enabled (non-vacuity) *)
Theorem C34_config_flags :
  nth_error Gen.config_flags Gen.skip_flag_index = Some "SkipBodyHashValidation"%string /\
  length (validating_configs (length Gen.config_flags) Gen.skip_flag_index) = Nat.pow 2 (length Gen.config_flags - 1) /\
  In (repeat false (length Gen.config_flags)) (validating_configs (length Gen.config_flags) Gen.skip_flag_index).
Proof. vm_compute. repeat split; auto 40. Qed.

(* With the exact-length check in ByronTransaction.UnmarshalCBOR
   (fixes/C34-byron-tx-exact-length.patch) every byte of a transaction outside
   its array framing is a body byte (merkle leaf) or a witness byte. *)
Theorem C34_byron_tx_exact : Gen.byron_tx_exact = true.
Proof. reflexivity. Qed.

Theorem C34_byron_tx_cover : forall txl parts,
  all_some (map (tx_parts true) txl) = Some parts ->
  Forall2 (fun tx p => exists f, strip_tags tx = Arr f [fst p; snd p]) txl parts.
Proof.
  induction txl as [|tx l IH]; intros parts E; cbn [map all_some] in E.
  - injection E as <-. constructor.
  - destruct (tx_parts true tx) as [p|] eqn:Et; [|discriminate].
    destruct (all_some (map (tx_parts true) l)) as [ps|] eqn:Es; [|discriminate]. cbn in E. injection E as <-.
    constructor; [|apply IH; reflexivity].
    unfold tx_parts in Et. destruct (strip_tags tx) as [| | | | | |f xs| | | |]; try discriminate.
    destruct xs as [|b [|w [|? ?]]]; try discriminate. injection Et as <-. exists f. reflexivity.
Qed.

(* the merkle root of the Byron proof is C35's reference construction *)
Theorem C34_byron_merkle_is_reference : forall items, exists t, merkle_root items = Some t /\ RefRoot items t.
Proof. intros items. destruct (merkle_root_ref items) as (t & E & R). eauto. Qed.

(* ---- non-vacuity ---- *)
(* a toy hash that is collision-free with 32-byte digests on a three-element
   domain, and a Shelley-layout block it accepts: the premises of C34_bind are
   satisfiable together with decode_ok *)
Definition toyH (x : bytes) : bytes :=
  if bytes_eqb x [128] then repeat 1 32
  else if bytes_eqb x [160] then repeat 2 32
  else if bytes_eqb x (repeat 1 64 ++ repeat 2 32) then repeat 3 32
  else repeat 0 32.
Definition toyD (x : bytes) : Prop := In x [[128]; [160]; repeat 1 64 ++ repeat 2 32].
Definition toy_block : item :=
  Arr None [Arr (Some Fimm) [Arr (Some Fimm) (repeat (UInt Fimm 0) 8 ++ [BStr F1 (repeat 3 32)])];
            Arr (Some Fimm) []; Arr (Some Fimm) []; Map (Some Fimm) []].
Example C34_nonvacuous :
  (forall x y, toyD x -> toyD y -> toyH x = toyH y -> x = y) /\
  (forall x, toyD x -> length (toyH x) = 32%nat) /\
  exists r, In r Gen.era_table /\ r_mode r = MSegments /\
    decode_ok toyH false false true r (enc toy_block ++ [7]).
Proof.
  split; [|split].
  - intros x y [<-|[<-|[<-|[]]]] [<-|[<-|[<-|[]]]]; vm_compute; intros E; try reflexivity; discriminate.
  - intros x [<-|[<-|[<-|[]]]]; vm_compute; reflexivity.
  - exists {| r_type := 2; r_mode := MSegments; r_struct := 4; r_hashed := 4; r_idx := 8 |}.
    split; [vm_compute; auto 10|]. split; [reflexivity|]. split; [reflexivity|]. right.
    eexists. split; [vm_compute; reflexivity|]. repeat constructor.
Qed.
