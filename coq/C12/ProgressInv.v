(* C12 - auxiliary invariants for the PROGRESS half of the two-endpoint theorem.
   Part 1: invariants of ONE engine, for every label list (GInv).
   Part 2: invariants of one endpoint inside the composition (XInv).
   Part 3: invariants of the composition: conservation of bytes between the
           sender's segment log, the wire and the receiver's read buffer, and
           "no empty segment on the wire" (DInv).
   Engine.v, EngineProofs.v, Compose.v, ComposeProofs.v are used unchanged. *)
From V Require Import Lib.Base C11.Engine C11.EngineProofs C12.Proofs C12.Compose C12.ComposeProofs.
Local Open Scope N_scope.

Local Arguments sumN : simpl never.
Local Arguments lens : simpl never.
Lemma sumN_cons x l : sumN (x :: l) = x + sumN l.
Proof. reflexivity. Qed.
Lemma sumN_nil : sumN [] = 0.
Proof. reflexivity. Qed.
Lemma lens_cons m l : lens (m :: l) = m_len m :: lens l.
Proof. reflexivity. Qed.
Lemma lens_nil : lens [] = [].
Proof. reflexivity. Qed.
Lemma sumN_app' a b : sumN (a ++ b) = sumN a + sumN b.
Proof. unfold sumN. induction a as [|x a IH]; cbn [fold_right app]; [lia|]. rewrite IH. lia. Qed.
Lemma lens_app' a b : lens (a ++ b) = lens a ++ lens b.
Proof. apply map_app. Qed.

Ltac unf_step H :=
  unfold do_enq, do_enq_over, do_take_send, do_send_queued, do_send_deq, do_batch_end, do_send_seg,
    do_seg_in, do_dec_incomplete, do_dec_bad, do_dec_empty, do_dec_msg, do_admit, do_put, do_take_recv,
    do_handle, do_handler_call, do_handler_ret, do_send_error, do_exit in H.

(* ------------------------------------------------------------------ part 1 *)
Section Gen.
Variable sm : statemap.
Variable r : role.
Variable s0 : N.
Variable rqcap : N.
Variable k : consts.
Notation step := (step sm r s0 rqcap k).
Notation run := (run sm r s0 rqcap k).
Notation init := (init sm r s0).

Definition GInv (s : st) : Prop :=
  (sendHeld (c s) = true -> match sph (sn s) with SHeld | SFail | SDead => True | _ => False end) /\
  (recvHeld (c s) = true -> match lph (rc s) with LWaitMsg | LFail _ | LDead _ => True | _ => False end) /\
  (rph (rc s) = RDecode -> 0 < rbuf (rc s)) /\
  pendR (rc s) = sumN (sizes (rc s)) /\
  sizes (rc s) = lens (inproc (lph (rc s)) ++ recvq (rc s) ++ rtail (rph (rc s))) /\
  (match rph (rc s) with
   | RAdmit m lim => m_len m <= rbuf (rc s) /\ (lim = 0 \/ m_len m <= lim)
   | RPut m => m_len m <= rbuf (rc s)
   | _ => True end) /\
  pendS (sn s) = sumN (lens (sendq (sn s))).

Lemma ginv_init : GInv init.
Proof. unfold GInv, init; cbn. repeat split; auto; try discriminate. Qed.

Ltac gfin :=
  repeat match goal with
  | |- _ /\ _ => split
  | |- _ -> _ => intro
  end; subst; auto; try discriminate; try tauto;
  rewrite ?lens_app', ?sumN_app', ?lens_cons, ?sumN_cons, ?lens_nil, ?sumN_nil, ?app_nil_r in *;
  cbn [app] in *;
  rewrite ?lens_app', ?sumN_app', ?lens_cons, ?sumN_cons, ?lens_nil, ?sumN_nil, ?app_nil_r in *;
  try lia; try congruence; try (rewrite <- ?app_assoc; cbn [app]; reflexivity).

Lemma ginv_step s l s' : GInv s -> step s l = Some s' -> GInv s'.
Proof.
  intros (H1 & H2 & H3 & H4 & H5 & H6 & H7) Hs. destr_st s. unfold GInv. cbn in *.
  destruct l; cbn in Hs; unf_step Hs; cbn in Hs; crush Hs.
  all: try (gfin; fail).
Qed.

Theorem ginv_run : forall ls s, run init ls = Some s -> GInv s.
Proof. apply (run_inv sm r s0 rqcap k); [apply ginv_init|apply ginv_step]. Qed.

(* how one step changes the send side: only SendSeg adds a segment and only
   SendSeg leaves the segment loop *)
Lemma send_effect s l s' : step s l = Some s' -> allowed l = true ->
  seg_log (lg s') = seg_log (lg s) ++ (match l with SendSeg n => [n] | _ => [] end) /\
  match l with
  | SendSeg n => exists rem, sph (sn s) = SSeg rem /\ n = N.min rem (c_segmax k) /\
                 sph (sn s') = (if c_segmax k <? rem then SSeg (rem - c_segmax k) else SWait)
  | _ => forall rem, sph (sn s) = SSeg rem -> sph (sn s') = SSeg rem
  end.
Proof.
  intros Hs AL. destr_st s. cbn in *.
  destruct l; try discriminate AL; cbn in Hs; unf_step Hs; cbn in Hs; crush Hs;
    rewrite ?app_nil_r; try (split; [reflexivity|intros; congruence]).
  all: split; [reflexivity|]; eexists; split; [reflexivity|]; rewrite ?Heqb0; split; try reflexivity;
       apply N.eqb_eq; assumption.
Qed.

(* how one step changes the read side: bytes enter the buffer with SegIn and
   leave it with Put; the message being admitted is still in the buffer *)
Lemma recv_effect s l s' : GInv s -> step s l = Some s' -> allowed l = true -> rph (rc s') <> RFail ->
  rbuf (rc s') + sumN (lens (rmsgs (rph (rc s)))) + (match l with DecMsg m => m_len m | _ => 0 end) =
  rbuf (rc s) + sumN (lens (rmsgs (rph (rc s')))) + (match l with SegIn n => n | _ => 0 end).
Proof.
  intros (_ & _ & _ & _ & _ & H6 & _) Hs AL NF. destr_st s. cbn in *.
  destruct l; try discriminate AL; cbn in Hs; unf_step Hs; cbn in Hs; crush Hs;
    rewrite ?lens_cons, ?sumN_cons, ?lens_nil, ?sumN_nil; try lia.
  congruence.
Qed.

End Gen.

(* ------------------------------------------------------------------ part 2 *)
Section Endpoint.
Variable sm : statemap.
Variable s0 : N.
Variable k : consts.
Variable conv : list msg.
Hypothesis Hconf : conforming sm s0 k conv.
Notation projR := (projR sm).
Notation lstep := (lstep sm s0 k conv).

(* lstep is a step of the engine with an allowed label whose argument is the
   message the composition dictates *)
Lemma lstep_step r rq e dec pw l e' dec' :
  lstep r rq e dec pw l = Some (e', dec') ->
  exists l', step sm r s0 rq k e l' = Some e' /\ allowed l' = true /\
    dec' = (match l' with DecMsg _ => S dec | _ => dec end) /\
    (forall m, l' = Enq m -> nth_error (projR r s0 conv) (length (enq_log (lg e))) = Some m) /\
    (forall m, l' = DecMsg m -> nth_error pw dec = Some m) /\
    (l' = DecIncomplete -> exists m, nth_error pw dec = Some m /\ rbuf (rc e) < m_len m) /\
    (forall n, l = SegIn n <-> l' = SegIn n) /\ (forall n, l = SendSeg n <-> l' = SendSeg n).
Proof.
  intros H.
  assert (G : forall l0, allowed l0 = true ->
            (forall m, l0 <> Enq m) -> (forall m, l0 <> DecMsg m) -> l0 <> DecIncomplete -> l = l0 ->
            match step sm r s0 rq k e l0 with Some e0 => Some (e0, dec) | None => None end = Some (e', dec') ->
            exists l', step sm r s0 rq k e l' = Some e' /\ allowed l' = true /\
              dec' = (match l' with DecMsg _ => S dec | _ => dec end) /\
              (forall m, l' = Enq m -> nth_error (projR r s0 conv) (length (enq_log (lg e))) = Some m) /\
              (forall m, l' = DecMsg m -> nth_error pw dec = Some m) /\
              (l' = DecIncomplete -> exists m, nth_error pw dec = Some m /\ rbuf (rc e) < m_len m) /\
              (forall n, l = SegIn n <-> l' = SegIn n) /\ (forall n, l = SendSeg n <-> l' = SendSeg n)).
  { intros l0 AL N1 N2 N3 EQ H0. destruct (step sm r s0 rq k e l0) as [e0|] eqn:E; [|discriminate].
    injection H0 as <- <-. exists l0. split; [exact E|]. split; [exact AL|].
    split; [destruct l0; try reflexivity; exfalso; eapply N2; reflexivity|].
    split; [intros m X; exfalso; eapply N1; eauto|].
    split; [intros m X; exfalso; eapply N2; eauto|].
    split; [intros X; exfalso; eapply N3; eauto|].
    subst l0. split; intros n; split; auto. }
  destruct l; lazy beta iota delta [Compose.lstep] in H; try discriminate H;
    try (eapply G; [..|exact H]; [reflexivity|intros; discriminate|intros; discriminate|discriminate|reflexivity]; fail).
  - (* Enq *)
    destruct (nth_error (projR r s0 conv) (length (enq_log (lg e)))) as [m'|] eqn:NE; [|discriminate].
    destruct (_ && _); [|discriminate].
    destruct (step sm r s0 rq k e (Enq m')) as [e0|] eqn:E; [|discriminate]. injection H as <- <-.
    exists (Enq m'). split; [exact E|]. split; [reflexivity|]. split; [reflexivity|].
    split; [intros m0 X; injection X as <-; first [exact NE|reflexivity]|].
    split; [intros; discriminate|]. split; [intros; discriminate|].
    split; intros n; split; intros; discriminate.
  - (* DecIncomplete *)
    destruct (nth_error pw dec) as [m'|] eqn:NE; [|discriminate].
    destruct (rbuf (rc e) <? m_len m') eqn:LT; [|discriminate].
    destruct (step sm r s0 rq k e DecIncomplete) as [e0|] eqn:E; [|discriminate]. injection H as <- <-.
    exists DecIncomplete. split; [exact E|]. split; [reflexivity|]. split; [reflexivity|].
    split; [intros; discriminate|]. split; [intros; discriminate|].
    split; [intros _; exists m'; split; [reflexivity|apply N.ltb_lt; exact LT]|].
    split; intros n; split; intros; discriminate.
  - (* DecMsg *)
    destruct (nth_error pw dec) as [m'|] eqn:NE; [|discriminate].
    destruct (N.eqb (m_id m) (m_id m')); [|discriminate].
    destruct (step sm r s0 rq k e (DecMsg m')) as [e0|] eqn:E; [|discriminate]. injection H as <- <-.
    exists (DecMsg m'). split; [exact E|]. split; [reflexivity|]. split; [reflexivity|].
    split; [intros; discriminate|]. split; [intros m0 X; injection X as <-; first [exact NE|reflexivity]|].
    split; [intros; discriminate|].
    split; intros n; split; intros; discriminate.
  - (* HandlerRet *)
    destruct r0; try discriminate H.
    eapply G; [..|exact H]; [reflexivity|intros; discriminate|intros; discriminate|discriminate|reflexivity].
Qed.

(* the step of an endpoint, with what EInv tells about the new state *)
Lemma lstep_einv r rq e dec pw l e' dec' :
  EInv sm s0 k conv r rq e dec pw -> prefix pw (projR (other r) s0 conv) ->
  lstep r rq e dec pw l = Some (e', dec') ->
  EInv sm s0 k conv r rq e' dec' pw /\
  (wire_log (lg e') = wire_log (lg e) \/ exists m, wire_log (lg e') = wire_log (lg e) ++ [m]).
Proof. apply lstep_inv. exact Hconf. Qed.

Lemma conv_pos m : In m conv -> 0 < m_len m.
Proof. intros H. destruct Hconf as (_ & HS). apply (HS m H). Qed.

Lemma EInv_sendq_pos r rq e dec pw m : EInv sm s0 k conv r rq e dec pw -> In m (sendq (sn e)) -> 0 < m_len m.
Proof.
  intros ((ls & R) & _ & C & _) HI.
  destruct (order_inv sm r s0 rq k ls e R) as (O & _ & _).
  apply conv_pos. eapply projR_in. eapply prefix_in; [exact C|]. rewrite <- O.
  apply in_or_app. right. apply in_or_app. right. exact HI.
Qed.

Lemma EInv_ginv r rq e dec pw : EInv sm s0 k conv r rq e dec pw -> GInv e.
Proof. intros ((ls & R) & _). eapply ginv_run; eauto. Qed.

Definition XInv (e : st) (dec : nat) (pw : list msg) : Prop :=
  (rph (rc e) = RWaitSeg ->
   rbuf (rc e) = 0 \/ exists m', nth_error pw dec = Some m' /\ rbuf (rc e) < m_len m') /\
  match sph (sn e) with SBatch _ pay => 0 < pay | SSeg rem => 0 < rem | _ => True end.

Lemma XInv_init pw r : XInv (init sm r s0) 0 pw.
Proof. split; cbn; auto. Qed.

Lemma XInv_grow e dec pw m : XInv e dec pw -> XInv e dec (pw ++ [m]).
Proof.
  intros (X1 & X2). split; [|exact X2]. intros H. destruct (X1 H) as [Z|(m' & N1 & L1)]; [left; exact Z|].
  right. exists m'. split; [|exact L1]. rewrite nth_error_app1; [exact N1|]. apply nth_error_Some. congruence.
Qed.

Lemma step_xinv r rq e dec pw l e' :
  (forall m, In m (sendq (sn e)) -> 0 < m_len m) -> healthy e' -> XInv e dec pw -> allowed l = true ->
  (l = DecIncomplete -> exists m, nth_error pw dec = Some m /\ rbuf (rc e) < m_len m) ->
  step sm r s0 rq k e l = Some e' -> XInv e' (match l with DecMsg _ => S dec | _ => dec end) pw.
Proof.
  intros POS HH (X1 & X2) AL GI Hs. destr_st e. unfold XInv, healthy in *. cbn in *.
  destruct l; try discriminate AL; cbn in Hs; unf_step Hs; cbn in Hs; crush Hs.
  all: try (split; [assumption|auto]; fail).
  all: try (split; [intros; discriminate|auto]; fail).
  - split; [assumption|lia].
  - split; [assumption|lia].
  - split; [intros _; right; apply GI; reflexivity|assumption].
  - split; [intros _; left; lia|assumption].
Qed.

Lemma lstep_xinv r rq e dec pw l e' dec' :
  EInv sm s0 k conv r rq e dec pw -> prefix pw (projR (other r) s0 conv) -> XInv e dec pw ->
  lstep r rq e dec pw l = Some (e', dec') -> XInv e' dec' pw.
Proof.
  intros I PW X H. destruct (lstep_einv _ _ _ _ _ _ _ _ I PW H) as ((_ & _ & _ & _ & _ & HH) & _).
  destruct (lstep_step _ _ _ _ _ _ _ _ H) as (l' & Hs & AL & -> & _ & _ & GI & _).
  eapply step_xinv; eauto. intros m. eapply EInv_sendq_pos; eauto.
Qed.

End Endpoint.

(* ------------------------------------------------------------------ part 3 *)
Lemma match_sendseg {A} l l' (f : N -> A) (d : A) :
  (forall n, l = SendSeg n <-> l' = SendSeg n) ->
  match l with SendSeg n => f n | _ => d end = match l' with SendSeg n => f n | _ => d end.
Proof.
  intros H.
  destruct l'; try (destruct l; try reflexivity;
    match goal with n : N |- _ => pose proof (proj1 (H n) eq_refl) as X; discriminate X end).
  rewrite (proj2 (H n) eq_refl). reflexivity.
Qed.
Lemma match_segin {A} l l' (f : N -> A) (d : A) :
  (forall n, l = SegIn n <-> l' = SegIn n) ->
  match l with SegIn n => f n | _ => d end = match l' with SegIn n => f n | _ => d end.
Proof.
  intros H.
  destruct l'; try (destruct l; try reflexivity;
    match goal with n : N |- _ => pose proof (proj1 (H n) eq_refl) as X; discriminate X end).
  rewrite (proj2 (H n) eq_refl). reflexivity.
Qed.

Lemma firstn_snoc_sum : forall (pw : list msg) dec m, nth_error pw dec = Some m ->
  sumN (lens (firstn (S dec) pw)) = sumN (lens (firstn dec pw)) + m_len m.
Proof.
  intros pw dec m H. destruct (nth_error_snoc _ _ _ H) as (E & _). rewrite E.
  rewrite lens_app', sumN_app', lens_cons, sumN_cons, lens_nil, sumN_nil. lia.
Qed.
Lemma firstn_grow {A} (l : list A) n x : (n <= length l)%nat -> firstn n (l ++ [x]) = firstn n l.
Proof.
  intros H. rewrite firstn_app. replace (n - length l)%nat with 0%nat by lia. cbn. apply app_nil_r.
Qed.

Section Composite.
Variable sm : statemap.
Variable s0 : N.
Variable rqa rqb : N.
Variable k : consts.
Variable conv : list msg.
Hypothesis Hconf : conforming sm s0 k conv.
Notation projR := (projR sm).
Notation lstep := (lstep sm s0 k conv).
Notation EInv := (EInv sm s0 k conv).
Notation cstep := (cstep sm s0 rqa rqb k conv).
Notation crun := (crun sm s0 rqa rqb k conv).
Notation cinit := (cinit sm s0).

(* bytes: what the sender handed to the muxer = what is on the wire + what the
   receiver holds in its buffer + the messages it has taken out of the buffer *)
Definition BC (snd rcv : st) (dec : nat) (w : list N) : Prop :=
  sumN (seg_log (lg snd)) + sumN (lens (rmsgs (rph (rc rcv)))) =
  sumN w + rbuf (rc rcv) + sumN (lens (firstn dec (wire_log (lg snd)))).
(* no empty segment is on the wire (unless SegmentMaxPayloadLength is 0: then
   the sender never leaves its segment loop) *)
Definition WP (snd : st) (w : list N) : Prop :=
  Forall (fun n => 0 < n) w \/ (c_segmax k = 0 /\ exists rem, sph (sn snd) = SSeg rem).

Lemma other_other r : other (other r) = r.
Proof. destruct r; reflexivity. Qed.

Lemma side_step r rq rq' x y dx dy wxy wyx l x' dx' :
  EInv r rq x dx (wire_log (lg y)) ->
  EInv (other r) rq' y dy (wire_log (lg x)) ->
  BC x y dy wxy -> BC y x dx wyx -> WP x wxy -> WP y wyx ->
  XInv x dx (wire_log (lg y)) -> XInv y dy (wire_log (lg x)) ->
  lstep r rq x dx (wire_log (lg y)) l = Some (x', dx') ->
  (forall n, l = SegIn n -> exists w, wyx = n :: w) ->
  BC x' y dy (match l with SendSeg n => wxy ++ [n] | _ => wxy end) /\
  BC y x' dx' (match l with SegIn n => tl wyx | _ => wyx end) /\
  WP x' (match l with SendSeg n => wxy ++ [n] | _ => wxy end) /\
  WP y (match l with SegIn n => tl wyx | _ => wyx end) /\
  XInv x' dx' (wire_log (lg y)) /\ XInv y dy (wire_log (lg x')).
Proof.
  intros IX IY B1 B2 W1 W2 X1 X2 H HS.
  pose proof (EInv_wire _ _ _ _ _ _ _ _ _ IY) as WY.
  destruct (lstep_einv _ _ _ _ Hconf _ _ _ _ _ _ _ _ IX WY H) as (IX' & WL).
  pose proof (lstep_xinv _ _ _ _ Hconf _ _ _ _ _ _ _ _ IX WY X1 H) as X1'.
  destruct (lstep_step _ _ _ _ _ _ _ _ _ _ _ _ H) as (l' & Hs & AL & ED & _ & GD & _ & SI & SS).
  destruct (send_effect _ _ _ _ _ _ _ _ Hs AL) as (SE1 & SE2).
  assert (NF : rph (rc x') <> RFail).
  { destruct IX' as (_ & _ & _ & _ & _ & (_ & HR & _)). intros E. rewrite E in HR. exact HR. }
  pose proof (recv_effect _ _ _ _ _ _ _ _ (EInv_ginv _ _ _ _ _ _ _ _ _ IX) Hs AL NF) as RE.
  rewrite (match_sendseg l l' (fun n => wxy ++ [n]) wxy SS).
  rewrite (match_segin l l' (fun n => tl wyx) wyx SI).
  assert (HS' : forall n, l' = SegIn n -> exists w, wyx = n :: w).
  { intros n E. apply HS. apply SI. exact E. }
  assert (DY : (dy <= length (wire_log (lg x)))%nat) by (destruct IY as (_ & _ & _ & _ & DL & _); exact DL).
  assert (FY : firstn dy (wire_log (lg x')) = firstn dy (wire_log (lg x))).
  { destruct WL as [->|(m & ->)]; [reflexivity|apply firstn_grow; exact DY]. }
  clear HS SI SS H.
  split; [|split; [|split; [|split; [|split]]]].
  - unfold BC in *. rewrite FY, SE1.
    destruct l'; rewrite ?app_nil_r; try exact B1.
    rewrite !sumN_app', sumN_cons, sumN_nil. lia.
  - unfold BC in *. subst dx'.
    destruct l'; try (cbn [tl]; lia).
    + destruct (HS' n eq_refl) as (w & ->). cbn [tl]. rewrite sumN_cons in B2. lia.
    + rewrite (firstn_snoc_sum _ _ _ (GD m eq_refl)). lia.
  - unfold WP in *. destruct X1 as (_ & XS).
    destruct l'; try (destruct W1 as [W1|(Z & rem & E)]; [left; exact W1|right; split; [exact Z|exists rem; apply SE2; exact E]]).
    destruct SE2 as (rem & E1 & E2 & E3). rewrite E1 in XS.
    destruct (N.eq_dec (c_segmax k) 0) as [Z|NZ].
    + right. split; [exact Z|]. rewrite E3. assert (LT : (c_segmax k <? rem) = true) by (apply N.ltb_lt; lia).
      rewrite LT. eexists; reflexivity.
    + destruct W1 as [W1|(Z & _)]; [|contradiction]. left. apply Forall_app. split; [exact W1|].
      constructor; [lia|constructor].
  - unfold WP in *. destruct l'; try exact W2.
    destruct W2 as [W2|W2]; [|right; exact W2]. left.
    destruct wyx as [|a w]; [constructor|]. inversion W2; assumption.
  - exact X1'.
  - destruct WL as [->|(m & ->)]; [exact X2|apply XInv_grow; exact X2].
Qed.

Definition DInv (s : cst) : Prop :=
  BC (ea s) (eb s) (decb s) (wab s) /\ BC (eb s) (ea s) (deca s) (wba s) /\
  WP (ea s) (wab s) /\ WP (eb s) (wba s) /\
  XInv (ea s) (deca s) (wire_log (lg (eb s))) /\ XInv (eb s) (decb s) (wire_log (lg (ea s))).

Lemma DInv_init : DInv cinit.
Proof.
  unfold DInv, BC, WP; cbn. repeat split; auto.
Qed.

Lemma DInv_step s x s' : CInv sm s0 rqa rqb k conv s -> DInv s -> cstep s x = Some s' -> DInv s'.
Proof.
  intros (IA & IB) (B1 & B2 & W1 & W2 & X1 & X2) H. destruct x as [side l]. unfold Compose.cstep in H.
  destruct side.
  - assert (G : forall e' d', lstep RClient rqa (ea s) (deca s) (wire_log (lg (eb s))) l = Some (e', d') ->
              (forall n, l = SegIn n -> exists w, wba s = n :: w) ->
              DInv {| ea := e'; eb := eb s; deca := d'; decb := decb s;
                      wab := match l with SendSeg n => wab s ++ [n] | _ => wab s end;
                      wba := match l with SegIn n => tl (wba s) | _ => wba s end |}).
    { intros e' d' L HS.
      destruct (side_step RClient rqa rqb _ _ _ _ _ _ _ _ _ IA IB B1 B2 W1 W2 X1 X2 L HS) as (A1 & A2 & A3 & A4 & A5 & A6).
      unfold DInv; cbn. exact (conj A1 (conj A2 (conj A3 (conj A4 (conj A5 A6))))). }
    destruct l; try (destruct (lstep RClient rqa (ea s) (deca s) (wire_log (lg (eb s))) _) as [[e' d']|] eqn:L;
                     [|discriminate]; injection H as <-; apply (G _ _ eq_refl); intros; discriminate).
    destruct (wba s) as [|n' w] eqn:EW; [discriminate|]. destruct (N.eqb n n') eqn:EN; [|discriminate].
    apply N.eqb_eq in EN. subst n'.
    destruct (lstep RClient rqa (ea s) (deca s) (wire_log (lg (eb s))) _) as [[e' d']|] eqn:L; [|discriminate].
    injection H as <-. apply (G _ _ eq_refl). intros n0 E. injection E as <-. eexists; reflexivity.
  - assert (G : forall e' d', lstep RServer rqb (eb s) (decb s) (wire_log (lg (ea s))) l = Some (e', d') ->
              (forall n, l = SegIn n -> exists w, wab s = n :: w) ->
              DInv {| ea := ea s; eb := e'; deca := deca s; decb := d';
                      wab := match l with SegIn n => tl (wab s) | _ => wab s end;
                      wba := match l with SendSeg n => wba s ++ [n] | _ => wba s end |}).
    { intros e' d' L HS.
      destruct (side_step RServer rqb rqa _ _ _ _ _ _ _ _ _ IB IA B2 B1 W2 W1 X2 X1 L HS) as (A1 & A2 & A3 & A4 & A5 & A6).
      unfold DInv; cbn. exact (conj A2 (conj A1 (conj A4 (conj A3 (conj A6 A5))))). }
    destruct l; try (destruct (lstep RServer rqb (eb s) (decb s) (wire_log (lg (ea s))) _) as [[e' d']|] eqn:L;
                     [|discriminate]; injection H as <-; apply (G _ _ eq_refl); intros; discriminate).
    destruct (wab s) as [|n' w] eqn:EW; [discriminate|]. destruct (N.eqb n n') eqn:EN; [|discriminate].
    apply N.eqb_eq in EN. subst n'.
    destruct (lstep RServer rqb (eb s) (decb s) (wire_log (lg (ea s))) _) as [[e' d']|] eqn:L; [|discriminate].
    injection H as <-. apply (G _ _ eq_refl). intros n0 E. injection E as <-. eexists; reflexivity.
Qed.

Theorem DInv_run : forall ls s, crun cinit ls = Some s -> CInv sm s0 rqa rqb k conv s /\ DInv s.
Proof.
  assert (G : forall ls s s', CInv sm s0 rqa rqb k conv s /\ DInv s -> crun s ls = Some s' ->
              CInv sm s0 rqa rqb k conv s' /\ DInv s').
  { induction ls as [|x ls IH]; intros s s' I H; cbn in H.
    - injection H as <-. exact I.
    - destruct (cstep s x) as [s1|] eqn:E; [|discriminate]. eapply IH; [|exact H].
      destruct I as (I1 & I2). split; [eapply CInv_step; eauto|eapply DInv_step; eauto]. }
  intros ls s H. eapply G; [|exact H]. split; [apply CInv_init|apply DInv_init].
Qed.

End Composite.
