(* C12 - send side of protocol.Protocol (sendLoop): ordering of what is written
   to the muxer, segment sizes, first-message rejection, behaviour after failure.
   All statements are about the LTS of C11/Engine.v, for every label sequence. *)
From V Require Import Lib.Base C11.Engine.
Local Open Scope N_scope.
Section C12.
Variable sm : statemap. Variable r : role. Variable s0 : N. Variable rqcap : N. Variable k : consts.
Notation step := (step sm r s0 rqcap k).
Notation run := (run sm r s0 rqcap k).
Notation init := (init sm r s0).

(* ------------------------------------------------------------------ tactics *)
Ltac unf H :=
  unfold Engine.step, do_enq, do_enq_over, do_take_send, do_send_queued, do_send_deq,
    do_batch_end, do_send_seg, do_seg_in, do_dec_incomplete, do_dec_bad, do_dec_empty,
    do_dec_msg, do_admit, do_put, do_take_recv, do_handle, do_handler_call, do_handler_ret,
    do_send_error, do_exit in H;
  unfold with_c, with_sn, with_rc, with_fl, with_lg, set_sph, set_rph, set_lph,
    add_t, add_wire, add_strans, add_rej, add_enq, add_seg, add_h, add_p in H;
  cbn [c sn rc fl lg sendq pendS sph queued rbuf rph recvq pendR sizes lph
       enq_log wire_log rej_log seg_log strans_log tlog hlog plog] in H.

Ltac crush H :=
  repeat match type of H with
  | context [match ?x with _ => _ end] => destruct x eqn:?; try discriminate
  end;
  try (inversion H; subst; clear H).

Ltac dst s :=
  destruct s as [[cur_ st_ rt_ sh_ rh_] [sendq_ pendS_ sph_ queued_]
                 [rbuf_ rph_ recvq_ pendR_ sizes_ lph_] [err_ stopped_ muxdone_]
                 [enq_ wire_ rej_ segs_ strans_ tl_ hl_ pl_]].

(* every case of one step, with the pre state destructed and the post state
   substituted; the goal and the remaining hypotheses are simplified *)
Ltac cases s l H :=
  dst s; destruct l; unf H; crush H; cbn in *.

(* -------------------------------------------------------------- list lemmas *)
Lemma sumN_app : forall a b, sumN (a ++ b) = sumN a + sumN b.
Proof. unfold sumN. induction a; intros; cbn [fold_right app]; [reflexivity|]. rewrite IHa. lia. Qed.
Lemma lens_app : forall a b, lens (a ++ b) = lens a ++ lens b.
Proof. intros. unfold lens. apply map_app. Qed.

Lemma run_ind_inv (P : st -> Prop) :
  P init -> (forall s l s', P s -> step s l = Some s' -> P s') ->
  forall ls s, run init ls = Some s -> P s.
Proof.
  intros H0 HS.
  assert (G : forall ls a s, P a -> run a ls = Some s -> P s).
  { induction ls as [|l ls IH]; intros a s Pa H; cbn in H.
    - inversion H; subst; exact Pa.
    - destruct (step a l) eqn:E; [|discriminate]. eapply IH; [|exact H]. eapply HS; eauto. }
  intros ls s H. eapply G; eauto.
Qed.

(* ------------------------------------------------------------- 1. order_inv *)
Definition order_I (s : st) : Prop :=
  wire_log (lg s) ++ rej_log (lg s) ++ sendq (sn s) = enq_log (lg s) /\
  (rej_log (lg s) = [] \/ (salive (sph (sn s)) = false /\ length (rej_log (lg s)) = 1%nat)).

Lemma order_step : forall s l s', order_I s -> step s l = Some s' -> order_I s'.
Proof.
  intros s l s' [I1 I2] H. unfold order_I in *.
  cases s l H.
  all: try (split; assumption).
  all: destruct I2 as [-> | [E L]]; [| try discriminate E]; cbn in *; subst;
       split; rewrite <- ?app_assoc; cbn; auto.
Qed.

Lemma order_strong : forall ls s, run init ls = Some s -> order_I s.
Proof.
  apply run_ind_inv; [| exact order_step]. unfold order_I; cbn. auto.
Qed.

Theorem order_inv : forall ls s, run init ls = Some s ->
  wire_log (lg s) ++ rej_log (lg s) ++ sendq (sn s) = enq_log (lg s) /\
  (length (rej_log (lg s)) <= 1)%nat /\
  (rej_log (lg s) <> [] -> salive (sph (sn s)) = false).
Proof.
  intros ls s H. destruct (order_strong ls s H) as [I1 [E | [A L]]].
  - split; [exact I1|]. rewrite E. cbn. split; [lia | intros C; elim C; reflexivity].
  - split; [exact I1|]. split; [lia | intros _; exact A].
Qed.

(* ------------------------------------------------------- 2. trans_order_inv *)
Definition trans_I (s : st) : Prop := strans_log (lg s) ++ queued (sn s) = wire_log (lg s).

Lemma trans_step : forall s l s', trans_I s -> step s l = Some s' -> trans_I s'.
Proof.
  intros s l s' I H. unfold trans_I in *.
  cases s l H.
  all: try assumption.
  all: subst; rewrite <- ?app_assoc; cbn; auto.
Qed.

Theorem trans_order_inv : forall ls s, run init ls = Some s ->
  strans_log (lg s) ++ queued (sn s) = wire_log (lg s).
Proof.
  apply (run_ind_inv trans_I); [| exact trans_step]. reflexivity.
Qed.

(* --------------------------------------------------------------- 3. seg_inv *)
Definition seg_I (s : st) : Prop :=
  Forall (fun n => n <= c_segmax k) (seg_log (lg s)) /\
  sumN (seg_log (lg s)) + inflight (sph (sn s)) <= sumN (lens (wire_log (lg s))) /\
  (salive (sph (sn s)) = true ->
   sumN (seg_log (lg s)) + inflight (sph (sn s)) = sumN (lens (wire_log (lg s)))).

Lemma seg_step : forall s l s', seg_I s -> step s l = Some s' -> seg_I s'.
Proof.
  intros s l s' (F & Lq & Eq) H. unfold seg_I in *.
  cases s l H.
  all: try (split; [|split]; assumption).
  all: try specialize (Eq eq_refl).
  all: rewrite ?lens_app, ?sumN_app; unfold sumN, lens in *; cbn [map fold_right].
  all: split;
       [ first [assumption | apply Forall_app; split; [assumption | constructor; [lia | constructor]]]
       | split; [| intros C; try discriminate C]; lia ].
Qed.

Theorem seg_inv : forall ls s, run init ls = Some s ->
  Forall (fun n => n <= c_segmax k) (seg_log (lg s)) /\
  sumN (seg_log (lg s)) + inflight (sph (sn s)) <= sumN (lens (wire_log (lg s))) /\
  (salive (sph (sn s)) = true ->
   sumN (seg_log (lg s)) + inflight (sph (sn s)) = sumN (lens (wire_log (lg s)))).
Proof.
  apply (run_ind_inv seg_I); [| exact seg_step].
  unfold seg_I; cbn. split; [constructor | split; [lia | reflexivity]].
Qed.

(* -------------------------------------------------------- 4. first_rejected *)
Theorem first_rejected : forall s m q,
  sph (sn s) = SHeld -> queued (sn s) = [] -> sendq (sn s) = m :: q ->
  next sm (cur (c s)) m = None ->
  exists s', step s SendDeq = Some s' /\ sph (sn s') = SFail /\
    wire_log (lg s') = wire_log (lg s) /\ seg_log (lg s') = seg_log (lg s) /\
    tlog (lg s') = tlog (lg s) /\ c s' = c s /\
    rej_log (lg s') = rej_log (lg s) ++ [m].
Proof.
  intros s m q Hp Hq Hs Hn. dst s. cbn in Hp, Hq, Hs, Hn. subst.
  eexists. split.
  - unfold Engine.step, do_send_deq. cbn. rewrite Hn. reflexivity.
  - cbn. repeat split; reflexivity.
Qed.

(* ------------------------------------------------------ 5. sfail_only_error *)
Theorem sfail_only_error : forall s l s', sph (sn s) = SFail -> step s l = Some s' ->
  sph (sn s') = SFail \/
  (l = SendError GSend false \/ l = SendError GSend true) /\ sph (sn s') = SDead.
Proof.
  intros s l s' Hp H. dst s. cbn in Hp. subst.
  destruct l; unf H; crush H; cbn.
  all: try (left; reflexivity).
  all: right; split; [| reflexivity].
  all: match goal with |- context [SendError GSend ?f] => destruct f end; auto.
Qed.

Theorem sfail_reports : forall s s', sph (sn s) = SFail -> stopped (fl s) = false ->
  step s (SendError GSend false) = Some s' -> err (fl s') = true /\ stopped (fl s') = true.
Proof.
  intros s s' Hp Hs H. dst s. cbn in Hp, Hs. subst.
  unf H. unfold send_error in H. cbn in H. inversion H; subst; clear H. cbn. auto.
Qed.

(* ------------------------------------------------------ 6. dead_send_frozen *)
Lemma dead_step : forall s l s', salive (sph (sn s)) = false -> step s l = Some s' ->
  salive (sph (sn s')) = false /\ wire_log (lg s') = wire_log (lg s) /\
  seg_log (lg s') = seg_log (lg s) /\ strans_log (lg s') = strans_log (lg s).
Proof.
  intros s l s' Hd H.
  cases s l H.
  all: try discriminate Hd.
  all: repeat split; auto.
Qed.

Theorem dead_send_frozen : forall ls s s', salive (sph (sn s)) = false -> run s ls = Some s' ->
  salive (sph (sn s')) = false /\ wire_log (lg s') = wire_log (lg s) /\
  seg_log (lg s') = seg_log (lg s) /\ strans_log (lg s') = strans_log (lg s).
Proof.
  induction ls as [|l ls IH]; intros s s' Hd H; cbn in H.
  - inversion H; subst. auto.
  - destruct (step s l) as [s1|] eqn:E; [|discriminate].
    destruct (dead_step s l s1 Hd E) as (A1 & W1 & G1 & T1).
    destruct (IH s1 s' A1 H) as (A2 & W2 & G2 & T2).
    rewrite W2, G2, T2. auto.
Qed.

(* ------------------------------------------------------ 7. batch_bounds_inv *)
Definition batch_I (s : st) : Prop :=
  match sph (sn s) with
  | SBatch cnt pay => 1 <= cnt /\ cnt <= N.max 1 (c_maxmsgs k)
  | _ => True
  end.

Lemma batch_step : forall s l s', batch_I s -> step s l = Some s' -> batch_I s'.
Proof.
  intros s l s' I H. unfold batch_I in *.
  cases s l H.
  all: try assumption.
  all: try exact Logic.I.
  all: lia.
Qed.

Theorem batch_bounds_inv : forall ls s, run init ls = Some s ->
  match sph (sn s) with
  | SBatch cnt pay => 1 <= cnt /\ cnt <= N.max 1 (c_maxmsgs k)
  | _ => True
  end.
Proof.
  apply (run_ind_inv batch_I); [| exact batch_step]. exact Logic.I.
Qed.

End C12.

Print Assumptions order_inv.
Print Assumptions trans_order_inv.
Print Assumptions seg_inv.
Print Assumptions first_rejected.
Print Assumptions sfail_only_error.
Print Assumptions sfail_reports.
Print Assumptions dead_send_frozen.
Print Assumptions batch_bounds_inv.
