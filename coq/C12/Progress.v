(* C12 - PROGRESS of the composition of two engines on a conforming
   conversation: a composed state in which no label is enabled (for either
   endpoint or the wires), reached by any schedule, in which the two callers
   have enqueued their whole projections, has COMPLETED the conversation.
   Uses the invariants of ProgressInv.v; Engine.v / Compose.v unchanged. *)
From V Require Import Lib.Base C11.Engine C11.EngineProofs C12.Proofs C12.Compose C12.ComposeProofs C12.ProgressInv.
Local Open Scope N_scope.
Local Arguments sumN : simpl never.
Local Arguments lens : simpl never.

(* ------------------------------------------------------------ list lemmas *)
Lemma sum_split : forall (pw : list msg) dec m, nth_error pw dec = Some m ->
  sumN (lens (firstn dec pw)) + m_len m <= sumN (lens pw).
Proof.
  induction pw as [|x pw IH]; intros dec m H; destruct dec; cbn in H; try discriminate.
  - injection H as ->. cbn [firstn]. rewrite lens_nil, sumN_nil, lens_cons, sumN_cons. lia.
  - cbn [firstn]. rewrite !lens_cons, !sumN_cons. specialize (IH _ _ H). lia.
Qed.

Lemma sum_full (pw : list msg) dec :
  (forall m, In m pw -> 0 < m_len m) -> (dec <= length pw)%nat ->
  sumN (lens pw) = sumN (lens (firstn dec pw)) -> dec = length pw.
Proof.
  intros POS LE E. destruct (nth_error pw dec) as [m|] eqn:NE.
  - pose proof (sum_split _ _ _ NE) as S1. pose proof (POS m (nth_error_In _ _ NE)). lia.
  - apply nth_error_None in NE. lia.
Qed.

Lemma ours_or_theirs r a : a <> ANone -> ours r a = false -> theirs r a = true.
Proof. destruct r, a; cbn; congruence. Qed.
Lemma theirs_both a : theirs RClient a = true -> theirs RServer a = true -> False.
Proof. destruct a; cbn; congruence. Qed.

Section Progress.
Variable sm : statemap.
Variable s0 : N.
Variable rqa rqb : N.
Variable k : consts.
Variable conv : list msg.
Hypothesis Hconf : conforming sm s0 k conv.
Notation cpath := (cpath sm).
Notation cend := (cend sm).
Notation projR := (projR sm).
Notation lstep := (lstep sm s0 k conv).
Notation EInv := (EInv sm s0 k conv).
Notation cstep := (cstep sm s0 rqa rqb k conv).
Notation crun := (crun sm s0 rqa rqb k conv).
Notation cinit := (cinit sm s0).

(* ---- the conversation at position p -------------------------------------- *)
Lemma skipn_cons_lt {A} : forall p (l : list A), (p < length l)%nat -> exists m t, skipn p l = m :: t.
Proof.
  induction p as [|p IH]; intros l H; destruct l as [|x l]; cbn in H; try lia.
  - exists x, l. reflexivity.
  - cbn. apply IH. lia.
Qed.

Lemma at_pos c0 p : cpath s0 c0 -> (p < length c0)%nat ->
  agency_of sm (cend s0 (firstn p c0)) <> ANone /\
  forall r, ours r (agency_of sm (cend s0 (firstn p c0))) = true ->
    exists m rest, projR r s0 c0 = projR r s0 (firstn p c0) ++ m :: rest.
Proof.
  intros HC LT. destruct (skipn_cons_lt p c0 LT) as (m & t & SK).
  pose proof HC as HC'. rewrite <- (firstn_skipn p c0) in HC'. apply cpath_app in HC'. destruct HC' as (C1 & C2).
  rewrite SK in C2. cbn in C2. destruct C2 as (q' & N1 & A1 & C2).
  split; [exact A1|]. intros r HO.
  assert (E : projR r s0 c0 = projR r s0 (firstn p c0) ++ projR r (cend s0 (firstn p c0)) (skipn p c0)).
  { rewrite <- (projR_app sm r _ _ _ C1). rewrite firstn_skipn. reflexivity. }
  rewrite E, SK. cbn [Compose.projR].
  rewrite N1, HO. cbn [app]. eexists; eexists; reflexivity.
Qed.

Lemma projR_len_strict r p p' : cpath s0 conv -> (p < p')%nat -> (p' <= length conv)%nat ->
  ours r (agency_of sm (cend s0 (firstn p conv))) = true ->
  (length (projR r s0 (firstn p conv)) < length (projR r s0 (firstn p' conv)))%nat.
Proof.
  intros HC LT LE HO.
  assert (HC' : cpath s0 (firstn p' conv)).
  { rewrite <- (firstn_skipn p' conv) in HC. apply cpath_app in HC. exact (proj1 HC). }
  assert (F : firstn p (firstn p' conv) = firstn p conv).
  { rewrite firstn_firstn. f_equal. lia. }
  assert (L : (p < length (firstn p' conv))%nat) by (rewrite firstn_length; lia).
  destruct (at_pos _ p HC' L) as (_ & G). rewrite F in G. destruct (G r HO) as (m & rest & E).
  rewrite E, app_length. cbn. lia.
Qed.

(* ---- one endpoint without an enabled label -------------------------------- *)
Definition lquiet r rq e dec pw (win : list N) : Prop :=
  (forall l, (forall n, l <> SegIn n) -> lstep r rq e dec pw l = None) /\
  (forall n w, win = n :: w -> lstep r rq e dec pw (SegIn n) = None).

Ltac fire Q l X :=
  pose proof (Q l ltac:(intros; discriminate)) as X; cbn in X; unf_step X; cbn in X.

Lemma ep_quiet r rq e dec pw win :
  EInv r rq e dec pw -> prefix pw (projR (other r) s0 conv) -> XInv e dec pw ->
  lquiet r rq e dec pw win -> (enq_log (lg e) = projR r s0 conv \/ 0 < c_sendqcap k) ->
  Forall (fun n => 0 < n) win ->
  (0 < rbuf (rc e) -> rmsgs (rph (rc e)) = [] -> (dec < length pw)%nat) ->
  exists p, map tmsg (tlog (lg e)) = firstn p conv /\ (p <= length conv)%nat /\
    inflight (sph (sn e)) = 0 /\ accepted_pending (lph (rc e)) = [] /\
    ((p < length conv)%nat ->
       theirs r (agency_of sm (cend s0 (firstn p conv))) = true /\
       recvq (rc e) = [] /\ rmsgs (rph (rc e)) = [] /\ win = [] /\
       (rbuf (rc e) = 0 \/ exists m', nth_error pw dec = Some m' /\ rbuf (rc e) < m_len m')).
Proof.
  intros ((ls & R) & (p & TP & PL) & C & D & DL & H) PW (XA & XB) (Q1 & Q2) HE FW HD.
  destruct (path_inv sm r s0 rq k ls e R) as (TI & PA & PE & PR & PS).
  destruct (order_inv sm r s0 rq k ls e R) as (O & _ & OR).
  pose proof (trans_order_inv sm r s0 rq k ls e R) as T.
  destruct (path_msgs sm r _ _ PA) as (M1 & M2 & M3 & M4).
  destruct (ginv_run sm r s0 rq k ls e R) as (G1 & G2 & G3 & G4 & G5 & G6 & G7).
  destruct Hconf as (HC & HS).
  destruct TI as (T1 & T2 & T3 & T4 & T5).
  destruct H as (H1 & H2 & H3 & H4 & H5 & H6).
  assert (CUR : cur (c e) = cend s0 (firstn p conv)) by (rewrite <- PE, <- M2, TP; reflexivity).
  exists p. split; [exact TP|]. split; [exact PL|].
  clear R. destr_st e. unfold ntokens in *. cbn in *. subst err stopped muxdone.
  assert (RJ : rej = []).
  { destruct rej; [reflexivity|]. assert (X : m :: rej <> []) by discriminate. specialize (OR X). congruence. }
  subst rej. cbn in O.
  assert (A1 : (sph = SWait /\ st = false) \/ (sph = SHeld /\ queued = [] /\ sendq = [])).
  { destruct sph; try discriminate H1.
    - left. split; [reflexivity|]. destruct st; [|reflexivity]. fire Q1 TakeSendToken X. discriminate X.
    - right. split; [reflexivity|].
      destruct queued as [|m q].
      + split; [reflexivity|]. destruct sendq as [|m q]; [reflexivity|].
        fire Q1 SendDeq X. destruct (next sm cur m); discriminate X.
      + fire Q1 SendQueuedTransition X. destruct (next sm cur m); discriminate X.
    - fire Q1 BatchEnd X. discriminate X.
    - fire Q1 (SendSeg (N.min rem (c_segmax k))) X. rewrite N.eqb_refl in X. discriminate X. }
  assert (A2 : (lph = LWaitTok /\ rt = false) \/ (lph = LWaitMsg /\ recvq = [])).
  { destruct lph; try contradiction.
    - left. split; [reflexivity|]. destruct rt; [|reflexivity]. fire Q1 TakeRecvToken X. discriminate X.
    - right. split; [reflexivity|]. destruct recvq as [|m q]; [reflexivity|].
      fire Q1 Handle X. destruct (next sm cur m); discriminate X.
    - fire Q1 HandlerCall X. discriminate X.
    - fire Q1 (HandlerRet HOk) X. destruct sizes; discriminate X. }
  split; [destruct A1 as [(-> & _)|(-> & _)]; reflexivity|].
  split; [destruct A2 as [(-> & _)|(-> & _)]; reflexivity|].
  intros LT.
  destruct (at_pos conv p HC LT) as (NA & NX). rewrite <- CUR in *.
  assert (A3 : ours r (agency_of sm cur) = false).
  { destruct (ours r (agency_of sm cur)) eqn:HO; [exfalso|reflexivity]. rewrite ?HO in T1.
    destruct A1 as [(-> & ->)|(-> & -> & ->)].
    - cbn in T1. subst sh. apply G1. reflexivity.
    - destruct (NX r HO) as (m & rest & E).
      rewrite !app_nil_r in *. rewrite TP in M3.
      destruct HE as [HE|CAP].
      + assert (E2 : projR r s0 conv = projR r s0 (firstn p conv)) by congruence. rewrite E2 in E.
        apply (f_equal (@length msg)) in E. rewrite app_length in E. cbn in E. lia.
      + (* the next message of our projection has not been enqueued: Enq is enabled *)
        assert (E3 : enq = projR r s0 (firstn p conv)) by congruence.
        assert (NTH : nth_error (projR r s0 conv) (length enq) = Some m).
        { rewrite E, E3, nth_error_app2 by lia. rewrite Nat.sub_diag. reflexivity. }
        assert (IN : In m conv).
        { eapply projR_in. rewrite E. apply in_or_app. right. left. reflexivity. }
        destruct (HS m IN) as (_ & _ & LIM).
        pose proof (Q1 (Enq m) ltac:(intros; discriminate)) as X. cbn in X. rewrite NTH in X.
        assert (LR : list_eqb N.eqb (m_guards m) (m_guards m) = true).
        { apply list_eqb_eq; [intros; apply N.eqb_eq|reflexivity]. }
        rewrite !N.eqb_refl, LR in X. cbn in X. unfold do_enq, enq_enabled, over_limit in X. cbn in X.
        rewrite G7 in X. change (sumN (lens [])) with 0 in X.
        assert (Z1 : (0 <? limit_of sm cur) && (limit_of sm cur <? 0 + m_len m) = false).
        { destruct (LIM cur) as [Z|Z]; [rewrite Z; reflexivity|]. apply andb_false_iff. right. apply N.ltb_ge. lia. }
        assert (Z2 : (0 <? c_sendqcap k) = true) by (apply N.ltb_lt; exact CAP).
        rewrite Z1, Z2 in X. destruct lph; try contradiction; cbn in X; discriminate X. }
  pose proof (ours_or_theirs r _ NA A3) as TH.
  split; [exact TH|].
  rewrite TH in T2.
  destruct A2 as [(-> & ->)|(-> & ->)].
  { cbn in T2. subst rh. exfalso. apply G2. reflexivity. }
  split; [reflexivity|].
  destruct rph; try contradiction.
  - (* RWaitSeg *)
    split; [reflexivity|]. split; [|apply XA; reflexivity].
    destruct win as [|n w]; [reflexivity|]. exfalso.
    inversion FW as [|? ? POSn _]; subst.
    pose proof (Q2 n w eq_refl) as X. cbn in X. unf_step X. cbn in X.
    assert (Z : (0 <? n) = true) by (apply N.ltb_lt; exact POSn). rewrite Z in X. discriminate X.
  - (* RDecode *)
    exfalso. specialize (G3 eq_refl). specialize (HD G3 eq_refl).
    destruct (nth_error pw dec) as [m'|] eqn:NE; [|apply nth_error_None in NE; lia].
    assert (IN : In m' conv).
    { eapply projR_in. eapply prefix_in; [exact PW|]. eapply nth_error_In; eauto. }
    destruct (HS m' IN) as (POSm & _).
    destruct (rbuf <? m_len m') eqn:LTb.
    + fire Q1 DecIncomplete X. rewrite NE, LTb in X.
      assert (Z : (0 <? rbuf) = true) by (apply N.ltb_lt; exact G3). rewrite Z in X. discriminate X.
    + fire Q1 (DecMsg m') X. rewrite NE, N.eqb_refl in X.
      assert (Z : (0 <? m_len m') && (m_len m' <=? rbuf) = true).
      { apply andb_true_iff. split; [apply N.ltb_lt; exact POSm|apply N.leb_le; apply N.ltb_ge in LTb; exact LTb]. }
      rewrite Z in X. destruct (_ && _) in X; discriminate X.
  - (* RAdmit *)
    exfalso. destruct G6 as (_ & LM). fire Q1 Admit X.
    assert (PR0 : pendR = 0) by (rewrite G4, G5; reflexivity). rewrite PR0 in X.
    assert (Z : (lim =? 0) || (0 + m_len m <=? lim) = true).
    { destruct LM as [->|LM]; [reflexivity|]. apply orb_true_iff. right. apply N.leb_le. lia. }
    rewrite Z in X. discriminate X.
  - (* RPut *)
    exfalso. fire Q1 Put X.
    assert (Z : (0 <? rq + 1) = true) by (apply N.ltb_lt; lia). rewrite Z in X. discriminate X.
Qed.

(* ---- an endpoint that waits for a message its peer does not send ---------- *)
Lemma EInv_pw_pos r rq e dec pw : EInv r rq e dec pw -> forall m, In m (wire_log (lg e)) -> 0 < m_len m.
Proof.
  intros I m HI. eapply conv_pos; [exact Hconf|]. eapply projR_in. eapply prefix_in; [|exact HI].
  eapply EInv_wire; eauto.
Qed.

(* x (role r, position px < |conv|) waits with an empty queue, an empty wire
   and no complete message buffered; its peer y (position py) has nothing in
   its payload buffer: then everything y wrote has been handled by x, so y has
   not made the transition px, which is y's to send *)
Lemma wait_le r rq rq' x y dx dy px py :
  EInv r rq x dx (wire_log (lg y)) -> EInv (other r) rq' y dy (wire_log (lg x)) ->
  map tmsg (tlog (lg x)) = firstn px conv -> map tmsg (tlog (lg y)) = firstn py conv ->
  (py <= length conv)%nat -> (px < length conv)%nat ->
  BC y x dx [] -> inflight (sph (sn y)) = 0 ->
  theirs r (agency_of sm (cend s0 (firstn px conv))) = true ->
  recvq (rc x) = [] -> rmsgs (rph (rc x)) = [] ->
  (rbuf (rc x) = 0 \/ exists m', nth_error (wire_log (lg y)) dx = Some m' /\ rbuf (rc x) < m_len m') ->
  (py <= px)%nat.
Proof.
  intros IX IY TX TY PLY LTX B IFY TH RQ RM RB.
  pose proof (EInv_pw_pos _ _ _ _ _ IY) as POS.
  destruct IX as ((lsx & RX) & _ & _ & DX & DLX & _).
  destruct IY as ((lsy & RY) & _ & _ & _ & _ & HY).
  destruct (seg_inv sm (other r) s0 rq' k lsy y RY) as (_ & _ & SEG).
  specialize (SEG (proj1 HY)). rewrite IFY in SEG.
  unfold BC in B. rewrite RM, lens_nil, !sumN_nil in B.
  assert (FULL : dx = length (wire_log (lg y))).
  { destruct RB as [Z|(m' & NE & LTm)].
    - apply sum_full; [exact POS|exact DLX|]. lia.
    - pose proof (sum_split _ _ _ NE). lia. }
  destruct (path_inv sm r s0 rq k lsx x RX) as (_ & PAX & _ & _ & _).
  destruct (path_msgs sm r _ _ PAX) as (_ & _ & _ & M4X).
  destruct (path_inv sm (other r) s0 rq' k lsy y RY) as (_ & PAY & _ & _ & PSY).
  destruct (path_msgs sm (other r) _ _ PAY) as (_ & _ & M3Y & _).
  pose proof (trans_order_inv sm (other r) s0 rq' k lsy y RY) as TOY.
  rewrite RQ, RM, !app_nil_r, M4X, TX in DX. rewrite FULL, firstn_all in DX.
  rewrite <- TOY, <- PSY, M3Y, TY in DX.
  destruct (Nat.le_gt_cases py px) as [LE|GT]; [exact LE|exfalso].
  destruct Hconf as (HC & _).
  rewrite <- ours_other in TH.
  pose proof (projR_len_strict (other r) px py HC GT PLY TH) as LS.
  apply (f_equal (@length msg)) in DX. rewrite app_length in DX. lia.
Qed.

(* ---- the composition ------------------------------------------------------ *)
Definition quiescent (s : cst) : Prop := forall x, cstep s x = None.

Lemma quiescent_a s : quiescent s -> lquiet RClient rqa (ea s) (deca s) (wire_log (lg (eb s))) (wba s).
Proof.
  intros Q. split.
  - intros l NS. specialize (Q (true, l)). unfold Compose.cstep in Q.
    destruct (lstep RClient rqa (ea s) (deca s) (wire_log (lg (eb s))) l) as [[e' d']|]; [|reflexivity].
    destruct l; try discriminate Q. exfalso. eapply NS. reflexivity.
  - intros n w E. specialize (Q (true, SegIn n)). unfold Compose.cstep in Q. rewrite E, N.eqb_refl in Q.
    destruct (lstep RClient rqa (ea s) (deca s) (wire_log (lg (eb s))) (SegIn n)) as [[e' d']|]; [discriminate Q|reflexivity].
Qed.
Lemma quiescent_b s : quiescent s -> lquiet RServer rqb (eb s) (decb s) (wire_log (lg (ea s))) (wab s).
Proof.
  intros Q. split.
  - intros l NS. specialize (Q (false, l)). unfold Compose.cstep in Q.
    destruct (lstep RServer rqb (eb s) (decb s) (wire_log (lg (ea s))) l) as [[e' d']|]; [|reflexivity].
    destruct l; try discriminate Q. exfalso. eapply NS. reflexivity.
  - intros n w E. specialize (Q (false, SegIn n)). unfold Compose.cstep in Q. rewrite E, N.eqb_refl in Q.
    destruct (lstep RServer rqb (eb s) (decb s) (wire_log (lg (ea s))) (SegIn n)) as [[e' d']|]; [discriminate Q|reflexivity].
Qed.

(* a quiescent sender is not in its segment loop, so no empty segment is on the wire *)
Lemma wp_forall r rq e dec pw win w : lquiet r rq e dec pw win -> WP k e w -> Forall (fun n => 0 < n) w.
Proof.
  intros (Q1 & _) [F|(_ & rem & E)]; [exact F|exfalso].
  specialize (Q1 (SendSeg (N.min rem (c_segmax k))) ltac:(intros; discriminate)).
  cbn in Q1. unfold do_send_seg in Q1. rewrite E, N.eqb_refl in Q1. discriminate Q1.
Qed.

(* bytes in the read buffer that belong to no decoded message are the
   beginning of a message the peer has written *)
Lemma dec_lt r rq x y dx w lsy :
  run sm (other r) s0 rq k (init sm (other r) s0) lsy = Some y ->
  BC y x dx w -> 0 < rbuf (rc x) -> rmsgs (rph (rc x)) = [] -> (dx < length (wire_log (lg y)))%nat.
Proof.
  intros RY B RB RM. destruct (seg_inv sm (other r) s0 rq k lsy y RY) as (_ & SEG & _).
  unfold BC in B. rewrite RM, lens_nil, sumN_nil in B.
  destruct (Nat.lt_ge_cases dx (length (wire_log (lg y)))) as [LT|GE]; [exact LT|exfalso].
  rewrite firstn_all2 in B by exact GE. lia.
Qed.

Definition completed (s : cst) : Prop :=
  map tmsg (tlog (lg (ea s))) = conv /\ map tmsg (tlog (lg (eb s))) = conv /\
  hmsgs (ea s) = projR RServer s0 conv /\ hmsgs (eb s) = projR RClient s0 conv.

Lemma progress_gen : forall ls s, crun cinit ls = Some s -> quiescent s ->
  (enq_log (lg (ea s)) = projR RClient s0 conv \/ 0 < c_sendqcap k) ->
  (enq_log (lg (eb s)) = projR RServer s0 conv \/ 0 < c_sendqcap k) ->
  completed s.
Proof.
  intros ls s R Q EA EB. unfold completed.
  destruct (DInv_run sm s0 rqa rqb k conv Hconf ls s R) as ((IA & IB) & (B1 & B2 & W1 & W2 & X1 & X2)).
  pose proof (quiescent_a s Q) as QA. pose proof (quiescent_b s Q) as QB.
  pose proof (EInv_wire _ _ _ _ _ _ _ _ _ IA) as WA. pose proof (EInv_wire _ _ _ _ _ _ _ _ _ IB) as WB.
  pose proof (wp_forall _ _ _ _ _ _ _ QB W2) as FA.   (* wba: written by B *)
  pose proof (wp_forall _ _ _ _ _ _ _ QA W1) as FB.   (* wab: written by A *)
  assert (HDA : 0 < rbuf (rc (ea s)) -> rmsgs (rph (rc (ea s))) = [] -> (deca s < length (wire_log (lg (eb s))))%nat).
  { destruct IB as ((lsb & RB) & _). eapply (dec_lt RClient); eauto. }
  assert (HDB : 0 < rbuf (rc (eb s)) -> rmsgs (rph (rc (eb s))) = [] -> (decb s < length (wire_log (lg (ea s))))%nat).
  { destruct IA as ((lsa & RA) & _). eapply (dec_lt RServer); eauto. }
  destruct (ep_quiet RClient rqa _ _ _ _ IA WB X1 QA EA FA HDA) as (pa & TPA & PLA & IFA & APA & WTA).
  destruct (ep_quiet RServer rqb _ _ _ _ IB WA X2 QB EB FB HDB) as (pb & TPB & PLB & IFB & APB & WTB).
  assert (LEA : (pa < length conv)%nat -> (pb <= pa)%nat).
  { intros LT. destruct (WTA LT) as (TH & RQ & RM & WE & RBF). rewrite WE in B2.
    eapply (wait_le RClient rqa rqb (ea s) (eb s)); eauto. }
  assert (LEB : (pb < length conv)%nat -> (pa <= pb)%nat).
  { intros LT. destruct (WTB LT) as (TH & RQ & RM & WE & RBF). rewrite WE in B1.
    eapply (wait_le RServer rqb rqa (eb s) (ea s)); eauto. }
  assert (FIN : pa = length conv /\ pb = length conv).
  { destruct (Nat.lt_ge_cases pa (length conv)) as [LA|GA]; destruct (Nat.lt_ge_cases pb (length conv)) as [LB|GB].
    - exfalso. pose proof (LEA LA). pose proof (LEB LB). assert (pa = pb) by lia. subst pb.
      destruct (WTA LA) as (TH1 & _). destruct (WTB LB) as (TH2 & _). exact (theirs_both _ TH1 TH2).
    - exfalso. pose proof (LEA LA). lia.
    - exfalso. pose proof (LEB LB). lia.
    - lia. }
  destruct FIN as (-> & ->). rewrite firstn_all in TPA, TPB.
  destruct (EInv_logs sm s0 k conv Hconf _ _ _ _ _ IA) as (_ & _ & _ & _ & A5).
  destruct (EInv_logs sm s0 k conv Hconf _ _ _ _ _ IB) as (_ & _ & _ & _ & B5).
  assert (LA : length (tlog (lg (ea s))) = length conv) by (rewrite <- (map_length tmsg), TPA; reflexivity).
  assert (LB : length (tlog (lg (eb s))) = length conv) by (rewrite <- (map_length tmsg), TPB; reflexivity).
  split; [exact TPA|]. split; [exact TPB|].
  split; [exact (proj1 (A5 LA APA))|exact (proj1 (B5 LB APB))].
Qed.

(* PROGRESS, as asked: the callers have enqueued their whole projections and
   no label of the composition (either endpoint, either wire) is enabled *)
Theorem progress : forall ls s, crun cinit ls = Some s -> quiescent s ->
  enq_log (lg (ea s)) = projR RClient s0 conv -> enq_log (lg (eb s)) = projR RServer s0 conv ->
  completed s.
Proof. intros ls s R Q EA EB. eapply progress_gen; eauto. Qed.

(* DEADLOCK FREEDOM: Enq is a label of the composition (the caller enqueues the
   next message of its projection as soon as the engine admits it), so with a
   send queue of capacity > 0 quiescence alone implies completion: the callers
   are never blocked for ever either *)
Theorem progress_strong : forall ls s, crun cinit ls = Some s -> quiescent s ->
  0 < c_sendqcap k -> completed s.
Proof. intros ls s R Q CAP. eapply progress_gen; eauto. Qed.

End Progress.
