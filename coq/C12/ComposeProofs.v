(* C12 - the composition of two engines on a conforming conversation never
   fails: proofs.  Uses Engine.v / EngineProofs.v / C12/Proofs.v unchanged. *)
From V Require Import Lib.Base C11.Engine C11.EngineProofs C12.Proofs C12.Compose.
Local Open Scope N_scope.

Section ComposeProofs.
Variable sm : statemap.
Variable s0 : N.
Variable rqa rqb : N.
Variable k : consts.
Variable conv : list msg.
Hypothesis Hconf : conforming sm s0 k conv.

Notation cpath := (cpath sm).
Notation cend := (cend sm).
Notation projR := (projR sm).

(* ------------------------------------------------------------ list lemmas *)
Lemma ours_other r a : ours (other r) a = theirs r a.
Proof. destruct r, a; reflexivity. Qed.
Lemma ours_theirs_false r a : ours r a = true -> theirs r a = false.
Proof. destruct r, a; cbn; congruence. Qed.
Lemma theirs_ours_false r a : theirs r a = true -> ours r a = false.
Proof. destruct r, a; cbn; congruence. Qed.

Lemma cpath_app : forall l1 l2 q, cpath q (l1 ++ l2) -> cpath q l1 /\ cpath (cend q l1) l2.
Proof.
  induction l1 as [|m l1 IH]; intros l2 q H; cbn in *; [auto|].
  destruct H as (q' & N1 & A1 & H). rewrite N1. destruct (IH _ _ H) as (P1 & P2).
  split; [exists q'; auto|exact P2].
Qed.
Lemma projR_app r : forall l1 l2 q, cpath q l1 -> projR r q (l1 ++ l2) = projR r q l1 ++ projR r (cend q l1) l2.
Proof.
  induction l1 as [|m l1 IH]; intros l2 q H; cbn in *; [reflexivity|].
  destruct H as (q' & N1 & A1 & H). rewrite N1. rewrite (IH _ _ H). rewrite app_assoc. reflexivity.
Qed.
Lemma projR_in r : forall l q m, In m (projR r q l) -> In m l.
Proof.
  induction l as [|x l IH]; intros q m H; cbn in *; [exact H|].
  destruct (next sm q x) as [q'|]; [|destruct H].
  apply in_app_or in H. destruct H as [H|H].
  - destruct (ours r (agency_of sm q)); [destruct H as [->|[]]; left; reflexivity|destruct H].
  - right. eapply IH; eauto.
Qed.

Lemma prefix_refl {A} (a : list A) : prefix a a.
Proof. exists []. rewrite app_nil_r. reflexivity. Qed.
Lemma prefix_trans {A} (a b c : list A) : prefix a b -> prefix b c -> prefix a c.
Proof. intros (t & ->) (u & ->). exists (t ++ u). rewrite app_assoc. reflexivity. Qed.
Lemma prefix_app_l {A} (a b : list A) : prefix a (a ++ b).
Proof. exists b. reflexivity. Qed.
Lemma prefix_in {A} (a b : list A) x : prefix a b -> In x a -> In x b.
Proof. intros (t & ->) H. apply in_or_app. left. exact H. Qed.
Lemma firstn_prefix {A} n (l : list A) : prefix (firstn n l) l.
Proof. exists (skipn n l). symmetry. apply firstn_skipn. Qed.

(* the message at position p of the conversation is the next message of the
   projection of the side that has agency there *)
Lemma head_lemma r p m rest :
  cpath s0 conv ->
  prefix (projR r s0 (firstn p conv) ++ m :: rest) (projR r s0 conv) ->
  ours r (agency_of sm (cend s0 (firstn p conv))) = true ->
  exists q' tl, skipn p conv = m :: tl /\ next sm (cend s0 (firstn p conv)) m = Some q'.
Proof.
  intros HC (t & HP) HO.
  rewrite <- (firstn_skipn p conv) in HC. apply cpath_app in HC. destruct HC as (C1 & C2).
  rewrite <- (firstn_skipn p conv) in HP at 1. rewrite (projR_app r _ _ _ C1) in HP.
  rewrite <- app_assoc in HP. apply app_inv_head in HP.
  destruct (skipn p conv) as [|x tl] eqn:E; cbn in HP; [discriminate|].
  cbn in C2. destruct C2 as (q' & N1 & A1 & C2). rewrite N1 in HP. rewrite HO in HP. cbn in HP.
  injection HP as -> _. exists q', tl. auto.
Qed.

Lemma firstn_snoc {A} : forall p (l : list A) m tl, skipn p l = m :: tl ->
  firstn (S p) l = firstn p l ++ [m] /\ (S p <= length l)%nat.
Proof.
  induction p as [|p IH]; intros l m tl H.
  - cbn in H. subst. cbn. split; [reflexivity|lia].
  - destruct l as [|x l]; cbn in H; [discriminate|].
    destruct (IH _ _ _ H) as (E & L). split.
    + change (firstn (S (S p)) (x :: l)) with (x :: firstn (S p) l). rewrite E. reflexivity.
    + cbn. lia.
Qed.

(* ------------------------------------------ the engine's transition log *)
Lemma recv_msgs_cons e tl : recv_msgs (e :: tl) = recv_msgs [e] ++ recv_msgs tl.
Proof. change (e :: tl) with ([e] ++ tl). apply recv_msgs_app. Qed.
Lemma send_msgs_cons e tl : send_msgs (e :: tl) = send_msgs [e] ++ send_msgs tl.
Proof. change (e :: tl) with ([e] ++ tl). apply send_msgs_app. Qed.

Lemma path_msgs r : forall tl q, path sm r q tl ->
  cpath q (map tmsg tl) /\ cend q (map tmsg tl) = path_end q tl /\
  send_msgs tl = projR r q (map tmsg tl) /\
  map snd (recv_msgs tl) = projR (other r) q (map tmsg tl).
Proof.
  induction tl as [|[[[w a] m] b] tl IH]; intros q H; cbn in H.
  - cbn. repeat split; reflexivity.
  - destruct H as (-> & N1 & A1 & H). destruct (IH _ H) as (P1 & P2 & P3 & P4).
    cbn [map tmsg fst snd Compose.cpath Compose.cend Compose.projR path_end]. rewrite N1.
    assert (NA : agency_of sm q <> ANone).
    { destruct w; destruct r, (agency_of sm q); cbn in A1; congruence. }
    split; [exists b; auto|]. split; [exact P2|].
    rewrite send_msgs_cons, recv_msgs_cons, map_app, P3, P4, ours_other.
    destruct w.
    + rewrite (theirs_ours_false _ _ A1), A1. split; reflexivity.
    + rewrite A1, (ours_theirs_false _ _ A1). split; reflexivity.
Qed.

(* ---------------------------------------------- one endpoint's invariant *)
Definition rmsgs (p : rphase) : list msg :=
  match p with RAdmit m _ => [m] | RPut m => [m] | _ => [] end.

Definition EInv (r : role) (rq : N) (e : st) (dec : nat) (pw : list msg) : Prop :=
  (exists ls, run sm r s0 rq k (init sm r s0) ls = Some e) /\
  (exists p, map tmsg (tlog (lg e)) = firstn p conv /\ (p <= length conv)%nat) /\
  prefix (enq_log (lg e)) (projR r s0 conv) /\
  firstn dec pw = map snd (recv_msgs (tlog (lg e))) ++ recvq (rc e) ++ rmsgs (rph (rc e)) /\
  (dec <= length pw)%nat /\
  healthy e.

Lemma EInv_init r rq pw : EInv r rq (init sm r s0) 0 pw.
Proof.
  split; [exists []; reflexivity|]. split; [exists 0%nat; cbn; split; [reflexivity|lia]|].
  split; [exists (projR r s0 conv); reflexivity|]. split; [reflexivity|]. split; [cbn; lia|].
  cbn. repeat split; auto.
Qed.

Lemma EInv_grow r rq e dec pw m : EInv r rq e dec pw -> EInv r rq e dec (pw ++ [m]).
Proof.
  intros (A & B & C & D & E & F).
  split; [exact A|]. split; [exact B|]. split; [exact C|]. split; [|split; [|exact F]].
  - rewrite firstn_app. replace (dec - length pw)%nat with 0%nat by lia. cbn. rewrite app_nil_r. exact D.
  - rewrite app_length. cbn. lia.
Qed.

(* what the endpoint has written is a prefix of its projection *)
Lemma EInv_wire r rq e dec pw : EInv r rq e dec pw -> prefix (wire_log (lg e)) (projR r s0 conv).
Proof.
  intros ((ls & R) & _ & C & _ & _ & H).
  destruct (order_inv sm r s0 rq k ls e R) as (O & _ & _).
  eapply prefix_trans; [|exact C]. rewrite <- O. apply prefix_app_l.
Qed.


Definition allowed (l : label) : bool :=
  match l with
  | DecBad | DecEmpty | Timeout _ | MuxDone | Stop | Exit _ | EnqOver _ _
  | HandlerRet HErr | HandlerRet HShut => false
  | _ => true
  end.

Lemma nth_error_snoc {A} : forall (l : list A) n x, nth_error l n = Some x -> firstn (S n) l = firstn n l ++ [x] /\ (S n <= length l)%nat.
Proof.
  induction l as [|y l IH]; intros n x H; destruct n; cbn in *; try discriminate.
  - injection H as ->. split; [reflexivity|lia].
  - destruct (IH _ _ H) as (E & L). split; [f_equal; exact E|lia].
Qed.

Ltac hsplit := unfold healthy; cbn; repeat split; auto; try discriminate.

Lemma step_inv r rq e dec pw l e' :
  EInv r rq e dec pw -> prefix pw (projR (other r) s0 conv) -> allowed l = true ->
  (forall m, l = Enq m -> nth_error (projR r s0 conv) (length (enq_log (lg e))) = Some m) ->
  (forall m, l = DecMsg m -> nth_error pw dec = Some m) ->
  (l = DecIncomplete -> exists m, nth_error pw dec = Some m /\ rbuf (rc e) < m_len m) ->
  step sm r s0 rq k e l = Some e' ->
  EInv r rq e' (match l with DecMsg _ => S dec | _ => dec end) pw /\
  (wire_log (lg e') = wire_log (lg e) \/ exists m, wire_log (lg e') = wire_log (lg e) ++ [m]).
Proof.
  intros ((ls & R) & (p & TP & PL) & C & D & DL & H) PW AL GE GD GI Hs.
  assert (R' : exists ls', run sm r s0 rq k (init sm r s0) ls' = Some e').
  { exists (ls ++ [l]). rewrite run_app, R. cbn. rewrite Hs. reflexivity. }
  destruct (path_inv sm r s0 rq k ls e R) as (TI & PA & PE & PR & PS).
  destruct (order_inv sm r s0 rq k ls e R) as (O & _ & OR).
  pose proof (trans_order_inv sm r s0 rq k ls e R) as T.
  destruct (path_msgs r _ _ PA) as (M1 & M2 & M3 & M4).
  destruct Hconf as (HC & HS).
  destruct TI as (T1 & T2 & T3 & T4 & T5).
  destruct H as (H1 & H2 & H3 & H4 & H5 & H6).
  unfold EInv. destr_st e. cbn in *. subst err stopped muxdone.
  destruct l; try discriminate AL; cbn in Hs.
  - (* Enq *)
    unfold do_enq in Hs; cbn in Hs. crush Hs.
    split; [|left; reflexivity].
    split; [exact R'|]. split; [exists p; auto|]. split; [|split; [exact D|split; [exact DL|hsplit]]].
    specialize (GE m eq_refl). destruct C as (t & C).
    rewrite C in GE. rewrite nth_error_app2 in GE by lia. rewrite Nat.sub_diag in GE.
    destruct t as [|x t]; cbn in GE; [discriminate|]. injection GE as ->.
    exists t. rewrite C. rewrite <- !app_assoc. cbn. reflexivity.
  - (* TakeSendToken *)
    unfold do_take_send in Hs; cbn in Hs. crush Hs.
    split; [|left; reflexivity].
    split; [exact R'|]. split; [exists p; auto|]. split; [exact C|split; [exact D|split; [exact DL|hsplit]]].
  - (* SendQueuedTransition *)
    unfold do_send_queued in Hs; cbn in Hs.
    destruct sph; try discriminate. destruct queued as [|m qd]; [discriminate|].
    specialize (T4 eq_refl). subst sh.
    assert (HO : ours r (agency_of sm cur) = true) by (rewrite <- T1; apply orb_true_r).
    assert (RJ : rej = []). { destruct rej; [reflexivity|]. assert (X : m0 :: rej <> []) by discriminate. specialize (OR X). discriminate. }
    subst rej. cbn in O.
    assert (HP : prefix (projR r s0 (firstn p conv) ++ m :: qd ++ sendq) (projR r s0 conv)).
    { rewrite <- TP, <- M3, PS. eapply prefix_trans; [|exact C]. rewrite <- O, <- T. rewrite <- app_assoc. apply prefix_refl. }
    rewrite <- PE, <- M2, TP in HO.
    destruct (head_lemma r p m _ HC HP HO) as (q' & tl' & SK & NX).
    rewrite <- TP, M2, PE in NX. rewrite NX in Hs. inversion Hs; subst; clear Hs. cbn in *.
    destruct (firstn_snoc _ _ _ _ SK) as (F1 & F2).
    split; [|left; reflexivity].
    split; [exact R'|]. split; [exists (S p); rewrite map_app, TP, F1; cbn; auto|].
    split; [exact C|]. split; [rewrite recv_snoc_s; exact D|split; [exact DL|hsplit]].
  - (* SendDeq *)
    unfold do_send_deq in Hs; cbn in Hs.
    destruct sendq as [|m sq]; [discriminate|].
    assert (RJ : rej = []). { destruct rej; [reflexivity|]. assert (X : m0 :: rej <> []) by discriminate. specialize (OR X). rewrite H1 in OR. discriminate. }
    subst rej. cbn in O.
    destruct sph; try discriminate.
    + destruct queued; [|discriminate].
      specialize (T4 eq_refl). subst sh.
      assert (HO : ours r (agency_of sm cur) = true) by (rewrite <- T1; apply orb_true_r).
      assert (HP : prefix (projR r s0 (firstn p conv) ++ m :: sq) (projR r s0 conv)).
      { rewrite <- TP, <- M3, PS. eapply prefix_trans; [|exact C]. rewrite <- O, <- T. rewrite app_nil_r. apply prefix_refl. }
      rewrite <- PE, <- M2, TP in HO.
      destruct (head_lemma r p m _ HC HP HO) as (q' & tl' & SK & NX).
      rewrite <- TP, M2, PE in NX. rewrite NX in Hs. inversion Hs; subst; clear Hs. cbn in *.
      destruct (firstn_snoc _ _ _ _ SK) as (F1 & F2).
      split; [|right; eexists; reflexivity].
      split; [exact R'|]. split; [exists (S p); rewrite map_app, TP, F1; cbn; auto|].
      split; [exact C|]. split; [rewrite recv_snoc_s; exact D|split; [exact DL|hsplit]].
    + crush Hs.
      split; [|right; eexists; reflexivity].
      split; [exact R'|]. split; [exists p; auto|]. split; [exact C|split; [exact D|split; [exact DL|hsplit]]].
  - (* BatchEnd *)
    unfold do_batch_end in Hs; cbn in Hs. crush Hs.
    split; [|left; reflexivity].
    split; [exact R'|]. split; [exists p; auto|]. split; [exact C|split; [exact D|split; [exact DL|hsplit]]].
  - (* SendSeg *)
    unfold do_send_seg in Hs; cbn in Hs. crush Hs;
    (split; [|left; reflexivity]);
    (split; [exact R'|]); (split; [exists p; auto|]); (split; [exact C|split; [exact D|split; [exact DL|hsplit]]]).
  - (* SegIn *)
    unfold do_seg_in in Hs; cbn in Hs. crush Hs.
    split; [|left; reflexivity].
    split; [exact R'|]. split; [exists p; auto|]. split; [exact C|split; [exact D|split; [exact DL|hsplit]]].
  - (* DecIncomplete *)
    unfold do_dec_incomplete in Hs; cbn in Hs.
    destruct (GI eq_refl) as (m & NM & LT).
    assert (IN : In m conv).
    { eapply projR_in. eapply prefix_in; [exact PW|]. eapply nth_error_In; eauto. }
    destruct (HS m IN) as (_ & MX & _).
    destruct rph; try discriminate. destruct (0 <? rbuf); [|discriminate].
    assert (E : (c_maxrbuf k <? rbuf) = false) by (apply N.ltb_ge; lia). rewrite E in Hs.
    inversion Hs; subst; clear Hs. cbn in *.
    split; [|left; reflexivity].
    split; [exact R'|]. split; [exists p; auto|]. split; [exact C|split; [exact D|split; [exact DL|hsplit]]].
  - (* DecMsg *)
    unfold do_dec_msg in Hs; cbn in Hs.
    specialize (GD m eq_refl).
    assert (IN : In m conv).
    { eapply projR_in. eapply prefix_in; [exact PW|]. eapply nth_error_In; eauto. }
    destruct (HS m IN) as (_ & _ & LM).
    destruct rph; try discriminate. destruct (_ && _); [|discriminate].
    assert (E : (0 <? limit_of sm cur) && (limit_of sm cur <? m_len m) = false).
    { destruct (LM cur) as [Z|Z]; [rewrite Z; reflexivity|]. apply andb_false_iff. right. apply N.ltb_ge. exact Z. }
    rewrite E in Hs. inversion Hs; subst; clear Hs. cbn -[firstn] in *.
    destruct (nth_error_snoc _ _ _ GD) as (F1 & F2).
    split; [|left; reflexivity].
    split; [exact R'|]. split; [exists p; auto|]. split; [exact C|].
    split; [rewrite F1, D; cbn; rewrite !app_nil_r, <- app_assoc; reflexivity|split; [exact F2|hsplit]].
  - (* Admit *)
    unfold do_admit in Hs; cbn in Hs. crush Hs.
    split; [|left; reflexivity].
    split; [exact R'|]. split; [exists p; auto|]. split; [exact C|split; [exact D|split; [exact DL|hsplit]]].
  - (* Put *)
    unfold do_put in Hs; cbn in Hs. crush Hs;
    (split; [|left; reflexivity]);
    (split; [exact R'|]); (split; [exists p; auto|]); (split; [exact C|]);
    (split; [rewrite D; cbn; rewrite ?app_nil_r, <- ?app_assoc; reflexivity|split; [exact DL|hsplit]]).
  - (* TakeRecvToken *)
    unfold do_take_recv in Hs; cbn in Hs. crush Hs.
    split; [|left; reflexivity].
    split; [exact R'|]. split; [exists p; auto|]. split; [exact C|split; [exact D|split; [exact DL|hsplit]]].
  - (* Handle *)
    unfold do_handle in Hs; cbn in Hs.
    destruct lph; try discriminate. destruct recvq as [|m rq']; [discriminate|].
    specialize (T5 eq_refl). subst rh.
    assert (HO : ours (other r) (agency_of sm cur) = true) by (rewrite ours_other, <- T2; apply orb_true_r).
    assert (HP : prefix (projR (other r) s0 (firstn p conv) ++ m :: rq' ++ rmsgs rph) (projR (other r) s0 conv)).
    { rewrite <- TP, <- M4. change (m :: rq' ++ rmsgs rph) with ((m :: rq') ++ rmsgs rph). rewrite <- D.
      eapply prefix_trans; [apply firstn_prefix|exact PW]. }
    rewrite <- PE, <- M2, TP in HO.
    destruct (head_lemma (other r) p m _ HC HP HO) as (q' & tl' & SK & NX).
    rewrite <- TP, M2, PE in NX. rewrite NX in Hs. inversion Hs; subst; clear Hs. cbn in *.
    destruct (firstn_snoc _ _ _ _ SK) as (F1 & F2).
    split; [|left; reflexivity].
    split; [exact R'|]. split; [exists (S p); rewrite map_app, TP, F1; cbn; auto|].
    split; [exact C|]. split; [rewrite recv_snoc_r, map_app, D; cbn; rewrite <- app_assoc; reflexivity|split; [exact DL|hsplit]].
  - (* HandlerCall *)
    unfold do_handler_call in Hs; cbn in Hs. crush Hs.
    split; [|left; reflexivity].
    split; [exact R'|]. split; [exists p; auto|]. split; [exact C|split; [exact D|split; [exact DL|hsplit]]].
  - (* HandlerRet *)
    destruct r0; try discriminate AL.
    unfold do_handler_ret in Hs; cbn in Hs. crush Hs;
    (split; [|left; reflexivity]);
    (split; [exact R'|]); (split; [exists p; auto|]); (split; [exact C|split; [exact D|split; [exact DL|hsplit]]]).
  - (* SendError: no loop is in a failing phase *)
    unfold do_send_error in Hs; cbn in Hs. exfalso.
    destruct g; [destruct sph|destruct rph|destruct lph]; try discriminate; cbn in *; auto.
Qed.


Lemma lstep_inv r rq e dec pw l e' dec' :
  EInv r rq e dec pw -> prefix pw (projR (other r) s0 conv) ->
  lstep sm s0 k conv r rq e dec pw l = Some (e', dec') ->
  EInv r rq e' dec' pw /\
  (wire_log (lg e') = wire_log (lg e) \/ exists m, wire_log (lg e') = wire_log (lg e) ++ [m]).
Proof.
  intros I PW H.
  assert (G : forall l0, allowed l0 = true ->
            (forall m, l0 <> Enq m) -> (forall m, l0 <> DecMsg m) -> l0 <> DecIncomplete ->
            match step sm r s0 rq k e l0 with Some e0 => Some (e0, dec) | None => None end = Some (e', dec') ->
            EInv r rq e' dec' pw /\
            (wire_log (lg e') = wire_log (lg e) \/ exists m, wire_log (lg e') = wire_log (lg e) ++ [m])).
  { intros l0 AL N1 N2 N3 H0. destruct (step sm r s0 rq k e l0) as [e0|] eqn:E; [|discriminate].
    injection H0 as <- <-.
    pose proof (step_inv r rq e dec pw l0 e0 I PW AL) as X.
    assert (Y : match l0 with DecMsg _ => S dec | _ => dec end = dec) by (destruct l0; try reflexivity; exfalso; eapply N2; reflexivity).
    rewrite Y in X. apply X; auto.
    - intros m EQ. exfalso. eapply N1; eauto.
    - intros m EQ. exfalso. eapply N2; eauto.
    - intros EQ. exfalso. eapply N3; eauto. }
  destruct l; lazy beta iota delta [lstep] in H; try discriminate H;
    try (eapply G; [..|exact H]; [reflexivity|intros; discriminate|intros; discriminate|discriminate]; fail).
  - (* Enq *)
    destruct (nth_error (projR r s0 conv) (length (enq_log (lg e)))) as [m'|] eqn:NE; [|discriminate].
    destruct (_ && _); [|discriminate].
    destruct (step sm r s0 rq k e (Enq m')) as [e0|] eqn:E; [|discriminate]. injection H as <- <-.
    pose proof (step_inv r rq e dec pw (Enq m') e0 I PW eq_refl) as X. cbn in X. apply X; auto.
    + intros m0 EQ. injection EQ as <-. exact NE.
    + intros; discriminate.
    + intros; discriminate.
  - (* DecIncomplete *)
    destruct (nth_error pw dec) as [m'|] eqn:NE; [|discriminate].
    destruct (rbuf (rc e) <? m_len m') eqn:LT; [|discriminate].
    destruct (step sm r s0 rq k e DecIncomplete) as [e0|] eqn:E; [|discriminate]. injection H as <- <-.
    pose proof (step_inv r rq e dec pw DecIncomplete e0 I PW eq_refl) as X. cbn in X. apply X; auto.
    + intros; discriminate.
    + intros; discriminate.
    + intros _. exists m'. split; [exact NE|apply N.ltb_lt; exact LT].
  - (* DecMsg *)
    destruct (nth_error pw dec) as [m'|] eqn:NE; [|discriminate].
    destruct (N.eqb (m_id m) (m_id m')); [|discriminate].
    destruct (step sm r s0 rq k e (DecMsg m')) as [e0|] eqn:E; [|discriminate]. injection H as <- <-.
    pose proof (step_inv r rq e dec pw (DecMsg m') e0 I PW eq_refl) as X. cbn in X. apply X; auto.
    + intros; discriminate.
    + intros m0 EQ. injection EQ as <-. exact NE.
    + intros; discriminate.
  - (* HandlerRet *)
    destruct r0; try discriminate H.
    eapply G; [..|exact H]; [reflexivity|intros; discriminate|intros; discriminate|discriminate].
Qed.

(* ------------------------------------------------------- the composition *)
Notation cstep := (cstep sm s0 rqa rqb k conv).
Notation crun := (crun sm s0 rqa rqb k conv).
Notation cinit := (cinit sm s0).

Definition CInv (s : cst) : Prop :=
  EInv RClient rqa (ea s) (deca s) (wire_log (lg (eb s))) /\
  EInv RServer rqb (eb s) (decb s) (wire_log (lg (ea s))).

Lemma CInv_init : CInv cinit.
Proof. split; apply EInv_init. Qed.

Lemma EInv_peer r rq e dec pw pw' :
  EInv r rq e dec pw -> (pw' = pw \/ exists m, pw' = pw ++ [m]) -> EInv r rq e dec pw'.
Proof. intros I [->|(m & ->)]; [exact I|apply EInv_grow; exact I]. Qed.

Lemma CInv_step s x s' : CInv s -> cstep s x = Some s' -> CInv s'.
Proof.
  intros (IA & IB) H. destruct x as [side l]. unfold Compose.cstep in H.
  pose proof (EInv_wire _ _ _ _ _ IA) as WA. pose proof (EInv_wire _ _ _ _ _ IB) as WB.
  destruct side.
  - assert (G : forall e' d', lstep sm s0 k conv RClient rqa (ea s) (deca s) (wire_log (lg (eb s))) l = Some (e', d') ->
              EInv RClient rqa e' d' (wire_log (lg (eb s))) /\ EInv RServer rqb (eb s) (decb s) (wire_log (lg e'))).
    { intros e' d' L. destruct (lstep_inv _ _ _ _ _ _ _ _ IA WB L) as (I1 & W). split; [exact I1|].
      eapply EInv_peer; eauto. }
    destruct l; try (destruct (lstep sm s0 k conv RClient rqa (ea s) (deca s) (wire_log (lg (eb s))) _) as [[e' d']|] eqn:L;
                     [|discriminate]; injection H as <-; destruct (G _ _ eq_refl); split; assumption).
    destruct (wba s) as [|n' w]; [discriminate|]. destruct (N.eqb n n'); [|discriminate].
    destruct (lstep sm s0 k conv RClient rqa (ea s) (deca s) (wire_log (lg (eb s))) _) as [[e' d']|] eqn:L; [|discriminate].
    injection H as <-. destruct (G _ _ eq_refl). split; assumption.
  - assert (G : forall e' d', lstep sm s0 k conv RServer rqb (eb s) (decb s) (wire_log (lg (ea s))) l = Some (e', d') ->
              EInv RServer rqb e' d' (wire_log (lg (ea s))) /\ EInv RClient rqa (ea s) (deca s) (wire_log (lg e'))).
    { intros e' d' L. destruct (lstep_inv _ _ _ _ _ _ _ _ IB WA L) as (I1 & W). split; [exact I1|].
      eapply EInv_peer; eauto. }
    destruct l; try (destruct (lstep sm s0 k conv RServer rqb (eb s) (decb s) (wire_log (lg (ea s))) _) as [[e' d']|] eqn:L;
                     [|discriminate]; injection H as <-; destruct (G _ _ eq_refl); split; assumption).
    destruct (wab s) as [|n' w]; [discriminate|]. destruct (N.eqb n n'); [|discriminate].
    destruct (lstep sm s0 k conv RServer rqb (eb s) (decb s) (wire_log (lg (ea s))) _) as [[e' d']|] eqn:L; [|discriminate].
    injection H as <-. destruct (G _ _ eq_refl). split; assumption.
Qed.

Theorem CInv_run : forall ls s, crun cinit ls = Some s -> CInv s.
Proof.
  assert (G : forall ls s s', CInv s -> crun s ls = Some s' -> CInv s').
  { induction ls as [|x ls IH]; intros s s' I H; cbn in H.
    - injection H as <-. exact I.
    - destruct (cstep s x) as [s1|] eqn:E; [|discriminate]. eapply IH; [eapply CInv_step; eauto|exact H]. }
  intros ls s H. eapply G; [apply CInv_init|exact H].
Qed.

(* ---- what the invariant says about one endpoint --------------------------- *)
Lemma EInv_logs r rq e dec pw : EInv r rq e dec pw ->
  healthy e /\
  prefix (map tmsg (tlog (lg e))) conv /\
  prefix (hmsgs e) (projR (other r) s0 conv) /\
  prefix (wire_log (lg e)) (projR r s0 conv) /\
  (length (tlog (lg e)) = length conv -> accepted_pending (lph (rc e)) = [] ->
     hmsgs e = projR (other r) s0 conv /\ map tmsg (tlog (lg e)) = conv).
Proof.
  intros I. pose proof (EInv_wire _ _ _ _ _ I) as W.
  destruct I as ((ls & R) & (p & TP & PL) & C & D & DL & H).
  destruct (path_inv sm r s0 rq k ls e R) as (_ & PA & _ & PR & _).
  destruct (path_msgs r _ _ PA) as (M1 & _ & _ & M4).
  destruct Hconf as (HC & _).
  assert (HM : prefix (hmsgs e) (map snd (recv_msgs (tlog (lg e))))).
  { unfold hmsgs. rewrite PR, map_app. apply prefix_app_l. }
  assert (PP : prefix (projR (other r) s0 (firstn p conv)) (projR (other r) s0 conv)).
  { pose proof HC as HC'. rewrite <- (firstn_skipn p conv) in HC'. apply cpath_app in HC'.
    rewrite <- (firstn_skipn p conv) at 2. rewrite (projR_app _ _ _ _ (proj1 HC')). apply prefix_app_l. }
  split; [exact H|]. split; [rewrite TP; apply firstn_prefix|].
  split; [eapply prefix_trans; [exact HM|]; rewrite M4, TP; exact PP|].
  split; [exact W|].
  intros LEN AP.
  assert (PE : p = length conv).
  { assert (X : length (map tmsg (tlog (lg e))) = length (firstn p conv)) by (rewrite TP; reflexivity).
    rewrite map_length, firstn_length in X. lia. }
  subst p. rewrite firstn_all in TP. split; [|exact TP].
  unfold hmsgs. rewrite <- TP, <- M4, PR, AP, app_nil_r. reflexivity.
Qed.

End ComposeProofs.
