(* C12 - the composition of two engines on a conversation has no infinite
   schedule: an explicit measure `mu` (N) decreases with every label of the
   composition, so a schedule from the initial state has at most `mu cinit`
   labels.  No invariant is needed, only SegmentMaxPayloadLength > 0 (with 0
   the segment loop of the model spins for ever).  Together with Progress.v:
   every schedule can only be extended finitely often, and when it cannot be
   extended the conversation is complete. *)
From V Require Import Lib.Base C11.Engine C11.EngineProofs C12.Proofs C12.Compose C12.ComposeProofs C12.ProgressInv.
Local Open Scope N_scope.
Local Arguments sumN : simpl never.

Definition wsum (c : N) (l : list msg) : N := sumN (map (fun m => 3 * m_len m + c) l).
Lemma wsum_cons c m l : wsum c (m :: l) = 3 * m_len m + c + wsum c l.
Proof. reflexivity. Qed.
Lemma wsum_nil c : wsum c [] = 0.
Proof. reflexivity. Qed.
Lemma wsum_app c a b : wsum c (a ++ b) = wsum c a + wsum c b.
Proof. unfold wsum. rewrite map_app. apply sumN_app'. Qed.
Local Arguments wsum : simpl never.

Lemma skipn_nth {A} : forall (l : list A) n x, nth_error l n = Some x -> skipn n l = x :: skipn (S n) l.
Proof.
  induction l as [|y l IH]; intros n x H; destruct n; cbn in H; try discriminate.
  - injection H as ->. reflexivity.
  - cbn [skipn]. rewrite (IH _ _ H). reflexivity.
Qed.

Definition srank (p : sphase) : N :=
  match p with SDead => 0 | SFail => 1 | SHeld => 2 | SWait => 3
             | SSeg rem => 3 * rem + 6 | SBatch _ pay => 3 * pay + 7 end.
Definition rrank (p : rphase) : N :=
  match p with RDead _ => 0 | RFail => 1 | RWaitSeg => 1 | RDecode => 2 | RPut _ => 7 | RAdmit _ _ => 8 end.
Definition lrank (p : lphase) : N :=
  match p with LDead _ => 0 | LFail _ => 1 | LWaitMsg => 0 | LWaitTok => 1 | LInHandler _ => 2 | LAccepted _ _ => 3 end.

(* send side: messages still to enqueue, queued messages, queued transitions, phase *)
Definition MS (proj : list msg) (e : st) : N :=
  wsum 14 (skipn (length (enq_log (lg e))) proj) + wsum 13 (sendq (sn e)) +
  2 * N.of_nat (length (queued (sn e))) + srank (sph (sn e)).
(* receive side: segments on the incoming wire, messages written by the peer and
   not yet decoded, messages in the receive queue, phases of readLoop and recvLoop *)
Definition MR (e : st) (dec : nat) (pw : list msg) (w : list N) : N :=
  2 * N.of_nat (length w) + 7 * N.of_nat (length pw - dec) + 4 * N.of_nat (length (recvq (rc e))) +
  rrank (rph (rc e)) + lrank (lph (rc e)).

Section Term.
Variable sm : statemap.
Variable s0 : N.
Variable rqa rqb : N.
Variable k : consts.
Variable conv : list msg.
Hypothesis Hseg : 0 < c_segmax k.
Notation projR := (projR sm).
Notation lstep := (lstep sm s0 k conv).
Notation cstep := (cstep sm s0 rqa rqb k conv).
Notation crun := (crun sm s0 rqa rqb k conv).
Notation cinit := (cinit sm s0).

Lemma step_measure r rq e l e' proj dec pw win wout :
  allowed l = true -> step sm r s0 rq k e l = Some e' ->
  (forall m, l = Enq m -> nth_error proj (length (enq_log (lg e))) = Some m) ->
  (forall m, l = DecMsg m -> nth_error pw dec = Some m) ->
  (forall n, l = SegIn n -> exists w, win = n :: w) ->
  MS proj e' + MR e' (match l with DecMsg _ => S dec | _ => dec end) pw (match l with SegIn _ => tl win | _ => win end)
    + 7 * N.of_nat (length (wire_log (lg e')))
    + 2 * N.of_nat (length (match l with SendSeg n => wout ++ [n] | _ => wout end))
  < MS proj e + MR e dec pw win + 7 * N.of_nat (length (wire_log (lg e))) + 2 * N.of_nat (length wout) /\
  (length (wire_log (lg e)) <= length (wire_log (lg e')))%nat.
Proof.
  intros AL Hs GE GD GS. destr_st e. unfold MS, MR. cbn in *.
  destruct l; try discriminate AL; cbn in Hs; unf_step Hs; cbn in Hs; crush Hs.
  all: rewrite ?app_length; cbn [length]; rewrite ?wsum_cons, ?wsum_nil, ?wsum_app.
  all: try (split; lia).
  - (* Enq *)
    rewrite Nat.add_1_r. rewrite (skipn_nth _ _ _ (GE m eq_refl)), !wsum_cons, wsum_nil. split; lia.
  - (* SegIn *)
    destruct (GS n eq_refl) as (w & ->). cbn [List.tl length]. split; lia.
  - (* DecMsg *)
    assert (LT : (dec < length pw)%nat) by (apply nth_error_Some; rewrite (GD m eq_refl); discriminate).
    split; lia.
Qed.

Definition mu (s : cst) : N :=
  MS (projR RClient s0 conv) (ea s) + MR (ea s) (deca s) (wire_log (lg (eb s))) (wba s) +
  MS (projR RServer s0 conv) (eb s) + MR (eb s) (decb s) (wire_log (lg (ea s))) (wab s).

Lemma lstep_measure r rq x dx pw l x' dx' win wout :
  lstep r rq x dx pw l = Some (x', dx') ->
  (forall n, l = SegIn n -> exists w, win = n :: w) ->
  MS (projR r s0 conv) x' + MR x' dx' pw (match l with SegIn _ => tl win | _ => win end)
    + 7 * N.of_nat (length (wire_log (lg x')))
    + 2 * N.of_nat (length (match l with SendSeg n => wout ++ [n] | _ => wout end))
  < MS (projR r s0 conv) x + MR x dx pw win + 7 * N.of_nat (length (wire_log (lg x))) + 2 * N.of_nat (length wout) /\
  (length (wire_log (lg x)) <= length (wire_log (lg x')))%nat.
Proof.
  intros H HS.
  destruct (lstep_step _ _ _ _ _ _ _ _ _ _ _ _ H) as (l' & Hs & AL & -> & GE & GD & _ & SI & SS).
  rewrite (match_sendseg l l' (fun n => wout ++ [n]) wout SS).
  rewrite (match_segin l l' (fun n => tl win) win SI).
  apply (step_measure r rq x l' x' _ dx pw win wout AL Hs GE GD).
  intros n E. apply HS. apply SI. exact E.
Qed.

Lemma cstep_measure s x s' : cstep s x = Some s' -> mu s' < mu s.
Proof.
  intros H. destruct x as [side l]. unfold Compose.cstep in H.
  destruct side.
  - assert (G : forall e' d', lstep RClient rqa (ea s) (deca s) (wire_log (lg (eb s))) l = Some (e', d') ->
              (forall n, l = SegIn n -> exists w, wba s = n :: w) ->
              mu {| ea := e'; eb := eb s; deca := d'; decb := decb s;
                    wab := match l with SendSeg n => wab s ++ [n] | _ => wab s end;
                    wba := match l with SegIn n => tl (wba s) | _ => wba s end |} < mu s).
    { intros e' d' L HS. destruct (lstep_measure _ _ _ _ _ _ _ _ _ (wab s) L HS) as (M1 & M2).
      unfold mu, MR in *; cbn [ea eb deca decb wab wba]. lia. }
    destruct l; try (destruct (lstep RClient rqa (ea s) (deca s) (wire_log (lg (eb s))) _) as [[e' d']|] eqn:L;
                     [|discriminate]; injection H as <-; apply (G _ _ eq_refl); intros; discriminate).
    destruct (wba s) as [|n' w] eqn:EW; [discriminate|]. destruct (N.eqb n n') eqn:EN; [|discriminate].
    apply N.eqb_eq in EN. subst n'.
    destruct (lstep RClient rqa (ea s) (deca s) (wire_log (lg (eb s))) _) as [[e' d']|] eqn:L; [|discriminate].
    injection H as <-. apply (G _ _ eq_refl). intros n0 E. injection E as <-. eexists; reflexivity.
  - assert (G : forall e' d', lstep RServer rqb (eb s) (decb s) (wire_log (lg (ea s))) l = Some (e', d') ->
              (forall n, l = SegIn n -> exists w, wab s = n :: w) ->
              mu {| ea := ea s; eb := e'; deca := deca s; decb := d';
                    wab := match l with SegIn n => tl (wab s) | _ => wab s end;
                    wba := match l with SendSeg n => wba s ++ [n] | _ => wba s end |} < mu s).
    { intros e' d' L HS. destruct (lstep_measure _ _ _ _ _ _ _ _ _ (wba s) L HS) as (M1 & M2).
      unfold mu, MR in *; cbn [ea eb deca decb wab wba]. lia. }
    destruct l; try (destruct (lstep RServer rqb (eb s) (decb s) (wire_log (lg (ea s))) _) as [[e' d']|] eqn:L;
                     [|discriminate]; injection H as <-; apply (G _ _ eq_refl); intros; discriminate).
    destruct (wab s) as [|n' w] eqn:EW; [discriminate|]. destruct (N.eqb n n') eqn:EN; [|discriminate].
    apply N.eqb_eq in EN. subst n'.
    destruct (lstep RServer rqb (eb s) (decb s) (wire_log (lg (ea s))) _) as [[e' d']|] eqn:L; [|discriminate].
    injection H as <-. apply (G _ _ eq_refl). intros n0 E. injection E as <-. eexists; reflexivity.
Qed.

(* every label costs at least one unit of the measure, from any state *)
Theorem crun_measure : forall ls s s', crun s ls = Some s' -> N.of_nat (length ls) + mu s' <= mu s.
Proof.
  induction ls as [|x ls IH]; intros s s' H; cbn in H.
  - injection H as <-. cbn. lia.
  - destruct (cstep s x) as [s1|] eqn:E; [|discriminate].
    pose proof (cstep_measure _ _ _ E). specialize (IH _ _ H). cbn [length]. lia.
Qed.

(* the bound for schedules from the initial state, in terms of the conversation only *)
Definition bound : N :=
  wsum 14 (projR RClient s0 conv) + wsum 14 (projR RServer s0 conv) + 10.

Lemma mu_init : mu cinit <= bound.
Proof.
  unfold mu, bound, MS, MR, cinit. cbn. rewrite !wsum_nil. lia.
Qed.

Theorem terminates : forall ls s, crun cinit ls = Some s -> N.of_nat (length ls) <= bound.
Proof.
  intros ls s H. pose proof (crun_measure _ _ _ H). pose proof mu_init. lia.
Qed.

End Term.
