(* C12 - two engines (client A, server B) of the same state map talking to each
   other over two FIFO wires, and conformance of a conversation.  Definitions
   only; proofs in ComposeProofs.v.  Engine.v is used unchanged.

   The wire carries A's segments to B and B's to A.  Bytes are abstract in the
   engine model, so the composition fixes what a faithful codec does with the
   byte stream: the k-th message an endpoint decodes IS the k-th message the
   peer wrote (DecMsg), a decode is "incomplete" only while fewer bytes than
   that message's length are buffered (DecIncomplete), and there is no garbage
   (DecBad, DecEmpty never happen).  Environment assumptions of the clause
   "when the caller uses the protocol correctly": no timeout, no external
   Stop, muxer alive, handlers return nil, and the caller does not exceed the
   pending-send byte limit (EnqOver never happens; Enq is simply not enabled
   then). *)
From V Require Import Lib.Base C11.Engine.
Local Open Scope N_scope.

Definition other (r : role) : role := match r with RClient => RServer | RServer => RClient end.

Section Compose.
Variable sm : statemap.
Variable s0 : N.
Variable rqa rqb : N.     (* receive queue capacities of A and B *)
Variable k : consts.
Variable conv : list msg. (* the conversation *)

(* a conversation is a path of the automaton in which every message is sent
   from a state where some side has agency *)
Fixpoint cpath (q : N) (l : list msg) : Prop :=
  match l with
  | [] => True
  | m :: r => exists q', next sm q m = Some q' /\ agency_of sm q <> ANone /\ cpath q' r
  end.
Fixpoint cend (q : N) (l : list msg) : N :=
  match l with
  | [] => q
  | m :: r => match next sm q m with Some q' => cend q' r | None => q end
  end.
(* the messages of the conversation that role r sends (it has agency in the
   state the message is sent from), in order *)
Fixpoint projR (r : role) (q : N) (l : list msg) : list msg :=
  match l with
  | [] => []
  | m :: t => match next sm q m with
              | Some q' => (if ours r (agency_of sm q) then [m] else []) ++ projR r q' t
              | None => []
              end
  end.

(* sizes: every message is non-empty, fits the read buffer, and fits every
   declared byte limit (otherwise the receiver must refuse it as oversized) *)
Definition sizes_ok : Prop :=
  forall m, In m conv -> 0 < m_len m /\ m_len m <= c_maxrbuf k /\
    forall q, limit_of sm q = 0 \/ m_len m <= limit_of sm q.

Definition conforming : Prop := cpath s0 conv /\ sizes_ok.

Definition prefix {A} (a b : list A) : Prop := exists t, b = a ++ t.

(* ---- one endpoint inside the composition --------------------------------- *)
(* r: its role, rq: its queue capacity, e: its engine state, dec: how many of
   the peer's messages it has decoded, pw: the peer's written messages *)
Definition lstep (r : role) (rq : N) (e : st) (dec : nat) (pw : list msg) (l : label) : option (st * nat) :=
  match l with
  | Enq m =>
      match nth_error (projR r s0 conv) (length (enq_log (lg e))) with
      | Some m' => if N.eqb (m_id m) (m_id m') && N.eqb (m_type m) (m_type m') && N.eqb (m_len m) (m_len m')
                      && list_eqb N.eqb (m_guards m) (m_guards m')
                   then match step sm r s0 rq k e (Enq m') with Some e' => Some (e', dec) | None => None end
                   else None
      | None => None
      end
  | DecMsg m =>
      match nth_error pw dec with
      | Some m' => if N.eqb (m_id m) (m_id m')
                   then match step sm r s0 rq k e (DecMsg m') with Some e' => Some (e', S dec) | None => None end
                   else None
      | None => None
      end
  | DecIncomplete =>
      match nth_error pw dec with
      | Some m' => if rbuf (rc e) <? m_len m'
                   then match step sm r s0 rq k e DecIncomplete with Some e' => Some (e', dec) | None => None end
                   else None
      | None => None
      end
  | DecBad | DecEmpty | Timeout _ | MuxDone | Stop | Exit _ | EnqOver _ _
  | HandlerRet HErr | HandlerRet HShut => None
  | _ => match step sm r s0 rq k e l with Some e' => Some (e', dec) | None => None end
  end.

(* ---- the composed system -------------------------------------------------- *)
Record cst := { ea : st; eb : st; deca : nat; decb : nat;
                wab : list N;   (* segments written by A, not yet read by B *)
                wba : list N }.

Definition cinit : cst :=
  {| ea := init sm RClient s0; eb := init sm RServer s0; deca := 0; decb := 0; wab := []; wba := [] |}.

(* (true, l): endpoint A does l; (false, l): endpoint B does l *)
Definition cstep (s : cst) (x : bool * label) : option cst :=
  let '(side, l) := x in
  if side then
    match l with
    | SegIn n =>
        match wba s with
        | n' :: w => if N.eqb n n' then
            match lstep RClient rqa (ea s) (deca s) (wire_log (lg (eb s))) l with
            | Some (e', d') => Some {| ea := e'; eb := eb s; deca := d'; decb := decb s; wab := wab s; wba := w |}
            | None => None end else None
        | [] => None
        end
    | _ =>
        match lstep RClient rqa (ea s) (deca s) (wire_log (lg (eb s))) l with
        | Some (e', d') => Some {| ea := e'; eb := eb s; deca := d'; decb := decb s;
                                   wab := match l with SendSeg n => wab s ++ [n] | _ => wab s end; wba := wba s |}
        | None => None
        end
    end
  else
    match l with
    | SegIn n =>
        match wab s with
        | n' :: w => if N.eqb n n' then
            match lstep RServer rqb (eb s) (decb s) (wire_log (lg (ea s))) l with
            | Some (e', d') => Some {| ea := ea s; eb := e'; deca := deca s; decb := d'; wab := w; wba := wba s |}
            | None => None end else None
        | [] => None
        end
    | _ =>
        match lstep RServer rqb (eb s) (decb s) (wire_log (lg (ea s))) l with
        | Some (e', d') => Some {| ea := ea s; eb := e'; deca := deca s; decb := d';
                                   wab := wab s; wba := match l with SendSeg n => wba s ++ [n] | _ => wba s end |}
        | None => None
        end
    end.

Fixpoint crun (s : cst) (ls : list (bool * label)) : option cst :=
  match ls with
  | [] => Some s
  | x :: r => match cstep s x with Some s' => crun s' r | None => None end
  end.

(* no loop has failed or returned and no flag is set *)
Definition healthy (e : st) : Prop :=
  salive (sph (sn e)) = true /\
  (match rph (rc e) with RFail | RDead _ => False | _ => True end) /\
  (match lph (rc e) with LFail _ | LDead _ => False | _ => True end) /\
  err (fl e) = false /\ stopped (fl e) = false /\ muxdone (fl e) = false.

Definition tmsg (t : tentry) : msg := snd (fst t).
Definition hmsgs (e : st) : list msg := map snd (hlog (lg e)).

End Compose.
