(* C12 - outbound messages keep their order and drive the state machine in that
   order.  All statements: every state map, role, constants, every label list. *)
From V Require Import Lib.Base C11.Engine C11.EngineProofs C11.Model C12.Proofs C12.Gen.
Local Open Scope N_scope.

(* messages written for the wire, then the (at most one) message refused by the
   state machine, then the messages still queued = the accepted SendMessage
   calls in call order: nothing is reordered, duplicated or lost while the
   send loop runs *)
Theorem C12_wire_order : forall sm r s0 rqcap k ls s,
  run sm r s0 rqcap k (init sm r s0) ls = Some s ->
  wire_log (lg s) ++ rej_log (lg s) ++ sendq (sn s) = enq_log (lg s) /\
  (length (rej_log (lg s)) <= 1)%nat /\ (rej_log (lg s) <> [] -> salive (sph (sn s)) = false).
Proof. exact order_inv. Qed.
Print Assumptions C12_wire_order.

(* the bytes handed to the muxer are those messages' bytes: segment sizes add up
   to the written messages (minus what is still in the payload buffer), and no
   segment exceeds SegmentMaxPayloadLength *)
Theorem C12_segments : forall sm r s0 rqcap k ls s,
  run sm r s0 rqcap k (init sm r s0) ls = Some s ->
  Forall (fun n => n <= c_segmax k) (seg_log (lg s)) /\
  sumN (seg_log (lg s)) + inflight (sph (sn s)) <= sumN (lens (wire_log (lg s))) /\
  (salive (sph (sn s)) = true -> sumN (seg_log (lg s)) + inflight (sph (sn s)) = sumN (lens (wire_log (lg s)))).
Proof. exact seg_inv. Qed.

Theorem C12_batch_size : forall sm r s0 rqcap k ls s,
  run sm r s0 rqcap k (init sm r s0) ls = Some s ->
  match sph (sn s) with SBatch cnt pay => 1 <= cnt /\ cnt <= N.max 1 (c_maxmsgs k) | _ => True end.
Proof. exact batch_bounds_inv. Qed.

(* each written message makes exactly one local transition, in the same order;
   the ones not yet made are exactly the queued (pipelined) ones *)
Theorem C12_transition_order : forall sm r s0 rqcap k ls s,
  run sm r s0 rqcap k (init sm r s0) ls = Some s ->
  strans_log (lg s) ++ queued (sn s) = wire_log (lg s).
Proof. exact trans_order_inv. Qed.
Print Assumptions C12_transition_order.

(* the interleaving of send and receive transitions is a run of the state
   machine from the initial state in which every send transition is made in a
   state where we have agency and every receive transition in a state where the
   peer has it; its send projection is the send transition log, its receive
   projection the handler log (plus the call that is imminent) *)
Theorem C12_interleave : forall sm r s0 rqcap k ls s,
  run sm r s0 rqcap k (init sm r s0) ls = Some s ->
  path sm r s0 (tlog (lg s)) /\ path_end s0 (tlog (lg s)) = cur (c s) /\
  send_msgs (tlog (lg s)) = strans_log (lg s) /\
  recv_msgs (tlog (lg s)) = hlog (lg s) ++ accepted_pending (lph (rc s)).
Proof.
  intros. destruct (path_inv sm r s0 rqcap k ls s H) as (_ & A & B & C & D). auto.
Qed.
Print Assumptions C12_interleave.

(* a first message that the current state does not permit is not sent: the
   send loop fails, nothing is added to the wire, no transition happens, and
   its only next action reports the error and stops the protocol *)
Theorem C12_first_rejected : forall sm r s0 rqcap k s m q,
  sph (sn s) = SHeld -> queued (sn s) = [] -> sendq (sn s) = m :: q -> next sm (cur (c s)) m = None ->
  exists s', step sm r s0 rqcap k s SendDeq = Some s' /\ sph (sn s') = SFail /\
    wire_log (lg s') = wire_log (lg s) /\ seg_log (lg s') = seg_log (lg s) /\ tlog (lg s') = tlog (lg s) /\
    c s' = c s /\ rej_log (lg s') = rej_log (lg s) ++ [m] /\
    (forall ls s'', run sm r s0 rqcap k s' ls = Some s'' ->
       wire_log (lg s'') = wire_log (lg s) /\ seg_log (lg s'') = seg_log (lg s)) /\
    (forall s'', stopped (fl s') = false -> step sm r s0 rqcap k s' (SendError GSend false) = Some s'' ->
       err (fl s'') = true /\ stopped (fl s'') = true).
Proof.
  intros sm r s0 rqcap k s m q H1 H2 H3 H4.
  destruct (first_rejected sm r s0 rqcap k s m q H1 H2 H3 H4) as (s' & A & B & C & D & E & F & G).
  exists s'. repeat split; auto.
  - destruct (dead_send_frozen sm r s0 rqcap k ls s' s'') as (_ & W & _); auto. rewrite B. reflexivity. congruence.
  - destruct (dead_send_frozen sm r s0 rqcap k ls s' s'') as (_ & _ & W & _); auto. rewrite B. reflexivity. congruence.
  - eapply sfail_reports; eauto.
  - eapply sfail_reports; eauto.
Qed.
Print Assumptions C12_first_rejected.

(* NOT PROVED (C12_conforming): the two-endpoint composition "a conforming
   caller's whole conversation is accepted by the peer" - see notes/C12.md.
   What is proved about one endpoint and is the local half of that statement:
   whatever is sent is a path of the state machine (C12_interleave), in enqueue
   order (C12_wire_order, C12_transition_order). *)

(* non-vacuity: a pipelined chain-sync client (three RequestNext in one batch) *)
Example C12_pipelined_run :
  match run sm_chainsync_ntn RClient 1 55 consts_gen (init sm_chainsync_ntn RClient 1)
    [Enq (M 1 0 3 []); Enq (M 2 0 3 []); Enq (M 3 0 3 []); TakeSendToken; SendDeq; SendDeq; SendDeq; BatchEnd; SendSeg 9;
     TakeRecvToken; SegIn 40; DecMsg (M 4 2 40 []); Admit; Put; Handle; HandlerCall; HandlerRet HOk;
     TakeSendToken; SendQueuedTransition] with
  | Some s => map m_id (wire_log (lg s)) = [1; 2; 3] /\ map m_id (strans_log (lg s)) = [1; 2] /\
              map m_id (queued (sn s)) = [3] /\ cur (c s) = 2
  | None => False
  end.
Proof. vm_compute. repeat split; reflexivity. Qed.
(* a first message not permitted in Idle (RollForward from the client) *)
Example C12_first_rejected_run :
  match run sm_chainsync_ntn RClient 1 55 consts_gen (init sm_chainsync_ntn RClient 1)
    [Enq (M 1 2 30 []); TakeSendToken; SendDeq; SendError GSend false] with
  | Some s => wire_log (lg s) = [] /\ seg_log (lg s) = [] /\ err (fl s) = true /\ map m_id (rej_log (lg s)) = [1]
  | None => False
  end.
Proof. vm_compute. repeat split; reflexivity. Qed.
